(* C14: exact arithmetic in Z[X]/(X^n+1) on coefficient lists (no machine wrap): zrot is multiplication by X^p. *)
From PV Require Import Base.MachineInt Model.Znx Model.Limbs Model.Ring Model.C14Lut Model.C14Blind.
From PV Require Import Proofs.C09Lists Proofs.C09Ring.
Open Scope Z_scope.

(* negacyclic extension with exact signs *)
Definition zext (a : poly) (k : Z) : Z :=
  let n := Z.of_nat (length a) in
  if Z.even (k / n) then nthZ a (Z.to_nat (k mod n)) else - nthZ a (Z.to_nat (k mod n)).

Lemma zext_at (a : poly) (k q r : Z) :
  k = q * Z.of_nat (length a) + r -> 0 <= r < Z.of_nat (length a) ->
  zext a k = if Z.even q then nthZ a (Z.to_nat r) else - nthZ a (Z.to_nat r).
Proof.
  intros -> Hr. unfold zext. cbv zeta. set (n := Z.of_nat (length a)) in *.
  assert (Hq : (q * n + r) / n = q) by (rewrite Z.div_add_l by lia; rewrite Z.div_small by lia; lia).
  assert (Hm : (q * n + r) mod n = r) by (rewrite Z.add_comm, Z.mod_add by lia; apply Z.mod_small; lia).
  rewrite Hq, Hm. reflexivity.
Qed.
Lemma zext_at_nat (a : poly) (k q : Z) (i : nat) :
  k = q * Z.of_nat (length a) + Z.of_nat i -> (i < length a)%nat ->
  zext a k = if Z.even q then nthZ a i else - nthZ a i.
Proof. intros Hk Hi. rewrite (zext_at a k q (Z.of_nat i)) by (auto; lia). rewrite Nat2Z.id. reflexivity. Qed.
Lemma zext_small (a : poly) (i : nat) : (i < length a)%nat -> zext a (Z.of_nat i) = nthZ a i.
Proof. intros Hi. rewrite (zext_at_nat a _ 0 i) by (auto; lia). reflexivity. Qed.

Lemma zext_shift (a : poly) (k q : Z) : (0 < length a)%nat ->
  zext a (k + q * Z.of_nat (length a)) = if Z.even q then zext a k else - zext a k.
Proof.
  intros Hn. set (n := Z.of_nat (length a)).
  destruct (exp_decomp n k ltac:(lia)) as [q0 [i [Hk Hi]]].
  rewrite (zext_at_nat a k q0 i) by (auto; lia).
  rewrite (zext_at_nat a (k + q * n) (q0 + q) i) by (fold n; lia).
  rewrite Z.even_add. destruct (Z.even q0), (Z.even q); cbn [Bool.eqb]; lia.
Qed.
Lemma zext_period (a : poly) (k s : Z) : (0 < length a)%nat ->
  zext a (k + s * (2 * Z.of_nat (length a))) = zext a k.
Proof.
  intros Hn. replace (s * (2 * Z.of_nat (length a))) with ((2 * s) * Z.of_nat (length a)) by ring.
  rewrite zext_shift by auto. replace (2 * s) with (0 + 2 * s) by ring. rewrite even_add_mul2. reflexivity.
Qed.
Lemma zext_congr (a : poly) (x y : Z) :
  (0 < length a)%nat -> x mod (2 * Z.of_nat (length a)) = y mod (2 * Z.of_nat (length a)) -> zext a x = zext a y.
Proof.
  intros Ha H. set (m := 2 * Z.of_nat (length a)) in *.
  pose proof (Z.div_mod x m ltac:(lia)). pose proof (Z.div_mod y m ltac:(lia)).
  replace x with (y + (x / m - y / m) * m) by lia. unfold m. apply zext_period. auto.
Qed.
Lemma zext_inj (a b : poly) : length a = length b -> (forall k, zext a k = zext b k) -> a = b.
Proof.
  intros Hl H. apply nthZ_ext; auto. intros i Hi.
  rewrite <- (zext_small a i), <- (zext_small b i) by lia. apply H.
Qed.

Lemma pneg_length a : length (pneg a) = length a.
Proof. apply map_length. Qed.
Lemma zrot_length p a : length (zrot p a) = length a.
Proof.
  unfold zrot. cbv zeta. set (k := Z.to_nat _).
  destruct (_ <? _); rewrite app_length, ?pneg_length;
    pose proof (firstn_skipn k a) as H; apply (f_equal (@length Z)) in H; rewrite app_length in H; lia.
Qed.

Lemma zrot_nth p (a : poly) i : (i < length a)%nat -> nthZ (zrot p a) i = zext a (Z.of_nat i - p).
Proof.
  intros Hi. unfold zrot. cbv zeta.
  set (n := Z.of_nat (length a)). assert (Hn : 0 < n) by lia.
  pose proof (Z.div_mod p (2 * n) ltac:(lia)) as Hdm.
  pose proof (Z.mod_pos_bound p (2 * n) ltac:(lia)) as Hb2.
  set (m2 := p mod (2 * n)) in *. set (t := p / (2 * n)) in *. clearbody m2 t.
  destruct (Z.ltb_spec m2 n) as [Hlt|Hge].
  - rewrite (Z.mod_small m2 n) by lia.
    set (s := Z.to_nat (n - m2)).
    assert (Hl1 : length (pneg (skipn s a)) = Z.to_nat m2) by (rewrite pneg_length, skipn_length; lia).
    destruct (Z.ltb_spec (Z.of_nat i) m2) as [Hi2|Hi2].
    + rewrite nthZ_app_l by lia. unfold pneg. rewrite nthZ_map by (rewrite skipn_length; lia).
      rewrite nthZ_skipn.
      rewrite (zext_at_nat a _ (- 2 * t - 1) (s + i)) by (fold n; lia).
      replace (- 2 * t - 1) with (1 + 2 * (- t - 1)) by ring. rewrite even_add_mul2. reflexivity.
    + rewrite nthZ_app_r by lia. rewrite Hl1. rewrite nthZ_firstn by lia.
      rewrite (zext_at_nat a _ (- 2 * t) (i - Z.to_nat m2)) by (fold n; lia).
      replace (- 2 * t) with (0 + 2 * (- t)) by ring. rewrite even_add_mul2. reflexivity.
  - assert (Hm1 : m2 mod n = m2 - n) by (symmetry; apply (Z.mod_unique_pos m2 n 1 (m2 - n)); lia).
    rewrite Hm1. set (s := Z.to_nat (n - (m2 - n))).
    assert (Hl1 : length (skipn s a) = Z.to_nat (m2 - n)) by (rewrite skipn_length; lia).
    destruct (Z.ltb_spec (Z.of_nat i) (m2 - n)) as [Hi2|Hi2].
    + rewrite nthZ_app_l by lia. rewrite nthZ_skipn.
      rewrite (zext_at_nat a _ (- 2 * t - 2) (s + i)) by (fold n; lia).
      replace (- 2 * t - 2) with (0 + 2 * (- t - 1)) by ring. rewrite even_add_mul2. reflexivity.
    + rewrite nthZ_app_r by lia. rewrite Hl1. unfold pneg.
      rewrite nthZ_map by (rewrite firstn_length; lia). rewrite nthZ_firstn by lia.
      rewrite (zext_at_nat a _ (- 2 * t - 1) (i - Z.to_nat (m2 - n))) by (fold n; lia).
      replace (- 2 * t - 1) with (1 + 2 * (- t - 1)) by ring. rewrite even_add_mul2. reflexivity.
Qed.

Lemma zext_nil k : zext [] k = 0.
Proof. unfold zext, nthZ. cbv zeta. destruct (Z.even _); destruct (Z.to_nat _); reflexivity. Qed.
Lemma zrot_nil p : zrot p [] = [].
Proof. unfold zrot. cbv zeta. rewrite firstn_nil, skipn_nil. destruct (_ <? _); reflexivity. Qed.

Lemma zext_zrot p a k : zext (zrot p a) k = zext a (k - p).
Proof.
  destruct (Nat.eq_dec (length a) 0) as [H0|H0].
  { destruct a; [|discriminate]. rewrite zrot_nil, !zext_nil. reflexivity. }
  set (n := Z.of_nat (length a)).
  destruct (exp_decomp n k ltac:(lia)) as [q [i [Hk Hi]]].
  rewrite (zext_at_nat (zrot p a) k q i) by (rewrite zrot_length; fold n; auto; lia).
  rewrite zrot_nth by lia.
  replace (k - p) with ((Z.of_nat i - p) + q * n) by lia.
  unfold n. rewrite zext_shift by lia. reflexivity.
Qed.

Lemma zrot_compose p q a : zrot p (zrot q a) = zrot (p + q) a.
Proof.
  apply zext_inj; [rewrite !zrot_length; reflexivity|].
  intros k. rewrite !zext_zrot. f_equal. lia.
Qed.
Lemma zrot_0 a : zrot 0 a = a.
Proof.
  apply zext_inj; [apply zrot_length|]. intros k. rewrite zext_zrot. f_equal. lia.
Qed.
Lemma zrot_congr p q a : p mod (2 * Z.of_nat (length a)) = q mod (2 * Z.of_nat (length a)) -> zrot p a = zrot q a.
Proof. intros H. unfold zrot. cbv zeta. rewrite H. reflexivity. Qed.

(* ---- pointwise operations ---- *)
Lemma map2_length {A B C} (g : A -> B -> C) l1 l2 : length (map2 g l1 l2) = Nat.min (length l1) (length l2).
Proof. unfold map2. rewrite map_length, combine_length. reflexivity. Qed.
Lemma map2_nthZ (g : Z -> Z -> Z) (l1 l2 : list Z) i :
  length l1 = length l2 -> (i < length l1)%nat -> nthZ (map2 g l1 l2) i = g (nthZ l1 i) (nthZ l2 i).
Proof.
  intros H1 H2. unfold map2, nthZ.
  set (h := fun p : Z * Z => g (fst p) (snd p)).
  rewrite (nth_indep _ 0 (h (0, 0))) by (rewrite map_length, combine_length; lia).
  rewrite (map_nth h). rewrite combine_nth by exact H1. reflexivity.
Qed.
Lemma padd_length a b : length a = length b -> length (padd a b) = length a.
Proof. intros H. unfold padd. rewrite map2_length. lia. Qed.
Lemma psub_length a b : length a = length b -> length (psub a b) = length a.
Proof. intros H. unfold psub. rewrite map2_length. lia. Qed.
Lemma pscale_length c a : length (pscale c a) = length a.
Proof. apply map_length. Qed.

Lemma zext_padd a b k : length a = length b -> zext (padd a b) k = zext a k + zext b k.
Proof.
  intros Hl. destruct (Nat.eq_dec (length a) 0) as [H0|H0].
  { destruct a; [|discriminate]. destruct b; [|discriminate]. change (padd [] []) with (@nil Z). rewrite !zext_nil. reflexivity. }
  set (n := Z.of_nat (length a)).
  destruct (exp_decomp n k ltac:(lia)) as [q [i [Hk Hi]]].
  rewrite (zext_at_nat (padd a b) k q i) by (rewrite padd_length by auto; fold n; auto; lia).
  rewrite (zext_at_nat a k q i), (zext_at_nat b k q i) by (rewrite <- ?Hl; fold n; auto; lia).
  unfold padd. rewrite map2_nthZ by lia. destruct (Z.even q); lia.
Qed.
Lemma zext_psub a b k : length a = length b -> zext (psub a b) k = zext a k - zext b k.
Proof.
  intros Hl. destruct (Nat.eq_dec (length a) 0) as [H0|H0].
  { destruct a; [|discriminate]. destruct b; [|discriminate]. change (psub [] []) with (@nil Z). rewrite !zext_nil. reflexivity. }
  set (n := Z.of_nat (length a)).
  destruct (exp_decomp n k ltac:(lia)) as [q [i [Hk Hi]]].
  rewrite (zext_at_nat (psub a b) k q i) by (rewrite psub_length by auto; fold n; auto; lia).
  rewrite (zext_at_nat a k q i), (zext_at_nat b k q i) by (rewrite <- ?Hl; fold n; auto; lia).
  unfold psub. rewrite map2_nthZ by lia. destruct (Z.even q); lia.
Qed.

Lemma zrot_padd p a b : length a = length b -> zrot p (padd a b) = padd (zrot p a) (zrot p b).
Proof.
  intros Hl. apply zext_inj.
  - rewrite zrot_length, !padd_length, zrot_length by (rewrite ?zrot_length; auto). reflexivity.
  - intros k. rewrite zext_zrot, !zext_padd, !zext_zrot by (rewrite ?zrot_length; auto). reflexivity.
Qed.
Lemma zrot_psub p a b : length a = length b -> zrot p (psub a b) = psub (zrot p a) (zrot p b).
Proof.
  intros Hl. apply zext_inj.
  - rewrite zrot_length, !psub_length, zrot_length by (rewrite ?zrot_length; auto). reflexivity.
  - intros k. rewrite zext_zrot, !zext_psub, !zext_zrot by (rewrite ?zrot_length; auto). reflexivity.
Qed.

(* pointwise equalities by nthZ *)
Lemma padd_nth a b i : (i < length a)%nat -> length a = length b -> nthZ (padd a b) i = nthZ a i + nthZ b i.
Proof. intros. unfold padd. apply map2_nthZ; lia. Qed.
Lemma psub_nth a b i : (i < length a)%nat -> length a = length b -> nthZ (psub a b) i = nthZ a i - nthZ b i.
Proof. intros. unfold psub. apply map2_nthZ; lia. Qed.
Lemma pscale_nth c a i : (i < length a)%nat -> nthZ (pscale c a) i = c * nthZ a i.
Proof. intros. unfold pscale. apply nthZ_map; auto. Qed.
Lemma pscale_1 a : pscale 1 a = a.
Proof. unfold pscale. rewrite <- (map_id a) at 2. apply map_ext. intros; lia. Qed.

(* ---- sup-norm bounds ---- *)
Definition bounded (B : Z) (a : poly) : Prop := Forall (fun x => Z.abs x <= B) a.

Lemma bounded_nth B a : (forall i, (i < length a)%nat -> Z.abs (nthZ a i) <= B) -> bounded B a.
Proof. intros H. apply Forall_of_nthZ. exact H. Qed.
Lemma bounded_at B a i : bounded B a -> (i < length a)%nat -> Z.abs (nthZ a i) <= B.
Proof. intros H Hi. apply (Forall_nthZ _ a i H Hi). Qed.

Lemma zext_bound B a k : (0 < length a)%nat -> bounded B a -> Z.abs (zext a k) <= B.
Proof.
  intros Hn Hb. set (n := Z.of_nat (length a)).
  destruct (exp_decomp n k ltac:(lia)) as [q [i [Hk Hi]]].
  rewrite (zext_at_nat a k q i) by (auto; lia).
  pose proof (bounded_at B a i Hb ltac:(lia)). destruct (Z.even q); lia.
Qed.
Lemma zrot_bounded B p a : bounded B a -> bounded B (zrot p a).
Proof.
  intros Hb. apply bounded_nth. intros i Hi. rewrite zrot_length in Hi.
  rewrite zrot_nth by auto. apply zext_bound; auto. lia.
Qed.
Lemma padd_bounded B1 B2 a b : length a = length b -> bounded B1 a -> bounded B2 b -> bounded (B1 + B2) (padd a b).
Proof.
  intros Hl Ha Hb. apply bounded_nth. intros i Hi. rewrite padd_length in Hi by auto.
  rewrite padd_nth by auto.
  pose proof (bounded_at B1 a i Ha Hi). pose proof (bounded_at B2 b i Hb ltac:(lia)). lia.
Qed.
Lemma psub_bounded B1 B2 a b : length a = length b -> bounded B1 a -> bounded B2 b -> bounded (B1 + B2) (psub a b).
Proof.
  intros Hl Ha Hb. apply bounded_nth. intros i Hi. rewrite psub_length in Hi by auto.
  rewrite psub_nth by auto.
  pose proof (bounded_at B1 a i Ha Hi). pose proof (bounded_at B2 b i Hb ltac:(lia)). lia.
Qed.
Lemma xp_minus_one_bounded B p a : bounded B a -> bounded (2 * B) (xp_minus_one p a).
Proof.
  intros Hb. unfold xp_minus_one. replace (2 * B) with (B + B) by ring.
  apply psub_bounded; [apply zrot_length | apply zrot_bounded; auto | auto].
Qed.
Lemma xp_minus_one_length p a : length (xp_minus_one p a) = length a.
Proof. unfold xp_minus_one. rewrite psub_length; apply zrot_length. Qed.
Lemma bounded_zeros B n : 0 <= B -> bounded B (zeros n).
Proof. intros HB. unfold bounded, zeros. apply Forall_forall. intros x Hx. apply repeat_spec in Hx. subst. cbn [Z.abs]. lia. Qed.
