(* C08 encoding, flat layer: the encoders rewrite the active limbs of ONE column (the coefficient form: ONE coefficient of
   them) and nothing else; reading the column back gives the per-coefficient encodings. *)
From PV Require Import Base.MachineInt Model.Znx Model.Limbs Model.Flat Model.C08Encode Proofs.C11Frame.
From Coq Require Import Arith PeanoNat.
Open Scope nat_scope.

Lemma e_in_col_eq n cols size col idx : e_in_col n cols size col idx = in_col n cols size col idx.
Proof. reflexivity. Qed.

Lemma e_ok_facts s buf : e_ok s buf = true ->
  s_col s < s_cols s /\ s_size s <= s_max s /\ length buf = s_n s * s_cols s * s_max s /\ 1 <= s_n s /\ 1 <= s_size s.
Proof.
  unfold e_ok. intros H. apply andb_prop in H as [H H3]. apply andb_prop in H as [H1 H2].
  apply shape_ok_facts in H1 as (A & B & C). apply Nat.leb_le in H2, H3. auto.
Qed.

Lemma limb_bound n cols max col j : col < cols -> j < max -> n * (j * cols + col) + n <= n * cols * max.
Proof. intros Hc Hj. assert (j * cols + col + 1 <= cols * max) by nia. nia. Qed.

(* ---------- vector forms: frame ---------- *)

Theorem enc_vec_flat_frame coef allow0 b k s buf data buf' :
  enc_vec_flat coef allow0 b k s buf data = Some buf' ->
  length buf' = length buf /\
  forall idx d, e_in_col (s_n s) (s_cols s) (s_size s) (s_col s) idx = false -> nth idx buf' d = nth idx buf d.
Proof.
  unfold enc_vec_flat. destruct (_ && _ && _ && _)%bool eqn:Hc; [|discriminate].
  intros H; inversion H; subst buf'; clear H.
  apply andb_prop in Hc as [Hc _]. apply andb_prop in Hc as [Hc _]. apply andb_prop in Hc as [Hc _].
  apply e_ok_facts in Hc as (A & B & C & D & E).
  apply write_col_frame; try lia.
  - rewrite untranspose_length. lia.
  - rewrite C. nia.
Qed.

(* ---------- coefficient form: frame and content ---------- *)

Lemma write_at_nth_inside (data l : list Z) off idx d :
  off + length l <= length data -> off <= idx < off + length l ->
  nth idx (write_at data off l) d = nth (idx - off) l d.
Proof.
  intros Hlen Hin. unfold write_at.
  rewrite app_nth2 by (rewrite firstn_length; lia).
  rewrite firstn_length, Nat.min_l by lia.
  rewrite app_nth1 by lia. reflexivity.
Qed.

(* a run of single-word writes at pairwise distinct in-bounds offsets *)
Lemma word_writes (off : nat -> nat) (x : nat -> Z) (m : nat) (buf : list Z) :
  (forall j, j < m -> off j < length buf) ->
  (forall i j, i < m -> j < m -> i <> j -> off i <> off j) ->
  let r := fold_left (fun d j => write_at d (off j) [x j]) (seq 0 m) buf in
  length r = length buf /\
  (forall pos d, (forall j, j < m -> pos <> off j) -> nth pos r d = nth pos buf d) /\
  (forall j d, j < m -> nth (off j) r d = x j).
Proof.
  intros Hb Hinj. cbv zeta. induction m as [|m IH].
  - cbn [seq fold_left]. split; [reflexivity|]. split; [reflexivity|]. intros; lia.
  - rewrite seq_S, fold_left_app. cbn [fold_left Nat.add].
    destruct IH as (L & U & W); [intros; apply Hb; lia | intros; apply Hinj; lia |].
    set (r := fold_left (fun d j => write_at d (off j) [x j]) (seq 0 m) buf) in *.
    assert (Hin : off m + length [x m] <= length r) by (cbn [length]; rewrite L; specialize (Hb m); lia).
    split; [rewrite write_at_length by exact Hin; exact L|]. split.
    + intros pos d Hp. rewrite write_at_nth_outside; [|exact Hin|cbn [length]; specialize (Hp m); lia].
      apply U. intros; apply Hp; lia.
    + intros j d Hj. destruct (Nat.eq_dec j m) as [->|Hne].
      * rewrite write_at_nth_inside; [|exact Hin|cbn [length]; lia]. rewrite Nat.sub_diag. reflexivity.
      * rewrite write_at_nth_outside; [|exact Hin|cbn [length]; specialize (Hinj j m); lia].
        apply W. lia.
Qed.

Lemma e_off_mod s j idx : idx < s_n s -> e_off s j idx mod s_n s = idx.
Proof.
  intros H. unfold e_off. rewrite Nat.add_comm, Nat.mul_comm, Nat.mod_add by lia. apply Nat.mod_small. exact H.
Qed.

Theorem enc_coeff_flat_frame b k s buf idx v buf' :
  enc_coeff_flat b k s buf idx v = Some buf' ->
  length buf' = length buf /\
  (forall pos d, (forall j, j < s_size s -> pos <> e_off s j idx) -> nth pos buf' d = nth pos buf d) /\
  (forall j, j < s_size s -> nth (e_off s j idx) buf' 0%Z = nthZ (enc_i64 b k (s_size s) v) j).
Proof.
  unfold enc_coeff_flat. destruct (_ && _ && _ && _)%bool eqn:Hc; [|discriminate].
  intros H; inversion H; subst buf'; clear H.
  apply andb_prop in Hc as [Hc _]. apply andb_prop in Hc as [Hc _]. apply andb_prop in Hc as [Hc Hi].
  apply Nat.ltb_lt in Hi. apply e_ok_facts in Hc as (A & B & C & D & E).
  pose proof (word_writes (fun j => e_off s j idx) (fun j => nthZ (enc_i64 b k (s_size s) v) j) (s_size s) buf) as W.
  cbv zeta in W. destruct W as (L & U & Wr).
  - intros j Hj. unfold e_off. rewrite C.
    pose proof (limb_bound (s_n s) (s_cols s) (s_max s) (s_col s) j A ltac:(lia)). lia.
  - intros i j Hi' Hj Hne. unfold e_off.
    destruct (Nat.lt_ge_cases i j) as [Hlt|Hge].
    + assert (i * s_cols s + s_cols s <= j * s_cols s) by nia. nia.
    + assert (j * s_cols s + s_cols s <= i * s_cols s) by nia. nia.
  - split; [exact L|]. split; [exact U|]. intros j Hj. apply Wr. exact Hj.
Qed.

(* in words: outside the column, or at another coefficient index, nothing changes *)
Corollary enc_coeff_flat_others b k s buf idx v buf' :
  enc_coeff_flat b k s buf idx v = Some buf' ->
  forall pos d, e_in_col (s_n s) (s_cols s) (s_size s) (s_col s) pos = false \/ pos mod s_n s <> idx ->
  nth pos buf' d = nth pos buf d.
Proof.
  intros H pos d Hout. pose proof H as H0.
  apply enc_coeff_flat_frame in H as (_ & U & _). apply U. intros j Hj Heq.
  unfold enc_coeff_flat in H0. destruct (_ && _ && _ && _)%bool eqn:Hc; [|discriminate].
  apply andb_prop in Hc as [Hc _]. apply andb_prop in Hc as [Hc _]. apply andb_prop in Hc as [Hc Hi].
  apply Nat.ltb_lt in Hi. apply e_ok_facts in Hc as (A & B & C & D & E).
  destruct Hout as [Ho|Ho].
  - rewrite e_in_col_eq in Ho.
    rewrite (in_col_of_range (s_n s) (s_cols s) (s_size s) (s_col s) j pos) in Ho; [discriminate|lia|exact A|exact Hj|].
    subst pos. unfold e_off. lia.
  - apply Ho. subst pos. apply e_off_mod. exact Hi.
Qed.

(* ---------- vector forms: reading the column back ---------- *)

Lemma firstn_pad (n : nat) (l : list Z) : length l = n -> firstn n (l ++ zeros n) = l.
Proof. intros H. rewrite firstn_app, H, Nat.sub_diag. cbn [firstn]. rewrite app_nil_r. rewrite <- H. apply firstn_all. Qed.

Lemma limb_at_ext n cols (X Y : list Z) col j :
  n * (j * cols + col) + n <= length X -> n * (j * cols + col) + n <= length Y ->
  (forall i, i < n -> nth (n * (j * cols + col) + i) X 0%Z = nth (n * (j * cols + col) + i) Y 0%Z) ->
  limb_at n cols X col j = limb_at n cols Y col j.
Proof.
  intros HX HY H. unfold limb_at. apply (nth_ext _ _ 0%Z 0%Z).
  - rewrite !firstn_length, !skipn_length. lia.
  - intros i Hi. rewrite firstn_length, skipn_length in Hi.
    rewrite !nth_firstn_lt' by lia. rewrite !nth_skipn'. apply H. lia.
Qed.

Lemma limb_at_write_same n cols data col j (l : list Z) :
  length l = n -> n * (j * cols + col) + n <= length data ->
  limb_at n cols (write_limb n cols data col j l) col j = l.
Proof.
  intros Hl Hd. unfold limb_at, write_limb. rewrite firstn_pad by exact Hl.
  apply (nth_ext _ _ 0%Z 0%Z).
  - rewrite firstn_length, skipn_length, write_at_length by lia. lia.
  - intros i Hi. rewrite firstn_length, skipn_length, write_at_length in Hi by lia.
    rewrite nth_firstn_lt' by lia. rewrite nth_skipn'.
    rewrite write_at_nth_inside by lia. f_equal. lia.
Qed.

Lemma limb_at_write_other n cols data col j j' (l : list Z) :
  0 < cols -> length l = n -> j <> j' ->
  n * (j * cols + col) + n <= length data -> n * (j' * cols + col) + n <= length data ->
  limb_at n cols (write_limb n cols data col j l) col j' = limb_at n cols data col j'.
Proof.
  intros Hc Hl Hne Hd Hd'. unfold write_limb. rewrite firstn_pad by exact Hl.
  apply limb_at_ext; [rewrite write_at_length by lia; lia | exact Hd' |].
  intros i Hi. apply write_at_nth_outside; [lia|]. rewrite Hl.
  destruct (Nat.lt_ge_cases j' j) as [Hlt|Hge].
  - left. assert (j' * cols + cols <= j * cols) by nia. nia.
  - right. assert (j * cols + cols <= j' * cols) by nia. nia.
Qed.

Lemma write_col_read_aux n cols col (limbs : list (list Z)) :
  forall data j0, 0 < n -> col < cols -> (forall l, In l limbs -> length l = n) ->
  n * cols * (j0 + length limbs) <= length data ->
  let r := fst (fold_left (fun (s : list Z * nat) l => (write_limb n cols (fst s) col (snd s) l, S (snd s))) limbs (data, j0)) in
  length r = length data /\
  forall j, j < j0 + length limbs ->
    limb_at n cols r col j = if j <? j0 then limb_at n cols data col j else nth (j - j0) limbs [].
Proof.
  induction limbs as [|l t IH]; intros data j0 Hn Hc Hl Hd; cbn [fold_left fst snd length] in *.
  - split; [reflexivity|]. intros j Hj. destruct (Nat.ltb_spec j j0); [reflexivity|lia].
  - assert (Hin : forall j, j < j0 + S (length t) -> n * (j * cols + col) + n <= length data).
    { intros j Hj. pose proof (limb_bound n cols (j0 + S (length t)) col j Hc Hj). lia. }
    assert (Hll : length l = n) by (apply Hl; left; reflexivity).
    specialize (IH (write_limb n cols data col j0 l) (S j0) Hn Hc ltac:(intros; apply Hl; right; assumption)).
    rewrite write_limb_length in IH by (apply Hin; lia).
    specialize (IH ltac:(lia)). cbv zeta in IH. destruct IH as [IHl IHr].
    split; [exact IHl|]. intros j Hj. rewrite IHr by lia.
    destruct (Nat.ltb_spec j (S j0)) as [H1|H1]; destruct (Nat.ltb_spec j j0) as [H2|H2]; try lia.
    + apply limb_at_write_other; try lia; apply Hin; lia.
    + assert (j = j0) by lia. subst j. rewrite Nat.sub_diag. cbn [nth].
      apply limb_at_write_same; [exact Hll|apply Hin; lia].
    + replace (j - j0) with (S (j - S j0)) by lia. reflexivity.
Qed.

Lemma map_nth_seq {A} (l : list A) (d : A) : map (fun i => nth i l d) (seq 0 (length l)) = l.
Proof.
  induction l as [|x t IH]; [reflexivity|]. cbn [length seq map nth]. f_equal.
  rewrite <- seq_shift, map_map. exact IH.
Qed.

Theorem col_limbs_write_col n cols col size data (limbs : list (list Z)) :
  0 < n -> col < cols -> length limbs = size -> (forall l, In l limbs -> length l = n) ->
  n * cols * size <= length data ->
  col_limbs n cols size (write_col n cols data col limbs) col = limbs.
Proof.
  intros Hn Hc Hl Hll Hd. unfold col_limbs, write_col.
  destruct (write_col_read_aux n cols col limbs data 0 Hn Hc Hll ltac:(cbn; lia)) as [_ R]. cbv zeta in R.
  etransitivity; [|apply (map_nth_seq limbs [])]. rewrite Hl. apply map_ext_in.
  intros j Hj. apply in_seq in Hj. rewrite R by lia. cbn [Nat.ltb Nat.leb]. f_equal. lia.
Qed.

Lemma nthZ_map_default (f : list Z -> Z) (cs : list (list Z)) (i : nat) : f [] = 0%Z ->
  nthZ (map f cs) i = f (nth i cs []).
Proof. intros H. unfold nthZ. rewrite <- H. apply map_nth. Qed.

Lemma transpose_untranspose n size (cs : list (list Z)) :
  length cs = n -> (forall c, In c cs -> length c = size) -> transpose n (untranspose size cs) = cs.
Proof.
  intros Hn Hc. unfold transpose, untranspose.
  etransitivity; [|apply (map_nth_seq cs [])]. rewrite Hn. apply map_ext_in.
  intros i Hi. apply in_seq in Hi. rewrite map_map.
  assert (Hci : length (nth i cs []) = size) by (apply Hc; apply nth_In; lia).
  etransitivity; [|apply (map_nth_seq (nth i cs []) 0%Z)]. rewrite Hci. apply map_ext.
  intros j. rewrite (nthZ_map_default (fun c => nthZ c j)); [reflexivity|].
  unfold nthZ. destruct j; reflexivity.
Qed.

(* after encode_vec_*, the active limbs of the column, read per coefficient, are the per-coefficient encodings *)
Theorem enc_vec_flat_coeffs coef allow0 b k s buf data buf' :
  enc_vec_flat coef allow0 b k s buf data = Some buf' ->
  (forall v, In v data -> length (coef (s_size s) v) = s_size s) ->
  e_coeffs s buf' = map (coef (s_size s)) data.
Proof.
  unfold enc_vec_flat. destruct (_ && _ && _ && _)%bool eqn:Hc; [|discriminate].
  intros H Hlen; inversion H; subst buf'; clear H.
  apply andb_prop in Hc as [Hc _]. apply andb_prop in Hc as [Hc _]. apply andb_prop in Hc as [Hc Hd].
  apply Nat.eqb_eq in Hd. apply e_ok_facts in Hc as (A & B & C & D & E).
  unfold e_coeffs. rewrite col_limbs_write_col; try lia.
  - apply transpose_untranspose; [rewrite map_length; exact Hd|].
    intros c Hin. apply in_map_iff in Hin as (v & <- & Hv). apply Hlen. exact Hv.
  - apply untranspose_length.
  - intros l Hin. unfold untranspose in Hin. apply in_map_iff in Hin as (j & <- & _).
    rewrite !map_length. exact Hd.
  - rewrite C. nia.
Qed.

(* reading one coefficient of the column *)
Lemma e_coeffs_nth s buf idx : idx < s_n s -> s_col s < s_cols s -> s_size s <= s_max s ->
  length buf = s_n s * s_cols s * s_max s ->
  nth idx (e_coeffs s buf) [] = map (fun j => nth (e_off s j idx) buf 0%Z) (seq 0 (s_size s)).
Proof.
  intros Hi Hc Hs Hl. unfold e_coeffs, transpose.
  rewrite (nth_indep _ [] ((fun i => map (fun l => nthZ l i) (col_limbs (s_n s) (s_cols s) (s_size s) buf (s_col s))) 0))
    by (rewrite map_length, seq_length; exact Hi).
  rewrite (map_nth (fun i => map (fun l => nthZ l i) (col_limbs (s_n s) (s_cols s) (s_size s) buf (s_col s)))).
  rewrite seq_nth by exact Hi. cbn [Nat.add].
  unfold col_limbs. rewrite map_map. apply map_ext_in. intros j Hj. apply in_seq in Hj.
  unfold nthZ, limb_at, e_off. rewrite nth_firstn_lt' by exact Hi. rewrite nth_skipn'. reflexivity.
Qed.

Theorem enc_coeff_flat_coeff b k s buf idx v buf' :
  enc_coeff_flat b k s buf idx v = Some buf' ->
  length (enc_i64 b k (s_size s) v) = s_size s ->
  nth idx (e_coeffs s buf') [] = enc_i64 b k (s_size s) v.
Proof.
  intros H Hlen. pose proof H as H0. apply enc_coeff_flat_frame in H as (L & _ & W).
  unfold enc_coeff_flat in H0. destruct (_ && _ && _ && _)%bool eqn:Hc; [|discriminate].
  apply andb_prop in Hc as [Hc _]. apply andb_prop in Hc as [Hc _]. apply andb_prop in Hc as [Hc Hi].
  apply Nat.ltb_lt in Hi. apply e_ok_facts in Hc as (A & B & C & D & E).
  rewrite e_coeffs_nth; [|exact Hi|exact A|exact B|rewrite L; exact C].
  etransitivity; [|apply (map_nth_seq (enc_i64 b k (s_size s) v) 0%Z)]. rewrite Hlen.
  apply map_ext_in. intros j Hj. apply in_seq in Hj. apply W. lia.
Qed.
