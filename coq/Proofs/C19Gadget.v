(* C19: decompression gives back what standard encryption produces, cell by cell; seed / row order of the gadget objects. *)
From PV Require Import Base.MachineInt Model.Znx Model.Limbs Model.Flat Model.DftAbs Model.EncModel Model.C19Gadget
  Proofs.EncValue.
Open Scope Z_scope.

(* ---------------- GLWE ---------------- *)
Theorem decompress_glwe_eq_standard (wb b : Z) (n size rank : nat) (nk : Z) (pt : option (ccol * nat)) (sk : list poly)
        (us : nat -> Z) (e : poly) (body : ccol) :
  enc_sk_compressed wb b n size rank nk pt sk us e = Some body ->
  enc_sk wb b n size rank nk pt sk us e = Some (decompress_glwe b n size rank body us).
Proof. unfold enc_sk_compressed, enc_sk, decompress_glwe. intros ->. reflexivity. Qed.

Theorem standard_eq_decompress_glwe (wb b : Z) (n size rank : nat) (nk : Z) (pt : option (ccol * nat)) (sk : list poly)
        (us : nat -> Z) (e : poly) (ct : list ccol) :
  enc_sk wb b n size rank nk pt sk us e = Some ct ->
  exists body, enc_sk_compressed wb b n size rank nk pt sk us e = Some body /\ ct = decompress_glwe b n size rank body us.
Proof.
  unfold enc_sk_compressed, enc_sk, decompress_glwe. intros H.
  destruct (enc_sk_body _ _ _ _ _ _ _ _ _) as [body|]; [|discriminate]. inversion H. exists body. split; reflexivity.
Qed.

(* column order of the regenerated mask: column c+1 is drawn from stream positions c*size*n .. (c+1)*size*n, limb-major *)
Theorem decompress_glwe_column (b : Z) (n size rank : nat) (body : ccol) (us : nat -> Z) (c k j : nat) :
  (c < rank)%nat -> (k < n)%nat -> (j < size)%nat ->
  nthZ (coef (nth (S c) (decompress_glwe b n size rank body us) []) k) j
  = uniform_digit b (us (c * size * n + j * n + k)%nat).
Proof.
  intros Hc Hk Hj. unfold decompress_glwe. cbn [nth]. unfold glwe_mask.
  rewrite nth_map_seq by lia. unfold mask_col, coef. rewrite nth_map_seq by lia.
  unfold nthZ. rewrite nth_map_seq by lia. reflexivity.
Qed.

(* ---------------- loop nests ---------------- *)
Lemma grid_S {T} (A B : nat) (f : nat -> nat -> T) : grid (S A) B f = grid A B f ++ map (f A) (seq 0 B).
Proof. unfold grid. rewrite seq_S. cbn [Nat.add]. rewrite flat_map_app. cbn [flat_map]. rewrite app_nil_r. reflexivity. Qed.

Lemma grid_length {T} (A B : nat) (f : nat -> nat -> T) : length (grid A B f) = (A * B)%nat.
Proof.
  induction A; [reflexivity|]. rewrite grid_S, app_length, IHA, map_length, seq_length. lia.
Qed.

Lemma grid_nth {T} (A B : nat) (f : nat -> nat -> T) (a b : nat) (d : T) : (a < A)%nat -> (b < B)%nat ->
  nth (a * B + b) (grid A B f) d = f a b.
Proof.
  induction A; intros Ha Hb; [lia|]. rewrite grid_S.
  destruct (Nat.eq_dec a A) as [->|Hne].
  - rewrite app_nth2 by (rewrite grid_length; lia). rewrite grid_length.
    replace (A * B + b - A * B)%nat with b by lia. apply nth_map_seq. lia.
  - rewrite app_nth1 by (rewrite grid_length; nia). apply IHA; lia.
Qed.

Lemma nth_combine_seq {T} (l : list T) (i : nat) (d : T) : (i < length l)%nat ->
  nth i (combine (seq 0 (length l)) l) (O, d) = (i, nth i l d).
Proof.
  intros H. rewrite combine_nth by (rewrite seq_length; reflexivity). rewrite seq_nth by lia. reflexivity.
Qed.

(* ---------------- lookups in the list of writes ---------------- *)
Lemma find_slot_app (s : nat) (l : cstore) (q : nat * (list Z * option ccol)) :
  find_slot s (l ++ [q]) = if Nat.eqb (fst q) s then Some (snd q) else find_slot s l.
Proof. unfold find_slot. rewrite fold_left_app. reflexivity. Qed.

Lemma find_slot_unique (s : nat) (d : nat * (list Z * option ccol)) : forall (l : cstore) (i : nat),
  (i < length l)%nat -> fst (nth i l d) = s ->
  (forall j, (j < length l)%nat -> fst (nth j l d) = s -> j = i) ->
  find_slot s l = Some (snd (nth i l d)).
Proof.
  induction l as [|q l IH] using rev_ind; intros i Hi Hs Hu; [cbn [length] in Hi; lia|].
  rewrite find_slot_app. rewrite app_length in *. cbn [length] in *.
  destruct (Nat.eq_dec i (length l)) as [->|Hne].
  - rewrite app_nth2 in * by lia. rewrite Nat.sub_diag in *. cbn [nth] in *. rewrite Hs, Nat.eqb_refl. reflexivity.
  - rewrite app_nth1 in Hs by lia. rewrite app_nth1 by lia.
    destruct (Nat.eqb_spec (fst q) s) as [Hq|Hq].
    + exfalso. apply Hne. symmetry. apply (Hu (length l)); [lia|]. rewrite app_nth2 by lia. rewrite Nat.sub_diag. exact Hq.
    + apply IH; [lia|exact Hs|]. intros j Hj Hjs. apply Hu; [lia|]. rewrite app_nth1 by lia. exact Hjs.
Qed.

Section Cells.
Variable stream_of : list Z -> nat -> Z.
Variable wb : Z.

(* GGLWE-shaped objects: cell (row, col) is written at slot rank_in*row + col with the seed drawn at position col*dnum + row
   of the parent stream and the error block of the same position *)
Theorem gglwe_store_cell (b : Z) (n size rin rout dnum dsize : nat) (nk : Z) (ms sk : list poly) (parent : nat -> Z)
        (errs : nat -> poly) (row col : nat) : (row < dnum)%nat -> (col < rin)%nat ->
  let i := gglwe_draw_index dnum row col in
  find_slot (gglwe_seed_slot rin row col)
            (gglwe_compressed_encrypt stream_of wb b n size rin rout dnum dsize nk ms sk parent errs)
  = Some (drawn_seed parent i,
          enc_sk_compressed wb b n size rout nk (Some (row_pt b n size dsize row (nth col ms []), O)) sk
            (stream_of (drawn_seed parent i)) (errs i)).
Proof.
  intros Hr Hc. cbv zeta. unfold gglwe_compressed_encrypt.
  set (order := grid rin dnum (fun col0 row0 => (row0, col0))).
  assert (Lo : length order = (rin * dnum)%nat) by (unfold order; apply grid_length).
  rewrite <- Lo.
  set (g := fun iq : nat * (nat * nat) => compressed_cell stream_of wb b n size rout dsize nk sk parent errs
                 (gglwe_seed_slot rin (fst (snd iq)) (snd (snd iq))) (fst (snd iq)) O (nth (snd (snd iq)) ms []) (fst iq)).
  set (L := map g (combine (seq 0 (length order)) order)).
  assert (LL : length L = (rin * dnum)%nat).
  { unfold L. rewrite map_length, combine_length, seq_length. lia. }
  set (d0 := g (O, (O, O))).
  assert (Nth : forall j, (j < rin * dnum)%nat -> nth j L d0 = g (j, ((j mod dnum)%nat, (j / dnum)%nat))).
  { intros j Hj. unfold L, d0. rewrite (map_nth g). rewrite (nth_combine_seq order j (O, O)) by lia. f_equal. f_equal.
    assert (Hd : (0 < dnum)%nat) by lia.
    pose proof (Nat.div_mod j dnum ltac:(lia)) as E. pose proof (Nat.mod_upper_bound j dnum ltac:(lia)) as Hm.
    assert (Hq : (j / dnum < rin)%nat) by (apply Nat.div_lt_upper_bound; lia).
    unfold order. replace j with ((j / dnum) * dnum + j mod dnum)%nat at 1 by lia.
    apply (grid_nth rin dnum (fun col0 row0 : nat => (row0, col0)) (j / dnum) (j mod dnum) (O, O)); lia. }
  unfold gglwe_draw_index, gglwe_seed_slot.
  assert (Hi : (col * dnum + row < rin * dnum)%nat) by nia.
  assert (Ei : ((col * dnum + row) mod dnum = row /\ (col * dnum + row) / dnum = col)%nat).
  { split.
    - rewrite Nat.add_comm, Nat.mod_add by lia. apply Nat.mod_small. lia.
    - rewrite Nat.add_comm, Nat.div_add by lia. rewrite Nat.div_small by lia. lia. }
  destruct Ei as [Em Ed].
  rewrite (find_slot_unique (rin * row + col) d0 L (col * dnum + row)).
  - rewrite Nth by lia. rewrite Em, Ed. unfold g, compressed_cell. cbn [fst snd]. reflexivity.
  - lia.
  - rewrite Nth by lia. rewrite Em, Ed. reflexivity.
  - intros j Hj Hs. rewrite LL in Hj. rewrite Nth in Hs by lia. unfold g, compressed_cell, gglwe_seed_slot in Hs. cbn [fst snd] in Hs.
    pose proof (Nat.div_mod j dnum ltac:(lia)) as E. pose proof (Nat.mod_upper_bound j dnum ltac:(lia)) as Hm.
    assert (Hq : (j / dnum < rin)%nat) by (apply Nat.div_lt_upper_bound; lia).
    remember (j mod dnum)%nat as r2. remember (j / dnum)%nat as c2.
    assert (r2 = row) by (destruct (Nat.lt_trichotomy r2 row) as [Hlt|[Heq|Hgt]]; [nia|exact Heq|nia]).
    subst r2. assert (c2 = col) by lia. lia.
Qed.

(* the statement of C19 for a GGLWE-shaped object: decompressing cell (row, col) gives the standard encryption of that
   cell's plaintext with the mask stream of the seed stored for the cell and the cell's block of the shared error stream *)
Theorem gglwe_decompress_cell_eq_standard (b : Z) (n size rin rout dnum dsize : nat) (nk : Z) (ms sk : list poly)
        (parent : nat -> Z) (errs : nat -> poly) (row col : nat) (ct : list ccol) :
  (row < dnum)%nat -> (col < rin)%nat ->
  decompress_cell stream_of b n size rout
    (gglwe_compressed_encrypt stream_of wb b n size rin rout dnum dsize nk ms sk parent errs) (gglwe_seed_slot rin row col) = Some ct ->
  let i := gglwe_draw_index dnum row col in
  enc_sk wb b n size rout nk (Some (row_pt b n size dsize row (nth col ms []), O)) sk
         (stream_of (drawn_seed parent i)) (errs i) = Some ct.
Proof.
  intros Hr Hc H. cbv zeta. unfold decompress_cell in H.
  rewrite (gglwe_store_cell b n size rin rout dnum dsize nk ms sk parent errs row col Hr Hc) in H. cbv zeta in H.
  destruct (enc_sk_compressed _ _ _ _ _ _ _ _ _ _) as [body|] eqn:E; [|discriminate].
  inversion H; subst. apply decompress_glwe_eq_standard. exact E.
Qed.

(* GGSW: slot = draw position = row*(rank+1) + col, plaintext on column col *)
Theorem ggsw_store_cell (b : Z) (n size rank dnum dsize : nat) (nk : Z) (m : poly) (sk : list poly) (parent : nat -> Z)
        (errs : nat -> poly) (row col : nat) : (row < dnum)%nat -> (col < S rank)%nat ->
  let i := ggsw_draw_index rank row col in
  find_slot (ggsw_seed_slot rank row col)
            (ggsw_compressed_encrypt stream_of wb b n size rank dnum dsize nk m sk parent errs)
  = Some (drawn_seed parent i,
          enc_sk_compressed wb b n size rank nk (Some (row_pt b n size dsize row m, col)) sk
            (stream_of (drawn_seed parent i)) (errs i)).
Proof.
  intros Hr Hc. cbv zeta. unfold ggsw_compressed_encrypt.
  set (order := grid dnum (S rank) (fun row0 col0 => (row0, col0))).
  assert (Lo : length order = (dnum * S rank)%nat) by (unfold order; apply grid_length).
  rewrite <- Lo.
  set (g := fun iq : nat * (nat * nat) => compressed_cell stream_of wb b n size rank dsize nk sk parent errs
                 (ggsw_seed_slot rank (fst (snd iq)) (snd (snd iq))) (fst (snd iq)) (snd (snd iq)) m (fst iq)).
  set (L := map g (combine (seq 0 (length order)) order)).
  assert (LL : length L = (dnum * S rank)%nat).
  { unfold L. rewrite map_length, combine_length, seq_length. lia. }
  set (d0 := g (O, (O, O))).
  assert (Nth : forall j, (j < dnum * S rank)%nat -> nth j L d0 = g (j, ((j / S rank)%nat, (j mod S rank)%nat))).
  { intros j Hj. unfold L, d0. rewrite (map_nth g). rewrite (nth_combine_seq order j (O, O)) by lia. f_equal. f_equal.
    pose proof (Nat.div_mod j (S rank) ltac:(lia)) as E. pose proof (Nat.mod_upper_bound j (S rank) ltac:(lia)) as Hm.
    assert (Hq : (j / S rank < dnum)%nat) by (apply Nat.div_lt_upper_bound; lia).
    unfold order. replace j with ((j / S rank) * S rank + j mod S rank)%nat at 1 by lia.
    apply (grid_nth dnum (S rank) (fun row0 col0 : nat => (row0, col0)) (j / S rank) (j mod S rank) (O, O)); lia. }
  unfold ggsw_draw_index, ggsw_seed_slot. replace (rank + 1)%nat with (S rank) by lia.
  assert (Hi : (row * S rank + col < dnum * S rank)%nat) by nia.
  assert (Ei : ((row * S rank + col) / S rank = row /\ (row * S rank + col) mod S rank = col)%nat).
  { split.
    - rewrite Nat.add_comm, Nat.div_add by lia. rewrite Nat.div_small by lia. lia.
    - rewrite Nat.add_comm, Nat.mod_add by lia. apply Nat.mod_small. lia. }
  destruct Ei as [Ed Em].
  rewrite (find_slot_unique (row * S rank + col) d0 L (row * S rank + col)).
  - rewrite Nth by lia. rewrite Em, Ed. unfold g, compressed_cell. cbn [fst snd]. reflexivity.
  - lia.
  - rewrite Nth by lia. rewrite Em, Ed. unfold g, compressed_cell, ggsw_seed_slot. cbn [fst snd]. lia.
  - intros j Hj Hs. rewrite LL in Hj. rewrite Nth in Hs by lia. unfold g, compressed_cell, ggsw_seed_slot in Hs. cbn [fst snd] in Hs.
    pose proof (Nat.div_mod j (S rank) ltac:(lia)) as E. lia.
Qed.

Theorem ggsw_decompress_cell_eq_standard (b : Z) (n size rank dnum dsize : nat) (nk : Z) (m : poly) (sk : list poly)
        (parent : nat -> Z) (errs : nat -> poly) (row col : nat) (ct : list ccol) :
  (row < dnum)%nat -> (col < S rank)%nat ->
  decompress_cell stream_of b n size rank
    (ggsw_compressed_encrypt stream_of wb b n size rank dnum dsize nk m sk parent errs) (ggsw_seed_slot rank row col) = Some ct ->
  let i := ggsw_draw_index rank row col in
  enc_sk wb b n size rank nk (Some (row_pt b n size dsize row m, col)) sk (stream_of (drawn_seed parent i)) (errs i) = Some ct.
Proof.
  intros Hr Hc H. cbv zeta. unfold decompress_cell in H.
  rewrite (ggsw_store_cell b n size rank dnum dsize nk m sk parent errs row col Hr Hc) in H. cbv zeta in H.
  destruct (enc_sk_compressed _ _ _ _ _ _ _ _ _ _) as [body|] eqn:E; [|discriminate].
  inversion H; subst. apply decompress_glwe_eq_standard. exact E.
Qed.

End Cells.

(* decompress_decrypts_same: equal ciphertexts decrypt equally, in particular the decompressed object and the standard one *)
Theorem decompress_decrypts_same (wb b pb : Z) (n size psize rank : nat) (nk : Z) (pt : option (ccol * nat)) (sk : list poly)
        (us : nat -> Z) (e : poly) (body : ccol) (ct : list ccol) :
  enc_sk_compressed wb b n size rank nk pt sk us e = Some body ->
  enc_sk wb b n size rank nk pt sk us e = Some ct ->
  dec_glwe wb b pb n size psize sk (decompress_glwe b n size rank body us) = dec_glwe wb b pb n size psize sk ct.
Proof.
  intros H1 H2. apply decompress_glwe_eq_standard in H1. rewrite H1 in H2. inversion H2. reflexivity.
Qed.
