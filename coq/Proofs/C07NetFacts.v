(* C07 butterfly networks: the finitely many numeric facts (3 prime sets x 4 primes x log n = 1..16) that are established
   by evaluating boolean checks on the generated constants and on the metadata the model's table builder computes. *)
From PV Require Import Base.MachineInt Model.C07Ntt120 Model.C07NttNet Proofs.C07NetBase Proofs.C07NetLazy.
Open Scope Z_scope.

(* ---------------- numeric facts about the generated constants, checked by computation ---------------- *)
(* (notations, not constants: no proof may hinge on unfolding an alias of modq_pow on an abstract prime) *)
Notation phi_of P k m := (modq_pow (omega_n P k m) (-1) (qk P k)).
Notation ninv_of P k m := (modq_pow (2 ^ Z.of_nat m) (-1) (qk P k)).
Notation step_of P k m l := (modq_pow (omega_n P k m) (2 ^ Z.of_nat (m - l)) (qk P k)).
Notation istep_of P k m l := (modq_pow (omega_n P k m) (- 2 ^ Z.of_nat (m - l)) (qk P k)).
Definition inq (q v : Z) : bool := (0 <=? v) && (v <? q).

Definition tbl_facts (P : primeset) (k m : nat) : bool :=
  let q := qk P k in let psi := omega_n P k m in let phi := phi_of P k m in let ninv := ninv_of P k m in
  (1 <? q) && (q <? 2 ^ 32) && inq q psi && inq q phi && inq q ninv &&
  (pow_loop 64 (2 ^ Z.of_nat m) psi 1 q =? q - 1) &&
  ((psi * phi) mod q =? 1) && ((ninv * 2 ^ Z.of_nat m) mod q =? 1) &&
  inq q (omegak P k) && (psi =? pow_loop 64 (2 ^ (16 - Z.of_nat m)) (omegak P k) 1 q) &&
  forallb (fun l => let st := step_of P k m l in let ist := istep_of P k m l in
                    inq q st && inq q ist && (st =? pow_loop 64 (2 ^ Z.of_nat (m - l)) psi 1 q) && ((ist * st) mod q =? 1))
          (seq 0 m).

Definition three : list primeset := [primes29; primes30; primes31].
Definition all_cases (f : primeset -> nat -> nat -> bool) : bool :=
  forallb (fun P => forallb (fun k => forallb (fun m => f P k m) (seq 1 16)) (seq 0 4)) three.
Lemma all_cases_elim f : all_cases f = true ->
  forall P, In P three -> forall k, (k < 4)%nat -> forall m, (1 <= m <= 16)%nat -> f P k m = true.
Proof.
  unfold all_cases. intros H P HP k Hk m Hm.
  rewrite forallb_forall in H. specialize (H P HP). rewrite forallb_forall in H.
  specialize (H k ltac:(apply in_seq; lia)). rewrite forallb_forall in H. apply H. apply in_seq. lia.
Qed.

Lemma tbl_facts_all : all_cases tbl_facts = true.
Proof. vm_cast_no_check (eq_refl true). Qed.

(* ---------------- the bound checks, by computation ---------------- *)
Definition hb_ok (sm : stepmeta) : bool := sm_hb sm <=? 32.
Definition bound_ok (b : option Z) (bits : Z) : bool := match b with Some Uf => Uf <? 2 ^ bits | None => false end.
(* (written with `if` rather than `&&`: converting `fwd_ok P k m` with its body must never make the kernel evaluate the
   checks on an abstract prime set, whose stuck normal form is exponentially large) *)
Definition fwd_ok (P : primeset) (k m : nat) : bool :=
  if bound_ok (fwd_check_c (qk P k) (red_of P (qk P k)) (fwd_meta0 (ps_LOG_Q P)) (fwd_ms P k m) m (2 ^ 64 - 1)) (fwd_out_bits P m) then forallb hb_ok (fwd_meta0 (ps_LOG_Q P) :: fwd_ms P k m) else false.
Definition inv_ok (P : primeset) (k m : nat) : bool :=
  if bound_ok (inv_check_c (qk P k) (red_of P (qk P k)) (inv_ml P k m) (inv_ms P k m) m (2 ^ 64 - 1)) (inv_out_bits P m) then forallb hb_ok (inv_ml P k m :: inv_ms P k m) else false.
Lemma bound_ok_elim b bits : bound_ok b bits = true -> exists Uf, b = Some Uf /\ Uf < 2 ^ bits.
Proof. destruct b as [Uf|]; cbn [bound_ok]; [|discriminate]. intros H. exists Uf. split; [reflexivity|apply Z.ltb_lt; exact H]. Qed.
Lemma fwd_ok_all : all_cases fwd_ok = true.
Proof. vm_cast_no_check (eq_refl true). Qed.
Lemma inv_ok_all : all_cases inv_ok = true.
Proof. vm_cast_no_check (eq_refl true). Qed.


Lemma fwd_ok_elim P k m : fwd_ok P k m = true ->
  (exists Uf, fwd_check_c (qk P k) (red_of P (qk P k)) (fwd_meta0 (ps_LOG_Q P)) (fwd_ms P k m) m (2 ^ 64 - 1) = Some Uf /\ Uf < 2 ^ fwd_out_bits P m) /\ forallb hb_ok (fwd_meta0 (ps_LOG_Q P) :: fwd_ms P k m) = true.
Proof.
  unfold fwd_ok. destruct (bound_ok (fwd_check_c (qk P k) (red_of P (qk P k)) (fwd_meta0 (ps_LOG_Q P)) (fwd_ms P k m) m (2 ^ 64 - 1)) (fwd_out_bits P m)) eqn:E; [|discriminate].
  intros H. split; [apply bound_ok_elim; exact E|exact H].
Qed.
Lemma inv_ok_elim P k m : inv_ok P k m = true ->
  (exists Uf, inv_check_c (qk P k) (red_of P (qk P k)) (inv_ml P k m) (inv_ms P k m) m (2 ^ 64 - 1) = Some Uf /\ Uf < 2 ^ inv_out_bits P m) /\ forallb hb_ok (inv_ml P k m :: inv_ms P k m) = true.
Proof.
  unfold inv_ok. destruct (bound_ok (inv_check_c (qk P k) (red_of P (qk P k)) (inv_ml P k m) (inv_ms P k m) m (2 ^ 64 - 1)) (inv_out_bits P m)) eqn:E; [|discriminate].
  intros H. split; [apply bound_ok_elim; exact E|exact H].
Qed.
