(* C17 - the in-place 32-byte -> 16-byte compaction of NTT120 idft_apply_consume (reference and AVX twins):
   index inequalities of docs/ntt120-backend.md, and the functional statement "in place = out of place". *)
From PV Require Import Base.MachineInt Model.C12Scratch Model.C17Mem.
From Coq Require Import Arith PeanoNat.
Open Scope Z_scope.

(* the two words written for (k, c) end before the first source word of every coefficient processed later
   (the k >= 1 non-overlap and the same-block ordering in one statement) *)
Lemma compact_write_before_later_src (n k c k' c' : Z) :
  0 < n -> 0 <= k -> 0 <= c < n -> 0 <= c' < n -> cb_before k c k' c' ->
  cb_dst n k c + 2 <= cb_src n k' c'.
Proof. intros Hn Hk Hc Hc' [Hlt | (-> & Hlt)]; unfold cb_dst, cb_src; nia. Qed.

(* the block on which the inverse NTT of step k' runs in place has not been written by any earlier block *)
Lemma compact_block_intact (n k c k' : Z) :
  0 < n -> 0 <= k < k' -> 0 <= c < n -> cb_dst n k c + 2 <= 4 * n * k'.
Proof. intros Hn Hk Hc; unfold cb_dst; nia. Qed.

(* a coefficient's own destination may overlap its own source only at the very first coefficient; there the four
   residues are read into locals before the write (program order; see compact_inplace_correct) *)
Lemma compact_self_overlap_only_first (n k c : Z) :
  0 < n -> 0 <= k -> 0 <= c < n -> cb_src n k c < cb_dst n k c + 2 -> k = 0 /\ c = 0.
Proof. intros Hn Hk Hc; unfold cb_dst, cb_src; nia. Qed.

(* every access is inside the n * n_blocks q120b coefficients = 4 * n * n_blocks words the raw view covers *)
Lemma compact_in_bounds (n nb k c : Z) :
  0 < n -> 0 <= k < nb -> 0 <= c < n ->
  0 <= cb_src n k c /\ cb_src n k c + 4 <= 4 * n * nb /\ 0 <= cb_dst n k c /\ cb_dst n k c + 2 <= 2 * n * nb.
Proof. intros Hn Hk Hc; unfold cb_dst, cb_src; nia. Qed.

(* ------------------------------------------------------------------------------------------------ *)
Section Func.
Variable g : Z -> Z -> Z -> Z -> Z * Z.

Lemma setw_length (l : list Z) (i : nat) (x : Z) : length (setw l i x) = length l.
Proof. revert i; induction l as [|h t IH]; intros [|i]; cbn; auto. Qed.

Lemma nthw_setw (l : list Z) (i j : nat) (x : Z) :
  nthw (setw l i x) j = if Nat.eqb j i && Nat.ltb i (length l) then x else nthw l j.
Proof.
  unfold nthw. revert i j; induction l as [|h t IH]; intros i j.
  - cbn. rewrite andb_false_r. destruct i; reflexivity.
  - destruct i as [|i]; destruct j as [|j]; cbn [setw nth length]; try reflexivity.
    rewrite IH. replace (Nat.ltb (S i) (S (length t))) with (Nat.ltb i (length t)) by reflexivity. reflexivity.
Qed.

Definition cinv (orig : list Z) (m : nat) (s : list Z) : Prop :=
  length s = length orig /\
  (forall i, (2 * m <= i)%nat -> nthw s i = nthw orig i) /\
  (forall m', (m' < m)%nat -> (nthw s (2 * m'), nthw s (2 * m' + 1)) = compact_spec g orig m').

Lemma compact_step_inv (orig s : list Z) (m : nat) :
  (4 * m + 4 <= length orig)%nat -> cinv orig m s -> cinv orig (S m) (compact_step g s m).
Proof.
  intros Hlen (HL & Hun & Hdone). unfold compact_step.
  rewrite !Hun by lia. fold (compact_spec g orig m). destruct (compact_spec g orig m) as [lo hi] eqn:Esp.
  unfold cinv. rewrite !setw_length. split; [exact HL|]. split.
  - intros i Hi. rewrite !nthw_setw, !setw_length.
    destruct (Nat.eqb_spec i (2 * m + 1)); [lia|]. destruct (Nat.eqb_spec i (2 * m)); [lia|]. cbn. apply Hun. lia.
  - intros m' Hm'. rewrite !nthw_setw, !setw_length.
    assert (Nat.ltb (2 * m + 1) (length s) = true) as -> by (apply Nat.ltb_lt; lia).
    assert (Nat.ltb (2 * m) (length s) = true) as -> by (apply Nat.ltb_lt; lia).
    destruct (Nat.eq_dec m' m) as [->|Hne].
    + rewrite Nat.eqb_refl.
      destruct (Nat.eqb_spec (2 * m) (2 * m + 1)); [lia|]. destruct (Nat.eqb_spec (2 * m + 1) (2 * m)); [lia|].
      rewrite Nat.eqb_refl. cbn. symmetry. exact Esp.
    + destruct (Nat.eqb_spec (2 * m') (2 * m + 1)); [lia|]. destruct (Nat.eqb_spec (2 * m') (2 * m)); [lia|].
      destruct (Nat.eqb_spec (2 * m' + 1) (2 * m + 1)); [lia|]. destruct (Nat.eqb_spec (2 * m' + 1) (2 * m)); [lia|].
      cbn. apply Hdone. lia.
Qed.

Lemma compact_inplace_inv (orig : list Z) (M : nat) :
  (4 * M <= length orig)%nat -> cinv orig M (compact_inplace g orig M).
Proof.
  unfold compact_inplace. induction M as [|M IH]; intros Hlen.
  - cbn. unfold cinv. repeat split; auto. intros m' H; lia.
  - rewrite seq_S, fold_left_app. cbn [fold_left Nat.add]. apply compact_step_inv; [lia|]. apply IH. lia.
Qed.

(* processing the coefficients in increasing order IN PLACE gives, for every coefficient, the recombination of the
   ORIGINAL four residues: no source word is overwritten before it is read; words beyond the compacted half keep
   their old content *)
Theorem compact_inplace_correct (orig : list Z) (M : nat) :
  (4 * M <= length orig)%nat ->
  length (compact_inplace g orig M) = length orig /\
  (forall m, (m < M)%nat ->
     (nthw (compact_inplace g orig M) (2 * m), nthw (compact_inplace g orig M) (2 * m + 1)) = compact_spec g orig m) /\
  (forall i, (2 * M <= i)%nat -> nthw (compact_inplace g orig M) i = nthw orig i).
Proof.
  intros H. destruct (compact_inplace_inv orig M H) as (A & B & C). auto.
Qed.
End Func.

(* a compaction in DECREASING order would read overwritten words: the order matters *)
Lemma compact_reverse_order_refuted :
  exists (g : Z -> Z -> Z -> Z -> Z * Z) orig,
    let s := compact_step g (compact_step g orig 1) 0 in
    (nthw s 0, nthw s 1) <> compact_spec g orig 0.
Proof.
  exists (fun a b c d => (a + b, c + d)), [1; 2; 3; 4; 5; 6; 7; 8]. cbn. intros H; inversion H.
Qed.
