(* C12 - poulpy-bin-fhe cmux / cmux_assign / cmux_assign_neg (size query repaired by 3f00261): the declared size suffices on
   ring degrees that are multiples of 8.  Every statement mentions the GENERATED formula. *)
From PV Require Import Base.MachineInt Model.C12Scratch Gen.C12TmpBytes_gen Model.C12Trees
  Proofs.C12Arena Proofs.C12Hal Proofs.C12Core Proofs.C12KeySwitch Proofs.C12More Proofs.C12Conv.
Open Scope Z_scope.

Lemma div_ceil_mul_ge (x b : Z) : 1 <= b -> x <= div_ceil x b * b.
Proof.
  intros Hb. unfold div_ceil. pose proof (Z.div_mod (x + b - 1) b ltac:(lia)). pose proof (Z.mod_pos_bound (x + b - 1) b ltac:(lia)). nia.
Qed.

Section Cmux.
  Variables fam n : Z.
  Hypothesis Hf : is_fam fam.
  Hypothesis Hn0 : 0 <= n.
  Hypothesis Hn8 : n mod 8 = 0.

  (* the product's need grows with the precision of its input *)
  Lemma ep_internal_mono (r r' a a' g : infos) : wf_infos g -> 0 <= i_max_k a' <= i_max_k a ->
    glwe_external_product_internal_tmp_bytes fam n r' a' g <= glwe_external_product_internal_tmp_bytes fam n r a g.
  Proof using Hf Hn0 Hn8.
    intros (Hb & Hsz & Hr & Hri & Hdn & Hds) Hk.
    unfold glwe_external_product_internal_tmp_bytes. cbv zeta.
    set (x' := div_ceil (div_ceil (i_max_k a') (i_base2k g)) (i_dsize g)). set (x := div_ceil (div_ceil (i_max_k a) (i_base2k g)) (i_dsize g)).
    assert (Hx : 0 <= x' <= x).
    { unfold x, x'. pose proof (div_ceil_nonneg (i_max_k a') (i_base2k g) ltac:(lia) Hb).
      pose proof (div_ceil_mono (i_max_k a) (i_max_k a') (i_base2k g) Hb ltac:(lia)).
      split; [apply div_ceil_nonneg; lia | apply div_ceil_mono; lia]. }
    clearbody x x'.
    pose proof (dft_mono fam n Hf Hn0 Hn8 (i_rank g + 1) x x' ltac:(lia) ltac:(lia)).
    assert (hal_vmp_apply_dft_to_dft_tmp_bytes fam n (i_size r') x' x' (i_rank g + 1) (i_rank g + 1) (i_size g)
            <= hal_vmp_apply_dft_to_dft_tmp_bytes fam n (i_size r) x x (i_rank g + 1) (i_rank g + 1) (i_size g)).
    { autounfold with c12gen. rewrite !Z.min_id.
      assert (x' * (i_rank g + 1) <= x * (i_rank g + 1)) by (apply Z.mul_le_mono_nonneg_r; lia).
      destruct Hf as [-> | ->]; cbn [Z.eqb]; lia. }
    lia.
  Qed.

  Lemma cmux_layout_facts (res a : infos) : wf_infos res -> wf_infos a -> i_n res = n ->
    let t := cmux_tmp_layout res a in
    wf_infos t /\ i_n t = n /\ i_rank t = i_rank res /\ i_base2k t = i_base2k res /\ 0 <= i_size t /\
    0 <= i_max_k res <= i_max_k t /\
    0 <= VecZnx_bytes_of (i_n t) (i_rank t + 1) (i_size t) /\ VecZnx_bytes_of (i_n t) (i_rank t + 1) (i_size t) mod 64 = 0.
  Proof using Hf Hn0 Hn8.
    intros (Hb & Hs & Hr & Hri & Hdn & Hds) (Hab & Has & _) Hn t.
    assert (Hmr : 0 <= i_max_k res) by (unfold i_max_k; nia). assert (Hma : 0 <= i_max_k a) by (unfold i_max_k; nia).
    set (mk := Z.max (i_max_k res) (i_max_k a)).
    assert (Hsz : 0 <= div_ceil mk (i_base2k res)) by (apply div_ceil_nonneg; unfold mk; lia).
    pose proof (div_ceil_mul_ge mk (i_base2k res) Hb) as Hge.
    assert (Et : i_size t = div_ceil mk (i_base2k res)) by reflexivity.
    split; [unfold wf_infos, t, cmux_tmp_layout, mk_glwe_layout; cbn [i_base2k i_size i_rank i_rank_in i_dnum i_dsize]; fold mk; lia|].
    split; [exact Hn|]. split; [reflexivity|]. split; [reflexivity|]. split; [lia|].
    split; [unfold i_max_k at 3; rewrite Et; change (i_base2k t) with (i_base2k res); unfold mk in *; lia|].
    change (i_n t) with (i_n res). change (i_rank t) with (i_rank res). rewrite Hn, Et.
    apply (al_vec_znx fam n Hf Hn0 Hn8); lia.
  Qed.

  (* cmux and cmux_assign *)
  Lemma suffices_cmux (res a s : infos) :
    wf_infos res -> wf_infos a -> wf_infos s -> i_n res = n -> i_base2k res = i_base2k s -> i_rank res = i_rank s ->
    run_takes (tree_cmux fam n res s) (0, cmux_tmp_bytes fam n res a s) <> None.
  Proof using Hf Hn0 Hn8.
    intros Hr Ha Hs Hn Hb Hrk.
    destruct (cmux_layout_facts res a Hr Ha Hn) as (Wt & Nt & Rt & Bt & St & Mt & T0 & T64).
    set (t := cmux_tmp_layout res a) in *.
    assert (Hrs : 0 <= i_size res) by (destruct Hr as (_&?&_); lia).
    destruct (ep_internal_spec fam n Hf Hn0 Hn8 res s Hs Hrs Hb) as [Ai Di]. pose proof (aligned_need_nonneg _ Ai).
    pose proof (ep_internal_mono res s t res s Hs Mt) as Hm.
    destruct (callee_big_normalize fam n Hf Hn0 Hn8) as [Ab Db]. pose proof (nn_bnorm fam n Hf Hn0 Hn8).
    pose proof (al_dft fam n Hf Hn0 Hn8 (i_rank res + 1) (i_size s) ltac:(destruct Hr as (_&_&?&_); lia) ltac:(destruct Hs as (_&?&_); lia)) as HD.
    apply aligned_suffices; unfold tree_cmux, cmux_tmp_bytes; cbv zeta; fold (cmux_tmp_layout res a); fold t;
      rewrite ?(glwe_bytes_eq t Wt), <- ?Hrk.
    - cbn [aligned_tree]. unfold ALIGN. intuition; lia.
    - cbn [demand persist]. rewrite Db. destruct_loops; lia.
  Qed.

  (* cmux_assign_neg: the difference lives in a temporary taken from the scratch *)
  Lemma suffices_cmux_assign_neg (res a s : infos) :
    wf_infos res -> wf_infos a -> wf_infos s -> i_n res = n -> i_base2k res = i_base2k s -> i_rank res = i_rank s ->
    run_takes (tree_cmux_assign_neg fam n res a s) (0, cmux_tmp_bytes fam n res a s) <> None.
  Proof using Hf Hn0 Hn8.
    intros Hr Ha Hs Hn Hb Hrk.
    destruct (cmux_layout_facts res a Hr Ha Hn) as (Wt & Nt & Rt & Bt & St & Mt & T0 & T64).
    set (t := cmux_tmp_layout res a) in *.
    destruct (ep_internal_spec fam n Hf Hn0 Hn8 t s Hs St ltac:(lia)) as [Ai Di]. pose proof (aligned_need_nonneg _ Ai).
    rewrite (ep_internal_res_indep fam n Hf Hn0 Hn8 s res t s) in Di.
    destruct (callee_big_normalize fam n Hf Hn0 Hn8) as [Ab Db]. pose proof (nn_bnorm fam n Hf Hn0 Hn8).
    pose proof (al_dft fam n Hf Hn0 Hn8 (i_rank res + 1) (i_size s) ltac:(destruct Hr as (_&_&?&_); lia) ltac:(destruct Hs as (_&?&_); lia)) as HD.
    apply aligned_suffices; unfold tree_cmux_assign_neg, cmux_tmp_bytes, t_take_glwe; cbv zeta; fold (cmux_tmp_layout res a); fold t;
      rewrite ?(glwe_bytes_eq t Wt), <- ?Hrk.
    - cbn [aligned_tree]. unfold ALIGN. intuition; lia.
    - cbn [demand persist]. rewrite Db. destruct_loops; lia.
  Qed.
End Cmux.
