(* Phase algebra of the gadget product on its functional form (Model/GadgetSpec.v), shared by C03 and C04.
   gadget_phase_exact (3a): the phase of gp_spec under any secret family Sk is, exactly,
        sum_di sum_row sum_ci  A_ci[row*dsize+dsize-1-di] (x) 2^(di b) ktrunc(row, ci, di)
     where ktrunc is the window of key cell (row, ci) that iteration di reads.
   gadget_phase_rows: under the key-row hypothesis key_rows_ok (cell (row,ci) has phase 2^(P-(row+1) dsize b) src_ci + e + 2^P I)
        phase = sum_ci val(used limbs of column ci) (x) src_ci  +  gadget_err  +  2^P gadget_int
     with gadget_err = gadget_noise - gadget_trunc EXPLICIT (GadgetSpec.v), for every dsize, dnum, a_size, msize. *)
From PV Require Import Base.MachineInt Model.Znx Model.Limbs Model.Flat Model.Ring Model.Poly Model.DftAbs Model.Gadget Model.GadgetSpec Proofs.C07Dft Proofs.C07Ring Proofs.GadgetDecomp.
Open Scope Z_scope.

Lemma padd_len n a b : length a = n -> length b = n -> length (padd a b) = n.
Proof. intros Ha Hb. rewrite padd_length, Ha, Hb. apply Nat.min_id. Qed.
Lemma psub_len n a b : length a = n -> length b = n -> length (psub a b) = n.
Proof. intros Ha Hb. rewrite psub_length, Ha, Hb. apply Nat.min_id. Qed.

Ltac plen :=
  repeat lazymatch goal with
  | |- forall _, _ => intros
  | |- length (psumf _ _ _) = _ => apply psumf_length
  | |- length (pmul _ _) = _ => rewrite pmul_length
  | |- length (pscale _ _) = _ => rewrite pscale_length
  | |- length (pneg _) = _ => rewrite pneg_length
  | |- length (pzero _) = _ => apply pzero_length
  | |- length (padd _ _) = _ => apply padd_len
  | |- length (psub _ _) = _ => apply psub_len
  | |- length (if ?c then _ else _) = _ => destruct c
  | _ => solve [auto]
  end.

Section PhaseExact.
Variables (P b : Z) (n cin cols_out msize a_size dsize dnum : nat) (clamp : bool).
Variable A : nat -> nat -> list Z.
Variable K : pmat.
Variable Sk : nat -> list Z.
Hypothesis HA : forall ci l, length (A ci l) = n.
Hypothesis HK : forall q c, length (K q c) = n.
Hypothesis HS : forall co, length (Sk co) = n.
Hypothesis Hb : 0 <= b.
Hypothesis HP : Z.of_nat msize * b <= P.

Let w (j : nat) : Z := 2 ^ (P - (Z.of_nat j + 1) * b).
Let L (di : nat) : nat := win_len msize dsize di.
Let idx (row di : nat) : nat := (row * dsize + (dsize - di - 1))%nat.
Let R (di : nat) : nat := rows_used a_size dsize dnum di clamp.
(* the window of cell q seen by iteration di, in output column co *)
Let kw (q di co : nat) : list Z :=
  psumf n (fun i => pscale (w (di + i)) (K q ((di + i) * cols_out + co)%nat)) (L di).

Lemma w_split di i : (di + i < msize)%nat -> w i = 2 ^ (Z.of_nat di * b) * w (di + i).
Proof.
  intros H. unfold w.
  assert (H1 : 0 <= Z.of_nat di * b) by (apply Z.mul_nonneg_nonneg; lia).
  assert (H2 : (Z.of_nat (di + i) + 1) * b <= Z.of_nat msize * b) by (apply Z.mul_le_mono_nonneg_r; lia).
  rewrite <- Z.pow_add_r by lia. f_equal. lia.
Qed.

Lemma L_lt di j : (j < L di)%nat -> (di + j < msize)%nat.
Proof. unfold L, win_len. lia. Qed.
Lemma L_le di : (L di <= msize)%nat.
Proof. unfold L, win_len. lia. Qed.

Lemma cell_window q di co :
  psumf n (fun j => pscale (w j) (K q ((j + di) * cols_out + co)%nat)) (L di) = pscale (2 ^ (Z.of_nat di * b)) (kw q di co).
Proof.
  unfold kw. rewrite pscale_psumf. apply psumf_ext; intros j Hj.
  pose proof (L_lt di j Hj). rewrite pscale_pscale, <- w_split by lia. rewrite (Nat.add_comm j di). reflexivity.
Qed.

Lemma term_window co di :
  psumf n (fun j => pscale (w j) (gp_term n cin cols_out msize a_size dsize dnum clamp A K co j di)) msize
  = psumf n (fun row => psumf n (fun ci => pmul (A ci (idx row di)) (pscale (2 ^ (Z.of_nat di * b)) (kw (row * cin + ci) di co))) cin) (R di).
Proof.
  unfold gp_term.
  rewrite (psumf_ext n _ (fun j => if Nat.ltb j (sz_r msize dsize di) && Nat.ltb (j + di) msize
                                  then pscale (w j) (gp_rows n cin cols_out a_size dsize dnum clamp A K co j di) else pzero n))
    by (intros j _; destruct (_ && _); [reflexivity|apply pscale_pzero]).
  rewrite (psumf_cond n _ _ (L di) msize).
  - unfold gp_rows. fold (R di).
    rewrite (psumf_ext n _ (fun j => psumf n (fun row => psumf n (fun ci =>
              pmul (A ci (idx row di)) (pscale (w j) (K (row * cin + ci)%nat ((j + di) * cols_out + co)%nat))) cin) (R di))).
    2:{ intros j _. rewrite pscale_psumf. apply psumf_ext; intros row _. rewrite pscale_psumf.
        apply psumf_ext; intros ci _. rewrite pscale_pmul_r. reflexivity. }
    rewrite psumf_swap. apply psumf_ext; intros row _.
    rewrite psumf_swap. apply psumf_ext; intros ci _.
    rewrite <- pmul_psumf_l by plen. rewrite cell_window. reflexivity.
  - apply L_le.
  - unfold gp_rows; plen.
  - intros j Hj. unfold L, win_len.
    destruct (Nat.ltb_spec j (sz_r msize dsize di)); destruct (Nat.ltb_spec (j + di) msize);
      destruct (Nat.ltb_spec j (Nat.min (sz_r msize dsize di) (msize - di))); cbn [andb]; try reflexivity; lia.
Qed.

Lemma kw_ktrunc q di :
  psumf n (fun co => pmul (kw q di co) (Sk co)) cols_out = ktrunc P b n cols_out msize dsize K Sk q di.
Proof. reflexivity. Qed.

Lemma digit_window di :
  psumf n (fun co => pmul (psumf n (fun j => pscale (w j) (gp_term n cin cols_out msize a_size dsize dnum clamp A K co j di)) msize) (Sk co)) cols_out
  = psumf n (fun row => psumf n (fun ci =>
      pmul (A ci (idx row di)) (pscale (2 ^ (Z.of_nat di * b)) (ktrunc P b n cols_out msize dsize K Sk (row * cin + ci)%nat di))) cin) (R di).
Proof.
  rewrite (psumf_ext n _ (fun co => psumf n (fun row => psumf n (fun ci =>
            pmul (A ci (idx row di)) (pmul (pscale (2 ^ (Z.of_nat di * b)) (kw (row * cin + ci) di co)) (Sk co))) cin) (R di))).
  2:{ intros co _. rewrite term_window. rewrite pmul_psumf_r by (unfold kw; plen).
      apply psumf_ext; intros row _. rewrite pmul_psumf_r by (unfold kw; plen).
      apply psumf_ext; intros ci _. apply pmul_assoc; rewrite HA; unfold kw; plen. }
  rewrite psumf_swap. apply psumf_ext; intros row _.
  rewrite psumf_swap. apply psumf_ext; intros ci _.
  rewrite <- pmul_psumf_l by (unfold kw; plen).
  f_equal. rewrite <- kw_ktrunc, pscale_psumf. apply psumf_ext; intros co _.
  apply pscale_pmul_l.
Qed.

(* (3a) the phase of the functional form, exactly *)
Theorem gadget_phase_exact :
  phase_f P b n cols_out msize (gp_spec n cin cols_out msize a_size dsize dnum clamp A K) Sk
  = psumf n (fun di => psumf n (fun row => psumf n (fun ci =>
      pmul (A ci (row * dsize + (dsize - di - 1))%nat)
           (pscale (2 ^ (Z.of_nat di * b)) (ktrunc P b n cols_out msize dsize K Sk (row * cin + ci)%nat di))) cin)
      (rows_used a_size dsize dnum di clamp)) dsize.
Proof.
  unfold phase_f, pval, gp_spec.
  rewrite (psumf_ext n _ (fun co => psumf n (fun di =>
     pmul (psumf n (fun j => pscale (w j) (gp_term n cin cols_out msize a_size dsize dnum clamp A K co j di)) msize) (Sk co)) dsize)).
  2:{ intros co _.
      rewrite (psumf_ext n _ (fun j => psumf n (fun di => pscale (w j) (gp_term n cin cols_out msize a_size dsize dnum clamp A K co j di)) dsize))
        by (intros; apply pscale_psumf).
      rewrite psumf_swap. apply pmul_psumf_r; [apply HS|]. unfold gp_term, gp_rows. plen. }
  rewrite psumf_swap. apply psumf_ext; intros di _. apply digit_window.
Qed.
End PhaseExact.


Section MoreSums.
Lemma nth_psumf_total n f m k : (forall i, length (f i) = n) -> nth k (psumf n f m) 0 = zsum (fun i => nth k (f i) 0) m.
Proof. intros H. apply psumf_coeff. auto. Qed.

Lemma rows_used_eq a_size dsize dnum di clamp : rows_used a_size dsize dnum di clamp = Nat.min ((a_size + di) / dsize) dnum.
Proof. unfold rows_used, sz_a. destruct clamp; lia. Qed.

Lemma digit_index_ge (len dsize di row : nat) : (1 <= dsize)%nat -> (di < dsize)%nat ->
  ((len + di) / dsize <= row)%nat -> (len <= row * dsize + (dsize - di - 1))%nat.
Proof.
  intros Hd Hdi H.
  destruct (Nat.le_gt_cases len (row * dsize + (dsize - di - 1))) as [G|G]; [exact G|exfalso].
  assert (dsize * S row <= len + di)%nat by nia.
  apply Nat.div_le_lower_bound in H0; lia.
Qed.
End MoreSums.

Section PhaseRows.
Variables (P b : Z) (n cin cols_out msize a_size dsize dnum : nat) (clamp : bool).
Variable A : nat -> nat -> list Z.
Variable K : pmat.
Variable Sk : nat -> list Z.
Variables (src : nat -> list Z) (e I : nat -> nat -> list Z).
Hypothesis Hd : (1 <= dsize)%nat.
Hypothesis HA : forall ci l, length (A ci l) = n.
Hypothesis Hz : forall ci l, (a_size <= l)%nat -> A ci l = pzero n.
Hypothesis HK : forall q c, length (K q c) = n.
Hypothesis HS : forall co, length (Sk co) = n.
Hypothesis Hsrc : forall ci, length (src ci) = n.
Hypothesis He : forall row ci, length (e row ci) = n.
Hypothesis HI : forall row ci, length (I row ci) = n.
Hypothesis Hb : 0 <= b.
Hypothesis HP : Z.of_nat msize * b <= P.
Hypothesis HP2 : Z.of_nat dnum * Z.of_nat dsize * b <= P.
Hypothesis key_row : key_rows_ok P b n cin cols_out msize dsize dnum K Sk src e I.

Let idx (row di : nat) : nat := (row * dsize + (dsize - di - 1))%nat.
Let cd (di : nat) : Z := 2 ^ (Z.of_nat di * b).
Let tsum (F : nat -> nat -> nat -> list Z) : list Z :=
  psumf n (fun di => psumf n (fun row => psumf n (fun ci => F di row ci) cin) dnum) dsize.

Lemma tsum_ext F G : (forall di row ci, (di < dsize)%nat -> (row < dnum)%nat -> (ci < cin)%nat -> F di row ci = G di row ci) ->
  tsum F = tsum G.
Proof. intros H. unfold tsum. apply psumf_ext; intros di Hdi. apply psumf_ext; intros row Hrow. apply psumf_ext; intros ci Hci. auto. Qed.

Lemma tsum_padd F G : tsum (fun di row ci => padd (F di row ci) (G di row ci)) = padd (tsum F) (tsum G).
Proof.
  unfold tsum. rewrite <- psumf_padd. apply psumf_ext; intros di _.
  rewrite <- psumf_padd. apply psumf_ext; intros row _. apply psumf_padd.
Qed.

Lemma tsum_pscale c F : tsum (fun di row ci => pscale c (F di row ci)) = pscale c (tsum F).
Proof.
  unfold tsum. rewrite pscale_psumf. apply psumf_ext; intros di _.
  rewrite pscale_psumf. apply psumf_ext; intros row _. rewrite pscale_psumf. reflexivity.
Qed.

Lemma tsum_length F : (forall di row ci, length (F di row ci) = n) -> length (tsum F) = n.
Proof. intros H. unfold tsum. plen. Qed.

(* ---- kwin : splitting a window, lengths ---- *)
Lemma kwin_length q lo len : length (kwin P b n cols_out K Sk q lo len) = n.
Proof. unfold kwin. plen. Qed.

Lemma kwin_split q lo l1 l2 :
  kwin P b n cols_out K Sk q lo (l1 + l2) = padd (kwin P b n cols_out K Sk q lo l1) (kwin P b n cols_out K Sk q (lo + l1) l2).
Proof.
  unfold kwin. rewrite <- psumf_padd. apply psumf_ext; intros co _.
  rewrite psumf_app by plen.
  match goal with |- pmul (padd ?x ?y) _ = _ =>
    assert (Lx : length x = n) by plen; assert (Ly : length y = n) by plen end.
  rewrite pmul_padd_distr_r by (rewrite Lx; auto).
  do 2 f_equal. apply psumf_ext; intros i _. rewrite Nat.add_assoc. reflexivity.
Qed.

Lemma ktrunc_length q di : length (ktrunc P b n cols_out msize dsize K Sk q di) = n.
Proof. apply kwin_length. Qed.
Lemma khigh_length q di : length (khigh P b n cols_out msize dsize K Sk q di) = n.
Proof. apply kwin_length. Qed.
Lemma klow_int_length q di : length (klow_int b n cols_out msize K Sk q di) = n.
Proof. unfold klow_int. plen. Qed.
Lemma kphase_length q : length (kphase P b n cols_out msize K Sk q) = n.
Proof. apply kwin_length. Qed.

(* the key limbs below di, rescaled by 2^(di b), are a multiple of 2^P *)
Lemma klow_scaled q di :
  pscale (cd di) (kwin P b n cols_out K Sk q 0 (Nat.min di msize)) = pscale (2 ^ P) (klow_int b n cols_out msize K Sk q di).
Proof.
  unfold kwin, klow_int. rewrite !pscale_psumf. apply psumf_ext; intros co _.
  rewrite <- !pscale_pmul_l. f_equal. rewrite !pscale_psumf. apply psumf_ext; intros j Hj.
  rewrite !pscale_pscale. cbn [Nat.add]. f_equal. unfold cd.
  assert (H1 : 0 <= Z.of_nat di * b) by (apply Z.mul_nonneg_nonneg; lia).
  assert (H2 : (Z.of_nat j + 1) * b <= Z.of_nat msize * b) by (apply Z.mul_le_mono_nonneg_r; lia).
  assert (H3 : 0 <= Z.of_nat (di - j - 1) * b) by (apply Z.mul_nonneg_nonneg; lia).
  assert (0 <= P) by nia.
  rewrite <- !Z.pow_add_r by lia. f_equal.
  replace (Z.of_nat (di - j - 1)) with (Z.of_nat di - Z.of_nat j - 1) by lia. ring.
Qed.

(* the three parts of a key cell as iteration di sees it *)
Lemma cell_split q di :
  pscale (cd di) (kphase P b n cols_out msize K Sk q)
  = padd (padd (pscale (2 ^ P) (klow_int b n cols_out msize K Sk q di))
               (pscale (cd di) (ktrunc P b n cols_out msize dsize K Sk q di)))
         (pscale (cd di) (khigh P b n cols_out msize dsize K Sk q di)).
Proof.
  unfold kphase, ktrunc, khigh.
  set (L := win_len msize dsize di).
  assert (HL : (L = 0 \/ di + L <= msize)%nat) by (unfold L, win_len; lia).
  replace msize with (Nat.min di msize + (L + (msize - (di + L))))%nat at 1 by lia.
  rewrite kwin_split, kwin_split. cbn [Nat.add].
  rewrite <- padd_assoc, !pscale_padd, klow_scaled.
  assert (E2 : kwin P b n cols_out K Sk q (Nat.min di msize) L = kwin P b n cols_out K Sk q di L).
  { destruct (Nat.le_gt_cases di msize) as [G|G]; [rewrite (Nat.min_l di msize G); reflexivity|].
    replace L with 0%nat by lia. reflexivity. }
  assert (E3 : kwin P b n cols_out K Sk q (Nat.min di msize + L) (msize - (di + L))
             = kwin P b n cols_out K Sk q (di + L) (msize - (di + L))).
  { destruct (Nat.le_gt_cases di msize) as [G|G]; [rewrite (Nat.min_l di msize G); reflexivity|].
    replace (msize - (di + L))%nat with 0%nat by lia. reflexivity. }
  rewrite E2, E3. reflexivity.
Qed.

Lemma pmul_pzero_l' a : length a = n -> pmul (pzero n) a = pzero n.
Proof. intros <-. apply pmul_pzero_l. Qed.

Lemma A_beyond ci row di : (di < dsize)%nat -> ((a_size + di) / dsize <= row)%nat -> A ci (idx row di) = pzero n.
Proof. intros Hdi H. apply Hz. apply digit_index_ge; assumption. Qed.

Lemma rows_extend (G : nat -> nat -> list Z) di : (di < dsize)%nat -> (forall row ci, length (G row ci) = n) ->
  psumf n (fun row => psumf n (fun ci => pmul (A ci (idx row di)) (G row ci)) cin) (rows_used a_size dsize dnum di clamp)
  = psumf n (fun row => psumf n (fun ci => pmul (A ci (idx row di)) (G row ci)) cin) dnum.
Proof.
  intros Hdi HG. rewrite rows_used_eq. symmetry. apply psumf_cut; [lia|plen|].
  intros row H1 H2. apply psumf_zero. intros ci _.
  rewrite A_beyond by (try assumption; lia). apply pmul_pzero_l'. apply HG.
Qed.

Let X : list Z := tsum (fun di row ci => pmul (A ci (idx row di)) (pscale (cd di) (ktrunc P b n cols_out msize dsize K Sk (row * cin + ci)%nat di))).

Lemma phase_is_X :
  phase_f P b n cols_out msize (gp_spec n cin cols_out msize a_size dsize dnum clamp A K) Sk = X.
Proof.
  rewrite (gadget_phase_exact P b n cin cols_out msize a_size dsize dnum clamp A K Sk HA HK HS Hb HP).
  unfold X, tsum. apply psumf_ext; intros di Hdi.
  apply (rows_extend (fun row ci => pscale (2 ^ (Z.of_nat di * b)) (ktrunc P b n cols_out msize dsize K Sk (row * cin + ci)%nat di)) di Hdi).
  intros. rewrite pscale_length. apply ktrunc_length.
Qed.

Let KP : list Z := tsum (fun di row ci => pmul (A ci (idx row di)) (pscale (cd di) (kphase P b n cols_out msize K Sk (row * cin + ci)%nat))).

(* T2 : split of every cell into low / seen / dropped limbs *)
Lemma KP_split :
  KP = padd (padd (pscale (2 ^ P) (gadget_int_low b n cin cols_out msize dsize dnum A K Sk)) X)
            (gadget_trunc P b n cin cols_out msize dsize dnum A K Sk).
Proof.
  transitivity (padd (padd (pscale (2 ^ P) (tsum (fun di row ci => pmul (A ci (idx row di)) (klow_int b n cols_out msize K Sk (row * cin + ci)%nat di)))) X)
                     (tsum (fun di row ci => pmul (A ci (idx row di)) (pscale (cd di) (khigh P b n cols_out msize dsize K Sk (row * cin + ci)%nat di)))));
    [|reflexivity].
  unfold KP, X.
  rewrite <- tsum_pscale, <- !tsum_padd. apply tsum_ext; intros di row ci _ _ _.
  rewrite cell_split.
  rewrite !pmul_padd_distr_l by (rewrite ?HA, ?padd_length, ?pscale_length, ?klow_int_length, ?ktrunc_length, ?khigh_length; lia).
  rewrite pscale_pmul_r. reflexivity.
Qed.

(* the main term: the used limbs of every input column times what the rows encrypt *)
Lemma main_term :
  tsum (fun di row ci => pmul (A ci (idx row di)) (pscale (cd di) (pscale (2 ^ (P - (Z.of_nat row + 1) * Z.of_nat dsize * b)) (src ci))))
  = psumf n (fun ci => pmul (pval_used P b n a_size dsize dnum A ci) (src ci)) cin.
Proof.
  unfold tsum.
  rewrite (psumf_ext n _ (fun di => psumf n (fun ci => psumf n (fun row =>
     pmul (pscale (2 ^ (P - (Z.of_nat row + 1) * Z.of_nat dsize * b + Z.of_nat di * b)) (A ci (idx row di))) (src ci)) dnum) cin)).
  2:{ intros di _. rewrite psumf_swap. apply psumf_ext; intros ci _. apply psumf_ext; intros row Hrow.
      rewrite pscale_pscale, pscale_pmul_r, <- pscale_pmul_l. do 2 f_equal. unfold cd.
      assert (H1 : 0 <= Z.of_nat di * b) by (apply Z.mul_nonneg_nonneg; lia).
      assert (H2 : (Z.of_nat row + 1) * Z.of_nat dsize * b <= Z.of_nat dnum * Z.of_nat dsize * b).
      { apply Z.mul_le_mono_nonneg_r; [lia|]. apply Z.mul_le_mono_nonneg_r; lia. }
      rewrite <- Z.pow_add_r by lia. f_equal. ring. }
  rewrite psumf_swap. apply psumf_ext; intros ci _.
  rewrite (psumf_ext n _ (fun di => pmul (psumf n (fun row =>
     pscale (2 ^ (P - (Z.of_nat row + 1) * Z.of_nat dsize * b + Z.of_nat di * b)) (A ci (idx row di))) dnum) (src ci)))
    by (intros; symmetry; apply pmul_psumf_r; plen).
  rewrite <- pmul_psumf_r by plen. f_equal.
  unfold pval_used. rewrite <- (gadget_decomposition_poly P b n dsize dnum a_size (A ci) Hd (HA ci)).
  apply psumf_ext; intros di Hdi. apply psumf_cut; [lia|plen|].
  intros row H1 H2. pose proof (A_beyond ci row di Hdi ltac:(lia)) as E. unfold idx in E.
  unfold idx. rewrite E. apply pscale_pzero.
Qed.

Lemma noise_term :
  tsum (fun di row ci => pmul (A ci (idx row di)) (pscale (cd di) (e row ci))) = gadget_noise b n cin dsize dnum A e.
Proof.
  unfold tsum, gadget_noise. rewrite psumf_swap. apply psumf_ext; intros row _.
  rewrite psumf_swap. apply psumf_ext; intros ci _.
  rewrite (psumf_ext n _ (fun di => pmul (pscale (cd di) (A ci (idx row di))) (e row ci)))
    by (intros; rewrite pscale_pmul_r, <- pscale_pmul_l; reflexivity).
  rewrite <- pmul_psumf_r by plen. f_equal.
  unfold digit. rewrite (psumf_rev n (fun t => pscale (2 ^ (Z.of_nat (dsize - 1 - t) * b)) (A ci (row * dsize + t)%nat))) by plen.
  apply psumf_ext; intros di Hdi. unfold cd, idx.
  replace (dsize - 1 - (dsize - 1 - di))%nat with di by lia.
  replace (dsize - 1 - di)%nat with (dsize - di - 1)%nat by lia. reflexivity.
Qed.

Lemma int_term :
  tsum (fun di row ci => pmul (A ci (idx row di)) (pscale (cd di) (pscale (2 ^ P) (I row ci))))
  = pscale (2 ^ P) (gadget_int_rows b n cin dsize dnum A I).
Proof.
  transitivity (pscale (2 ^ P) (tsum (fun di row ci => pmul (A ci (idx row di)) (pscale (cd di) (I row ci))))); [|reflexivity].
  rewrite <- tsum_pscale. apply tsum_ext; intros di row ci _ _ _.
  rewrite !pscale_pscale, <- pscale_pmul_r, pscale_pscale. fold (cd di). f_equal. f_equal. ring.
Qed.

(* T1 : what the rows encrypt *)
Lemma KP_rows :
  KP = padd (padd (psumf n (fun ci => pmul (pval_used P b n a_size dsize dnum A ci) (src ci)) cin)
                  (gadget_noise b n cin dsize dnum A e))
            (pscale (2 ^ P) (gadget_int_rows b n cin dsize dnum A I)).
Proof.
  rewrite <- main_term, <- noise_term, <- int_term, <- !tsum_padd. unfold KP.
  apply tsum_ext; intros di row ci Hdi Hrow Hci.
  rewrite (key_row row ci Hrow Hci). rewrite !pscale_padd.
  rewrite !pmul_padd_distr_l by (rewrite ?HA, ?padd_length, ?pscale_length, ?Hsrc, ?He, ?HI; lia).
  reflexivity.
Qed.

(* generic phase theorem of the gadget product under the key-row hypothesis *)
Theorem gadget_phase_rows :
  phase_f P b n cols_out msize (gp_spec n cin cols_out msize a_size dsize dnum clamp A K) Sk
  = padd (padd (psumf n (fun ci => pmul (pval_used P b n a_size dsize dnum A ci) (src ci)) cin)
               (gadget_err P b n cin cols_out msize dsize dnum A K Sk e))
         (pscale (2 ^ P) (gadget_int b n cin cols_out msize dsize dnum A K Sk I)).
Proof.
  rewrite phase_is_X. pose proof KP_split as E1. rewrite KP_rows in E1.
  unfold gadget_err, gadget_int.
  set (M := psumf n (fun ci => pmul (pval_used P b n a_size dsize dnum A ci) (src ci)) cin) in *.
  set (N := gadget_noise b n cin dsize dnum A e) in *.
  set (IR := gadget_int_rows b n cin dsize dnum A I) in *.
  set (IL := gadget_int_low b n cin cols_out msize dsize dnum A K Sk) in *.
  set (T := gadget_trunc P b n cin cols_out msize dsize dnum A K Sk) in *.
  assert (LM : length M = n) by (unfold M, pval_used, pval; plen).
  assert (LN : length N = n) by (unfold N, gadget_noise, digit; plen).
  assert (LIR : length IR = n) by (unfold IR, gadget_int_rows; plen).
  assert (LIL : length IL = n) by (unfold IL, gadget_int_low; plen; apply klow_int_length).
  assert (LT : length T = n) by (unfold T, gadget_trunc; plen; apply khigh_length).
  assert (LX : length X = n) by (unfold X; apply tsum_length; intros; plen; apply ktrunc_length).
  apply list_eq_nth.
  - rewrite LX. symmetry. plen.
  - intros k _. apply (f_equal (fun l => nth k l 0)) in E1.
    repeat first [ rewrite nth_padd in E1 by (rewrite ?padd_length, ?pscale_length; lia)
                 | rewrite nth_pscale in E1 ].
    repeat first [ rewrite nth_padd by (repeat (rewrite ?padd_length, ?psub_length, ?pscale_length); lia)
                 | rewrite nth_psub by (repeat (rewrite ?padd_length, ?psub_length, ?pscale_length); lia)
                 | rewrite nth_pscale ].
    lia.
Qed.
End PhaseRows.


(* ================================================================================================================ *)
(* (2) the model Gadget.gadget_product computes the functional form gp_spec, for every shape *)

Section ModelLemmas.
Lemma col_map2 {X Y} (f : X -> Y -> plimbs) (l1 : list X) (l2 : list Y) dx dy co :
  length l1 = length l2 -> (co < length l1)%nat ->
  col (map2 f l1 l2) co = f (nth co l1 dx) (nth co l2 dy).
Proof.
  intros Hl Hco. unfold col, map2.
  rewrite (nth_map' _ _ _ _ (dx, dy)) by (rewrite combine_length; lia).
  rewrite combine_nth by exact Hl. reflexivity.
Qed.

Lemma col_map_seq (F : nat -> plimbs) m co : (co < m)%nat -> col (map F (seq 0 m)) co = F co.
Proof.
  intros H. unfold col. rewrite (nth_map' _ _ _ _ 0%nat) by (rewrite seq_length; exact H).
  rewrite seq_nth by exact H. reflexivity.
Qed.

Lemma col_map (F : plimbs -> plimbs) (a : cols_t) ci : (ci < length a)%nat -> col (map F a) ci = F (col a ci).
Proof. intros H. unfold col. apply nth_map'; exact H. Qed.

Lemma flat_lt (j co cols m : nat) : (co < cols)%nat -> ((j * cols + co < cols * m)%nat <-> (j < m)%nat).
Proof. intros H. split; intros G; nia. Qed.

Lemma flat_divmod (row ci cin : nat) : (ci < cin)%nat -> ((row * cin + ci) mod cin = ci /\ (row * cin + ci) / cin = row)%nat.
Proof.
  intros H. split.
  - rewrite Nat.add_comm, Nat.mod_add by lia. apply Nat.mod_small; exact H.
  - rewrite Nat.add_comm, Nat.div_add by lia. rewrite Nat.div_small by exact H. reflexivity.
Qed.

Lemma min_mul (c x y : nat) : Nat.min (c * x) (c * y) = (Nat.min x y * c)%nat.
Proof. destruct (Nat.le_ge_cases x y); [rewrite !Nat.min_l|rewrite !Nat.min_r]; nia. Qed.

Lemma lim_app_l (p r : plimbs) j : (j < length p)%nat -> lim (p ++ r) j = lim p j.
Proof. intros H. unfold lim. apply app_nth1; exact H. Qed.
Lemma lim_app_skipn (p r : plimbs) j : (length p <= j)%nat -> (length p <= length r)%nat -> lim (p ++ skipn (length p) r) j = lim r j.
Proof.
  intros H1 H2. unfold lim. rewrite app_nth2 by exact H1.
  rewrite <- (firstn_skipn (length p) r) at 2.
  rewrite app_nth2; rewrite firstn_length, Nat.min_l by exact H2; [reflexivity|exact H1].
Qed.

(* vmp as a sum of row products (local copy of the C07 shape theorem) *)
Lemma vmp_psumf n rcols rsz acols asz rows msize lo aflat mflat c :
  vmp n rcols rsz acols asz rows msize lo aflat mflat c =
  if Nat.leb (Nat.min (rcols * msize) (rcols * rsz + lo * rcols)) (lo * rcols) then pzero n
  else if Nat.ltb c (Nat.min (rcols * msize) (rcols * rsz + lo * rcols) - lo * rcols)
       then psumf n (fun q => pmul (aflat q) (mflat q (c + lo * rcols)%nat)) (Nat.min (acols * rows) (acols * asz))
       else pzero n.
Proof. reflexivity. Qed.
End ModelLemmas.

Section Model.
Variables (n cin cols_out msize a_size dsize dnum : nat) (clamp : bool).
Variable a : cols_t.
Variable m : pmat.
Hypothesis Ha : wf_cols n cin a_size a.

Let A := acol n a.

Lemma acol_length ci l : length (A ci l) = n.
Proof.
  unfold A, acol, limz. destruct Ha as [Hl Hc].
  destruct (Nat.lt_ge_cases ci cin) as [H|H].
  - destruct (Hc ci H) as [H1 H2]. rewrite H1. destruct (Nat.ltb_spec l a_size); [apply H2; assumption|apply pzero_length].
  - unfold col. rewrite nth_overflow by lia. cbn [length]. destruct (Nat.ltb_spec l 0); [lia|apply pzero_length].
Qed.

Lemma acol_zero ci l : (a_size <= l)%nat -> A ci l = pzero n.
Proof.
  intros H. unfold A, acol, limz. destruct Ha as [Hl Hc].
  destruct (Nat.lt_ge_cases ci cin) as [G|G].
  - destruct (Hc ci G) as [H1 _]. rewrite H1. destruct (Nat.ltb_spec l a_size); [lia|reflexivity].
  - unfold col. rewrite nth_overflow by lia. cbn [length]. destruct (Nat.ltb_spec l 0); [lia|reflexivity].
Qed.

Lemma gp_rows_length co j di : length (gp_rows n cin cols_out a_size dsize dnum clamp A m co j di) = n.
Proof. unfold gp_rows. pose proof acol_length. plen. Qed.
Lemma gp_term_length co j di : length (gp_term n cin cols_out msize a_size dsize dnum clamp A m co j di) = n.
Proof. unfold gp_term. pose proof gp_rows_length. plen. Qed.

(* one vmp of the digit-grouped branch: limb j of output column co *)
Lemma prod_limb di co j : (1 <= dsize)%nat -> (di < dsize)%nat -> (co < cols_out)%nat -> (j < sz_r msize dsize di)%nat ->
  lim (col (vmp_cols n cols_out (sz_r msize dsize di) (map (dft_select n (sz_a a_size dsize dnum di clamp) dsize (dsize - di - 1)) a)
                      (sz_a a_size dsize dnum di clamp) dnum msize di m) co) j
  = if Nat.ltb (j + di) msize then gp_rows n cin cols_out a_size dsize dnum clamp A m co j di else pzero n.
Proof.
  intros Hd Hdi Hc Hj. destruct Ha as [Hl Hcols].
  unfold vmp_cols. cbv zeta. rewrite col_map_seq by exact Hc. rewrite lim_mk' by exact Hj.
  rewrite map_length, Hl. rewrite vmp_psumf.
  set (sa := sz_a a_size dsize dnum di clamp). set (sr := sz_r msize dsize di).
  destruct (Nat.ltb_spec (j + di) msize) as [G|G].
  - destruct (Nat.leb_spec (Nat.min (cols_out * msize) (cols_out * sr + di * cols_out)) (di * cols_out)) as [G1|G1]; [nia|].
    destruct (Nat.ltb_spec (j * cols_out + co) (Nat.min (cols_out * msize) (cols_out * sr + di * cols_out) - di * cols_out)) as [G2|G2]; [|nia].
    rewrite min_mul.
    replace (Nat.min dnum sa) with (rows_used a_size dsize dnum di clamp) by (unfold rows_used; fold sa; lia).
    assert (Hsel : forall row ci, (row < rows_used a_size dsize dnum di clamp)%nat -> (ci < cin)%nat ->
       lim (col (map (dft_select n sa dsize (dsize - di - 1)) a) ((row * cin + ci) mod cin)) ((row * cin + ci) / cin)
       = A ci (row * dsize + (dsize - di - 1))%nat).
    { intros row ci Hrow Hci. destruct (flat_divmod row ci cin Hci) as [E1 E2]. rewrite E1, E2.
      rewrite col_map by lia. destruct (Hcols ci Hci) as [Hlen _].
      apply dft_select_digit_limz; try lia.
      - unfold rows_used in Hrow. fold sa in Hrow. lia.
      - rewrite Hlen. unfold sa, sz_a. destruct clamp; lia. }
    rewrite psumf_flatten.
    + unfold gp_rows. apply psumf_ext; intros row Hrow. apply psumf_ext; intros ci Hci.
      rewrite Hsel by assumption. f_equal. f_equal. lia.
    + intros q Hq. rewrite pmul_length.
      pose proof (Nat.div_mod q cin ltac:(nia)) as E. pose proof (Nat.mod_upper_bound q cin ltac:(nia)) as Hr.
      replace q with ((q / cin) * cin + q mod cin)%nat by lia.
      rewrite Hsel; [apply acol_length| |exact Hr].
      apply Nat.div_lt_upper_bound; nia.
  - destruct (Nat.leb_spec (Nat.min (cols_out * msize) (cols_out * sr + di * cols_out)) (di * cols_out)) as [G1|G1]; [reflexivity|].
    destruct (Nat.ltb_spec (j * cols_out + co) (Nat.min (cols_out * msize) (cols_out * sr + di * cols_out) - di * cols_out)) as [G2|G2]; [nia|reflexivity].
Qed.


Variables (R : nat) (res0 : cols_t).
Hypothesis Hres0 : wf_cols n cols_out R res0.
Hypothesis Hdrop : (dsize - 2 <= msize)%nat.
Hypothesis HR : (msize <= R)%nat.

Let prod (di : nat) : cols_t :=
  vmp_cols n cols_out (sz_r msize dsize di) (map (dft_select n (sz_a a_size dsize dnum di clamp) dsize (dsize - di - 1)) a)
           (sz_a a_size dsize dnum di clamp) dnum msize di m.

Lemma gp_step_eq di res :
  gp_step n cols_out R a a_size dsize dnum msize clamp m (Some res) di
  = Some (if Nat.eqb di 0 then map2 (fun p r0 => p ++ skipn (sz_r msize dsize di) r0) (prod di) res
          else map2 (fun p r => dft_add_assign p r) (prod di) res).
Proof.
  unfold gp_step. cbv zeta.
  destruct (Nat.ltb_spec msize (dsize - di - 2)) as [G|G]; [lia|].
  destruct (Nat.ltb_spec R (msize - (dsize - di - 2))) as [G'|G']; [lia|].
  reflexivity.
Qed.

Lemma prod_shape di : length (prod di) = cols_out /\ forall co, (co < cols_out)%nat -> length (col (prod di) co) = sz_r msize dsize di.
Proof.
  unfold prod, vmp_cols. cbv zeta. split; [rewrite map_length, seq_length; reflexivity|].
  intros co Hc. rewrite col_map_seq by exact Hc. apply mk_length.
Qed.

(* what the accumulator holds outside the limbs written by iteration 0 *)
Let base (co j : nat) : list Z := if Nat.ltb j (sz_r msize dsize 0) then pzero n else lim (col res0 co) j.
Let T := gp_term n cin cols_out msize a_size dsize dnum clamp A m.

Definition gp_inv (k : nat) (res : cols_t) : Prop :=
  length res = cols_out /\
  forall co, (co < cols_out)%nat -> length (col res co) = R /\
    forall j, (j < R)%nat -> lim (col res co) j = padd (base co j) (psumf n (T co j) k).

Lemma base_length co j : (co < cols_out)%nat -> (j < R)%nat -> length (base co j) = n.
Proof.
  intros Hc Hj. unfold base. destruct Hres0 as [_ H]. destruct (H co Hc) as [_ H2].
  destruct (Nat.ltb _ _); [apply pzero_length|apply H2; exact Hj].
Qed.

Lemma T_limb di co j : (1 <= dsize)%nat -> (di < dsize)%nat -> (co < cols_out)%nat -> (j < sz_r msize dsize di)%nat ->
  lim (col (prod di) co) j = T co j di.
Proof.
  intros Hd Hdi Hc Hj. unfold prod. rewrite prod_limb by assumption. unfold T, gp_term.
  destruct (Nat.ltb_spec j (sz_r msize dsize di)); [|lia]. reflexivity.
Qed.

Lemma T_beyond di co j : (sz_r msize dsize di <= j)%nat -> T co j di = pzero n.
Proof. intros H. unfold T, gp_term. destruct (Nat.ltb_spec j (sz_r msize dsize di)); [lia|reflexivity]. Qed.

Lemma step0 : (1 <= dsize)%nat ->
  exists res1, gp_step n cols_out R a a_size dsize dnum msize clamp m (Some res0) 0 = Some res1 /\ gp_inv 1 res1.
Proof.
  intros Hd. rewrite gp_step_eq. cbn [Nat.eqb]. eexists; split; [reflexivity|].
  destruct Hres0 as [Hl0 Hc0]. destruct (prod_shape 0) as [Hpl Hpc].
  assert (Hsr : (sz_r msize dsize 0 <= R)%nat) by (unfold sz_r; lia).
  split; [rewrite map2_length; unfold plimbs in *; lia|].
  intros co Hc. rewrite (col_map2 _ _ _ [] []) by (unfold plimbs in *; lia).
  change (nth co (prod 0) []) with (col (prod 0) co). change (nth co res0 []) with (col res0 co).
  destruct (Hc0 co Hc) as [HlenR HlimR]. specialize (Hpc co Hc).
  split.
      - rewrite app_length, skipn_length, Hpc, HlenR. lia.
  - intros j Hj. rewrite psumf_S, psumf_0.
    assert (LT : length (T co j 0) = n) by apply gp_term_length.
    rewrite (padd_pzero_l n (T co j 0) LT).
    unfold base. destruct (Nat.ltb_spec j (sz_r msize dsize 0)) as [G|G].
    + rewrite lim_app_l by lia. rewrite T_limb by (try assumption; lia). rewrite padd_pzero_l by exact LT. reflexivity.
    + rewrite <- Hpc. rewrite lim_app_skipn by lia. rewrite T_beyond by exact G.
      rewrite padd_pzero_r by (apply HlimR; exact Hj). reflexivity.
Qed.

Lemma stepk k res : (1 <= k)%nat -> (k < dsize)%nat -> gp_inv k res ->
  exists res', gp_step n cols_out R a a_size dsize dnum msize clamp m (Some res) k = Some res' /\ gp_inv (S k) res'.
Proof.
  intros Hk Hkd [Hl Hc]. rewrite gp_step_eq. destruct (Nat.eqb_spec k 0) as [E|_]; [lia|].
  eexists; split; [reflexivity|]. destruct (prod_shape k) as [Hpl Hpc].
  assert (Hsr : (sz_r msize dsize k <= R)%nat) by (unfold sz_r; lia).
  split; [rewrite map2_length; unfold plimbs in *; lia|].
  intros co Hco'. rewrite (col_map2 (fun p r : plimbs => dft_add_assign p r) (prod k) res [] [] co) by (unfold plimbs in *; lia).
  change (nth co (prod k) []) with (col (prod k) co). change (nth co res []) with (col res co).
  destruct (Hc co Hco') as [HlenR HlimR]. specialize (Hpc co Hco').
  unfold dft_add_assign. split; [rewrite mk_length; exact HlenR|].
  intros j Hj. rewrite HlenR, lim_mk' by exact Hj. rewrite Hpc, psumf_S.
  rewrite (HlimR j Hj).
  destruct (Nat.ltb_spec j (sz_r msize dsize k)) as [G|G].
  - rewrite T_limb by (try assumption; lia). apply padd_assoc.
  - rewrite T_beyond by exact G. rewrite (padd_pzero_r n (psumf n (T co j) k)); [reflexivity|].
    apply psumf_length. intros; apply gp_term_length.
Qed.

Lemma fold_steps k : (1 <= dsize)%nat -> (k < dsize)%nat ->
  exists res, fold_left (gp_step n cols_out R a a_size dsize dnum msize clamp m) (seq 0 (S k)) (Some res0) = Some res /\ gp_inv (S k) res.
Proof.
  intros Hd. induction k as [|k IH]; intros Hk.
  - cbn [seq fold_left]. apply step0; exact Hd.
  - destruct (IH ltac:(lia)) as [res [E Hinv]].
    rewrite seq_S, fold_left_app, E. cbn [fold_left Nat.add]. apply stepk; [lia|exact Hk|exact Hinv].
Qed.

(* (2) digit-grouped branch started from any accumulator content res0 (what the code did BEFORE it zeroed the accumulator, and
   what the digit loop does in general): the functional form on top of what res0 held beyond sz_r(0) *)
Theorem gadget_product_from_spec_grouped : (2 <= dsize)%nat ->
  exists res, gadget_product_from n cols_out R res0 a a_size dsize dnum msize clamp m = Some res /\
    length res = cols_out /\
    forall co, (co < cols_out)%nat -> length (col res co) = R /\
      forall j, (j < R)%nat ->
        lim (col res co) j = padd (if Nat.ltb j (sz_r msize dsize 0) then pzero n else lim (col res0 co) j)
                                  (gp_spec n cin cols_out msize a_size dsize dnum clamp (acol n a) m co j).
Proof.
  intros Hd. unfold gadget_product_from.
  destruct (Nat.eqb_spec dsize 0) as [E|_]; [lia|]. destruct (Nat.eqb_spec dsize 1) as [E|_]; [lia|].
  destruct (fold_steps (dsize - 1) ltac:(lia) ltac:(lia)) as [res [E Hinv]].
  replace (S (dsize - 1)) with dsize in * by lia.
  exists res. split; [exact E|]. exact Hinv.
Qed.
End Model.


Section ModelFlat.
Variables (n cin cols_out msize a_size dnum : nat) (clamp : bool).
Variable a : cols_t.
Variable m : pmat.
Hypothesis Ha : wf_cols n cin a_size a.

(* (2) dsize = 1 : one vmp, every limb of res is written (zero beyond min(R, msize)); res0 is ignored *)
Theorem gadget_product_from_spec_flat (R : nat) (res0 : cols_t) :
  exists res, gadget_product_from n cols_out R res0 a a_size 1 dnum msize clamp m = Some res /\
    length res = cols_out /\
    forall co, (co < cols_out)%nat -> length (col res co) = R /\
      forall j, (j < R)%nat -> lim (col res co) j = gp_flat n cin cols_out msize a_size dnum (acol n a) m R co j.
Proof.
  unfold gadget_product_from. cbn [Nat.eqb]. eexists; split; [reflexivity|].
  destruct Ha as [Hl Hcols].
  unfold vmp_cols. cbv zeta. split; [rewrite map_length, seq_length; reflexivity|].
  intros co Hc. rewrite col_map_seq by exact Hc. split; [apply mk_length|].
  intros j Hj. rewrite lim_mk' by exact Hj. rewrite vmp_psumf, Hl. unfold gp_flat.
  cbn [Nat.mul Nat.add]. rewrite !Nat.add_0_r.
  destruct (Nat.ltb_spec j (Nat.min R msize)) as [G|G].
  - destruct (Nat.leb_spec (Nat.min (cols_out * msize) (cols_out * R)) 0) as [G1|G1]; [nia|].
    destruct (Nat.ltb_spec (j * cols_out + co) (Nat.min (cols_out * msize) (cols_out * R) - 0)) as [G2|G2]; [|nia].
    apply psumf_ext; intros q Hq. f_equal.
    assert (Hci : (q mod cin < cin)%nat) by (apply Nat.mod_upper_bound; nia).
    assert (Hrow : (q / cin < a_size)%nat) by (apply Nat.div_lt_upper_bound; nia).
    unfold acol, limz. destruct (Hcols _ Hci) as [Hlen _]. rewrite Hlen.
    destruct (Nat.ltb_spec (q / cin) a_size); [reflexivity|lia].
  - destruct (Nat.leb_spec (Nat.min (cols_out * msize) (cols_out * R)) 0) as [G1|G1]; [reflexivity|].
    destruct (Nat.ltb_spec (j * cols_out + co) (Nat.min (cols_out * msize) (cols_out * R) - 0)) as [G2|G2]; [nia|reflexivity].
Qed.

(* the flat form is the functional form at dsize = 1 *)
Lemma gp_flat_spec (R co j : nat) : (msize <= R)%nat ->
  gp_flat n cin cols_out msize a_size dnum (acol n a) m R co j
  = gp_spec n cin cols_out msize a_size 1 dnum clamp (acol n a) m co j.
Proof.
  intros HR. unfold gp_flat, gp_spec. rewrite psumf_S, psumf_0.
  pose proof (acol_length n cin a_size a Ha) as LA.
  rewrite padd_pzero_l by (apply gp_term_length; exact Ha).
  unfold gp_term, sz_r. cbn [Nat.sub]. rewrite Nat.sub_0_r, Nat.add_0_r, Nat.min_r by exact HR.
  destruct (Nat.ltb_spec j msize); cbn [andb]; [|reflexivity].
  unfold gp_rows. rewrite min_mul.
  replace (Nat.min dnum a_size) with (rows_used a_size 1 dnum 0 clamp).
  2:{ unfold rows_used, sz_a. rewrite Nat.add_0_r, Nat.div_1_r. destruct clamp; lia. }
  rewrite psumf_flatten by (intros; rewrite pmul_length; apply LA).
  apply psumf_ext; intros row _. apply psumf_ext; intros ci Hci.
  destruct (flat_divmod row ci cin Hci) as [E1 E2]. rewrite E1, E2.
  cbn [Nat.sub]. rewrite Nat.mul_1_r, !Nat.add_0_r. reflexivity.
Qed.

Lemma flat_case (dsize R : nat) (res0 : cols_t) : dsize = 1%nat -> (msize <= R)%nat ->
  exists res, gadget_product_from n cols_out R res0 a a_size dsize dnum msize clamp m = Some res /\
    length res = cols_out /\
    forall co, (co < cols_out)%nat -> length (col res co) = R /\
      forall j, (j < R)%nat -> lim (col res co) j = gp_spec n cin cols_out msize a_size dsize dnum clamp (acol n a) m co j.
Proof.
  intros -> HR. destruct (gadget_product_from_spec_flat R res0) as [res [E1 [E2 E3]]].
  exists res. split; [exact E1|]. split; [exact E2|]. intros co Hc. destruct (E3 co Hc) as [E4 E5].
  split; [exact E4|]. intros j Hj. rewrite (E5 j Hj). apply gp_flat_spec; exact HR.
Qed.
End ModelFlat.

Section Zcols.
Variables (n cols_out : nat).
Lemma nth_repeat_lt {X} (x d : X) k i : (i < k)%nat -> nth i (repeat x k) d = x.
Proof. revert i; induction k as [|k IH]; intros [|i] H; cbn [repeat nth]; try lia; [reflexivity|apply IH; lia]. Qed.

Lemma zcols_limb R co j : (co < cols_out)%nat -> (j < R)%nat -> lim (col (zcols n cols_out R) co) j = pzero n.
Proof. intros Hc Hj. unfold zcols, col, lim. rewrite nth_repeat_lt by exact Hc. apply nth_repeat_lt; exact Hj. Qed.

Lemma zcols_wf R : wf_cols n cols_out R (zcols n cols_out R).
Proof.
  split; [apply repeat_length|].
  intros ci Hci. split.
  - unfold zcols, col. rewrite nth_repeat_lt by exact Hci. apply repeat_length.
  - intros l Hl. rewrite zcols_limb by assumption. apply pzero_length.
Qed.

End Zcols.

Section ModelZero.
Variables (n cin cols_out msize a_size dsize dnum : nat) (clamp : bool).
Variable a : cols_t.
Variable m : pmat.
Hypothesis Ha : wf_cols n cin a_size a.
Hypothesis Hd : (1 <= dsize)%nat.
Hypothesis Hdrop : (dsize - 2 <= msize)%nat.

Lemma gp_spec_length co j : length (gp_spec n cin cols_out msize a_size dsize dnum clamp (acol n a) m co j) = n.
Proof. unfold gp_spec. apply psumf_length. intros. apply gp_term_length. exact Ha. Qed.

(* (2) from a zero accumulator of msize limbs the digit loop IS the functional form *)
Theorem gadget_product_from_zero_spec :
  exists res, gadget_product_from n cols_out msize (zcols n cols_out msize) a a_size dsize dnum msize clamp m = Some res /\
    wf_cols n cols_out msize res /\
    forall co j, (co < cols_out)%nat -> (j < msize)%nat ->
      lim (col res co) j = gp_spec n cin cols_out msize a_size dsize dnum clamp (acol n a) m co j.
Proof.
  destruct (Nat.eq_dec dsize 1) as [E|E].
  - destruct (flat_case n cin cols_out msize a_size dnum clamp a m Ha dsize msize (zcols n cols_out msize) E (Nat.le_refl msize)) as [res [E1 [E2 E3]]].
    assert (G : forall co j, (co < cols_out)%nat -> (j < msize)%nat ->
              lim (col res co) j = gp_spec n cin cols_out msize a_size dsize dnum clamp (acol n a) m co j).
    { intros co j Hc Hj. destruct (E3 co Hc) as [_ E4]. apply E4; exact Hj. }
    exists res. split; [exact E1|]. split; [|exact G].
    split; [exact E2|]. intros co Hc. split; [apply E3; exact Hc|].
    intros j Hj. rewrite G by assumption. apply gp_spec_length.
  - destruct (gadget_product_from_spec_grouped n cin cols_out msize a_size dsize dnum clamp a m Ha msize (zcols n cols_out msize)
                (zcols_wf n cols_out msize) Hdrop (Nat.le_refl msize) ltac:(lia)) as [res [E1 [E2 E3]]].
    assert (G : forall co j, (co < cols_out)%nat -> (j < msize)%nat ->
              lim (col res co) j = gp_spec n cin cols_out msize a_size dsize dnum clamp (acol n a) m co j).
    { intros co j Hc Hj. destruct (E3 co Hc) as [_ E4]. rewrite (E4 j Hj).
      rewrite zcols_limb by assumption. destruct (Nat.ltb _ _); apply padd_pzero_l, gp_spec_length. }
    exists res. split; [exact E1|]. split; [|exact G].
    split; [exact E2|]. intros co Hc. split; [apply E3; exact Hc|].
    intros j Hj. rewrite G by assumption. apply gp_spec_length.
Qed.
End ModelZero.

(* the repaired entry point: Gadget.gadget_product zeroes the accumulator first (acc_start), so its prior content res0 is irrelevant *)
Section AccStart.
Lemma acc_start_true n cols_out R msize res0 : acc_start n cols_out R msize true res0 = zcols n cols_out R.
Proof. reflexivity. Qed.

Lemma acc_start_false n cols_out msize (res0 : cols_t) :
  length res0 = cols_out -> (forall co, (co < cols_out)%nat -> length (col res0 co) = msize) ->
  acc_start n cols_out msize msize false res0 = zcols n cols_out msize.
Proof.
  intros Hl Hc. unfold acc_start, zcols.
  apply (nth_ext _ _ [] []); [rewrite map_length, repeat_length; exact Hl|].
  rewrite map_length. intros co Hco.
  assert (Hco' : (co < cols_out)%nat) by (rewrite <- Hl; exact Hco).
  rewrite (nth_map' _ _ _ _ []) by exact Hco. rewrite nth_repeat_lt by exact Hco'.
  change (nth co res0 []) with (col res0 co). rewrite (Hc co Hco').
  rewrite Nat.min_id. rewrite <- (Hc co Hco') at 2. rewrite skipn_all. apply app_nil_r.
Qed.

Theorem acc_start_zero n cols_out msize clamp res0 : acc_shape cols_out msize clamp res0 ->
  acc_start n cols_out msize msize clamp res0 = zcols n cols_out msize.
Proof.
  intros [-> | [Hl Hc]]; [reflexivity|].
  destruct clamp; [reflexivity|]. apply acc_start_false; assumption.
Qed.

Corollary gadget_product_is_from_zero n cols_out msize res0 a a_size dsize dnum clamp m : acc_shape cols_out msize clamp res0 ->
  gadget_product n cols_out msize res0 a a_size dsize dnum msize clamp m
  = gadget_product_from n cols_out msize (zcols n cols_out msize) a a_size dsize dnum msize clamp m.
Proof. intros H. unfold gadget_product. rewrite acc_start_zero by exact H. reflexivity. Qed.

Lemma acc_shape_zcols n cols_out msize clamp : acc_shape cols_out msize clamp (zcols n cols_out msize).
Proof.
  right. destruct (zcols_wf n cols_out msize) as [Hl Hc]. split; [exact Hl|]. intros co Hco. apply (Hc co Hco).
Qed.

(* (2) the model IS the functional form, whatever the accumulator held (key-switch mode: any res0; external-product mode: any res0
   of cols_out columns of msize limbs), every dsize >= 1 *)
Theorem gadget_product_spec n cin cols_out msize a_size dsize dnum clamp (a : cols_t) (m : pmat) (res0 : cols_t) :
  wf_cols n cin a_size a -> (1 <= dsize)%nat -> (dsize - 2 <= msize)%nat -> acc_shape cols_out msize clamp res0 ->
  exists res, gadget_product n cols_out msize res0 a a_size dsize dnum msize clamp m = Some res /\
    wf_cols n cols_out msize res /\
    forall co j, (co < cols_out)%nat -> (j < msize)%nat ->
      lim (col res co) j = gp_spec n cin cols_out msize a_size dsize dnum clamp (acol n a) m co j.
Proof.
  intros Ha Hd Hdrop Hs. rewrite gadget_product_is_from_zero by exact Hs.
  apply gadget_product_from_zero_spec; assumption.
Qed.
End AccStart.



(* ================================================================================================================ *)
(* the key matrix only needs to be well formed where it is read: q < cin*dnum, c < cols_out*msize
   (Gadget.pmat_of_flat returns [] outside the dumped range): wf_pmat_in / pmat_z of Model/GadgetSpec.v *)
Section FlatIn.
Lemma flat_in (x y X Y : nat) : (x < X)%nat -> (y < Y)%nat -> (x * Y + y < X * Y)%nat.
Proof. intros. nia. Qed.
End FlatIn.

Section InRangeSpec.
Variables (n cin cols_out msize a_size dsize dnum : nat) (clamp : bool).
Variable A : nat -> nat -> list Z.
Variables K K' : pmat.
Hypothesis HKK : forall q c, (q < dnum * cin)%nat -> (c < msize * cols_out)%nat -> K q c = K' q c.

Lemma gp_spec_ext co j : (co < cols_out)%nat ->
  gp_spec n cin cols_out msize a_size dsize dnum clamp A K co j = gp_spec n cin cols_out msize a_size dsize dnum clamp A K' co j.
Proof.
  intros Hc. unfold gp_spec. apply psumf_ext; intros di Hdi. unfold gp_term.
  destruct (Nat.ltb_spec j (sz_r msize dsize di)); cbn [andb]; [|reflexivity].
  destruct (Nat.ltb_spec (j + di) msize); [|reflexivity].
  unfold gp_rows. apply psumf_ext; intros row Hrow. apply psumf_ext; intros ci Hci. f_equal.
  apply HKK; apply flat_in; try assumption. rewrite rows_used_eq in Hrow. lia.
Qed.

End InRangeSpec.

Section InRange.
Variables (P b : Z) (n cin cols_out msize a_size dsize dnum : nat) (clamp : bool).
Variable A : nat -> nat -> list Z.
Variables K K' : pmat.
Variable Sk : nat -> list Z.
Hypothesis HKK : forall q c, (q < dnum * cin)%nat -> (c < msize * cols_out)%nat -> K q c = K' q c.

Lemma kwin_ext q lo len : (q < dnum * cin)%nat -> (lo + len <= msize)%nat ->
  kwin P b n cols_out K Sk q lo len = kwin P b n cols_out K' Sk q lo len.
Proof.
  intros Hq Hl. unfold kwin. apply psumf_ext; intros co Hc. f_equal.
  apply psumf_ext; intros i Hi. f_equal. apply HKK; [exact Hq|]. apply flat_in; [lia|exact Hc].
Qed.

Lemma kphase_ext q : (q < dnum * cin)%nat -> kphase P b n cols_out msize K Sk q = kphase P b n cols_out msize K' Sk q.
Proof. intros Hq. apply kwin_ext; [exact Hq|lia]. Qed.

Lemma khigh_ext q di : (q < dnum * cin)%nat ->
  khigh P b n cols_out msize dsize K Sk q di = khigh P b n cols_out msize dsize K' Sk q di.
Proof.
  intros Hq. unfold khigh. set (lo := (di + win_len msize dsize di)%nat).
  destruct (Nat.le_gt_cases lo msize) as [G|G]; [apply kwin_ext; [exact Hq|lia]|].
  replace (msize - lo)%nat with 0%nat by lia. reflexivity.
Qed.

Lemma klow_int_ext q di : (q < dnum * cin)%nat ->
  klow_int b n cols_out msize K Sk q di = klow_int b n cols_out msize K' Sk q di.
Proof.
  intros Hq. unfold klow_int. apply psumf_ext; intros co Hc. f_equal.
  apply psumf_ext; intros j Hj. f_equal. apply HKK; [exact Hq|]. apply flat_in; [lia|exact Hc].
Qed.

Lemma gadget_trunc_ext :
  gadget_trunc P b n cin cols_out msize dsize dnum A K Sk = gadget_trunc P b n cin cols_out msize dsize dnum A K' Sk.
Proof.
  unfold gadget_trunc. apply psumf_ext; intros di _. apply psumf_ext; intros row Hrow. apply psumf_ext; intros ci Hci.
  do 2 f_equal. apply khigh_ext. apply flat_in; assumption.
Qed.

Lemma gadget_err_ext e :
  gadget_err P b n cin cols_out msize dsize dnum A K Sk e = gadget_err P b n cin cols_out msize dsize dnum A K' Sk e.
Proof. unfold gadget_err. rewrite gadget_trunc_ext. reflexivity. Qed.

Lemma gadget_int_ext I :
  gadget_int b n cin cols_out msize dsize dnum A K Sk I = gadget_int b n cin cols_out msize dsize dnum A K' Sk I.
Proof.
  unfold gadget_int. f_equal. unfold gadget_int_low.
  apply psumf_ext; intros di _. apply psumf_ext; intros row Hrow. apply psumf_ext; intros ci Hci.
  f_equal. apply klow_int_ext. apply flat_in; assumption.
Qed.
End InRange.

Section PhaseRowsIn.
Variables (P b : Z) (n cin cols_out msize a_size dsize dnum : nat) (clamp : bool).
Variable A : nat -> nat -> list Z.
Variable K : pmat.
Variable Sk : nat -> list Z.
Variables (src : nat -> list Z) (e I : nat -> nat -> list Z).
Hypothesis Hd : (1 <= dsize)%nat.
Hypothesis HA : forall ci l, length (A ci l) = n.
Hypothesis Hz : forall ci l, (a_size <= l)%nat -> A ci l = pzero n.
Hypothesis HK : wf_pmat_in n (dnum * cin) (msize * cols_out) K.
Hypothesis HS : forall co, length (Sk co) = n.
Hypothesis Hsrc : forall ci, length (src ci) = n.
Hypothesis He : forall row ci, length (e row ci) = n.
Hypothesis HI : forall row ci, length (I row ci) = n.
Hypothesis Hb : 0 <= b.
Hypothesis HP : Z.of_nat msize * b <= P.
Hypothesis HP2 : Z.of_nat dnum * Z.of_nat dsize * b <= P.
Hypothesis key_row : key_rows_ok P b n cin cols_out msize dsize dnum K Sk src e I.

Let Kz := pmat_z n (dnum * cin) (msize * cols_out) K.

Lemma Kz_eq q c : (q < dnum * cin)%nat -> (c < msize * cols_out)%nat -> K q c = Kz q c.
Proof.
  intros Hq Hc. unfold Kz, pmat_z.
  destruct (Nat.ltb_spec q (dnum * cin)); destruct (Nat.ltb_spec c (msize * cols_out)); cbn [andb]; try lia. reflexivity.
Qed.

Lemma Kz_wf q c : length (Kz q c) = n.
Proof.
  unfold Kz, pmat_z.
  destruct (Nat.ltb_spec q (dnum * cin)); destruct (Nat.ltb_spec c (msize * cols_out)); cbn [andb]; try apply pzero_length.
  apply HK; assumption.
Qed.

(* gadget_phase_rows with a key matrix that is well formed only where it is read *)
Theorem gadget_phase_rows_in :
  phase_f P b n cols_out msize (gp_spec n cin cols_out msize a_size dsize dnum clamp A K) Sk
  = padd (padd (psumf n (fun ci => pmul (pval_used P b n a_size dsize dnum A ci) (src ci)) cin)
               (gadget_err P b n cin cols_out msize dsize dnum A K Sk e))
         (pscale (2 ^ P) (gadget_int b n cin cols_out msize dsize dnum A K Sk I)).
Proof.
  assert (Ee : gadget_err P b n cin cols_out msize dsize dnum A K Sk e = gadget_err P b n cin cols_out msize dsize dnum A Kz Sk e)
    by (apply gadget_err_ext; exact Kz_eq).
  assert (Ei : gadget_int b n cin cols_out msize dsize dnum A K Sk I = gadget_int b n cin cols_out msize dsize dnum A Kz Sk I)
    by (apply gadget_int_ext; exact Kz_eq).
  rewrite Ee, Ei.
  transitivity (phase_f P b n cols_out msize (gp_spec n cin cols_out msize a_size dsize dnum clamp A Kz) Sk).
  - unfold phase_f, pval. apply psumf_ext; intros co Hc. f_equal. apply psumf_ext; intros j _. f_equal.
    apply gp_spec_ext; [exact Kz_eq|exact Hc].
  - apply gadget_phase_rows; try assumption; [exact Kz_wf|].
    intros row ci Hrow Hci.
    assert (Ek : kphase P b n cols_out msize K Sk (row * cin + ci)%nat = kphase P b n cols_out msize Kz Sk (row * cin + ci)%nat).
    { apply kphase_ext with (dnum := dnum) (cin := cin); first [exact Kz_eq | apply flat_in; assumption | exact A]. }
    rewrite <- Ek. apply key_row; assumption.
Qed.
End PhaseRowsIn.

