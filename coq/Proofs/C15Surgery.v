(* C15 — bit surgery on packed words: rotate / trace algebra on ideal plaintexts, closed forms of zero_byte, splice_u8,
   splice_u16, sext, get_bit, get_byte, pack, and their bit-level statements, for every documented word type
   (LOG_BYTES = lb >= 0) and every ring degree 2^logn >= BITS. *)
From Coq Require Import ZArith List Bool Lia.
From PV Require Import Gen.C15_gen Model.C15Uint Proofs.C15Layout.
Import ListNotations.
Open Scope Z_scope.
Ltac dlia := Z.div_mod_to_equations; lia.

(* ------------------------------------------------------------------------------------------------ *)
(** * rotation and trace on coefficient functions *)

Lemma div_neg1 t n : 0 < n -> - n <= t < 0 -> t / n = -1 /\ t mod n = t + n.
Proof. intros Hn Ht. apply div_mod_small; lia. Qed.

Lemma div_one t n : 0 < n -> n <= t < 2 * n -> t / n = 1 /\ t mod n = t - n.
Proof. intros Hn Ht. apply div_mod_small; lia. Qed.

Section Rot.
  Variable n : Z.
  Hypothesis Hn : 0 < n.

  Lemma p_rot_lo k q j : 0 <= j - k < n -> p_rot n k q j = q (j - k).
  Proof. intros H. unfold p_rot. cbv zeta. rewrite Z.div_small, Z.mod_small by lia. reflexivity. Qed.

  Lemma p_rot_neg k q j : - n <= j - k < 0 -> p_rot n k q j = - q (j - k + n).
  Proof. intros H. unfold p_rot. cbv zeta. destruct (div_neg1 (j - k) n Hn H) as [-> ->]. reflexivity. Qed.

  Lemma p_rot_hi k q j : n <= j - k < 2 * n -> p_rot n k q j = - q (j - k - n).
  Proof. intros H. unfold p_rot. cbv zeta. destruct (div_one (j - k) n Hn H) as [-> ->]. reflexivity. Qed.

  Lemma p_rot_sub k a b j : p_rot n k (p_sub a b) j = p_rot n k a j - p_rot n k b j.
  Proof. unfold p_rot, p_sub. cbv zeta. destruct (Z.even ((j - k) / n)); lia. Qed.

  Lemma p_rot_add k a b j : p_rot n k (p_add a b) j = p_rot n k a j + p_rot n k b j.
  Proof. unfold p_rot, p_add. cbv zeta. destruct (Z.even ((j - k) / n)); lia. Qed.

  Lemma p_rot_0 q j : 0 <= j < n -> p_rot n 0 q j = q j.
  Proof. intros. rewrite p_rot_lo by lia. f_equal; lia. Qed.

  Lemma mod_add_mult m x : 0 < m -> n mod m = 0 -> (x + n) mod m = x mod m.
  Proof.
    intros Hm H. rewrite (Z.div_mod n m) at 1 by lia. rewrite H, Z.add_0_r, (Z.mul_comm m). apply Z.mod_add; lia.
  Qed.

  Lemma mult_ge0 m t : 0 < m -> t mod m = 0 -> - m < t -> 0 <= t.
  Proof.
    intros Hm H0 Ht. destruct (Z_lt_le_dec t 0) as [Hneg|]; [|assumption].
    destruct (div_neg1 t m Hm ltac:(lia)) as [_ E]. lia.
  Qed.

  Lemma mult_le m t : 0 < m -> t mod m = 0 -> n mod m = 0 -> t < n -> t <= n - m.
  Proof.
    intros Hm H0 Hnm Ht. destruct (Z_lt_le_dec (n - m) t) as [Hgt|]; [|assumption].
    assert (E : (n - t) mod m = 0) by (rewrite Zminus_mod, H0, Hnm; reflexivity).
    rewrite Z.mod_small in E by lia. lia.
  Qed.

  (* rot(k) . keep(m) . rot(-k) keeps the coefficients at k + multiples of m, in place *)
  Lemma rot_keep_rot m k q j : 0 < m -> n mod m = 0 -> 0 <= k < n -> 0 <= j < n ->
    p_rot n k (p_keep m (p_rot n (- k) q)) j = if (j - k) mod m =? 0 then q j else 0.
  Proof.
    intros Hm Hnm Hk Hj. destruct (Z_lt_le_dec (j - k) 0).
    - rewrite p_rot_neg by lia. unfold p_keep. rewrite mod_add_mult by auto.
      destruct ((j - k) mod m =? 0); [|reflexivity].
      rewrite p_rot_hi by lia. replace (j - k + n - - k - n) with j by lia. lia.
    - rewrite p_rot_lo by lia. unfold p_keep. destruct ((j - k) mod m =? 0); [|reflexivity].
      rewrite p_rot_lo by lia. f_equal; lia.
  Qed.

  Lemma rot_rot_id k q j : 0 <= k < n -> 0 <= j < n -> p_rot n k (p_rot n (- k) q) j = q j.
  Proof.
    intros Hk Hj. destruct (Z_lt_le_dec (j - k) 0).
    - rewrite p_rot_neg by lia. rewrite p_rot_hi by lia. replace (j - k + n - - k - n) with j by lia. lia.
    - rewrite p_rot_lo by lia. rewrite p_rot_lo by lia. f_equal; lia.
  Qed.

  (* the byte moved from offset rs to offset rd (both below m) *)
  Lemma rot_keep_rot_move m rd rs q j : 0 < m -> n mod m = 0 -> 0 <= rd < m -> 0 <= rs < m -> m <= n -> 0 <= j < n ->
    p_rot n rd (p_keep m (p_rot n (- rs) q)) j = if (j - rd) mod m =? 0 then q (j - rd + rs) else 0.
  Proof.
    intros Hm Hnm Hrd Hrs Hmn Hj. destruct (Z_lt_le_dec (j - rd) 0).
    - rewrite p_rot_neg by lia. unfold p_keep. rewrite mod_add_mult by auto.
      destruct (Z.eqb_spec ((j - rd) mod m) 0) as [E|]; [|reflexivity].
      pose proof (mult_ge0 m (j - rd) Hm E ltac:(lia)). lia.
    - rewrite p_rot_lo by lia. unfold p_keep.
      destruct (Z.eqb_spec ((j - rd) mod m) 0) as [E|]; [|reflexivity].
      pose proof (mult_le m (j - rd) Hm E Hnm ltac:(lia)).
      rewrite p_rot_lo by lia. f_equal; lia.
  Qed.
End Rot.

(* ------------------------------------------------------------------------------------------------ *)
(** * the documented word types *)

Section Std.
  Variables lb logn : Z.
  Hypothesis Hlb : 0 <= lb.
  Hypothesis Hlogn : lb + 3 <= logn.
  Let T := std_wty lb.
  Let g := logn - (lb + 3).
  Let gap := 2 ^ g.
  Let P := 2 ^ lb.
  Let M := P * gap.
  Let n := 2 ^ logn.

  Lemma gap_pos : 0 < gap. Proof. apply pow2_pos'. unfold g. lia. Qed.
  Lemma P_pos : 0 < P. Proof. apply pow2_pos'. lia. Qed.
  Lemma M_pos : 0 < M. Proof. pose proof gap_pos; pose proof P_pos. unfold M. nia. Qed.
  Lemma n_eq : n = 8 * M.
  Proof.
    unfold n, M, P, gap, g. replace logn with (3 + (lb + (logn - (lb + 3)))) at 1 by lia.
    rewrite !Z.pow_add_r by lia. change (2 ^ 3) with 8. ring.
  Qed.
  Lemma n_pos : 0 < n. Proof. rewrite n_eq. pose proof M_pos. lia. Qed.
  Lemma n_mod_M : n mod M = 0. Proof. rewrite n_eq. apply Z.mod_mul. pose proof M_pos; lia. Qed.
  Lemma bits_eq : w_bits T = 8 * P. Proof. reflexivity. Qed.
  Lemma log_gap_eq : log_gap T logn = g. Proof. unfold log_gap, g. cbn [T std_wty w_logbits]. lia. Qed.

  Lemma cidx_eq i : cidx T logn i = bit_index lb i * gap.
  Proof. unfold cidx. rewrite log_gap_eq. cbn [T std_wty w_bidx]. apply Z.shiftl_mul_pow2. unfold g; lia. Qed.

  Lemma cidx_decomp i : 0 <= i < 8 * P -> cidx T logn i = (i mod 8) * M + (i / 8) * gap.
  Proof. intros Hi. rewrite cidx_eq, bit_index_arith_eq by (auto; exact Hi). unfold bit_index_arith, M. fold P. ring. Qed.

  Lemma cidx_kb k y : 0 <= k < 8 -> 0 <= y < P -> cidx T logn (8 * y + k) = k * M + y * gap.
  Proof.
    intros Hk Hy. rewrite cidx_decomp by lia.
    destruct (div_mod_small (8 * y + k) 8 y k ltac:(lia) Hk ltac:(lia)) as [-> ->]. reflexivity.
  Qed.

  Lemma cidx_byte y : 0 <= y < P -> cidx T logn (Z.shiftl y 3) = y * gap.
  Proof. intros Hy. rewrite Z.shiftl_mul_pow2 by lia. change (2 ^ 3) with 8. rewrite Z.mul_comm.
         replace (8 * y) with (8 * y + 0) by lia. rewrite cidx_kb by lia. lia. Qed.

  Lemma ygap_bound y : 0 <= y < P -> 0 <= y * gap < M.
  Proof. intros Hy. pose proof gap_pos. unfold M. nia. Qed.

  Lemma cidx_range i : 0 <= i < 8 * P -> 0 <= cidx T logn i < n.
  Proof.
    intros Hi. rewrite cidx_decomp by auto. rewrite n_eq.
    assert (0 <= i mod 8 < 8) by (apply Z.mod_pos_bound; lia).
    assert (0 <= i / 8 < P) by (split; [apply Z.div_pos; lia | apply Z.div_lt_upper_bound; lia]).
    pose proof (ygap_bound (i / 8) ltac:(lia)). pose proof M_pos. nia.
  Qed.

  Lemma cidx_inj i j : 0 <= i < w_bits T -> 0 <= j < w_bits T -> cidx T logn i = cidx T logn j -> i = j.
  Proof.
    rewrite bits_eq. intros Hi Hj E. rewrite !cidx_eq in E. pose proof gap_pos.
    apply (bit_index_inj lb); auto. nia.
  Qed.

  Lemma trace3 q : p_trace n (trace_start T) q = p_keep M q.
  Proof.
    unfold p_trace, trace_start. cbn [T std_wty w_logbits w_lb]. replace (lb + 3 - lb) with 3 by lia.
    change (2 ^ 3) with 8. rewrite n_eq, Z.mul_comm, Z.div_mul by lia. reflexivity.
  Qed.
  Lemma trace0 q : p_trace n 0 q = p_keep n q.
  Proof. unfold p_trace. change (2 ^ 0) with 1. now rewrite Z.div_1_r. Qed.

  (* whether position (k, y) lies in byte d *)
  Lemma in_byte k y d : 0 <= y < P -> 0 <= d < P ->
    ((k * M + y * gap - d * gap) mod M =? 0) = (y =? d).
  Proof.
    intros Hy Hd. pose proof M_pos. pose proof gap_pos.
    replace (k * M + y * gap - d * gap) with ((y - d) * gap + k * M) by ring. rewrite Z.mod_add by lia.
    pose proof (ygap_bound y Hy). pose proof (ygap_bound d Hd).
    destruct (Z.eqb_spec y d) as [->|Hne].
    - replace ((d - d) * gap) with 0 by ring. rewrite Z.mod_0_l by lia. reflexivity.
    - destruct (Z_lt_le_dec y d).
      + destruct (div_neg1 ((y - d) * gap) M ltac:(lia) ltac:(nia)) as [_ ->].
        destruct (Z.eqb_spec ((y - d) * gap + M) 0); [nia | reflexivity].
      + rewrite Z.mod_small by nia. destruct (Z.eqb_spec ((y - d) * gap) 0); [nia | reflexivity].
  Qed.

  (* ---------------------------------------------------------------------------------------------- *)
  (** ** zero_byte, splice_u8 *)

  Lemma zero_byte_closed d self j : 0 <= d < P -> 0 <= j < n ->
    zero_byte T logn d self j = if (j - d * gap) mod M =? 0 then 0 else self j.
  Proof.
    intros Hd Hj. unfold zero_byte. cbv zeta. rewrite cidx_byte by auto. fold n. rewrite trace3.
    pose proof (ygap_bound d Hd). pose proof M_pos. pose proof n_eq.
    rewrite p_rot_sub. rewrite rot_rot_id by (try apply n_pos; lia).
    rewrite (rot_keep_rot n n_pos M) by (try apply n_mod_M; lia).
    destruct ((j - d * gap) mod M =? 0); lia.
  Qed.

  Lemma splice_u8_closed dst src a b : 0 <= dst < P -> 0 <= src < P ->
    exists r, splice_u8 T logn dst src a b = Some r /\
              forall j, 0 <= j < n -> r j = if (j - dst * gap) mod M =? 0 then b (j - dst * gap + src * gap) else a j.
  Proof.
    intros Hd Hs. unfold splice_u8. rewrite bits_eq.
    rewrite Z.shiftr_div_pow2 by lia. change (2 ^ 3) with 8. rewrite Z.mul_comm, Z.div_mul by lia.
    destruct (Z.ltb_spec dst P); [|lia]. destruct (Z.ltb_spec src P); [|lia]. cbn [andb].
    eexists; split; [reflexivity|]. intros j Hj. cbv zeta. unfold p_add.
    rewrite zero_byte_closed by auto. rewrite !cidx_byte by auto. fold n. rewrite trace3.
    pose proof (ygap_bound dst Hd). pose proof (ygap_bound src Hs). pose proof M_pos. pose proof n_eq.
    rewrite (rot_keep_rot_move n n_pos M) by (try apply n_mod_M; lia).
    destruct ((j - dst * gap) mod M =? 0); lia.
  Qed.

  (* every bit position of the result: byte dst comes from byte src of b, the other bytes from a *)
  Lemma splice_u8_bits dst src wa wb : 0 <= dst < P -> 0 <= src < P ->
    exists r, splice_u8 T logn dst src (p_enc T logn wa) (p_enc T logn wb) = Some r /\
      forall i, 0 <= i < 8 * P ->
        Z.testbit (p_dec T logn r) i = if i / 8 =? dst then Z.testbit wb (8 * src + i mod 8) else Z.testbit wa i.
  Proof.
    intros Hd Hs. destruct (splice_u8_closed dst src (p_enc T logn wa) (p_enc T logn wb) Hd Hs) as (r & Er & Hr).
    exists r; split; [exact Er|]. intros i Hi.
    rewrite dec_testbit by (rewrite bits_eq; lia). rewrite Hr by (apply cidx_range; auto).
    assert (Hk : 0 <= i mod 8 < 8) by (apply Z.mod_pos_bound; lia).
    assert (Hy : 0 <= i / 8 < P) by (split; [apply Z.div_pos; lia | apply Z.div_lt_upper_bound; lia]).
    rewrite (cidx_decomp i Hi) at 1. rewrite in_byte by auto.
    destruct (Z.eqb_spec (i / 8) dst) as [E|E].
    - rewrite cidx_decomp by auto. rewrite E.
      replace ((i mod 8) * M + dst * gap - dst * gap + src * gap) with (cidx T logn (8 * src + i mod 8))
        by (rewrite cidx_kb by lia; ring).
      rewrite enc_at; [apply bitz_nonzero | rewrite bits_eq; lia | apply cidx_inj | rewrite bits_eq; lia].
    - rewrite enc_at; [apply bitz_nonzero | rewrite bits_eq; lia | apply cidx_inj | rewrite bits_eq; lia].
  Qed.

  (* ---------------------------------------------------------------------------------------------- *)
  (** ** splice_u16 *)

  Lemma half_guard d : 0 <= d -> 2 * d + 1 < P -> (d <? Z.shiftr (w_bits T) 4) = true.
  Proof.
    intros H0 H. rewrite bits_eq, Z.shiftr_div_pow2 by lia. change (2 ^ 4) with 16.
    apply Z.ltb_lt. apply Z.lt_le_trans with (d + 1); [lia|]. apply Z.div_le_lower_bound; lia.
  Qed.

  Lemma splice_u16_bits dst src wa wb : 0 <= dst -> 2 * dst + 1 < P -> 0 <= src -> 2 * src + 1 < P ->
    exists r, splice_u16 T logn dst src (p_enc T logn wa) (p_enc T logn wb) = Some r /\
      forall i, 0 <= i < 8 * P ->
        Z.testbit (p_dec T logn r) i = if i / 16 =? dst then Z.testbit wb (16 * src + i mod 16) else Z.testbit wa i.
  Proof.
    intros Hd0 Hd Hs0 Hs. unfold splice_u16. rewrite !half_guard by auto. cbn [andb].
    rewrite !Z.shiftl_mul_pow2 by lia. change (2 ^ 1) with 2.
    destruct (splice_u8_closed (dst * 2) (src * 2) (p_enc T logn wa) (p_enc T logn wb) ltac:(lia) ltac:(lia)) as (t & Et & Ht).
    rewrite Et.
    destruct (splice_u8_closed (dst * 2 + 1) (src * 2 + 1) t (p_enc T logn wb) ltac:(lia) ltac:(lia)) as (r & Er & Hr).
    exists r; split; [exact Er|]. intros i Hi.
    rewrite dec_testbit by (rewrite bits_eq; lia). rewrite Hr by (apply cidx_range; auto).
    assert (Hk : 0 <= i mod 8 < 8) by (apply Z.mod_pos_bound; lia).
    assert (Hy : 0 <= i / 8 < P) by (split; [apply Z.div_pos; lia | apply Z.div_lt_upper_bound; lia]).
    rewrite (cidx_decomp i Hi) at 1. rewrite in_byte by (auto; lia).
    destruct (Z.eqb_spec (i / 8) (dst * 2 + 1)) as [E|E].
    - rewrite cidx_decomp by auto. rewrite E.
      replace ((i mod 8) * M + (dst * 2 + 1) * gap - (dst * 2 + 1) * gap + (src * 2 + 1) * gap)
        with (cidx T logn (8 * (src * 2 + 1) + i mod 8)) by (rewrite cidx_kb by lia; ring).
      rewrite enc_at; [| rewrite bits_eq; lia | apply cidx_inj | rewrite bits_eq; lia].
      rewrite bitz_nonzero. destruct (Z.eqb_spec (i / 16) dst); [f_equal; dlia | dlia].
    - rewrite Ht by (apply cidx_range; auto). rewrite (cidx_decomp i Hi) at 1. rewrite in_byte by (auto; lia).
      destruct (Z.eqb_spec (i / 8) (dst * 2)) as [E2|E2].
      + rewrite cidx_decomp by auto. rewrite E2.
        replace ((i mod 8) * M + dst * 2 * gap - dst * 2 * gap + src * 2 * gap)
          with (cidx T logn (8 * (src * 2) + i mod 8)) by (rewrite cidx_kb by lia; ring).
        rewrite enc_at; [| rewrite bits_eq; lia | apply cidx_inj | rewrite bits_eq; lia].
        rewrite bitz_nonzero. destruct (Z.eqb_spec (i / 16) dst); [f_equal; dlia | dlia].
      + rewrite enc_at; [| rewrite bits_eq; lia | apply cidx_inj | rewrite bits_eq; lia].
        rewrite bitz_nonzero. destruct (Z.eqb_spec (i / 16) dst); [dlia | reflexivity].
  Qed.

  (* ---------------------------------------------------------------------------------------------- *)
  (** ** get_bit, get_byte *)

  Lemma keep_n q j : 0 <= j < n -> p_keep n q j = if j =? 0 then q 0 else 0.
  Proof.
    intros Hj. unfold p_keep. rewrite Z.mod_small by lia. destruct (Z.eqb_spec j 0) as [->|]; reflexivity.
  Qed.

  Lemma get_bit_glwe_enc w bit j : 0 <= bit < 8 * P -> 0 <= j < n ->
    get_bit_glwe T logn bit (p_enc T logn w) j = if j =? 0 then bitz w bit else 0.
  Proof.
    intros Hb Hj. unfold get_bit_glwe. fold n. rewrite trace0, keep_n by auto.
    destruct (j =? 0); [|reflexivity]. pose proof (cidx_range bit Hb).
    rewrite (p_rot_lo n) by lia. replace (0 - - cidx T logn bit) with (cidx T logn bit) by lia.
    apply enc_at; [rewrite bits_eq; lia | apply cidx_inj | rewrite bits_eq; lia].
  Qed.

  Lemma get_bit_lwe_enc w bit : 0 <= bit < 8 * P -> get_bit_lwe T logn bit (p_enc T logn w) = bitz w bit.
  Proof.
    intros Hb. unfold get_bit_lwe. fold n. pose proof (cidx_range bit Hb).
    rewrite (p_rot_lo n) by lia. replace (0 - - cidx T logn bit) with (cidx T logn bit) by lia.
    apply enc_at; [rewrite bits_eq; lia | apply cidx_inj | rewrite bits_eq; lia].
  Qed.

  Lemma get_byte_enc w y j : 0 <= y < P -> 0 <= j < n ->
    get_byte T logn y (p_enc T logn w) j = if j mod M =? 0 then bitz w (8 * y + j / M) else 0.
  Proof.
    intros Hy Hj. unfold get_byte. fold n. rewrite trace3. unfold p_keep.
    destruct (Z.eqb_spec (j mod M) 0) as [E|]; [|reflexivity].
    rewrite cidx_byte by auto. pose proof (ygap_bound y Hy). pose proof M_pos.
    pose proof (mult_le n M j M_pos E n_mod_M ltac:(lia)).
    rewrite (p_rot_lo n) by lia.
    assert (Hq : 0 <= j / M < 8) by (split; [apply Z.div_pos; lia | apply Z.div_lt_upper_bound; pose proof n_eq; lia]).
    replace (j - - (y * gap)) with (cidx T logn (8 * y + j / M)).
    - apply enc_at; [rewrite bits_eq; lia | apply cidx_inj | rewrite bits_eq; lia].
    - rewrite cidx_kb by lia. pose proof (Z.div_mod j M ltac:(lia)). lia.
  Qed.

  (* ---------------------------------------------------------------------------------------------- *)
  (** ** sext *)

  Definition rep_shape (v c : Z) (s : poly) : Prop :=
    forall j, 0 <= j < n -> s j = if (j mod M =? 0) && (j <? c) then v else 0.

  Lemma rep_step v e s : 0 <= e <= 2 -> rep_shape v (M * 2 ^ e) s ->
    rep_shape v (M * 2 ^ (e + 1)) (p_add s (p_rot n (M * 2 ^ e) s)).
  Proof.
    intros He Hs j Hj. unfold p_add. pose proof M_pos. pose proof n_eq.
    assert (Hc : 0 < M * 2 ^ e /\ 2 * (M * 2 ^ e) <= n).
    { assert (He' : e = 0 \/ e = 1 \/ e = 2) by lia. destruct He' as [E|[E|E]]; rewrite E; [change (2 ^ 0) with 1 | change (2 ^ 1) with 2 | change (2 ^ 2) with 4]; lia. }
    rewrite Z.pow_add_r by lia. change (2 ^ 1) with 2. set (c := M * 2 ^ e) in *.
    replace (M * (2 ^ e * 2)) with (2 * c) by (unfold c; ring).
    rewrite (Hs j Hj). destruct (Z_lt_le_dec j c).
    - rewrite (p_rot_neg n n_pos) by lia. rewrite Hs by lia.
      destruct (Z.ltb_spec (j - c + n) c); [lia|]. rewrite andb_false_r.
      destruct (Z.ltb_spec j c); [|lia]. destruct (Z.ltb_spec j (2 * c)); [|lia]. lia.
    - rewrite (p_rot_lo n) by lia. rewrite Hs by lia.
      assert (Em : (j - c) mod M = j mod M).
      { unfold c. replace (j - M * 2 ^ e) with (j + (- 2 ^ e) * M) by ring. apply Z.mod_add; lia. }
      rewrite Em. destruct (Z.ltb_spec j c); [lia|]. rewrite andb_false_r.
      destruct (Z.ltb_spec (j - c) c); destruct (Z.ltb_spec j (2 * c)); try lia.
  Qed.

  Lemma sext_fill_closed y self j : 0 <= y < P -> 0 <= j < n ->
    sext_fill T logn y self j = if j mod M =? 0 then self (7 * M + y * gap) else 0.
  Proof.
    intros Hy Hj. unfold sext_fill. cbv zeta. fold n.
    assert (Erot : cidx T logn (Z.shiftl y 3 + 7) = 7 * M + y * gap).
    { rewrite Z.shiftl_mul_pow2 by lia. change (2 ^ 3) with 8. rewrite (Z.mul_comm y 8). apply cidx_kb; lia. }
    rewrite Erot. set (v := self (7 * M + y * gap)).
    assert (Esh : forall e, 0 <= e -> Z.shiftl (Z.shiftl (Z.shiftl 1 (w_lb T)) (log_gap T logn)) e = M * 2 ^ e).
    { intros e He. rewrite log_gap_eq. cbn [T std_wty w_lb]. rewrite !Z.shiftl_mul_pow2 by (unfold g; lia).
      unfold M, P, gap. ring. }
    cbn [fold_left]. rewrite !Esh by lia.
    pose proof M_pos. pose proof n_eq. pose proof (ygap_bound y Hy).
    assert (R0 : rep_shape v (M * 2 ^ 0) (p_trace n 0 (p_rot n (- (7 * M + y * gap)) self))).
    { intros x Hx. rewrite trace0, keep_n by auto. change (2 ^ 0) with 1. rewrite Z.mul_1_r.
      destruct (Z.eqb_spec x 0) as [->|Hne].
      - rewrite Z.mod_0_l by lia. destruct (Z.ltb_spec 0 M); [|lia]. change (0 =? 0) with true. cbn [andb].
        rewrite (p_rot_lo n) by lia. unfold v. f_equal; lia.
      - destruct (Z.eqb_spec (x mod M) 0) as [E|]; [|reflexivity].
        destruct (Z.ltb_spec x M); [|reflexivity]. rewrite Z.mod_small in E by lia. lia. }
    pose proof (rep_step v 0 _ ltac:(lia) R0) as R1. change (0 + 1) with 1 in R1.
    pose proof (rep_step v 1 _ ltac:(lia) R1) as R2. change (1 + 1) with 2 in R2.
    pose proof (rep_step v 2 _ ltac:(lia) R2) as R3. change (2 + 1) with 3 in R3.
    rewrite (R3 j Hj). change (2 ^ 3) with 8. destruct (Z.ltb_spec j (M * 8)); [|lia]. now rewrite andb_true_r.
  Qed.

  Lemma existsb_ext_in {A} (f h : A -> bool) l : (forall x, In x l -> f x = h x) -> existsb f l = existsb h l.
  Proof.
    induction l as [|x l IH]; intros H; [reflexivity|]. cbn. rewrite (H x) by now left. rewrite IH; auto.
    intros; apply H; now right.
  Qed.

  Lemma existsb_zseq y s c : existsb (fun i => y =? i) (zseq s c) = (s <=? y) && (y <? s + Z.of_nat c).
  Proof.
    revert s; induction c as [|c IH]; intros s.
    - cbn. destruct (Z.leb_spec s y); destruct (Z.ltb_spec y (s + 0)); try reflexivity; lia.
    - cbn [zseq existsb]. rewrite IH.
      destruct (Z.eqb_spec y s); destruct (Z.leb_spec s y); destruct (Z.leb_spec (s + 1) y);
        destruct (Z.ltb_spec y (s + 1 + Z.of_nat c)); destruct (Z.ltb_spec y (s + Z.of_nat (S c))); cbn; try reflexivity; lia.
  Qed.

  Lemma sext_loop_closed v sx L : (forall x, 0 <= x < n -> sx x = if x mod M =? 0 then v else 0) ->
    (forall i, In i L -> 0 <= i < P) ->
    forall s, exists r,
      fold_left (fun (acc : option poly) i => match acc with Some s => splice_u8 T logn i 0 s sx | None => None end) L (Some s) = Some r /\
      forall j, 0 <= j < n -> r j = if existsb (fun i => (j - i * gap) mod M =? 0) L then v else s j.
  Proof.
    intros Hsx. induction L as [|i L IH]; intros HL s.
    - exists s; split; [reflexivity|]. intros; reflexivity.
    - cbn [fold_left]. destruct (splice_u8_closed i 0 s sx (HL i ltac:(now left)) ltac:(pose proof P_pos; lia)) as (r1 & E1 & H1).
      rewrite E1. destruct (IH ltac:(intros; apply HL; now right) r1) as (r & Er & Hr).
      exists r; split; [exact Er|]. intros j Hj. rewrite Hr by auto. cbn [existsb].
      destruct (existsb (fun i0 => (j - i0 * gap) mod M =? 0) L); [now rewrite orb_true_r|]. rewrite orb_false_r.
      rewrite H1 by auto. destruct (Z.eqb_spec ((j - i * gap) mod M) 0) as [E|]; [|reflexivity].
      pose proof (ygap_bound i (HL i ltac:(now left))). pose proof M_pos.
      pose proof (mult_ge0 M (j - i * gap) M_pos E ltac:(lia)).
      rewrite Hsx by lia. replace (j - i * gap + 0 * gap) with (j - i * gap) by ring. rewrite E. reflexivity.
  Qed.

  (* sign extension from byte y: the bytes above y are filled with bit 8y+7, everything else is unchanged *)
  Lemma sext_bits y w : 0 <= y < P ->
    exists r, sext T logn y (p_enc T logn w) = Some r /\
      forall i, 0 <= i < 8 * P ->
        Z.testbit (p_dec T logn r) i = if y <? i / 8 then Z.testbit w (8 * y + 7) else Z.testbit w i.
  Proof.
    intros Hy. unfold sext. cbn [T std_wty w_lb]. rewrite Z.shiftl_mul_pow2 by lia. rewrite Z.mul_1_l. fold P.
    destruct (Z.ltb_spec y P); [|lia].
    set (L := zseq (y + 1) (Z.to_nat (P - (y + 1)))).
    set (v := bitz w (8 * y + 7)).
    assert (Hsx : forall x, 0 <= x < n -> sext_fill T logn y (p_enc T logn w) x = if x mod M =? 0 then v else 0).
    { intros x Hx. rewrite sext_fill_closed by auto. destruct (x mod M =? 0); [|reflexivity].
      unfold v. rewrite <- cidx_kb by lia. apply enc_at; [rewrite bits_eq; lia | apply cidx_inj | rewrite bits_eq; lia]. }
    assert (HL : forall i, In i L -> 0 <= i < P) by (intros i Hi; apply in_zseq in Hi; lia).
    destruct (sext_loop_closed v _ L Hsx HL (p_enc T logn w)) as (r & Er & Hr).
    exists r; split; [exact Er|]. intros i Hi.
    rewrite dec_testbit by (rewrite bits_eq; lia). rewrite Hr by (apply cidx_range; auto).
    assert (Hk : 0 <= i mod 8 < 8) by (apply Z.mod_pos_bound; lia).
    assert (Hq : 0 <= i / 8 < P) by (split; [apply Z.div_pos; lia | apply Z.div_lt_upper_bound; lia]).
    rewrite (existsb_ext_in _ (fun d => i / 8 =? d)).
    - unfold L. rewrite existsb_zseq. rewrite Z2Nat.id by lia.
      destruct (Z.leb_spec (y + 1) (i / 8)); destruct (Z.ltb_spec (i / 8) (y + 1 + (P - (y + 1))));
        destruct (Z.ltb_spec y (i / 8)); cbn [andb]; try lia.
      + unfold v, bitz. destruct (Z.testbit w (8 * y + 7)); reflexivity.
      + rewrite enc_at; [apply bitz_nonzero | rewrite bits_eq; lia | apply cidx_inj | rewrite bits_eq; lia].
    - intros d Hd. rewrite (cidx_decomp i Hi). apply in_byte; auto.
  Qed.

  (* ---------------------------------------------------------------------------------------------- *)
  (** ** pack *)

  Lemma in_combine_zseq (cts : list poly) s ic : In ic (combine (zseq s (length cts)) cts) -> s <= fst ic < s + Z.of_nat (length cts).
  Proof. destruct ic as [i c]. intros H. apply in_combine_l in H. apply in_zseq in H. exact H. Qed.

  Lemma pack_fold_at (cts : list poly) : forall s k acc, 0 <= s -> s + Z.of_nat (length cts) <= 8 * P -> (k < length cts)%nat ->
    fold_left (fun a (ic : Z * poly) => if cidx T logn (s + Z.of_nat k) =? cidx T logn (fst ic) then snd ic 0 else a)
              (combine (zseq s (length cts)) cts) acc = nth k cts p_zero 0.
  Proof.
    induction cts as [|c tl IH]; intros s k acc Hs Hlen Hk; [cbn in Hk; lia|].
    cbn [length zseq combine fold_left fst snd]. cbn [length] in Hlen, Hk.
    destruct k as [|k].
    - rewrite Z.add_0_r, Z.eqb_refl. cbn [nth].
      apply (pack_fold_off T logn). intros ic Hic. apply in_combine_zseq in Hic. intros E.
      apply cidx_inj in E; rewrite ?bits_eq; lia.
    - cbn [nth]. replace (s + Z.of_nat (S k)) with (s + 1 + Z.of_nat k) by lia. apply IH; lia.
  Qed.

  Lemma pack_closed (cts : list poly) : length cts = nbits T ->
    exists q, pack T logn cts = Some q /\
      (forall k, (k < nbits T)%nat -> q (cidx T logn (Z.of_nat k)) = nth k cts p_zero 0) /\
      (forall j, (forall i, 0 <= i < 8 * P -> cidx T logn i <> j) -> q j = 0).
  Proof.
    intros Hlen. assert (Hnb : Z.of_nat (nbits T) = 8 * P) by (unfold nbits; rewrite bits_eq; pose proof P_pos; lia).
    unfold pack. destruct cts as [|c0 tl] eqn:Ec.
    { cbn in Hlen. pose proof P_pos. lia. }
    rewrite <- Ec in *. clear Ec c0 tl. rewrite <- Hlen, firstn_all.
    eexists; split; [reflexivity|]. split.
    - intros k Hk. cbv beta. rewrite cidx_eq, log_gap_eq. fold gap. rewrite Z.mod_mul by (pose proof gap_pos; lia).
      cbn [Z.eqb]. rewrite <- cidx_eq. replace (Z.of_nat k) with (0 + Z.of_nat k) by lia.
      apply pack_fold_at; lia.
    - intros j Hoff. cbv beta. destruct (j mod 2 ^ log_gap T logn =? 0); [|reflexivity].
      apply (pack_fold_off T logn). intros ic Hic. apply in_combine_zseq in Hic. apply Hoff. lia.
  Qed.

  (* packing one-bit ciphertexts gives the word of those bits, and get_bit finds each of them again *)
  Lemma pack_bits (bs : list bool) : length bs = nbits T ->
    exists q, pack T logn (map (fun b : bool => p_const (if b then 1 else 0)) bs) = Some q /\
      p_dec T logn q = word_of_bits (nbits T) (fun i => nth (Z.to_nat i) bs false) /\
      forall k j, (k < nbits T)%nat -> 0 <= j < n ->
        get_bit_glwe T logn (Z.of_nat k) q j = if j =? 0 then Z.b2z (nth k bs false) else 0.
  Proof.
    intros Hlen. assert (Hnb : Z.of_nat (nbits T) = 8 * P) by (unfold nbits; rewrite bits_eq; pose proof P_pos; lia).
    destruct (pack_closed (map (fun b : bool => p_const (if b then 1 else 0)) bs) ltac:(now rewrite map_length)) as (q & Eq & Hat & Hoff).
    assert (Hv : forall k, (k < nbits T)%nat -> q (cidx T logn (Z.of_nat k)) = Z.b2z (nth k bs false)).
    { intros k Hk. rewrite Hat by auto.
      set (F := fun b : bool => p_const (if b then 1 else 0)).
      assert (E : nth k (map F bs) p_zero = F (nth k bs false)).
      { rewrite (nth_indep _ p_zero (F false)) by (rewrite map_length; lia). apply map_nth. }
      rewrite E. unfold F, p_const. destruct (nth k bs false); reflexivity. }
    exists q; split; [exact Eq|]. split.
    - unfold p_dec. apply wob_ext. intros i Hi. replace i with (Z.of_nat (Z.to_nat i)) at 1 by lia.
      rewrite Hv by lia. destruct (nth (Z.to_nat i) bs false); reflexivity.
    - intros k j Hk Hj. unfold get_bit_glwe. fold n. rewrite trace0, keep_n by auto.
      destruct (j =? 0); [|reflexivity]. pose proof (cidx_range (Z.of_nat k) ltac:(lia)).
      rewrite (p_rot_lo n) by lia. replace (0 - - cidx T logn (Z.of_nat k)) with (cidx T logn (Z.of_nat k)) by lia.
      apply Hv; auto.
  Qed.
End Std.

(* ------------------------------------------------------------------------------------------------ *)
(** * the statements as pinned in Props/C15.v *)

Lemma bit_index_formula lb i : 0 <= lb -> 0 <= i < 8 * 2 ^ lb ->
  bit_index lb i = (i mod 8) * 2 ^ lb + i / 8 /\ 0 <= bit_index lb i < 8 * 2 ^ lb /\ bit_index_inv lb (bit_index lb i) = i.
Proof.
  intros Hlb Hi. split; [exact (bit_index_arith_eq lb i Hlb Hi)|].
  split; [exact (bit_index_range lb i Hlb Hi) | exact (bit_index_inv_left lb i Hlb Hi)].
Qed.

Lemma roundtrip_all lb logn : 0 <= lb -> lb + 3 <= logn ->
  let T := std_wty lb in
  (forall w, 0 <= w < 2 ^ (8 * 2 ^ lb) -> p_dec T logn (p_enc T logn w) = w) /\
  (forall w i, 0 <= i < 8 * 2 ^ lb -> p_enc T logn w (cidx T logn i) = bitz w i) /\
  (forall w j, (forall i, 0 <= i < 8 * 2 ^ lb -> cidx T logn i <> j) -> p_enc T logn w j = 0) /\
  (forall w bit j, 0 <= bit < 8 * 2 ^ lb -> 0 <= j < 2 ^ logn ->
     get_bit_glwe T logn bit (p_enc T logn w) j = if j =? 0 then bitz w bit else 0) /\
  (forall w bit, 0 <= bit < 8 * 2 ^ lb -> get_bit_lwe T logn bit (p_enc T logn w) = bitz w bit) /\
  (forall w y j, 0 <= y < 2 ^ lb -> 0 <= j < 2 ^ logn ->
     get_byte T logn y (p_enc T logn w) j =
       if j mod (2 ^ lb * 2 ^ (logn - (lb + 3))) =? 0 then bitz w (8 * y + j / (2 ^ lb * 2 ^ (logn - (lb + 3)))) else 0) /\
  (forall bs : list bool, length bs = nbits T ->
     exists q, pack T logn (map (fun b : bool => p_const (if b then 1 else 0)) bs) = Some q /\
       p_dec T logn q = word_of_bits (nbits T) (fun i => nth (Z.to_nat i) bs false) /\
       forall k j, (k < nbits T)%nat -> 0 <= j < 2 ^ logn ->
         get_bit_glwe T logn (Z.of_nat k) q j = if j =? 0 then Z.b2z (nth k bs false) else 0).
Proof.
  intros Hlb Hlogn T.
  assert (Hb : 0 <= w_bits T) by (unfold T; cbn [std_wty w_bits]; pose proof (pow2_pos' lb Hlb); lia).
  split; [intros w Hw; exact (dec_enc T logn Hb (cidx_inj lb logn Hlb Hlogn) w Hw)|].
  split; [intros w i Hi; exact (enc_at T logn Hb (cidx_inj lb logn Hlb Hlogn) w i Hi)|].
  split; [intros w j H; exact (enc_off T logn Hb w j H)|].
  split; [exact (get_bit_glwe_enc lb logn Hlb Hlogn)|].
  split; [exact (get_bit_lwe_enc lb logn Hlb Hlogn)|].
  split; [exact (get_byte_enc lb logn Hlb Hlogn) | exact (pack_bits lb logn Hlb Hlogn)].
Qed.

Lemma splice_coeffs_all lb logn : 0 <= lb -> lb + 3 <= logn ->
  forall dst src (a b : poly), 0 <= dst < 2 ^ lb -> 0 <= src < 2 ^ lb ->
  let gap := 2 ^ (logn - (lb + 3)) in
  (forall j, 0 <= j < 2 ^ logn ->
     zero_byte (std_wty lb) logn dst a j = if (j - dst * gap) mod (2 ^ lb * gap) =? 0 then 0 else a j) /\
  exists r, splice_u8 (std_wty lb) logn dst src a b = Some r /\
    forall j, 0 <= j < 2 ^ logn ->
      r j = if (j - dst * gap) mod (2 ^ lb * gap) =? 0 then b (j - dst * gap + src * gap) else a j.
Proof.
  intros Hlb Hlogn dst src a b Hd Hs gap. split.
  - intros j Hj. exact (zero_byte_closed lb logn Hlb Hlogn dst a j Hd Hj).
  - exact (splice_u8_closed lb logn Hlb Hlogn dst src a b Hd Hs).
Qed.

Lemma splice_positions_all lb logn : 0 <= lb -> lb + 3 <= logn -> forall wa wb,
  let T := std_wty lb in
  (forall dst src, 0 <= dst < 2 ^ lb -> 0 <= src < 2 ^ lb ->
     exists r, splice_u8 T logn dst src (p_enc T logn wa) (p_enc T logn wb) = Some r /\
       forall i, 0 <= i < 8 * 2 ^ lb ->
         Z.testbit (p_dec T logn r) i = if i / 8 =? dst then Z.testbit wb (8 * src + i mod 8) else Z.testbit wa i) /\
  (forall dst src, 0 <= dst -> 2 * dst + 1 < 2 ^ lb -> 0 <= src -> 2 * src + 1 < 2 ^ lb ->
     exists r, splice_u16 T logn dst src (p_enc T logn wa) (p_enc T logn wb) = Some r /\
       forall i, 0 <= i < 8 * 2 ^ lb ->
         Z.testbit (p_dec T logn r) i = if i / 16 =? dst then Z.testbit wb (16 * src + i mod 16) else Z.testbit wa i).
Proof.
  intros Hlb Hlogn wa wb T. split.
  - intros dst src. exact (splice_u8_bits lb logn Hlb Hlogn dst src wa wb).
  - intros dst src. exact (splice_u16_bits lb logn Hlb Hlogn dst src wa wb).
Qed.
