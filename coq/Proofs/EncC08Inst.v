(* C01 / C06 round-trip theorems with the normaliser hypotheses discharged by C08: FFT64 family (wb = 64), one radix b
   for ciphertext, plaintext and decrypted plaintext, 1 <= b <= 62. *)
From PV Require Import Base.MachineInt Model.Znx Model.Limbs Model.Flat Model.DftAbs Model.C08Oracle Model.EncModel
  Proofs.EncValue Proofs.EncLists Proofs.C01Sk Proofs.C01Glwe Proofs.C01Lwe Proofs.C01Pk Proofs.EncC08.
Open Scope Z_scope.

Theorem sk_roundtrip_fft64 :
  forall (b : Z) (n size psize rank : nat) (nk S E M : Z), 1 <= b <= 62 -> 0 <= S ->
  forall (pt : ccol) (sk : list poly) (us : nat -> Z) (e : poly) (ct : list ccol) (d : ccol),
  length sk = rank ->
  Forall (fun s => norm1 s <= S) sk ->
  (forall k, (k < n)%nat -> Z.abs (nthZ e k) <= E) ->
  (forall k, (k < n)%nat -> bnd M (coef pt k)) ->
  zn rank * 2 ^ (b - 1) + E + M <= 2 ^ 62 ->
  zn rank * (S * 2 ^ (b - 1)) + 2 ^ (b - 1) <= 2 ^ (64 - 2) ->
  S * 2 ^ (b - 1) <= 2 ^ (64 - 2) ->
  enc_sk 64 b n size rank nk (Some (pt, O)) sk us e = Some ct ->
  dec_glwe 64 b b n size psize sk ct = Some d ->
  forall k, (k < n)%nat -> length (coef d k) = psize /\
    forall P, zn size * b <= P -> zn psize * b <= P -> 1 <= P ->
    (exists q, lval P b size (coef (hd [] ct) k) + lvsum P b size (prods_at n size sk (tl ct) k)
               = lval P b size (coef pt k) + nthZ e k * wt P b (target_limb nk b) + q * 2 ^ P) /\
    tor_abs P (val_scaled P b (coef d k) - val_scaled P b (firstn size (coef pt k)) - nthZ e k * wt P b (target_limb nk b))
      <= 2 ^ (P - zn psize * b).
Proof.
  intros b n size psize rank nk S E M Hb HS pt sk us e ct d A1 A2 A3 A4 A5 A6 A7 A8 A9 k Hk.
  destruct (sk_roundtrip 64 b b (fun x => x = b) n size psize rank nk
              (normalize_value_ok_small_same b Hb) (normalize_value_ok_big_same b Hb) ltac:(lia) eq_refl eq_refl ltac:(lia)
              S E M HS pt sk us e ct d A1 A2 A3 A4 A5 A6 A7 A8 A9) as (_ & _ & V).
  destruct (V k Hk) as (_ & _ & L & W). split; [exact L|]. intros P Q1 Q2 Q3. apply (W P Q1 Q2 Q3).
Qed.

Theorem lwe_roundtrip_same_radix :
  forall (b : Z) (size psize : nat) (nk D E M : Z), 1 <= b <= 62 ->
  forall (pt s : list Z) (a : list (list Z)) (e : Z) (body d : list Z),
  (forall j, Z.abs (lwe_dot (nth j a []) s) <= D) -> Z.abs e <= E -> bnd M pt ->
  D + E + M <= 2 ^ 62 -> D + 2 ^ (b - 1) <= 2 ^ 62 ->
  lwe_enc_body b size nk pt s a e = Some body ->
  lwe_dec b b size psize s a body = Some d ->
  length d = psize /\
  forall P, zn size * b <= P -> zn psize * b <= P -> 1 <= P ->
    tor_abs P (val_scaled P b d - val_scaled P b (firstn size pt) - e * wt P b (target_limb nk b)) <= 2 ^ (P - zn psize * b).
Proof.
  intros b size psize nk D E M Hb pt s a e body d A1 A2 A3 A4 A5 A6 A7.
  destruct (lwe_roundtrip b b (fun x => x = b) size psize nk (normalize_value_ok_small_same b Hb)
              (normalize_assign_value_ok_same b Hb) eq_refl eq_refl ltac:(lia) D E M pt s a e body d A1 A2 A3 A4 A5 A6 A7)
    as (_ & _ & _ & L & V).
  split; [exact L|]. intros P Q1 Q2 Q3. apply (V P Q1 Q2 Q3).
Qed.

Theorem pk_roundtrip_fft64 :
  forall (b : Z) (n size psize rank : nat) (nk nkp Sn U E Ep M : Z), 1 <= b <= 62 -> 0 <= Sn -> 0 <= U ->
  forall (pt : ccol) (sk : list poly) (us : nat -> Z) (epk u : poly) (es : list poly) (pk ct : list ccol) (d : ccol),
  length sk = rank -> length es = S rank ->
  Forall (fun s => length s = n /\ norm1 s <= Sn) sk -> length u = n -> norm1 u <= U ->
  length epk = n -> Forall (fun e => length e = n) es ->
  (forall k, (k < n)%nat -> Z.abs (nthZ epk k) <= Ep) ->
  (forall i k, (k < n)%nat -> Z.abs (nthZ (nth i es []) k) <= E) ->
  (forall k, (k < n)%nat -> bnd M (coef pt k)) -> 0 <= M ->
  zn rank * 2 ^ (b - 1) + Ep <= 2 ^ 62 ->
  Sn * 2 ^ (b - 1) <= 2 ^ (64 - 2) ->
  U * 2 ^ (b - 1) + E + M <= 2 ^ (64 - 2) ->
  zn rank * (Sn * 2 ^ (b - 1)) + 2 ^ (b - 1) <= 2 ^ (64 - 2) ->
  enc_sk 64 b n size rank nkp None sk us epk = Some pk ->
  enc_pk 64 b n size size nk (Some pt) u pk es = Some ct ->
  dec_glwe 64 b b n size psize sk ct = Some d ->
  forall k, (k < n)%nat -> length (coef d k) = psize /\
    forall P, zn size * b <= P -> zn psize * b <= P -> 1 <= P ->
    tor_abs P (val_scaled P b (coef d k) - val_scaled P b (firstn size (coef pt k)) - pk_error b rank nk nkp P sk u epk es k)
      <= 2 ^ (P - zn psize * b).
Proof.
  intros b n size psize rank nk nkp Sn U E Ep M Hb HS HU
         pt sk us epk u es pk ct d A1 A2 A3 A4 A5 A6 A7 A8 A9 A10 A11 A12 A13 A14 A15 A16 A17 A18 k Hk.
  destruct (pk_roundtrip 64 b b (fun x => x = b) n size psize rank nk nkp
           (normalize_value_ok_small_same b Hb) (normalize_value_ok_big_same b Hb) ltac:(lia) eq_refl eq_refl ltac:(lia)
           Sn U E Ep M HS HU pt sk us epk u es pk ct d A1 A2 A3 A4 A5 A6 A7 A8 A9 A10 A11 A12 A13 A14 A15 A16 A17 A18 k Hk) as [L V].
  split; [exact L|]. intros P Q1 Q2 Q3. apply (V P Q1 Q2 Q3).
Qed.
