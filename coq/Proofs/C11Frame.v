(* Frame lemmas for the flat-memory layer: writing a column touches only that column. *)
From PV Require Import Base.MachineInt Model.Znx Model.Limbs Model.Flat.
From Coq Require Import Arith PeanoNat.
Open Scope nat_scope.

Definition in_col (n cols size col idx : nat) : bool :=
  let limb := idx / n in Nat.eqb (limb mod cols) col && Nat.ltb (limb / cols) size.

Lemma write_at_length (data l : list Z) off :
  off + length l <= length data -> length (write_at data off l) = length data.
Proof.
  intros H. unfold write_at. rewrite !app_length, firstn_length, skipn_length. lia.
Qed.

Lemma nth_firstn_lt' (A : Type) (l : list A) k i d : i < k -> nth i (firstn k l) d = nth i l d.
Proof.
  revert k i; induction l as [|x l IH]; intros k i H.
  - rewrite firstn_nil; reflexivity.
  - destruct k as [|k]; [lia|]. destruct i as [|i]; cbn; [reflexivity|]. apply IH; lia.
Qed.

Lemma nth_skipn' (A : Type) (l : list A) k i d : nth i (skipn k l) d = nth (k + i) l d.
Proof.
  revert k; induction l as [|x l IH]; intros k.
  - rewrite skipn_nil. destruct i, k; reflexivity.
  - destruct k as [|k]; cbn; [reflexivity|]. apply IH.
Qed.

Lemma write_at_nth_outside (data l : list Z) off idx d :
  off + length l <= length data -> (idx < off \/ off + length l <= idx) ->
  nth idx (write_at data off l) d = nth idx data d.
Proof.
  intros Hlen Hout. unfold write_at.
  destruct Hout as [Hlt | Hge].
  - rewrite app_nth1 by (rewrite firstn_length; lia).
    rewrite nth_firstn_lt' by lia. reflexivity.
  - rewrite app_nth2 by (rewrite firstn_length; lia).
    rewrite firstn_length, Nat.min_l by lia.
    rewrite app_nth2 by lia.
    rewrite nth_skipn'. f_equal. lia.
Qed.

Lemma in_range_limb n cols col j idx :
  0 < n -> col < cols -> n * (j * cols + col) <= idx < n * (j * cols + col) + n ->
  idx / n = j * cols + col.
Proof.
  intros Hn Hc [H1 H2]. symmetry. apply Nat.div_unique with (r := idx - n * (j * cols + col)); lia.
Qed.

Lemma in_col_of_range n cols size col j idx :
  0 < n -> col < cols -> j < size ->
  n * (j * cols + col) <= idx < n * (j * cols + col) + n -> in_col n cols size col idx = true.
Proof.
  intros Hn Hc Hj Hr. unfold in_col. rewrite (in_range_limb n cols col j idx Hn Hc Hr).
  apply andb_true_intro; split.
  - apply Nat.eqb_eq. rewrite Nat.add_comm, Nat.mod_add by lia. apply Nat.mod_small; lia.
  - apply Nat.ltb_lt. rewrite Nat.add_comm, Nat.div_add by lia. rewrite Nat.div_small by lia. lia.
Qed.

Lemma firstn_pad_length n (l : list Z) : length (firstn n (l ++ zeros n)) = n.
Proof. rewrite firstn_length, app_length. unfold zeros. rewrite repeat_length. lia. Qed.

(* one limb *)
Lemma write_limb_length n cols data col j l :
  n * (j * cols + col) + n <= length data -> length (write_limb n cols data col j l) = length data.
Proof. intros H. unfold write_limb. apply write_at_length. rewrite firstn_pad_length. lia. Qed.

Lemma write_limb_outside n cols data col j l idx d size :
  0 < n -> col < cols -> j < size -> n * (j * cols + col) + n <= length data ->
  in_col n cols size col idx = false ->
  nth idx (write_limb n cols data col j l) d = nth idx data d.
Proof.
  intros Hn Hc Hj Hlen Hout. unfold write_limb. apply write_at_nth_outside.
  - rewrite firstn_pad_length. lia.
  - rewrite firstn_pad_length.
    destruct (Nat.lt_ge_cases idx (n * (j * cols + col))) as [Hlt|Hge]; [left; exact Hlt|].
    destruct (Nat.lt_ge_cases idx (n * (j * cols + col) + n)) as [Hlt2|Hge2]; [|right; exact Hge2].
    rewrite (in_col_of_range n cols size col j idx Hn Hc Hj) in Hout by lia. discriminate.
Qed.

(* the fold of write_col, generalised over the starting limb index *)
Lemma write_col_aux n cols col size (limbs : list (list Z)) :
  forall data j0, 0 < n -> col < cols -> j0 + length limbs <= size ->
  n * cols * size <= length data ->
  let r := fst (fold_left (fun (s : list Z * nat) l => (write_limb n cols (fst s) col (snd s) l, S (snd s))) limbs (data, j0)) in
  length r = length data /\
  forall idx d, in_col n cols size col idx = false -> nth idx r d = nth idx data d.
Proof.
  induction limbs as [|l limbs IH]; intros data j0 Hn Hc Hsz Hlen; cbn [fold_left fst snd length] in *.
  - split; [reflexivity | intros; reflexivity].
  - assert (Hin : n * (j0 * cols + col) + n <= length data).
    { assert (j0 < size) by lia. assert (j0 * cols + col + 1 <= cols * size) by nia. nia. }
    specialize (IH (write_limb n cols data col j0 l) (S j0) Hn Hc ltac:(lia)).
    rewrite write_limb_length in IH by exact Hin.
    specialize (IH Hlen). cbn zeta in IH. destruct IH as [IHl IHn].
    split; [exact IHl|].
    intros idx d Hout. rewrite IHn by exact Hout.
    apply write_limb_outside with (size := size); try assumption; lia.
Qed.

Theorem write_col_frame n cols col size data (limbs : list (list Z)) :
  0 < n -> col < cols -> length limbs <= size -> n * cols * size <= length data ->
  length (write_col n cols data col limbs) = length data /\
  forall idx d, in_col n cols size col idx = false ->
    nth idx (write_col n cols data col limbs) d = nth idx data d.
Proof.
  intros Hn Hc Hl Hd. unfold write_col.
  exact (write_col_aux n cols col size limbs data 0 Hn Hc ltac:(lia) Hd).
Qed.

(* ---------- lifting to col_op (all C08 vector operations go through it) ---------- *)
Lemma untranspose_length size cs : length (untranspose size cs) = size.
Proof. unfold untranspose. rewrite map_length, seq_length. reflexivity. Qed.

Lemma lift_coeff_length f n rsize a_limbs r_limbs l :
  lift_coeff f n rsize a_limbs r_limbs = Some l -> length l = rsize.
Proof.
  unfold lift_coeff. destruct (sequence _) as [cs|]; [|discriminate].
  intros H; inversion H; subst. apply untranspose_length.
Qed.

Lemma shape_ok_facts s data : shape_ok s data = true ->
  s_col s < s_cols s /\ s_size s <= s_max s /\ length data = s_n s * s_cols s * s_max s.
Proof.
  unfold shape_ok. intros H.
  apply andb_prop in H as [H H3]. apply andb_prop in H as [H1 H2].
  apply Nat.ltb_lt in H1. apply Nat.leb_le in H2. apply Nat.eqb_eq in H3. auto.
Qed.

Theorem col_op_frame f rs as_ res a res' :
  0 < s_n rs ->
  col_op f rs as_ res a = Some res' ->
  length res' = length res /\
  forall idx d, in_col (s_n rs) (s_cols rs) (s_size rs) (s_col rs) idx = false -> nth idx res' d = nth idx res d.
Proof.
  intros Hn. unfold col_op.
  destruct (shape_ok rs res) eqn:Hrs; cbn [andb]; [|discriminate].
  destruct (shape_ok as_ a) eqn:Has; cbn [andb]; [|discriminate].
  destruct (Nat.eqb (s_n rs) (s_n as_)); [|discriminate].
  destruct (lift_coeff _ _ _ _ _) as [limbs|] eqn:Hl; [|discriminate].
  intros H; inversion H; subst res'; clear H.
  apply lift_coeff_length in Hl.
  destruct (shape_ok_facts rs res Hrs) as (Hc & Hs & Hlen).
  apply write_col_frame; try assumption; try lia.
  rewrite Hlen. apply Nat.mul_le_mono_l. exact Hs.
Qed.
