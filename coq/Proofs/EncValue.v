(* Value-level lemmas shared by the C01 / C06 / C19 proofs: sums, the value of a limb list on the torus as a
   scaled integer, congruence modulo 2^P, limb-wise operations when no word wraps. *)
From PV Require Import Base.MachineInt Model.Znx Model.Limbs Model.C08Oracle Model.EncModel.
Open Scope Z_scope.

(* ---------------- finite sums ---------------- *)
Fixpoint sumz (f : nat -> Z) (n : nat) : Z := match n with O => 0 | S m => sumz f m + f m end.

Lemma sumz_ext f g n : (forall j, (j < n)%nat -> f j = g j) -> sumz f n = sumz g n.
Proof. induction n; intros H; cbn [sumz]; [reflexivity|]. rewrite IHn, H by (intros; try apply H; lia). reflexivity. Qed.
Lemma sumz_add f g n : sumz (fun j => f j + g j) n = sumz f n + sumz g n.
Proof. induction n; cbn [sumz]; lia. Qed.
Lemma sumz_sub f g n : sumz (fun j => f j - g j) n = sumz f n - sumz g n.
Proof. induction n; cbn [sumz]; lia. Qed.
Lemma sumz_zero n : sumz (fun _ => 0) n = 0.
Proof. induction n; cbn [sumz]; lia. Qed.
Lemma sumz_zero' f n : (forall j, (j < n)%nat -> f j = 0) -> sumz f n = 0.
Proof. intros H. rewrite (sumz_ext f (fun _ => 0)) by exact H. apply sumz_zero. Qed.
Lemma sumz_shift f n : sumz f (S n) = f O + sumz (fun j => f (S j)) n.
Proof. induction n; [cbn [sumz]; lia|]. cbn [sumz] in *. lia. Qed.
Lemma sumz_single (c : Z) (w : nat -> Z) (ell n : nat) : (ell < n)%nat ->
  sumz (fun j => (if Nat.eqb j ell then c else 0) * w j) n = c * w ell.
Proof.
  induction n; intros H; [lia|]. cbn [sumz].
  destruct (Nat.eq_dec ell n) as [->|Hne].
  - rewrite Nat.eqb_refl. rewrite sumz_zero'; [lia|].
    intros j Hj. destruct (Nat.eqb_spec j n); [lia|]. lia.
  - rewrite IHn by lia. destruct (Nat.eqb_spec n ell); [lia|]. lia.
Qed.
Lemma sumz_le_split f n m : (m <= n)%nat -> (forall j, (m <= j < n)%nat -> f j = 0) -> sumz f n = sumz f m.
Proof.
  induction n; intros Hm H.
  - replace m with O by lia. reflexivity.
  - destruct (Nat.eq_dec m (S n)) as [->|]; [reflexivity|].
    cbn [sumz]. rewrite H by lia. rewrite IHn by (try lia; intros; apply H; lia). lia.
Qed.

(* sum over a list of limb lists, at limb j *)
Definition lsum_at (ts : list (list Z)) (j : nat) : Z := fold_right (fun t acc => nthZ t j + acc) 0 ts.

Lemma sumz_lsum_at (ts : list (list Z)) (w : nat -> Z) (n : nat) :
  sumz (fun j => lsum_at ts j * w j) n = fold_right (fun t acc => sumz (fun j => nthZ t j * w j) n + acc) 0 ts.
Proof.
  induction ts as [|t ts IH]; cbn [lsum_at fold_right].
  - apply sumz_zero'. intros; lia.
  - rewrite <- IH. rewrite <- sumz_add. apply sumz_ext. intros j _. unfold lsum_at. lia.
Qed.

(* ---------------- value of a limb list ---------------- *)
Definition wt (P b : Z) (j : nat) : Z := 2 ^ (P - (zn j + 1) * b).
(* value of the first n limbs of l (missing limbs are 0), scaled by 2^P *)
Definition lval (P b : Z) (n : nat) (l : list Z) : Z := sumz (fun j => nthZ l j * wt P b j) n.

Lemma val_scaled_aux (P b : Z) (l : list Z) : forall (acc : Z) (i : nat),
  fold_left (fun (s : Z * Z) x => (fst s + x * 2 ^ (P - (snd s + 1) * b), snd s + 1)) l (acc, zn i)
  = (acc + sumz (fun j => nthZ l j * wt P b (i + j)) (length l), zn (i + length l)).
Proof.
  induction l as [|x t IH]; intros acc i.
  - cbn [fold_left length sumz]. unfold zn. f_equal; lia.
  - cbn [fold_left fst snd]. replace (zn i + 1) with (zn (S i)) by (unfold zn; lia).
    rewrite IH. cbn [length]. rewrite sumz_shift. f_equal.
    + unfold nthZ at 2. cbn [nth]. unfold wt at 2. replace (zn (i + 0) + 1) with (zn (S i)) by (unfold zn; lia).
      replace (zn (S i)) with (zn i + 1) by (unfold zn; lia).
      assert (E : sumz (fun j => nthZ t j * wt P b (S i + j)) (length t) =
                  sumz (fun j => nthZ (x :: t) (S j) * wt P b (i + S j)) (length t)).
      { apply sumz_ext. intros j _. unfold nthZ. cbn [nth]. replace (S i + j)%nat with (i + S j)%nat by lia. reflexivity. }
      rewrite E. lia.
    + f_equal. lia.
Qed.

Lemma val_scaled_lval (P b : Z) (l : list Z) : val_scaled P b l = lval P b (length l) l.
Proof.
  unfold val_scaled, lval. change 0 with (zn O) at 2. rewrite val_scaled_aux. cbn [fst]. reflexivity.
Qed.

Lemma nthZ_beyond (l : list Z) (j : nat) : (length l <= j)%nat -> nthZ l j = 0.
Proof. intros. unfold nthZ. apply nth_overflow. lia. Qed.

Lemma lval_more (P b : Z) (n : nat) (l : list Z) : (length l <= n)%nat -> lval P b n l = lval P b (length l) l.
Proof. intros H. unfold lval. apply sumz_le_split; [lia|]. intros j Hj. rewrite nthZ_beyond by lia. lia. Qed.

Lemma nthZ_firstn (l : list Z) (n j : nat) : (j < n)%nat -> nthZ (firstn n l) j = nthZ l j.
Proof.
  revert l j. induction n; intros l j H; [lia|]. destruct l as [|x t]; [reflexivity|].
  destruct j; [reflexivity|]. cbn [firstn]. unfold nthZ in *. cbn [nth]. apply IHn. lia.
Qed.

(* the value of a plaintext as far as it fits into n limbs *)
Lemma lval_firstn (P b : Z) (n : nat) (l : list Z) : val_scaled P b (firstn n l) = lval P b n l.
Proof.
  rewrite val_scaled_lval. rewrite firstn_length.
  unfold lval. rewrite (sumz_le_split (fun j => nthZ l j * wt P b j) n (Nat.min n (length l))); [|lia|].
  - apply sumz_ext. intros j Hj. rewrite nthZ_firstn by lia. reflexivity.
  - intros j Hj. rewrite nthZ_beyond by lia. lia.
Qed.

(* ---------------- lmk ---------------- *)
Lemma nth_map_seq {A} (f : nat -> A) (n k : nat) (d : A) : (k < n)%nat -> nth k (map f (seq 0 n)) d = f k.
Proof.
  intros H. rewrite nth_indep with (d' := f O) by (rewrite map_length, seq_length; lia).
  rewrite map_nth, seq_nth by lia. reflexivity.
Qed.
Lemma lmk_length sz f : length (lmk sz f) = sz.
Proof. unfold lmk. rewrite map_length, seq_length. reflexivity. Qed.
Lemma nth_lmk sz f j : (j < sz)%nat -> nthZ (lmk sz f) j = f j.
Proof.
  intros H. unfold lmk, nthZ. rewrite nth_indep with (d' := f O) by (rewrite map_length, seq_length; lia).
  rewrite map_nth. rewrite seq_nth by lia. reflexivity.
Qed.
Lemma lval_lmk P b sz f : lval P b sz (lmk sz f) = sumz (fun j => f j * wt P b j) sz.
Proof. unfold lval. apply sumz_ext. intros j Hj. rewrite nth_lmk by lia. reflexivity. Qed.
Lemma nthZ_zeros k j : nthZ (zeros k) j = 0.
Proof. unfold nthZ, zeros. destruct (Nat.lt_ge_cases j k); [apply nth_repeat|]. apply nth_overflow. rewrite repeat_length. lia. Qed.
Lemma zeros_length k : length (zeros k) = k.
Proof. apply repeat_length. Qed.
Lemma lval_zeros P b n k : lval P b n (zeros k) = 0.
Proof. unfold lval. apply sumz_zero'. intros. rewrite nthZ_zeros. lia. Qed.

(* ---------------- torus ---------------- *)
Lemma tor_abs_shift (P x q : Z) : 1 <= P -> tor_abs P (x + q * 2 ^ P) = tor_abs P x.
Proof.
  intros HP. unfold tor_abs. f_equal. apply wrap_eq_mod; [lia|].
  apply Z_mod_plus_full.
Qed.
Lemma tor_abs_zero_cong (P z : Z) : 1 <= P -> tor_abs P z = 0 -> exists q, z = q * 2 ^ P.
Proof.
  intros HP H. unfold tor_abs in H. destruct (wrap_exists P z HP) as [q Hq].
  exists q. lia.
Qed.
Lemma tor_abs_multiple (P q : Z) : 1 <= P -> tor_abs P (q * 2 ^ P) = 0.
Proof.
  intros HP. replace (q * 2 ^ P) with (0 + q * 2 ^ P) by lia. rewrite tor_abs_shift by lia.
  unfold tor_abs. rewrite wrap_id; [reflexivity|lia|]. unfold in_range.
  pose proof (pow2_pos (P - 1) ltac:(lia)). lia.
Qed.

(* ---------------- bounded limb lists, no-wrap forms of the limb operations ---------------- *)
Definition bnd (B : Z) (l : list Z) : Prop := forall j, Z.abs (nthZ l j) <= B.

Lemma bnd_of_Forall B l : 0 <= B -> Forall (fun x => Z.abs x <= B) l -> bnd B l.
Proof.
  intros HB HF j. destruct (Nat.lt_ge_cases j (length l)).
  - rewrite Forall_forall in HF. apply HF. unfold nthZ. apply nth_In. lia.
  - rewrite nthZ_beyond by lia. lia.
Qed.
Lemma Forall_of_bnd B l : bnd B l -> Forall (fun x => Z.abs x <= B) l.
Proof.
  intros H. rewrite Forall_forall. intros x Hx. destruct (In_nth l x 0 Hx) as [j [Hj <-]]. apply (H j).
Qed.
Lemma bnd_in_range b l : 1 <= b -> Forall (in_range b) l -> bnd (2 ^ (b - 1)) l.
Proof.
  intros Hb HF. apply bnd_of_Forall; [pose proof (pow2_pos (b - 1) ltac:(lia)); lia|].
  eapply Forall_impl; [|exact HF]. unfold in_range. intros; lia.
Qed.
Lemma bnd_weaken B B' l : B <= B' -> bnd B l -> bnd B' l.
Proof. intros H Hb j. specialize (Hb j). lia. Qed.
Lemma bnd_zeros k : bnd 0 (zeros k).
Proof. intros j. rewrite nthZ_zeros. lia. Qed.

Lemma wrap_small (w x : Z) : 1 <= w -> Z.abs x <= 2 ^ (w - 1) - 1 -> wrap w x = x.
Proof. intros Hw H. apply wrap_id; [lia|]. unfold in_range. lia. Qed.

Section NoWrap.
Variable w : Z.
Hypothesis Hw : 1 <= w.

Lemma l_sub_assign_nowrap (a r : list Z) (A R : Z) : length a = length r -> bnd A a -> bnd R r ->
  A + R <= 2 ^ (w - 1) - 1 ->
  length (l_sub_assign w a r) = length r /\
  (forall j, nthZ (l_sub_assign w a r) j = nthZ r j - nthZ a j) /\ bnd (A + R) (l_sub_assign w a r).
Proof.
  intros Hl Ha Hr HB. unfold l_sub_assign.
  assert (E : forall j, nthZ (lmk (length r) (fun j => if Nat.ltb j (length a) then wsub w (nthZ r j) (nthZ a j) else nthZ r j)) j
              = nthZ r j - nthZ a j).
  { intros j. destruct (Nat.lt_ge_cases j (length r)).
    - rewrite nth_lmk by lia. destruct (Nat.ltb_spec j (length a)); [|lia].
      unfold wsub. apply wrap_small; [lia|]. specialize (Ha j). specialize (Hr j). lia.
    - rewrite !nthZ_beyond by (rewrite ?lmk_length; lia). lia. }
  split; [apply lmk_length|]. split; [exact E|].
  intros j. rewrite E. specialize (Ha j). specialize (Hr j). lia.
Qed.

(* the added list may be shorter or longer than the accumulator *)
Lemma l_add_assign_nowrap (a r : list Z) (A R : Z) : bnd A a -> bnd R r ->
  A + R <= 2 ^ (w - 1) - 1 ->
  length (l_add_assign w a r) = length r /\
  (forall j, (j < length r)%nat -> nthZ (l_add_assign w a r) j = nthZ r j + nthZ a j) /\ bnd (A + R) (l_add_assign w a r).
Proof.
  intros Ha Hr HB. unfold l_add_assign.
  assert (E : forall j, (j < length r)%nat ->
              nthZ (lmk (length r) (fun j => if Nat.ltb j (length a) then wadd w (nthZ r j) (nthZ a j) else nthZ r j)) j
              = nthZ r j + nthZ a j).
  { intros j H. rewrite nth_lmk by lia. destruct (Nat.ltb_spec j (length a)).
    - unfold wadd. apply wrap_small; [lia|]. specialize (Ha j). specialize (Hr j). lia.
    - rewrite (nthZ_beyond a) by lia. lia. }
  split; [apply lmk_length|]. split; [exact E|].
  intros j. destruct (Nat.lt_ge_cases j (length r)).
  - rewrite E by lia. specialize (Ha j). specialize (Hr j). lia.
  - rewrite nthZ_beyond by (rewrite lmk_length; lia). specialize (Ha j). specialize (Hr j). lia.
Qed.

Lemma l_add_at_nowrap (ell : nat) (e : Z) (r : list Z) (E R : Z) : Z.abs e <= E -> bnd R r ->
  E + R <= 2 ^ (w - 1) - 1 ->
  length (l_add_at w ell e r) = length r /\
  (forall j, (j < length r)%nat -> nthZ (l_add_at w ell e r) j = nthZ r j + (if Nat.eqb j ell then e else 0)) /\
  bnd (E + R) (l_add_at w ell e r).
Proof.
  intros He Hr HB. unfold l_add_at.
  assert (Eq : forall j, (j < length r)%nat ->
              nthZ (lmk (length r) (fun j => if Nat.eqb j ell then wadd w (nthZ r j) e else nthZ r j)) j
              = nthZ r j + (if Nat.eqb j ell then e else 0)).
  { intros j H. rewrite nth_lmk by lia. destruct (Nat.eqb j ell); [|lia].
    unfold wadd. apply wrap_small; [lia|]. specialize (Hr j). lia. }
  split; [apply lmk_length|]. split; [exact Eq|].
  intros j. destruct (Nat.lt_ge_cases j (length r)).
  - rewrite Eq by lia. specialize (Hr j). destruct (Nat.eqb j ell); lia.
  - rewrite nthZ_beyond by (rewrite lmk_length; lia). specialize (Hr j). lia.
Qed.

(* c0 = c - t_1 - ... - t_m *)
Lemma fold_sub_nowrap (size : nat) (D : Z) : 0 <= D -> forall (ts : list (list Z)) (c : list Z) (B : Z),
  length c = size -> bnd B c -> Forall (fun t => length t = size /\ bnd D t) ts ->
  B + zn (length ts) * D <= 2 ^ (w - 1) - 1 ->
  let c' := fold_left (fun c t => l_sub_assign w t c) ts c in
  length c' = size /\ (forall j, nthZ c' j = nthZ c j - lsum_at ts j) /\ bnd (B + zn (length ts) * D) c'.
Proof.
  intros HD. induction ts as [|t ts IH]; intros c B Hl Hc HF HB; cbn [fold_left length lsum_at fold_right].
  - split; [exact Hl|]. split; [intros; lia|]. eapply bnd_weaken; [|exact Hc]. unfold zn. lia.
  - inversion HF as [|? ? [Htl Htb] HF']; subst.
    assert (HB1 : D + B <= 2 ^ (w - 1) - 1) by (unfold zn in *; cbn [length] in HB; nia).
    destruct (l_sub_assign_nowrap t c D B ltac:(lia) Htb Hc HB1) as (L1 & N1 & B1).
    specialize (IH (l_sub_assign w t c) (D + B) ltac:(lia) B1 HF').
    assert (HB2 : D + B + zn (length ts) * D <= 2 ^ (w - 1) - 1) by (unfold zn in *; cbn [length] in HB; nia).
    destruct (IH HB2) as (L2 & N2 & B2).
    split; [exact L2|]. split.
    + intros j. rewrite N2, N1. unfold lsum_at. lia.
    + eapply bnd_weaken; [|exact B2]. unfold zn; cbn [length]; nia.
Qed.

(* acc = c + x_1 + ... + x_m  (all of the same length) *)
Lemma fold_add_nowrap (size : nat) (D : Z) : 0 <= D -> forall (xs : list (list Z)) (c : list Z) (B : Z),
  length c = size -> bnd B c -> Forall (fun t => length t = size /\ bnd D t) xs ->
  B + zn (length xs) * D <= 2 ^ (w - 1) - 1 ->
  let c' := fold_left (fun c p => l_add_assign w p c) xs c in
  length c' = size /\ (forall j, nthZ c' j = nthZ c j + lsum_at xs j) /\ bnd (B + zn (length xs) * D) c'.
Proof.
  intros HD. induction xs as [|t ts IH]; intros c B Hl Hc HF HB; cbn [fold_left length lsum_at fold_right].
  - split; [exact Hl|]. split; [intros; lia|]. eapply bnd_weaken; [|exact Hc]. unfold zn. lia.
  - inversion HF as [|? ? [Htl Htb] HF']; subst.
    assert (HB1 : D + B <= 2 ^ (w - 1) - 1) by (unfold zn in *; cbn [length] in HB; nia).
    destruct (l_add_assign_nowrap t c D B Htb Hc HB1) as (L1 & N1 & B1).
    specialize (IH (l_add_assign w t c) (D + B) ltac:(lia) B1 HF').
    assert (HB2 : D + B + zn (length ts) * D <= 2 ^ (w - 1) - 1) by (unfold zn in *; cbn [length] in HB; nia).
    destruct (IH HB2) as (L2 & N2 & B2).
    split; [exact L2|]. split.
    + intros j. rewrite N2. destruct (Nat.lt_ge_cases j (length c)).
      * rewrite N1 by lia. unfold lsum_at. lia.
      * rewrite (nthZ_beyond (l_add_assign w t c)) by lia. rewrite (nthZ_beyond c) by lia.
        rewrite (nthZ_beyond t) by lia. unfold lsum_at. lia.
    + eapply bnd_weaken; [|exact B2]. unfold zn; cbn [length]; nia.
Qed.

End NoWrap.
