(* C07 butterfly networks, structure: canonical form of a butterfly block, generic level-ordered networks and the
   equivalent recursive (divide-and-conquer) networks, for the forward (top level first) and the inverse (bottom
   level first) order of execution. *)
From PV Require Import Base.MachineInt Model.DftAbs Model.C07Ntt120 Model.C07NttNet Proofs.C07Ring Proofs.C07NetBase.
Open Scope Z_scope.

Definition lanefn := nat -> Z -> Z -> Z * Z.

Lemma map3_combine {T} (F : nat -> Z -> Z -> T) lo : forall hi s, length hi = length lo ->
  map (fun t => F (fst t) (fst (snd t)) (snd (snd t))) (combine (seq s (length lo)) (combine lo hi))
  = map (fun i => F (s + i)%nat (nth i lo 0) (nth i hi 0)) (seq 0 (length lo)).
Proof.
  induction lo as [|a lo IH]; intros hi s H; [reflexivity|].
  destruct hi as [|b hi]; [discriminate|].
  cbn [length seq combine map fst snd nth]. f_equal; [rewrite Nat.add_0_r; reflexivity|].
  rewrite IH by (cbn in H; lia). rewrite <- seq_shift, map_map. apply map_ext. intros i.
  rewrite Nat.add_succ_comm. reflexivity.
Qed.

Definition lane_lo (g : lanefn) (x : list Z) (h i : nat) : Z := fst (g i (nth i x 0) (nth (h + i) x 0)).
Definition lane_hi (g : lanefn) (x : list Z) (h i : nat) : Z := snd (g i (nth i x 0) (nth (h + i) x 0)).

Lemma bfly_canon (g : lanefn) x h : length x = (2 * h)%nat ->
  bfly g x = map (lane_lo g x h) (seq 0 h) ++ map (lane_hi g x h) (seq 0 h).
Proof.
  intros Hx. unfold bfly. replace (length x / 2)%nat with h by (rewrite Hx, Nat.mul_comm, Nat.div_mul; lia).
  assert (Hlo : length (firstn h x) = h) by (rewrite firstn_length; lia).
  assert (Hhi : length (skipn h x) = length (firstn h x)) by (rewrite skipn_length; lia).
  rewrite !map_map. cbv beta.
  pose proof (map3_combine (fun i a b => fst (g i a b)) (firstn h x) (skipn h x) 0 Hhi) as E1.
  pose proof (map3_combine (fun i a b => snd (g i a b)) (firstn h x) (skipn h x) 0 Hhi) as E2.
  rewrite Hlo in E1, E2. cbv beta in E1, E2. rewrite E1, E2.
  f_equal; apply map_ext_in; intros i Hi; apply in_seq in Hi; unfold lane_lo, lane_hi;
    cbn [Nat.add]; rewrite nth_firstn' by lia; rewrite nth_skipn'; reflexivity.
Qed.

Lemma bfly_length (g : lanefn) x h : length x = (2 * h)%nat -> length (bfly g x) = (2 * h)%nat.
Proof. intros H. rewrite (bfly_canon g x h H), app_length, !map_length, !seq_length. lia. Qed.
Lemma firstn_bfly (g : lanefn) x h : length x = (2 * h)%nat -> firstn h (bfly g x) = map (lane_lo g x h) (seq 0 h).
Proof.
  intros H. rewrite (bfly_canon g x h H). rewrite firstn_app, map_length, seq_length, Nat.sub_diag.
  cbn [firstn]. rewrite app_nil_r. apply firstn_all2. rewrite map_length, seq_length. lia.
Qed.
Lemma skipn_bfly (g : lanefn) x h : length x = (2 * h)%nat -> skipn h (bfly g x) = map (lane_hi g x h) (seq 0 h).
Proof.
  intros H. rewrite (bfly_canon g x h H). rewrite skipn_app, map_length, seq_length, Nat.sub_diag.
  cbn [skipn]. rewrite skipn_all2 by (rewrite map_length, seq_length; lia). reflexivity.
Qed.
Lemma nth_bfly_lo (g : lanefn) x h i : length x = (2 * h)%nat -> (i < h)%nat -> nth i (bfly g x) 0 = lane_lo g x h i.
Proof.
  intros H Hi. rewrite (bfly_canon g x h H). rewrite app_nth1 by (rewrite map_length, seq_length; lia).
  apply nth_map_seq. exact Hi.
Qed.
Lemma nth_bfly_hi (g : lanefn) x h i : length x = (2 * h)%nat -> (i < h)%nat -> nth (h + i) (bfly g x) 0 = lane_hi g x h i.
Proof.
  intros H Hi. rewrite (bfly_canon g x h H). rewrite app_nth2 by (rewrite map_length, seq_length; lia).
  rewrite map_length, seq_length. replace (h + i - h)%nat with i by lia. apply nth_map_seq. exact Hi.
Qed.

(* ---------------- forward order: top level (largest blocks) first ---------------- *)
Fixpoint gnet (gs : list lanefn) (cnt : nat) (x : list Z) : list Z :=
  match gs with
  | [] => x
  | g :: gs' => gnet gs' (2 * cnt) (level (bfly g) cnt (pow2n (length gs)) x)
  end.
Fixpoint rnet (gs : list lanefn) (x : list Z) : list Z :=
  match gs with
  | [] => x
  | g :: gs' => let y := bfly g x in let h := pow2n (length gs') in rnet gs' (firstn h y) ++ rnet gs' (skipn h y)
  end.

Lemma rnet_length gs : forall x, length x = pow2n (length gs) -> length (rnet gs x) = pow2n (length gs).
Proof.
  induction gs as [|g gs IH]; intros x H; [exact H|].
  cbn [rnet length] in *. rewrite pow2n_S in *. rewrite app_length.
  pose proof (bfly_length g x _ H) as Hb.
  rewrite !IH; [lia| |]; [rewrite skipn_length|rewrite firstn_length]; lia.
Qed.

Lemma flat_map_concat_map {A B} (f : A -> list B) l : flat_map f l = concat (map f l).
Proof. induction l as [|a l IH]; [reflexivity|]. cbn [flat_map map concat]. rewrite IH. reflexivity. Qed.

Lemma concat_map_pairs (R : list Z -> list Z) s (B : list (list Z)) :
  concat (map R (flat_map (fun b => [firstn s b; skipn s b]) B)) = concat (map (fun b => R (firstn s b) ++ R (skipn s b)) B).
Proof.
  induction B as [|b B IH]; [reflexivity|].
  cbn [flat_map map concat app]. rewrite IH, app_assoc. reflexivity.
Qed.

Theorem gnet_rnet gs : forall cnt x, length x = (cnt * pow2n (length gs))%nat ->
  gnet gs cnt x = concat (map (rnet gs) (blocks cnt (pow2n (length gs)) x)).
Proof.
  induction gs as [|g gs IH]; intros cnt x Hx.
  - cbn [gnet rnet length]. rewrite map_id. symmetry. apply concat_blocks. exact Hx.
  - cbn [gnet length] in Hx |- *. set (s := pow2n (length gs)). rewrite pow2n_S in *. fold s in Hx |- *.
    assert (HF : forall b, length b = (2 * s)%nat -> length (bfly g b) = (2 * s)%nat) by (intros b Hb; apply bfly_length; exact Hb).
    rewrite IH by (fold s; rewrite level_length by assumption; lia). fold s.
    rewrite blocks_pairs by (rewrite level_length by assumption; lia).
    rewrite level_blocks by assumption.
    rewrite concat_map_pairs. rewrite map_map. reflexivity.
Qed.

(* ---------------- inverse order: bottom level (blocks of size 2^c, c = 1 in the code) first ---------------- *)
(* execution order, k blocks at the top *)
Fixpoint enet (gs : list lanefn) (c k : nat) (x : list Z) : list Z :=
  match gs with
  | [] => x
  | g :: gs' => enet gs' (S c) k (level (bfly g) (k * pow2n (length gs')) (pow2n c) x)
  end.
(* the same levels listed top first *)
Fixpoint ignet (gs : list lanefn) (k : nat) (x : list Z) : list Z :=
  match gs with
  | [] => x
  | g :: gs' => level (bfly g) k (pow2n (length gs)) (ignet gs' (2 * k) x)
  end.
Fixpoint irnet (gs : list lanefn) (x : list Z) : list Z :=
  match gs with
  | [] => x
  | g :: gs' => let h := pow2n (length gs') in bfly g (irnet gs' (firstn h x) ++ irnet gs' (skipn h x))
  end.

Lemma enet_snoc gs g : forall c k x,
  enet (gs ++ [g]) c k x = level (bfly g) k (pow2n (c + length gs)) (enet gs c (2 * k) x).
Proof.
  induction gs as [|g1 gs IH]; intros c k x.
  - cbn [app enet length]. rewrite Nat.add_0_r. unfold pow2n at 1. cbn [Nat.pow]. rewrite Nat.mul_1_r. reflexivity.
  - cbn [app enet length]. rewrite IH. rewrite app_length. cbn [length].
    replace (S c + length gs)%nat with (c + S (length gs))%nat by lia.
    replace (k * pow2n (length gs + 1))%nat with (2 * k * pow2n (length gs))%nat
      by (rewrite Nat.add_1_r, pow2n_S; lia).
    reflexivity.
Qed.
Lemma enet_ignet gs : forall k x, enet (rev gs) 1 k x = ignet gs k x.
Proof.
  induction gs as [|g gs IH]; intros k x; [reflexivity|].
  cbn [rev]. rewrite enet_snoc, IH, rev_length. reflexivity.
Qed.

Lemma irnet_length gs : forall x, length x = pow2n (length gs) -> length (irnet gs x) = pow2n (length gs).
Proof.
  induction gs as [|g gs IH]; intros x H; [exact H|].
  cbn [irnet length] in *. rewrite pow2n_S in *. apply bfly_length. rewrite app_length.
  rewrite !IH; [lia| |]; [rewrite skipn_length|rewrite firstn_length]; lia.
Qed.

Theorem ignet_irnet gs : forall k x, length x = (k * pow2n (length gs))%nat ->
  ignet gs k x = concat (map (irnet gs) (blocks k (pow2n (length gs)) x)).
Proof.
  induction gs as [|g gs IH]; intros k x Hx.
  - cbn [ignet irnet length]. rewrite map_id. symmetry. apply concat_blocks. exact Hx.
  - cbn [ignet length] in Hx |- *. set (s := pow2n (length gs)). rewrite pow2n_S in *. fold s in Hx |- *.
    rewrite IH by (fold s; lia). fold s.
    rewrite blocks_pairs by lia. rewrite concat_map_pairs.
    unfold level.
    assert (Hs : Forall (fun b => length b = (2 * s)%nat)
                   (map (fun b => irnet gs (firstn s b) ++ irnet gs (skipn s b)) (blocks k (2 * s) x))).
    { rewrite Forall_map. eapply Forall_impl; [|apply blocks_sizes; exact Hx]. intros b Hb. cbv beta in *.
      rewrite app_length. unfold s. rewrite !irnet_length; fold s; [lia| |]; [rewrite skipn_length|rewrite firstn_length]; lia. }
    rewrite <- (blocks_length k (2 * s) x) at 1.
    rewrite <- (map_length (fun b => irnet gs (firstn s b) ++ irnet gs (skipn s b))).
    rewrite blocks_concat by exact Hs.
    rewrite map_map. reflexivity.
Qed.

(* one top block *)
Corollary gnet_rnet_1 gs x : length x = pow2n (length gs) -> gnet gs 1 x = rnet gs x.
Proof.
  intros H. rewrite gnet_rnet by lia. rewrite blocks_one by exact H. cbn [map concat]. apply app_nil_r.
Qed.
Corollary enet_irnet_1 gs x : length x = pow2n (length gs) -> enet (rev gs) 1 1 x = irnet gs x.
Proof.
  intros H. rewrite enet_ignet, ignet_irnet by lia. rewrite blocks_one by exact H. cbn [map concat]. apply app_nil_r.
Qed.

(* ---------------- congruence of networks from congruence of lanes ---------------- *)
(* lanes i < h of two lane functions agree modulo q on congruent inputs *)
Definition lane_cong (q : Z) (h : nat) (g g' : lanefn) : Prop :=
  forall i a b a' b', (i < h)%nat -> cong q a a' -> cong q b b' ->
    cong q (fst (g i a b)) (fst (g' i a' b')) /\ cong q (snd (g i a b)) (snd (g' i a' b')).
(* lists of lane functions, top level first: the head works on blocks of size 2 * 2^(length tail) *)
Fixpoint lanes_cong (q : Z) (gs gs' : list lanefn) : Prop :=
  match gs, gs' with
  | [], [] => True
  | g :: r, g' :: r' => lane_cong q (pow2n (length r)) g g' /\ lanes_cong q r r'
  | _, _ => False
  end.
Lemma lanes_cong_length q gs : forall gs', lanes_cong q gs gs' -> length gs = length gs'.
Proof.
  induction gs as [|g gs IH]; intros [|g' gs'] H; cbn [lanes_cong] in H; try contradiction; [reflexivity|].
  cbn [length]. f_equal. apply IH. tauto.
Qed.

Lemma bfly_lcong q g g' x y h : lane_cong q h g g' -> length x = (2 * h)%nat -> lcong q x y ->
  lcong q (bfly g x) (bfly g' y).
Proof.
  intros Hg Hx [Hl Hxy]. assert (Hy : length y = (2 * h)%nat) by lia.
  split; [rewrite (bfly_length g x h Hx), (bfly_length g' y h Hy); reflexivity|].
  intros i. destruct (Nat.ltb_spec i h) as [Hi|Hi]; [|destruct (Nat.ltb_spec i (2 * h)) as [Hi2|Hi2]].
  - rewrite (nth_bfly_lo g x h i Hx Hi), (nth_bfly_lo g' y h i Hy Hi). unfold lane_lo. apply Hg; [exact Hi|apply Hxy|apply Hxy].
  - replace i with (h + (i - h))%nat by lia.
    rewrite (nth_bfly_hi g x h _ Hx), (nth_bfly_hi g' y h _ Hy) by lia. unfold lane_hi. apply Hg; [lia|apply Hxy|apply Hxy].
  - rewrite !nth_overflow; [reflexivity| |]; [rewrite (bfly_length g' y h Hy)|rewrite (bfly_length g x h Hx)]; lia.
Qed.

Lemma level_lcong q F F' cnt sz : (forall b b', length b = sz -> lcong q b b' -> lcong q (F b) (F' b')) ->
  forall x y, length x = (cnt * sz)%nat -> lcong q x y -> lcong q (level F cnt sz x) (level F' cnt sz y).
Proof.
  intros HF. unfold level. induction cnt as [|c IH]; intros x y Hx Hxy; [apply lcong_refl|].
  cbn [blocks map concat]. apply lcong_app.
  - apply HF; [rewrite firstn_length; lia|apply lcong_firstn; exact Hxy].
  - apply IH; [rewrite skipn_length; lia|apply lcong_skipn; exact Hxy].
Qed.

Lemma gnet_lcong q gs : forall gs', lanes_cong q gs gs' ->
  forall cnt x y, length x = (cnt * pow2n (length gs))%nat -> lcong q x y -> lcong q (gnet gs cnt x) (gnet gs' cnt y).
Proof.
  induction gs as [|g gs IH]; intros [|g' gs'] H cnt x y Hx Hxy; cbn [lanes_cong] in H; try contradiction; [exact Hxy|].
  destruct H as [Hg Hgs]. cbn [gnet length]. rewrite <- (lanes_cong_length q gs gs' Hgs). cbn [length] in Hx. rewrite pow2n_S in *.
  assert (HF : forall b, length b = (2 * pow2n (length gs))%nat -> length (bfly g b) = (2 * pow2n (length gs))%nat)
    by (intros b Hb; apply bfly_length; exact Hb).
  apply IH; [exact Hgs|rewrite level_length by assumption; lia|].
  apply level_lcong; [|exact Hx|exact Hxy].
  intros b b' Hb Hbb. eapply bfly_lcong; eauto.
Qed.

Lemma ignet_length gs : forall k x, length x = (k * pow2n (length gs))%nat -> length (ignet gs k x) = (k * pow2n (length gs))%nat.
Proof.
  induction gs as [|g gs IH]; intros k x Hx; [exact Hx|].
  cbn [ignet length] in *. rewrite pow2n_S in *. apply level_length.
  - rewrite IH; lia.
  - intros b Hb. apply bfly_length. exact Hb.
Qed.
Lemma ignet_lcong q gs : forall gs', lanes_cong q gs gs' ->
  forall k x y, length x = (k * pow2n (length gs))%nat -> lcong q x y -> lcong q (ignet gs k x) (ignet gs' k y).
Proof.
  induction gs as [|g gs IH]; intros [|g' gs'] H k x y Hx Hxy; cbn [lanes_cong] in H; try contradiction; [exact Hxy|].
  destruct H as [Hg Hgs]. cbn [ignet length]. rewrite <- (lanes_cong_length q gs gs' Hgs). cbn [length] in Hx. rewrite pow2n_S in *.
  apply level_lcong.
  - intros b b' Hb Hbb. eapply bfly_lcong; eauto.
  - rewrite ignet_length; lia.
  - apply IH; [exact Hgs|lia|exact Hxy].
Qed.
