(* C07 butterfly networks, refinement: the exact (unwrapped) value of the lazy network is congruent mod q, entry by
   entry, to the ideal network over Z, whatever the inputs; the ideal networks compute the negacyclic evaluation
   (forward) and its inverse formula (inverse). *)
From PV Require Import Base.MachineInt Model.Limbs Model.DftAbs Model.C07Ntt120 Model.C07NttNet Proofs.C07Dft Proofs.C07Ring
  Proofs.C07NetBase Proofs.C07NetStruct Proofs.C07NetAbs Proofs.C07NetLazy.
From Coq Require Import Morphisms Setoid.
Open Scope Z_scope.

(* ---------------- the model's level loops are the generic networks ---------------- *)
Definition fwd_lanes (W : Z -> Z) (rm : redmeta) (metas : list stepmeta) (tws : list (list Z)) : list lanefn :=
  map (fun p => fwd_lane W rm (fst p) (snd p)) (combine metas tws).
Definition inv_lanes (W : Z -> Z) (rm : redmeta) (metas : list stepmeta) (tws : list (list Z)) : list lanefn :=
  map (fun p => inv_lane W rm (fst p) (snd p)) (combine metas tws).

Lemma fwd_levels_gnet W rm : forall c metas tws cnt x, length metas = c -> length tws = c ->
  fwd_levels W rm c cnt metas tws x = gnet (fwd_lanes W rm metas tws) cnt x.
Proof.
  induction c as [|c IH]; intros [|sm ms] [|tw ts] cnt x Hm Ht; cbn [length] in *; try discriminate; [reflexivity|].
  cbn [fwd_levels fwd_lanes combine map gnet length fst snd].
  unfold fwd_lanes in IH. rewrite map_length, combine_length.
  replace (Nat.min (length ms) (length ts)) with c by lia.
  apply IH; lia.
Qed.
Lemma inv_levels_enet W rm : forall lv c metas tws x, length metas = lv -> length tws = lv ->
  inv_levels W rm lv c metas tws x = enet (inv_lanes W rm metas tws) c 1 x.
Proof.
  induction lv as [|lv IH]; intros c [|sm ms] [|tw ts] x Hm Ht; cbn [length] in *; try discriminate; [reflexivity|].
  cbn [inv_levels inv_lanes combine map enet length fst snd].
  unfold inv_lanes in IH. rewrite map_length, combine_length.
  replace (Nat.min (length ms) (length ts)) with lv by lia. rewrite Nat.mul_1_l.
  apply IH; lia.
Qed.

(* ---------------- lanes ---------------- *)
Section Q.
Variable q : Z.
Local Notation "a == b" := (cong q a b) (at level 70, no associativity).

Lemma fwd_lane_cong rm sm tw w h : rm_wf q rm -> sm_wf q sm ->
  (forall i', (S i' < h)%nat -> word_val q (sm_hb sm) (nth i' tw 0) (zp w (S i'))) ->
  lane_cong q h (fwd_lane idz rm sm tw) (laneF w).
Proof.
  intros Hrm [Hhb [Hm [_ Hq2]]] Htw i a b a' b' Hi Ha Hb. unfold fwd_lane, laneF. cbn [fst snd].
  pose proof (pre_cong q a rm sm Hrm) as Pa. pose proof (pre_cong q b rm sm Hrm) as Pb.
  split.
  - unidz. rewrite Pa, Pb, Ha, Hb. reflexivity.
  - destruct i as [|i'].
    + unidz. rewrite Pa, Pb, Ha, Hb, Hq2. cbn [zp]. ring_simplify. reflexivity.
    + rewrite (spm_cong q _ _ _ _ _ Hhb Hm (Htw i' Hi)). unidz. rewrite Pa, Pb, Ha, Hb, Hq2. ring_simplify. reflexivity.
Qed.
Lemma inv_lane_cong rm sm tw w h : rm_wf q rm -> sm_wf q sm ->
  (forall i', (S i' < h)%nat -> word_val q (sm_hb sm) (nth i' tw 0) (zp w (S i'))) ->
  lane_cong q h (inv_lane idz rm sm tw) (laneI w).
Proof.
  intros Hrm [Hhb [Hm [_ Hq2]]] Htw i a b a' b' Hi Ha Hb. unfold inv_lane, laneI. cbn [fst snd].
  pose proof (pre_cong q a rm sm Hrm) as Pa. pose proof (pre_cong q b rm sm Hrm) as Pb.
  destruct i as [|i'].
  - unidz. rewrite Pa, Pb, Ha, Hb, Hq2. cbn [zp]. split; ring_simplify; reflexivity.
  - pose proof (spm_cong q (pre idz rm sm b) _ _ _ _ Hhb Hm (Htw i' Hi)) as Ps.
    unidz. rewrite Ps, Pa, Pb, Ha, Hb, Hq2. split; ring_simplify; reflexivity.
Qed.

(* lists of lanes from level-indexed facts *)
Lemma lanes_cong_nth (d d' : lanefn) gs : forall gs', length gs = length gs' ->
  (forall l, (l < length gs)%nat -> lane_cong q (pow2n (length gs - 1 - l)) (nth l gs d) (nth l gs' d')) ->
  lanes_cong q gs gs'.
Proof.
  induction gs as [|g gs IH]; intros [|g' gs'] Hl H; cbn [length] in *; try discriminate; [exact I|].
  cbn [lanes_cong]. split.
  - specialize (H 0%nat ltac:(lia)). cbn [nth] in H. replace (S (length gs) - 1 - 0)%nat with (length gs) in H by lia. exact H.
  - apply IH; [lia|]. intros l Hlt. specialize (H (S l) ltac:(lia)). cbn [nth] in H.
    replace (S (length gs) - 1 - S l)%nat with (length gs - 1 - l)%nat in H by lia. exact H.
Qed.

Lemma dif_lanes_nth d m : forall w l, (l < m)%nat -> nth l (dif_lanes m w) d = laneF (zp w (pow2n l)).
Proof.
  induction m as [|m IH]; intros w l Hl; [lia|].
  cbn [dif_lanes]. destruct l as [|l]; cbn [nth].
  - change (pow2n 0) with 1%nat. rewrite zp_1_r. reflexivity.
  - rewrite IH by lia. rewrite zp_sq, <- pow2n_S. reflexivity.
Qed.
Lemma dit_lanes_nth d m : forall w l, (l < m)%nat -> nth l (dit_lanes m w) d = laneI (zp w (pow2n l)).
Proof.
  induction m as [|m IH]; intros w l Hl; [lia|].
  cbn [dit_lanes]. destruct l as [|l]; cbn [nth].
  - change (pow2n 0) with 1%nat. rewrite zp_1_r. reflexivity.
  - rewrite IH by lia. rewrite zp_sq, <- pow2n_S. reflexivity.
Qed.

(* ---------------- the ideal transforms ---------------- *)
Definition nttA (psi : Z) (m : nat) (x : list Z) : list Z :=
  rnet (dif_lanes m (psi * psi)) (map (fun j => nth j x 0 * zp psi j) (seq 0 (pow2n m))).
Definition inttA (phi ninv : Z) (m : nat) (y : list Z) : list Z :=
  let z := irnet (dit_lanes m (phi * phi)) y in map (fun j => nth j z 0 * (ninv * zp phi j)) (seq 0 (pow2n m)).

Lemma half_root psi m : zp psi (pow2n m) == -1 -> forall m', m = S m' -> zp (psi * psi) (pow2n m') == -1.
Proof. intros H m' ->. rewrite zp_sq, <- pow2n_S. exact H. Qed.

Theorem nttA_spec psi m x p : zp psi (pow2n m) == -1 -> (p < pow2n m)%nat ->
  nth p (nttA psi m x) 0 == peval x (zp psi (2 * brev m p + 1)) (pow2n m).
Proof.
  intros Hpsi Hp. unfold nttA.
  rewrite (dif_spec q m (psi * psi) _ ltac:(rewrite map_length, seq_length; reflexivity) (half_root psi m Hpsi) p Hp).
  unfold peval. apply zsum_cong. intros j Hj. rewrite nth_map_seq by exact Hj.
  rewrite zp_sq, <- zp_mul. rewrite <- Z.mul_assoc, <- zp_add.
  replace (j + 2 * (brev m p * j))%nat with ((2 * brev m p + 1) * j)%nat by lia. reflexivity.
Qed.
Lemma nttA_length psi m x : length (nttA psi m x) = pow2n m.
Proof.
  unfold nttA. pose proof (rnet_length (dif_lanes m (psi * psi))) as R. rewrite dif_lanes_length in R.
  apply R. rewrite map_length, seq_length. reflexivity.
Qed.

Theorem inttA_spec phi ninv m y j : length y = pow2n m -> zp phi (pow2n m) == -1 -> (j < pow2n m)%nat ->
  nth j (inttA phi ninv m y) 0 == ninv * zsum (fun p => nth p y 0 * zp phi ((2 * brev m p + 1) * j)) (pow2n m).
Proof.
  intros Hy Hphi Hj. unfold inttA. cbv zeta. rewrite nth_map_seq by exact Hj.
  rewrite (dit_spec q m (phi * phi) y Hy (half_root phi m Hphi) j Hj).
  rewrite Z.mul_comm, <- Z.mul_assoc, <- zsum_mul_l. apply (cong_mul q); [reflexivity|]. apply zsum_cong. intros p Hp.
  rewrite zp_sq. replace ((2 * brev m p + 1) * j)%nat with (j + 2 * (brev m p * j))%nat by lia. rewrite zp_add. ring_simplify. reflexivity.
Qed.
Lemma inttA_length phi ninv m y : length (inttA phi ninv m y) = pow2n m.
Proof. unfold inttA. cbv zeta. rewrite map_length, seq_length. reflexivity. Qed.

(* the inverse formula only depends on the residues of its input *)
Lemma inttA_cong phi ninv m y y' j : length y = pow2n m -> lcong q y y' -> zp phi (pow2n m) == -1 -> (j < pow2n m)%nat ->
  nth j (inttA phi ninv m y) 0 == nth j (inttA phi ninv m y') 0.
Proof.
  intros Hy [Hl Hc] Hphi Hj. rewrite (inttA_spec phi ninv m y j Hy Hphi Hj), (inttA_spec phi ninv m y' j ltac:(lia) Hphi Hj).
  apply (cong_mul q); [reflexivity|]. apply zsum_cong. intros p _. rewrite (Hc p). reflexivity.
Qed.

(* intt(ntt(x)) = x and the convolution theorem, for the ideal transforms *)
Theorem inttA_nttA psi phi ninv m x j : psi * phi == 1 -> zp psi (pow2n m) == -1 -> ninv * Z.of_nat (pow2n m) == 1 ->
  (j < pow2n m)%nat -> forall y, lcong q y (nttA psi m x) -> nth j (inttA phi ninv m y) 0 == nth j x 0.
Proof.
  intros Hinv Hpsi Hn Hj y [Hl Hy].
  assert (Hphi : zp phi (pow2n m) == -1).
  { pose proof (inv_pow q psi phi (pow2n m) Hinv) as H. rewrite Hpsi in H.
    replace (zp phi (pow2n m)) with (-1 * (-1 * zp phi (pow2n m))) by ring. rewrite H. reflexivity. }
  rewrite nttA_length in Hl.
  rewrite (inttA_spec phi ninv m y j Hl Hphi Hj).
  rewrite <- (inversion q m psi phi ninv x Hinv Hpsi Hn j Hj).
  apply (cong_mul q); [reflexivity|]. apply zsum_cong. intros p Hp.
  rewrite (Hy p), (nttA_spec psi m x p Hpsi Hp). reflexivity.
Qed.

Theorem conv_A psi phi ninv m a b c j : psi * phi == 1 -> zp psi (pow2n m) == -1 -> ninv * Z.of_nat (pow2n m) == 1 ->
  length a = pow2n m -> length b = pow2n m -> length c = pow2n m ->
  (forall p, (p < pow2n m)%nat -> nth p c 0 == nth p (nttA psi m a) 0 * nth p (nttA psi m b) 0) ->
  (j < pow2n m)%nat -> nth j (inttA phi ninv m c) 0 == nth j (pmul a b) 0.
Proof.
  intros Hinv Hpsi Hn Ha Hb Hc Hprod Hj.
  assert (Hphi : zp phi (pow2n m) == -1).
  { pose proof (inv_pow q psi phi (pow2n m) Hinv) as H. rewrite Hpsi in H.
    replace (zp phi (pow2n m)) with (-1 * (-1 * zp phi (pow2n m))) by ring. rewrite H. reflexivity. }
  rewrite (inttA_spec phi ninv m c j Hc Hphi Hj).
  rewrite <- (inversion q m psi phi ninv (pmul a b) Hinv Hpsi Hn j Hj).
  apply (cong_mul q); [reflexivity|]. apply zsum_cong. intros p Hp.
  rewrite (Hprod p Hp), (nttA_spec psi m a p Hpsi Hp), (nttA_spec psi m b p Hpsi Hp).
  assert (Hz : zp (zp psi (2 * brev m p + 1)) (length a) == -1).
  { rewrite Ha, <- zp_mul, Nat.mul_comm, zp_mul, Hpsi, zp_m1_odd. reflexivity. }
  pose proof (peval_pmul q a b _ ltac:(lia) Hz) as E. rewrite Ha in E. rewrite E. reflexivity.
Qed.

(* ---------------- the lazy networks against the ideal transforms ---------------- *)
Lemma ewise_lcong rm sm tw z z' (v : nat -> Z) n : rm_wf q rm -> sm_wf q sm -> length tw = n -> length z = n ->
  lcong q z z' -> (forall j, (j < n)%nat -> word_val q (sm_hb sm) (nth j tw 0) (v j)) ->
  lcong q (ewise idz rm sm tw z) (map (fun j => nth j z' 0 * v j) (seq 0 n)).
Proof.
  intros Hrm [Hhb [Hm _]] Htw Hz [Hl Hc] Hv. split; [rewrite ewise_length, map_length, seq_length by lia; exact Hz|].
  intros j. destruct (Nat.ltb_spec j n) as [Hj|Hj].
  - rewrite nth_ewise by lia. rewrite nth_map_seq by exact Hj.
    rewrite (spm_cong q _ _ _ _ _ Hhb Hm (Hv j Hj)). rewrite (pre_cong q _ rm sm Hrm), (Hc j). reflexivity.
  - rewrite !nth_overflow; [reflexivity| |]; [rewrite map_length, seq_length|rewrite ewise_length]; lia.
Qed.

Lemma nth_lanes (f : stepmeta -> list Z -> lanefn) dsm metas tws l : length metas = length tws ->
  nth l (map (fun p => f (fst p) (snd p)) (combine metas tws)) (f dsm []) = f (nth l metas dsm) (nth l tws []).
Proof.
  intros Hl. change (f dsm []) with ((fun p : stepmeta * list Z => f (fst p) (snd p)) (dsm, [])).
  rewrite map_nth. rewrite combine_nth by exact Hl. reflexivity.
Qed.

Definition dsm : stepmeta := {| sm_q2bs := 0; sm_bs := 0; sm_hb := 0; sm_mask := 0; sm_red := false |}.

(* what the proofs need from a forward table: psi is the 2n-th root *)
Definition fwd_vals (T : table) (m : nat) (psi : Z) : Prop :=
  rm_wf q (tb_red T) /\ sm_wf q (tb_m0 T) /\ length (tb_tw0 T) = pow2n m /\
  (forall i, (i < pow2n m)%nat -> word_val q (sm_hb (tb_m0 T)) (nth i (tb_tw0 T) 0) (zp psi i)) /\
  length (tb_metas T) = m /\ length (tb_tws T) = m /\
  (forall l, (l < m)%nat -> sm_wf q (nth l (tb_metas T) dsm) /\
     forall i', (S i' < pow2n (m - 1 - l))%nat ->
       word_val q (sm_hb (nth l (tb_metas T) dsm)) (nth i' (nth l (tb_tws T) []) 0) (zp (zp (psi * psi) (pow2n l)) (S i'))).

Theorem ntt_refine T m psi x : fwd_vals T (S m) psi -> length x = pow2n (S m) ->
  lcong q (ntt_with idz T (S m) x) (nttA psi (S m) x).
Proof.
  intros [Hrm [Hsm [Hl0 [Hv0 [Hlm [Hlt Hlv]]]]]] Hx. unfold ntt_with, nttA.
  rewrite fwd_levels_gnet by assumption.
  rewrite <- (gnet_rnet_1 (dif_lanes (S m) (psi * psi))) by (rewrite dif_lanes_length, map_length, seq_length; reflexivity).
  assert (Hlen : length (fwd_lanes idz (tb_red T) (tb_metas T) (tb_tws T)) = S m).
  { unfold fwd_lanes. rewrite map_length, combine_length. lia. }
  apply gnet_lcong.
  - apply (lanes_cong_nth (fwd_lane idz (tb_red T) dsm []) (laneF 0)); [rewrite Hlen, dif_lanes_length; reflexivity|].
    rewrite Hlen. intros l Hl. unfold fwd_lanes. rewrite nth_lanes by lia. rewrite dif_lanes_nth by exact Hl.
    destruct (Hlv l Hl) as [Hwf Hw]. apply fwd_lane_cong; assumption.
  - rewrite Hlen, ewise_length by lia. lia.
  - apply ewise_lcong; try assumption. apply lcong_refl.
Qed.

(* what the proofs need from an inverse table: phi = 1/psi, ninv = 1/n; levels in execution order (nn = 2 first) *)
Definition inv_vals (T : table) (m : nat) (phi ninv : Z) : Prop :=
  rm_wf q (tb_red T) /\ sm_wf q (tb_m0 T) /\ length (tb_tw0 T) = pow2n m /\
  (forall j, (j < pow2n m)%nat -> word_val q (sm_hb (tb_m0 T)) (nth j (tb_tw0 T) 0) (ninv * zp phi j)) /\
  length (tb_metas T) = m /\ length (tb_tws T) = m /\
  (forall l, (l < m)%nat -> sm_wf q (nth l (tb_metas T) dsm) /\
     forall i', (S i' < pow2n l)%nat ->
       word_val q (sm_hb (nth l (tb_metas T) dsm)) (nth i' (nth l (tb_tws T) []) 0)
                (zp (zp (phi * phi) (pow2n (m - 1 - l))) (S i'))).

Theorem intt_refine T m phi ninv y : inv_vals T (S m) phi ninv -> length y = pow2n (S m) ->
  lcong q (intt_with idz T (S m) y) (inttA phi ninv (S m) y).
Proof.
  intros [Hrm [Hsm [Hl0 [Hv0 [Hlm [Hlt Hlv]]]]]] Hy. unfold intt_with, inttA. cbv zeta.
  rewrite inv_levels_enet by assumption.
  set (L := inv_lanes idz (tb_red T) (tb_metas T) (tb_tws T)).
  assert (Hlen : length L = S m) by (unfold L, inv_lanes; rewrite map_length, combine_length; lia).
  rewrite <- (rev_involutive L), enet_ignet.
  assert (HLy : length y = (1 * pow2n (length (rev L)))%nat) by (rewrite rev_length, Hlen; lia).
  assert (Hz : lcong q (ignet (rev L) 1 y) (irnet (dit_lanes (S m) (phi * phi)) y)).
  { rewrite <- (enet_irnet_1 (dit_lanes (S m) (phi * phi)) y) by (rewrite dit_lanes_length; exact Hy).
    rewrite enet_ignet. apply ignet_lcong; [|exact HLy|apply lcong_refl].
    apply (lanes_cong_nth (inv_lane idz (tb_red T) dsm []) (laneI 0)); [rewrite rev_length, Hlen, dit_lanes_length; reflexivity|].
    rewrite rev_length, Hlen. intros t Ht. rewrite rev_nth by lia. rewrite Hlen.
    unfold L, inv_lanes. rewrite nth_lanes by lia. rewrite dit_lanes_nth by exact Ht.
    destruct (Hlv (S m - S t)%nat ltac:(lia)) as [Hwf Hw].
    apply inv_lane_cong; [assumption|assumption|].
    intros i' Hi'. replace (S m - 1 - (S m - S t))%nat with t in Hw by lia. apply Hw.
    replace (S m - S t)%nat with (S m - 1 - t)%nat by lia. exact Hi'. }
  apply ewise_lcong; try assumption.
  destruct Hz as [Hzl _]. rewrite Hzl.
  pose proof (irnet_length (dit_lanes (S m) (phi * phi)) y) as R. rewrite dit_lanes_length in R. apply R. exact Hy.
Qed.
End Q.
