(* C12 - the statements pinned in Props/C12.v, in their final form (ring degree a power of two). *)
From PV Require Import Base.MachineInt Model.C12Scratch Gen.C12TmpBytes_gen Model.C12Trees
  Proofs.C12Arena Proofs.C12Hal Proofs.C12Core Proofs.C12KeySwitch Proofs.C12More Proofs.C12Conv
  Proofs.C12Ggsw Proofs.C12Tensor Proofs.C12KeyEnc Proofs.C12Helpers Proofs.C12Compressed Proofs.C12Cmux Proofs.C12Bdd.
Open Scope Z_scope.

Lemma pow2_nonneg (n : Z) : pow2 n -> 0 <= n.
Proof. intros H. pose proof (pow2_pos n H). lia. Qed.

Lemma main_vmp_apply_dft (fam n rs a rows ci co size : Z) :
  is_fam fam -> pow2 n -> 8 <= n -> 0 <= a -> 0 <= rows -> 0 <= ci ->
  run_takes (t_vmp_apply_dft fam n a rows ci) (0, halimpl_vmp_apply_dft_tmp_bytes fam n rs a rows ci co size) <> None.
Proof. intros Hf Hp H8. apply suffices_vmp_apply_dft; auto using pow2_nonneg, pow2_ge8. Qed.

Lemma main_glwe_encrypt_sk (fam n : Z) (glwe : infos) :
  is_fam fam -> pow2 n -> 8 <= n -> 0 <= i_size glwe ->
  run_takes (tree_glwe_encrypt_sk fam n glwe) (0, glwe_encrypt_sk_tmp_bytes fam n glwe) <> None.
Proof. intros Hf Hp H8. apply suffices_glwe_encrypt_sk; auto using pow2_nonneg, pow2_ge8. Qed.

Lemma main_glwe_decrypt (fam n : Z) (glwe : infos) :
  is_fam fam -> pow2 n -> 8 <= n -> 0 <= i_size glwe -> 0 <= i_rank glwe ->
  run_takes (tree_glwe_decrypt fam n glwe) (0, glwe_decrypt_tmp_bytes fam n glwe) <> None.
Proof. intros Hf Hp H8. apply suffices_glwe_decrypt; auto using pow2_nonneg, pow2_ge8. Qed.

Lemma main_glwe_encrypt_pk (fam n : Z) (res : infos) :
  is_fam fam -> pow2 n -> 8 <= n -> 0 <= i_size res -> 0 <= i_rank res ->
  run_takes (tree_glwe_encrypt_pk fam n res (i_size res)) (0, glwe_encrypt_pk_tmp_bytes fam n res) <> None.
Proof. intros Hf Hp H8. apply suffices_glwe_encrypt_pk; auto using pow2_nonneg, pow2_ge8. Qed.

Lemma main_glwe_keyswitch (fam n : Z) (res a key : infos) :
  is_fam fam -> pow2 n -> 8 <= n -> wf_infos res -> wf_infos a -> wf_infos key -> i_n a = n -> i_rank a = i_rank_in key ->
  run_takes (tree_glwe_keyswitch fam n res a key) (0, glwe_keyswitch_tmp_bytes fam n res a key) <> None.
Proof. intros Hf Hp H8. apply suffices_glwe_keyswitch; auto using pow2_nonneg, pow2_ge8. Qed.

Lemma main_glwe_automorphism (fam n : Z) (res a key : infos) :
  is_fam fam -> pow2 n -> 8 <= n -> wf_infos res -> wf_infos a -> wf_infos key -> i_n a = n -> i_rank a = i_rank_in key ->
  run_takes (tree_glwe_automorphism fam n res a key) (0, glwe_automorphism_tmp_bytes fam n res a key) <> None.
Proof. intros Hf Hp H8. apply suffices_glwe_automorphism; auto using pow2_nonneg, pow2_ge8. Qed.

Lemma main_glwe_external_product (fam n : Z) (res a ggsw : infos) :
  is_fam fam -> pow2 n -> 8 <= n -> wf_infos res -> wf_infos a -> wf_infos ggsw -> i_n a = n ->
  run_takes (tree_glwe_external_product fam n res a ggsw) (0, glwe_external_product_tmp_bytes fam n res a ggsw) <> None.
Proof. intros Hf Hp H8. apply suffices_glwe_external_product; auto using pow2_nonneg, pow2_ge8. Qed.

Lemma main_gglwe_keyswitch (fam n : Z) (res a key : infos) :
  is_fam fam -> pow2 n -> 8 <= n -> wf_infos res -> wf_infos a -> wf_infos key -> i_n a = n -> i_rank a = i_rank_in key ->
  run_takes (tree_gglwe_keyswitch fam n res a key) (0, gglwe_keyswitch_tmp_bytes fam n res a key) <> None.
Proof. intros Hf Hp H8. apply suffices_gglwe_keyswitch; auto using pow2_nonneg, pow2_ge8. Qed.
Lemma main_gglwe_external_product (fam n : Z) (res a ggsw : infos) :
  is_fam fam -> pow2 n -> 8 <= n -> wf_infos res -> wf_infos a -> wf_infos ggsw -> i_n a = n ->
  run_takes (tree_gglwe_external_product fam n res a ggsw) (0, gglwe_external_product_tmp_bytes fam n res a ggsw) <> None.
Proof. intros Hf Hp H8. apply suffices_gglwe_external_product; auto using pow2_nonneg, pow2_ge8. Qed.
Lemma main_ggsw_external_product (fam n : Z) (res a ggsw : infos) :
  is_fam fam -> pow2 n -> 8 <= n -> wf_infos res -> wf_infos a -> wf_infos ggsw -> i_n a = n ->
  run_takes (tree_ggsw_external_product fam n res a ggsw) (0, ggsw_external_product_tmp_bytes fam n res a ggsw) <> None.
Proof. intros Hf Hp H8. apply suffices_ggsw_external_product; auto using pow2_nonneg, pow2_ge8. Qed.

Lemma main_glwe_automorphism_add (fam n : Z) (res a key : infos) :
  is_fam fam -> pow2 n -> 8 <= n -> wf_infos res -> wf_infos a -> wf_infos key -> i_n a = n -> i_rank a = i_rank_in key ->
  run_takes (tree_glwe_automorphism_add fam n res a key) (0, glwe_automorphism_tmp_bytes fam n res a key) <> None.
Proof. intros Hf Hp H8. apply suffices_glwe_automorphism_add; auto using pow2_nonneg, pow2_ge8. Qed.

Lemma main_glwe_trace (fam n : Z) (res a key : infos) (steps : Z) :
  is_fam fam -> pow2 n -> 8 <= n -> wf_infos res -> wf_infos a -> wf_infos key -> i_n res = n -> i_rank res = i_rank_in key ->
  run_takes (tree_glwe_trace fam n res a key steps) (0, glwe_trace_tmp_bytes fam n res a key) <> None.
Proof. intros Hf Hp H8. apply suffices_glwe_trace; auto using pow2_nonneg, pow2_ge8. Qed.

Lemma main_glwe_trace_assign (fam n : Z) (res key : infos) (steps : Z) :
  is_fam fam -> pow2 n -> 8 <= n -> wf_infos res -> wf_infos key -> i_n res = n -> i_rank res = i_rank_in key ->
  run_takes (tree_glwe_trace_assign fam n res key steps) (0, glwe_trace_tmp_bytes fam n res res key) <> None.
Proof. intros Hf Hp H8. apply suffices_glwe_trace_assign; auto using pow2_nonneg, pow2_ge8. Qed.

Lemma main_glwe_mul_const (fam n : Z) (res a : infos) (b_len cnv_offset : Z) :
  is_fam fam -> pow2 n -> 8 <= n -> wf_infos res -> wf_infos a -> 1 <= i_size a -> 1 <= b_len -> 0 <= cnv_offset ->
  (if cnv_offset <? i_base2k a then 0 else Z.max 0 (cnv_offset / i_base2k a - 1)) <= i_size a + b_len ->
  run_takes (tree_glwe_mul_const fam n res a b_len cnv_offset) (0, glwe_mul_const_tmp_bytes fam n res a b_len) <> None.
Proof. intros Hf Hp H8. apply suffices_glwe_mul_const; auto using pow2_nonneg, pow2_ge8. Qed.

Lemma main_lwe_from_glwe (fam n : Z) (lwe a key : infos) :
  is_fam fam -> pow2 n -> 8 <= n -> wf_infos lwe -> wf_infos a -> wf_infos key -> i_n a = n -> i_rank a = i_rank_in key ->
  run_takes (tree_lwe_from_glwe fam n lwe a key) (0, lwe_from_glwe_tmp_bytes fam n lwe a key) <> None.
Proof. intros Hf Hp H8. apply suffices_lwe_from_glwe; auto using pow2_nonneg, pow2_ge8. Qed.
Lemma main_lwe_keyswitch (fam n : Z) (res a key : infos) :
  is_fam fam -> pow2 n -> 8 <= n -> wf_infos res -> wf_infos a -> wf_infos key -> i_rank_in key = 1 ->
  run_takes (tree_lwe_keyswitch fam n res a key) (0, lwe_keyswitch_tmp_bytes fam n res a key) <> None.
Proof. intros Hf Hp H8. apply suffices_lwe_keyswitch; auto using pow2_nonneg, pow2_ge8. Qed.
Lemma main_glwe_from_lwe (fam n : Z) (res lwe key : infos) :
  is_fam fam -> pow2 n -> 8 <= n -> wf_infos res -> wf_infos lwe -> wf_infos key -> i_rank_in key = 1 ->
  run_takes (tree_glwe_from_lwe fam n res lwe key) (0, glwe_from_lwe_tmp_bytes fam n res lwe key) <> None.
Proof. intros Hf Hp H8. apply suffices_glwe_from_lwe; auto using pow2_nonneg, pow2_ge8. Qed.
Lemma main_glwe_pack (fam n : Z) (res key : infos) (iters steps : Z) :
  is_fam fam -> pow2 n -> 8 <= n -> wf_infos res -> wf_infos key -> i_n res = n -> i_rank res = i_rank_in key ->
  run_takes (tree_glwe_pack fam n res res key iters steps) (0, glwe_pack_tmp_bytes fam n res key) <> None.
Proof. intros Hf Hp H8. apply suffices_glwe_pack; auto using pow2_nonneg, pow2_ge8. Qed.
Lemma main_glwe_pack_inputs (fam n : Z) (res a key : infos) (iters steps : Z) :
  is_fam fam -> pow2 n -> 8 <= n -> wf_infos res -> wf_infos a -> wf_infos key -> i_n res = n -> i_n a = n ->
  i_rank res = i_rank_in key -> i_rank a = i_rank_in key ->
  run_takes (tree_glwe_pack fam n res a key iters steps)
            (0, Z.max (glwe_pack_tmp_bytes fam n res key) (glwe_pack_tmp_bytes fam n a key)) <> None.
Proof. intros Hf Hp H8. apply suffices_glwe_pack_inputs; auto using pow2_nonneg, pow2_ge8. Qed.

Lemma main_ggsw_from_gglwe (fam n : Z) (res tsk : infos) :
  is_fam fam -> pow2 n -> 8 <= n -> wf_infos res -> wf_infos tsk -> i_rank res = i_rank_in tsk ->
  run_takes (tree_ggsw_from_gglwe fam n res tsk) (0, ggsw_from_gglwe_tmp_bytes fam n res tsk) <> None.
Proof. intros Hf Hp H8. apply suffices_ggsw_from_gglwe; auto using pow2_nonneg, pow2_ge8. Qed.

Lemma main_ggsw_keyswitch (fam n : Z) (res a key tsk : infos) :
  is_fam fam -> pow2 n -> 8 <= n -> wf_infos res -> wf_infos a -> wf_infos key -> wf_infos tsk -> i_n a = n -> i_rank a = i_rank_in key -> i_rank res = i_rank_in tsk ->
  run_takes (tree_ggsw_keyswitch fam n res a key tsk) (0, ggsw_keyswitch_tmp_bytes fam n res a key tsk) <> None.
Proof. intros Hf Hp H8. apply suffices_ggsw_keyswitch; auto using pow2_nonneg, pow2_ge8. Qed.

Lemma main_ggsw_automorphism (fam n : Z) (res a key tsk : infos) :
  is_fam fam -> pow2 n -> 8 <= n -> wf_infos res -> wf_infos a -> wf_infos key -> wf_infos tsk -> i_n a = n -> i_rank a = i_rank_in key -> i_rank res = i_rank_in tsk ->
  run_takes (tree_ggsw_automorphism fam n res a key tsk) (0, ggsw_automorphism_tmp_bytes fam n res a key tsk) <> None.
Proof. intros Hf Hp H8. apply suffices_ggsw_automorphism; auto using pow2_nonneg, pow2_ge8. Qed.

Lemma main_glwe_tensor_relinearize (fam n : Z) (res a tsk : infos) (tsk_size : Z) :
  is_fam fam -> pow2 n -> 8 <= n -> wf_infos res -> wf_infos a -> wf_infos tsk -> 0 <= tsk_size <= i_size tsk ->
  run_takes (tree_glwe_tensor_relinearize fam n res a tsk tsk_size) (0, glwe_tensor_relinearize_tmp_bytes fam n res a tsk) <> None.
Proof. intros Hf Hp H8. apply suffices_glwe_tensor_relinearize; auto using pow2_nonneg, pow2_ge8. Qed.

Lemma main_glwe_tensor_square_apply (fam n : Z) (res a : infos) (cnv_offset : Z) :
  is_fam fam -> pow2 n -> 8 <= n -> wf_infos res -> wf_infos a -> 1 <= i_size a -> 0 <= cnv_offset -> cnv_offset_hi cnv_offset (i_base2k a) <= 2 * i_size a ->
  run_takes (tree_glwe_tensor_square_apply fam n res a cnv_offset) (0, glwe_tensor_square_apply_tmp_bytes fam n res a) <> None.
Proof. intros Hf Hp H8. apply suffices_glwe_tensor_square_apply; auto using pow2_nonneg, pow2_ge8. Qed.

Lemma main_gglwe_encrypt_sk (fam n : Z) (res : infos) :
  is_fam fam -> pow2 n -> 8 <= n -> wf_infos res -> i_n res = n ->
  run_takes (tree_gglwe_encrypt_sk fam n res) (0, gglwe_encrypt_sk_tmp_bytes fam n res) <> None.
Proof. intros Hf Hp H8. apply suffices_gglwe_encrypt_sk; auto using pow2_nonneg, pow2_ge8. Qed.

Lemma main_ggsw_encrypt_sk (fam n : Z) (res : infos) :
  is_fam fam -> pow2 n -> 8 <= n -> wf_infos res -> i_n res = n ->
  run_takes (tree_ggsw_encrypt_sk fam n res) (0, ggsw_encrypt_sk_tmp_bytes fam n res) <> None.
Proof. intros Hf Hp H8. apply suffices_ggsw_encrypt_sk; auto using pow2_nonneg, pow2_ge8. Qed.

Lemma main_glwe_switching_key_encrypt_sk (fam n : Z) (res : infos) :
  is_fam fam -> pow2 n -> 8 <= n -> wf_infos res -> i_n res = n ->
  run_takes (tree_glwe_switching_key_encrypt_sk fam n res) (0, glwe_switching_key_encrypt_sk_tmp_bytes fam n res) <> None.
Proof. intros Hf Hp H8. apply suffices_glwe_switching_key_encrypt_sk; auto using pow2_nonneg, pow2_ge8. Qed.

Lemma main_glwe_automorphism_key_encrypt_sk (fam n : Z) (res : infos) :
  is_fam fam -> pow2 n -> 8 <= n -> wf_infos res -> i_n res = n ->
  run_takes (tree_glwe_automorphism_key_encrypt_sk fam n res) (0, glwe_automorphism_key_encrypt_sk_tmp_bytes fam n res) <> None.
Proof. intros Hf Hp H8. apply suffices_glwe_automorphism_key_encrypt_sk; auto using pow2_nonneg, pow2_ge8. Qed.

Lemma main_lwe_switching_key_encrypt_sk (fam n : Z) (res : infos) :
  is_fam fam -> pow2 n -> 8 <= n -> wf_infos res -> i_n res = n ->
  run_takes (tree_lwe_switching_key_encrypt_sk fam n res) (0, lwe_switching_key_encrypt_sk_tmp_bytes fam n res) <> None.
Proof. intros Hf Hp H8. apply suffices_lwe_switching_key_encrypt_sk; auto using pow2_nonneg, pow2_ge8. Qed.

Lemma main_glwe_to_lwe_key_encrypt_sk (fam n : Z) (res : infos) :
  is_fam fam -> pow2 n -> 8 <= n -> wf_infos res -> i_n res = n -> 1 <= i_rank_in res ->
  run_takes (tree_glwe_to_lwe_key_encrypt_sk fam n res) (0, glwe_to_lwe_key_encrypt_sk_tmp_bytes fam n res) <> None.
Proof. intros Hf Hp H8. apply suffices_glwe_to_lwe_key_encrypt_sk; auto using pow2_nonneg, pow2_ge8. Qed.

Lemma main_lwe_to_glwe_key_encrypt_sk (fam n : Z) (res : infos) :
  is_fam fam -> pow2 n -> 8 <= n -> wf_infos res -> i_n res = n -> 1 <= i_rank_in res ->
  run_takes (tree_lwe_to_glwe_key_encrypt_sk fam n res) (0, lwe_to_glwe_key_encrypt_sk_tmp_bytes fam n res) <> None.
Proof. intros Hf Hp H8. apply suffices_lwe_to_glwe_key_encrypt_sk; auto using pow2_nonneg, pow2_ge8. Qed.

Lemma main_glwe_tensor_key_encrypt_sk (fam n : Z) (res : infos) :
  is_fam fam -> pow2 n -> 8 <= n -> wf_infos res -> i_n res = n ->
  run_takes (tree_glwe_tensor_key_encrypt_sk fam n res) (0, glwe_tensor_key_encrypt_sk_tmp_bytes fam n res) <> None.
Proof. intros Hf Hp H8. apply suffices_glwe_tensor_key_encrypt_sk; auto using pow2_nonneg, pow2_ge8. Qed.

Lemma main_gglwe_to_ggsw_key_encrypt_sk (fam n : Z) (res : infos) :
  is_fam fam -> pow2 n -> 8 <= n -> wf_infos res -> i_n res = n ->
  run_takes (tree_gglwe_to_ggsw_key_encrypt_sk fam n res) (0, gglwe_to_ggsw_key_encrypt_sk_tmp_bytes fam n res) <> None.
Proof. intros Hf Hp H8. apply suffices_gglwe_to_ggsw_key_encrypt_sk; auto using pow2_nonneg, pow2_ge8. Qed.

Lemma main_glwe_compressed_encrypt_sk (fam n : Z) (res : infos) :
  is_fam fam -> pow2 n -> 8 <= n -> 0 <= i_size res ->
  run_takes (tree_glwe_compressed_encrypt_sk fam n res) (0, glwe_compressed_encrypt_sk_tmp_bytes fam n res) <> None.
Proof. intros Hf Hp H8. apply suffices_glwe_compressed_encrypt_sk; auto using pow2_nonneg, pow2_ge8. Qed.

Lemma main_gglwe_compressed_encrypt_sk (fam n : Z) (res : infos) :
  is_fam fam -> pow2 n -> 8 <= n -> wf_infos res -> i_n res = n ->
  run_takes (tree_gglwe_compressed_encrypt_sk fam n res) (0, gglwe_compressed_encrypt_sk_tmp_bytes fam n res) <> None.
Proof. intros Hf Hp H8. apply suffices_gglwe_compressed_encrypt_sk; auto using pow2_nonneg, pow2_ge8. Qed.

Lemma main_ggsw_compressed_encrypt_sk (fam n : Z) (res : infos) :
  is_fam fam -> pow2 n -> 8 <= n -> wf_infos res -> i_n res = n ->
  run_takes (tree_ggsw_compressed_encrypt_sk fam n res) (0, ggsw_compressed_encrypt_sk_tmp_bytes fam n res) <> None.
Proof. intros Hf Hp H8. apply suffices_ggsw_compressed_encrypt_sk; auto using pow2_nonneg, pow2_ge8. Qed.

Lemma main_glwe_switching_key_compressed_encrypt_sk (fam n : Z) (res : infos) :
  is_fam fam -> pow2 n -> 8 <= n -> wf_infos res -> i_n res = n ->
  run_takes (tree_glwe_switching_key_compressed_encrypt_sk fam n res) (0, glwe_switching_key_compressed_encrypt_sk_tmp_bytes fam n res) <> None.
Proof. intros Hf Hp H8. apply suffices_glwe_switching_key_compressed_encrypt_sk; auto using pow2_nonneg, pow2_ge8. Qed.

Lemma main_glwe_automorphism_key_compressed_encrypt_sk (fam n : Z) (res : infos) :
  is_fam fam -> pow2 n -> 8 <= n -> wf_infos res -> i_n res = n ->
  run_takes (tree_glwe_automorphism_key_compressed_encrypt_sk fam n res) (0, glwe_automorphism_key_compressed_encrypt_sk_tmp_bytes fam n res) <> None.
Proof. intros Hf Hp H8. apply suffices_glwe_automorphism_key_compressed_encrypt_sk; auto using pow2_nonneg, pow2_ge8. Qed.

Lemma main_glwe_tensor_key_compressed_encrypt_sk (fam n : Z) (res : infos) :
  is_fam fam -> pow2 n -> 8 <= n -> wf_infos res -> i_n res = n ->
  run_takes (tree_glwe_tensor_key_compressed_encrypt_sk fam n res) (0, glwe_tensor_key_compressed_encrypt_sk_tmp_bytes fam n res) <> None.
Proof. intros Hf Hp H8. apply suffices_glwe_tensor_key_compressed_encrypt_sk; auto using pow2_nonneg, pow2_ge8. Qed.

Lemma main_gglwe_to_ggsw_key_compressed_encrypt_sk (fam n : Z) (res : infos) :
  is_fam fam -> pow2 n -> 8 <= n -> wf_infos res -> i_n res = n ->
  run_takes (tree_gglwe_to_ggsw_key_compressed_encrypt_sk fam n res) (0, gglwe_to_ggsw_key_compressed_encrypt_sk_tmp_bytes fam n res) <> None.
Proof. intros Hf Hp H8. apply suffices_gglwe_to_ggsw_key_compressed_encrypt_sk; auto using pow2_nonneg, pow2_ge8. Qed.

Lemma main_cmux (fam n : Z) (res a s : infos) :
  is_fam fam -> pow2 n -> 8 <= n -> wf_infos res -> wf_infos a -> wf_infos s -> i_n res = n -> i_base2k res = i_base2k s -> i_rank res = i_rank s ->
  run_takes (tree_cmux fam n res s) (0, cmux_tmp_bytes fam n res a s) <> None.
Proof. intros Hf Hp H8. apply suffices_cmux; auto using pow2_nonneg, pow2_ge8. Qed.

Lemma main_cmux_assign_neg (fam n : Z) (res a s : infos) :
  is_fam fam -> pow2 n -> 8 <= n -> wf_infos res -> wf_infos a -> wf_infos s -> i_n res = n -> i_base2k res = i_base2k s -> i_rank res = i_rank s ->
  run_takes (tree_cmux_assign_neg fam n res a s) (0, cmux_tmp_bytes fam n res a s) <> None.
Proof. intros Hf Hp H8. apply suffices_cmux_assign_neg; auto using pow2_nonneg, pow2_ge8. Qed.

Lemma main_bdd_2w_to_1w_multi_thread (fam n : Z) (res s key : infos) (bits threads state_size : Z) :
  is_fam fam -> pow2 n -> 8 <= n -> wf_infos res -> wf_infos s -> wf_infos key -> i_n res = n -> i_base2k res = i_base2k s -> i_rank res = i_rank s ->
  i_rank res = i_rank_in key -> 0 <= bits -> 0 <= threads -> 0 <= state_size ->
  run_takes (tree_bdd_2w_to_1w_multi_thread fam n bits threads state_size res s key)
            (0, execute_bdd_circuit_2w_to_1w_multi_thread_tmp_bytes fam n bits threads state_size res s key) <> None.
Proof. intros Hf Hp H8. apply suffices_bdd_2w_to_1w_multi_thread; auto using pow2_nonneg, pow2_ge8. Qed.
Lemma main_bdd_eval_level (fam n : Z) (res s : infos) (state_size nodes off : Z) :
  is_fam fam -> pow2 n -> 8 <= n -> wf_infos res -> wf_infos s -> i_n res = n -> i_base2k res = i_base2k s -> i_rank res = i_rank s -> 0 <= state_size ->
  off mod 64 = 0 ->
  run_tree (tree_bdd_eval_level fam n state_size nodes res s) (off, execute_bdd_circuit_tmp_bytes fam n res state_size s) <> None.
Proof. intros Hf Hp H8. apply suffices_bdd_eval_level; auto using pow2_nonneg, pow2_ge8. Qed.
Lemma main_split_windows (len : Z) (k : nat) : 0 <= len -> len mod 64 = 0 -> forall off L ws r,
  off mod 64 = 0 -> 0 <= L -> run_tree (rep k (Take len)) (off, L) = Some (ws, r) ->
  Forall (fun w : window => fst w mod 64 = 0 /\ snd w = len) ws.
Proof. exact (rep_take_windows len k). Qed.

Lemma main_helper_keyswitch_glwe (fam n : Z) (ksk gin gout : infos) :
  is_fam fam -> pow2 n -> 8 <= n -> wf_infos ksk -> wf_infos gin -> wf_infos gout -> i_n ksk = n -> i_n gin = n -> i_rank gin = i_rank_in ksk ->
  let B := Z.lor (Z.lor (glwe_switching_key_encrypt_sk_tmp_bytes fam n ksk) (glwe_encrypt_sk_tmp_bytes fam n gin)) (glwe_keyswitch_tmp_bytes fam n gout gin ksk) in
  run_takes (tree_glwe_switching_key_encrypt_sk fam n ksk) (0, B) <> None /\
  run_takes (tree_glwe_encrypt_sk fam n gin) (0, B) <> None /\
  run_takes (tree_glwe_keyswitch fam n gout gin ksk) (0, B) <> None.
Proof. intros Hf Hp H8. apply helper_keyswitch_glwe; auto using pow2_nonneg, pow2_ge8. Qed.

Lemma main_helper_external_product_glwe (fam n : Z) (ggsw gin gout : infos) :
  is_fam fam -> pow2 n -> 8 <= n -> wf_infos ggsw -> wf_infos gin -> wf_infos gout -> i_n ggsw = n -> i_n gin = n ->
  let B := Z.lor (Z.lor (ggsw_encrypt_sk_tmp_bytes fam n ggsw) (glwe_encrypt_sk_tmp_bytes fam n gin)) (glwe_external_product_tmp_bytes fam n gout gin ggsw) in
  run_takes (tree_ggsw_encrypt_sk fam n ggsw) (0, B) <> None /\
  run_takes (tree_glwe_encrypt_sk fam n gin) (0, B) <> None /\
  run_takes (tree_glwe_external_product fam n gout gin ggsw) (0, B) <> None.
Proof. intros Hf Hp H8. apply helper_external_product_glwe; auto using pow2_nonneg, pow2_ge8. Qed.

Lemma main_helper_automorphism_ggsw (fam n : Z) (cin cout key tsk : infos) :
  is_fam fam -> pow2 n -> 8 <= n -> wf_infos cin -> wf_infos cout -> wf_infos key -> wf_infos tsk -> i_n cin = n -> i_n key = n -> i_n tsk = n ->
  i_rank cin = i_rank_in key -> i_rank cout = i_rank_in tsk ->
  let B := Z.lor (Z.lor (Z.lor (ggsw_encrypt_sk_tmp_bytes fam n cin) (glwe_automorphism_key_encrypt_sk_tmp_bytes fam n key))
                        (gglwe_to_ggsw_key_encrypt_sk_tmp_bytes fam n tsk))
                 (ggsw_automorphism_tmp_bytes fam n cout cin key tsk) in
  run_takes (tree_ggsw_encrypt_sk fam n cin) (0, B) <> None /\
  run_takes (tree_glwe_automorphism_key_encrypt_sk fam n key) (0, B) <> None /\
  run_takes (tree_gglwe_to_ggsw_key_encrypt_sk fam n tsk) (0, B) <> None /\
  run_takes (tree_ggsw_automorphism fam n cout cin key tsk) (0, B) <> None.
Proof. intros Hf Hp H8. apply helper_automorphism_ggsw; auto using pow2_nonneg, pow2_ge8. Qed.

Lemma main_helper_trace (fam n : Z) (g key : infos) (steps : Z) :
  is_fam fam -> pow2 n -> 8 <= n -> wf_infos g -> wf_infos key -> i_n g = n -> i_n key = n -> i_rank g = i_rank_in key ->
  let B := Z.lor (Z.lor (Z.lor (glwe_encrypt_sk_tmp_bytes fam n g) (glwe_decrypt_tmp_bytes fam n g))
                        (glwe_automorphism_key_encrypt_sk_tmp_bytes fam n key))
                 (glwe_trace_tmp_bytes fam n g g key) in
  run_takes (tree_glwe_encrypt_sk fam n g) (0, B) <> None /\
  run_takes (tree_glwe_decrypt fam n g) (0, B) <> None /\
  run_takes (tree_glwe_automorphism_key_encrypt_sk fam n key) (0, B) <> None /\
  run_takes (tree_glwe_trace fam n g g key steps) (0, B) <> None.
Proof. intros Hf Hp H8. apply helper_trace; auto using pow2_nonneg, pow2_ge8. Qed.

Lemma main_helper_packing (fam n : Z) (g key : infos) (iters steps : Z) :
  is_fam fam -> pow2 n -> 8 <= n -> wf_infos g -> wf_infos key -> i_n g = n -> i_n key = n -> i_rank g = i_rank_in key ->
  let B := Z.max (Z.max (glwe_encrypt_sk_tmp_bytes fam n g) (glwe_automorphism_key_encrypt_sk_tmp_bytes fam n key)) (glwe_pack_tmp_bytes fam n g key) in
  run_takes (tree_glwe_encrypt_sk fam n g) (0, B) <> None /\
  run_takes (tree_glwe_automorphism_key_encrypt_sk fam n key) (0, B) <> None /\
  run_takes (tree_glwe_pack fam n g g key iters steps) (0, B) <> None.
Proof. intros Hf Hp H8. apply helper_packing; auto using pow2_nonneg, pow2_ge8. Qed.

Lemma main_helper_keyswitch_lwe (fam n : Z) (key lin lout : infos) :
  is_fam fam -> pow2 n -> 8 <= n -> wf_infos key -> wf_infos lin -> wf_infos lout -> i_n key = n -> i_rank_in key = 1 ->
  let B := Z.lor (lwe_switching_key_encrypt_sk_tmp_bytes fam n key) (lwe_keyswitch_tmp_bytes fam n lout lin key) in
  run_takes (tree_lwe_switching_key_encrypt_sk fam n key) (0, B) <> None /\
  run_takes (tree_lwe_keyswitch fam n lout lin key) (0, B) <> None.
Proof. intros Hf Hp H8. apply helper_keyswitch_lwe; auto using pow2_nonneg, pow2_ge8. Qed.

Lemma align_matches : gen_DEFAULTALIGN = ALIGN.
Proof. reflexivity. Qed.
