(* C12 - the statements pinned in Props/C12.v, in their final form (ring degree a power of two). *)
From PV Require Import Base.MachineInt Model.C12Scratch Gen.C12TmpBytes_gen Model.C12Trees
  Proofs.C12Arena Proofs.C12Hal Proofs.C12Core Proofs.C12KeySwitch Proofs.C12More.
Open Scope Z_scope.

Lemma pow2_nonneg (n : Z) : pow2 n -> 0 <= n.
Proof. intros H. pose proof (pow2_pos n H). lia. Qed.

Lemma main_vmp_apply_dft (fam n rs a rows ci co size : Z) :
  is_fam fam -> pow2 n -> 8 <= n -> 0 <= a -> 0 <= rows -> 0 <= ci ->
  run_takes (t_vmp_apply_dft fam n a rows ci) (0, halimpl_vmp_apply_dft_tmp_bytes fam n rs a rows ci co size) <> None.
Proof. intros Hf Hp H8. apply suffices_vmp_apply_dft; auto using pow2_nonneg, pow2_ge8. Qed.

Lemma main_glwe_encrypt_sk (fam n : Z) (glwe : infos) :
  is_fam fam -> pow2 n -> 8 <= n -> 0 <= i_size glwe ->
  run_takes (tree_glwe_encrypt_sk fam n glwe) (0, glwe_encrypt_sk_tmp_bytes fam n glwe) <> None.
Proof. intros Hf Hp H8. apply suffices_glwe_encrypt_sk; auto using pow2_nonneg, pow2_ge8. Qed.

Lemma main_glwe_decrypt (fam n : Z) (glwe : infos) :
  is_fam fam -> pow2 n -> 8 <= n -> 0 <= i_size glwe -> 0 <= i_rank glwe ->
  run_takes (tree_glwe_decrypt fam n glwe) (0, glwe_decrypt_tmp_bytes fam n glwe) <> None.
Proof. intros Hf Hp H8. apply suffices_glwe_decrypt; auto using pow2_nonneg, pow2_ge8. Qed.

Lemma main_glwe_encrypt_pk (fam n : Z) (res : infos) :
  is_fam fam -> pow2 n -> 8 <= n -> 0 <= i_size res -> 0 <= i_rank res ->
  run_takes (tree_glwe_encrypt_pk fam n res (i_size res)) (0, glwe_encrypt_pk_tmp_bytes fam n res) <> None.
Proof. intros Hf Hp H8. apply suffices_glwe_encrypt_pk; auto using pow2_nonneg, pow2_ge8. Qed.

Lemma main_glwe_keyswitch (fam n : Z) (res a key : infos) :
  is_fam fam -> pow2 n -> 8 <= n -> wf_infos res -> wf_infos a -> wf_infos key -> i_n a = n -> i_rank a = i_rank_in key ->
  run_takes (tree_glwe_keyswitch fam n res a key) (0, glwe_keyswitch_tmp_bytes fam n res a key) <> None.
Proof. intros Hf Hp H8. apply suffices_glwe_keyswitch; auto using pow2_nonneg, pow2_ge8. Qed.

Lemma main_glwe_automorphism (fam n : Z) (res a key : infos) :
  is_fam fam -> pow2 n -> 8 <= n -> wf_infos res -> wf_infos a -> wf_infos key -> i_n a = n -> i_rank a = i_rank_in key ->
  run_takes (tree_glwe_automorphism fam n res a key) (0, glwe_automorphism_tmp_bytes fam n res a key) <> None.
Proof. intros Hf Hp H8. apply suffices_glwe_automorphism; auto using pow2_nonneg, pow2_ge8. Qed.

Lemma main_glwe_external_product (fam n : Z) (res a ggsw : infos) :
  is_fam fam -> pow2 n -> 8 <= n -> wf_infos res -> wf_infos a -> wf_infos ggsw -> i_n a = n ->
  run_takes (tree_glwe_external_product fam n res a ggsw) (0, glwe_external_product_tmp_bytes fam n res a ggsw) <> None.
Proof. intros Hf Hp H8. apply suffices_glwe_external_product; auto using pow2_nonneg, pow2_ge8. Qed.

Lemma main_gglwe_keyswitch (fam n : Z) (res a key : infos) :
  is_fam fam -> pow2 n -> 8 <= n -> wf_infos res -> wf_infos a -> wf_infos key -> i_n a = n -> i_rank a = i_rank_in key ->
  run_takes (tree_gglwe_keyswitch fam n res a key) (0, gglwe_keyswitch_tmp_bytes fam n res a key) <> None.
Proof. intros Hf Hp H8. apply suffices_gglwe_keyswitch; auto using pow2_nonneg, pow2_ge8. Qed.
Lemma main_gglwe_external_product (fam n : Z) (res a ggsw : infos) :
  is_fam fam -> pow2 n -> 8 <= n -> wf_infos res -> wf_infos a -> wf_infos ggsw -> i_n a = n ->
  run_takes (tree_gglwe_external_product fam n res a ggsw) (0, gglwe_external_product_tmp_bytes fam n res a ggsw) <> None.
Proof. intros Hf Hp H8. apply suffices_gglwe_external_product; auto using pow2_nonneg, pow2_ge8. Qed.
Lemma main_ggsw_external_product (fam n : Z) (res a ggsw : infos) :
  is_fam fam -> pow2 n -> 8 <= n -> wf_infos res -> wf_infos a -> wf_infos ggsw -> i_n a = n ->
  run_takes (tree_ggsw_external_product fam n res a ggsw) (0, ggsw_external_product_tmp_bytes fam n res a ggsw) <> None.
Proof. intros Hf Hp H8. apply suffices_ggsw_external_product; auto using pow2_nonneg, pow2_ge8. Qed.

Lemma main_glwe_automorphism_add (fam n : Z) (res a key : infos) :
  is_fam fam -> pow2 n -> 8 <= n -> wf_infos res -> wf_infos a -> wf_infos key -> i_n a = n -> i_rank a = i_rank_in key ->
  run_takes (tree_glwe_automorphism_add fam n res a key) (0, glwe_automorphism_tmp_bytes fam n res a key) <> None.
Proof. intros Hf Hp H8. apply suffices_glwe_automorphism_add; auto using pow2_nonneg, pow2_ge8. Qed.

Lemma main_glwe_trace (fam n : Z) (res a key : infos) (steps : Z) :
  is_fam fam -> pow2 n -> 8 <= n -> wf_infos res -> wf_infos a -> wf_infos key -> i_n res = n -> i_rank res = i_rank_in key ->
  run_takes (tree_glwe_trace fam n res a key steps) (0, glwe_trace_tmp_bytes fam n res a key) <> None.
Proof. intros Hf Hp H8. apply suffices_glwe_trace; auto using pow2_nonneg, pow2_ge8. Qed.

Lemma main_glwe_trace_assign (fam n : Z) (res key : infos) (steps : Z) :
  is_fam fam -> pow2 n -> 8 <= n -> wf_infos res -> wf_infos key -> i_n res = n -> i_rank res = i_rank_in key ->
  run_takes (tree_glwe_trace_assign fam n res key steps) (0, glwe_trace_tmp_bytes fam n res res key) <> None.
Proof. intros Hf Hp H8. apply suffices_glwe_trace_assign; auto using pow2_nonneg, pow2_ge8. Qed.

Lemma main_glwe_mul_const (fam n : Z) (res a : infos) (b_len cnv_offset : Z) :
  is_fam fam -> pow2 n -> 8 <= n -> wf_infos res -> wf_infos a -> 1 <= i_size a -> 1 <= b_len -> 0 <= cnv_offset ->
  (if cnv_offset <? i_base2k a then 0 else Z.max 0 (cnv_offset / i_base2k a - 1)) <= i_size a + b_len ->
  run_takes (tree_glwe_mul_const fam n res a b_len cnv_offset) (0, glwe_mul_const_tmp_bytes fam n res a b_len) <> None.
Proof. intros Hf Hp H8. apply suffices_glwe_mul_const; auto using pow2_nonneg, pow2_ge8. Qed.

Lemma align_matches : gen_DEFAULTALIGN = ALIGN.
Proof. reflexivity. Qed.
