(* C07 part A4: the single numerical hypothesis behind the FFT64 exactness claim.
   poulpy-cpu-ref/src/reference/fft64/reim/conversion.rs, reim_to_znx_i64_ref:
       res[i] = (a[i] * inv_div).round() as i64
   f64::round rounds to the nearest integer, ties AWAY from zero.  The AVX kernels
   (poulpy-cpu-avx/src/fft64/reim/conversion.rs, the reim_to_znx_i64 avx2 kernels) use the magic-constant trick
   (add 3*2^51, reinterpret, subtract), i.e. the FPU's round-to-nearest-EVEN.
   A pre-rounding value is a rational y/s (s > 0); both roundings are modelled on such pairs and both
   return v as soon as |y/s - v| < 1/2.  No real numbers, no floating point: this isolates what has to be
   true of the f64 butterflies (error < 1/2 before rounding) for the FFT64 products to be exact. *)
From PV Require Import Base.MachineInt.
Open Scope Z_scope.

(* round half away from zero of y/s, s > 0  (f64::round) *)
Definition round_half (y s : Z) : Z :=
  if 0 <=? y then (2 * y + s) / (2 * s) else - ((2 * (- y) + s) / (2 * s)).

(* round half to even of y/s, s > 0 (magic-constant trick under the default rounding mode) *)
Definition round_half_even (y s : Z) : Z :=
  let f := y / s in let r := y mod s in
  if 2 * r <? s then f else if s <? 2 * r then f + 1 else if Z.even f then f else f + 1.

Theorem fft_exact_if_close v y s : 0 < s -> 2 * Z.abs (y - v * s) < s -> round_half y s = v.
Proof.
  intros Hs Hc. unfold round_half.
  destruct (Z.leb_spec 0 y) as [Hy|Hy].
  - symmetry. apply (Z.div_unique_pos _ _ _ (2 * y + s - v * (2 * s))); lia.
  - assert (H : (2 * - y + s) / (2 * s) = - v); [|lia].
    symmetry. apply (Z.div_unique_pos _ _ _ (2 * - y + s - (- v) * (2 * s))); lia.
Qed.

Theorem fft_exact_if_close_even v y s : 0 < s -> 2 * Z.abs (y - v * s) < s -> round_half_even y s = v.
Proof.
  intros Hs Hc. unfold round_half_even. cbv zeta.
  pose proof (Z.div_mod y s ltac:(lia)) as Hdm.
  pose proof (Z.mod_pos_bound y s Hs) as Hb.
  set (f := y / s) in *. set (r := y mod s) in *.
  assert (Hcase : f < v \/ f = v \/ v < f) by lia.
  assert (H1 : f < v -> s * (f - v) <= - s) by (intros; nia).
  assert (H2 : v < f -> s <= s * (f - v)) by (intros; nia).
  assert (H3 : f + 1 < v -> s * (f - v) <= - 2 * s) by (intros; nia).
  assert (Hk : y - v * s = s * (f - v) + r) by lia.
  destruct (Z.ltb_spec (2 * r) s); [lia|].
  destruct (Z.ltb_spec s (2 * r)).
  - assert (Hcase' : f + 1 < v \/ f + 1 = v \/ v < f + 1) by lia. lia.
  - exfalso. lia.
Qed.

(* consequently the two roundings (ref / AVX) agree on every value that is close to an integer *)
Corollary roundings_agree v y s : 0 < s -> 2 * Z.abs (y - v * s) < s -> round_half y s = round_half_even y s.
Proof. intros Hs Hc. rewrite (fft_exact_if_close v), (fft_exact_if_close_even v) by assumption. reflexivity. Qed.

(* the hypothesis is sharp: at distance exactly 1/2 the two roundings differ *)
Lemma roundings_differ_at_tie : round_half 1 2 = 1 /\ round_half_even 1 2 = 0.
Proof. split; reflexivity. Qed.
