(* C12 - glwe_automorphism_add (and _sub / _sub_negate, same takes), vmp_apply_dft, and the refuted pairs
   glwe_trace / glwe_mul_const. *)
From PV Require Import Base.MachineInt Model.C12Scratch Gen.C12TmpBytes_gen Model.C12Trees
  Proofs.C12Arena Proofs.C12Hal Proofs.C12Core Proofs.C12KeySwitch.
Open Scope Z_scope.

Section More.
  Variables fam n : Z.
  Hypothesis Hf : is_fam fam.
  Hypothesis Hn0 : 0 <= n.
  Hypothesis Hn8 : n mod 8 = 0.

  (* vmp_apply_dft (hal_impl_family_common!): a VecZnxDft temporary, then vmp_apply_dft_to_dft *)
  Lemma suffices_vmp_apply_dft (res_size a_size rows cols_in cols_out size : Z) :
    0 <= a_size -> 0 <= rows -> 0 <= cols_in ->
    run_takes (t_vmp_apply_dft fam n a_size rows cols_in)
              (0, halimpl_vmp_apply_dft_tmp_bytes fam n res_size a_size rows cols_in cols_out size) <> None.
  Proof using Hf Hn0 Hn8.
    intros Ha Hr Hc.
    destruct (callee_vmp fam n Hf Hn0 Hn8 res_size (Z.min a_size rows) rows cols_in cols_out size) as [Av Dv]; try lia.
    pose proof (al_dft fam n Hf Hn0 Hn8 cols_in (Z.min a_size rows) Hc ltac:(lia)) as HD.
    apply aligned_suffices; unfold t_vmp_apply_dft, halimpl_vmp_apply_dft_tmp_bytes; cbv zeta.
    - cbn [aligned_tree]. unfold ALIGN. intuition.
    - pose proof (aligned_need_nonneg _ Av) as Hv0. rewrite Dv in Hv0.
      cbn [demand persist]. rewrite Dv. unfold hal_bytes_of_vec_znx_dft in *. lia.
  Qed.

  (* the key-switch scratch is at least the DFT copy of the input *)
  Lemma ks_internal_lower (r a key : infos) : wf_infos key -> 0 <= i_size a -> 0 <= i_rank a ->
    hal_bytes_of_vec_znx_dft fam n (i_rank a) (i_size a) <= glwe_keyswitch_internal_tmp_bytes fam n r a key.
  Proof using Hf Hn0 Hn8.
    intros (Hb & Hsz & Hr & Hri & Hdn & Hds) Ha Hra.
    unfold glwe_keyswitch_internal_tmp_bytes, gglwe_product_dft_tmp_bytes. cbv zeta.
    replace (i_rank a + 1 - 1) with (i_rank a) by lia.
    destruct (Z.eqb_spec (i_dsize key) 1).
    - pose proof (nn_vmp fam n Hf Hn0 Hn8 (i_size r) (i_size a) (i_dnum key) (i_rank_in key) (i_rank key + 1) (i_size key) Ha Hdn Hri). lia.
    - set (a' := Z.min (div_ceil (i_size a) (i_dsize key)) (i_dnum key)).
      assert (0 <= a') by (unfold a'; pose proof (div_ceil_nonneg (i_size a) (i_dsize key) Ha ltac:(lia)); lia).
      pose proof (nn_vmp fam n Hf Hn0 Hn8 (i_size r) a' (i_dnum key) (i_rank_in key) (i_rank key + 1) (i_size key) ltac:(lia) Hdn Hri).
      pose proof (al_dft fam n Hf Hn0 Hn8 (i_rank_in key) a' Hri ltac:(lia)).
      pose proof (al_dft fam n Hf Hn0 Hn8 (i_rank key + 1) (i_size key) ltac:(lia) Hsz). lia.
  Qed.

  (* glwe_automorphism_add: in the cross-radix branch the per-column vec_znx_big_automorphism_assign and
     vec_znx_big_normalize run on what is left AFTER the re-normalised copy of the input, which the formula
     (that of glwe_keyswitch) does not provide for: true when that remainder is large enough *)
  Lemma suffices_glwe_automorphism_add_partial (res a key : infos) :
    wf_infos res -> wf_infos a -> wf_infos key -> i_n a = n -> i_rank a = i_rank_in key ->
    fam = 0 \/ i_base2k a = i_base2k key \/ 2 <= i_rank a * i_size (conv_layout a key) ->
    run_takes (tree_glwe_automorphism_add fam n res a key) (0, glwe_automorphism_tmp_bytes fam n res a key) <> None.
  Proof using Hf Hn0 Hn8.
    intros Hres Ha Hk Hna Hrk Hside.
    assert (Hrr : 0 <= i_rank res) by (destruct Hres as (_&_&?&_); lia).
    assert (Has : 0 <= i_size a) by (destruct Ha as (_&?&_); lia).
    assert (Har : 0 <= i_rank a) by (destruct Ha as (_&_&?&_); lia).
    assert (Hks : 0 <= i_size key) by (destruct Hk as (_&?&_); lia).
    destruct (callee_big_normalize fam n Hf Hn0 Hn8) as [Ab Db].
    destruct (callee_big_automorphism_assign fam n Hf Hn0 Hn8) as [Aa Da].
    pose proof (nn_norm fam n Hf Hn0 Hn8). pose proof (nn_bnorm fam n Hf Hn0 Hn8).
    pose proof (aligned_need_nonneg _ Aa) as Ha0.
    assert (Hab : demand (t_big_automorphism_assign fam n) <= hal_vec_znx_big_normalize_tmp_bytes fam n).
    { rewrite Da. autounfold with c12gen. destruct Hf as [-> | ->]; cbn [Z.eqb]; lia. }
    pose proof (al_dft fam n Hf Hn0 Hn8 (i_rank res + 1) (i_size key) ltac:(lia) Hks) as HD0.
    destruct (glwe_normalize_spec fam n Hf Hn0 Hn8 (i_rank a + 1)) as [Agn Dgn].
    destruct (keyswitch_spec fam n Hf Hn0 Hn8 res a key Hres Ha Hk Hna Hrk) as (_ & _ & Hks0).
    apply aligned_suffices; unfold tree_glwe_automorphism_add, glwe_automorphism_tmp_bytes, glwe_keyswitch_tmp_bytes in *; cbv zeta in *.
    - destruct (Z.eqb_spec (i_base2k a) (i_base2k key)) as [E|E]; cbn [negb].
      + destruct (ks_internal_spec fam n Hf Hn0 Hn8 a key Hk Has Hrk) as [Ai Di].
        cbn [aligned_tree]. unfold ALIGN. intuition; lia.
      + destruct (conv_layout_facts fam n Hf Hn0 Hn8 a key Ha Hk Hna) as (Hcs & Hcr & Hcb & Hc0 & Hc64).
        destruct (ks_internal_spec fam n Hf Hn0 Hn8 (conv_layout a key) key Hk Hcs ltac:(lia)) as [Ai Di].
        unfold t_take_glwe. cbn [aligned_tree]. unfold ALIGN. intuition; lia.
    - destruct (Z.eqb_spec (i_base2k a) (i_base2k key)) as [E|E]; cbn [negb] in *.
      + destruct (ks_internal_spec fam n Hf Hn0 Hn8 a key Hk Has Hrk) as [Ai Di].
        rewrite (ks_internal_res_indep fam n Hf Hn0 Hn8 res key a key) in *.
        pose proof (aligned_need_nonneg _ Ai).
        cbn [demand persist]. rewrite Db. destruct_loops; lia.
      + destruct (conv_layout_facts fam n Hf Hn0 Hn8 a key Ha Hk Hna) as (Hcs & Hcr & Hcb & Hc0 & Hc64).
        fold (conv_layout a key) in *.
        destruct (ks_internal_spec fam n Hf Hn0 Hn8 (conv_layout a key) key Hk Hcs ltac:(lia)) as [Ai Di].
        rewrite (ks_internal_res_indep fam n Hf Hn0 Hn8 res key (conv_layout a key) key) in *.
        pose proof (aligned_need_nonneg _ Ai). rewrite Hcb in *. unfold t_take_glwe.
        assert (Hbn : hal_vec_znx_big_normalize_tmp_bytes fam n <=
                      Z.max (glwe_normalize_tmp_bytes fam n) (glwe_keyswitch_internal_tmp_bytes fam n key (conv_layout a key) key)).
        { destruct Hside as [-> | [Hs | Hs]]; [autounfold with c12gen; cbn [Z.eqb]; lia | contradiction |].
          pose proof (ks_internal_lower key (conv_layout a key) key Hk Hcs ltac:(lia)) as Hlow.
          rewrite Hcr in Hlow.
          assert (n * 2 <= n * (i_rank a * i_size (conv_layout a key))) by (apply Z.mul_le_mono_nonneg_l; lia).
          revert Hlow. autounfold with c12gen. destruct Hf as [-> | ->]; cbn [Z.eqb]; intros; lia. }
        cbn [demand persist]. rewrite Db. destruct_loops; lia.
  Qed.
End More.

(* ---- refutations *)
Definition inf0 (n b2k size rank : Z) : infos := mkInfos n b2k size rank rank 0 1.

Lemma suffices_glwe_automorphism_add_refuted :
  exists fam n res a key, is_fam fam /\ pow2 n /\ 8 <= n /\ wf_infos res /\ wf_infos a /\ wf_infos key /\
    i_n a = n /\ i_rank a = i_rank_in key /\
    run_takes (tree_glwe_automorphism_add fam n res a key) (0, glwe_automorphism_tmp_bytes fam n res a key) = None.
Proof.
  exists 1, 16, (inf0 16 17 1 1), (inf0 16 13 1 1), (mkInfos 16 17 2 1 1 1 1).
  split; [right; reflexivity|]. split; [exists 4; split; [lia|reflexivity]|]. split; [lia|].
  split; [unfold wf_infos; cbn; lia|]. split; [unfold wf_infos; cbn; lia|]. split; [unfold wf_infos; cbn; lia|].
  split; [reflexivity|]. split; [reflexivity|]. vm_compute; reflexivity.
Qed.

(* glwe_trace: after taking its temporary, glwe_trace calls glwe_trace_assign, whose entry assertion asks for
   glwe_trace_tmp_bytes of the temporary - which again contains the temporary *)
Lemma suffices_glwe_trace_refuted :
  exists fam n res a key steps, is_fam fam /\ pow2 n /\ 8 <= n /\ wf_infos res /\ wf_infos a /\ wf_infos key /\
    i_n a = n /\ i_rank a = i_rank_in key /\ i_base2k a = i_base2k key /\ i_base2k res = i_base2k key /\ 0 <= steps /\
    run_takes (tree_glwe_trace_same fam n res a key steps) (0, glwe_trace_tmp_bytes fam n res a key) = None.
Proof.
  exists 0, 8, (inf0 8 17 2 1), (inf0 8 17 2 1), (mkInfos 8 17 3 1 1 2 1), 3.
  split; [left; reflexivity|]. split; [exists 3; split; [lia|reflexivity]|]. split; [lia|].
  split; [unfold wf_infos; cbn; lia|]. split; [unfold wf_infos; cbn; lia|]. split; [unfold wf_infos; cbn; lia|].
  split; [reflexivity|]. split; [reflexivity|]. split; [reflexivity|]. split; [reflexivity|]. split; [lia|]. vm_compute; reflexivity.
Qed.

(* glwe_mul_const: the formula sizes the VecZnxBig and the convolution scratch from other quantities than the code *)
Lemma suffices_glwe_mul_const_refuted :
  exists fam n res a b_len cnv_offset, is_fam fam /\ pow2 n /\ 8 <= n /\ wf_infos res /\ wf_infos a /\ 1 <= b_len /\ 0 <= cnv_offset /\
    run_takes (tree_glwe_mul_const fam n res a b_len cnv_offset) (0, glwe_mul_const_tmp_bytes fam n res a b_len) = None.
Proof.
  exists 0, 8, (inf0 8 17 2 1), (inf0 8 17 2 1), 1, 0.
  split; [left; reflexivity|]. split; [exists 3; split; [lia|reflexivity]|]. split; [lia|].
  split; [unfold wf_infos; cbn; lia|]. split; [unfold wf_infos; cbn; lia|]. split; [lia|]. split; [lia|]. vm_compute; reflexivity.
Qed.
