(* C12 - glwe_automorphism_add (and _sub / _sub_negate, same takes), vmp_apply_dft, and the refuted pairs
   glwe_trace / glwe_mul_const. *)
From PV Require Import Base.MachineInt Model.C12Scratch Gen.C12TmpBytes_gen Model.C12Trees
  Proofs.C12Arena Proofs.C12Hal Proofs.C12Core Proofs.C12KeySwitch.
Open Scope Z_scope.

Section More.
  Variables fam n : Z.
  Hypothesis Hf : is_fam fam.
  Hypothesis Hn0 : 0 <= n.
  Hypothesis Hn8 : n mod 8 = 0.

  (* vmp_apply_dft (hal_impl_family_common!): a VecZnxDft temporary, then vmp_apply_dft_to_dft *)
  Lemma suffices_vmp_apply_dft (res_size a_size rows cols_in cols_out size : Z) :
    0 <= a_size -> 0 <= rows -> 0 <= cols_in ->
    run_takes (t_vmp_apply_dft fam n a_size rows cols_in)
              (0, halimpl_vmp_apply_dft_tmp_bytes fam n res_size a_size rows cols_in cols_out size) <> None.
  Proof using Hf Hn0 Hn8.
    intros Ha Hr Hc.
    destruct (callee_vmp fam n Hf Hn0 Hn8 res_size (Z.min a_size rows) rows cols_in cols_out size) as [Av Dv]; try lia.
    pose proof (al_dft fam n Hf Hn0 Hn8 cols_in (Z.min a_size rows) Hc ltac:(lia)) as HD.
    apply aligned_suffices; unfold t_vmp_apply_dft, halimpl_vmp_apply_dft_tmp_bytes; cbv zeta.
    - cbn [aligned_tree]. unfold ALIGN. intuition.
    - pose proof (aligned_need_nonneg _ Av) as Hv0. rewrite Dv in Hv0.
      cbn [demand persist]. rewrite Dv. unfold hal_bytes_of_vec_znx_dft in *. lia.
  Qed.

  (* the key-switch scratch is at least the DFT copy of the input *)
  Lemma ks_internal_lower (r a key : infos) : wf_infos key -> 0 <= i_size a -> 0 <= i_rank a ->
    hal_bytes_of_vec_znx_dft fam n (i_rank a) (i_size a) <= glwe_keyswitch_internal_tmp_bytes fam n r a key.
  Proof using Hf Hn0 Hn8.
    intros (Hb & Hsz & Hr & Hri & Hdn & Hds) Ha Hra.
    unfold glwe_keyswitch_internal_tmp_bytes, gglwe_product_dft_tmp_bytes. cbv zeta.
    replace (i_rank a + 1 - 1) with (i_rank a) by lia.
    destruct (Z.eqb_spec (i_dsize key) 1).
    - pose proof (nn_vmp fam n Hf Hn0 Hn8 (i_size r) (i_size a) (i_dnum key) (i_rank_in key) (i_rank key + 1) (i_size key) Ha Hdn Hri). lia.
    - set (a' := Z.min (div_ceil (i_size a) (i_dsize key)) (i_dnum key)).
      assert (0 <= a') by (unfold a'; pose proof (div_ceil_nonneg (i_size a) (i_dsize key) Ha ltac:(lia)); lia).
      pose proof (nn_vmp fam n Hf Hn0 Hn8 (i_size r) a' (i_dnum key) (i_rank_in key) (i_rank key + 1) (i_size key) ltac:(lia) Hdn Hri).
      pose proof (al_dft fam n Hf Hn0 Hn8 (i_rank_in key) a' Hri ltac:(lia)).
      pose proof (al_dft fam n Hf Hn0 Hn8 (i_rank key + 1) (i_size key) ltac:(lia) Hsz). lia.
  Qed.

  (* glwe_automorphism_add / _sub / _sub_negate: key-switch into res_dft, then vec_znx_big_automorphism_assign and
     vec_znx_big_normalize per column, in the cross-radix branch beside the re-normalised copy of the input *)
  Lemma automorphism_add_spec (res a key : infos) :
    wf_infos res -> wf_infos a -> wf_infos key -> i_n a = n -> i_rank a = i_rank_in key ->
    aligned_tree (tree_glwe_automorphism_add fam n res a key) /\
    demand (tree_glwe_automorphism_add fam n res a key) <= glwe_automorphism_tmp_bytes fam n res a key.
  Proof using Hf Hn0 Hn8.
    intros Hres Ha Hk Hna Hrk.
    assert (Hrr : 0 <= i_rank res) by (destruct Hres as (_&_&?&_); lia).
    assert (Has : 0 <= i_size a) by (destruct Ha as (_&?&_); lia).
    assert (Har : 0 <= i_rank a) by (destruct Ha as (_&_&?&_); lia).
    assert (Hks : 0 <= i_size key) by (destruct Hk as (_&?&_); lia).
    destruct (callee_big_normalize fam n Hf Hn0 Hn8) as [Ab Db].
    destruct (callee_big_automorphism_assign fam n Hf Hn0 Hn8) as [Aa Da].
    pose proof (nn_norm fam n Hf Hn0 Hn8). pose proof (nn_bnorm fam n Hf Hn0 Hn8).
    pose proof (aligned_need_nonneg _ Aa) as Ha0.
    assert (Hab : demand (t_big_automorphism_assign fam n) <= hal_vec_znx_big_normalize_tmp_bytes fam n).
    { rewrite Da. autounfold with c12gen. destruct Hf as [-> | ->]; cbn [Z.eqb]; lia. }
    pose proof (al_dft fam n Hf Hn0 Hn8 (i_rank res + 1) (i_size key) ltac:(lia) Hks) as HD0.
    destruct (glwe_normalize_spec fam n Hf Hn0 Hn8 (i_rank a + 1)) as [Agn Dgn].
    destruct (keyswitch_spec fam n Hf Hn0 Hn8 res a key Hres Ha Hk Hna Hrk) as (_ & _ & Hks0).
    unfold tree_glwe_automorphism_add, glwe_automorphism_tmp_bytes, glwe_keyswitch_tmp_bytes in *; cbv zeta in *.
    destruct (Z.eqb_spec (i_base2k a) (i_base2k key)) as [E|E]; cbn [negb] in *.
    - destruct (ks_internal_spec fam n Hf Hn0 Hn8 a key Hk Has Hrk) as [Ai Di].
      rewrite (ks_internal_res_indep fam n Hf Hn0 Hn8 res key a key) in *.
      pose proof (aligned_need_nonneg _ Ai). split.
      + cbn [aligned_tree]. unfold ALIGN. intuition; lia.
      + cbn [demand persist]. rewrite Db. destruct_loops; lia.
    - destruct (conv_layout_facts fam n Hf Hn0 Hn8 a key Ha Hk Hna) as (Hcs & Hcr & Hcb & Hc0 & Hc64).
      fold (conv_layout a key) in *.
      destruct (ks_internal_spec fam n Hf Hn0 Hn8 (conv_layout a key) key Hk Hcs ltac:(lia)) as [Ai Di].
      rewrite (ks_internal_res_indep fam n Hf Hn0 Hn8 res key (conv_layout a key) key) in *.
      pose proof (aligned_need_nonneg _ Ai). rewrite Hcb in *. unfold t_take_glwe. split.
      + cbn [aligned_tree]. unfold ALIGN. intuition; lia.
      + cbn [demand persist]. rewrite Db. destruct_loops; lia.
  Qed.

  Lemma suffices_glwe_automorphism_add (res a key : infos) :
    wf_infos res -> wf_infos a -> wf_infos key -> i_n a = n -> i_rank a = i_rank_in key ->
    run_takes (tree_glwe_automorphism_add fam n res a key) (0, glwe_automorphism_tmp_bytes fam n res a key) <> None.
  Proof using Hf Hn0 Hn8.
    intros. destruct (automorphism_add_spec res a key) as (A & D); auto. apply aligned_suffices; auto.
  Qed.

  (* ---------------------------------------------------------------------------------------------- *)
  (* glwe_trace / glwe_trace_assign *)
  Lemma rsh_spec (res : infos) :
    aligned_tree (tree_glwe_rsh fam n res) /\ demand (tree_glwe_rsh fam n res) <= glwe_shift_tmp_bytes fam n.
  Proof using Hf Hn0 Hn8.
    destruct (callee_rsh fam n Hf Hn0 Hn8) as [Ar Dr]. pose proof (aligned_need_nonneg _ Ar).
    unfold tree_glwe_rsh, glwe_shift_tmp_bytes. cbv zeta. rewrite Dr in *. split.
    - cbn [aligned_tree]. split; [lia | exact Ar].
    - cbn [demand persist]. rewrite Dr. destruct_loops; lia.
  Qed.

  Lemma trace_assign_same_spec (res key : infos) (steps : Z) :
    wf_infos res -> wf_infos key -> i_n res = n -> i_rank res = i_rank_in key ->
    aligned_tree (t_glwe_trace_assign_same fam n res key steps) /\
    demand (t_glwe_trace_assign_same fam n res key steps) <= glwe_trace_assign_same_radix_tmp_bytes fam n res key /\
    0 <= glwe_trace_assign_same_radix_tmp_bytes fam n res key.
  Proof using Hf Hn0 Hn8.
    intros Hres Hk Hn Hrk.
    destruct (rsh_spec res) as [Ar Dr]. destruct (automorphism_add_spec res res key Hres Hres Hk Hn Hrk) as [Aa Da].
    pose proof (aligned_need_nonneg _ Ar). pose proof (aligned_need_nonneg _ Aa).
    unfold t_glwe_trace_assign_same, glwe_trace_assign_same_radix_tmp_bytes. split; [|split].
    - cbn [aligned_tree]. intuition; lia.
    - cbn [demand persist]. destruct_loops; lia.
    - lia.
  Qed.

  (* a temporary GLWE in the radix of the keys *)
  Lemma key_radix_layout_facts (nn k rank : Z) (key : infos) : wf_infos key -> nn = n -> 0 <= k -> 0 <= rank ->
    let c := mk_glwe_layout nn (i_base2k key) k rank in
    wf_infos c /\ i_n c = n /\ i_rank c = rank /\ i_base2k c = i_base2k key /\
    GLWE_bytes_of_from_infos c = VecZnx_bytes_of (i_n c) (i_rank c + 1) (i_size c) /\
    0 <= VecZnx_bytes_of (i_n c) (i_rank c + 1) (i_size c) /\ VecZnx_bytes_of (i_n c) (i_rank c + 1) (i_size c) mod 64 = 0.
  Proof using Hf Hn0 Hn8.
    intros (Hkb & _) -> Hk Hr c.
    assert (Hs : 0 <= i_size c) by (unfold c, mk_glwe_layout; cbn [i_size]; apply div_ceil_nonneg; lia).
    split; [unfold wf_infos, c, mk_glwe_layout in *; cbn [i_base2k i_size i_rank i_rank_in i_dnum i_dsize] in *; lia|].
    split; [reflexivity|]. split; [reflexivity|]. split; [reflexivity|]. split.
    - unfold GLWE_bytes_of_from_infos, GLWE_bytes_of, i_max_k. f_equal.
      replace (i_base2k c) with (i_base2k key) by reflexivity. apply div_ceil_mul; lia.
    - change (i_n c) with n. change (i_rank c) with rank. apply (al_vec_znx fam n Hf Hn0 Hn8); lia.
  Qed.

  Lemma suffices_glwe_trace (res a key : infos) (steps : Z) :
    wf_infos res -> wf_infos a -> wf_infos key -> i_n res = n -> i_rank res = i_rank_in key ->
    run_takes (tree_glwe_trace fam n res a key steps) (0, glwe_trace_tmp_bytes fam n res a key) <> None.
  Proof using Hf Hn0 Hn8.
    intros Hres Ha Hk Hn Hrk.
    assert (Hmk : 0 <= Z.max (i_max_k a) (i_max_k res)).
    { destruct Hres as (?&?&_). unfold i_max_k. assert (0 <= i_size res * i_base2k res) by nia. lia. }
    assert (Hrr : 0 <= i_rank res) by (destruct Hres as (_&_&?&_); lia).
    destruct (key_radix_layout_facts (i_n res) (Z.max (i_max_k a) (i_max_k res)) (i_rank res) key Hk Hn Hmk Hrr)
      as (Wt & Nt & Rt & Bt & Hcb & Hc0 & Hc64).
    fold (tmp_layout res a key) in *.
    destruct (trace_assign_same_spec (tmp_layout res a key) key steps Wt Hk Nt ltac:(lia)) as (As & Ds & S0).
    destruct (glwe_normalize_spec fam n Hf Hn0 Hn8 (i_rank res + 1)) as [Agn Dgn].
    pose proof (aligned_need_nonneg _ Agn).
    apply aligned_suffices; unfold tree_glwe_trace, glwe_trace_tmp_bytes, t_take_glwe; cbv zeta;
      fold (tmp_layout res a key); rewrite Hcb.
    - destruct (negb (i_base2k a =? i_base2k key)); destruct (negb (i_base2k res =? i_base2k key));
        cbn [aligned_tree]; unfold ALIGN; intuition; lia.
    - destruct (negb (i_base2k a =? i_base2k key)); destruct (negb (i_base2k res =? i_base2k key));
        cbn [demand persist]; lia.
  Qed.

  (* the formula reads only n, base2k, size and rank of a GLWE description *)
  Lemma same_radix_bytes_ext (r r' key : infos) :
    i_n r = i_n r' -> i_base2k r = i_base2k r' -> i_size r = i_size r' -> i_rank r = i_rank r' ->
    glwe_trace_assign_same_radix_tmp_bytes fam n r key = glwe_trace_assign_same_radix_tmp_bytes fam n r' key.
  Proof using Hf Hn0 Hn8.
    intros H1 H2 H3 H4.
    unfold glwe_trace_assign_same_radix_tmp_bytes, glwe_automorphism_tmp_bytes, glwe_keyswitch_tmp_bytes,
      glwe_keyswitch_internal_tmp_bytes, GLWE_bytes_of_from_infos, GLWE_bytes_of, i_max_k. cbv zeta.
    rewrite H1, H2, H3, H4. reflexivity.
  Qed.

  Lemma suffices_glwe_trace_assign (res key : infos) (steps : Z) :
    wf_infos res -> wf_infos key -> i_n res = n -> i_rank res = i_rank_in key ->
    run_takes (tree_glwe_trace_assign fam n res key steps) (0, glwe_trace_tmp_bytes fam n res res key) <> None.
  Proof using Hf Hn0 Hn8.
    intros Hres Hk Hn Hrk.
    assert (Hmk : 0 <= i_max_k res).
    { destruct Hres as (?&?&_). unfold i_max_k. nia. }
    assert (Hrr : 0 <= i_rank res) by (destruct Hres as (_&_&?&_); lia).
    destruct (key_radix_layout_facts (i_n res) (i_max_k res) (i_rank res) key Hk Hn Hmk Hrr) as (Wt & Nt & Rt & Bt & Hcb & Hc0 & Hc64).
    fold (conv_layout res key) in *.
    destruct (glwe_normalize_spec fam n Hf Hn0 Hn8 (i_rank res + 1)) as [Agn Dgn].
    pose proof (aligned_need_nonneg _ Agn).
    assert (Htl : mk_glwe_layout (i_n res) (i_base2k key) (Z.max (i_max_k res) (i_max_k res)) (i_rank res) = conv_layout res key)
      by (unfold conv_layout; rewrite Z.max_id; reflexivity).
    unfold tree_glwe_trace_assign. destruct (Z.eqb_spec (i_base2k res) (i_base2k key)) as [E|E]; cbn [negb].
    - (* same radix: the formula still contains a temporary that is not needed *)
      destruct (trace_assign_same_spec res key steps Hres Hk Hn Hrk) as (As & Ds & S0).
      apply aligned_suffices; auto. unfold glwe_trace_tmp_bytes; cbv zeta. rewrite Htl, Hcb.
      assert (Heq : glwe_trace_assign_same_radix_tmp_bytes fam n (conv_layout res key) key = glwe_trace_assign_same_radix_tmp_bytes fam n res key).
      { apply same_radix_bytes_ext; try reflexivity.
        - cbn [conv_layout mk_glwe_layout i_base2k]. congruence.
        - unfold conv_layout, mk_glwe_layout, i_max_k; cbn [i_size]. rewrite <- E. apply div_ceil_mul. destruct Hres as (?&_). lia. }
      lia.
    - destruct (trace_assign_same_spec (conv_layout res key) key steps Wt Hk Nt ltac:(lia)) as (As & Ds & S0).
      apply aligned_suffices; unfold glwe_trace_tmp_bytes, t_take_glwe; cbv zeta; rewrite Htl, Hcb.
      + cbn [aligned_tree]. unfold ALIGN. intuition; lia.
      + cbn [demand persist]. lia.
  Qed.

  (* ---------------------------------------------------------------------------------------------- *)
  (* glwe_mul_const *)
  Lemma suffices_glwe_mul_const (res a : infos) (b_len cnv_offset : Z) :
    wf_infos res -> wf_infos a -> 1 <= i_size a -> 1 <= b_len -> 0 <= cnv_offset ->
    (if cnv_offset <? i_base2k a then 0 else Z.max 0 (cnv_offset / i_base2k a - 1)) <= i_size a + b_len ->
    run_takes (tree_glwe_mul_const fam n res a b_len cnv_offset) (0, glwe_mul_const_tmp_bytes fam n res a b_len) <> None.
  Proof using Hf Hn0 Hn8.
    intros Hres Ha Has Hb Hc Hhi.
    assert (Hrr : 0 <= i_rank res) by (destruct Hres as (_&_&?&_); lia).
    set (hi := if cnv_offset <? i_base2k a then 0 else Z.max 0 (cnv_offset / i_base2k a - 1)) in *.
    assert (Hhi0 : 0 <= hi) by (unfold hi; destruct (cnv_offset <? i_base2k a); lia).
    set (rds := i_size a + b_len - hi).
    destruct (callee_big_normalize fam n Hf Hn0 Hn8) as [Ab Db]. pose proof (nn_bnorm fam n Hf Hn0 Hn8).
    pose proof (al_big fam n Hf Hn0 Hn8 1 rds ltac:(lia) ltac:(unfold rds; lia)) as HB.
    pose proof (big_mono fam n Hf Hn0 Hn8 1 (i_size a + b_len) rds ltac:(lia) ltac:(unfold rds; lia)) as HBm.
    assert (Hcnv : aligned_tree (t_cnv_by_const_apply fam rds (i_size a) b_len) /\
                   demand (t_cnv_by_const_apply fam rds (i_size a) b_len)
                     <= api_cnv_by_const_apply_tmp_bytes fam n (Z.max (i_size a) b_len) (i_size a + b_len) (i_size a) b_len).
    { unfold t_cnv_by_const_apply, take_words. autounfold with c12gen.
      destruct Hf as [-> | ->]; cbn [Z.eqb aligned_tree demand]; unfold ALIGN, rds; lia. }
    destruct Hcnv as [Ac Dc]. pose proof (aligned_need_nonneg _ Ac).
    apply aligned_suffices; unfold tree_glwe_mul_const, glwe_mul_const_tmp_bytes; cbv zeta; fold hi; fold rds.
    - cbn [aligned_tree]. unfold ALIGN. intuition; lia.
    - cbn [demand persist]. rewrite Db. destruct_loops; lia.
  Qed.
End More.

(* ---- refutations *)
Definition inf0 (n b2k size rank : Z) : infos := mkInfos n b2k size rank rank 0 1.


(* glwe_trace: after taking its temporary, glwe_trace calls glwe_trace_assign, whose entry assertion asks for
   glwe_trace_tmp_bytes of the temporary - which again contains the temporary *)

(* glwe_mul_const: the formula sizes the VecZnxBig and the convolution scratch from other quantities than the code *)
