(* C08 encoding, level 1: the machine-word encoders of one coefficient compute the balanced expansion.
   Radix 1 <= b <= 62, i64 limbs; the encoded value may be any i64 / i128 (the first carry wraps at the top of the
   type: `top_eff`). *)
From PV Require Import Base.MachineInt Model.Znx Model.Limbs Model.C08Encode Proofs.ZnxDigit Proofs.C08Steps
  Proofs.C08EncodeSpec.
Open Scope Z_scope.

(* the value the carry chain really sees: v, or v - 2^w when `x - digit` (digit of radix r) wraps *)
Definition top_eff (w r v : Z) : Z := if 2 ^ (w - 1) <=? v - wrap r v then v - 2 ^ w else v.

(* what the encoders write for a value V at precision k: balanced digits of radix 2^b above a last limb holding the
   low k' = b - krem bits, shifted left by krem; then zeros *)
Definition enc_spec (b k : Z) (a_size : nat) (V : Z) : list Z :=
  let size := enc_size b k in let krem := enc_krem b k in
  rev (ldigs b (size - 1) (bdiv (b - krem) V)) ++ [wrap (b - krem) V * 2 ^ krem] ++ zeros (a_size - size).

(* ---------- parameters ---------- *)

Lemma enc_params (b k : Z) : 1 <= b -> 1 <= k ->
  Z.of_nat (enc_size b k) * b = k + enc_krem b k /\ 0 <= enc_krem b k < b /\ (1 <= enc_size b k)%nat.
Proof.
  intros Hb Hk. unfold enc_size, enc_krem, div_ceil.
  assert (Hq : 0 <= (k + b - 1) / b) by (apply Z.div_pos; lia).
  rewrite Z2Nat.id by exact Hq.
  pose proof (Z.div_mod k b ltac:(lia)) as Hdm. pose proof (Z.mod_pos_bound k b ltac:(lia)) as Hmb.
  set (q := k / b) in *. set (r := k mod b) in *.
  destruct (Z.eq_dec r 0) as [E|E].
  - rewrite E in *. rewrite Z.sub_0_r, Z.mod_same by lia.
    assert (E2 : (k + b - 1) / b = q).
    { symmetry. apply (Z.div_unique_pos _ _ _ (b - 1)); lia. }
    rewrite E2. split; [lia|]. split; [lia|]. assert (1 <= q) by nia. lia.
  - rewrite (Z.mod_small (b - r)) by lia.
    assert (E2 : (k + b - 1) / b = q + 1).
    { symmetry. apply (Z.div_unique_pos _ _ _ (r - 1)); lia. }
    rewrite E2. split; [lia|]. split; [lia|]. assert (0 <= q) by (apply Z.div_pos; lia). lia.
Qed.

Lemma enc_size_le (b k : Z) (a_size : nat) : 1 <= b -> 1 <= k <= Z.of_nat a_size * b ->
  (enc_size b k <= a_size)%nat.
Proof.
  intros Hb Hk. destruct (enc_params b k Hb ltac:(lia)) as (E & Hr & _).
  assert (Z.of_nat (enc_size b k) * b < (Z.of_nat a_size + 1) * b) by lia.
  assert (Z.of_nat (enc_size b k) < Z.of_nat a_size + 1) by nia. lia.
Qed.

(* ---------- scaling lemmas ---------- *)

Lemma wrap_scale (b lsh x : Z) : 0 <= lsh < b -> wrap b (x * 2 ^ lsh) = wrap (b - lsh) x * 2 ^ lsh.
Proof. intros H. replace b with ((b - lsh) + lsh) at 1 by lia. apply wrap_mul_pow2; lia. Qed.

Lemma bdiv_scale (b lsh x : Z) : 0 <= lsh < b -> bdiv b (x * 2 ^ lsh) = bdiv (b - lsh) x.
Proof.
  intros H. unfold bdiv.
  pose proof (pow2_pos lsh ltac:(lia)) as Hl. pose proof (pow2_pos (b - lsh) ltac:(lia)) as Hb.
  assert (E1 : 2 ^ b = 2 ^ (b - lsh) * 2 ^ lsh) by (rewrite <- Z.pow_add_r by lia; f_equal; lia).
  destruct (Z.eq_dec lsh (b - 1)) as [El|El].
  - (* b - lsh = 1: 2^(b - lsh - 1) = 1 *)
    replace (b - lsh - 1) with 0 by lia. replace (b - 1) with lsh by lia.
    rewrite E1. replace (x * 2 ^ lsh + 2 ^ lsh) with ((x + 2 ^ 0) * 2 ^ lsh) by (rewrite Z.pow_0_r; ring).
    rewrite Z.div_mul_cancel_r by lia. reflexivity.
  - assert (E2 : 2 ^ (b - 1) = 2 ^ (b - lsh - 1) * 2 ^ lsh) by (rewrite <- Z.pow_add_r by lia; f_equal; lia).
    rewrite E1, E2. replace (x * 2 ^ lsh + 2 ^ (b - lsh - 1) * 2 ^ lsh) with ((x + 2 ^ (b - lsh - 1)) * 2 ^ lsh) by ring.
    rewrite Z.div_mul_cancel_r by lia. reflexivity.
Qed.

(* ---------- the first carry of a full-range word ---------- *)

Lemma top_eff_wrap (w r v : Z) : 1 <= r <= w -> wrap r (top_eff w r v) = wrap r v.
Proof.
  intros Hr. unfold top_eff. destruct (2 ^ (w - 1) <=? v - wrap r v); [|reflexivity].
  assert (E : 2 ^ w = 2 ^ r * 2 ^ (w - r)) by (rewrite <- Z.pow_add_r by lia; f_equal; lia).
  replace (v - 2 ^ w) with (v + 2 ^ r * (- 2 ^ (w - r))) by (rewrite E; ring).
  apply wrap_add_mul. lia.
Qed.

(* x - digit, wrapped to the word, is exactly (effective value) - digit; the carry is the balanced quotient of the
   effective value and fits w - 1 - r bits *)
Lemma top_carry (w r v : Z) : 1 <= r < w -> in_range w v ->
  get_carry w r v (get_digit w r v) = bdiv r (top_eff w r v) /\
  Z.abs (bdiv r (top_eff w r v)) * 2 ^ r <= 2 ^ (w - 1).
Proof.
  intros Hr [Hv1 Hv2].
  rewrite digit_spec by lia.
  pose proof (wrap_range r v ltac:(lia)) as [Hd1 Hd2].
  pose proof (wrap_bdiv r v ltac:(lia)) as Hdec.
  pose proof (pow2_pos r ltac:(lia)) as Hpr. pose proof (pow2_split r ltac:(lia)) as Hsr.
  pose proof (pow2_split w ltac:(lia)) as Hsw. pose proof (pow2_pos (w - 1) ltac:(lia)) as Hpw.
  assert (Ew : 2 ^ (w - 1) = 2 ^ r * 2 ^ (w - 1 - r)) by (rewrite <- Z.pow_add_r by lia; f_equal; lia).
  pose proof (pow2_pos (w - 1 - r) ltac:(lia)) as Hpq.
  set (d := wrap r v) in *. set (q := bdiv r v) in *.
  (* q ranges over [-2^(w-1-r), 2^(w-1-r)] *)
  assert (Hq1 : - 2 ^ (w - 1 - r) <= q) by nia.
  assert (Hq2 : q <= 2 ^ (w - 1 - r)) by nia.
  pose proof (top_eff_wrap w r v ltac:(lia)) as Hte. fold d in Hte.
  pose proof (wrap_bdiv r (top_eff w r v) ltac:(lia)) as Hdec2. rewrite Hte in Hdec2.
  assert (Hc : wrap w (v - d) = top_eff w r v - d).
  { unfold top_eff. fold d. destruct (Z.leb_spec (2 ^ (w - 1)) (v - d)) as [Ho|Ho].
    - replace (v - 2 ^ w - d) with (v - d + 2 ^ w * (-1)) by ring.
      rewrite <- (wrap_add_mul w (v - d) (-1)) by lia.
      apply wrap_id; [lia|]. unfold in_range. nia.
    - apply wrap_id; [lia|]. unfold in_range. nia. }
  split.
  - unfold get_carry, wsub, asr. rewrite Hc.
    replace (top_eff w r v - d) with (bdiv r (top_eff w r v) * 2 ^ r) by lia.
    apply Z.div_mul. lia.
  - pose proof (wrap_range w (v - d) ltac:(lia)) as [Hw1 Hw2]. rewrite Hc in Hw1, Hw2.
    assert (E : top_eff w r v - d = 2 ^ r * bdiv r (top_eff w r v)) by lia.
    rewrite E in Hw1, Hw2. nia.
Qed.

Lemma top_eff_small (w r v : Z) : 1 <= r < w -> Z.abs v <= 2 ^ (w - 2) -> r <= w - 2 -> top_eff w r v = v.
Proof.
  intros Hr Hv Hr2. unfold top_eff.
  pose proof (wrap_range r v ltac:(lia)) as [Hd1 Hd2].
  assert (2 ^ (r - 1) <= 2 ^ (w - 3)) by (apply Z.pow_le_mono_r; lia).
  assert (Ew : 2 ^ (w - 1) = 2 * 2 ^ (w - 2)) by (replace (w - 2) with (w - 1 - 1) by lia; apply pow2_split; lia).
  assert (Ew2 : 2 ^ (w - 2) = 2 * 2 ^ (w - 3)) by (replace (w - 3) with (w - 2 - 1) by lia; apply pow2_split; lia).
  destruct (Z.leb_spec (2 ^ (w - 1)) (v - wrap r v)); [lia|reflexivity].
Qed.

Section B.
Variable b : Z.
Hypothesis Hb : 1 <= b <= 62.

Lemma Hb64 : 1 <= b <= 64 - 2.
Proof. lia. Qed.

(* first step on a full-range i64 *)
Lemma first_full (lsh v : Z) : 0 <= lsh < b -> in_range 64 v ->
  let V := top_eff 64 (b - lsh) v in
  first_step_assign 64 b lsh v = (wrap (b - lsh) V * 2 ^ lsh, bdiv (b - lsh) V) /\
  Z.abs (bdiv (b - lsh) V) <= 2 ^ 62.
Proof.
  intros Hl Hv V.
  destruct (top_carry 64 (b - lsh) v ltac:(lia) Hv) as [Hc Hcb]. fold V in Hc, Hcb.
  pose proof (top_eff_wrap 64 (b - lsh) v ltac:(lia)) as Hte. fold V in Hte.
  assert (Hbound : Z.abs (bdiv (b - lsh) V) <= 2 ^ 62).
  { pose proof (pow2_pos (b - lsh) ltac:(lia)) as Hp.
    assert (2 <= 2 ^ (b - lsh)).
    { replace 2 with (2 ^ 1) at 1 by reflexivity. apply Z.pow_le_mono_r; lia. }
    change (2 ^ (64 - 1)) with (2 * 2 ^ 62) in Hcb. nia. }
  split; [|exact Hbound].
  unfold first_step_assign. destruct (Z.eqb_spec lsh 0) as [E|E].
  - subst lsh. rewrite Z.sub_0_r in *. cbv zeta. rewrite Hc. rewrite digit_spec by lia.
    rewrite Hte, Z.pow_0_r, Z.mul_1_r. reflexivity.
  - cbv zeta. rewrite Hc. rewrite digit_spec by lia. rewrite Hte. f_equal.
    apply shl_exact; [lia|].
    apply (in_range_weaken b 64); [lia|]. apply shifted_digit_range; [lia|]. apply wrap_range; lia.
Qed.

(* the in-place tail over limbs with headroom is the normalising chain of the shifted limbs *)
Lemma enc_tail_nchain (lsh : Z) (l : list Z) (c : Z) : 0 <= lsh < b ->
  Forall (fun x => Z.abs x <= 2 ^ 62) l -> Z.abs c <= 2 ^ 62 ->
  enc_tail b lsh l c = nchain b (map (fun x => x * 2 ^ lsh) l) c.
Proof.
  intros Hl Hf. revert c. induction Hf as [|x t Hx Ht IH]; intros c Hc; [reflexivity|].
  cbn [enc_tail map nchain].
  destruct t as [|y t'].
  - cbn [map nchain]. unfold final_step_assign.
    rewrite (final_core_ideal 64 b lsh Hb64 Hl x c) by (change (2 ^ (64 - 2)) with (2 ^ 62); assumption).
    reflexivity.
  - unfold middle_step_assign.
    rewrite (middle_core_ideal 64 b lsh Hb64 Hl x c) by (change (2 ^ (64 - 2)) with (2 ^ 62); assumption).
    f_equal. apply IH.
    apply bdiv_chain; try lia. apply shifted_bound; auto; lia.
Qed.

Lemma enc_tail_length (lsh : Z) (l : list Z) (c : Z) : length (enc_tail b lsh l c) = length l.
Proof.
  revert c; induction l as [|x t IH]; intros c; [reflexivity|].
  cbn [enc_tail]. destruct t as [|y t']; [reflexivity|].
  destruct (middle_step_assign 64 b lsh x c) as [x' c']. cbn [length]. f_equal. apply IH.
Qed.

(* the normalisation loop on  hi ++ x :: rest  with length hi = size - 1 *)
Lemma enc_norm_app (lsh : Z) (hi rest : list Z) (x : Z) : 0 <= lsh < b -> in_range 64 x ->
  Forall (fun y => Z.abs y <= 2 ^ 62) hi ->
  enc_norm b lsh (S (length hi)) (hi ++ x :: rest) =
    rev (ldigs b (S (length hi)) (top_eff 64 (b - lsh) x * 2 ^ lsh + 2 ^ b * (lvalr b (rev hi) * 2 ^ lsh))) ++ rest.
Proof.
  intros Hl Hx Hhi. unfold enc_norm.
  assert (Ef : firstn (S (length hi)) (hi ++ x :: rest) = hi ++ [x]).
  { replace (S (length hi)) with (length (hi ++ [x])) by (rewrite app_length; cbn; lia).
    replace (hi ++ x :: rest) with ((hi ++ [x]) ++ rest) by (rewrite <- app_assoc; reflexivity).
    rewrite firstn_app, firstn_all, Nat.sub_diag. cbn [firstn]. apply app_nil_r. }
  assert (Es : skipn (S (length hi)) (hi ++ x :: rest) = rest).
  { replace (S (length hi)) with (length (hi ++ [x])) by (rewrite app_length; cbn; lia).
    replace (hi ++ x :: rest) with ((hi ++ [x]) ++ rest) by (rewrite <- app_assoc; reflexivity).
    rewrite skipn_app, skipn_all, Nat.sub_diag. reflexivity. }
  rewrite Ef, Es, rev_app_distr. cbn [rev app].
  destruct (first_full lsh x Hl Hx) as [E1 Hc]. cbv zeta in E1. rewrite E1.
  rewrite enc_tail_nchain by (auto; apply Forall_rev; exact Hhi).
  rewrite nchain_ldigs by lia. rewrite map_length, rev_length.
  f_equal. f_equal. cbn [ldigs].
  set (V := top_eff 64 (b - lsh) x) in *.
  rewrite lvalr_scale.
  replace (V * 2 ^ lsh + 2 ^ b * (lvalr b (rev hi) * 2 ^ lsh))
    with (V * 2 ^ lsh + 2 ^ b * (lvalr b (rev hi) * 2 ^ lsh)) by reflexivity.
  rewrite wrap_add_mul, bdiv_add_mul by lia.
  rewrite wrap_scale, bdiv_scale by lia.
  cbn [rev]. do 3 f_equal. ring.
Qed.

(* ---------- list bookkeeping ---------- *)

Lemma upd_zeros (a_size m : nat) (v : Z) : (m < a_size)%nat ->
  upd (zeros a_size) m v = zeros m ++ v :: zeros (a_size - S m).
Proof.
  revert m; induction a_size as [|n IH]; intros m Hm; [lia|].
  destruct m as [|m]; cbn [zeros repeat upd app].
  - replace (S n - 1)%nat with n by lia. reflexivity.
  - fold (zeros n). fold (zeros m). rewrite IH by lia. reflexivity.
Qed.

Lemma Forall_zeros (P : Z -> Prop) (n : nat) : P 0 -> Forall P (zeros n).
Proof. intros H. unfold zeros. induction n; cbn [repeat]; constructor; auto. Qed.

Lemma ldigs_zero (n : nat) : ldigs b n 0 = zeros n.
Proof.
  induction n as [|n IH]; [reflexivity|]. cbn [ldigs]. rewrite wrap_zero, bdiv_zero by lia.
  rewrite IH. reflexivity.
Qed.

(* ---------- encode_vec_i64 / encode_coeff_i64 ---------- *)

Theorem enc_i64_spec (k : Z) (a_size : nat) (v : Z) : 1 <= k <= Z.of_nat a_size * b -> in_range 64 v ->
  enc_i64 b k a_size v = enc_spec b k a_size (top_eff 64 (b - enc_krem b k) v).
Proof.
  intros Hk Hv. unfold enc_i64, enc_spec. cbv zeta.
  destruct (enc_params b k ltac:(lia) ltac:(lia)) as (Esz & Hr & Hs1).
  pose proof (enc_size_le b k a_size ltac:(lia) Hk) as Hs2.
  set (size := enc_size b k) in *. set (krem := enc_krem b k) in *.
  rewrite upd_zeros by lia.
  replace (S (size - 1)) with size by lia.
  assert (El : length (zeros (size - 1)) = (size - 1)%nat) by apply repeat_length.
  replace size with (S (length (zeros (size - 1)))) at 1 by lia.
  rewrite enc_norm_app; [|lia|exact Hv|apply Forall_zeros; cbn; lia].
  rewrite El. replace (S (size - 1)) with size by lia.
  unfold zeros at 1. rewrite rev_repeat. fold (zeros (size - 1)). rewrite lvalr_zeros.
  rewrite Z.mul_0_l, Z.mul_0_r, Z.add_0_r.
  set (V := top_eff 64 (b - krem) v).
  replace size with (S (size - 1)) at 1 by lia. cbn [ldigs rev].
  rewrite wrap_scale, bdiv_scale by lia. rewrite <- app_assoc. reflexivity.
Qed.

(* ---------- encode_vec_i128 ---------- *)

Lemma enc_digits128_small (n : nat) (a : Z) : Z.abs a <= 2 ^ 126 -> enc_digits128 b n a = ldigs b n a.
Proof.
  revert a; induction n as [|n IH]; intros a Ha; [reflexivity|].
  cbn [enc_digits128 ldigs]. cbv zeta.
  pose proof (pow2_pos (b - 1) ltac:(lia)) as Hp.
  destruct (digit_carry_ideal 128 b a ltac:(lia)) as [Ed Ec].
  { change (2 ^ (128 - 2)) with (2 ^ 126). lia. }
  rewrite Ec, Ed. f_equal.
  - apply wrap_id; [lia|]. apply (in_range_weaken b 64); [lia|]. apply wrap_range; lia.
  - apply IH. replace a with (0 + a) by lia. apply bdiv_chain; try lia; cbn; lia.
Qed.

Lemma enc_digits128_full (n : nat) (v : Z) : in_range 128 v -> (1 <= n)%nat ->
  enc_digits128 b n v = ldigs b n (top_eff 128 b v).
Proof.
  intros Hv Hn. destruct n as [|n]; [lia|]. cbn [enc_digits128 ldigs]. cbv zeta.
  destruct (top_carry 128 b v ltac:(lia) Hv) as [Hc Hcb].
  rewrite Hc. rewrite digit_spec by lia. rewrite top_eff_wrap by lia. f_equal.
  - apply wrap_id; [lia|]. apply (in_range_weaken b 64); [lia|]. apply wrap_range; lia.
  - apply enc_digits128_small.
    pose proof (pow2_pos b ltac:(lia)) as Hp.
    assert (2 <= 2 ^ b). { replace 2 with (2 ^ 1) at 1 by reflexivity. apply Z.pow_le_mono_r; lia. }
    change (2 ^ (128 - 1)) with (2 * 2 ^ 126) in Hcb. nia.
Qed.

Theorem enc_i128_spec (k : Z) (a_size : nat) (v : Z) : 1 <= k <= Z.of_nat a_size * b -> in_range 128 v ->
  enc_i128 b k a_size v = enc_spec b k a_size (top_eff 128 b v).
Proof.
  intros Hk Hv. unfold enc_i128, enc_spec. cbv zeta.
  destruct (enc_params b k ltac:(lia) ltac:(lia)) as (Esz & Hr & Hs1).
  pose proof (enc_size_le b k a_size ltac:(lia) Hk) as Hs2.
  set (size := enc_size b k) in *. set (krem := enc_krem b k) in *.
  rewrite enc_digits128_full by auto.
  set (V := top_eff 128 b v).
  replace size with (S (size - 1)) at 1 2 by lia. cbn [ldigs rev]. rewrite <- app_assoc. cbn [app].
  set (hi := rev (ldigs b (size - 1) (bdiv b V))).
  assert (El : length hi = (size - 1)%nat) by (unfold hi; rewrite rev_length, ldigs_length; reflexivity).
  replace (S (size - 1)) with (S (length hi)) by lia.
  assert (Hd : in_range b (wrap b V)) by (apply wrap_range; lia).
  assert (Hbal : Forall (in_range b) (ldigs b (size - 1) (bdiv b V))) by (apply ldigs_balanced; lia).
  assert (H61 : 2 ^ (b - 1) <= 2 ^ 61) by (apply Z.pow_le_mono_r; lia).
  rewrite enc_norm_app; [|lia| |].
  - unfold hi at 2. rewrite rev_involutive.
    rewrite top_eff_small; [|lia| |lia].
    + (* the digits of V, shifted, renormalise to the digits of V * 2^krem *)
      pose proof (ldigs_value b (size - 1) (bdiv b V) ltac:(lia)) as Hval.
      pose proof (wrap_bdiv b V ltac:(lia)) as HdV.
      set (L := lvalr b (ldigs b (size - 1) (bdiv b V))) in *.
      set (Q := bdivn b (size - 1) (bdiv b V)) in *.
      rewrite El. replace (S (size - 1)) with size by lia.
      assert (Esz2 : 2 ^ (Z.of_nat size * b) = 2 ^ b * 2 ^ (Z.of_nat (size - 1) * b)).
      { rewrite <- Z.pow_add_r by lia. f_equal. nia. }
      replace (wrap b V * 2 ^ krem + 2 ^ b * (L * 2 ^ krem))
        with (V * 2 ^ krem + 2 ^ (Z.of_nat size * b) * (- Q * 2 ^ krem)) by (rewrite Esz2; nia).
      rewrite ldigs_periodic by lia.
      replace size with (S (size - 1)) at 1 by lia. cbn [ldigs rev].
      rewrite wrap_scale, bdiv_scale by lia.
      rewrite <- app_assoc. cbn [app].
      (* both sides: rev (ldigs b (size-1) (bdiv (b-krem) V)) ++ wrap (b-krem) V * 2^krem :: zeros *)
      reflexivity.
    + destruct Hd as [Hd1 Hd2]. change (2 ^ (64 - 2)) with (2 ^ 62).
      assert (2 ^ 61 <= 2 ^ 62) by (apply Z.pow_le_mono_r; lia). lia.
  - apply (in_range_weaken b 64); [lia|exact Hd].
  - unfold hi. apply Forall_rev. eapply Forall_impl; [|exact Hbal].
    intros y [Hy1 Hy2]. assert (2 ^ 61 <= 2 ^ 62) by (apply Z.pow_le_mono_r; lia). lia.
Qed.

End B.
