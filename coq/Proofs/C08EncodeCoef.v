(* C08 encoding, level 1: the machine-word encoders of one coefficient compute the balanced expansion.
   Radix 1 <= b <= 62, i64 limbs; the encoded value may be any i64 / i128 (the carry `(x >> b) + (digit < 0)` of the
   encoders is exact on the whole range of the word). *)
From PV Require Import Base.MachineInt Model.Znx Model.Limbs Model.C08Encode Proofs.ZnxDigit Proofs.C08Steps
  Proofs.C08EncodeSpec.
Open Scope Z_scope.

(* what the encoders write for a value V at precision k: balanced digits of radix 2^b above a last limb holding the
   low k' = b - krem bits, shifted left by krem; then zeros *)
Definition enc_spec (b k : Z) (a_size : nat) (V : Z) : list Z :=
  let size := enc_size b k in let krem := enc_krem b k in
  rev (ldigs b (size - 1) (bdiv (b - krem) V)) ++ [wrap (b - krem) V * 2 ^ krem] ++ zeros (a_size - size).

(* ---------- parameters ---------- *)

Lemma enc_params (b k : Z) : 1 <= b -> 1 <= k ->
  Z.of_nat (enc_size b k) * b = k + enc_krem b k /\ 0 <= enc_krem b k < b /\ (1 <= enc_size b k)%nat.
Proof.
  intros Hb Hk. unfold enc_size, enc_krem, div_ceil.
  assert (Hq : 0 <= (k + b - 1) / b) by (apply Z.div_pos; lia).
  rewrite Z2Nat.id by exact Hq.
  pose proof (Z.div_mod k b ltac:(lia)) as Hdm. pose proof (Z.mod_pos_bound k b ltac:(lia)) as Hmb.
  set (q := k / b) in *. set (r := k mod b) in *.
  destruct (Z.eq_dec r 0) as [E|E].
  - rewrite E in *. rewrite Z.sub_0_r, Z.mod_same by lia.
    assert (E2 : (k + b - 1) / b = q).
    { symmetry. apply (Z.div_unique_pos _ _ _ (b - 1)); lia. }
    rewrite E2. split; [lia|]. split; [lia|]. assert (1 <= q) by nia. lia.
  - rewrite (Z.mod_small (b - r)) by lia.
    assert (E2 : (k + b - 1) / b = q + 1).
    { symmetry. apply (Z.div_unique_pos _ _ _ (r - 1)); lia. }
    rewrite E2. split; [lia|]. split; [lia|]. assert (0 <= q) by (apply Z.div_pos; lia). lia.
Qed.

Lemma enc_size_le (b k : Z) (a_size : nat) : 1 <= b -> 1 <= k <= Z.of_nat a_size * b ->
  (enc_size b k <= a_size)%nat.
Proof.
  intros Hb Hk. destruct (enc_params b k Hb ltac:(lia)) as (E & Hr & _).
  assert (Z.of_nat (enc_size b k) * b < (Z.of_nat a_size + 1) * b) by lia.
  assert (Z.of_nat (enc_size b k) < Z.of_nat a_size + 1) by nia. lia.
Qed.

(* ---------- scaling lemmas ---------- *)

Lemma wrap_scale (b lsh x : Z) : 0 <= lsh < b -> wrap b (x * 2 ^ lsh) = wrap (b - lsh) x * 2 ^ lsh.
Proof. intros H. replace b with ((b - lsh) + lsh) at 1 by lia. apply wrap_mul_pow2; lia. Qed.

Lemma bdiv_scale (b lsh x : Z) : 0 <= lsh < b -> bdiv b (x * 2 ^ lsh) = bdiv (b - lsh) x.
Proof.
  intros H. unfold bdiv.
  pose proof (pow2_pos lsh ltac:(lia)) as Hl. pose proof (pow2_pos (b - lsh) ltac:(lia)) as Hb.
  assert (E1 : 2 ^ b = 2 ^ (b - lsh) * 2 ^ lsh) by (rewrite <- Z.pow_add_r by lia; f_equal; lia).
  destruct (Z.eq_dec lsh (b - 1)) as [El|El].
  - (* b - lsh = 1: 2^(b - lsh - 1) = 1 *)
    replace (b - lsh - 1) with 0 by lia. replace (b - 1) with lsh by lia.
    rewrite E1. replace (x * 2 ^ lsh + 2 ^ lsh) with ((x + 2 ^ 0) * 2 ^ lsh) by (rewrite Z.pow_0_r; ring).
    rewrite Z.div_mul_cancel_r by lia. reflexivity.
  - assert (E2 : 2 ^ (b - 1) = 2 ^ (b - lsh - 1) * 2 ^ lsh) by (rewrite <- Z.pow_add_r by lia; f_equal; lia).
    rewrite E1, E2. replace (x * 2 ^ lsh + 2 ^ (b - lsh - 1) * 2 ^ lsh) with ((x + 2 ^ (b - lsh - 1)) * 2 ^ lsh) by ring.
    rewrite Z.div_mul_cancel_r by lia. reflexivity.
Qed.

(* ---------- the carry of the encoders is exact on the whole word ---------- *)

Lemma enc_carry_exact (w r x : Z) : 1 <= r < w -> in_range w x ->
  enc_get_carry w r x (get_digit w r x) = bdiv r x /\ Z.abs (bdiv r x) * 2 ^ r <= 2 ^ (w - 1) + 2 ^ (r - 1).
Proof.
  intros Hr [Hx1 Hx2].
  rewrite digit_spec by lia.
  pose proof (wrap_range r x ltac:(lia)) as [Hd1 Hd2].
  pose proof (wrap_bdiv r x ltac:(lia)) as Hdec.
  pose proof (pow2_pos r ltac:(lia)) as Hpr. pose proof (pow2_split r ltac:(lia)) as Hsr.
  pose proof (pow2_pos (r - 1) ltac:(lia)) as Hpr1.
  pose proof (pow2_split w ltac:(lia)) as Hsw. pose proof (pow2_pos (w - 1) ltac:(lia)) as Hpw.
  assert (Ew : 2 ^ (w - 1) = 2 ^ r * 2 ^ (w - 1 - r)) by (rewrite <- Z.pow_add_r by lia; f_equal; lia).
  pose proof (pow2_pos (w - 1 - r) ltac:(lia)) as Hpq.
  set (d := wrap r x) in *. set (q := bdiv r x) in *.
  assert (Hq1 : - 2 ^ (w - 1 - r) <= q) by nia.
  assert (Hq2 : q <= 2 ^ (w - 1 - r)) by nia.
  assert (Hb : Z.abs q * 2 ^ r <= 2 ^ (w - 1) + 2 ^ (r - 1)) by nia.
  split; [|exact Hb].
  unfold enc_get_carry, wadd, asr.
  assert (Ef : x / 2 ^ r + (if d <? 0 then 1 else 0) = q).
  { destruct (Z.ltb_spec d 0) as [Hn|Hn].
    - assert (x / 2 ^ r = q - 1); [|lia].
      symmetry. apply (Z.div_unique_pos _ _ _ (d + 2 ^ r)); lia.
    - assert (x / 2 ^ r = q); [|lia].
      symmetry. apply (Z.div_unique_pos _ _ _ d); lia. }
  rewrite Ef. apply wrap_id; [lia|]. unfold in_range. nia.
Qed.

Section B.
Variable b : Z.
Hypothesis Hb : 1 <= b <= 62.

Lemma Hb64 : 1 <= b <= 64 - 2.
Proof. lia. Qed.

(* first step on a full-range i64 *)
Lemma first_full (lsh v : Z) : 0 <= lsh < b -> in_range 64 v ->
  enc_first_step b lsh v = (wrap (b - lsh) v * 2 ^ lsh, bdiv (b - lsh) v) /\
  Z.abs (bdiv (b - lsh) v) <= 2 ^ 62.
Proof.
  intros Hl Hv.
  destruct (enc_carry_exact 64 (b - lsh) v ltac:(lia) Hv) as [Hc Hcb].
  assert (Hbound : Z.abs (bdiv (b - lsh) v) <= 2 ^ 62).
  { pose proof (pow2_pos (b - lsh) ltac:(lia)) as Hp. pose proof (pow2_split (b - lsh) ltac:(lia)) as Hs.
    pose proof (pow2_pos (b - lsh - 1) ltac:(lia)) as Hp1.
    change (2 ^ (64 - 1)) with (2 * 2 ^ 62) in Hcb. nia. }
  split; [|exact Hbound].
  unfold enc_first_step. destruct (Z.eqb_spec lsh 0) as [E|E].
  - subst lsh. rewrite Z.sub_0_r in *. cbv zeta. rewrite Hc. rewrite digit_spec by lia.
    rewrite Z.pow_0_r, Z.mul_1_r. reflexivity.
  - cbv zeta. rewrite Hc. rewrite digit_spec by lia. f_equal.
    apply shl_exact; [lia|].
    apply (in_range_weaken b 64); [lia|]. apply shifted_digit_range; [lia|]. apply wrap_range; lia.
Qed.

(* middle step with headroom: the ideal balanced division step *)
Lemma enc_middle_ideal (lsh a c : Z) : 0 <= lsh < b -> Z.abs a <= 2 ^ 62 -> Z.abs c <= 2 ^ 62 ->
  enc_middle_step b lsh a c = (wrap b (a * 2 ^ lsh + c), bdiv b (a * 2 ^ lsh + c)).
Proof.
  intros Hl Ha Hc.
  assert (E63 : 2 ^ (64 - 1) = 2 * 2 ^ 62) by reflexivity.
  assert (H61 : 2 ^ (b - 1) <= 2 ^ 61) by (apply Z.pow_le_mono_r; lia).
  assert (E62 : 2 ^ 62 = 2 * 2 ^ 61) by reflexivity.
  pose proof (pow2_pos (b - 1) ltac:(lia)) as Hpb1.
  assert (Hra : in_range 64 a) by (unfold in_range; lia).
  unfold enc_middle_step.
  assert (Ebl : (if lsh =? 0 then b else b - lsh) = b - lsh) by (destruct (Z.eqb_spec lsh 0); lia).
  rewrite Ebl. cbv zeta.
  destruct (enc_carry_exact 64 (b - lsh) a ltac:(lia) Hra) as [Hc1 _]. rewrite Hc1.
  rewrite (digit_spec 64 (b - lsh) a) by lia.
  set (d := wrap (b - lsh) a). set (cr := bdiv (b - lsh) a).
  pose proof (wrap_bdiv (b - lsh) a ltac:(lia)) as Hdec. fold d cr in Hdec.
  assert (Hdr : in_range (b - lsh) d) by (apply wrap_range; lia).
  pose proof (shifted_digit_range b lsh d Hl Hdr) as [S1 S2].
  assert (Esh : (if lsh =? 0 then d else shl 64 d lsh) = d * 2 ^ lsh).
  { destruct (Z.eqb_spec lsh 0) as [->|Hne]; [rewrite Z.pow_0_r; lia|].
    apply shl_exact; [lia|]. apply (in_range_weaken b 64); [lia|split; assumption]. }
  rewrite Esh. set (sh := d * 2 ^ lsh) in *.
  assert (Edpc : wadd 64 sh c = sh + c).
  { unfold wadd. apply wrap_id; [lia|]. unfold in_range. lia. }
  rewrite Edpc.
  assert (Hrd : in_range 64 (sh + c)) by (unfold in_range; lia).
  destruct (enc_carry_exact 64 b (sh + c) ltac:(lia) Hrd) as [Hc2 _]. rewrite Hc2.
  rewrite digit_spec by lia.
  assert (E2 : 2 ^ b = 2 ^ (b - lsh) * 2 ^ lsh) by (rewrite <- Z.pow_add_r by lia; f_equal; lia).
  assert (Ev : a * 2 ^ lsh + c = (sh + c) + 2 ^ b * cr) by (unfold sh; rewrite E2; nia).
  rewrite Ev, wrap_add_mul, bdiv_add_mul by lia. f_equal.
  assert (Hk : Z.abs (bdiv b (a * 2 ^ lsh + c)) <= 2 ^ 62).
  { apply bdiv_chain; try lia. apply shifted_bound; auto; lia. }
  rewrite Ev, bdiv_add_mul in Hk by lia.
  unfold wadd. rewrite Z.add_comm. apply wrap_id; [lia|]. unfold in_range. lia.
Qed.

(* the in-place tail over limbs with headroom is the normalising chain of the shifted limbs *)
Lemma enc_tail_nchain (lsh : Z) (l : list Z) (c : Z) : 0 <= lsh < b ->
  Forall (fun x => Z.abs x <= 2 ^ 62) l -> Z.abs c <= 2 ^ 62 ->
  enc_tail b lsh l c = nchain b (map (fun x => x * 2 ^ lsh) l) c.
Proof.
  intros Hl Hf. revert c. induction Hf as [|x t Hx Ht IH]; intros c Hc; [reflexivity|].
  cbn [enc_tail map nchain].
  destruct t as [|y t'].
  - cbn [map nchain]. unfold final_step_assign.
    rewrite (final_core_ideal 64 b lsh Hb64 Hl x c) by (change (2 ^ (64 - 2)) with (2 ^ 62); assumption).
    reflexivity.
  - rewrite (enc_middle_ideal lsh x c Hl Hx Hc).
    f_equal. apply IH.
    apply bdiv_chain; try lia. apply shifted_bound; auto; lia.
Qed.

Lemma enc_tail_length (lsh : Z) (l : list Z) (c : Z) : length (enc_tail b lsh l c) = length l.
Proof.
  revert c; induction l as [|x t IH]; intros c; [reflexivity|].
  cbn [enc_tail]. destruct t as [|y t']; [reflexivity|].
  destruct (enc_middle_step b lsh x c) as [x' c']. cbn [length]. f_equal. apply IH.
Qed.

(* the normalisation loop on  hi ++ x :: rest  with length hi = size - 1 *)
Lemma enc_norm_app (lsh : Z) (hi rest : list Z) (x : Z) : 0 <= lsh < b -> in_range 64 x ->
  Forall (fun y => Z.abs y <= 2 ^ 62) hi ->
  enc_norm b lsh (S (length hi)) (hi ++ x :: rest) =
    rev (ldigs b (S (length hi)) (x * 2 ^ lsh + 2 ^ b * (lvalr b (rev hi) * 2 ^ lsh))) ++ rest.
Proof.
  intros Hl Hx Hhi. unfold enc_norm.
  assert (Ef : firstn (S (length hi)) (hi ++ x :: rest) = hi ++ [x]).
  { replace (S (length hi)) with (length (hi ++ [x])) by (rewrite app_length; cbn; lia).
    replace (hi ++ x :: rest) with ((hi ++ [x]) ++ rest) by (rewrite <- app_assoc; reflexivity).
    rewrite firstn_app, firstn_all, Nat.sub_diag. cbn [firstn]. apply app_nil_r. }
  assert (Es : skipn (S (length hi)) (hi ++ x :: rest) = rest).
  { replace (S (length hi)) with (length (hi ++ [x])) by (rewrite app_length; cbn; lia).
    replace (hi ++ x :: rest) with ((hi ++ [x]) ++ rest) by (rewrite <- app_assoc; reflexivity).
    rewrite skipn_app, skipn_all, Nat.sub_diag. reflexivity. }
  rewrite Ef, Es, rev_app_distr. cbn [rev app].
  destruct (first_full lsh x Hl Hx) as [E1 Hc]. rewrite E1.
  rewrite enc_tail_nchain by (auto; apply Forall_rev; exact Hhi).
  rewrite nchain_ldigs by lia. rewrite map_length, rev_length.
  f_equal. f_equal. cbn [ldigs].
  rewrite lvalr_scale.
  rewrite wrap_add_mul, bdiv_add_mul by lia.
  rewrite wrap_scale, bdiv_scale by lia.
  cbn [rev]. do 3 f_equal. ring.
Qed.

(* ---------- list bookkeeping ---------- *)

Lemma upd_zeros (a_size m : nat) (v : Z) : (m < a_size)%nat ->
  upd (zeros a_size) m v = zeros m ++ v :: zeros (a_size - S m).
Proof.
  revert m; induction a_size as [|n IH]; intros m Hm; [lia|].
  destruct m as [|m]; cbn [zeros repeat upd app].
  - replace (S n - 1)%nat with n by lia. reflexivity.
  - fold (zeros n). fold (zeros m). rewrite IH by lia. reflexivity.
Qed.

Lemma Forall_zeros (P : Z -> Prop) (n : nat) : P 0 -> Forall P (zeros n).
Proof. intros H. unfold zeros. induction n; cbn [repeat]; constructor; auto. Qed.

Lemma ldigs_zero (n : nat) : ldigs b n 0 = zeros n.
Proof.
  induction n as [|n IH]; [reflexivity|]. cbn [ldigs]. rewrite wrap_zero, bdiv_zero by lia.
  rewrite IH. reflexivity.
Qed.

(* ---------- encode_vec_i64 / encode_coeff_i64 ---------- *)

Theorem enc_i64_spec (k : Z) (a_size : nat) (v : Z) : 1 <= k <= Z.of_nat a_size * b -> in_range 64 v ->
  enc_i64 b k a_size v = enc_spec b k a_size v.
Proof.
  intros Hk Hv. unfold enc_i64, enc_spec. cbv zeta.
  destruct (enc_params b k ltac:(lia) ltac:(lia)) as (Esz & Hr & Hs1).
  pose proof (enc_size_le b k a_size ltac:(lia) Hk) as Hs2.
  set (size := enc_size b k) in *. set (krem := enc_krem b k) in *.
  rewrite upd_zeros by lia.
  replace (S (size - 1)) with size by lia.
  assert (El : length (zeros (size - 1)) = (size - 1)%nat) by apply repeat_length.
  replace size with (S (length (zeros (size - 1)))) at 1 by lia.
  rewrite enc_norm_app; [|lia|exact Hv|apply Forall_zeros; cbn; lia].
  rewrite El. replace (S (size - 1)) with size by lia.
  unfold zeros at 1. rewrite rev_repeat. fold (zeros (size - 1)). rewrite lvalr_zeros.
  rewrite Z.mul_0_l, Z.mul_0_r, Z.add_0_r.
  replace size with (S (size - 1)) at 1 by lia. cbn [ldigs rev].
  rewrite wrap_scale, bdiv_scale by lia. rewrite <- app_assoc. reflexivity.
Qed.

(* ---------- encode_vec_i128 ---------- *)

Lemma enc_digits128_ldigs (n : nat) (a : Z) : in_range 128 a -> enc_digits128 b n a = ldigs b n a.
Proof.
  revert a; induction n as [|n IH]; intros a Ha; [reflexivity|].
  cbn [enc_digits128 ldigs]. cbv zeta.
  destruct (enc_carry_exact 128 b a ltac:(lia) Ha) as [Hc Hcb].
  rewrite Hc. rewrite digit_spec by lia. f_equal.
  - apply wrap_id; [lia|]. apply (in_range_weaken b 64); [lia|]. apply wrap_range; lia.
  - apply IH.
    pose proof (pow2_pos b ltac:(lia)) as Hp. pose proof (pow2_split b ltac:(lia)) as Hs.
    pose proof (pow2_pos (b - 1) ltac:(lia)) as Hp1.
    assert (E : 2 ^ (128 - 1) = 2 * 2 ^ 126) by reflexivity.
    unfold in_range. rewrite E in *. nia.
Qed.

Theorem enc_i128_spec (k : Z) (a_size : nat) (v : Z) : 1 <= k <= Z.of_nat a_size * b -> in_range 128 v ->
  enc_i128 b k a_size v = enc_spec b k a_size v.
Proof.
  intros Hk Hv. unfold enc_i128, enc_spec. cbv zeta.
  destruct (enc_params b k ltac:(lia) ltac:(lia)) as (Esz & Hr & Hs1).
  pose proof (enc_size_le b k a_size ltac:(lia) Hk) as Hs2.
  set (size := enc_size b k) in *. set (krem := enc_krem b k) in *.
  rewrite enc_digits128_ldigs by auto.
  set (V := v).
  replace size with (S (size - 1)) at 1 2 by lia. cbn [ldigs rev]. rewrite <- app_assoc. cbn [app].
  set (hi := rev (ldigs b (size - 1) (bdiv b V))).
  assert (El : length hi = (size - 1)%nat) by (unfold hi; rewrite rev_length, ldigs_length; reflexivity).
  replace (S (size - 1)) with (S (length hi)) by lia.
  assert (Hd : in_range b (wrap b V)) by (apply wrap_range; lia).
  assert (Hbal : Forall (in_range b) (ldigs b (size - 1) (bdiv b V))) by (apply ldigs_balanced; lia).
  assert (H61 : 2 ^ (b - 1) <= 2 ^ 61) by (apply Z.pow_le_mono_r; lia).
  rewrite enc_norm_app; [|lia| |].
  - unfold hi at 2. rewrite rev_involutive.
    pose proof (ldigs_value b (size - 1) (bdiv b V) ltac:(lia)) as Hval.
    pose proof (wrap_bdiv b V ltac:(lia)) as HdV.
    set (L := lvalr b (ldigs b (size - 1) (bdiv b V))) in *.
    set (Q := bdivn b (size - 1) (bdiv b V)) in *.
    rewrite El. replace (S (size - 1)) with size by lia.
    assert (Esz2 : 2 ^ (Z.of_nat size * b) = 2 ^ b * 2 ^ (Z.of_nat (size - 1) * b)).
    { rewrite <- Z.pow_add_r by lia. f_equal. nia. }
    replace (wrap b V * 2 ^ krem + 2 ^ b * (L * 2 ^ krem))
      with (V * 2 ^ krem + 2 ^ (Z.of_nat size * b) * (- Q * 2 ^ krem)) by (rewrite Esz2; nia).
    rewrite ldigs_periodic by lia.
    replace size with (S (size - 1)) at 1 by lia. cbn [ldigs rev].
    rewrite wrap_scale, bdiv_scale by lia.
    rewrite <- app_assoc. cbn [app]. reflexivity.
  - apply (in_range_weaken b 64); [lia|exact Hd].
  - unfold hi. apply Forall_rev. eapply Forall_impl; [|exact Hbal].
    intros y [Hy1 Hy2]. assert (2 ^ 61 <= 2 ^ 62) by (apply Z.pow_le_mono_r; lia). lia.
Qed.

End B.
