(* C12 - "the maximum over a set of operations serves all of them", instantiated on the sets of operations whose sizes the
   crate's own test helpers combine into ONE scratch buffer (with `|`, which dominates the maximum on non-negative sizes, or
   with `.max`): poulpy-core/src/test_suite/{keyswitch/glwe_ct, external_product/glwe_ct, automorphism/ggsw_ct, trace,
   glwe_packing, keyswitch/lwe_ct}.rs. *)
From PV Require Import Base.MachineInt Model.C12Scratch Gen.C12TmpBytes_gen Model.C12Trees
  Proofs.C12Arena Proofs.C12Hal Proofs.C12Core Proofs.C12KeySwitch Proofs.C12More Proofs.C12Conv Proofs.C12Ggsw Proofs.C12KeyEnc.
Open Scope Z_scope.

Lemma lor_ge_l (a b : Z) : 0 <= a -> 0 <= b -> a <= Z.lor a b.
Proof.
  intros Ha Hb. apply (Z.ldiff_le a (Z.lor a b)); [apply Z.lor_nonneg; auto|].
  apply Z.bits_inj'. intros k Hk. rewrite Z.ldiff_spec, Z.lor_spec, Z.bits_0.
  destruct (Z.testbit a k), (Z.testbit b k); reflexivity.
Qed.
Lemma lor_ge_r (a b : Z) : 0 <= a -> 0 <= b -> b <= Z.lor a b.
Proof. intros. rewrite Z.lor_comm. apply lor_ge_l; auto. Qed.
Lemma lor_nn (a b : Z) : 0 <= a -> 0 <= b -> 0 <= Z.lor a b.
Proof. intros. apply Z.lor_nonneg; auto. Qed.

(* a run that succeeds on the declared size succeeds on every larger buffer (C12Arena.max_serves_all) *)
Lemma serves_larger (t : tree) (F B : Z) : run_takes t (0, F) <> None -> F <= B -> run_takes t (0, B) <> None.
Proof. intros H Hle. rewrite (max_serves_all t 0 F B Hle H). exact H. Qed.

Section Helpers.
  Variables fam n : Z.
  Hypothesis Hf : is_fam fam.
  Hypothesis Hn0 : 0 <= n.
  Hypothesis Hn8 : n mod 8 = 0.

  (* non-negativity of the sizes that are combined *)
  Lemma nn_enc_sk (g : infos) : 0 <= i_size g -> 0 <= glwe_encrypt_sk_tmp_bytes fam n g.
  Proof using Hf Hn0 Hn8. intros H. destruct (enc_sk_spec fam n Hf Hn0 Hn8 g H) as (_ & _ & N). exact N. Qed.
  Lemma nn_gglwe_enc (k : infos) : wf_infos k -> i_n k = n -> 0 <= gglwe_encrypt_sk_tmp_bytes fam n k.
  Proof using Hf Hn0 Hn8. intros H1 H2. destruct (gglwe_encrypt_spec fam n Hf Hn0 Hn8 k H1 H2) as (_ & _ & N). exact N. Qed.
  Lemma nn_switching_key (k : infos) : wf_infos k -> i_n k = n -> 0 <= glwe_switching_key_encrypt_sk_tmp_bytes fam n k.
  Proof using Hf Hn0 Hn8.
    intros H1 H2. destruct (switching_key_spec fam n Hf Hn0 Hn8 k H1 H2) as (A & D). pose proof (aligned_need_nonneg _ A). lia.
  Qed.
  Lemma nn_keyswitch (r a k : infos) : wf_infos r -> wf_infos a -> wf_infos k -> i_n a = n -> i_rank a = i_rank_in k ->
    0 <= glwe_keyswitch_tmp_bytes fam n r a k.
  Proof using Hf Hn0 Hn8. intros. destruct (keyswitch_spec fam n Hf Hn0 Hn8 r a k) as (_ & _ & N); auto. Qed.
  Lemma nn_ggsw_enc (g : infos) : wf_infos g -> i_n g = n -> 0 <= ggsw_encrypt_sk_tmp_bytes fam n g.
  Proof using Hf Hn0 Hn8.
    intros H1 H2. assert (Hs : 0 <= i_size g) by (destruct H1 as (_&?&_); lia).
    pose proof (nn_enc_sk g Hs). pose proof (al_vec_znx fam n Hf Hn0 Hn8 1 (i_size g) ltac:(lia) Hs).
    unfold ggsw_encrypt_sk_tmp_bytes. cbv zeta. rewrite (plaintext_bytes_eq fam n Hf Hn0 Hn8 g H1 H2). lia.
  Qed.
  Lemma nn_external_product (r a g : infos) : wf_infos r -> wf_infos a -> wf_infos g -> i_n a = n ->
    0 <= glwe_external_product_tmp_bytes fam n r a g.
  Proof using Hf Hn0 Hn8.
    intros. destruct (external_product_spec fam n Hf Hn0 Hn8 r a g) as (A & D); auto. pose proof (aligned_need_nonneg _ A). lia.
  Qed.
  Lemma nn_atk_enc (k : infos) : wf_infos k -> i_n k = n -> 0 <= glwe_automorphism_key_encrypt_sk_tmp_bytes fam n k.
  Proof using Hf Hn0 Hn8.
    intros H1 H2. pose proof (nn_gglwe_enc k H1 H2). pose proof (al_svp fam n Hf Hn0 Hn8 (i_rank k) ltac:(destruct H1 as (_&_&?&_); lia)).
    unfold glwe_automorphism_key_encrypt_sk_tmp_bytes, glwe_secret_prepared_bytes_of_from_infos, glwe_secret_prepared_bytes_of. cbv zeta. lia.
  Qed.
  Lemma nn_tsk_enc (k : infos) : wf_infos k -> i_n k = n -> 0 <= gglwe_to_ggsw_key_encrypt_sk_tmp_bytes fam n k.
  Proof using Hf Hn0 Hn8.
    intros H1 H2. assert (Hr : 0 <= i_rank k) by (destruct H1 as (_&_&?&_); lia).
    pose proof (nn_gglwe_enc k H1 H2). pose proof (al_svp fam n Hf Hn0 Hn8 (i_rank k) Hr).
    destruct (pairs_facts (i_rank k) Hr) as [P1 P2].
    pose proof (al_scalar_znx fam n Hf Hn0 Hn8 (GLWESecretTensor_pairs (GLWESecretTensor_pairs (i_rank k))) ltac:(lia)).
    pose proof (al_scalar_znx fam n Hf Hn0 Hn8 (i_rank k) Hr).
    unfold gglwe_to_ggsw_key_encrypt_sk_tmp_bytes, glwe_secret_prepared_bytes_of, GLWESecretTensor_bytes_of_from_infos,
      GLWESecretTensor_bytes_of, GLWESecret_bytes_of. cbv zeta. rewrite H2. lia.
  Qed.
  Lemma nn_ggsw_automorphism (r a k t : infos) : wf_infos r -> wf_infos t -> i_rank r = i_rank_in t ->
    0 <= ggsw_automorphism_tmp_bytes fam n r a k t.
  Proof using Hf Hn0 Hn8.
    intros H1 H2 H3. destruct (expand_rows_spec fam n Hf Hn0 Hn8 r t H1 H2 H3) as (_ & _ & N). unfold ggsw_automorphism_tmp_bytes. lia.
  Qed.
  Lemma nn_decrypt (g : infos) : 0 <= i_size g -> 0 <= glwe_decrypt_tmp_bytes fam n g.
  Proof using Hf Hn0 Hn8.
    intros Hs. pose proof (al_big fam n Hf Hn0 Hn8 1 (i_size g) ltac:(lia) Hs). pose proof (nn_bnorm fam n Hf Hn0 Hn8).
    unfold glwe_decrypt_tmp_bytes. cbv zeta. lia.
  Qed.
  Lemma nn_trace (r a k : infos) : wf_infos r -> wf_infos a -> wf_infos k -> i_n r = n -> i_rank r = i_rank_in k ->
    0 <= glwe_trace_tmp_bytes fam n r a k.
  Proof using Hf Hn0 Hn8.
    intros. destruct (trace_spec fam n Hf Hn0 Hn8 r a k 0) as (A & D); auto. pose proof (aligned_need_nonneg _ A). lia.
  Qed.
  Lemma nn_pack (r k : infos) : wf_infos r -> wf_infos k -> i_n r = n -> i_rank r = i_rank_in k -> 0 <= glwe_pack_tmp_bytes fam n r k.
  Proof using Hf Hn0 Hn8.
    intros. pose proof (nn_trace r r k). unfold glwe_pack_tmp_bytes, glwe_pack_tmp_bytes_for_input. cbv zeta. lia.
  Qed.
  Lemma nn_lwe_switching_key (k : infos) : wf_infos k -> i_n k = n -> 0 <= lwe_switching_key_encrypt_sk_tmp_bytes fam n k.
  Proof using Hf Hn0 Hn8.
    intros H1 H2. pose proof (nn_switching_key k H1 H2). pose proof (al_scalar_znx fam n Hf Hn0 Hn8 1 ltac:(lia)).
    unfold lwe_switching_key_encrypt_sk_tmp_bytes, GLWESecret_bytes_of. cbv zeta. lia.
  Qed.
  Lemma nn_lwe_keyswitch (r a k : infos) : wf_infos r -> wf_infos a -> wf_infos k -> i_rank_in k = 1 ->
    0 <= lwe_keyswitch_tmp_bytes fam n r a k.
  Proof using Hf Hn0 Hn8.
    intros Hr Ha Hk Hrk.
    assert (Hrb : 1 <= i_base2k r) by (destruct Hr; lia). assert (Hab : 1 <= i_base2k a) by (destruct Ha; lia).
    assert (Hmr : 0 <= i_max_k r) by (destruct Hr as (?&?&_); unfold i_max_k; nia).
    assert (Hma : 0 <= i_max_k a) by (destruct Ha as (?&?&_); unfold i_max_k; nia).
    set (mk := Z.max (i_max_k a) (i_max_k r)).
    destruct (glwe1_facts fam n Hf Hn0 Hn8 (i_base2k a) mk Hab ltac:(unfold mk; lia)) as (WI & NI & RI & BI & SI & II0 & _).
    destruct (glwe1_facts fam n Hf Hn0 Hn8 (i_base2k r) mk Hrb ltac:(unfold mk; lia)) as (WO & NO & RO & BO & SO & OO0 & _).
    pose proof (nn_keyswitch _ _ k WO WI Hk NI ltac:(lia)) as Hks.
    unfold lwe_keyswitch_tmp_bytes. cbv zeta. fold mk. fold (glwe1 n (i_base2k a) mk). fold (glwe1 n (i_base2k r) mk).
    rewrite (glwe_bytes_eq _ WI), (glwe_bytes_eq _ WO). lia.
  Qed.

  (* ---------------------------------------------------------------------------------------------- *)
  (* test_suite/keyswitch/glwe_ct.rs: switching-key encryption | ciphertext encryption | key-switch *)
  Lemma helper_keyswitch_glwe (ksk gin gout : infos) :
    wf_infos ksk -> wf_infos gin -> wf_infos gout -> i_n ksk = n -> i_n gin = n -> i_rank gin = i_rank_in ksk ->
    let B := Z.lor (Z.lor (glwe_switching_key_encrypt_sk_tmp_bytes fam n ksk) (glwe_encrypt_sk_tmp_bytes fam n gin))
                   (glwe_keyswitch_tmp_bytes fam n gout gin ksk) in
    run_takes (tree_glwe_switching_key_encrypt_sk fam n ksk) (0, B) <> None /\
    run_takes (tree_glwe_encrypt_sk fam n gin) (0, B) <> None /\
    run_takes (tree_glwe_keyswitch fam n gout gin ksk) (0, B) <> None.
  Proof using Hf Hn0 Hn8.
    intros Hk Hi Ho Nk Ni Hrk B.
    assert (Hs : 0 <= i_size gin) by (destruct Hi as (_&?&_); lia).
    pose proof (nn_switching_key ksk Hk Nk) as N1. pose proof (nn_enc_sk gin Hs) as N2.
    pose proof (nn_keyswitch gout gin ksk Ho Hi Hk Ni Hrk) as N3.
    pose proof (lor_ge_l _ _ N1 N2). pose proof (lor_ge_r _ _ N1 N2). pose proof (lor_nn _ _ N1 N2) as N12.
    pose proof (lor_ge_l _ _ N12 N3). pose proof (lor_ge_r _ _ N12 N3).
    split; [|split].
    - apply (serves_larger _ _ B (suffices_glwe_switching_key_encrypt_sk fam n Hf Hn0 Hn8 ksk Hk Nk)). unfold B; lia.
    - apply (serves_larger _ _ B (suffices_glwe_encrypt_sk fam n Hf Hn0 Hn8 gin Hs)). unfold B; lia.
    - apply (serves_larger _ _ B (suffices_glwe_keyswitch fam n Hf Hn0 Hn8 gout gin ksk Ho Hi Hk Ni Hrk)). unfold B; lia.
  Qed.

  (* test_suite/external_product/glwe_ct.rs: GGSW encryption | ciphertext encryption | external product *)
  Lemma helper_external_product_glwe (ggsw gin gout : infos) :
    wf_infos ggsw -> wf_infos gin -> wf_infos gout -> i_n ggsw = n -> i_n gin = n ->
    let B := Z.lor (Z.lor (ggsw_encrypt_sk_tmp_bytes fam n ggsw) (glwe_encrypt_sk_tmp_bytes fam n gin))
                   (glwe_external_product_tmp_bytes fam n gout gin ggsw) in
    run_takes (tree_ggsw_encrypt_sk fam n ggsw) (0, B) <> None /\
    run_takes (tree_glwe_encrypt_sk fam n gin) (0, B) <> None /\
    run_takes (tree_glwe_external_product fam n gout gin ggsw) (0, B) <> None.
  Proof using Hf Hn0 Hn8.
    intros Hg Hi Ho Ng Ni B.
    assert (Hs : 0 <= i_size gin) by (destruct Hi as (_&?&_); lia).
    pose proof (nn_ggsw_enc ggsw Hg Ng) as N1. pose proof (nn_enc_sk gin Hs) as N2.
    pose proof (nn_external_product gout gin ggsw Ho Hi Hg Ni) as N3.
    pose proof (lor_ge_l _ _ N1 N2). pose proof (lor_ge_r _ _ N1 N2). pose proof (lor_nn _ _ N1 N2) as N12.
    pose proof (lor_ge_l _ _ N12 N3). pose proof (lor_ge_r _ _ N12 N3).
    split; [|split].
    - apply (serves_larger _ _ B (suffices_ggsw_encrypt_sk fam n Hf Hn0 Hn8 ggsw Hg Ng)). unfold B; lia.
    - apply (serves_larger _ _ B (suffices_glwe_encrypt_sk fam n Hf Hn0 Hn8 gin Hs)). unfold B; lia.
    - apply (serves_larger _ _ B (suffices_glwe_external_product fam n Hf Hn0 Hn8 gout gin ggsw Ho Hi Hg Ni)). unfold B; lia.
  Qed.

  (* test_suite/automorphism/ggsw_ct.rs: GGSW encryption | automorphism-key encryption | tensor-switching-key encryption |
     GGSW automorphism *)
  Lemma helper_automorphism_ggsw (cin cout key tsk : infos) :
    wf_infos cin -> wf_infos cout -> wf_infos key -> wf_infos tsk -> i_n cin = n -> i_n key = n -> i_n tsk = n ->
    i_rank cin = i_rank_in key -> i_rank cout = i_rank_in tsk ->
    let B := Z.lor (Z.lor (Z.lor (ggsw_encrypt_sk_tmp_bytes fam n cin) (glwe_automorphism_key_encrypt_sk_tmp_bytes fam n key))
                          (gglwe_to_ggsw_key_encrypt_sk_tmp_bytes fam n tsk))
                   (ggsw_automorphism_tmp_bytes fam n cout cin key tsk) in
    run_takes (tree_ggsw_encrypt_sk fam n cin) (0, B) <> None /\
    run_takes (tree_glwe_automorphism_key_encrypt_sk fam n key) (0, B) <> None /\
    run_takes (tree_gglwe_to_ggsw_key_encrypt_sk fam n tsk) (0, B) <> None /\
    run_takes (tree_ggsw_automorphism fam n cout cin key tsk) (0, B) <> None.
  Proof using Hf Hn0 Hn8.
    intros Hi Ho Hk Ht Ni Nk Nt Hrk Hrt B.
    pose proof (nn_ggsw_enc cin Hi Ni) as N1. pose proof (nn_atk_enc key Hk Nk) as N2. pose proof (nn_tsk_enc tsk Ht Nt) as N3.
    pose proof (nn_ggsw_automorphism cout cin key tsk Ho Ht Hrt) as N4.
    pose proof (lor_ge_l _ _ N1 N2). pose proof (lor_ge_r _ _ N1 N2). pose proof (lor_nn _ _ N1 N2) as N12.
    pose proof (lor_ge_l _ _ N12 N3). pose proof (lor_ge_r _ _ N12 N3). pose proof (lor_nn _ _ N12 N3) as N123.
    pose proof (lor_ge_l _ _ N123 N4). pose proof (lor_ge_r _ _ N123 N4).
    split; [|split; [|split]].
    - apply (serves_larger _ _ B (suffices_ggsw_encrypt_sk fam n Hf Hn0 Hn8 cin Hi Ni)). unfold B; lia.
    - apply (serves_larger _ _ B (suffices_glwe_automorphism_key_encrypt_sk fam n Hf Hn0 Hn8 key Hk Nk)). unfold B; lia.
    - apply (serves_larger _ _ B (suffices_gglwe_to_ggsw_key_encrypt_sk fam n Hf Hn0 Hn8 tsk Ht Nt)). unfold B; lia.
    - apply (serves_larger _ _ B (suffices_ggsw_automorphism fam n Hf Hn0 Hn8 cout cin key tsk Ho Hi Hk Ht Ni Hrk Hrt)). unfold B; lia.
  Qed.

  (* test_suite/trace.rs: encryption | decryption | automorphism-key encryption | trace *)
  Lemma helper_trace (g key : infos) (steps : Z) :
    wf_infos g -> wf_infos key -> i_n g = n -> i_n key = n -> i_rank g = i_rank_in key ->
    let B := Z.lor (Z.lor (Z.lor (glwe_encrypt_sk_tmp_bytes fam n g) (glwe_decrypt_tmp_bytes fam n g))
                          (glwe_automorphism_key_encrypt_sk_tmp_bytes fam n key))
                   (glwe_trace_tmp_bytes fam n g g key) in
    run_takes (tree_glwe_encrypt_sk fam n g) (0, B) <> None /\
    run_takes (tree_glwe_decrypt fam n g) (0, B) <> None /\
    run_takes (tree_glwe_automorphism_key_encrypt_sk fam n key) (0, B) <> None /\
    run_takes (tree_glwe_trace fam n g g key steps) (0, B) <> None.
  Proof using Hf Hn0 Hn8.
    intros Hg Hk Ng Nk Hrk B.
    assert (Hs : 0 <= i_size g) by (destruct Hg as (_&?&_); lia). assert (Hr : 0 <= i_rank g) by (destruct Hg as (_&_&?&_); lia).
    pose proof (nn_enc_sk g Hs) as N1. pose proof (nn_decrypt g Hs) as N2. pose proof (nn_atk_enc key Hk Nk) as N3.
    pose proof (nn_trace g g key Hg Hg Hk Ng Hrk) as N4.
    pose proof (lor_ge_l _ _ N1 N2). pose proof (lor_ge_r _ _ N1 N2). pose proof (lor_nn _ _ N1 N2) as N12.
    pose proof (lor_ge_l _ _ N12 N3). pose proof (lor_ge_r _ _ N12 N3). pose proof (lor_nn _ _ N12 N3) as N123.
    pose proof (lor_ge_l _ _ N123 N4). pose proof (lor_ge_r _ _ N123 N4).
    split; [|split; [|split]].
    - apply (serves_larger _ _ B (suffices_glwe_encrypt_sk fam n Hf Hn0 Hn8 g Hs)). unfold B; lia.
    - apply (serves_larger _ _ B (suffices_glwe_decrypt fam n Hf Hn0 Hn8 g Hs Hr)). unfold B; lia.
    - apply (serves_larger _ _ B (suffices_glwe_automorphism_key_encrypt_sk fam n Hf Hn0 Hn8 key Hk Nk)). unfold B; lia.
    - apply (serves_larger _ _ B (suffices_glwe_trace fam n Hf Hn0 Hn8 g g key steps Hg Hg Hk Ng Hrk)). unfold B; lia.
  Qed.

  (* test_suite/glwe_packing.rs: encryption .max automorphism-key encryption .max packing (inputs with the layout of the result) *)
  Lemma helper_packing (g key : infos) (iters steps : Z) :
    wf_infos g -> wf_infos key -> i_n g = n -> i_n key = n -> i_rank g = i_rank_in key ->
    let B := Z.max (Z.max (glwe_encrypt_sk_tmp_bytes fam n g) (glwe_automorphism_key_encrypt_sk_tmp_bytes fam n key))
                   (glwe_pack_tmp_bytes fam n g key) in
    run_takes (tree_glwe_encrypt_sk fam n g) (0, B) <> None /\
    run_takes (tree_glwe_automorphism_key_encrypt_sk fam n key) (0, B) <> None /\
    run_takes (tree_glwe_pack fam n g g key iters steps) (0, B) <> None.
  Proof using Hf Hn0 Hn8.
    intros Hg Hk Ng Nk Hrk B.
    assert (Hs : 0 <= i_size g) by (destruct Hg as (_&?&_); lia).
    split; [|split].
    - apply (serves_larger _ _ B (suffices_glwe_encrypt_sk fam n Hf Hn0 Hn8 g Hs)). unfold B; lia.
    - apply (serves_larger _ _ B (suffices_glwe_automorphism_key_encrypt_sk fam n Hf Hn0 Hn8 key Hk Nk)). unfold B; lia.
    - apply (serves_larger _ _ B (suffices_glwe_pack fam n Hf Hn0 Hn8 g key iters steps Hg Hk Ng Hrk)). unfold B; lia.
  Qed.

  (* test_suite/keyswitch/lwe_ct.rs: LWE switching-key encryption | LWE key-switch *)
  Lemma helper_keyswitch_lwe (key lin lout : infos) :
    wf_infos key -> wf_infos lin -> wf_infos lout -> i_n key = n -> i_rank_in key = 1 ->
    let B := Z.lor (lwe_switching_key_encrypt_sk_tmp_bytes fam n key) (lwe_keyswitch_tmp_bytes fam n lout lin key) in
    run_takes (tree_lwe_switching_key_encrypt_sk fam n key) (0, B) <> None /\
    run_takes (tree_lwe_keyswitch fam n lout lin key) (0, B) <> None.
  Proof using Hf Hn0 Hn8.
    intros Hk Hi Ho Nk Hrk B.
    pose proof (nn_lwe_switching_key key Hk Nk) as N1. pose proof (nn_lwe_keyswitch lout lin key Ho Hi Hk Hrk) as N2.
    pose proof (lor_ge_l _ _ N1 N2). pose proof (lor_ge_r _ _ N1 N2).
    split.
    - apply (serves_larger _ _ B (suffices_lwe_switching_key_encrypt_sk fam n Hf Hn0 Hn8 key Hk Nk)). unfold B; lia.
    - apply (serves_larger _ _ B (suffices_lwe_keyswitch fam n Hf Hn0 Hn8 lout lin key Ho Hi Hk Hrk)). unfold B; lia.
  Qed.
End Helpers.
