(* C02: the algebra of Z[X]/(X^n+1) on coefficient lists that the phase theorems need.
   Self-contained on purpose (depends on Model files only): exact negacyclic extension `xext`, coefficient formula of
   `pmul`, linearity of `pmul s .`, commutation with monomials X^p for every p in Z, an l1/l-infinity bound. *)
From PV Require Import Base.MachineInt Model.Znx Model.Limbs Model.Ring Model.DftAbs Model.C02Ops.
Open Scope Z_scope.

(* ---------------------------------------------------------------- lists *)
Lemma nthZ_ext (l1 l2 : list Z) :
  length l1 = length l2 -> (forall i, (i < length l1)%nat -> nthZ l1 i = nthZ l2 i) -> l1 = l2.
Proof. intros Hl H. apply (nth_ext l1 l2 0 0 Hl). exact H. Qed.

Lemma nth_map_seq {A} (f : nat -> A) (d : A) (n i : nat) : (i < n)%nat -> nth i (map f (seq 0 n)) d = f i.
Proof.
  intros Hi. rewrite (nth_indep _ d (f 0%nat)) by (rewrite map_length, seq_length; exact Hi).
  rewrite (map_nth f (seq 0 n) 0%nat i), seq_nth by exact Hi. reflexivity.
Qed.
Lemma nthZ_map_seq (f : nat -> Z) (n i : nat) : (i < n)%nat -> nthZ (map f (seq 0 n)) i = f i.
Proof. apply nth_map_seq. Qed.
Lemma map_seq_length {A} (f : nat -> A) n : length (map f (seq 0 n)) = n.
Proof. rewrite map_length, seq_length; reflexivity. Qed.
Lemma map_seq_ext {A} (f g : nat -> A) n : (forall i, (i < n)%nat -> f i = g i) -> map f (seq 0 n) = map g (seq 0 n).
Proof. intros H. apply map_ext_in. intros i Hi. apply in_seq in Hi. apply H. lia. Qed.
Lemma nthZ_overflow (l : list Z) i : (length l <= i)%nat -> nthZ l i = 0.
Proof. apply nth_overflow. Qed.
Lemma nthZ_map (f : Z -> Z) (l : list Z) i : (i < length l)%nat -> nthZ (map f l) i = f (nthZ l i).
Proof.
  intros Hi. unfold nthZ. rewrite (nth_indep _ 0 (f 0)) by (rewrite map_length; exact Hi). apply map_nth.
Qed.

Lemma build_length rsz (f : nat -> list Z) : length (build rsz f) = rsz.
Proof. apply map_seq_length. Qed.
Lemma build_nth rsz (f : nat -> list Z) j d : (j < rsz)%nat -> nth j (build rsz f) d = f j.
Proof. apply nth_map_seq. Qed.
Lemma build_ext rsz (f g : nat -> list Z) : (forall j, (j < rsz)%nat -> f j = g j) -> build rsz f = build rsz g.
Proof. apply map_seq_ext. Qed.

Lemma map2_length {A B C} (f : A -> B -> C) l1 l2 : length (map2 f l1 l2) = Nat.min (length l1) (length l2).
Proof. unfold map2. rewrite map_length, combine_length. reflexivity. Qed.
Lemma nthZ_map2 (f : Z -> Z -> Z) (a b : list Z) k : (k < length a)%nat -> (k < length b)%nat ->
  nthZ (map2 f a b) k = f (nthZ a k) (nthZ b k).
Proof.
  unfold map2, nthZ. revert b k; induction a as [|x a IH]; intros [|y b] [|k] Ha Hb; cbn [length] in *; try lia.
  - reflexivity.
  - cbn [combine map nth]. apply IH; lia.
Qed.

Lemma zeros_length k : length (zeros k) = k.
Proof. apply repeat_length. Qed.
Lemma nthZ_zeros k i : nthZ (zeros k) i = 0.
Proof. unfold nthZ, zeros. destruct (Nat.lt_ge_cases i k) as [H|H].
  - apply nth_repeat.
  - apply nth_overflow. rewrite repeat_length. exact H. Qed.

Lemma padd_length a b : length (padd a b) = Nat.min (length a) (length b).
Proof. apply map2_length. Qed.
Lemma psub_length a b : length (psub a b) = Nat.min (length a) (length b).
Proof. apply map2_length. Qed.
Lemma pneg_length a : length (pneg a) = length a.
Proof. apply map_length. Qed.
Lemma pzero_length n : length (pzero n) = n.
Proof. apply zeros_length. Qed.
Lemma nthZ_pzero n i : nthZ (pzero n) i = 0.
Proof. apply nthZ_zeros. Qed.
Lemma nthZ_padd a b k : length b = length a -> nthZ (padd a b) k = nthZ a k + nthZ b k.
Proof.
  intros Hl. destruct (Nat.lt_ge_cases k (length a)) as [H|H].
  - unfold padd. apply nthZ_map2; lia.
  - rewrite !nthZ_overflow; try lia. rewrite padd_length. lia.
Qed.
Lemma nthZ_psub a b k : length b = length a -> nthZ (psub a b) k = nthZ a k - nthZ b k.
Proof.
  intros Hl. destruct (Nat.lt_ge_cases k (length a)) as [H|H].
  - unfold psub. apply nthZ_map2; lia.
  - rewrite !nthZ_overflow; try lia. rewrite psub_length. lia.
Qed.
Lemma nthZ_pneg a k : nthZ (pneg a) k = - nthZ a k.
Proof.
  destruct (Nat.lt_ge_cases k (length a)) as [H|H].
  - unfold pneg. apply nthZ_map; auto.
  - rewrite !nthZ_overflow; try lia. rewrite pneg_length. lia.
Qed.

Lemma padd_pzero_r a : padd a (pzero (length a)) = a.
Proof.
  apply nthZ_ext; [rewrite padd_length, pzero_length; lia|].
  intros i _. rewrite nthZ_padd by apply pzero_length. rewrite nthZ_pzero. lia.
Qed.
Lemma padd_pzero_l a : padd (pzero (length a)) a = a.
Proof.
  apply nthZ_ext; [rewrite padd_length, pzero_length; lia|].
  intros i _. rewrite nthZ_padd by (rewrite pzero_length; reflexivity). rewrite nthZ_pzero. lia.
Qed.
Lemma psub_pzero_r a : psub a (pzero (length a)) = a.
Proof.
  apply nthZ_ext; [rewrite psub_length, pzero_length; lia|].
  intros i _. rewrite nthZ_psub by apply pzero_length. rewrite nthZ_pzero. lia.
Qed.
Lemma psub_pzero_l a : psub (pzero (length a)) a = pneg a.
Proof.
  apply nthZ_ext; [rewrite psub_length, pzero_length, pneg_length; lia|].
  intros i _. rewrite nthZ_psub by (rewrite pzero_length; reflexivity). rewrite nthZ_pzero, nthZ_pneg. lia.
Qed.
Lemma padd_pzero_l' n a : length a = n -> padd (pzero n) a = a.
Proof. intros <-. apply padd_pzero_l. Qed.
Lemma padd_pzero_r' n a : length a = n -> padd a (pzero n) = a.
Proof. intros <-. apply padd_pzero_r. Qed.
Lemma psub_pzero_r' n a : length a = n -> psub a (pzero n) = a.
Proof. intros <-. apply psub_pzero_r. Qed.
Lemma psub_pzero_l' n a : length a = n -> psub (pzero n) a = pneg a.
Proof. intros <-. apply psub_pzero_l. Qed.
Lemma pneg_pzero n : pneg (pzero n) = pzero n.
Proof.
  apply nthZ_ext; [rewrite pneg_length; reflexivity|].
  intros i _. rewrite nthZ_pneg, nthZ_pzero. reflexivity.
Qed.

(* ---------------------------------------------------------------- finite sums *)
Fixpoint zsum (f : nat -> Z) (n : nat) : Z := match n with O => 0 | S m => zsum f m + f m end.

Lemma fold_add_zsum (g : nat -> Z) n acc : fold_left (fun a i => a + g i) (seq 0 n) acc = acc + zsum g n.
Proof.
  induction n as [|n IH]; [cbn [zsum seq fold_left]; lia|].
  rewrite seq_S, fold_left_app. cbn [fold_left Nat.add zsum]. rewrite IH. lia.
Qed.
Lemma zsum_ext f g n : (forall i, (i < n)%nat -> f i = g i) -> zsum f n = zsum g n.
Proof. induction n as [|n IH]; intros H; cbn [zsum]; [reflexivity|]. rewrite IH, H by (intros; try apply H; lia). reflexivity. Qed.
Lemma zsum_zero n : zsum (fun _ => 0) n = 0.
Proof. induction n; cbn [zsum]; lia. Qed.
Lemma zsum_add f g n : zsum (fun i => f i + g i) n = zsum f n + zsum g n.
Proof. induction n; cbn [zsum]; lia. Qed.
Lemma zsum_sub f g n : zsum (fun i => f i - g i) n = zsum f n - zsum g n.
Proof. induction n; cbn [zsum]; lia. Qed.
Lemma zsum_opp f n : zsum (fun i => - f i) n = - zsum f n.
Proof. induction n; cbn [zsum]; lia. Qed.
Lemma zsum_mul_l c f n : zsum (fun i => c * f i) n = c * zsum f n.
Proof. induction n; cbn [zsum]; lia. Qed.
Lemma zsum_swap (f : nat -> nat -> Z) n m :
  zsum (fun i => zsum (fun j => f i j) m) n = zsum (fun j => zsum (fun i => f i j) n) m.
Proof.
  induction n as [|n IH]; cbn [zsum].
  - rewrite zsum_zero. reflexivity.
  - rewrite IH, <- zsum_add. reflexivity.
Qed.
Lemma zsum_abs_le (f : nat -> Z) (g : nat -> Z) n :
  (forall i, (i < n)%nat -> Z.abs (f i) <= g i) -> Z.abs (zsum f n) <= zsum g n.
Proof.
  induction n as [|n IH]; intros H; cbn [zsum]; [lia|].
  pose proof (IH ltac:(intros; apply H; lia)). pose proof (H n ltac:(lia)). lia.
Qed.

(* ---------------------------------------------------------------- the exact negacyclic extension *)
Definition sg (q : Z) : Z := if Z.even q then 1 else -1.
Lemma sg_add p q : sg (p + q) = sg p * sg q.
Proof. unfold sg. rewrite Z.even_add. destruct (Z.even p), (Z.even q); reflexivity. Qed.
Lemma sg_sq q : sg q * sg q = 1.
Proof. unfold sg. destruct (Z.even q); reflexivity. Qed.

Lemma xext_at (a : list Z) (k q : Z) (r : nat) :
  k = q * Z.of_nat (length a) + Z.of_nat r -> (r < length a)%nat -> xext a k = sg q * nthZ a r.
Proof.
  intros -> Hr. unfold xext, sg. cbv zeta.
  set (n := Z.of_nat (length a)) in *.
  assert (Hq : (q * n + Z.of_nat r) / n = q).
  { rewrite Z.div_add_l by lia. rewrite Z.div_small by lia. lia. }
  assert (Hm : (q * n + Z.of_nat r) mod n = Z.of_nat r).
  { rewrite Z.add_comm, Z.mod_add by lia. apply Z.mod_small; lia. }
  rewrite Hq, Hm, Nat2Z.id. destruct (Z.even q); lia.
Qed.

Lemma exp_decomp (n k : Z) : 0 < n -> exists q (r : nat), k = q * n + Z.of_nat r /\ Z.of_nat r < n.
Proof.
  intros Hn. exists (k / n), (Z.to_nat (k mod n)).
  pose proof (Z.mod_pos_bound k n Hn). pose proof (Z.div_mod k n ltac:(lia)).
  rewrite Z2Nat.id by lia. lia.
Qed.

Lemma xext_len0 (a : list Z) k : length a = 0%nat -> xext a k = 0.
Proof.
  intros H. destruct a; [|discriminate]. unfold xext, nthZ. cbv zeta.
  destruct (Z.even _), (Z.to_nat _); reflexivity.
Qed.

Lemma xext_small (a : list Z) (i : nat) : (i < length a)%nat -> xext a (Z.of_nat i) = nthZ a i.
Proof. intros Hi. rewrite (xext_at a _ 0 i) by (auto; lia). unfold sg; cbn [Z.even]; lia. Qed.

Lemma xext_shift (a : list Z) (k q : Z) : (0 < length a)%nat ->
  xext a (k + q * Z.of_nat (length a)) = sg q * xext a k.
Proof.
  intros Hn.
  destruct (exp_decomp (Z.of_nat (length a)) k ltac:(lia)) as (q0 & r & Hk & Hr).
  rewrite (xext_at a k q0 r) by (auto; lia).
  rewrite (xext_at a _ (q0 + q) r) by (try lia).
  rewrite sg_add. lia.
Qed.

Lemma xext_padd a b k : length b = length a -> xext (padd a b) k = xext a k + xext b k.
Proof.
  intros Hl. destruct (Nat.eq_dec (length a) 0) as [H0|H0].
  - rewrite !xext_len0 by (rewrite ?padd_length; lia). lia.
  - destruct (exp_decomp (Z.of_nat (length a)) k ltac:(lia)) as (q & r & Hk & Hr).
    rewrite (xext_at a k q r), (xext_at b k q r), (xext_at (padd a b) k q r); try lia;
      try (rewrite padd_length; lia).
    rewrite nthZ_padd by auto. lia.
Qed.
Lemma xext_psub a b k : length b = length a -> xext (psub a b) k = xext a k - xext b k.
Proof.
  intros Hl. destruct (Nat.eq_dec (length a) 0) as [H0|H0].
  - rewrite !xext_len0 by (rewrite ?psub_length; lia). lia.
  - destruct (exp_decomp (Z.of_nat (length a)) k ltac:(lia)) as (q & r & Hk & Hr).
    rewrite (xext_at a k q r), (xext_at b k q r), (xext_at (psub a b) k q r); try lia;
      try (rewrite psub_length; lia).
    rewrite nthZ_psub by auto. lia.
Qed.
Lemma xext_pneg a k : xext (pneg a) k = - xext a k.
Proof.
  destruct (Nat.eq_dec (length a) 0) as [H0|H0].
  - rewrite !xext_len0 by (rewrite ?pneg_length; lia). lia.
  - destruct (exp_decomp (Z.of_nat (length a)) k ltac:(lia)) as (q & r & Hk & Hr).
    rewrite (xext_at a k q r), (xext_at (pneg a) k q r); try lia; try (rewrite pneg_length; lia).
    rewrite nthZ_pneg. lia.
Qed.
Lemma xext_pzero n k : xext (pzero n) k = 0.
Proof. unfold xext. cbv zeta. rewrite !nthZ_pzero. destruct (Z.even _); reflexivity. Qed.

Lemma xext_abs_le (a : list Z) (u : Z) k : 0 <= u -> (forall i, Z.abs (nthZ a i) <= u) -> Z.abs (xext a k) <= u.
Proof.
  intros Hu H. unfold xext. cbv zeta. destruct (Z.even _); [apply H|]. rewrite Z.abs_opp. apply H.
Qed.

(* ---------------------------------------------------------------- X^p * a *)
Lemma xmono_length p a : length (xmono p a) = length a.
Proof. apply map_seq_length. Qed.
Lemma xmono_nth p a i : (i < length a)%nat -> nthZ (xmono p a) i = xext a (Z.of_nat i - p).
Proof. intros Hi. unfold xmono. rewrite nthZ_map_seq by auto. reflexivity. Qed.

Lemma xext_xmono p a k : xext (xmono p a) k = xext a (k - p).
Proof.
  destruct (Nat.eq_dec (length a) 0) as [H0|H0].
  - rewrite !xext_len0 by (rewrite ?xmono_length; lia). reflexivity.
  - destruct (exp_decomp (Z.of_nat (length a)) k ltac:(lia)) as (q & r & Hk & Hr).
    rewrite (xext_at (xmono p a) k q r) by (rewrite xmono_length; lia).
    rewrite xmono_nth by lia.
    replace (k - p) with ((Z.of_nat r - p) + q * Z.of_nat (length a)) by lia.
    rewrite xext_shift by lia. reflexivity.
Qed.

Lemma xmono_0 a : xmono 0 a = a.
Proof.
  apply nthZ_ext; [apply xmono_length|]. intros i Hi. rewrite xmono_length in Hi.
  rewrite xmono_nth by auto. rewrite Z.sub_0_r. apply xext_small; auto.
Qed.
Lemma xmono_compose p q a : xmono p (xmono q a) = xmono (p + q) a.
Proof.
  apply nthZ_ext; [rewrite !xmono_length; reflexivity|]. intros i Hi. rewrite !xmono_length in Hi.
  rewrite !xmono_nth by (rewrite ?xmono_length; auto). rewrite xext_xmono. f_equal. lia.
Qed.
Lemma xmono_period p t a : xmono (p + 2 * t * Z.of_nat (length a)) a = xmono p a.
Proof.
  apply nthZ_ext; [rewrite !xmono_length; reflexivity|]. intros i Hi. rewrite xmono_length in Hi.
  rewrite !xmono_nth by auto.
  replace (Z.of_nat i - (p + 2 * t * Z.of_nat (length a))) with ((Z.of_nat i - p) + (- 2 * t) * Z.of_nat (length a)) by lia.
  rewrite xext_shift by lia. unfold sg. replace (- 2 * t) with (2 * (- t)) by lia. rewrite Z.even_mul. cbn [Z.even orb]. lia.
Qed.
Lemma xmono_padd p a b : length b = length a -> xmono p (padd a b) = padd (xmono p a) (xmono p b).
Proof.
  intros Hl. apply nthZ_ext; [rewrite padd_length, !xmono_length, padd_length; lia|].
  intros i Hi. rewrite xmono_length, padd_length in Hi.
  rewrite xmono_nth by (rewrite padd_length; lia).
  rewrite nthZ_padd by (rewrite !xmono_length; auto). rewrite !xmono_nth by lia. apply xext_padd; auto.
Qed.
Lemma xmono_pzero p n : xmono p (pzero n) = pzero n.
Proof.
  apply nthZ_ext; [rewrite xmono_length; reflexivity|]. intros i Hi. rewrite xmono_length in Hi.
  rewrite xmono_nth by auto. rewrite xext_pzero, nthZ_pzero. reflexivity.
Qed.

(* ---------------------------------------------------------------- pmul *)
Lemma pmul_length a b : length (pmul a b) = length a.
Proof. unfold pmul. apply map_seq_length. Qed.

Lemma fold_cond_eq (c : nat -> bool) (x y g : nat -> Z) l acc :
  (forall i, In i l -> g i = if c i then x i else - y i) ->
  fold_left (fun acc i => if c i then acc + x i else acc - y i) l acc = fold_left (fun acc i => acc + g i) l acc.
Proof.
  revert acc; induction l as [|h l IH]; intros acc H; cbn [fold_left]; [reflexivity|].
  rewrite IH by (intros; apply H; right; assumption). f_equal.
  rewrite (H h (or_introl eq_refl)). destruct (c h); lia.
Qed.

Lemma xext_lo b (i k : nat) : (i <= k)%nat -> (k < length b)%nat -> xext b (Z.of_nat k - Z.of_nat i) = nthZ b (k - i).
Proof.
  intros H1 H2. rewrite (xext_at b _ 0 (k - i)) by lia. unfold sg; cbn [Z.even]; lia.
Qed.
Lemma xext_hi b (i k : nat) : (k < i)%nat -> (i < length b)%nat ->
  xext b (Z.of_nat k - Z.of_nat i) = - nthZ b (length b + k - i).
Proof.
  intros H1 H2. rewrite (xext_at b _ (-1) (length b + k - i)) by lia. unfold sg; cbn [Z.even]; lia.
Qed.

Theorem pmul_nth (a b : list Z) (k : nat) : length b = length a -> (k < length a)%nat ->
  nthZ (pmul a b) k = zsum (fun i => nthZ a i * xext b (Z.of_nat k - Z.of_nat i)) (length a).
Proof.
  intros Hl Hk. unfold pmul. cbv zeta. rewrite nthZ_map_seq by exact Hk.
  rewrite (fold_cond_eq (fun i => Nat.leb i k) _ _ (fun i => nthZ a i * xext b (Z.of_nat k - Z.of_nat i))).
  - rewrite fold_add_zsum. lia.
  - intros i Hi. apply in_seq in Hi. destruct (Nat.leb_spec i k).
    + rewrite xext_lo by lia. reflexivity.
    + rewrite xext_hi by lia. rewrite Hl. lia.
Qed.

(* the extension of a product, at every integer exponent *)
Lemma xext_pmul (s a : list Z) (m : Z) : length a = length s ->
  xext (pmul s a) m = zsum (fun i => nthZ s i * xext a (m - Z.of_nat i)) (length s).
Proof.
  intros Hl. destruct (Nat.eq_dec (length s) 0) as [H0|H0].
  - rewrite H0. cbn [zsum]. apply xext_len0. rewrite pmul_length. lia.
  - destruct (exp_decomp (Z.of_nat (length s)) m ltac:(lia)) as (q & r & Hm & Hr).
    rewrite (xext_at (pmul s a) m q r) by (rewrite pmul_length; lia).
    rewrite pmul_nth by lia. rewrite <- zsum_mul_l. apply zsum_ext. intros i Hi.
    replace (m - Z.of_nat i) with ((Z.of_nat r - Z.of_nat i) + q * Z.of_nat (length a)) by lia.
    rewrite xext_shift by lia. lia.
Qed.

Theorem pmul_padd_r s a b : length a = length s -> length b = length s ->
  pmul s (padd a b) = padd (pmul s a) (pmul s b).
Proof.
  intros Ha Hb. apply nthZ_ext; [rewrite padd_length, !pmul_length; lia|].
  intros k Hk. rewrite pmul_length in Hk.
  rewrite nthZ_padd by (rewrite !pmul_length; reflexivity).
  rewrite !pmul_nth by (rewrite ?padd_length; lia).
  rewrite <- zsum_add. apply zsum_ext. intros i _. rewrite xext_padd by lia. lia.
Qed.
Theorem pmul_psub_r s a b : length a = length s -> length b = length s ->
  pmul s (psub a b) = psub (pmul s a) (pmul s b).
Proof.
  intros Ha Hb. apply nthZ_ext; [rewrite psub_length, !pmul_length; lia|].
  intros k Hk. rewrite pmul_length in Hk.
  rewrite nthZ_psub by (rewrite !pmul_length; reflexivity).
  rewrite !pmul_nth by (rewrite ?psub_length; lia).
  rewrite <- zsum_sub. apply zsum_ext. intros i _. rewrite xext_psub by lia. lia.
Qed.
Theorem pmul_pneg_r s a : length a = length s -> pmul s (pneg a) = pneg (pmul s a).
Proof.
  intros Ha. apply nthZ_ext; [rewrite pneg_length, !pmul_length; lia|].
  intros k Hk. rewrite pmul_length in Hk.
  rewrite nthZ_pneg. rewrite !pmul_nth by (rewrite ?pneg_length; lia).
  rewrite <- zsum_opp. apply zsum_ext. intros i _. rewrite xext_pneg. lia.
Qed.
Theorem pmul_pzero_r s : pmul s (pzero (length s)) = pzero (length s).
Proof.
  apply nthZ_ext; [rewrite pmul_length, pzero_length; reflexivity|].
  intros k Hk. rewrite pmul_length in Hk.
  rewrite pmul_nth by (rewrite ?pzero_length; lia). rewrite nthZ_pzero.
  rewrite (zsum_ext _ (fun _ => 0)); [apply zsum_zero|]. intros i _. rewrite xext_pzero. lia.
Qed.

Lemma pmul_pzero_r' s n : length s = n -> pmul s (pzero n) = pzero n.
Proof. intros <-. apply pmul_pzero_r. Qed.

(* multiplication by X^p commutes with multiplication by s, for every p in Z *)
Theorem pmul_xmono s a p : length a = length s -> pmul s (xmono p a) = xmono p (pmul s a).
Proof.
  intros Ha. apply nthZ_ext; [rewrite xmono_length, !pmul_length; reflexivity|].
  intros k Hk. rewrite pmul_length in Hk.
  rewrite xmono_nth by (rewrite pmul_length; lia).
  rewrite pmul_nth by (rewrite ?xmono_length; lia).
  rewrite xext_pmul by lia. apply zsum_ext. intros i _.
  rewrite xext_xmono. do 2 f_equal. lia.
Qed.
Theorem pmul_xmono_m1 s a p : length a = length s -> pmul s (xmono_m1 p a) = xmono_m1 p (pmul s a).
Proof.
  intros Ha. unfold xmono_m1. rewrite pmul_psub_r by (rewrite ?xmono_length; lia).
  rewrite pmul_xmono by lia. reflexivity.
Qed.

(* |(s * e)_k| <= ||s||_1 * ||e||_inf *)
Definition l1norm (s : list Z) : Z := zsum (fun i => Z.abs (nthZ s i)) (length s).
Theorem pmul_bound s e u k : length e = length s -> 0 <= u -> (forall i, Z.abs (nthZ e i) <= u) ->
  Z.abs (nthZ (pmul s e) k) <= l1norm s * u.
Proof.
  intros Hl Hu He. destruct (Nat.lt_ge_cases k (length s)) as [Hk|Hk].
  - rewrite pmul_nth by lia. unfold l1norm. rewrite Z.mul_comm, <- zsum_mul_l.
    apply zsum_abs_le. intros i _. rewrite Z.abs_mul.
    pose proof (xext_abs_le e u (Z.of_nat k - Z.of_nat i) Hu He). pose proof (Z.abs_nonneg (nthZ s i)). nia.
  - rewrite nthZ_overflow by (rewrite pmul_length; lia). unfold l1norm.
    assert (0 <= zsum (fun i => Z.abs (nthZ s i)) (length s)).
    { pose proof (zsum_abs_le (fun _ => 0) (fun i => Z.abs (nthZ s i)) (length s) ltac:(intros; cbn; lia)).
      rewrite zsum_zero in H. cbn in H. lia. }
    cbn. nia.
Qed.

(* ---------------------------------------------------------------- psum *)
Lemma psum_length n l : (forall x, In x l -> length x = n) -> length (psum n l) = n.
Proof.
  induction l as [|h t IH]; intros H; cbn [psum fold_right]; [apply pzero_length|].
  rewrite padd_length. fold (psum n t). rewrite IH by (intros; apply H; right; assumption).
  rewrite (H h (or_introl eq_refl)). lia.
Qed.
