(* C07 part B: lazy accumulators of mat_vec.rs -- every u64 accumulation stays below 2^64 for the documented
   number of terms, the results are congruent to the exact dot products, and add/sub/negate on q120b are
   congruent to the ring operations. *)
From PV Require Import Base.MachineInt Model.C07Ntt120 Proofs.C07Ntt.
From Coq Require Import Znumtheory.
Open Scope Z_scope.

(* ---------------- exact sums and the wrapping accumulator ---------------- *)
Fixpoint lsum (l : list Z) : Z := match l with [] => 0 | t :: r => t + lsum r end.

Lemma lsum_app a b : lsum (a ++ b) = lsum a + lsum b.
Proof. induction a as [|t a IH]; cbn [app lsum]; lia. Qed.

Lemma lsum_bounds l B : (forall t, In t l -> 0 <= t <= B) -> 0 <= lsum l <= Z.of_nat (length l) * B.
Proof.
  induction l as [|t l IH]; intros H; cbn [lsum length]; [lia|].
  assert (0 <= t <= B) by (apply H; left; reflexivity).
  assert (0 <= lsum l <= Z.of_nat (length l) * B) by (apply IH; intros; apply H; right; assumption).
  rewrite Nat2Z.inj_succ. lia.
Qed.

Lemma lsum_nonneg l : (forall t, In t l -> 0 <= t) -> 0 <= lsum l.
Proof.
  induction l as [|t l IH]; intros H; cbn [lsum]; [lia|].
  assert (0 <= t) by (apply H; left; reflexivity).
  assert (0 <= lsum l) by (apply IH; intros; apply H; right; assumption). lia.
Qed.

(* every partial sum of non-negative terms is below the total *)
Lemma lsum_prefix l m : (forall t, In t l -> 0 <= t) -> 0 <= lsum (firstn m l) <= lsum l.
Proof.
  intros H. rewrite <- (firstn_skipn m l) at 3. rewrite lsum_app.
  assert (0 <= lsum (firstn m l)) by (apply lsum_nonneg; intros t Ht; apply H; rewrite <- (firstn_skipn m l); apply in_or_app; left; exact Ht).
  assert (0 <= lsum (skipn m l)).
  { apply lsum_nonneg; intros t Ht; apply H. rewrite <- (firstn_skipn m l). apply in_or_app; right; exact Ht. }
  lia.
Qed.

Lemma fold64_exact l acc : 0 <= acc -> (forall t, In t l -> 0 <= t) -> acc + lsum l < 2 ^ 64 ->
  fold_left (fun s t => u64 (s + t)) l acc = acc + lsum l.
Proof.
  revert acc; induction l as [|t l IH]; intros acc Ha Hn Hb; cbn [fold_left lsum] in *; [lia|].
  assert (0 <= t) by (apply Hn; left; reflexivity).
  assert (0 <= lsum l) by (apply lsum_nonneg; intros; apply Hn; right; assumption).
  rewrite u64_id by lia. rewrite IH; [lia|lia|intros; apply Hn; right; assumption|lia].
Qed.

(* the accumulation loop `s += t` never wraps when the exact total fits; all partial sums are below the total *)
Lemma sum64_exact l : (forall t, In t l -> 0 <= t) -> lsum l < 2 ^ 64 -> sum64 l = lsum l.
Proof. intros Hn Hb. unfold sum64. rewrite fold64_exact by (auto; lia). lia. Qed.

Lemma lsum_map_add {A} (f g : A -> Z) l : lsum (map (fun t => f t + g t) l) = lsum (map f l) + lsum (map g l).
Proof. induction l as [|t l IH]; cbn [map lsum]; lia. Qed.
Lemma lsum_map_scale {A} c (f : A -> Z) l : lsum (map (fun t => c * f t) l) = c * lsum (map f l).
Proof. induction l as [|t l IH]; cbn [map lsum]; lia. Qed.
Lemma lsum_map_ext {A} (f g : A -> Z) l : (forall t, In t l -> f t = g t) -> lsum (map f l) = lsum (map g l).
Proof.
  induction l as [|t l IH]; intros H; cbn [map lsum]; [reflexivity|].
  rewrite (H t) by (left; reflexivity). rewrite IH by (intros; apply H; right; assumption). reflexivity.
Qed.
Lemma lsum_map_mod {A} q (f g : A -> Z) l : 0 < q -> (forall t, In t l -> f t mod q = g t mod q) ->
  lsum (map f l) mod q = lsum (map g l) mod q.
Proof.
  intros Hq. induction l as [|t l IH]; intros H; cbn [map lsum]; [reflexivity|].
  rewrite Z.add_mod, (H t), IH, <- Z.add_mod by (try lia; try (left; reflexivity); intros; apply H; right; assumption).
  reflexivity.
Qed.

Lemma in_map_bound {A} (f : A -> Z) l lo hi : (forall a, In a l -> lo <= f a <= hi) -> forall t, In t (map f l) -> lo <= t <= hi.
Proof. intros H t Ht. apply in_map_iff in Ht as (a & <- & Ha). apply H; exact Ha. Qed.

Lemma split32 a : 0 <= a -> a mod 2 ^ 32 + 2 ^ 32 * (a / 2 ^ 32) = a.
Proof. intros _. rewrite (Z.div_mod a (2 ^ 32)) at 3 by (change (2 ^ 32) with 4294967296; lia). lia. Qed.

(* ---------------- bbc: q120b x q120c ---------------- *)
Definition is_u32 (x : Z) : Prop := 0 <= x < 2 ^ 32.
Definition term_ok (t : Z * Z * (Z * Z)) : Prop :=
  let '(xl, xh, (yl, yh)) := t in is_u32 xl /\ is_u32 xh /\ is_u32 yl /\ is_u32 yh.
(* the exact quantities *)
Definition lo_z (t : Z * Z * (Z * Z)) : Z := let '(xl, xh, (yl, yh)) := t in (xl * yl) mod 2 ^ 32 + (xh * yh) mod 2 ^ 32.
Definition hi_z (t : Z * Z * (Z * Z)) : Z := let '(xl, xh, (yl, yh)) := t in (xl * yl) / 2 ^ 32 + (xh * yh) / 2 ^ 32.
Definition prod_z (t : Z * Z * (Z * Z)) : Z := let '(xl, xh, (yl, yh)) := t in xl * yl + xh * yh.
Definition bbc_exact (h q : Z) (terms : list (Z * Z * (Z * Z))) : Z :=
  let slo := lsum (map lo_z terms) in let shi := lsum (map hi_z terms) in
  slo + (shi mod 2 ^ h) * pow2_mod 32 q + (shi / 2 ^ h) * pow2_mod (32 + h) q.

Lemma mul_u32_bound a b : is_u32 a -> is_u32 b -> 0 <= a * b <= (2 ^ 32 - 1) * (2 ^ 32 - 1).
Proof. unfold is_u32. change (2 ^ 32) with 4294967296. intros Ha Hb. nia. Qed.

Lemma hi32_bound p : 0 <= p <= (2 ^ 32 - 1) * (2 ^ 32 - 1) -> 0 <= p / 2 ^ 32 <= 2 ^ 32 - 2.
Proof.
  change (2 ^ 32) with 4294967296. intros H.
  assert (p / 4294967296 < 4294967295); [|pose proof (Z.div_pos p 4294967296); lia].
  apply Z.div_lt_upper_bound; lia.
Qed.

Lemma bbc_term t : term_ok t ->
  bbc_lo t = lo_z t /\ bbc_hi t = hi_z t /\ 0 <= lo_z t <= 2 ^ 33 - 2 /\ 0 <= hi_z t <= 2 ^ 33 - 4 /\
  lo_z t + 2 ^ 32 * hi_z t = prod_z t.
Proof.
  destruct t as [[xl xh] [yl yh]]. cbn [term_ok]. intros (H1 & H2 & H3 & H4).
  pose proof (mul_u32_bound xl yl H1 H3) as Ba. pose proof (mul_u32_bound xh yh H2 H4) as Bb.
  pose proof (hi32_bound _ Ba) as Ha. pose proof (hi32_bound _ Bb) as Hb.
  assert (M : 0 < 2 ^ 32) by reflexivity.
  pose proof (Z.mod_pos_bound (xl * yl) (2 ^ 32) M) as La. pose proof (Z.mod_pos_bound (xh * yh) (2 ^ 32) M) as Lb.
  unfold bbc_lo, bbc_hi, lo_z, hi_z, prod_z.
  assert (E64 : 2 ^ 64 = 2 ^ 32 * 2 ^ 32) by reflexivity. assert (E33 : 2 ^ 33 = 2 * 2 ^ 32) by reflexivity.
  rewrite !(u64_id (xl * yl)), !(u64_id (xh * yh)) by nia.
  rewrite !u64_id by nia.
  repeat split; lia.
Qed.

Section Bbc.
Variables (h q : Z) (terms : list (Z * Z * (Z * Z))).
Hypothesis Hh : bbc_h_lo <= h < bbc_h_hi.          (* the whole search range of BbcMeta::new *)
Hypothesis Hq : 2 ^ 15 <= q < 2 ^ 31.
Hypothesis Hell : Z.of_nat (length terms) <= bbc_max_ell.
Hypothesis Hok : forall t, In t terms -> term_ok t.

Let slo := lsum (map lo_z terms).
Let shi := lsum (map hi_z terms).

Lemma bbc_acc_bounds : 0 <= slo <= bbc_max_ell * (2 ^ 33 - 2) /\ 0 <= shi <= bbc_max_ell * (2 ^ 33 - 4).
Proof.
  assert (L1 : 0 <= slo <= Z.of_nat (length (map lo_z terms)) * (2 ^ 33 - 2)).
  { apply lsum_bounds. apply in_map_bound. intros t Ht. apply (bbc_term t (Hok t Ht)). }
  assert (L2 : 0 <= shi <= Z.of_nat (length (map hi_z terms)) * (2 ^ 33 - 4)).
  { apply lsum_bounds. apply in_map_bound. intros t Ht. apply (bbc_term t (Hok t Ht)). }
  rewrite map_length in L1, L2. change (2 ^ 33) with 8589934592 in *. nia.
Qed.

Lemma bbc_sums_exact : sum64 (map bbc_lo terms) = slo /\ sum64 (map bbc_hi terms) = shi.
Proof.
  destruct bbc_acc_bounds as [B1 B2].
  assert (E1 : map bbc_lo terms = map lo_z terms) by (apply map_ext_in; intros t Ht; apply (bbc_term t (Hok t Ht))).
  assert (E2 : map bbc_hi terms = map hi_z terms) by (apply map_ext_in; intros t Ht; apply (bbc_term t (Hok t Ht))).
  rewrite E1, E2.
  unfold bbc_max_ell in *. change (2 ^ 33) with 8589934592 in *.
  split; apply sum64_exact.
  - intros t Ht. apply in_map_iff in Ht as (a & <- & Ha). apply (bbc_term a (Hok a Ha)).
  - fold slo. change (2 ^ 64) with 18446744073709551616. lia.
  - intros t Ht. apply in_map_iff in Ht as (a & <- & Ha). apply (bbc_term a (Hok a Ha)).
  - fold shi. change (2 ^ 64) with 18446744073709551616. lia.
Qed.

(* no u64 operation of the kernel wraps; the result is below Q[k] << 33 *)
Theorem lazy_budget_bbc :
  bbc_k h q terms = bbc_exact h q terms /\ 0 <= bbc_exact h q terms < q * 2 ^ q_shift /\ q * 2 ^ q_shift < 2 ^ 64.
Proof.
  destruct bbc_acc_bounds as [B1 B2]. destruct bbc_sums_exact as [S1 S2].
  unfold bbc_k. rewrite S1, S2. unfold accum_to_q120b_k, bbc_exact. cbv zeta. fold slo shi.
  unfold bbc_h_lo, bbc_h_hi, bbc_max_ell, q_shift in *.
  assert (Hq' : 0 < q) by (change (2 ^ 15) with 32768 in Hq; lia).
  pose proof (Z.mod_pos_bound (2 ^ 32) q Hq') as P1. pose proof (Z.mod_pos_bound (2 ^ (32 + h)) q Hq') as P2.
  unfold pow2_mod. set (p1 := 2 ^ 32 mod q) in *. set (p2 := 2 ^ (32 + h) mod q) in *.
  assert (H2h : 2 ^ 16 <= 2 ^ h <= 2 ^ 31) by (split; apply Z.pow_le_mono_r; lia).
  assert (H2hp : 0 < 2 ^ h) by (change (2 ^ 16) with 65536 in H2h; lia).
  pose proof (Z.mod_pos_bound shi (2 ^ h) H2hp) as L.
  assert (Hhi : 0 <= shi / 2 ^ h <= 10000 * (2 ^ 33 - 4) / 2 ^ 16).
  { split; [apply Z.div_pos; lia|].
    apply Z.le_trans with (shi / 2 ^ 16); [apply Z.div_le_compat_l; [lia|]|apply Z.div_le_mono; [reflexivity|lia]].
    change (2 ^ 16) with 65536 in *. lia. }
  change (10000 * (2 ^ 33 - 4) / 2 ^ 16) with 1310719999 in Hhi.
  change (2 ^ 31) with 2147483648 in *. change (2 ^ 33) with 8589934592 in *. change (2 ^ 15) with 32768 in *.
  change (2 ^ 16) with 65536 in *.
  set (s2l := shi mod 2 ^ h) in *. set (s2h := shi / 2 ^ h) in *.
  assert (T1 : 0 <= s2l * p1 <= 2147483648 * (q - 1)) by nia.
  assert (T2 : 0 <= s2h * p2 <= 1310719999 * (q - 1)) by nia.
  change (2 ^ 64) with 18446744073709551616.
  rewrite (u64_id (s2l * p1)) by (change (2 ^ 64) with 18446744073709551616; lia).
  rewrite (u64_id (s2h * p2)) by (change (2 ^ 64) with 18446744073709551616; lia).
  rewrite (u64_id (slo + s2l * p1)) by (change (2 ^ 64) with 18446744073709551616; lia).
  rewrite u64_id by (change (2 ^ 64) with 18446744073709551616; lia).
  lia.
Qed.

(* what the result is congruent to *)
Theorem bbc_exact_congr : bbc_exact h q terms mod q = lsum (map prod_z terms) mod q.
Proof.
  unfold bbc_exact. cbv zeta. fold slo shi. unfold pow2_mod.
  unfold bbc_h_lo, bbc_h_hi in Hh.
  assert (Hq' : 0 < q) by (change (2 ^ 15) with 32768 in Hq; lia).
  assert (H2hp : 0 < 2 ^ h) by (apply pow2_pos; lia).
  assert (E : lsum (map prod_z terms) = slo + 2 ^ 32 * shi).
  { unfold slo, shi. rewrite <- lsum_map_scale, <- lsum_map_add. apply lsum_map_ext.
    intros t Ht. symmetry. apply (bbc_term t (Hok t Ht)). }
  rewrite E.
  rewrite (Z.div_mod shi (2 ^ h)) at 3 by lia.
  replace (slo + 2 ^ 32 * (2 ^ h * (shi / 2 ^ h) + shi mod 2 ^ h))
     with (slo + shi mod 2 ^ h * 2 ^ 32 + shi / 2 ^ h * 2 ^ (32 + h)) by (rewrite Z.pow_add_r by lia; ring).
  rewrite (Z.add_mod (slo + shi mod 2 ^ h * (2 ^ 32 mod q))), (Z.add_mod slo) by lia.
  rewrite (Z.mul_mod_idemp_r (shi mod 2 ^ h)), (Z.mul_mod_idemp_r (shi / 2 ^ h)) by lia.
  rewrite <- (Z.add_mod slo), <- Z.add_mod by lia. reflexivity.
Qed.

(* with a prepared right operand (y_hi = y_lo * 2^32 mod q, as c_from_b / c_from_znx64 produce it) the kernel
   computes the dot product of the u64 residues x = x_lo + 2^32 x_hi with the residues y_lo *)
Definition prepared (t : Z * Z * (Z * Z)) : Prop := let '(_, _, (yl, yh)) := t in yh mod q = (yl * 2 ^ 32) mod q.
Definition dot_z (t : Z * Z * (Z * Z)) : Z := let '(xl, xh, (yl, _)) := t in (xl + 2 ^ 32 * xh) * yl.

Theorem bbc_congr : (forall t, In t terms -> prepared t) ->
  bbc_k h q terms mod q = lsum (map dot_z terms) mod q.
Proof.
  intros Hp. destruct lazy_budget_bbc as [-> _]. rewrite bbc_exact_congr.
  assert (Hq' : 0 < q) by (change (2 ^ 15) with 32768 in Hq; lia).
  apply lsum_map_mod; [exact Hq'|].
  intros [[xl xh] [yl yh]] Ht. specialize (Hp _ Ht). cbn [prepared] in Hp. cbn [prod_z dot_z].
  rewrite Z.add_mod, <- (Z.mul_mod_idemp_r xh yh), Hp, Z.mul_mod_idemp_r, <- Z.add_mod by lia.
  f_equal. ring.
Qed.
End Bbc.
