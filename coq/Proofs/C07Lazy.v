(* C07 part B: lazy accumulators of mat_vec.rs -- every u64 accumulation stays below 2^64 for the documented
   number of terms, the results are congruent to the exact dot products, and add/sub/negate on q120b are
   congruent to the ring operations. *)
From PV Require Import Base.MachineInt Model.C07Ntt120 Proofs.C07Ntt.
From Coq Require Import Znumtheory.
Open Scope Z_scope.

(* ---------------- exact sums and the wrapping accumulator ---------------- *)
Fixpoint lsum (l : list Z) : Z := match l with [] => 0 | t :: r => t + lsum r end.

Lemma lsum_app a b : lsum (a ++ b) = lsum a + lsum b.
Proof. induction a as [|t a IH]; cbn [app lsum]; lia. Qed.

Lemma lsum_bounds l B : (forall t, In t l -> 0 <= t <= B) -> 0 <= lsum l <= Z.of_nat (length l) * B.
Proof.
  induction l as [|t l IH]; intros H; cbn [lsum length]; [lia|].
  assert (0 <= t <= B) by (apply H; left; reflexivity).
  assert (0 <= lsum l <= Z.of_nat (length l) * B) by (apply IH; intros; apply H; right; assumption).
  rewrite Nat2Z.inj_succ. lia.
Qed.

Lemma lsum_nonneg l : (forall t, In t l -> 0 <= t) -> 0 <= lsum l.
Proof.
  induction l as [|t l IH]; intros H; cbn [lsum]; [lia|].
  assert (0 <= t) by (apply H; left; reflexivity).
  assert (0 <= lsum l) by (apply IH; intros; apply H; right; assumption). lia.
Qed.

(* every partial sum of non-negative terms is below the total *)
Lemma lsum_prefix l m : (forall t, In t l -> 0 <= t) -> 0 <= lsum (firstn m l) <= lsum l.
Proof.
  intros H. rewrite <- (firstn_skipn m l) at 3. rewrite lsum_app.
  assert (0 <= lsum (firstn m l)) by (apply lsum_nonneg; intros t Ht; apply H; rewrite <- (firstn_skipn m l); apply in_or_app; left; exact Ht).
  assert (0 <= lsum (skipn m l)).
  { apply lsum_nonneg; intros t Ht; apply H. rewrite <- (firstn_skipn m l). apply in_or_app; right; exact Ht. }
  lia.
Qed.

Lemma fold64_exact l acc : 0 <= acc -> (forall t, In t l -> 0 <= t) -> acc + lsum l < 2 ^ 64 ->
  fold_left (fun s t => u64 (s + t)) l acc = acc + lsum l.
Proof.
  revert acc; induction l as [|t l IH]; intros acc Ha Hn Hb; cbn [fold_left lsum] in *; [lia|].
  assert (0 <= t) by (apply Hn; left; reflexivity).
  assert (0 <= lsum l) by (apply lsum_nonneg; intros; apply Hn; right; assumption).
  rewrite u64_id by lia. rewrite IH; [lia|lia|intros; apply Hn; right; assumption|lia].
Qed.

(* the accumulation loop `s += t` never wraps when the exact total fits; all partial sums are below the total *)
Lemma sum64_exact l : (forall t, In t l -> 0 <= t) -> lsum l < 2 ^ 64 -> sum64 l = lsum l.
Proof. intros Hn Hb. unfold sum64. rewrite fold64_exact by (auto; lia). lia. Qed.

Lemma lsum_map_add {A} (f g : A -> Z) l : lsum (map (fun t => f t + g t) l) = lsum (map f l) + lsum (map g l).
Proof. induction l as [|t l IH]; cbn [map lsum]; lia. Qed.
Lemma lsum_map_scale {A} c (f : A -> Z) l : lsum (map (fun t => c * f t) l) = c * lsum (map f l).
Proof. induction l as [|t l IH]; cbn [map lsum]; lia. Qed.
Lemma lsum_map_ext {A} (f g : A -> Z) l : (forall t, In t l -> f t = g t) -> lsum (map f l) = lsum (map g l).
Proof.
  induction l as [|t l IH]; intros H; cbn [map lsum]; [reflexivity|].
  rewrite (H t) by (left; reflexivity). rewrite IH by (intros; apply H; right; assumption). reflexivity.
Qed.
Lemma lsum_map_mod {A} q (f g : A -> Z) l : 0 < q -> (forall t, In t l -> f t mod q = g t mod q) ->
  lsum (map f l) mod q = lsum (map g l) mod q.
Proof.
  intros Hq. induction l as [|t l IH]; intros H; cbn [map lsum]; [reflexivity|].
  rewrite Z.add_mod, (H t), IH, <- Z.add_mod by (try lia; try (left; reflexivity); intros; apply H; right; assumption).
  reflexivity.
Qed.

Lemma in_map_bound {A} (f : A -> Z) l lo hi : (forall a, In a l -> lo <= f a <= hi) -> forall t, In t (map f l) -> lo <= t <= hi.
Proof. intros H t Ht. apply in_map_iff in Ht as (a & <- & Ha). apply H; exact Ha. Qed.

Lemma split32 a : 0 <= a -> a mod 2 ^ 32 + 2 ^ 32 * (a / 2 ^ 32) = a.
Proof. intros _. rewrite (Z.div_mod a (2 ^ 32)) at 3 by (change (2 ^ 32) with 4294967296; lia). lia. Qed.

(* ---------------- bbc: q120b x q120c ---------------- *)
Definition is_u32 (x : Z) : Prop := 0 <= x < 2 ^ 32.
Definition term_ok (t : Z * Z * (Z * Z)) : Prop :=
  let '(xl, xh, (yl, yh)) := t in is_u32 xl /\ is_u32 xh /\ is_u32 yl /\ is_u32 yh.
(* the exact quantities *)
Definition lo_z (t : Z * Z * (Z * Z)) : Z := let '(xl, xh, (yl, yh)) := t in (xl * yl) mod 2 ^ 32 + (xh * yh) mod 2 ^ 32.
Definition hi_z (t : Z * Z * (Z * Z)) : Z := let '(xl, xh, (yl, yh)) := t in (xl * yl) / 2 ^ 32 + (xh * yh) / 2 ^ 32.
Definition prod_z (t : Z * Z * (Z * Z)) : Z := let '(xl, xh, (yl, yh)) := t in xl * yl + xh * yh.
Definition bbc_exact (h q : Z) (terms : list (Z * Z * (Z * Z))) : Z :=
  let slo := lsum (map lo_z terms) in let shi := lsum (map hi_z terms) in
  slo + (shi mod 2 ^ h) * pow2_mod 32 q + (shi / 2 ^ h) * pow2_mod (32 + h) q.

Lemma mul_u32_bound a b : is_u32 a -> is_u32 b -> 0 <= a * b <= (2 ^ 32 - 1) * (2 ^ 32 - 1).
Proof. unfold is_u32. change (2 ^ 32) with 4294967296. intros Ha Hb. nia. Qed.

Lemma hi32_bound p : 0 <= p <= (2 ^ 32 - 1) * (2 ^ 32 - 1) -> 0 <= p / 2 ^ 32 <= 2 ^ 32 - 2.
Proof.
  change (2 ^ 32) with 4294967296. intros H.
  assert (p / 4294967296 < 4294967295); [|pose proof (Z.div_pos p 4294967296); lia].
  apply Z.div_lt_upper_bound; lia.
Qed.

Lemma bbc_term t : term_ok t ->
  bbc_lo t = lo_z t /\ bbc_hi t = hi_z t /\ 0 <= lo_z t <= 2 ^ 33 - 2 /\ 0 <= hi_z t <= 2 ^ 33 - 4 /\
  lo_z t + 2 ^ 32 * hi_z t = prod_z t.
Proof.
  destruct t as [[xl xh] [yl yh]]. cbn [term_ok]. intros (H1 & H2 & H3 & H4).
  pose proof (mul_u32_bound xl yl H1 H3) as Ba. pose proof (mul_u32_bound xh yh H2 H4) as Bb.
  pose proof (hi32_bound _ Ba) as Ha. pose proof (hi32_bound _ Bb) as Hb.
  assert (M : 0 < 2 ^ 32) by reflexivity.
  pose proof (Z.mod_pos_bound (xl * yl) (2 ^ 32) M) as La. pose proof (Z.mod_pos_bound (xh * yh) (2 ^ 32) M) as Lb.
  unfold bbc_lo, bbc_hi, lo_z, hi_z, prod_z.
  assert (E64 : 2 ^ 64 = 2 ^ 32 * 2 ^ 32) by reflexivity. assert (E33 : 2 ^ 33 = 2 * 2 ^ 32) by reflexivity.
  rewrite !(u64_id (xl * yl)), !(u64_id (xh * yh)) by nia.
  rewrite !u64_id by nia.
  repeat split; lia.
Qed.

Section Bbc.
Variables (h q : Z) (terms : list (Z * Z * (Z * Z))).
Hypothesis Hh : bbc_h_lo <= h < bbc_h_hi.          (* the whole search range of BbcMeta::new *)
Hypothesis Hq : 2 ^ 15 <= q < 2 ^ 31.
Hypothesis Hell : Z.of_nat (length terms) <= bbc_max_ell.
Hypothesis Hok : forall t, In t terms -> term_ok t.

Let slo := lsum (map lo_z terms).
Let shi := lsum (map hi_z terms).

Lemma bbc_acc_bounds : 0 <= slo <= bbc_max_ell * (2 ^ 33 - 2) /\ 0 <= shi <= bbc_max_ell * (2 ^ 33 - 4).
Proof.
  assert (L1 : 0 <= slo <= Z.of_nat (length (map lo_z terms)) * (2 ^ 33 - 2)).
  { apply lsum_bounds. apply in_map_bound. intros t Ht. apply (bbc_term t (Hok t Ht)). }
  assert (L2 : 0 <= shi <= Z.of_nat (length (map hi_z terms)) * (2 ^ 33 - 4)).
  { apply lsum_bounds. apply in_map_bound. intros t Ht. apply (bbc_term t (Hok t Ht)). }
  rewrite map_length in L1, L2. change (2 ^ 33) with 8589934592 in *. nia.
Qed.

Lemma bbc_sums_exact : sum64 (map bbc_lo terms) = slo /\ sum64 (map bbc_hi terms) = shi.
Proof.
  destruct bbc_acc_bounds as [B1 B2].
  assert (E1 : map bbc_lo terms = map lo_z terms) by (apply map_ext_in; intros t Ht; apply (bbc_term t (Hok t Ht))).
  assert (E2 : map bbc_hi terms = map hi_z terms) by (apply map_ext_in; intros t Ht; apply (bbc_term t (Hok t Ht))).
  rewrite E1, E2.
  unfold bbc_max_ell in *. change (2 ^ 33) with 8589934592 in *.
  split; apply sum64_exact.
  - intros t Ht. apply in_map_iff in Ht as (a & <- & Ha). apply (bbc_term a (Hok a Ha)).
  - fold slo. change (2 ^ 64) with 18446744073709551616. lia.
  - intros t Ht. apply in_map_iff in Ht as (a & <- & Ha). apply (bbc_term a (Hok a Ha)).
  - fold shi. change (2 ^ 64) with 18446744073709551616. lia.
Qed.

(* no u64 operation of the kernel wraps; the result is below Q[k] << 33 *)
Theorem lazy_budget_bbc :
  bbc_k h q terms = bbc_exact h q terms /\ 0 <= bbc_exact h q terms < q * 2 ^ q_shift /\ q * 2 ^ q_shift < 2 ^ 64.
Proof.
  destruct bbc_acc_bounds as [B1 B2]. destruct bbc_sums_exact as [S1 S2].
  unfold bbc_k. rewrite S1, S2. unfold accum_to_q120b_k, bbc_exact. cbv zeta. fold slo shi.
  unfold bbc_h_lo, bbc_h_hi, bbc_max_ell, q_shift in *.
  assert (Hq' : 0 < q) by (change (2 ^ 15) with 32768 in Hq; lia).
  pose proof (Z.mod_pos_bound (2 ^ 32) q Hq') as P1. pose proof (Z.mod_pos_bound (2 ^ (32 + h)) q Hq') as P2.
  unfold pow2_mod. set (p1 := 2 ^ 32 mod q) in *. set (p2 := 2 ^ (32 + h) mod q) in *.
  assert (H2h : 2 ^ 16 <= 2 ^ h <= 2 ^ 31) by (split; apply Z.pow_le_mono_r; lia).
  assert (H2hp : 0 < 2 ^ h) by (change (2 ^ 16) with 65536 in H2h; lia).
  pose proof (Z.mod_pos_bound shi (2 ^ h) H2hp) as L.
  assert (Hhi : 0 <= shi / 2 ^ h <= 10000 * (2 ^ 33 - 4) / 2 ^ 16).
  { split; [apply Z.div_pos; lia|].
    apply Z.le_trans with (shi / 2 ^ 16); [apply Z.div_le_compat_l; [lia|]|apply Z.div_le_mono; [reflexivity|lia]].
    change (2 ^ 16) with 65536 in *. lia. }
  change (10000 * (2 ^ 33 - 4) / 2 ^ 16) with 1310719999 in Hhi.
  change (2 ^ 31) with 2147483648 in *. change (2 ^ 33) with 8589934592 in *. change (2 ^ 15) with 32768 in *.
  change (2 ^ 16) with 65536 in *.
  set (s2l := shi mod 2 ^ h) in *. set (s2h := shi / 2 ^ h) in *.
  assert (T1 : 0 <= s2l * p1 <= 2147483648 * (q - 1)) by nia.
  assert (T2 : 0 <= s2h * p2 <= 1310719999 * (q - 1)) by nia.
  change (2 ^ 64) with 18446744073709551616.
  rewrite (u64_id (s2l * p1)) by (change (2 ^ 64) with 18446744073709551616; lia).
  rewrite (u64_id (s2h * p2)) by (change (2 ^ 64) with 18446744073709551616; lia).
  rewrite (u64_id (slo + s2l * p1)) by (change (2 ^ 64) with 18446744073709551616; lia).
  rewrite u64_id by (change (2 ^ 64) with 18446744073709551616; lia).
  lia.
Qed.

(* what the result is congruent to *)
Theorem bbc_exact_congr : bbc_exact h q terms mod q = lsum (map prod_z terms) mod q.
Proof.
  unfold bbc_exact. cbv zeta. fold slo shi. unfold pow2_mod.
  unfold bbc_h_lo, bbc_h_hi in Hh.
  assert (Hq' : 0 < q) by (change (2 ^ 15) with 32768 in Hq; lia).
  assert (H2hp : 0 < 2 ^ h) by (apply pow2_pos; lia).
  assert (E : lsum (map prod_z terms) = slo + 2 ^ 32 * shi).
  { unfold slo, shi. rewrite <- lsum_map_scale, <- lsum_map_add. apply lsum_map_ext.
    intros t Ht. symmetry. apply (bbc_term t (Hok t Ht)). }
  rewrite E.
  rewrite (Z.div_mod shi (2 ^ h)) at 3 by lia.
  replace (slo + 2 ^ 32 * (2 ^ h * (shi / 2 ^ h) + shi mod 2 ^ h))
     with (slo + shi mod 2 ^ h * 2 ^ 32 + shi / 2 ^ h * 2 ^ (32 + h)) by (rewrite Z.pow_add_r by lia; ring).
  rewrite (Z.add_mod (slo + shi mod 2 ^ h * (2 ^ 32 mod q))), (Z.add_mod slo) by lia.
  rewrite (Z.mul_mod_idemp_r (shi mod 2 ^ h)), (Z.mul_mod_idemp_r (shi / 2 ^ h)) by lia.
  rewrite <- (Z.add_mod slo), <- Z.add_mod by lia. reflexivity.
Qed.

(* with a prepared right operand (y_hi = y_lo * 2^32 mod q, as c_from_b / c_from_znx64 produce it) the kernel
   computes the dot product of the u64 residues x = x_lo + 2^32 x_hi with the residues y_lo *)
Definition prepared (t : Z * Z * (Z * Z)) : Prop := let '(_, _, (yl, yh)) := t in yh mod q = (yl * 2 ^ 32) mod q.
Definition dot_z (t : Z * Z * (Z * Z)) : Z := let '(xl, xh, (yl, _)) := t in (xl + 2 ^ 32 * xh) * yl.

Theorem bbc_congr : (forall t, In t terms -> prepared t) ->
  bbc_k h q terms mod q = lsum (map dot_z terms) mod q.
Proof.
  intros Hp. destruct lazy_budget_bbc as [-> _]. rewrite bbc_exact_congr.
  assert (Hq' : 0 < q) by (change (2 ^ 15) with 32768 in Hq; lia).
  apply lsum_map_mod; [exact Hq'|].
  intros [[xl xh] [yl yh]] Ht. specialize (Hp _ Ht). cbn [prepared] in Hp. cbn [prod_z dot_z].
  rewrite Z.add_mod, <- (Z.mul_mod_idemp_r xh yh), Hp, Z.mul_mod_idemp_r, <- Z.add_mod by lia.
  f_equal. ring.
Qed.
End Bbc.

(* ---------------- q120b add / sub / negate (arithmetic.rs add_bbb_ref, prim.rs NttSub / NttNegate) ---------------- *)
Section AddSub.
Variable q : Z.
Hypothesis Hq : 0 < q < 2 ^ 30.          (* Primes29 / Primes30: Q[k] << 33 < 2^63 *)

Lemma qshift_val : qshift q = q * 2 ^ 33 /\ 0 < q * 2 ^ 33 < 2 ^ 63.
Proof.
  unfold qshift, q_shift. change (2 ^ 30) with 1073741824 in Hq. change (2 ^ 33) with 8589934592.
  change (2 ^ 63) with 9223372036854775808.
  rewrite u64_id by (change (2 ^ 64) with 18446744073709551616; lia). lia.
Qed.

Lemma mod_qs_congr x : (x mod (q * 2 ^ 33)) mod q = x mod q.
Proof.
  destruct qshift_val as [_ Hs]. symmetry. apply Zmod_div_mod; [lia|lia|]. exists (2 ^ 33). ring.
Qed.

Theorem add_bbb_congr x y :
  add_bbb_k q x y mod q = (x + y) mod q /\ 0 <= add_bbb_k q x y < 2 * qshift q /\ 2 * qshift q < 2 ^ 64.
Proof.
  destruct qshift_val as [E Hs]. unfold add_bbb_k. rewrite E.
  pose proof (Z.mod_pos_bound x (q * 2 ^ 33) ltac:(lia)) as Hx. pose proof (Z.mod_pos_bound y (q * 2 ^ 33) ltac:(lia)) as Hy.
  change (2 ^ 63) with 9223372036854775808 in *. change (2 ^ 64) with 18446744073709551616 in *.
  rewrite u64_id by (change (2 ^ 64) with 18446744073709551616; lia).
  split; [|lia].
  rewrite Z.add_mod, !mod_qs_congr, <- Z.add_mod by lia. reflexivity.
Qed.

Theorem sub_bbb_congr x y :
  sub_bbb_k q x y mod q = (x - y) mod q /\ 0 <= sub_bbb_k q x y < 2 * qshift q.
Proof.
  destruct qshift_val as [E Hs]. unfold sub_bbb_k. rewrite E.
  pose proof (Z.mod_pos_bound x (q * 2 ^ 33) ltac:(lia)) as Hx. pose proof (Z.mod_pos_bound y (q * 2 ^ 33) ltac:(lia)) as Hy.
  change (2 ^ 63) with 9223372036854775808 in *.
  rewrite (u64_id (q * 2 ^ 33 - _)) by (change (2 ^ 64) with 18446744073709551616; lia).
  rewrite u64_id by (change (2 ^ 64) with 18446744073709551616; lia).
  split; [|lia].
  replace (x mod (q * 2 ^ 33) + (q * 2 ^ 33 - y mod (q * 2 ^ 33))) with (x mod (q * 2 ^ 33) - y mod (q * 2 ^ 33) + 2 ^ 33 * q) by ring.
  rewrite Z.mod_add by lia.
  rewrite Zminus_mod, !mod_qs_congr, <- Zminus_mod. reflexivity.
Qed.

Theorem neg_b_congr x : neg_b_k q x mod q = (- x) mod q /\ 0 < neg_b_k q x <= qshift q.
Proof.
  destruct qshift_val as [E Hs]. unfold neg_b_k. rewrite E.
  pose proof (Z.mod_pos_bound x (q * 2 ^ 33) ltac:(lia)) as Hx.
  change (2 ^ 63) with 9223372036854775808 in *.
  rewrite u64_id by (change (2 ^ 64) with 18446744073709551616; lia).
  split; [|lia].
  replace (q * 2 ^ 33 - x mod (q * 2 ^ 33)) with (0 - x mod (q * 2 ^ 33) + 2 ^ 33 * q) by ring.
  rewrite Z.mod_add by lia. rewrite Zminus_mod, mod_qs_congr, <- Zminus_mod. reflexivity.
Qed.
End AddSub.

(* add_bbb_ref is generic in the prime set and documents "fits in 64 bits provided the inputs satisfy x, y < Q[k] << 33".
   For Primes31, Q[k] << 33 is just below 2^64: the u64 addition wraps and the residue is lost. *)
Theorem add_bbb_primes31_refuted : exists x y,
  let q := qk primes31 0 in
  0 <= x < qshift q /\ 0 <= y < qshift q /\ add_bbb_k q x y mod q <> (x + y) mod q.
Proof.
  exists (qshift (qk primes31 0) - 1), (qshift (qk primes31 0) - 1). vm_compute. repeat split; discriminate.
Qed.

(* ---------------- bbb: q120b x q120b ---------------- *)
Definition parts_z (p : Z * Z) : Z * Z * Z * Z :=
  let xl := fst p mod 2 ^ 32 in let xh := fst p / 2 ^ 32 in
  let yl := snd p mod 2 ^ 32 in let yh := snd p / 2 ^ 32 in
  let a := xl * yl in let b := xl * yh in let c := xh * yl in let d := xh * yh in
  (a mod 2 ^ 32, a / 2 ^ 32 + b mod 2 ^ 32 + c mod 2 ^ 32, b / 2 ^ 32 + c / 2 ^ 32 + d mod 2 ^ 32, d / 2 ^ 32).
Definition P1 (p : Z * Z) := fst (fst (fst (parts_z p))).
Definition P2 (p : Z * Z) := snd (fst (fst (parts_z p))).
Definition P3 (p : Z * Z) := snd (fst (parts_z p)).
Definition P4 (p : Z * Z) := snd (parts_z p).
Definition pair_ok (p : Z * Z) : Prop := 0 <= fst p < 2 ^ 64 /\ 0 <= snd p < 2 ^ 64.

Lemma halves x : 0 <= x < 2 ^ 64 -> is_u32 (x mod 2 ^ 32) /\ is_u32 (x / 2 ^ 32) /\ x mod 2 ^ 32 + 2 ^ 32 * (x / 2 ^ 32) = x.
Proof.
  intros H. unfold is_u32. change (2 ^ 64) with (2 ^ 32 * 2 ^ 32) in H. change (2 ^ 32) with 4294967296 in *.
  pose proof (Z.mod_pos_bound x 4294967296 ltac:(lia)). pose proof (Z.div_mod x 4294967296 ltac:(lia)).
  assert (x / 4294967296 < 4294967296) by (apply Z.div_lt_upper_bound; lia).
  pose proof (Z.div_pos x 4294967296). lia.
Qed.

Lemma bbb_parts_ok p : pair_ok p ->
  bbb_parts p = parts_z p /\
  0 <= P1 p <= 2 ^ 32 - 1 /\ 0 <= P2 p <= 3 * (2 ^ 32 - 1) /\ 0 <= P3 p <= 3 * (2 ^ 32 - 1) /\ 0 <= P4 p <= 2 ^ 32 - 2 /\
  P1 p + 2 ^ 32 * P2 p + 2 ^ 64 * P3 p + 2 ^ 96 * P4 p = fst p * snd p.
Proof.
  intros [Hx Hy]. destruct (halves _ Hx) as (Xl & Xh & Ex). destruct (halves _ Hy) as (Yl & Yh & Ey).
  unfold P1, P2, P3, P4, bbb_parts, parts_z. cbv zeta. cbn [fst snd].
  set (xl := fst p mod 2 ^ 32) in *. set (xh := fst p / 2 ^ 32) in *.
  set (yl := snd p mod 2 ^ 32) in *. set (yh := snd p / 2 ^ 32) in *.
  pose proof (mul_u32_bound _ _ Xl Yl) as Ba. pose proof (mul_u32_bound _ _ Xl Yh) as Bb.
  pose proof (mul_u32_bound _ _ Xh Yl) as Bc. pose proof (mul_u32_bound _ _ Xh Yh) as Bd.
  pose proof (hi32_bound _ Ba) as Ha. pose proof (hi32_bound _ Bb) as Hb.
  pose proof (hi32_bound _ Bc) as Hc. pose proof (hi32_bound _ Bd) as Hd.
  assert (M : 0 < 2 ^ 32) by reflexivity.
  pose proof (Z.mod_pos_bound (xl * yl) _ M) as La. pose proof (Z.mod_pos_bound (xl * yh) _ M) as Lb.
  pose proof (Z.mod_pos_bound (xh * yl) _ M) as Lc. pose proof (Z.mod_pos_bound (xh * yh) _ M) as Ld.
  pose proof (split32 (xl * yl) ltac:(lia)) as Sa. pose proof (split32 (xl * yh) ltac:(lia)) as Sb.
  pose proof (split32 (xh * yl) ltac:(lia)) as Sc. pose proof (split32 (xh * yh) ltac:(lia)) as Sd.
  set (a := xl * yl) in *. set (b := xl * yh) in *. set (c := xh * yl) in *. set (d := xh * yh) in *.
  assert (E64 : 2 ^ 64 = 2 ^ 32 * 2 ^ 32) by reflexivity. assert (E96 : 2 ^ 96 = 2 ^ 32 * 2 ^ 32 * 2 ^ 32) by reflexivity.
  set (al := a mod 2 ^ 32) in *. set (ah := a / 2 ^ 32) in *. set (bl := b mod 2 ^ 32) in *. set (bh := b / 2 ^ 32) in *.
  set (cl := c mod 2 ^ 32) in *. set (ch := c / 2 ^ 32) in *. set (dl := d mod 2 ^ 32) in *. set (dh := d / 2 ^ 32) in *.
  assert (T : 2 ^ 32 = 4294967296) by reflexivity.
  rewrite (u64_id a), (u64_id b), (u64_id c), (u64_id d) by (rewrite E64; nia).
  fold al ah bl bh cl ch dl dh.
  rewrite (u64_id (ah + bl)), (u64_id (bh + ch)) by (rewrite E64; nia).
  rewrite (u64_id (ah + bl + cl)), (u64_id (bh + ch + dl)) by (rewrite E64; nia).
  split; [reflexivity|].
  repeat split; lia.
Qed.

Lemma mul_bound a b A B : 0 <= a <= A -> 0 <= b <= B -> 0 <= a * b <= A * B.
Proof. intros Ha Hb. split; [apply Z.mul_nonneg_nonneg; lia|apply Z.mul_le_mono_nonneg; lia]. Qed.

(* low/high split of an accumulator and its recombination with reduced powers of two *)
Lemma collapse_congr q h s pl ph w : 0 < q -> 0 <= h ->
  pl mod q = w mod q -> ph mod q = (w * 2 ^ h) mod q ->
  ((s mod 2 ^ h) * pl + (s / 2 ^ h) * ph) mod q = (s * w) mod q.
Proof.
  intros Hq Hh Hl Hhh. pose proof (pow2_pos h Hh) as Hp.
  rewrite (Z.div_mod s (2 ^ h)) at 3 by lia.
  rewrite Z.add_mod, <- (Z.mul_mod_idemp_r (s mod 2 ^ h)), Hl, <- (Z.mul_mod_idemp_r (s / 2 ^ h)), Hhh by lia.
  rewrite !Z.mul_mod_idemp_r, <- Z.add_mod by lia. f_equal. ring.
Qed.

Definition bbb_dot (xy : list (Z * Z)) : Z := lsum (map (fun p => fst p * snd p) xy).

Section Bbb.
Variables (h q : Z) (xy : list (Z * Z)).
Hypothesis Hh : 20 <= h <= 28.          (* the f64 search of BbbMeta::new returns 24 for the three prime sets *)
Hypothesis Hq : 2 ^ 15 <= q < 2 ^ 31.
Hypothesis Hell : Z.of_nat (length xy) <= bbb_max_ell.
Hypothesis Hok : forall p, In p xy -> pair_ok p.

Let s1 := lsum (map P1 xy).
Let s2 := lsum (map P2 xy).
Let s3 := lsum (map P3 xy).
Let s4 := lsum (map P4 xy).

Lemma bbb_acc_bounds : 0 <= s1 <= 10000 * (2 ^ 32 - 1) /\ 0 <= s2 <= 10000 * (3 * (2 ^ 32 - 1)) /\
                       0 <= s3 <= 10000 * (3 * (2 ^ 32 - 1)) /\ 0 <= s4 <= 10000 * (2 ^ 32 - 2).
Proof.
  unfold bbb_max_ell in Hell.
  assert (L1 : 0 <= s1 <= Z.of_nat (length (map P1 xy)) * (2 ^ 32 - 1)) by (apply lsum_bounds, in_map_bound; intros p Hp; apply (bbb_parts_ok p (Hok p Hp))).
  assert (L2 : 0 <= s2 <= Z.of_nat (length (map P2 xy)) * (3 * (2 ^ 32 - 1))) by (apply lsum_bounds, in_map_bound; intros p Hp; apply (bbb_parts_ok p (Hok p Hp))).
  assert (L3 : 0 <= s3 <= Z.of_nat (length (map P3 xy)) * (3 * (2 ^ 32 - 1))) by (apply lsum_bounds, in_map_bound; intros p Hp; apply (bbb_parts_ok p (Hok p Hp))).
  assert (L4 : 0 <= s4 <= Z.of_nat (length (map P4 xy)) * (2 ^ 32 - 2)) by (apply lsum_bounds, in_map_bound; intros p Hp; apply (bbb_parts_ok p (Hok p Hp))).
  rewrite map_length in *. change (2 ^ 32) with 4294967296 in *. nia.
Qed.

Lemma bbb_sums_exact :
  let ps := map bbb_parts xy in
  sum64 (map (fun p => fst (fst (fst p))) ps) = s1 /\ sum64 (map (fun p => snd (fst (fst p))) ps) = s2 /\
  sum64 (map (fun p => snd (fst p)) ps) = s3 /\ sum64 (map (fun p => snd p) ps) = s4.
Proof.
  cbv zeta. destruct bbb_acc_bounds as (B1 & B2 & B3 & B4).
  assert (E : map bbb_parts xy = map parts_z xy) by (apply map_ext_in; intros p Hp; apply (bbb_parts_ok p (Hok p Hp))).
  rewrite E, !map_map.
  change (map (fun x => fst (fst (fst (parts_z x)))) xy) with (map P1 xy).
  change (map (fun x => snd (fst (fst (parts_z x)))) xy) with (map P2 xy).
  change (map (fun x => snd (fst (parts_z x))) xy) with (map P3 xy).
  change (map (fun x => snd (parts_z x)) xy) with (map P4 xy).
  change (2 ^ 32) with 4294967296 in *.
  repeat split; apply sum64_exact;
    try (intros t Ht; apply in_map_iff in Ht as (p & <- & Hp); apply (bbb_parts_ok p (Hok p Hp)));
    change (2 ^ 64) with 18446744073709551616; fold s1 s2 s3 s4; lia.
Qed.

Definition bbb_exact : Z :=
  let w32 := 2 ^ 32 mod q in
  let w32h := (w32 * 2 ^ h) mod q in
  let w64 := (w32 * w32) mod q in
  let w64h := (w64 * 2 ^ h) mod q in
  let w96 := (w64 * w32) mod q in
  let w96h := (w96 * 2 ^ h) mod q in
  s1 mod 2 ^ h + s1 / 2 ^ h * 2 ^ h + s2 mod 2 ^ h * w32 + s2 / 2 ^ h * w32h +
  s3 mod 2 ^ h * w64 + s3 / 2 ^ h * w64h + s4 mod 2 ^ h * w96 + s4 / 2 ^ h * w96h.

Theorem lazy_budget_bbb : bbb_k h q xy = bbb_exact /\ 0 <= bbb_exact < 2 ^ 63.
Proof.
  destruct bbb_acc_bounds as (B1 & B2 & B3 & B4). destruct bbb_sums_exact as (S1 & S2 & S3 & S4).
  unfold bbb_k. cbv zeta. rewrite S1, S2, S3, S4. unfold bbb_exact, pow2_mod. cbv zeta.
  assert (Hq' : 0 < q) by (change (2 ^ 15) with 32768 in Hq; lia).
  assert (H2h : 2 ^ 20 <= 2 ^ h <= 2 ^ 28) by (split; apply Z.pow_le_mono_r; lia).
  change (2 ^ 20) with 1048576 in H2h. change (2 ^ 28) with 268435456 in H2h.
  change (2 ^ 31) with 2147483648 in Hq. change (2 ^ 15) with 32768 in Hq. change (2 ^ 32) with 4294967296 in B1, B2, B3, B4.
  set (H := 2 ^ h) in *.
  assert (T64 : 2 ^ 64 = 18446744073709551616) by reflexivity.
  rewrite (u64_id H) by lia.
  set (w32 := 2 ^ 32 mod q). pose proof (Z.mod_pos_bound (2 ^ 32) q Hq') as W32. fold w32 in W32.
  assert (W32H : 0 <= w32 * H < 2 ^ 64) by nia. rewrite (u64_id (w32 * H)) by exact W32H.
  assert (W32W : 0 <= w32 * w32 < 2 ^ 64) by nia. rewrite (u64_id (w32 * w32)) by exact W32W.
  set (w32h := (w32 * H) mod q). pose proof (Z.mod_pos_bound (w32 * H) q Hq') as W32h. fold w32h in W32h.
  set (w64 := (w32 * w32) mod q). pose proof (Z.mod_pos_bound (w32 * w32) q Hq') as W64. fold w64 in W64.
  assert (W64H : 0 <= w64 * H < 2 ^ 64) by nia. rewrite (u64_id (w64 * H)) by exact W64H.
  assert (W64W : 0 <= w64 * w32 < 2 ^ 64) by nia. rewrite (u64_id (w64 * w32)) by exact W64W.
  set (w64h := (w64 * H) mod q). pose proof (Z.mod_pos_bound (w64 * H) q Hq') as W64h. fold w64h in W64h.
  set (w96 := (w64 * w32) mod q). pose proof (Z.mod_pos_bound (w64 * w32) q Hq') as W96. fold w96 in W96.
  assert (W96H : 0 <= w96 * H < 2 ^ 64) by nia. rewrite (u64_id (w96 * H)) by exact W96H.
  set (w96h := (w96 * H) mod q). pose proof (Z.mod_pos_bound (w96 * H) q Hq') as W96h. fold w96h in W96h.
  assert (HH : 0 < H) by lia.
  pose proof (Z.mod_pos_bound s1 H HH) as L1. pose proof (Z.mod_pos_bound s2 H HH) as L2.
  pose proof (Z.mod_pos_bound s3 H HH) as L3. pose proof (Z.mod_pos_bound s4 H HH) as L4.
  assert (D : forall s, 0 <= s <= 128849018850000 -> 0 <= s / H <= 122879999).
  { intros s Hs. split; [apply Z.div_pos; lia|].
    apply Z.le_trans with (s / 1048576); [apply Z.div_le_compat_l; lia|].
    apply Z.le_trans with (128849018850000 / 1048576); [apply Z.div_le_mono; lia|]. vm_compute; discriminate. }
  pose proof (D s1 ltac:(lia)) as D1. pose proof (D s2 ltac:(lia)) as D2.
  pose proof (D s3 ltac:(lia)) as D3. pose proof (D s4 ltac:(lia)) as D4.
  assert (D1' : 0 <= s1 / H * H <= s1) by (pose proof (Z.div_mod s1 H ltac:(lia)); lia).
  set (l1 := s1 mod H) in *. set (h1 := s1 / H) in *. set (l2 := s2 mod H) in *. set (h2 := s2 / H) in *.
  set (l3 := s3 mod H) in *. set (h3 := s3 / H) in *. set (l4 := s4 mod H) in *. set (h4 := s4 / H) in *.
  assert (A2 : 0 <= l2 * w32 <= 268435456 * 2147483648) by (apply mul_bound; lia).
  assert (A3 : 0 <= h2 * w32h <= 122879999 * 2147483648) by (apply mul_bound; lia).
  assert (A4 : 0 <= l3 * w64 <= 268435456 * 2147483648) by (apply mul_bound; lia).
  assert (A5 : 0 <= h3 * w64h <= 122879999 * 2147483648) by (apply mul_bound; lia).
  assert (A6 : 0 <= l4 * w96 <= 268435456 * 2147483648) by (apply mul_bound; lia).
  assert (A7 : 0 <= h4 * w96h <= 122879999 * 2147483648) by (apply mul_bound; lia).
  change (2 ^ 63) with 9223372036854775808.
  rewrite (u64_id (h1 * H)), (u64_id (l2 * w32)), (u64_id (h2 * w32h)), (u64_id (l3 * w64)),
          (u64_id (h3 * w64h)), (u64_id (l4 * w96)), (u64_id (h4 * w96h)) by (rewrite T64; lia).
  rewrite (u64_id (l1 + h1 * H)) by (rewrite T64; lia).
  rewrite (u64_id (l1 + h1 * H + l2 * w32)) by (rewrite T64; lia).
  rewrite (u64_id (l1 + h1 * H + l2 * w32 + h2 * w32h)) by (rewrite T64; lia).
  rewrite (u64_id (l1 + h1 * H + l2 * w32 + h2 * w32h + l3 * w64)) by (rewrite T64; lia).
  rewrite (u64_id (l1 + h1 * H + l2 * w32 + h2 * w32h + l3 * w64 + h3 * w64h)) by (rewrite T64; lia).
  rewrite (u64_id (l1 + h1 * H + l2 * w32 + h2 * w32h + l3 * w64 + h3 * w64h + l4 * w96)) by (rewrite T64; lia).
  rewrite u64_id by (rewrite T64; lia).
  split; [reflexivity|lia].
Qed.

Theorem bbb_congr : bbb_k h q xy mod q = bbb_dot xy mod q.
Proof.
  destruct lazy_budget_bbb as [-> _]. unfold bbb_exact. cbv zeta.
  assert (Hq' : 0 < q) by (change (2 ^ 15) with 32768 in Hq; lia).
  assert (Hh0 : 0 <= h) by lia.
  assert (E : bbb_dot xy = s1 * 1 + s2 * 2 ^ 32 + s3 * 2 ^ 64 + s4 * 2 ^ 96).
  { unfold bbb_dot, s1, s2, s3, s4.
    rewrite (lsum_map_ext (fun p => fst p * snd p) (fun p => (P1 p + 2 ^ 32 * P2 p) + (2 ^ 64 * P3 p + 2 ^ 96 * P4 p)))
      by (intros p Hp; destruct (bbb_parts_ok p (Hok p Hp)) as (_ & _ & _ & _ & _ & Hid); lia).
    rewrite (lsum_map_add (fun p => P1 p + 2 ^ 32 * P2 p)), (lsum_map_add P1), (lsum_map_add (fun p => 2 ^ 64 * P3 p)).
    rewrite !lsum_map_scale. ring. }
  rewrite E.
  set (w32 := 2 ^ 32 mod q). set (w64 := (w32 * w32) mod q). set (w96 := (w64 * w32) mod q).
  assert (C32 : w32 mod q = 2 ^ 32 mod q) by (unfold w32; apply Z.mod_mod; lia).
  assert (C64 : w64 mod q = 2 ^ 64 mod q).
  { unfold w64. rewrite Z.mod_mod by lia. unfold w32. rewrite <- Z.mul_mod by lia. reflexivity. }
  assert (C96 : w96 mod q = 2 ^ 96 mod q).
  { unfold w96. rewrite Z.mod_mod by lia. rewrite Z.mul_mod, C64, C32, <- Z.mul_mod by lia. reflexivity. }
  assert (K1 : (s1 mod 2 ^ h * 1 + s1 / 2 ^ h * 2 ^ h) mod q = (s1 * 1) mod q).
  { apply collapse_congr; try lia. f_equal; ring. }
  assert (K2 : (s2 mod 2 ^ h * w32 + s2 / 2 ^ h * ((w32 * 2 ^ h) mod q)) mod q = (s2 * 2 ^ 32) mod q).
  { apply collapse_congr; try lia. rewrite Z.mod_mod by lia. rewrite Z.mul_mod, C32, <- Z.mul_mod by lia. reflexivity. }
  assert (K3 : (s3 mod 2 ^ h * w64 + s3 / 2 ^ h * ((w64 * 2 ^ h) mod q)) mod q = (s3 * 2 ^ 64) mod q).
  { apply collapse_congr; try lia. rewrite Z.mod_mod by lia. rewrite Z.mul_mod, C64, <- Z.mul_mod by lia. reflexivity. }
  assert (K4 : (s4 mod 2 ^ h * w96 + s4 / 2 ^ h * ((w96 * 2 ^ h) mod q)) mod q = (s4 * 2 ^ 96) mod q).
  { apply collapse_congr; try lia. rewrite Z.mod_mod by lia. rewrite Z.mul_mod, C96, <- Z.mul_mod by lia. reflexivity. }
  rewrite Z.mul_1_r in K1.
  replace (s1 mod 2 ^ h + s1 / 2 ^ h * 2 ^ h + s2 mod 2 ^ h * w32 + s2 / 2 ^ h * ((w32 * 2 ^ h) mod q) +
           s3 mod 2 ^ h * w64 + s3 / 2 ^ h * ((w64 * 2 ^ h) mod q) + s4 mod 2 ^ h * w96 + s4 / 2 ^ h * ((w96 * 2 ^ h) mod q))
     with ((s1 mod 2 ^ h + s1 / 2 ^ h * 2 ^ h) + (s2 mod 2 ^ h * w32 + s2 / 2 ^ h * ((w32 * 2 ^ h) mod q)) +
           (s3 mod 2 ^ h * w64 + s3 / 2 ^ h * ((w64 * 2 ^ h) mod q)) + (s4 mod 2 ^ h * w96 + s4 / 2 ^ h * ((w96 * 2 ^ h) mod q))) by ring.
  rewrite add4_mod, K1, K2, K3, K4, <- add4_mod by lia. reflexivity.
Qed.
End Bbb.
