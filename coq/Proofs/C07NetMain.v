(* C07 butterfly networks: the theorems about the model of ntt_ref / intt_ref (one prime at a time), for the three
   prime sets, the four primes, every n = 2^m with 1 <= m <= 16 and every u64 input. *)
From PV Require Import Base.MachineInt Model.Limbs Model.DftAbs Model.C07Ntt120 Model.C07NttNet Proofs.C07Dft Proofs.C07Ring
  Proofs.C07Ntt Proofs.C07NetBase Proofs.C07NetStruct Proofs.C07NetAbs Proofs.C07NetLazy Proofs.C07NetRefine
  Proofs.C07NetFacts Proofs.C07NetTable Proofs.C07NetFlat.
From Coq Require Import Morphisms Setoid.
Open Scope Z_scope.

Definition u64s (x : list Z) : Prop := Forall (fun v => 0 <= v < 2 ^ 64) x.
Lemma u64s_rng x : u64s x -> Forall (rng (2 ^ 64 - 1)) x.
Proof. intros H. eapply Forall_impl; [|exact H]. intros v Hv. cbv beta in Hv. unfold rng. lia. Qed.
Lemma rng_below bits U x : Forall (rng U) x -> U < 2 ^ bits -> Forall (fun v => 0 <= v < 2 ^ bits) x.
Proof. intros H HU. eapply Forall_impl; [|exact H]. intros v Hv. unfold rng in Hv. cbv beta. lia. Qed.

Section Case.
Variables (P : primeset) (k m : nat).
Hypothesis HP : In P three.
Hypothesis Hk : (k < 4)%nat.
Hypothesis Hm : (S m <= 16)%nat.
Notation q := (qk P k).
Notation psi := (omega_n P k (S m)).
Notation phi := (phi_of P k (S m)).
Notation ninv := (ninv_of P k (S m)).
Notation n := (pow2n (S m)).

Lemma case_facts : tbl_facts P k (S m) = true /\ fwd_ok P k (S m) = true /\ inv_ok P k (S m) = true.
Proof.
  split; [|split].
  - apply (all_cases_elim _ tbl_facts_all P HP k Hk (S m)). lia.
  - apply (all_cases_elim _ fwd_ok_all P HP k Hk (S m)). lia.
  - apply (all_cases_elim _ inv_ok_all P HP k Hk (S m)). lia.
Qed.

Lemma q_pos : 1 <= q.
Proof. destruct case_facts as [HF _]. destruct (facts_split P k (S m) Hm HF) as [Hq _]. lia. Qed.

(* 2: no wrap, the wrapped run equals the exact run, documented bounds *)
Theorem ntt_no_overflow x : length x = n -> u64s x ->
  ntt_safe P k (S m) x = true /\ ntt_k w64 P k (S m) x = ntt_k idz P k (S m) x /\
  Forall (fun v => 0 <= v < 2 ^ fwd_out_bits P (S m)) (ntt_k w64 P k (S m) x) /\ length (ntt_k w64 P k (S m) x) = n.
Proof.
  intros Hx Hu. destruct case_facts as [HF [HO _]].
  destruct (fwd_ok_split P k m HO) as [Uf [Hc [Hlt _]]].
  destruct (ntt_with_sound q (fwd_table P k (S m)) m x _ Uf q_pos Hc (fwd_table_words P k m Hm HF HO) Hx (u64s_rng x Hu)) as [O [E [R L]]].
  unfold ntt_safe, ntt_k. rewrite E. repeat split; try assumption. apply (rng_below _ Uf); assumption.
Qed.
Theorem intt_no_overflow x : length x = n -> u64s x ->
  intt_safe P k (S m) x = true /\ intt_k w64 P k (S m) x = intt_k idz P k (S m) x /\
  Forall (fun v => 0 <= v < 2 ^ inv_out_bits P (S m)) (intt_k w64 P k (S m) x) /\ length (intt_k w64 P k (S m) x) = n.
Proof.
  intros Hx Hu. destruct case_facts as [HF [_ HO]].
  destruct (inv_ok_split P k m HO) as [Uf [Hc [Hlt _]]].
  destruct (intt_with_sound q (inv_table P k (S m)) m x _ Uf q_pos Hc (inv_table_words P k m Hm HF HO) Hx (u64s_rng x Hu)) as [O [E [R L]]].
  unfold intt_safe, intt_k. rewrite E. repeat split; try assumption. apply (rng_below _ Uf); assumption.
Qed.

(* the roots *)
Lemma roots : cong q (zp psi n) (-1) /\ cong q (psi * phi) 1 /\ cong q (ninv * Z.of_nat n) 1.
Proof.
  destruct case_facts as [HF _]. split; [|split].
  - apply (psi_root P k (S m) Hm HF).
  - apply (psi_phi P k (S m) Hm HF).
  - apply (ninv_n P k (S m) Hm HF).
Qed.

(* refinement to the ideal transforms *)
Lemma ntt_lcong x : length x = n -> u64s x -> lcong q (ntt_k w64 P k (S m) x) (nttA psi (S m) x).
Proof.
  intros Hx Hu. destruct (ntt_no_overflow x Hx Hu) as [_ [E _]]. rewrite E.
  destruct case_facts as [HF [HO _]]. unfold ntt_k.
  apply ntt_refine; [apply (fwd_table_vals P k m Hm HF HO)|exact Hx].
Qed.
Lemma intt_lcong y : length y = n -> u64s y -> lcong q (intt_k w64 P k (S m) y) (inttA phi ninv (S m) y).
Proof.
  intros Hy Hu. destruct (intt_no_overflow y Hy Hu) as [_ [E _]]. rewrite E.
  destruct case_facts as [HF [_ HO]]. unfold intt_k.
  apply intt_refine; [apply (inv_table_vals P k m Hm HF HO)|exact Hy].
Qed.

(* 3: the forward network evaluates at the odd powers of psi, in bit-reversed order *)
Theorem ntt_spec x p : length x = n -> u64s x -> (p < n)%nat ->
  cong q (nth p (ntt_k w64 P k (S m) x) 0) (peval x (zp psi (2 * brev (S m) p + 1)) n).
Proof.
  intros Hx Hu Hp. destruct (ntt_lcong x Hx Hu) as [_ H]. rewrite (H p).
  destruct roots as [Hr _]. apply nttA_spec; assumption.
Qed.

(* 4a: intt (ntt x) = x, more generally intt y = x for every u64 vector y with the residues of ntt x *)
Theorem intt_of_ntt x y j : length x = n -> u64s x -> length y = n -> u64s y ->
  (forall p, (p < n)%nat -> cong q (nth p y 0) (nth p (ntt_k w64 P k (S m) x) 0)) -> (j < n)%nat ->
  cong q (nth j (intt_k w64 P k (S m) y) 0) (nth j x 0).
Proof.
  intros Hx Hux Hy Huy Hyx Hj. destruct (intt_lcong y Hy Huy) as [_ H]. rewrite (H j).
  destruct roots as [Hr [Hi Hn]].
  apply (inttA_nttA q psi phi ninv (S m) x j Hi Hr Hn Hj y).
  destruct (ntt_lcong x Hx Hux) as [Hl Hc]. split; [rewrite nttA_length; exact Hy|].
  intros p. destruct (Nat.ltb_spec p n) as [Hp|Hp].
  - rewrite (Hyx p Hp). apply Hc.
  - rewrite !nth_overflow; [reflexivity|rewrite nttA_length; lia|lia].
Qed.

(* 4b: the convolution theorem *)
Theorem convolution a b c j : length a = n -> u64s a -> length b = n -> u64s b -> length c = n -> u64s c ->
  (forall p, (p < n)%nat -> cong q (nth p c 0) (nth p (ntt_k w64 P k (S m) a) 0 * nth p (ntt_k w64 P k (S m) b) 0)) ->
  (j < n)%nat -> cong q (nth j (intt_k w64 P k (S m) c) 0) (nth j (pmul a b) 0).
Proof.
  intros Ha Hua Hb Hub Hc Huc Hprod Hj. destruct (intt_lcong c Hc Huc) as [_ H]. rewrite (H j).
  destruct roots as [Hr [Hi Hn]].
  apply (conv_A q psi phi ninv (S m) a b c j Hi Hr Hn Ha Hb Hc); [|exact Hj].
  intros p Hp. rewrite (Hprod p Hp).
  destruct (ntt_lcong a Ha Hua) as [_ Ca]. destruct (ntt_lcong b Hb Hub) as [_ Cb]. rewrite (Ca p), (Cb p). reflexivity.
Qed.
End Case.

(* ---------------- statements in plain terms (mod, Z.pow), for 1 <= m <= 16 ---------------- *)
Lemma out_bits_le : forallb (fun P => forallb (fun m => (fwd_out_bits P m <=? 64) && (inv_out_bits P m <=? 64)) (seq 1 16)) three = true.
Proof. vm_compute. reflexivity. Qed.
Lemma out_bits_64 P m : In P three -> (1 <= m <= 16)%nat -> fwd_out_bits P m <= 64 /\ inv_out_bits P m <= 64.
Proof.
  intros HP Hm. pose proof out_bits_le as H. rewrite forallb_forall in H. specialize (H P HP).
  rewrite forallb_forall in H. specialize (H m ltac:(apply in_seq; lia)).
  rewrite andb_true_iff, !Z.leb_le in H. exact H.
Qed.
Lemma below_u64s bits x : bits <= 64 -> Forall (fun v => 0 <= v < 2 ^ bits) x -> u64s x.
Proof.
  intros Hb H. eapply Forall_impl; [|exact H]. intros v Hv. cbv beta in Hv.
  assert (2 ^ bits <= 2 ^ 64) by (apply Z.pow_le_mono_r; lia). lia.
Qed.

Definition nets_safe (P : primeset) (k m : nat) (x : list Z) : Prop :=
  (ntt_safe P k m x = true /\ ntt_k w64 P k m x = ntt_k (fun v => v) P k m x /\
   Forall (fun v => 0 <= v < 2 ^ fwd_out_bits P m) (ntt_k w64 P k m x) /\ length (ntt_k w64 P k m x) = pow2n m) /\
  (intt_safe P k m x = true /\ intt_k w64 P k m x = intt_k (fun v => v) P k m x /\
   Forall (fun v => 0 <= v < 2 ^ inv_out_bits P m) (intt_k w64 P k m x) /\ length (intt_k w64 P k m x) = pow2n m).

Theorem net_no_overflow : forall P, In P three -> forall k, (k < 4)%nat -> forall m, (1 <= m <= 16)%nat ->
  forall x, length x = pow2n m -> u64s x -> nets_safe P k m x.
Proof.
  intros P HP k Hk [|m] Hm x Hx Hu; [lia|]. split.
  - apply (ntt_no_overflow P k m HP Hk ltac:(lia) x Hx Hu).
  - apply (intt_no_overflow P k m HP Hk ltac:(lia) x Hx Hu).
Qed.

Lemma zp_Zpow z a b : zp (zp z a) b = z ^ Z.of_nat (a * b).
Proof. rewrite <- zp_mul. apply zp_pow. Qed.

Definition neg_eval (q psi : Z) (m : nat) (x : list Z) (i : nat) : Z :=
  zsum (fun j => nth j x 0 * psi ^ Z.of_nat ((2 * i + 1) * j)) (pow2n m).
Lemma peval_neg_eval q psi m x i : peval x (zp psi (2 * i + 1)) (pow2n m) = neg_eval q psi m x i.
Proof. unfold peval, neg_eval. apply zsum_ext. intros j _. rewrite zp_Zpow. reflexivity. Qed.

Theorem net_root : forall P, In P three -> forall k, (k < 4)%nat -> forall m, (1 <= m <= 16)%nat ->
  let q := qk P k in let psi := omega_n P k m in
  psi = (omegak P k ^ 2 ^ (16 - Z.of_nat m)) mod q /\ psi ^ 2 ^ Z.of_nat m mod q = q - 1 /\ 1 < q.
Proof.
  intros P HP k Hk [|m] Hm; [lia|]. cbv zeta.
  destruct (case_facts P k m HP Hk ltac:(lia)) as [HF _].
  split; [apply (psi_from_omega P k (S m) ltac:(lia) HF)|].
  destruct (facts_split P k (S m) ltac:(lia) HF) as [Hq _].
  pose proof (psi_root P k (S m) ltac:(lia) HF) as H. rewrite zp_pow, pow2n_Z in H. apply cong_unfold in H.
  split; [|lia]. rewrite H. replace (-1) with (qk P k - 1 + (-1) * qk P k) by ring.
  rewrite Z_mod_plus_full. apply Z.mod_small. lia.
Qed.

Theorem net_ntt_spec : forall P, In P three -> forall k, (k < 4)%nat -> forall m, (1 <= m <= 16)%nat ->
  forall x, length x = pow2n m -> u64s x -> forall p, (p < pow2n m)%nat ->
  nth p (ntt_k w64 P k m x) 0 mod qk P k = neg_eval (qk P k) (omega_n P k m) m x (brev m p) mod qk P k.
Proof.
  intros P HP k Hk [|m] Hm x Hx Hu p Hp; [lia|]. apply (proj1 (cong_unfold _ _ _)).
  rewrite <- peval_neg_eval. apply (ntt_spec P k m HP Hk ltac:(lia) x p Hx Hu Hp).
Qed.

Theorem net_intt_ntt_id : forall P, In P three -> forall k, (k < 4)%nat -> forall m, (1 <= m <= 16)%nat ->
  forall x, length x = pow2n m -> u64s x -> forall j, (j < pow2n m)%nat ->
  nth j (intt_k w64 P k m (ntt_k w64 P k m x)) 0 mod qk P k = nth j x 0 mod qk P k.
Proof.
  intros P HP k Hk [|m] Hm x Hx Hu j Hj; [lia|]. apply (proj1 (cong_unfold _ _ _)).
  destruct (ntt_no_overflow P k m HP Hk ltac:(lia) x Hx Hu) as [_ [_ [Hb Hl]]].
  apply (intt_of_ntt P k m HP Hk ltac:(lia) x _ j Hx Hu Hl); [|intros; reflexivity|exact Hj].
  apply (below_u64s (fwd_out_bits P (S m))); [apply (out_bits_64 P (S m) HP Hm)|exact Hb].
Qed.

Lemma pmul_lcong q a b A B k : lcong q a A -> lcong q b B -> length b = length a -> (k < length a)%nat ->
  cong q (nth k (pmul a b) 0) (nth k (pmul A B) 0).
Proof.
  intros [Hla Ha] [Hlb Hb] Hl Hk.
  rewrite (pmul_delta a b k Hl Hk), (pmul_delta A B k ltac:(lia) ltac:(lia)). rewrite <- Hla. unfold nthZ.
  apply zsum_cong. intros i _. apply zsum_cong. intros j _. rewrite (Ha i), (Hb j). reflexivity.
Qed.

(* residue vectors a, b of integer polynomials A, B; c any u64 vector with the residues of ntt a (.) ntt b *)
Theorem net_convolution : forall P, In P three -> forall k, (k < 4)%nat -> forall m, (1 <= m <= 16)%nat ->
  forall A B a b c, length A = pow2n m -> length B = pow2n m ->
  length a = pow2n m -> u64s a -> length b = pow2n m -> u64s b -> length c = pow2n m -> u64s c ->
  (forall i, nth i a 0 mod qk P k = nth i A 0 mod qk P k) -> (forall i, nth i b 0 mod qk P k = nth i B 0 mod qk P k) ->
  (forall p, (p < pow2n m)%nat ->
     nth p c 0 mod qk P k = (nth p (ntt_k w64 P k m a) 0 * nth p (ntt_k w64 P k m b) 0) mod qk P k) ->
  forall j, (j < pow2n m)%nat -> nth j (intt_k w64 P k m c) 0 mod qk P k = nth j (pmul A B) 0 mod qk P k.
Proof.
  intros P HP k Hk [|m] Hm A B a b c HA HB Ha Hua Hb Hub Hc Huc HaA HbB Hprod j Hj; [lia|]. apply (proj1 (cong_unfold _ _ _)).
  rewrite (convolution P k m HP Hk ltac:(lia) a b c j Ha Hua Hb Hub Hc Huc); [|intros p Hp; apply (proj2 (cong_unfold _ _ _)); apply Hprod; exact Hp|exact Hj].
  apply pmul_lcong; [split; [lia|intros i; apply (proj2 (cong_unfold _ _ _)); apply HaA]|split; [lia|intros i; apply (proj2 (cong_unfold _ _ _)); apply HbB]|lia|lia].
Qed.

(* with the CRT reconstruction: the exact integer product *)
Theorem net_product_exact : forall P, In P three -> forall m, (1 <= m <= 16)%nat ->
  forall A B (a b c : nat -> list Z), length A = pow2n m -> length B = pow2n m ->
  (forall k, (k < 4)%nat ->
     length (a k) = pow2n m /\ u64s (a k) /\ length (b k) = pow2n m /\ u64s (b k) /\ length (c k) = pow2n m /\ u64s (c k) /\
     (forall i, nth i (a k) 0 mod qk P k = nth i A 0 mod qk P k) /\ (forall i, nth i (b k) 0 mod qk P k = nth i B 0 mod qk P k) /\
     (forall p, (p < pow2n m)%nat ->
        nth p (c k) 0 mod qk P k = (nth p (ntt_k w64 P k m (a k)) 0 * nth p (ntt_k w64 P k m (b k)) 0) mod qk P k)) ->
  forall j, (j < pow2n m)%nat -> 2 * Z.abs (nth j (pmul A B) 0) < Qprod P ->
  b_to_znx128 P (map (fun k => nth j (intt_k w64 P k m (c k)) 0) (seq 0 4)) = nth j (pmul A B) 0.
Proof.
  intros P HP m Hm A B a b c HA HB H j Hj Hsmall.
  apply (b_to_znx128_exact P HP); [|exact Hsmall].
  intros k Hk. rewrite nth_map_seq by exact Hk.
  destruct (H k Hk) as [Ha [Hua [Hb [Hub [Hc [Huc [HaA [HbB Hprod]]]]]]]].
  apply (net_convolution P HP k Hk m Hm A B (a k) (b k) (c k)); assumption.
Qed.

(* ---------------- the interleaved model of ntt_ref / intt_ref ---------------- *)
Lemma colk_u64s n d k : length d = (4 * n)%nat -> (k < 4)%nat -> u64s d -> u64s (colk k d).
Proof.
  intros Hd Hk Hu. apply Forall_nth'. rewrite (colk_length n d k Hd Hk). intros i Hi.
  rewrite (colk_nth n d k i Hd Hk Hi). apply (Forall_nth_elim _ d (4 * i + k) Hu). lia.
Qed.
Theorem net_flat_view : forall P, In P three -> forall m, (1 <= m <= 16)%nat -> forall d, length d = (4 * pow2n m)%nat -> u64s d ->
  forall k p, (k < 4)%nat -> (p < pow2n m)%nat ->
  nth p (colk k d) 0 = nth (4 * p + k) d 0 /\
  nth (4 * p + k) (ntt_ref P m d) 0 = nth p (ntt_k w64 P k m (colk k d)) 0 /\
  nth (4 * p + k) (intt_ref P m d) 0 = nth p (intt_k w64 P k m (colk k d)) 0.
Proof.
  intros P HP m Hm d Hd Hu k p Hk Hp. split; [apply (colk_nth _ d k p Hd Hk Hp)|]. split.
  - unfold ntt_ref. apply (per_prime_nth (fun k => ntt_k w64 P k m) (pow2n m) d k p Hd); [|exact Hk|exact Hp].
    intros k' Hk'. destruct (net_no_overflow P HP k' Hk' m Hm (colk k' d) (colk_length _ d k' Hd Hk') (colk_u64s _ d k' Hd Hk' Hu)) as [[_ [_ [_ L]]] _]. exact L.
  - unfold intt_ref. apply (per_prime_nth (fun k => intt_k w64 P k m) (pow2n m) d k p Hd); [|exact Hk|exact Hp].
    intros k' Hk'. destruct (net_no_overflow P HP k' Hk' m Hm (colk k' d) (colk_length _ d k' Hd Hk') (colk_u64s _ d k' Hd Hk' Hu)) as [_ [_ [_ [_ L]]]]. exact L.
Qed.
