(* The negacyclic product as a bilinear form of coefficient functions (on top of C07's structure constants), and the
   value polynomial of a column: sum_j (s * limb_j)_k * weight_j = (s * V)_k. *)
From PV Require Import Base.MachineInt Model.Znx Model.Limbs Model.Flat Model.DftAbs Model.EncModel
  Proofs.C07Dft Proofs.C07Ring Proofs.EncValue Proofs.EncLists.
Open Scope Z_scope.

Definition bil (n : nat) (a : list Z) (f : nat -> Z) (k : nat) : Z :=
  zsum (fun i => zsum (fun j => nthZ a i * f j * delta n i j k) n) n.

Lemma pmul_bil (a b : list Z) (k : nat) : length b = length a -> (k < length a)%nat ->
  nthZ (pmul a b) k = bil (length a) a (nthZ b) k.
Proof. intros Hl Hk. unfold nthZ at 1. rewrite pmul_delta by assumption. reflexivity. Qed.

Lemma bil_ext n a f g k : (forall j, (j < n)%nat -> f j = g j) -> bil n a f k = bil n a g k.
Proof.
  intros H. unfold bil. apply zsum_ext; intros i _. apply zsum_ext; intros j Hj. rewrite H by exact Hj. reflexivity.
Qed.
Lemma bil_add n a f g k : bil n a (fun j => f j + g j) k = bil n a f k + bil n a g k.
Proof.
  unfold bil. rewrite <- zsum_add. apply zsum_ext; intros i _. rewrite <- zsum_add. apply zsum_ext; intros j _. ring.
Qed.
Lemma bil_scale n a c f k : bil n a (fun j => c * f j) k = c * bil n a f k.
Proof.
  unfold bil. rewrite <- zsum_mul_l. apply zsum_ext; intros i _. rewrite <- zsum_mul_l. apply zsum_ext; intros j _. ring.
Qed.
Lemma bil_zero n a k : bil n a (fun _ => 0) k = 0.
Proof.
  unfold bil. rewrite (zsum_ext _ (fun _ => 0)); [apply zsum_zero|]. intros i _.
  rewrite (zsum_ext _ (fun _ => 0)); [apply zsum_zero|]. intros j _. ring.
Qed.
Lemma bil_opp n a f k : bil n a (fun j => - f j) k = - bil n a f k.
Proof. rewrite (bil_ext n a _ (fun j => (-1) * f j)) by (intros; ring). rewrite bil_scale. ring. Qed.

Lemma bil_sumz n a (F : nat -> nat -> Z) (m : nat) k :
  bil n a (fun j => sumz (fun t => F t j) m) k = sumz (fun t => bil n a (F t) k) m.
Proof.
  induction m; cbn [sumz]; [apply bil_zero|]. rewrite bil_add, IHm. reflexivity.
Qed.

(* sum of a list of coefficient functions *)
Definition lsumf (fs : list (nat -> Z)) (t : nat) : Z := fold_right (fun f acc => f t + acc) 0 fs.
Lemma bil_lsumf n a (fs : list (nat -> Z)) k :
  bil n a (lsumf fs) k = fold_right (fun f acc => bil n a f k + acc) 0 fs.
Proof.
  induction fs as [|f fs IH]; cbn [lsumf fold_right]; [apply bil_zero|].
  change (bil n a (fun t => f t + lsumf fs t) k = bil n a f k + fold_right (fun f0 acc => bil n a f0 k + acc) 0 fs).
  rewrite bil_add, IH. reflexivity.
Qed.

(* ---------------- value polynomial of a column ---------------- *)
Definition vpoly (P b : Z) (n size : nat) (c : ccol) : list Z := map (fun t => lval P b size (coef c t)) (seq 0 n).
Lemma vpoly_length P b n size c : length (vpoly P b n size c) = n.
Proof. unfold vpoly. rewrite map_length, seq_length. reflexivity. Qed.
Lemma nth_vpoly P b n size c t : (t < n)%nat -> nthZ (vpoly P b n size c) t = lval P b size (coef c t).
Proof. intros H. unfold vpoly, nthZ. apply (EncValue.nth_map_seq (fun t0 => lval P b size (coef c t0))). exact H. Qed.

Lemma limb_poly_length (c : ccol) j : length (limb_poly c j) = length c.
Proof. unfold limb_poly. apply map_length. Qed.
Lemma nth_limb_poly (c : ccol) j t : nthZ (limb_poly c j) t = nthZ (coef c t) j.
Proof.
  unfold limb_poly, coef. destruct (Nat.lt_ge_cases t (length c)) as [H|H].
  - unfold nthZ at 1. rewrite nth_indep with (d' := nthZ [] j) by (rewrite map_length; lia).
    rewrite (map_nth (fun cl => nthZ cl j)). reflexivity.
  - rewrite nthZ_beyond by (rewrite map_length; lia). rewrite (nth_overflow c) by lia. unfold nthZ. destruct j; reflexivity.
Qed.

(* the value of the product column is the product with the value polynomial *)
Theorem svp_value (P b : Z) (n size : nat) (s : poly) (c : ccol) (k : nat) :
  length s = n -> length c = n -> (k < n)%nat ->
  lval P b size (coef (svp s n size c) k) = nthZ (pmul s (vpoly P b n size c)) k.
Proof.
  intros Hs Hc Hk.
  rewrite pmul_bil by (rewrite ?vpoly_length; lia). rewrite Hs.
  rewrite (bil_ext n s _ (fun t => sumz (fun j => nthZ (coef c t) j * wt P b j) size))
    by (intros t Ht; rewrite nth_vpoly by lia; reflexivity).
  rewrite (bil_sumz n s (fun j t => nthZ (coef c t) j * wt P b j) size k).
  unfold lval. apply sumz_ext. intros j Hj.
  rewrite coef_svp by lia. unfold nthZ at 1. rewrite EncValue.nth_map_seq by lia.
  rewrite pmul_bil by (rewrite ?limb_poly_length; lia). rewrite Hs.
  rewrite (bil_ext n s (nthZ (limb_poly c j)) (fun t => nthZ (coef c t) j)) by (intros; apply nth_limb_poly).
  rewrite (bil_ext n s (fun t => nthZ (coef c t) j * wt P b j) (fun t => wt P b j * nthZ (coef c t) j)) by (intros; ring).
  rewrite bil_scale. ring.
Qed.

(* finite choice *)
Lemma finite_choice (n : nat) (R : nat -> Z -> Prop) :
  (forall t, (t < n)%nat -> exists q, R t q) -> exists l, length l = n /\ forall t, (t < n)%nat -> R t (nthZ l t).
Proof.
  induction n; intros H.
  - exists []. split; [reflexivity|]. intros; lia.
  - destruct (IHn ltac:(intros; apply H; lia)) as [l [Ll Hl]]. destruct (H n ltac:(lia)) as [q Hq].
    exists (l ++ [q]). split; [rewrite app_length; cbn [length]; lia|].
    intros t Ht. unfold nthZ. destruct (Nat.eq_dec t n) as [->|Hne].
    + rewrite app_nth2 by lia. rewrite Ll, Nat.sub_diag. exact Hq.
    + rewrite app_nth1 by lia. apply Hl. lia.
Qed.
