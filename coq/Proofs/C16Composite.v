(* C16 — the composites of delegates/composite.rs (add_many, mul_many, dot products): every successful call leaves
   metadata that the destination can hold.  Hoare-style reasoning over the little monad of Model/C16Meta.v. *)
From Coq Require Import ZifyBool.
From PV Require Import Base.MachineInt Model.C16Meta Model.C16Spec Proofs.C16Proofs.
Open Scope Z_scope.

Definition nn (m : meta) : Prop := 0 <= ld m /\ 0 <= lb m.
Definition nnct (c : ct) : Prop := nn (cm c).
(* the metadata fits in sz limbs *)
Definition fits (B sz : Z) (m : meta) : Prop := nn m /\ eff m <= sz * B.

(* partial correctness for the Ok exit *)
Definition hR {A : Type} (Pre : meta -> Prop) (c : M A) (Post : A -> meta -> Prop) : Prop :=
  forall m sh, Pre m -> forall x m' sh', c m sh = R x m' sh' -> Post x m'.

Lemma hR_bind {A C : Type} (Pre : meta -> Prop) (c : M A) (Q : A -> meta -> Prop) (f : A -> M C) (Post : C -> meta -> Prop) :
  hR Pre c Q -> (forall x, hR (Q x) (f x) Post) -> hR Pre (bind c f) Post.
Proof.
  intros Hc Hf m sh Hp y m' sh' E. unfold bind in E.
  destruct (c m sh) as [x m1 sh1 | e m1 | ] eqn:Ec; try discriminate.
  exact (Hf x m1 sh1 (Hc m sh Hp x m1 sh1 Ec) y m' sh' E).
Qed.

Lemma hR_weaken {A : Type} (Pre Pre' : meta -> Prop) (c : M A) (Post Post' : A -> meta -> Prop) :
  hR Pre' c Post' -> (forall m, Pre m -> Pre' m) -> (forall x m, Post' x m -> Post x m) -> hR Pre c Post.
Proof. intros H H1 H2 m sh Hp x m' sh' E. apply H2. exact (H m sh (H1 m Hp) x m' sh' E). Qed.

Lemma hR_ret {A : Type} (Pre : meta -> Prop) (x : A) : hR Pre (ret x) (fun _ m => Pre m).
Proof. intros m sh Hp y m' sh' E. unfold ret in E. inversion E; subst. exact Hp. Qed.

Lemma hR_fail {A : Type} (Pre : meta -> Prop) (e : ekind) (Post : A -> meta -> Prop) : hR Pre (fail e) Post.
Proof. intros m sh Hp y m' sh' E. discriminate E. Qed.

Lemma hR_if {A : Type} (Pre : meta -> Prop) (b : bool) (c1 c2 : M A) (Post : A -> meta -> Prop) :
  hR Pre c1 Post -> hR Pre c2 Post -> hR Pre (if b then c1 else c2) Post.
Proof. destruct b; auto. Qed.

Lemma hR_fold {A : Type} (Inv : meta -> Prop) (f : A -> M unit) (l : list A) :
  (forall x, In x l -> hR Inv (f x) (fun _ m => Inv m)) -> hR Inv (fold_m f l) (fun _ m => Inv m).
Proof.
  induction l as [ | x tl IH ]; intros H; cbn [fold_m].
  - apply hR_ret.
  - eapply hR_bind; [ apply H; left; reflexivity | ].
    intros ?u. apply IH. intros y Hy. apply H. right; exact Hy.
Qed.

(* ---- primitives ---- *)
Ltac prim :=
  let m := fresh "m" in let sh := fresh "sh" in let Hp := fresh "Hp" in
  let x := fresh "x" in let m' := fresh "m'" in let sh' := fresh "sh'" in let E := fresh "E" in
  intros m sh Hp x m' sh' E; revert E;
  cbv beta iota zeta delta [lin_into lin_assign mul_into mulptz_into mulcst_into unary_into apply_params_asserting
    mul_ct_params mul_pt_params offset_unary offset_binary ssub eff maxk compact
    bind ret fail panic get set_meta set_lb set_ld shift csub usub passert fst snd];
  repeat (match goal with
          | |- context [if ?c then _ else _] => let E := fresh "E" in destruct c eqn:E
          end; cbv beta iota zeta);
  intros E; try discriminate E; injection E as <- <- <-.

Lemma lin_into_fits (chk : bool) (B : Z) (d a b : ct) :
  nnct a -> nnct b -> hR (fun _ => True) (lin_into chk B d a b) (fun _ m => fits B (csize d) m).
Proof.
  intros [Ha1 Ha2] [Hb1 Hb2]. destruct d as [dm ds], a as [[al ab] asz], b as [[bl bb] bs].
  cbn [cm csize ld lb] in *. prim; unfold fits, nn, eff; cbn [cm csize ld lb pm pmaxk pb2k] in *; lia.
Qed.

Lemma lin_assign_fits (chk : bool) (B sz : Z) (a : ct) :
  nnct a -> hR (fits B sz) (lin_assign chk a) (fun _ m => fits B sz m).
Proof.
  intros [Ha1 Ha2]. destruct a as [[al ab] asz]. cbn [cm ld lb] in *.
  prim; destruct m as [ml mb]; unfold fits, nn, eff in *; cbn [cm csize ld lb] in *; lia.
Qed.

Lemma mul_into_fits (B : Z) (d a b : ct) :
  nnct a -> nnct b -> hR (fun _ => True) (mul_into B d a b) (fun _ m => fits B (csize d) m).
Proof.
  intros [Ha1 Ha2] [Hb1 Hb2]. destruct d as [dm ds], a as [[al ab] asz], b as [[bl bb] bs].
  cbn [cm csize ld lb] in *. prim; unfold fits, nn, eff; cbn [cm csize ld lb pm pmaxk pb2k] in *; lia.
Qed.

Lemma mulptz_into_fits (B : Z) (d a : ct) (p : ptz) :
  nnct a -> hR (fun _ => True) (mulptz_into B d a p) (fun _ m => fits B (csize d) m).
Proof.
  intros [Ha1 Ha2]. destruct d as [dm ds], a as [[al ab] asz], p as [[pl pb] pk pbk].
  cbn [cm csize ld lb pm pmaxk pb2k] in *. prim; unfold fits, nn, eff; cbn [cm csize ld lb pm pmaxk pb2k] in *; lia.
Qed.

Lemma mulcst_into_fits (B : Z) (d a : ct) (prec : meta) :
  nnct a -> hR (fun _ => True) (mulcst_into B d a prec) (fun _ m => fits B (csize d) m).
Proof.
  intros [Ha1 Ha2]. destruct d as [dm ds], a as [[al ab] asz], prec as [pl pb].
  cbn [cm csize ld lb] in *. unfold mulcst_into, apply_params.
  intros m sh Hp x m' sh' E; revert E.
  cbv beta iota zeta delta [mul_pt_params ssub eff maxk bind ret fail get set_meta set_lb set_ld shift csub fst snd cm csize ld lb].
  repeat (match goal with
          | |- context [if ?c then _ else _] => let E := fresh "E" in destruct c eqn:E
          end; cbv beta iota zeta).
  all: intros EQ; try discriminate EQ; injection EQ as <- <- <-; unfold fits, nn, eff; cbn [cm csize ld lb] in *; lia.
Qed.

Lemma unary_into_fits (B : Z) (d a : ct) :
  nnct a -> hR (fun _ => True) (unary_into B d a) (fun _ m => fits B (csize d) m).
Proof.
  intros [Ha1 Ha2]. destruct d as [dm ds], a as [[al ab] asz].
  cbn [cm csize ld lb] in *. prim; unfold fits, nn, eff; cbn [cm csize ld lb pm pmaxk pb2k] in *; lia.
Qed.

(* a computation on a scratch destination leaves the real metadata alone *)
Lemma on_tmp_keeps (Inv : meta -> Prop) (c : M unit) (Q : meta -> Prop) :
  hR (fun _ => True) c (fun _ mt => Q mt) -> hR Inv (on_tmp c) (fun mt m => Inv m /\ Q mt).
Proof.
  intros Hc m sh Hp mt m' sh' E. unfold on_tmp in E.
  destruct (c (Meta 0 0) sh) as [u m1 sh1 | e m1 | ] eqn:Ec; try discriminate.
  injection E as <- <- <-. split; [ exact Hp | exact (Hc _ _ I _ _ _ Ec) ].
Qed.

Lemma fits_nn (B sz : Z) (m : meta) : fits B sz m -> nn m.
Proof. intros [H _]; exact H. Qed.

Lemma accumulate_fits (chk : bool) (B sz : Z) (A : Type) (term : A -> M unit) (rest : list A) (szt : Z) :
  (forall x, In x rest -> hR (fun _ => True) (term x) (fun _ m => fits B szt m)) ->
  hR (fits B sz) (accumulate chk A term rest) (fun _ m => fits B sz m).
Proof.
  intros H. unfold accumulate. apply hR_fold. intros x Hx.
  eapply hR_bind; [ apply (on_tmp_keeps (fits B sz) (term x) (fits B szt)); apply H; exact Hx | ].
  intros mt m sh [Hm Hmt] y m' sh' E.
  exact (lin_assign_fits chk B sz (Ct mt 0) (fits_nn _ _ _ Hmt) m sh Hm y m' sh' E).
Qed.

Lemma acc_fits_keeps (Pre : meta -> Prop) (B n : Z) : hR Pre (acc_fits B n) (fun _ m => Pre m).
Proof. unfold acc_fits. apply hR_if; [ apply hR_ret | apply hR_fail ]. Qed.

(* ---- add_many ---- *)
Lemma add_many_fits (chk : bool) (B : Z) (d : ct) (ins : list ct) :
  Forall nnct ins -> hR (fun _ => True) (add_many chk B d ins) (fun _ m => fits B (csize d) m).
Proof.
  intros H. unfold add_many. destruct ins as [ | x [ | y tl ] ].
  - apply hR_fail.
  - inversion H; subst. apply unary_into_fits; assumption.
  - inversion H as [ | ? ? Hx H1 ]; subst. inversion H1 as [ | ? ? Hy Htl ]; subst.
    eapply hR_bind; [ apply acc_fits_keeps | ]. intros ?u.
    eapply hR_bind; [ apply (lin_into_fits chk B d x y Hx Hy) | ]. intros ?u.
    apply hR_fold. intros c Hc. apply lin_assign_fits.
    rewrite Forall_forall in Htl. exact (Htl c Hc).
Qed.

(* ---- mul_many ---- *)
Lemma Forall_firstn {A : Type} (P : A -> Prop) (n : nat) (l : list A) : Forall P l -> Forall P (firstn n l).
Proof. revert n; induction l; intros [ | n] H; cbn; try constructor; inversion H; subst; auto. Qed.
Lemma Forall_skipn {A : Type} (P : A -> Prop) (n : nat) (l : list A) : Forall P l -> Forall P (skipn n l).
Proof. revert n; induction l; intros [ | n] H; cbn; auto. inversion H; subst; auto. Qed.

Lemma mul_many_rec_fits (fuel : nat) (B : Z) : forall (d : ct) (ins : list ct),
  Forall nnct ins -> hR (fun _ => True) (mul_many_rec fuel B d ins) (fun _ m => fits B (csize d) m).
Proof.
  induction fuel as [ | f IH ]; intros d ins H; cbn [mul_many_rec].
  - intros m sh _ x m' sh' E. discriminate E.
  - apply hR_if; [ apply hR_fail | ].
    destruct ins as [ | x [ | y [ | z tl ] ] ].
    + apply hR_fail.
    + inversion H; subst. apply unary_into_fits; assumption.
    + inversion H as [ | ? ? Hx H1 ]; subst. inversion H1; subst. apply mul_into_fits; assumption.
    + set (ins := x :: y :: z :: tl) in *.
      set (l := firstn (Nat.div2 (length ins)) ins). set (r := skipn (Nat.div2 (length ins)) ins).
      eapply hR_bind.
      { apply (on_tmp_keeps (fun _ => True)). apply IH. apply Forall_firstn. exact H. }
      intros ml. eapply hR_bind.
      { apply (on_tmp_keeps (fun m => True /\ fits B _ ml)). apply IH. apply Forall_skipn. exact H. }
      intros mr m sh [[_ Hl] Hr] uu m' sh' E.
      refine (mul_into_fits B d _ _ _ _ m sh I uu m' sh' E).
      * exact (fits_nn _ _ _ Hl).
      * exact (fits_nn _ _ _ Hr).
Qed.

Lemma mul_many_fits (B : Z) (d : ct) (ins : list ct) :
  Forall nnct ins -> hR (fun _ => True) (mul_many B d ins) (fun _ m => fits B (csize d) m).
Proof.
  intros H. unfold mul_many. destruct ins; [ apply hR_fail | apply mul_many_rec_fits; exact H ].
Qed.

(* ---- dot products ---- *)
Lemma Forall_combine_nn (xs ys : list ct) :
  Forall nnct xs -> Forall nnct ys -> Forall (fun q => nnct (fst q) /\ nnct (snd q)) (combine xs ys).
Proof.
  intros Hx; revert ys; induction Hx as [ | x tl Hx1 Hx2 IH ]; intros ys Hy; cbn; [ constructor | ].
  destruct ys as [ | y ytl ]; [ constructor | ]. inversion Hy; subst. constructor; [ split; assumption | apply IH; assumption ].
Qed.

Lemma dot_ct_fits (chk : bool) (B : Z) (d : ct) (xs ys : list ct) :
  Forall nnct xs -> Forall nnct ys -> hR (fun _ => True) (dot_ct chk B d xs ys) (fun _ m => fits B (csize d) m).
Proof.
  intros Hx Hy. unfold dot_ct. apply hR_if; [ apply hR_fail | ].
  eapply hR_bind; [ apply acc_fits_keeps | ]. intros ?u.
  pose proof (Forall_combine_nn xs ys Hx Hy) as Hc.
  destruct (combine xs ys) as [ | [x0 y0] [ | q rest ] ] eqn:Ec.
  - apply hR_fail.
  - inversion Hc as [ | ? ? [H1 H2] _ ]; subst. apply mul_into_fits; assumption.
  - inversion Hc as [ | ? ? [H1 H2] Hrest ]; subst.
    apply hR_if.
    + eapply hR_bind; [ apply (mul_into_fits B d x0 y0 H1 H2) | ]. intros ?u.
      apply (accumulate_fits chk B (csize d) _ _ _ (csize d)).
      intros p Hp. rewrite Forall_forall in Hrest. destruct (Hrest p Hp) as [P1 P2].
      apply mul_into_fits; assumption.
    + (* the fused path *)
      destruct d as [dm ds]. cbn [csize].
      intros m sh _ uu m' sh' E0; revert E0.
      cbv beta iota zeta delta [ssub eff maxk bind ret fail panic set_lb set_ld shift csub passert cm csize].
      repeat (match goal with
              | |- context [if ?c then _ else _] => let E := fresh "E" in destruct c eqn:E
              end; cbv beta iota zeta).
      all: intros EQ; try discriminate EQ; injection EQ as <- <- <-.
      all: destruct H1 as [? ?], H2 as [? ?]; unfold fits, nn, eff, ld_of in *; cbn [ld lb fst snd] in *.
      all: repeat split; try lia.
Qed.

Lemma dot_terms_fits (chk : bool) (B : Z) (d : ct) (xs : list ct) (term : ct -> M unit) :
  (forall x, In x xs -> hR (fun _ => True) (term x) (fun _ m => fits B (csize d) m)) ->
  hR (fun _ => True) (dot_terms chk B xs term) (fun _ m => fits B (csize d) m).
Proof.
  intros H. unfold dot_terms. destruct xs as [ | x0 rest ]; [ apply hR_fail | ].
  eapply hR_bind; [ apply acc_fits_keeps | ]. intros ?u.
  eapply hR_bind; [ apply H; left; reflexivity | ]. intros ?u.
  apply (accumulate_fits chk B (csize d) _ _ _ (csize d)). intros x Hx. apply H. right; exact Hx.
Qed.

(* ---- all composites ---- *)
Lemma hR_true {A : Type} (Pre : meta -> Prop) (c : M A) : hR Pre c (fun _ _ => True).
Proof. intros m sh _ x m' sh' _. exact I. Qed.

Lemma good_nnct (B : Z) (c : ct) : good B c -> nnct c.
Proof. intros [[H1 [H2 _]] _]. split; assumption. Qed.

Lemma comp_m_fits (chk : bool) (B : Z) (c : comp) (d : ct) (xs ys : list ct) :
  Forall nnct xs -> Forall nnct ys -> hR (fun _ => True) (comp_m chk B c d xs ys) (fun _ m => fits B (csize d) m).
Proof.
  intros Hx Hy. pose proof (proj1 (Forall_forall nnct xs) Hx) as Hin.
  destruct c as [ | | | p | prec | prec none | prec none ]; cbn [comp_m].
  - apply add_many_fits; exact Hx.
  - apply mul_many_fits; exact Hx.
  - apply dot_ct_fits; assumption.
  - apply dot_terms_fits. intros x Hxin. apply mulptz_into_fits. exact (Hin x Hxin).
  - apply dot_terms_fits. intros x Hxin.
    eapply hR_bind; [ apply hR_true | ]. intros ?u. cbv beta. apply mulptz_into_fits. exact (Hin x Hxin).
  - eapply hR_bind; [ apply hR_true | ]. intros ?u. cbv beta.
    apply dot_terms_fits. intros x Hxin. apply mulcst_into_fits. exact (Hin x Hxin).
  - apply dot_terms_fits. intros x Hxin.
    eapply hR_bind; [ apply hR_true | ]. intros p. cbv beta. apply mulcst_into_fits. exact (Hin x Hxin).
Qed.

Lemma comp_never_exceeds (chk : bool) (B : Z) (c : comp) (d : ct) (xs ys : list ct) (m : meta) (sz : Z) (sh : list Z) :
  1 <= B -> good B d -> Forall (good B) xs -> Forall (good B) ys ->
  comp_step chk B c d xs ys = Done m sz sh -> good B (Ct m sz).
Proof.
  intros HB Hd Hx Hy E. unfold comp_step in E.
  destruct (comp_m chk B c d xs ys (cm d) []) as [u m1 sh1 | e m1 | ] eqn:Ec; try discriminate.
  injection E as <- <- <-.
  assert (Hf : fits B (csize d) m1).
  { refine (comp_m_fits chk B c d xs ys _ _ (cm d) [] I u m1 sh1 Ec).
    - eapply Forall_impl; [ | exact Hx ]. intros a. apply good_nnct.
    - eapply Forall_impl; [ | exact Hy ]. intros a. apply good_nnct. }
  destruct Hf as [[H1 H2] H3]. destruct Hd as [_ [H4 H5]].
  unfold good, inv, maxk; cbn [cm csize]. repeat split; assumption.
Qed.

(* ---- both exits: a composite that fails leaves metadata the destination can hold ---- *)
Definition hB {A : Type} (Inv : meta -> Prop) (c : M A) (Q : A -> Prop) : Prop :=
  forall m sh, Inv m -> match c m sh with R x m' _ => Inv m' /\ Q x | F _ m' => Inv m' | P => True end.

Lemma hB_bind {A C : Type} (Inv : meta -> Prop) (c : M A) (Q : A -> Prop) (f : A -> M C) (Q' : C -> Prop) :
  hB Inv c Q -> (forall x, Q x -> hB Inv (f x) Q') -> hB Inv (bind c f) Q'.
Proof.
  intros Hc Hf m sh Hm. unfold bind. specialize (Hc m sh Hm).
  destruct (c m sh) as [x m1 sh1 | e m1 | ]; [ | exact Hc | exact I ].
  destruct Hc as [H1 H2]. exact (Hf x H2 m1 sh1 H1).
Qed.

Lemma hB_weaken {A : Type} (Inv : meta -> Prop) (c : M A) (Q Q' : A -> Prop) :
  hB Inv c Q -> (forall x, Q x -> Q' x) -> hB Inv c Q'.
Proof.
  intros H HQ m sh Hm. specialize (H m sh Hm). destruct (c m sh); auto. destruct H; split; auto.
Qed.

Lemma hB_if {A : Type} (Inv : meta -> Prop) (b : bool) (c1 c2 : M A) (Q : A -> Prop) :
  hB Inv c1 Q -> hB Inv c2 Q -> hB Inv (if b then c1 else c2) Q.
Proof. destruct b; auto. Qed.

Lemma hB_fail {A : Type} (Inv : meta -> Prop) (e : ekind) (Q : A -> Prop) : hB Inv (fail e) Q.
Proof. intros m sh Hm. exact Hm. Qed.

Lemma hB_ret {A : Type} (Inv : meta -> Prop) (x : A) (Q : A -> Prop) : Q x -> hB Inv (ret x) Q.
Proof. intros HQ m sh Hm. split; assumption. Qed.

Lemma hB_fold {A : Type} (Inv : meta -> Prop) (f : A -> M unit) (l : list A) :
  (forall x, In x l -> hB Inv (f x) (fun _ => True)) -> hB Inv (fold_m f l) (fun _ => True).
Proof.
  induction l as [ | x tl IH ]; intros H; cbn [fold_m].
  - apply hB_ret. exact I.
  - eapply hB_bind; [ apply H; left; reflexivity | ].
    intros ?u ?Hu. apply IH. intros y Hy. apply H. right; exact Hy.
Qed.

Lemma on_tmp_B (Inv : meta -> Prop) (c : M unit) (Q : meta -> Prop) :
  hR (fun _ => True) c (fun _ mt => Q mt) -> hB Inv (on_tmp c) Q.
Proof.
  intros Hc m sh Hm. unfold on_tmp.
  destruct (c (Meta 0 0) sh) as [u m1 sh1 | e m1 | ] eqn:Ec; [ | exact Hm | exact I ].
  split; [ exact Hm | exact (Hc _ _ I _ _ _ Ec) ].
Qed.

Ltac primB :=
  let m := fresh "m" in let sh := fresh "sh" in let Hm := fresh "Hm" in
  intros m sh Hm;
  cbv beta iota zeta delta [lin_into lin_assign mul_into mulptz_into mulcst_into unary_into apply_params apply_params_asserting
    mul_ct_params mul_pt_params offset_unary offset_binary ssub eff maxk compact acc_fits to_znx_check cst_to_znx mulcstrnx_prec
    bind ret fail panic get set_meta set_lb set_ld shift csub usub passert fst snd];
  repeat (match goal with
          | |- context [if ?c then _ else _] => let E := fresh "E" in destruct c eqn:E
          end; cbv beta iota zeta);
  try exact I; try exact Hm; try (split; [ | exact I ]);
  destruct m as [ml mb]; unfold fits, nn, eff in *; cbn [cm csize ld lb pm pmaxk pb2k] in *; try lia.

Lemma lin_into_B (chk : bool) (B : Z) (d a b : ct) :
  nnct a -> nnct b -> hB (fits B (csize d)) (lin_into chk B d a b) (fun _ => True).
Proof.
  intros [Ha1 Ha2] [Hb1 Hb2]. destruct d as [dm ds], a as [[al ab] asz], b as [[bl bb] bs].
  cbn [cm csize ld lb] in *. primB.
Qed.

Lemma lin_assign_B (chk : bool) (B sz : Z) (a : ct) :
  nnct a -> hB (fits B sz) (lin_assign chk a) (fun _ => True).
Proof. intros [Ha1 Ha2]. destruct a as [[al ab] asz]. cbn [cm ld lb] in *. primB. Qed.

Lemma mul_into_B (B : Z) (d a b : ct) :
  nnct a -> nnct b -> hB (fits B (csize d)) (mul_into B d a b) (fun _ => True).
Proof.
  intros [Ha1 Ha2] [Hb1 Hb2]. destruct d as [dm ds], a as [[al ab] asz], b as [[bl bb] bs].
  cbn [cm csize ld lb] in *. primB.
Qed.

Lemma mulptz_into_B (B : Z) (d a : ct) (p : ptz) :
  nnct a -> hB (fits B (csize d)) (mulptz_into B d a p) (fun _ => True).
Proof.
  intros [Ha1 Ha2]. destruct d as [dm ds], a as [[al ab] asz], p as [[pl pb] pk pbk].
  cbn [cm csize ld lb pm pmaxk pb2k] in *. primB.
Qed.

Lemma mulcst_into_B (B : Z) (d a : ct) (prec : meta) :
  nnct a -> hB (fits B (csize d)) (mulcst_into B d a prec) (fun _ => True).
Proof.
  intros [Ha1 Ha2]. destruct d as [dm ds], a as [[al ab] asz], prec as [pl pb].
  cbn [cm csize ld lb] in *. primB.
Qed.

Lemma unary_into_B (B : Z) (d a : ct) :
  nnct a -> hB (fits B (csize d)) (unary_into B d a) (fun _ => True).
Proof.
  intros [Ha1 Ha2]. destruct d as [dm ds], a as [[al ab] asz]. cbn [cm csize ld lb] in *. primB.
Qed.

Lemma acc_fits_B (Inv : meta -> Prop) (B n : Z) : hB Inv (acc_fits B n) (fun _ => True).
Proof. unfold acc_fits. apply hB_if; [ apply hB_ret; exact I | apply hB_fail ]. Qed.
Lemma to_znx_check_B (Inv : meta -> Prop) (l : Z) : hB Inv (to_znx_check l) (fun _ => True).
Proof. unfold to_znx_check. apply hB_if; [ apply hB_ret; exact I | apply hB_fail ]. Qed.
Lemma passert_B (Inv : meta -> Prop) (c : bool) : hB Inv (passert c) (fun _ => True).
Proof. unfold passert. destruct c; [ apply hB_ret; exact I | intros m sh Hm; exact I ]. Qed.
Lemma cst_to_znx_B (Inv : meta -> Prop) (B : Z) (prec : meta) (none : bool) : hB Inv (cst_to_znx B prec none) (fun _ => True).
Proof.
  unfold cst_to_znx. eapply hB_bind; [ apply to_znx_check_B | ]. intros ?u ?Hu. apply passert_B.
Qed.

Lemma accumulate_B (chk : bool) (B sz : Z) (A : Type) (term : A -> M unit) (rest : list A) (szt : Z) :
  (forall x, In x rest -> hR (fun _ => True) (term x) (fun _ m => fits B szt m)) ->
  hB (fits B sz) (accumulate chk A term rest) (fun _ => True).
Proof.
  intros H. unfold accumulate. apply hB_fold. intros x Hx.
  eapply hB_bind; [ apply (on_tmp_B (fits B sz) (term x) (fits B szt)); apply H; exact Hx | ].
  intros mt Hmt. apply lin_assign_B. exact (fits_nn _ _ _ Hmt).
Qed.

Lemma add_many_B (chk : bool) (B : Z) (d : ct) (ins : list ct) :
  Forall nnct ins -> hB (fits B (csize d)) (add_many chk B d ins) (fun _ => True).
Proof.
  intros H. unfold add_many. destruct ins as [ | x [ | y tl ] ].
  - apply hB_fail.
  - inversion H; subst. apply unary_into_B; assumption.
  - inversion H as [ | ? ? Hx H1 ]; subst. inversion H1 as [ | ? ? Hy Htl ]; subst.
    eapply hB_bind; [ apply acc_fits_B | ]. intros ?u ?Hu.
    eapply hB_bind; [ apply (lin_into_B chk B d x y Hx Hy) | ]. intros ?u ?Hu.
    apply hB_fold. intros c Hc. apply lin_assign_B. rewrite Forall_forall in Htl. exact (Htl c Hc).
Qed.

Lemma mul_many_rec_B (fuel : nat) (B : Z) (d : ct) (ins : list ct) :
  Forall nnct ins -> hB (fits B (csize d)) (mul_many_rec fuel B d ins) (fun _ => True).
Proof.
  intros H. destruct fuel as [ | f ]; cbn [mul_many_rec].
  - intros m sh Hm. exact I.
  - apply hB_if; [ apply hB_fail | ].
    destruct ins as [ | x [ | y [ | z tl ] ] ].
    + apply hB_fail.
    + inversion H; subst. apply unary_into_B; assumption.
    + inversion H as [ | ? ? Hx H1 ]; subst. inversion H1; subst. apply mul_into_B; assumption.
    + set (ins := x :: y :: z :: tl) in *.
      eapply hB_bind.
      { apply on_tmp_B. apply mul_many_rec_fits. apply Forall_firstn. exact H. }
      intros ml Hl. eapply hB_bind.
      { apply on_tmp_B. apply mul_many_rec_fits. apply Forall_skipn. exact H. }
      intros mr Hr. apply mul_into_B; [ exact (fits_nn _ _ _ Hl) | exact (fits_nn _ _ _ Hr) ].
Qed.

Lemma dot_terms_B (chk : bool) (B : Z) (d : ct) (xs : list ct) (term : ct -> M unit) :
  (forall x, In x xs -> hR (fun _ => True) (term x) (fun _ m => fits B (csize d) m)) ->
  (forall x, In x xs -> hB (fits B (csize d)) (term x) (fun _ => True)) ->
  hB (fits B (csize d)) (dot_terms chk B xs term) (fun _ => True).
Proof.
  intros HR HBt. unfold dot_terms. destruct xs as [ | x0 rest ]; [ apply hB_fail | ].
  eapply hB_bind; [ apply acc_fits_B | ]. intros ?u ?Hu.
  eapply hB_bind; [ apply HBt; left; reflexivity | ]. intros ?u ?Hu.
  apply (accumulate_B chk B (csize d) _ _ _ (csize d)). intros x Hx. apply HR. right; exact Hx.
Qed.

Lemma dot_ct_B (chk : bool) (B : Z) (d : ct) (xs ys : list ct) :
  Forall nnct xs -> Forall nnct ys -> hB (fits B (csize d)) (dot_ct chk B d xs ys) (fun _ => True).
Proof.
  intros Hx Hy. unfold dot_ct. apply hB_if; [ apply hB_fail | ].
  eapply hB_bind; [ apply acc_fits_B | ]. intros ?u ?Hu.
  pose proof (Forall_combine_nn xs ys Hx Hy) as Hc.
  destruct (combine xs ys) as [ | [x0 y0] [ | q rest ] ] eqn:Ec.
  - apply hB_fail.
  - inversion Hc as [ | ? ? [H1 H2] _ ]; subst. apply mul_into_B; assumption.
  - inversion Hc as [ | ? ? [H1 H2] Hrest ]; subst.
    apply hB_if.
    + eapply hB_bind; [ apply (mul_into_B B d x0 y0 H1 H2) | ]. intros ?u ?Hu.
      apply (accumulate_B chk B (csize d) _ _ _ (csize d)).
      intros p Hp. rewrite Forall_forall in Hrest. destruct (Hrest p Hp) as [P1 P2]. apply mul_into_fits; assumption.
    + destruct d as [dm ds]. cbn [csize]. destruct H1 as [? ?], H2 as [? ?]. unfold ld_of in *. cbn [fst snd] in *.
      intros m sh Hm. destruct x0 as [[xl xb] xsz], y0 as [[yl yb] ysz]. cbn [cm csize ld lb] in *.
      cbv beta iota zeta delta [ssub eff maxk bind ret fail panic set_lb set_ld shift csub cm csize].
      repeat (match goal with
              | |- context [if ?c then _ else _] => let E := fresh "E" in destruct c eqn:E
              end; cbv beta iota zeta).
      all: try exact Hm; try exact I.
      all: split; [ | exact I ]; unfold fits, nn, eff in *; cbn [ld lb] in *; lia.
Qed.

Lemma comp_m_B (chk : bool) (B : Z) (c : comp) (d : ct) (xs ys : list ct) :
  Forall nnct xs -> Forall nnct ys -> hB (fits B (csize d)) (comp_m chk B c d xs ys) (fun _ => True).
Proof.
  intros Hx Hy. pose proof (proj1 (Forall_forall nnct xs) Hx) as Hin.
  destruct c as [ | | | p | prec | prec none | prec none ]; cbn [comp_m].
  - apply add_many_B; exact Hx.
  - unfold mul_many. destruct xs; [ apply hB_fail | apply mul_many_rec_B; exact Hx ].
  - apply dot_ct_B; assumption.
  - apply dot_terms_B; intros x Hxin; [ apply mulptz_into_fits | apply mulptz_into_B ]; exact (Hin x Hxin).
  - apply dot_terms_B; intros x Hxin.
    + eapply hR_bind; [ apply hR_true | ]. intros ?u. cbv beta. apply mulptz_into_fits. exact (Hin x Hxin).
    + eapply hB_bind; [ apply to_znx_check_B | ]. intros ?u ?Hu. apply mulptz_into_B. exact (Hin x Hxin).
  - eapply hB_bind with (Q := fun _ => True); [ destruct xs; [ apply hB_ret; exact I | apply cst_to_znx_B ] | ]. intros ?u ?Hu.
    apply dot_terms_B; intros x Hxin; [ apply mulcst_into_fits | apply mulcst_into_B ]; exact (Hin x Hxin).
  - apply dot_terms_B; intros x Hxin.
    + eapply hR_bind; [ apply hR_true | ]. intros p. cbv beta. apply mulcst_into_fits. exact (Hin x Hxin).
    + eapply hB_bind with (Q := fun _ => True).
      { unfold mulcstrnx_prec. destruct none; [ apply hB_ret; exact I | ].
        eapply hB_bind; [ apply cst_to_znx_B | ]. intros ?u ?Hu. apply hB_ret. exact I. }
      intros p ?Hp. apply mulcst_into_B. exact (Hin x Hxin).
Qed.

Lemma comp_fail_keeps_good (chk : bool) (B : Z) (c : comp) (d : ct) (xs ys : list ct) (e : ekind) (m : meta) :
  1 <= B -> good B d -> Forall (good B) xs -> Forall (good B) ys ->
  comp_step chk B c d xs ys = Fail e m -> good B (Ct m (csize d)).
Proof.
  intros HB Hd Hx Hy E. unfold comp_step in E.
  assert (Hd' : fits B (csize d) (cm d)).
  { destruct Hd as [[H1 [H2 H3]] _]. repeat split; assumption. }
  assert (Hxs : Forall nnct xs) by (eapply Forall_impl; [ | exact Hx ]; intros a; apply good_nnct).
  assert (Hys : Forall nnct ys) by (eapply Forall_impl; [ | exact Hy ]; intros a; apply good_nnct).
  pose proof (comp_m_B chk B c d xs ys Hxs Hys (cm d) [] Hd') as H.
  destruct (comp_m chk B c d xs ys (cm d) []) as [u m1 sh1 | e1 m1 | ]; try discriminate.
  injection E as <- <-. destruct H as [[H1 H2] H3]. destruct Hd as [_ [H4 H5]].
  unfold good, inv, maxk; cbn [cm csize]. repeat split; assumption.
Qed.

Definition done_with (o : outcome) (m : meta) (sz : Z) : Prop :=
  match o with Done m' sz' _ => m' = m /\ sz' = sz | _ => False end.

Lemma example_composites :
  let B := 19 in let x := Ct (Meta 30 122) 8 in let d := Ct (Meta 0 0) 8 in
  done_with (comp_step true B CMulMany d [x; x; x] []) (Meta 30 62) 8 /\
  done_with (comp_step true B CDotCt d [x; x] [x; x]) (Meta 30 92) 8 /\
  done_with (comp_step true B CAddMany d [x; x; x] []) (Meta 30 122) 8.
Proof. cbv zeta. repeat split; vm_compute; reflexivity. Qed.
