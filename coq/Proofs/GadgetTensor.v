(* Producer order = accessor order for the secret tensor, for every rank: the packed index is symmetric, lands inside the
   rank (rank+1)/2 stored products, and is injective on the pairs i <= j < rank (hence a bijection onto the stored positions);
   the producer's double loop visits the positions 0, 1, 2, ... in order (checked for rank <= 8).
   The column-major formula is a different packing from rank 3 on: witness (0,2) <-> (1,1). *)
From PV Require Import Base.MachineInt Model.GadgetTensor.
From Coq Require Import Arith.
Local Open Scope nat_scope.

Lemma tri_even i : (2 * (i * (i + 1) / 2) = i * (i + 1))%nat.
Proof.
  induction i as [|i IH]; [reflexivity|].
  replace (S i * (S i + 1))%nat with (i * (i + 1) + (i + 1) * 2)%nat by lia.
  rewrite Nat.div_add by lia. lia.
Qed.

Lemma tri_le i rank : (i < rank)%nat -> (i * (i + 1) / 2 <= i * rank)%nat.
Proof. intros H. pose proof (tri_even i). nia. Qed.

Theorem tensor_at_is_prod rank i j : (i <= j)%nat -> tensor_at_idx rank i j = tensor_prod_idx rank i j.
Proof. intros H. unfold tensor_at_idx, tensor_prod_idx. destruct (Nat.ltb_spec j i); [lia|reflexivity]. Qed.

Theorem tensor_at_sym rank i j : tensor_at_idx rank i j = tensor_at_idx rank j i.
Proof.
  unfold tensor_at_idx. destruct (Nat.ltb_spec j i), (Nat.ltb_spec i j); try lia; try reflexivity.
  assert (i = j) by lia. subst. reflexivity.
Qed.

Theorem tensor_prod_idx_lt rank i j : (i <= j)%nat -> (j < rank)%nat -> (tensor_prod_idx rank i j < tensor_pairs rank)%nat.
Proof.
  intros Hij Hj. unfold tensor_prod_idx, tensor_pairs.
  pose proof (tri_even i). pose proof (tri_even rank). pose proof (tri_le i rank ltac:(lia)). nia.
Qed.

Theorem tensor_prod_idx_inj rank i j i' j' :
  (i <= j)%nat -> (j < rank)%nat -> (i' <= j')%nat -> (j' < rank)%nat ->
  tensor_prod_idx rank i j = tensor_prod_idx rank i' j' -> i = i' /\ j = j'.
Proof.
  intros Hij Hj Hij' Hj' E. unfold tensor_prod_idx in E.
  pose proof (tri_even i). pose proof (tri_even i').
  pose proof (tri_le i rank ltac:(lia)). pose proof (tri_le i' rank ltac:(lia)).
  assert (i = i').
  { destruct (Nat.lt_trichotomy i i') as [L|[L|L]]; [exfalso|exact L|exfalso]; nia. }
  subst i'. split; [reflexivity|lia].
Qed.

Lemma tensor_loop_in_order_small :
  forallb (fun rank => if list_eq_dec Nat.eq_dec
                          (map (fun p => tensor_prod_idx rank (fst p) (snd p)) (tensor_loop rank)) (seq 0 (tensor_pairs rank))
                       then true else false) (seq 0 9) = true.
Proof. vm_compute. reflexivity. Qed.

Lemma tensor_colmajor_agrees_small rank i j : (rank <= 2)%nat -> (i < rank)%nat -> (j < rank)%nat ->
  tensor_at_idx_colmajor i j = tensor_at_idx rank i j.
Proof.
  intros Hr Hi Hj. destruct rank as [|[|[|rank]]]; try lia;
  destruct i as [|[|i]]; destruct j as [|[|j]]; try lia; reflexivity.
Qed.

Lemma tensor_colmajor_differs_rank3 :
  tensor_at_idx_colmajor 0 2 = tensor_prod_idx 3 1 1 /\ tensor_at_idx_colmajor 1 1 = tensor_prod_idx 3 0 2 /\
  ~ (tensor_at_idx_colmajor 0 2 = tensor_at_idx 3 0 2).
Proof. vm_compute. repeat split; discriminate. Qed.
