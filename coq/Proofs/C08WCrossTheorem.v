(* C08, cross-radix normalisation at any word width with a non-negative offset: the value theorem.
   Port of Proofs/C08CrossMain.v / C08CrossTheorem.v (which fix the width 64).  The routine is stated with the
   cap of the gap rounding as a parameter: Limbs.normalize_cross is capbits = 128, LimbsBig.normalize_cross_big 192. *)
From PV Require Import Base.MachineInt Model.Znx Model.Limbs Model.LimbsBig Model.C08Oracle
  Proofs.ZnxDigit Proofs.C08Steps Proofs.C08Chain Proofs.C08Loops Proofs.C08Value Proofs.C08Normalize
  Proofs.C08Shift Proofs.C08ShiftValue Proofs.C08CrossInner Proofs.C08CrossGeom Proofs.C08CrossOuter
  Proofs.C08CrossLoop Proofs.C08CrossMain
  Proofs.C08WChain Proofs.C08WLoops Proofs.C08WNormalize Proofs.C08WCrossInner Proofs.C08WCrossGeom Proofs.C08WCrossOuter
  Proofs.C08WCrossLoop.
Open Scope Z_scope.

(* vec_znx_normalize_cross_base2k / vec_znx_normalize_cross_big_base2k with the cap on the gap bits as a parameter *)
Definition normalize_cross_c (w : Z) (capbits : Z) (rb ab : Z) (off : Z) (a r0 : list Z) : option (list Z) :=
  let rsz := length r0 in let asz := length a in
  let a_tot := zn asz * ab in let r_tot := zn rsz * rb in
  let '(lsh, lo) := split_offset ab off in
  let res_end_bit := clampZ (- lo * ab) 0 r_tot in
  let res_start_bit := clampZ (a_tot - lo * ab) 0 r_tot in
  let a_end_bit := clampZ (lo * ab) 0 a_tot in
  let a_start_bit := clampZ (r_tot + lo * ab) 0 a_tot in
  let res_end := Z.to_nat (res_end_bit / rb) in
  let res_start := Z.to_nat (div_ceil res_start_bit rb) in
  let a_end := Z.to_nat (a_end_bit / ab) in
  let a_start := Z.to_nat (div_ceil a_start_bit ab) in
  let rz := zeros rsz in
  if Nat.eqb res_start 0 then Some rz else
  let a_out := (asz - a_start)%nat in
  let ac0 := carry_phase w ab lsh a asz a_out in
  let mid := (a_start - a_end)%nat in
  let s0 := {| c_res := rz; c_anorm := 0; c_acarry := ac0; c_rcarry := 0; c_atake := 0; c_racc := rb; c_rlimb := (res_start - 1)%nat |} in
  let fuel := (Z.to_nat ab + Z.to_nat rb + 4)%nat in
  let '(s, brk, bad) :=
    fold_left (fun (acc : cstate * bool * bool) j =>
      let '(s, brk, bad) := acc in
      if brk || bad then acc else
      let a_limb := (a_start - j - 1)%nat in
      let '(an, ac) := middle_step w true ab lsh 0 (nthZ a a_limb) (c_acarry s) in
      let s1 := {| c_res := c_res s; c_anorm := an; c_acarry := ac; c_rcarry := c_rcarry s; c_atake := ab;
                   c_racc := c_racc s; c_rlimb := c_rlimb s |} in
      let s2 :=
        if Nat.eqb j 0 then
          if negb ((a_tot - a_start_bit) mod ab =? 0) then
            let take := (a_tot - a_start_bit) mod ab in
            {| c_res := c_res s1; c_anorm := mul_power_of_two w (- take) (c_anorm s1); c_acarry := c_acarry s1; c_rcarry := c_rcarry s1;
               c_atake := c_atake s1 - take; c_racc := c_racc s1; c_rlimb := c_rlimb s1 |}
          else if negb ((r_tot - res_start_bit) mod rb =? 0) then
            {| c_res := c_res s1; c_anorm := c_anorm s1; c_acarry := c_acarry s1; c_rcarry := c_rcarry s1;
               c_atake := c_atake s1; c_racc := c_racc s1 - (r_tot - res_start_bit) mod rb; c_rlimb := c_rlimb s1 |}
          else s1
        else s1 in
      match cross_inner w fuel rb ab a_limb s2 with
      | (s3, InnerDone) => (s3, false, false)
      | (s3, OuterBreak) => (s3, true, false)
      | (s3, Fuel) => (s3, false, true)
      end) (seq 0 mid) (s0, false, false) in
  if bad then None else
  if Nat.eqb res_end 0 then Some (c_res s) else
  let cu := if Nat.eqb a_start a_end then c_acarry s else c_rcarry s in
  let cu' := if Nat.eqb a_start a_end && (lo <? 0)
             then gapbits_phase w 8 (Z.min (Z.max (- lo * ab - r_tot) 0) capbits) cu else cu in
  Some (fst (top_phase w false rb 0 res_end (c_res s, cu'))).

Lemma normalize_cross_is_c128 (w rb ab off : Z) (a r0 : list Z) :
  normalize_cross w rb ab off a r0 = normalize_cross_c w 128 rb ab off a r0.
Proof. reflexivity. Qed.

Lemma normalize_cross_big_is_c192 (w rb ab off : Z) (a r0 : list Z) :
  normalize_cross_big w rb ab off a r0 = normalize_cross_c w 192 rb ab off a r0.
Proof. reflexivity. Qed.

Section Main.
Variable wd : Z.
Variables rb ab : Z.
Hypothesis Hrb : 1 <= rb <= wd - 2.
Hypothesis Hab : 1 <= ab <= wd - 2.

Lemma val_zerosW (P : Z) (n : nat) : val_scaled P rb (zeros n) = 0.
Proof.
  rewrite val_scaled_sumn. apply sumn_zero. intros t Ht. rewrite nth_zeros. apply Z.mul_0_l.
Qed.

(* nothing of a reaches res: the output is zero *)
Lemma zero_valueW (P lo lsh : Z) (a : list Z) (rsz : nat) : 0 <= lsh < ab -> 0 <= lo ->
  zn (length a) - lo <= 0 \/ rsz = 0%nat ->
  zn rsz * rb + zn (length a) * ab + (lo * ab + lsh) <= P ->
  let D := tor_abs P (val_scaled P rb (zeros rsz) - val_scaled (P + (lo * ab + lsh)) ab a) in
  D <= 2 ^ (P - zn rsz * rb) /\ (zn (length a) * ab - (lo * ab + lsh) <= zn rsz * rb -> D = 0).
Proof.
  intros Hl Hlo Hcase HP. cbv zeta. rewrite val_zerosW.
  set (A := zn (length a)) in *. set (R := zn rsz) in *.
  assert (HA : 0 <= A) by (unfold A, zn; lia). assert (HR : 0 <= R) by (unfold R, zn; lia).
  assert (HRrb : 0 <= R * rb) by (apply Z.mul_nonneg_nonneg; lia).
  assert (HAab : 0 <= A * ab) by (apply Z.mul_nonneg_nonneg; lia).
  assert (Hloab : 0 <= lo * ab) by (apply Z.mul_nonneg_nonneg; lia).
  assert (HP0 : 0 <= P) by lia.
  destruct (Z_le_gt_dec (A - lo) 0) as [HT|HT].
  - (* a * 2^off is an integer *)
    assert (Hneg : 0 <= (lo - A) * ab) by (apply Z.mul_nonneg_nonneg; lia).
    rewrite (val_scaled_vin ab P lo lsh a ltac:(lia) ltac:(lia)) by (fold A; lia). fold A.
    replace (P - (A - lo) * ab) with (P + (lo - A) * ab) by ring.
    rewrite pow2_add by lia.
    replace (0 - 2 ^ P * 2 ^ ((lo - A) * ab) * ival ab (vin a lsh) (length a))
      with (0 + 2 ^ P * (- (2 ^ ((lo - A) * ab) * ival ab (vin a lsh) (length a)))) by ring.
    rewrite tor_abs_add_mul, tor_abs_0 by auto.
    split; [|reflexivity]. pose proof (pow2_pos (P - R * rb) ltac:(lia)). lia.
  - destruct Hcase as [Hc|Hc]; [lia|].
    assert (ER0 : R = 0) by (unfold R; rewrite Hc; reflexivity).
    rewrite ER0, Z.mul_0_l, Z.sub_0_r. split; [apply tor_abs_le_unit; auto|].
    intros Hx. exfalso.
    assert (1 * ab <= (A - lo) * ab) by (apply Z.mul_le_mono_nonneg_r; lia). lia.
Qed.

End Main.

Section Thm.
Variable wd : Z.
Variable capbits : Z.
Variables rb ab : Z.
Hypothesis Hrb : 1 <= rb <= wd - 2.
Hypothesis Hab : 1 <= ab <= wd - 2.

Theorem normalize_cross_c_value_pos (off : Z) (a r0 : list Z) : 0 <= off -> Forall (fun x => Z.abs x <= 2 ^ (wd - 2)) a ->
  exists out, normalize_cross_c wd capbits rb ab off a r0 = Some out /\ length out = length r0 /\
    forall P, zn (length r0) * rb + zn (length a) * ab + off <= P ->
      let D := tor_abs P (val_scaled P rb out - val_scaled (P + off) ab a) in
      D <= 2 ^ (P - zn (length r0) * rb) /\ (zn (length a) * ab - off <= zn (length r0) * rb -> D = 0).
Proof.
  intros Hoff Ha. apply hrlw_of_Forall in Ha.
  unfold normalize_cross_c.
  destruct (split_offset ab off) as [lsh lo] eqn:Esp.
  rewrite (split_offset_spec ab off ltac:(lia)) in Esp.
  assert (Hl : 0 <= lsh < ab) by (injection Esp as <- _; apply Z.mod_pos_bound; lia).
  assert (Hlo : 0 <= lo) by (injection Esp as _ <-; apply Z.div_pos; lia).
  assert (Eoff : lo * ab + lsh = off).
  { injection Esp as <- <-. pose proof (Z.div_mod off ab ltac:(lia)). lia. }
  clear Esp.
  set (rsz := length r0). set (asz := length a).
  set (res_start := Z.to_nat (div_ceil (clampZ (zn asz * ab - lo * ab) 0 (zn rsz * rb)) rb)).
  set (a_start := Z.to_nat (div_ceil (clampZ (zn rsz * rb + lo * ab) 0 (zn asz * ab)) ab)).
  set (take := (zn asz * ab - clampZ (zn rsz * rb + lo * ab) 0 (zn asz * ab)) mod ab).
  set (m := (zn rsz * rb - clampZ (zn asz * ab - lo * ab) 0 (zn rsz * rb)) mod rb).
  set (a_end := Z.to_nat (clampZ (lo * ab) 0 (zn asz * ab) / ab)).
  assert (Hloab : 0 <= lo * ab) by (apply Z.mul_nonneg_nonneg; lia).
  assert (HRrb : 0 <= zn rsz * rb) by (apply Z.mul_nonneg_nonneg; unfold zn; lia).
  assert (Eend : Z.to_nat (clampZ (- lo * ab) 0 (zn rsz * rb) / rb) = 0%nat).
  { unfold clampZ. replace (Z.max 0 (Z.min (- lo * ab) (zn rsz * rb))) with 0 by (clear - Hloab HRrb; lia). reflexivity. }
  rewrite Eend. clear Eend.
  destruct (Nat.eqb_spec res_start 0) as [Ers0|Ers0].
  - (* nothing of a reaches res *)
    exists (zeros rsz). split; [reflexivity|]. split; [apply zeros_length|].
    intros P HP. rewrite <- Eoff in HP |- *.
    apply (zero_valueW wd rb ab Hrb Hab P lo lsh a rsz Hl Hlo); [|fold asz; lia].
    apply (res_start_zero rb ab lo asz rsz); [lia|lia|lia|exact Ers0].
  - pose proof (cross_geom rb ab lo asz rsz ltac:(lia) ltac:(lia) Hlo) as G. cbv zeta in G.
    fold res_start a_start take m a_end in G.
    destruct (G Ers0) as (z & g & Hz & Hg & Hzg & HloA & Hgeo & Hast & Eaend & Hmid & Eg & Htake & Hm & Hrs & Ez & Htk & Hzp).
    clear G. clearbody res_start a_start take m a_end.
    cbn [c_res c_anorm c_acarry c_rcarry c_atake c_racc c_rlimb].
    assert (Hab1 : 1 <= ab) by lia.
    set (a_out := (asz - a_start)%nat) in *.
    rewrite (carry_phase_carW wd ab Hab lsh a asz a_out Hl Ha).
    pose proof (car_lowW ab lsh a a_out ltac:(unfold a_out, asz; lia)) as CL. fold asz in CL. rewrite CL. clear CL.
    set (ac0 := car ab (vin a lsh) 0 a_out).
    assert (Hac0 : Z.abs ac0 <= 2 ^ (wd - 2)) by (apply (car_vin_hrW wd ab Hab); auto).
    pose proof (chain_sum ab Hab1 (vin a lsh) 0 a_out) as HC. rewrite Z.add_0_r in HC. fold ac0 in HC.
    change (sumn a_out (fun t => vin a lsh t * 2 ^ (zn t * ab))) with (Lval ab a lsh a_out) in HC.
    pose proof (digits_small ab Hab1 (dig ab (vin a lsh) 0) a_out ltac:(intros; apply dig_range; auto)) as HD.
    set (Dlow := sumn a_out (fun t => dig ab (vin a lsh) 0 t * 2 ^ (zn t * ab))) in *.
    assert (H0 : a_out = 0%nat -> ac0 = 0 /\ Dlow = 0).
    { intros E. unfold ac0, Dlow. rewrite E. split; reflexivity. }
    clearbody ac0 Dlow.
    set (fuel := (Z.to_nat ab + Z.to_nat rb + 4)%nat).
    assert (Hfuel : ab <= Z.of_nat fuel) by (unfold fuel; lia). clearbody fuel.
    set (s0 := {| c_res := zeros rsz; c_anorm := 0; c_acarry := ac0; c_rcarry := 0; c_atake := 0;
                  c_racc := rb; c_rlimb := (res_start - 1)%nat |}).
    assert (Hlo' : 0 <= lo < zn (length a)) by (fold asz; lia).
    assert (Hgeo' : (zn (length a) - lo) * ab = zn rsz * rb + g - z) by (fold asz; exact Hgeo).
    match goal with |- context [fold_left ?f (seq 0 ?n) ?init] =>
      pose proof (fold_left_seq_ind f (fun j (acc : cstate * bool * bool) =>
        snd acc = false /\
        (snd (fst acc) = true -> C08CrossOuter.Final rb ab a lsh rsz z g (c_res (fst (fst acc)))) /\
        (snd (fst acc) = false ->
           (j = 0%nat /\ fst (fst acc) = s0) \/
           ((1 <= j)%nat /\ OuterW wd rb ab a lsh rsz z g (a_out + j) (fst (fst acc))))) n init) as HI
    end.
    destruct HI as (I1 & I2 & I3).
    + cbn [fst snd]. split; [reflexivity|]. split; [discriminate|]. intros _. left. split; reflexivity.
    + intros j [[s brk] bad] Hj (Ibad & Ibrk & Inb). cbn [fst snd] in Ibad, Ibrk, Inb. subst bad.
      destruct brk; cbn [orb].
      * cbn [fst snd]. split; [reflexivity|]. split; [intros _; apply Ibrk; reflexivity|discriminate].
      * specialize (Inb eq_refl). clear Ibrk.
        replace (a_start - j - 1)%nat with (length a - 1 - (a_out + j))%nat by (clear - Hj Hast; unfold a_out, asz in *; lia).
        set (t := (a_out + j)%nat).
        assert (Ht : (t < length a)%nat) by (clear - Hj Hast; unfold t, a_out, asz in *; lia).
        assert (Htl : zn t + 1 <= zn (length a) - lo) by (clear - Hj Hast Eaend Hlo; unfold t, a_out, asz, zn in *; lia).
        (* common ending: from the entry invariant of the actual inner-loop state *)
        assert (Hfin : forall st,
          EntryW wd rb ab a lsh rsz z g t st ->
          let r := cross_inner wd fuel rb ab (length a - 1 - t) st in
          let acc' := let (s3, c) := r in
                      match c with InnerDone => (s3, false, false) | OuterBreak => (s3, true, false)
                                 | Fuel => (s3, false, true) end in
          snd acc' = false /\
          (snd (fst acc') = true -> C08CrossOuter.Final rb ab a lsh rsz z g (c_res (fst (fst acc')))) /\
          (snd (fst acc') = false ->
             (S j = 0%nat /\ fst (fst acc') = s0) \/
             ((1 <= S j)%nat /\ OuterW wd rb ab a lsh rsz z g (a_out + S j) (fst (fst acc'))))).
        { intros st HE. cbv zeta.
          destruct (entry_stepW wd rb ab Hrb Hab a lsh rsz z g lo Hz Hg Hzg Hlo' Hgeo' t st fuel HE Ht Htl Hfuel)
            as (C1 & C2 & C3). cbv zeta in C1, C2, C3.
          destruct (cross_inner wd fuel rb ab (length a - 1 - t) st) as [s3 [| |]]; cbn [fst snd] in *.
          - split; [reflexivity|]. split; [discriminate|]. intros _. right. split; [lia|].
            replace (a_out + S j)%nat with (S t) by (unfold t; lia). apply C2. reflexivity.
          - split; [reflexivity|]. split; [intros _; apply C3; reflexivity|discriminate].
          - exfalso. apply C1. reflexivity. }
        destruct Inb as [[Ej Es]|[Hj1 HO]].
        -- (* first iteration *)
           subst j s.
           assert (Et : t = a_out) by (unfold t; lia). clearbody t. subst t.
           cbn [Nat.eqb]. unfold s0. cbn [c_res c_anorm c_acarry c_rcarry c_atake c_racc c_rlimb].
           destruct (Z.eqb_spec take 0) as [Et0|Et0]; cbn [negb].
           ++ assert (Eg0 : g = zn a_out * ab) by (rewrite Eg, Et0; ring).
              destruct (Z.eqb_spec m 0) as [Em0|Em0]; cbn [negb].
              ** pose proof (first_outerW wd rb ab Hab a lsh Hl rsz z g Hz Hg a_out res_start 0 rb ac0 Dlow 0 0
                   Hrs ltac:(lia) ltac:(lia) ltac:(rewrite <- Ez, Em0; ring) Eg0 HC HD Hac0
                   ltac:(intros E; apply H0; exact E)) as HO0.
                 pose proof (next_entryW wd rb ab Hrb Hab a Ha lsh Hl rsz z g Hz Hg a_out _ HO0 Ht) as HE.
                 cbv zeta in HE. cbn [c_res c_anorm c_acarry c_rcarry c_atake c_racc c_rlimb] in HE.
                 destruct (middle_step wd true ab lsh 0 (nthZ a (length a - 1 - a_out)) ac0) as [an ac].
                 cbn [fst snd] in HE. apply (Hfin _ HE).
              ** pose proof (first_outerW wd rb ab Hab a lsh Hl rsz z g Hz Hg a_out res_start m (rb - m) ac0 Dlow 0 0
                   Hrs Hm eq_refl Ez Eg0 HC HD Hac0 ltac:(intros E; apply H0; exact E)) as HO0.
                 pose proof (next_entryW wd rb ab Hrb Hab a Ha lsh Hl rsz z g Hz Hg a_out _ HO0 Ht) as HE.
                 cbv zeta in HE. cbn [c_res c_anorm c_acarry c_rcarry c_atake c_racc c_rlimb] in HE.
                 destruct (middle_step wd true ab lsh 0 (nthZ a (length a - 1 - a_out)) ac0) as [an ac].
                 cbn [fst snd] in HE. apply (Hfin _ HE).
           ++ destruct (Htk Et0) as [Ez0 Ers]. subst res_start.
              pose proof (first_takeW wd rb ab Hrb Hab a Ha lsh Hl rsz z g Hg a_out take ac0 Dlow
                   ltac:(lia) Ez0 Eg ltac:(lia) Ht HC HD Hac0 H0) as HE.
              cbv zeta in HE.
              destruct (middle_step wd true ab lsh 0 (nthZ a (length a - 1 - a_out)) ac0) as [an ac].
              cbn [fst snd] in HE. apply (Hfin _ HE).
        -- (* later iterations *)
           destruct (Nat.eqb_spec j 0) as [|_]; [lia|].
           pose proof (next_entryW wd rb ab Hrb Hab a Ha lsh Hl rsz z g Hz Hg t s HO Ht) as HE.
           cbv zeta in HE.
           destruct (middle_step wd true ab lsh 0 (nthZ a (length a - 1 - t)) (c_acarry s)) as [an ac].
           cbn [fst snd] in HE. apply (Hfin _ HE).
    + destruct (fold_left _ (seq 0 (a_start - a_end)) (s0, false, false)) as [[s brk] bad].
      cbn [fst snd] in I1, I2, I3. subst bad. cbn [Nat.eqb].
      assert (HF : C08CrossOuter.Final rb ab a lsh rsz z g (c_res s)).
      { destruct brk; [apply I2; reflexivity|].
        destruct (I3 eq_refl) as [[E _]|[_ HO]]; [clear - E Hmid; lia|].
        apply (outer_finalW wd rb ab Hab a lsh Hl rsz z g Hz Hg lo (a_out + (a_start - a_end)) s Hlo Hgeo'); [|exact HO].
        clear - Hast Hmid Eaend Hlo HloA. unfold a_out, asz, zn in *. lia. }
      exists (c_res s). split; [reflexivity|]. split; [apply HF|].
      intros P HP. rewrite <- Eoff in HP |- *.
      apply (final_valueW wd rb ab Hrb Hab a lsh Hl rsz z g Hz Hg Hzg lo P (c_res s) Hlo Hgeo' ltac:(lia) HF).
      fold asz. exact HP.
Qed.

End Thm.
