(* C08, level 3, width-generic: closed forms (by index) of normalize_assign and of the left shifts at any word width w.
   Port of Proofs/C08Shift.v (which fixes w = 64). *)
From PV Require Import Base.MachineInt Model.Znx Model.Limbs Model.C08Oracle
  Proofs.ZnxDigit Proofs.C08Steps Proofs.C08Chain Proofs.C08Loops Proofs.C08Value Proofs.C08Normalize Proofs.C08Shift
  Proofs.C08WChain Proofs.C08WLoops Proofs.C08WNormalize.
Open Scope Z_scope.

Section Shift.
Variable w : Z.
Variable b : Z.
Hypothesis Hb : 1 <= b <= w - 2.

Let Hb1 : 1 <= b. Proof. lia. Qed.
Let Hb64 : 1 <= b <= w - 2. Proof. lia. Qed.
Let HWp : 0 < 2 ^ (w - 2). Proof. apply pow2_pos; lia. Qed.

(* ---------- the in-place first / middle / final loop (normalize_assign, lsh_assign) ---------- *)

Definition ffm_loopW (lsh : Z) (m : nat) (r1 : list Z) : list Z :=
  fst (fold_left (fun (s : list Z * Z) t =>
    let '(r, c) := s in
    let j := (m - t - 1)%nat in
    if Nat.eqb j (m - 1) then let '(x, c') := first_step_assign w b lsh (nthZ r j) in (upd r j x, c')
    else if Nat.eqb j 0 then (upd r j (final_step_assign w b lsh (nthZ r j) c), c)
    else let '(x, c') := middle_step_assign w b lsh (nthZ r j) c in (upd r j x, c')) (seq 0 m) (r1, 0)).

Lemma ffm_loopW_spec (lsh : Z) (m : nat) (r1 : list Z) : 0 <= lsh < b -> hrlw w r1 ->
  let u := fun t : nat => nthZ r1 (m - t - 1) * 2 ^ lsh in
  length (ffm_loopW lsh m r1) = length r1 /\
  forall i, nthZ (ffm_loopW lsh m r1) i =
    if (Nat.ltb i m && Nat.ltb i (length r1))%bool then dig b u 0 (m - 1 - i) else nthZ r1 i.
Proof.
  intros Hl Hr u.
  assert (Hu : vboundW w b u) by (apply vboundW_limbs; auto).
  assert (H0 : Z.abs 0 <= 2 ^ (w - 2)) by (pose proof HWp; cbn [Z.abs]; lia).
  pose proof (dloopW_spec w b Hb
    (fun t y c' =>
       if Nat.eqb (m - t - 1) (m - 1) then first_step_assign w b lsh y
       else if Nat.eqb (m - t - 1) 0 then (final_step_assign w b lsh y c', c')
       else middle_step_assign w b lsh y c')
    (fun j d => d) u true m 0 m r1 0 (le_n m) Hu H0) as HD.
  cbv zeta in HD. unfold dloopW in HD. unfold ffm_loopW.
  rewrite (fold_left_seq_ext _
    (fun (s : list Z * Z) (t : nat) => let '(r0, c0) := s in
      let '(x, c') :=
        (if Nat.eqb (m - t - 1) (m - 1) then first_step_assign w b lsh (nthZ r0 (m - 0 - t - 1))
         else if Nat.eqb (m - t - 1) 0 then (final_step_assign w b lsh (nthZ r0 (m - 0 - t - 1)) c0, c0)
         else middle_step_assign w b lsh (nthZ r0 (m - 0 - t - 1)) c0) in
      (upd r0 (m - t - 1) x, c'))).
  2:{ intros [r0 c0] t Ht. rewrite Nat.sub_0_r. cbv zeta.
      destruct (Nat.eqb (m - t - 1) (m - 1)); [reflexivity|].
      destruct (Nat.eqb (m - t - 1) 0); reflexivity. }
  destruct HD as (_ & D2 & D3).
  - intros t Ht Hc'. set (c' := car b u 0 t) in *. rewrite Nat.sub_0_r.
    unfold final_step_assign, middle_step_assign.
    destruct (Nat.eqb_spec (m - t - 1) (m - 1)) as [E|E].
    + assert (t = 0%nat) by lia. subst t. unfold c'. cbn [car].
      rewrite (first_step_assign_ideal w b lsh Hb64 Hl) by apply Hr.
      cbn [fst snd]. unfold u. rewrite Z.add_0_r. split; [reflexivity|intros _; reflexivity].
    + destruct (Nat.eqb_spec (m - t - 1) 0) as [E0|E0]; cbn [fst snd].
      * rewrite (fcW w b Hb) by (auto; apply Hr). split; [reflexivity|].
        intros [Hn|Hn]; [lia|discriminate].
      * rewrite (mcW w b Hb) by (auto; apply Hr). cbn [fst snd].
        split; [reflexivity|intros _; reflexivity].
  - split; [exact D2|]. intros i. rewrite D3. natb; try reflexivity; lia.
Qed.

(* vec_znx_normalize_assign *)
Theorem normalize_assign_nthW (r0 : list Z) : hrlw w r0 ->
  let out := normalize_assign w b r0 in
  length out = length r0 /\
  forall i, (i < length r0)%nat ->
    nthZ out i = dgz b (vin r0 0) (zn (length r0) - 0 - 1 - zn i).
Proof.
  intros Hr. cbv zeta.
  change (normalize_assign w b r0) with (ffm_loopW 0 (length r0) r0).
  destruct (ffm_loopW_spec 0 (length r0) r0 ltac:(lia) Hr) as [L N].
  split; [exact L|]. intros i Hi. rewrite N.
  destruct (Nat.ltb_spec i (length r0)); [|lia]. cbn [andb].
  rewrite dgz_nonneg by (unfold zn; lia).
  replace (Z.to_nat (zn (length r0) - 0 - 1 - zn i)) with (length r0 - 1 - i)%nat by (unfold zn; lia).
  apply dig_ext. intros t Ht. symmetry. apply vin_at; lia.
Qed.

(* vec_znx_lsh_assign *)
Theorem lsh_assign_nthW (k : Z) (r0 : list Z) : 0 <= k -> hrlw w r0 ->
  let out := lsh_assign w b k r0 in
  length out = length r0 /\
  forall i, (i < length r0)%nat ->
    nthZ out i = dgz b (vin r0 (k mod b)) (zn (length r0) - k / b - 1 - zn i).
Proof.
  intros Hk Hr. cbv zeta. unfold lsh_assign.
  assert (Hl : 0 <= k mod b < b) by (apply Z.mod_pos_bound; lia).
  assert (Hq : 0 <= k / b) by (apply Z.div_pos; lia).
  set (lsh := k mod b) in *. set (q := k / b) in *. clearbody lsh q.
  set (sz := length r0). set (steps := Z.to_nat q).
  destruct (Nat.leb_spec sz steps) as [Hle|Hgt].
  - rewrite zeros_length. split; [reflexivity|]. intros i Hi. rewrite nth_zeros.
    rewrite dgz_neg; [reflexivity|]. unfold steps, zn in *. lia.
  - set (r1 := if Nat.eqb steps 0 then r0
               else map (fun j => if Nat.ltb j (sz - steps) then nthZ r0 (j + steps) else 0) (seq 0 sz)).
    assert (L1 : length r1 = sz).
    { unfold r1. destruct (Nat.eqb steps 0); [reflexivity|]. rewrite map_length, seq_length. reflexivity. }
    assert (N1 : forall j, nthZ r1 j = if Nat.ltb j (sz - steps) then nthZ r0 (j + steps) else 0).
    { intros j. unfold r1. destruct (Nat.eqb_spec steps 0) as [E|E].
      - rewrite E, Nat.sub_0_r, Nat.add_0_r. destruct (Nat.ltb_spec j sz); [reflexivity|].
        apply nthZ_overflow. fold sz. lia.
      - destruct (Nat.lt_ge_cases j sz) as [Hj|Hj].
        + rewrite nthZ_map_seq by exact Hj. reflexivity.
        + rewrite nthZ_overflow by (rewrite map_length, seq_length; exact Hj).
          destruct (Nat.ltb_spec j (sz - steps)); [lia|reflexivity]. }
    assert (Hr1 : hrlw w r1).
    { intros j. rewrite N1. destruct (Nat.ltb j (sz - steps)); [apply Hr|].
      pose proof HWp; cbn [Z.abs]; lia. }
    change (fst (fold_left _ (seq 0 (sz - steps)) (r1, 0))) with (ffm_loopW lsh (sz - steps) r1).
    destruct (ffm_loopW_spec lsh (sz - steps) r1 Hl Hr1) as [L N].
    split; [rewrite L; exact L1|]. intros i Hi. rewrite N, L1.
    destruct (Nat.ltb_spec i sz); [|lia]. rewrite Bool.andb_true_r.
    destruct (Nat.ltb_spec i (sz - steps)) as [Hi2|Hi2].
    + rewrite dgz_nonneg by (unfold steps, zn in *; lia).
      replace (Z.to_nat (zn sz - q - 1 - zn i)) with (sz - steps - 1 - i)%nat by (unfold steps, zn in *; lia).
      apply dig_ext. intros t Ht. rewrite N1.
      destruct (Nat.ltb_spec (sz - steps - t - 1) (sz - steps)); [|lia].
      symmetry. apply vin_at; fold sz; lia.
    + rewrite N1. destruct (Nat.ltb_spec i (sz - steps)); [lia|].
      rewrite dgz_neg; [reflexivity|]. unfold steps, zn in *. lia.
Qed.

(* ---------- the final / middle loop of lsh and lsh_sub ---------- *)

Definition fm_loopW (fs : Z -> Z -> Z -> Z) (mst : Z -> Z -> Z -> Z * Z) (a : list Z) (steps ms : nat)
    (st : list Z * Z) : list Z * Z :=
  fold_left (fun (s : list Z * Z) t =>
      let '(r, c) := s in
      let j := (ms - t - 1)%nat in
      if Nat.eqb j 0 then (upd r j (fs (nthZ r j) (nthZ a (j + steps)) c), c)
      else let '(x, c') := mst (nthZ r j) (nthZ a (j + steps)) c in (upd r j x, c')) (seq 0 ms) st.

Lemma fm_loopW_spec (fs : Z -> Z -> Z -> Z) (mst : Z -> Z -> Z -> Z * Z) (gg : Z -> Z -> Z)
    (lsh : Z) (a : list Z) (steps ms : nat) (r0 : list Z) (c0 : Z) :
  0 <= lsh < b -> hrlw w a -> Z.abs c0 <= 2 ^ (w - 2) ->
  (forall j x c, Z.abs x <= 2 ^ (w - 2) -> Z.abs c <= 2 ^ (w - 2) ->
     fs (nthZ r0 j) x c = gg (nthZ r0 j) (wrap b (x * 2 ^ lsh + c)) /\
     mst (nthZ r0 j) x c = (gg (nthZ r0 j) (wrap b (x * 2 ^ lsh + c)), bdiv b (x * 2 ^ lsh + c))) ->
  let u := fun t : nat => nthZ a (ms - t - 1 + steps) * 2 ^ lsh in
  let res := fst (fm_loopW fs mst a steps ms (r0, c0)) in
  length res = length r0 /\
  forall i, nthZ res i =
    if (Nat.ltb i ms && Nat.ltb i (length r0))%bool then gg (nthZ r0 i) (dig b u c0 (ms - 1 - i))
    else nthZ r0 i.
Proof.
  intros Hl Ha Hc0 Hspec u.
  assert (Hu : vboundW w b u) by (apply vboundW_limbs; auto).
  pose proof (dloopW_spec w b Hb
    (fun t y c' =>
       if Nat.eqb (ms - t - 1) 0 then (fs y (nthZ a (ms - t - 1 + steps)) c', c')
       else mst y (nthZ a (ms - t - 1 + steps)) c')
    (fun t d => gg (nthZ r0 (ms - t - 1)) d) u true ms 0 ms r0 c0 (le_n ms) Hu Hc0) as HD.
  cbv zeta in HD. unfold dloopW in HD. unfold fm_loopW.
  rewrite (fold_left_seq_ext _
    (fun (s : list Z * Z) (t : nat) => let '(r, c) := s in
      let '(x, c') :=
        (if Nat.eqb (ms - t - 1) 0 then (fs (nthZ r (ms - 0 - t - 1)) (nthZ a (ms - t - 1 + steps)) c, c)
         else mst (nthZ r (ms - 0 - t - 1)) (nthZ a (ms - t - 1 + steps)) c) in
      (upd r (ms - t - 1) x, c'))).
  2:{ intros [r c] t Ht. rewrite Nat.sub_0_r. cbv zeta.
      destruct (Nat.eqb (ms - t - 1) 0); reflexivity. }
  destruct HD as (_ & D2 & D3).
  - intros t Ht Hc'. set (c' := car b u c0 t) in *. rewrite Nat.sub_0_r.
    destruct (Hspec (ms - t - 1)%nat (nthZ a (ms - t - 1 + steps)) c' (Ha _) Hc') as [S1 S2].
    destruct (Nat.eqb_spec (ms - t - 1) 0) as [E0|E0]; cbn [fst snd].
    + rewrite S1. split; [reflexivity|]. intros [Hn|Hn]; [lia|discriminate].
    + rewrite S2. cbn [fst snd]. split; [reflexivity|intros _; reflexivity].
  - split; [exact D2|]. intros i. rewrite D3. natb; try reflexivity; try lia.
    replace (ms - (ms - 1 - i) - 1)%nat with i by lia. reflexivity.
Qed.

(* common closed form of lsh<ov> and lsh_sub: out_i = gg r0_i (window digit), zero-filled if requested *)
Lemma lsh_coreW (fs : Z -> Z -> Z -> Z) (mst : Z -> Z -> Z -> Z * Z) (gg : Z -> Z -> Z) (zfill : bool)
    (lsh q : Z) (a r0 : list Z) :
  0 <= lsh < b -> 0 <= q -> hrlw w a ->
  (forall j x c, Z.abs x <= 2 ^ (w - 2) -> Z.abs c <= 2 ^ (w - 2) ->
     fs (nthZ r0 j) x c = gg (nthZ r0 j) (wrap b (x * 2 ^ lsh + c)) /\
     mst (nthZ r0 j) x c = (gg (nthZ r0 j) (wrap b (x * 2 ^ lsh + c)), bdiv b (x * 2 ^ lsh + c))) ->
  (forall y, gg y 0 = if zfill then 0 else y) ->
  let rsz := length r0 in let asz := length a in
  let steps := Z.to_nat q in
  let ms := Nat.min rsz (asz - steps) in
  let cstart := Nat.min (steps + ms) asz in
  let c0 := carry_down w b lsh a asz cstart in
  let r := fst (fm_loopW fs mst a steps ms (r0, c0)) in
  let out := if zfill then zero_range r ms rsz else r in
  length out = length r0 /\
  forall i, (i < length r0)%nat ->
    nthZ out i = gg (nthZ r0 i) (dgz b (vin a lsh) (zn (length a) - q - 1 - zn i)).
Proof.
  intros Hl Hq Ha Hspec Hgg rsz asz steps ms cstart c0 r out.
  set (V := vin a lsh).
  assert (Ec0 : c0 = car b V 0 (asz - cstart)).
  { unfold c0, carry_down. rewrite (carry_phase_carW w b Hb lsh a asz (asz - cstart) Hl Ha).
    apply (car_low b lsh a (asz - cstart)). unfold asz. lia. }
  assert (Hc0 : Z.abs c0 <= 2 ^ (w - 2)) by (rewrite Ec0; apply (car_vin_hrW w b Hb); auto).
  destruct (fm_loopW_spec fs mst gg lsh a steps ms r0 c0 Hl Ha Hc0 Hspec) as [L N].
  fold r in L, N.
  assert (Hdig : forall i, (i < ms)%nat ->
    dig b (fun t : nat => nthZ a (ms - t - 1 + steps) * 2 ^ lsh) c0 (ms - 1 - i)
    = dgz b V (zn asz - q - 1 - zn i)).
  { intros i Hi. rewrite Ec0.
    assert (Ecs : cstart = (steps + ms)%nat) by (unfold cstart, ms in *; lia).
    rewrite (dig_piece b _ a lsh (asz - cstart) ms (ms - 1 - i)); [| |lia].
    - fold V. rewrite dgz_nonneg by (clear - Hi Hq Ecs; unfold ms, steps, zn in *; lia).
      f_equal. clear - Hi Hq Ecs. unfold ms, steps, zn in *. lia.
    - intros t Ht. symmetry. apply vin_at; fold asz; clear - Ht Ecs; unfold ms in *; lia. }
  assert (Hout : length out = length r0 /\
    forall i, nthZ out i = if (Nat.leb ms i && Nat.ltb i rsz && zfill)%bool then 0 else nthZ r i).
  { unfold out. destruct zfill.
    - destruct (zero_range_spec r ms rsz) as [Z1 Z2]. split; [rewrite Z1; exact L|].
      intros i. rewrite Z2. rewrite Bool.andb_true_r. reflexivity.
    - split; [exact L|]. intros i. rewrite Bool.andb_false_r. reflexivity. }
  destruct Hout as [Lo No]. split; [exact Lo|].
  intros i Hi. rewrite No, N. fold rsz in Hi |- *.
  destruct (Nat.ltb_spec i rsz) as [_|]; [|lia].
  destruct (Nat.leb_spec ms i) as [Hge|Hlt].
  - destruct (Nat.ltb_spec i ms) as [|_]; [lia|]. cbn [andb].
    rewrite dgz_neg by (unfold ms, steps, zn in *; lia). rewrite Hgg.
    destruct zfill; reflexivity.
  - destruct (Nat.ltb_spec i ms) as [_|]; [|lia]. cbn [andb]. rewrite Hdig by lia. reflexivity.
Qed.

(* vec_znx_lsh<OVERWRITE> *)
Theorem lsh_nthW (ov : bool) (k : Z) (a r0 : list Z) : 0 <= k -> hrlw w a -> (ov = false -> hrlw w r0) ->
  let out := lsh w ov b k a r0 in
  length out = length r0 /\
  forall i, (i < length r0)%nat ->
    nthZ out i = (if ov then 0 else nthZ r0 i)
                 + dgz b (vin a (k mod b)) (zn (length a) - k / b - 1 - zn i).
Proof.
  intros Hk Ha Hr. cbv zeta. unfold lsh.
  assert (Hl : 0 <= k mod b < b) by (apply Z.mod_pos_bound; lia).
  assert (Hq : 0 <= k / b) by (apply Z.div_pos; lia).
  set (lsh := k mod b) in *. set (q := k / b) in *. clearbody lsh q.
  destruct (Nat.leb_spec (Nat.max (length r0) (length a)) (Z.to_nat q)) as [Hle|Hgt].
  - split; [destruct ov; [apply zeros_length|reflexivity]|].
    intros i Hi. rewrite dgz_neg by (unfold zn; lia).
    destruct ov; [rewrite nth_zeros|]; lia.
  - pose proof (lsh_coreW (final_step w ov b lsh) (middle_step w ov b lsh)
      (fun y d => (if ov then 0 else y) + d) ov lsh q a r0 Hl Hq Ha) as HC.
    cbv zeta in HC. unfold fm_loopW in HC.
    destruct (fold_left _ (seq 0 (Nat.min (length r0) (length a - Z.to_nat q))) _) as [r c].
    cbn [fst] in HC. apply HC.
    + intros j x c' Hx Hc'.
      rewrite (final_step_ideal w b lsh Hb64 Hl), (middle_step_ideal w b lsh Hb64 Hl);
        auto; intros E; apply Hr; exact E.
    + intros y. destruct ov; lia.
Qed.

(* vec_znx_lsh_sub *)
Theorem lsh_sub_nthW (k : Z) (a r0 : list Z) : 0 <= k -> hrlw w a -> hrlw w r0 ->
  let out := lsh_sub w b k a r0 in
  length out = length r0 /\
  forall i, (i < length r0)%nat ->
    nthZ out i = nthZ r0 i - dgz b (vin a (k mod b)) (zn (length a) - k / b - 1 - zn i).
Proof.
  intros Hk Ha Hr. cbv zeta. unfold lsh_sub.
  assert (Hl : 0 <= k mod b < b) by (apply Z.mod_pos_bound; lia).
  assert (Hq : 0 <= k / b) by (apply Z.div_pos; lia).
  set (lsh := k mod b) in *. set (q := k / b) in *. clearbody lsh q.
  destruct (Nat.leb_spec (Nat.max (length r0) (length a)) (Z.to_nat q)) as [Hle|Hgt].
  - split; [reflexivity|].
    intros i Hi. rewrite dgz_neg by (unfold zn; lia). lia.
  - pose proof (lsh_coreW (final_step_sub w b lsh) (middle_step_sub w b lsh)
      (fun y d => y - d) false lsh q a r0 Hl Hq Ha) as HC.
    cbv zeta in HC. unfold fm_loopW in HC. apply HC.
    + intros j x c' Hx Hc'.
      rewrite (final_step_sub_ideal w b lsh Hb64 Hl), (middle_step_sub_ideal w b lsh Hb64 Hl);
        auto; apply Hr.
    + intros y. lia.
Qed.

End Shift.
