(* C17 - collected statements of the second op_total batch (pinned in Props/C17.v). *)
From PV Require Import Base.MachineInt Model.Znx Model.Limbs Model.LimbsBig Model.Ring Model.DftAbs Model.C17Ops Model.C17Ops2
  Proofs.C17Total Proofs.C17Total2 Proofs.C08Cross.
From Coq Require Import Arith PeanoNat.
Open Scope Z_scope.

Lemma op_total_cross (w cap_small rb ab off b : Z) (cap : nat) (a r0 : list Z) :
  1 <= rb -> 1 <= ab ->
  normalize_cross_gc w 128 rb ab off a r0 = Some (normalize_cross w rb ab off a r0) /\
  normalize_cross_gc w 192 rb ab off a r0 = Some (normalize_cross_big w rb ab off a r0) /\
  normalize_inter_cc w cap b off a r0 = Some (LimbsBig.normalize_inter_c w cap b off a r0).
Proof.
  intros Hrb Hab. split; [apply normalize_cross_total_c; assumption|].
  split; [apply normalize_cross_big_total_c; assumption | apply normalize_inter_cap_total].
Qed.

(* with the fuel theorem of C08: the i64 cross-radix routine neither leaves its operands nor runs out of fuel *)
Lemma op_total_cross_64 (rb ab off : Z) (a r0 : list Z) :
  1 <= rb -> 1 <= ab ->
  exists r, normalize_cross_gc 64 128 rb ab off a r0 = Some (Some r) /\ normalize_cross 64 rb ab off a r0 = Some r.
Proof.
  intros Hrb Hab. pose proof (normalize_cross_total rb ab Hrb Hab off a r0) as Hne.
  destruct (normalize_cross 64 rb ab off a r0) as [r|] eqn:E; [|congruence].
  exists r. split; [|reflexivity]. rewrite <- E. apply normalize_cross_total_c; assumption.
Qed.

Lemma op_total_scalar_rings (w : Z) :
  (forall n sub a b b_limb r0, vec_add_scalar_c w n sub a b b_limb r0 = Some (vec_add_scalar w n sub a b b_limb r0)) /\
  (forall sub a res_limb r0, vec_add_scalar_assign_c w sub a res_limb r0 = vec_add_scalar_assign w sub a res_limb r0) /\
  (forall n_out r0 a, (0 < n_out)%nat -> (0 < length a)%nat ->
      (exists g, (0 < g)%nat /\ (length a = g * n_out \/ n_out = g * length a)%nat) ->
      znx_switch_ring_c n_out r0 a = Some (znx_switch_ring n_out r0 a)) /\
  (forall n_in n_out i a r0, (0 < n_out)%nat -> (0 < n_in)%nat -> (exists g, (0 < g)%nat /\ n_in = (g * n_out)%nat) ->
      limbs_wf n_in a -> vec_split_part_c w n_out i a r0 = Some (vec_split_part w n_out i a r0)) /\
  (forall n_in n_out parts r0, (0 < length parts)%nat -> n_out = (length parts * n_in)%nat -> Forall (limbs_wf n_in) parts ->
      vec_merge_rings_c n_out parts r0 = Some (vec_merge_rings n_out parts r0)).
Proof.
  split; [intros; apply vec_add_scalar_total|]. split; [intros; apply vec_add_scalar_assign_total|].
  split; [intros; apply znx_switch_ring_total; assumption|].
  split; [intros; eapply vec_split_part_total; eassumption | intros; eapply vec_merge_rings_total; eassumption].
Qed.

Lemma op_total_dft :
  (forall n rsz step offset a, dft_select_c n rsz step offset a = Some (dft_select n rsz step offset a)) /\
  (forall n rsz a b, dft_add_c n rsz a b = Some (dft_add n rsz a b)) /\
  (forall n rsz a b, dft_sub_c n rsz a b = Some (dft_sub n rsz a b)) /\
  (forall a r0, dft_add_assign_c a r0 = Some (dft_add_assign a r0)) /\
  (forall a r0, dft_sub_assign_c a r0 = Some (dft_sub_assign a r0)) /\
  (forall a r0, dft_sub_negate_assign_c a r0 = Some (dft_sub_negate_assign a r0)) /\
  (forall scale a r0, dft_add_scaled_assign_c scale a r0 = Some (dft_add_scaled_assign scale a r0)) /\
  (forall n rsz s b, svp_apply_c n rsz s b = Some (svp_apply n rsz s b)) /\
  (forall n rcols rsz acols asz rows msize limb_offset aflat mflat c,
      vmp_c n rcols rsz acols asz rows msize limb_offset aflat mflat c =
      Some (vmp n rcols rsz acols asz rows msize limb_offset aflat mflat c)).
Proof.
  split; [intros; apply dft_select_total|]. split; [intros; apply dft_add_total|]. split; [intros; apply dft_sub_total|].
  split; [intros; apply dft_add_assign_total|]. split; [intros; apply dft_sub_assign_total|].
  split; [intros; apply dft_sub_negate_assign_total|]. split; [intros; apply dft_add_scaled_assign_total|].
  split; [intros; apply svp_apply_total | intros; apply vmp_total].
Qed.

(* the checked flat accessors of vmp really reject *)
Lemma flat_checked_rejects (len nrows ncols q c : nat) (f : nat -> list Z) (g : nat -> nat -> list Z) :
  ((len <= q)%nat -> flat1_c len f q = None) /\ ((nrows <= q)%nat \/ (ncols <= c)%nat -> flat2_c nrows ncols g q c = None).
Proof.
  unfold flat1_c, flat2_c. split; intros H.
  - destruct (Nat.ltb_spec q len); [lia|reflexivity].
  - destruct (Nat.ltb_spec q nrows); destruct (Nat.ltb_spec c ncols); cbn; try reflexivity; lia.
Qed.
