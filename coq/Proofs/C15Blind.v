(* C15 — blind selection, blind retrieval and conditional swap address exactly the index encrypted by the selector:
   (k >> bit_rsh) mod 2^bit_mask. *)
From Coq Require Import ZArith List Bool Lia.
From PV Require Import Gen.C15_gen Model.C15Uint Proofs.C15Layout.
Import ListNotations.
Open Scope Z_scope.

(* ------------------------------------------------------------------------------------------------ *)
(** * the selector *)

Lemma kbit_bits_of n kw i : 0 <= i < Z.of_nat n -> kbit (bits_of n kw) i = Some (Z.testbit kw i).
Proof.
  intros Hi. unfold kbit, bits_of. destruct (Z.leb_spec 0 i); [|lia].
  rewrite nth_error_map. rewrite (nth_error_nth' _ 0) by (rewrite zseq_length; lia).
  rewrite nth_zseq by lia. cbn [option_map]. do 2 f_equal. lia.
Qed.

(* the index sub-field, one bit at a time *)
Lemma field_split x c : 0 < c -> x mod 2 ^ c = x mod 2 ^ (c - 1) + Z.b2z (Z.testbit x (c - 1)) * 2 ^ (c - 1).
Proof.
  intros Hc. replace c with ((c - 1) + 1) at 1 by lia. rewrite Z.pow_add_r by lia. change (2 ^ 1) with 2.
  assert (Hp : 0 < 2 ^ (c - 1)) by (apply Z.pow_pos_nonneg; lia).
  rewrite Z.rem_mul_r by lia. rewrite Z.testbit_spec' by lia. ring.
Qed.

Lemma field_bit kw rsh c : 0 <= rsh -> 0 < c -> Z.testbit (kw / 2 ^ rsh) (c - 1) = Z.testbit kw (rsh + c - 1).
Proof. intros. rewrite Z.div_pow2_bits by lia. f_equal; lia. Qed.

Lemma zseq_app s k : zseq s (S k) = zseq s k ++ [s + Z.of_nat k].
Proof.
  revert s; induction k as [|k IH]; intros s.
  - cbn. f_equal. lia.
  - change (zseq s (S (S k))) with (s :: zseq (s + 1) (S k)). rewrite IH. cbn [zseq app]. do 3 f_equal. lia.
Qed.

(* ------------------------------------------------------------------------------------------------ *)
(** * Cswap *)

Lemma cswap_spec bit a b : cswap bit (a, b) = if bit then (b, a) else (a, b).
Proof. unfold cswap. destruct bit; cbn [fst snd Z.b2z]; f_equal; lia. Qed.

(* ------------------------------------------------------------------------------------------------ *)
(** * blind selection *)

Definition comb (bit : bool) (lo hi : option Z) : option Z :=
  match lo, hi with
  | Some l, Some h => Some (if bit then l else h)
  | Some l, None => Some (if bit then l else 0)
  | None, Some h => Some (if bit then 0 else h)
  | None, None => None
  end.

Lemma den_comb bit lo hi : den (comb bit lo hi) = if bit then den lo else den hi.
Proof. destruct lo, hi, bit; reflexivity. Qed.

Lemma sel_step_eq t bit m j x : t <> 0 ->
  sel_step t bit m j x = if x =? j then comb bit (m (j + t)) (m j) else if x =? j + t then None else m x.
Proof.
  intros Ht. unfold sel_step, comb, fm_set.
  destruct (m (j + t)), (m j); destruct (Z.eqb_spec x j); destruct (Z.eqb_spec x (j + t)); try reflexivity; lia.
Qed.

(* after the first k pairs of a level *)
Lemma sel_fold t bit m k : 0 < t -> Z.of_nat k <= t -> forall x,
  fold_left (sel_step t bit) (zseq 0 k) m x =
    if (0 <=? x) && (x <? Z.of_nat k) then comb bit (m (x + t)) (m x)
    else if (t <=? x) && (x <? t + Z.of_nat k) then None else m x.
Proof.
  intros Ht. induction k as [|k IH]; intros Hk x.
  - cbn [zseq fold_left]. destruct (Z.leb_spec 0 x); destruct (Z.ltb_spec x (Z.of_nat 0));
      destruct (Z.leb_spec t x); destruct (Z.ltb_spec x (t + Z.of_nat 0)); cbn [andb]; try reflexivity; lia.
  - rewrite zseq_app, fold_left_app. cbn [fold_left]. rewrite Z.add_0_l.
    rewrite sel_step_eq by lia. rewrite !IH by lia.
    destruct (Z.eqb_spec x (Z.of_nat k)) as [->|Hne].
    + destruct (Z.leb_spec 0 (Z.of_nat k + t)); destruct (Z.ltb_spec (Z.of_nat k + t) (Z.of_nat k));
        destruct (Z.leb_spec t (Z.of_nat k + t)); destruct (Z.ltb_spec (Z.of_nat k + t) (t + Z.of_nat k));
        destruct (Z.leb_spec 0 (Z.of_nat k)); destruct (Z.ltb_spec (Z.of_nat k) (Z.of_nat k));
        destruct (Z.leb_spec t (Z.of_nat k)); destruct (Z.ltb_spec (Z.of_nat k) (t + Z.of_nat k));
        destruct (Z.ltb_spec (Z.of_nat k) (Z.of_nat (S k))); cbn [andb]; try reflexivity; lia.
    + destruct (Z.eqb_spec x (Z.of_nat k + t)) as [->|Hne2].
      * destruct (Z.leb_spec 0 (Z.of_nat k + t)); destruct (Z.ltb_spec (Z.of_nat k + t) (Z.of_nat (S k)));
          destruct (Z.leb_spec t (Z.of_nat k + t)); destruct (Z.ltb_spec (Z.of_nat k + t) (t + Z.of_nat (S k)));
          cbn [andb]; try reflexivity; lia.
      * destruct (Z.leb_spec 0 x); destruct (Z.ltb_spec x (Z.of_nat k)); destruct (Z.ltb_spec x (Z.of_nat (S k)));
          destruct (Z.leb_spec t x); destruct (Z.ltb_spec x (t + Z.of_nat k)); destruct (Z.ltb_spec x (t + Z.of_nat (S k)));
          cbn [andb]; try reflexivity; lia.
Qed.

(* one level: the lower half now holds, at x, the entry x or x + t according to the selector bit *)
Lemma sel_level_den t bit m x : 0 < t -> 0 <= x < t ->
  den (fold_left (sel_step t bit) (zseq 0 (Z.to_nat t)) m x) = den (m (x + (if bit then t else 0))).
Proof.
  intros Ht Hx. rewrite sel_fold by lia. rewrite Z2Nat.id by lia.
  destruct (Z.leb_spec 0 x); [|lia]. destruct (Z.ltb_spec x t); [|lia]. cbn [andb].
  rewrite den_comb. destruct bit; [reflexivity | now rewrite Z.add_0_r].
Qed.

Lemma sel_levels_index kw rsh mask : 0 <= rsh -> rsh + mask <= 32 ->
  forall cnt i m, i + Z.of_nat cnt = mask -> 0 <= i ->
    exists m', sel_levels (bits_of 32 kw) rsh mask i cnt m = Some m' /\
               den (m' 0) = den (m ((kw / 2 ^ rsh) mod 2 ^ Z.of_nat cnt)).
Proof.
  intros Hrsh Hle. induction cnt as [|c IH]; intros i m Hi Hi0.
  - exists m; split; [reflexivity|]. cbn. now rewrite Z.mod_1_r.
  - cbn [sel_levels]. rewrite kbit_bits_of by (cbn; lia).
    set (t := Z.shiftl 1 (mask - i - 1)). set (bit := Z.testbit kw (rsh + mask - i - 1)).
    assert (Et : t = 2 ^ Z.of_nat c) by (unfold t; rewrite Z.shiftl_mul_pow2 by lia; rewrite Z.mul_1_l; f_equal; lia).
    assert (Htp : 0 < t) by (rewrite Et; apply Z.pow_pos_nonneg; lia).
    destruct (IH (i + 1) (fold_left (sel_step t bit) (zseq 0 (Z.to_nat t)) m) ltac:(lia) ltac:(lia)) as (m' & Em & Hd).
    exists m'; split; [exact Em|]. rewrite Hd.
    set (lowidx := (kw / 2 ^ rsh) mod 2 ^ Z.of_nat c).
    assert (Hlow : 0 <= lowidx < t) by (unfold lowidx; rewrite Et; apply Z.mod_pos_bound; rewrite <- Et; lia).
    rewrite sel_level_den by lia. do 2 f_equal.
    rewrite (field_split (kw / 2 ^ rsh) (Z.of_nat (S c))) by lia.
    replace (Z.of_nat (S c) - 1) with (Z.of_nat c) by lia. fold lowidx.
    replace (Z.testbit (kw / 2 ^ rsh) (Z.of_nat c)) with bit.
    + rewrite <- Et. destruct bit; cbn [Z.b2z]; lia.
    + unfold bit. rewrite Z.div_pow2_bits by lia. f_equal; lia.
Qed.

(* the selected entry is the one at (k >> bit_rsh) mod 2^bit_mask; an absent key reads as an encryption of zero *)
Lemma selection_index kw rsh mask (m : fmap) : 0 <= rsh -> 0 <= mask -> rsh + mask <= 32 ->
  glwe_blind_selection 32 (bits_of 32 kw) rsh mask m = Some (den (m ((kw / 2 ^ rsh) mod 2 ^ mask))).
Proof.
  intros Hr Hm Hle. unfold glwe_blind_selection. destruct (Z.leb_spec (rsh + mask) 32); [|lia].
  destruct (sel_levels_index kw rsh mask Hr Hle (Z.to_nat mask) 0 m ltac:(lia) ltac:(lia)) as (m' & -> & Hd).
  rewrite Hd, Z2Nat.id by lia. reflexivity.
Qed.

(* ------------------------------------------------------------------------------------------------ *)
(** * blind retrieval (butterfly of conditional swaps on a vector) *)

Lemma lset_length l i v : length (lset l i v) = length l.
Proof. revert i; induction l as [|x l IH]; intros [|i]; cbn; auto. Qed.

Lemma lget_lset l i v x : 0 <= x -> lget (lset l i v) x = if (x =? Z.of_nat i) && (Z.of_nat i <? Z.of_nat (length l)) then v else lget l x.
Proof.
  intros Hx. unfold lget. revert i x Hx; induction l as [|y l IH]; intros i x Hx.
  - cbn. destruct (Z.eqb_spec x (Z.of_nat i)); destruct (Z.to_nat x); destruct i; reflexivity.
  - destruct i as [|i].
    + cbn [lset length]. destruct (Z.eqb_spec x (Z.of_nat 0)) as [->|Hne].
      * cbn. reflexivity.
      * cbn [andb]. destruct (Z.to_nat x) eqn:E; [lia|]. reflexivity.
    + cbn [lset length]. destruct (Z.to_nat x) as [|n] eqn:E.
      * cbn [nth]. destruct (Z.eqb_spec x (Z.of_nat (S i))); [lia|reflexivity].
      * cbn [nth]. specialize (IH i (Z.of_nat n) ltac:(lia)). rewrite Nat2Z.id in IH. rewrite IH.
        destruct (Z.eqb_spec (Z.of_nat n) (Z.of_nat i)); destruct (Z.eqb_spec x (Z.of_nat (S i)));
          destruct (Z.ltb_spec (Z.of_nat i) (Z.of_nat (length l))); destruct (Z.ltb_spec (Z.of_nat (S i)) (Z.of_nat (S (length l))));
          cbn [andb]; try reflexivity; lia.
Qed.

Lemma swap_at_length bit t l j : length (swap_at bit t l j) = length l.
Proof.
  unfold swap_at. destruct (j + t <? Z.of_nat (length l)); [|reflexivity].
  rewrite cswap_spec. destruct bit; now rewrite !lset_length.
Qed.

Lemma swap_at_get bit t l j x : 0 <= j -> 0 < t -> 0 <= x ->
  lget (swap_at bit t l j) x =
    if bit && (j + t <? Z.of_nat (length l)) then
      (if x =? j then lget l (j + t) else if x =? j + t then lget l j else lget l x)
    else lget l x.
Proof.
  intros Hj Ht Hx. unfold swap_at. destruct (Z.ltb_spec (j + t) (Z.of_nat (length l))) as [Hlt|]; [|now rewrite andb_false_r].
  rewrite cswap_spec, andb_true_r. destruct bit.
  - rewrite !lget_lset by lia. rewrite lset_length, !Z2Nat.id by lia.
    destruct (Z.eqb_spec x (j + t)); destruct (Z.eqb_spec x j); destruct (Z.ltb_spec (j + t) (Z.of_nat (length l)));
      destruct (Z.ltb_spec j (Z.of_nat (length l))); cbn [andb]; try reflexivity; lia.
  - rewrite !lget_lset by lia. rewrite lset_length, !Z2Nat.id by lia.
    destruct (Z.eqb_spec x (j + t)); destruct (Z.eqb_spec x j); destruct (Z.ltb_spec (j + t) (Z.of_nat (length l)));
      destruct (Z.ltb_spec j (Z.of_nat (length l))); cbn [andb]; try reflexivity; try (f_equal; lia); lia.
Qed.

(* after the first k pairs of a level: the pairs below k are decided, the rest of the vector is untouched *)
Lemma retr_fold bit t l k : 0 < t -> Z.of_nat k <= t ->
  let l' := fold_left (swap_at bit t) (zseq 0 k) l in
  length l' = length l /\
  (forall x, 0 <= x < Z.of_nat k -> lget l' x = if bit && (x + t <? Z.of_nat (length l)) then lget l (x + t) else lget l x) /\
  (forall x, Z.of_nat k <= x < t \/ t + Z.of_nat k <= x -> lget l' x = lget l x).
Proof.
  intros Ht. induction k as [|k IH]; intros Hk; cbv zeta.
  - cbn [zseq fold_left]. repeat split; auto. intros; lia.
  - rewrite zseq_app, fold_left_app. cbn [fold_left]. rewrite Z.add_0_l.
    destruct (IH ltac:(lia)) as (Hlen & Hlow & Hrest). set (lk := fold_left (swap_at bit t) (zseq 0 k) l) in *.
    split; [rewrite swap_at_length; exact Hlen|]. split.
    + intros x Hx. rewrite swap_at_get by lia. rewrite Hlen.
      destruct (Z.eqb_spec x (Z.of_nat k)) as [->|Hne].
      * rewrite (Hrest (Z.of_nat k + t)) by lia. rewrite (Hrest (Z.of_nat k)) by lia.
        destruct (bit && (Z.of_nat k + t <? Z.of_nat (length l))); reflexivity.
      * destruct (Z.eqb_spec x (Z.of_nat k + t)); [lia|]. rewrite Hlow by lia.
        destruct (bit && (Z.of_nat k + t <? Z.of_nat (length l))); reflexivity.
    + intros x Hx. rewrite swap_at_get by lia.
      destruct (Z.eqb_spec x (Z.of_nat k)); [lia|]. destruct (Z.eqb_spec x (Z.of_nat k + t)); [lia|].
      rewrite Hrest by lia. destruct (bit && (Z.of_nat k + t <? Z.of_nat (length lk))); reflexivity.
Qed.

Lemma retr_levels_index kw rsh mask : 0 <= rsh -> rsh + mask <= 32 ->
  forall cnt i l, i + Z.of_nat cnt = mask -> 0 <= i ->
    (kw / 2 ^ rsh) mod 2 ^ Z.of_nat cnt < Z.of_nat (length l) ->
    exists l', fold_left (retr_level (bits_of 32 kw) rsh mask) (zseq i cnt) (Some l) = Some l' /\
               length l' = length l /\ lget l' 0 = lget l ((kw / 2 ^ rsh) mod 2 ^ Z.of_nat cnt).
Proof.
  intros Hrsh Hle. induction cnt as [|c IH]; intros i l Hi Hi0 Hidx.
  - exists l; repeat split; auto. cbn. now rewrite Z.mod_1_r.
  - cbn [zseq fold_left retr_level]. rewrite kbit_bits_of by (cbn; lia).
    set (t := Z.shiftl 1 (mask - i - 1)). set (bit := Z.testbit kw (rsh + mask - i - 1)).
    assert (Et : t = 2 ^ Z.of_nat c) by (unfold t; rewrite Z.shiftl_mul_pow2 by lia; rewrite Z.mul_1_l; f_equal; lia).
    assert (Htp : 0 < t) by (rewrite Et; apply Z.pow_pos_nonneg; lia).
    destruct (retr_fold bit t l (Z.to_nat t) Htp ltac:(lia)) as (Hlen & Hlow & _).
    set (l1 := fold_left (swap_at bit t) (zseq 0 (Z.to_nat t)) l) in *.
    set (lowidx := (kw / 2 ^ rsh) mod 2 ^ Z.of_nat c).
    assert (Hlowr : 0 <= lowidx < t) by (unfold lowidx; rewrite Et; apply Z.mod_pos_bound; rewrite <- Et; lia).
    assert (Esplit : (kw / 2 ^ rsh) mod 2 ^ Z.of_nat (S c) = lowidx + Z.b2z bit * t).
    { rewrite (field_split (kw / 2 ^ rsh) (Z.of_nat (S c))) by lia.
      replace (Z.of_nat (S c) - 1) with (Z.of_nat c) by lia. fold lowidx. rewrite <- Et.
      unfold bit. rewrite Z.div_pow2_bits by lia. replace (Z.of_nat c + rsh) with (rsh + mask - i - 1) by lia. reflexivity. }
    rewrite Esplit in *.
    destruct (IH (i + 1) l1 ltac:(lia) ltac:(lia)) as (l' & El & Hl'len & Hl'0).
    { fold lowidx. rewrite Hlen. destruct bit; cbn [Z.b2z] in Hidx; lia. }
    exists l'; split; [exact El|]. split; [lia|]. rewrite Hl'0. fold lowidx.
    rewrite Hlow by (rewrite Z2Nat.id; lia).
    destruct bit; cbn [Z.b2z andb] in *.
    + destruct (Z.ltb_spec (lowidx + t) (Z.of_nat (length l))); [f_equal; lia | lia].
    + f_equal; lia.
Qed.

(* after glwe_blind_retrieval_statefull, slot 0 holds the element at (k >> bit_rsh) mod 2^bit_mask, provided that
   index is inside the vector; the length never changes *)
Lemma retrieval_index kw rsh mask l : 0 <= rsh -> 0 <= mask -> rsh + mask <= 32 ->
  (kw / 2 ^ rsh) mod 2 ^ mask < Z.of_nat (length l) ->
  exists l', blind_retrieval (bits_of 32 kw) rsh mask l = Some l' /\ length l' = length l /\
             lget l' 0 = lget l ((kw / 2 ^ rsh) mod 2 ^ mask).
Proof.
  intros Hr Hm Hle Hidx. unfold blind_retrieval.
  destruct (retr_levels_index kw rsh mask Hr Hle (Z.to_nat mask) 0 l ltac:(lia) ltac:(lia)) as (l' & E & Hlen & H0).
  - rewrite Z2Nat.id by lia. exact Hidx.
  - exists l'. rewrite Z2Nat.id in H0 by lia. auto.
Qed.

(* ------------------------------------------------------------------------------------------------ *)
(** * blind rotation: the exponent is +-((k >> bit_rsh) mod 2^bit_mask) << bit_lsh *)

Lemma p_rot_rot n a b q j : 0 < n -> p_rot n a (p_rot n b q) j = p_rot n (a + b) q j.
Proof.
  intros Hn. unfold p_rot. cbv zeta.
  set (q1 := (j - a) / n). set (s1 := (j - a) mod n).
  set (q2 := (s1 - b) / n). set (s2 := (s1 - b) mod n).
  assert (H1 : j - a = n * q1 + s1) by (apply Z.div_mod; lia).
  assert (H2 : s1 - b = n * q2 + s2) by (apply Z.div_mod; lia).
  assert (R2 : 0 <= s2 < n) by (apply Z.mod_pos_bound; lia).
  destruct (div_mod_small (j - (a + b)) n (q1 + q2) s2 Hn R2 ltac:(lia)) as [-> ->].
  rewrite Z.even_add. destruct (Z.even q1), (Z.even q2); cbn; lia.
Qed.

Fixpoint rot_amount (kw rsh lsh i : Z) (cnt : nat) : Z :=
  match cnt with
  | O => 0
  | S c => (if Z.testbit kw (i + rsh) then 2 ^ (i + lsh) else 0) + rot_amount kw rsh lsh (i + 1) c
  end.

Lemma rot_amount_closed kw rsh lsh : 0 <= rsh -> 0 <= lsh -> forall cnt i, 0 <= i ->
  rot_amount kw rsh lsh i cnt = 2 ^ lsh * (2 ^ i * ((kw / 2 ^ (rsh + i)) mod 2 ^ Z.of_nat cnt)).
Proof.
  intros Hr Hl. induction cnt as [|c IH]; intros i Hi.
  - cbn. rewrite Z.mod_1_r. ring.
  - cbn [rot_amount]. rewrite IH by lia.
    set (x := kw / 2 ^ (rsh + i)).
    assert (Ex : kw / 2 ^ (rsh + (i + 1)) = x / 2).
    { unfold x. replace (rsh + (i + 1)) with ((rsh + i) + 1) by lia. rewrite Z.pow_add_r by lia.
      change (2 ^ 1) with 2. rewrite Z.div_div by (try apply Z.pow_pos_nonneg; lia). reflexivity. }
    rewrite Ex. rewrite Nat2Z.inj_succ, Z.pow_succ_r by lia.
    assert (Hp : 0 < 2 ^ Z.of_nat c) by (apply Z.pow_pos_nonneg; lia).
    rewrite (Z.rem_mul_r x 2 (2 ^ Z.of_nat c)) by lia.
    assert (Eb : Z.b2z (Z.testbit kw (i + rsh)) = x mod 2).
    { unfold x. rewrite Z.testbit_spec' by lia. f_equal. f_equal. f_equal. lia. }
    rewrite (Z.pow_add_r 2 i lsh), (Z.pow_add_r 2 i 1) by lia. change (2 ^ 1) with 2.
    destruct (Z.testbit kw (i + rsh)); cbn [Z.b2z] in Eb; rewrite <- Eb; ring.
Qed.

Lemma blind_rot_loop_spec n kw sign rsh lsh : 0 < n -> 0 <= rsh -> 0 <= lsh -> forall cnt i a, 0 <= i -> i + rsh + Z.of_nat cnt <= 32 ->
  exists r, blind_rot_loop n (bits_of 32 kw) sign rsh lsh i cnt a = Some r /\
            forall j, 0 <= j < n -> r j = p_rot n ((if sign then 1 else -1) * rot_amount kw rsh lsh i cnt) a j.
Proof.
  intros Hn Hr Hl. induction cnt as [|c IH]; intros i a Hi Hle.
  - exists a; split; [reflexivity|]. intros j Hj. cbn [rot_amount]. rewrite Z.mul_0_r.
    unfold p_rot. cbv zeta. rewrite Z.sub_0_r, Z.div_small, Z.mod_small by lia. reflexivity.
  - cbn [blind_rot_loop]. rewrite kbit_bits_of by (cbn; lia).
    rewrite Z.shiftl_mul_pow2, Z.mul_1_l by lia. set (bit := Z.testbit kw (i + rsh)).
    destruct (IH (i + 1) (if bit then p_rot n (if sign then 2 ^ (i + lsh) else - 2 ^ (i + lsh)) a else a) ltac:(lia) ltac:(lia))
      as (r & Er & Hr').
    exists r; split; [exact Er|]. intros j Hj. rewrite Hr' by auto. cbn [rot_amount]. fold bit.
    destruct bit.
    + rewrite p_rot_rot by auto. f_equal; try (destruct sign; ring).
    + f_equal; try (destruct sign; ring).
Qed.

(* glwe_blind_rotation(a, k, sign, bit_rsh, bit_mask, bit_lsh) = a * X^(+-((k >> bit_rsh) mod 2^bit_mask) << bit_lsh) *)
Lemma blind_rotation_amount n kw sign rsh mask lsh a : 0 < n -> 0 <= rsh -> 0 <= mask -> 0 <= lsh -> rsh + mask <= 32 ->
  exists r, glwe_blind_rotation n (bits_of 32 kw) sign rsh mask lsh a = Some r /\
            forall j, 0 <= j < n ->
              r j = p_rot n ((if sign then 1 else -1) * (((kw / 2 ^ rsh) mod 2 ^ mask) * 2 ^ lsh)) a j.
Proof.
  intros Hn Hr Hm Hl Hle. unfold glwe_blind_rotation.
  destruct (blind_rot_loop_spec n kw sign rsh lsh Hn Hr Hl (Z.to_nat mask) 0 a ltac:(lia) ltac:(lia)) as (r & Er & Hr').
  exists r; split; [exact Er|]. intros j Hj. rewrite Hr' by auto.
  rewrite rot_amount_closed by lia. rewrite Z2Nat.id, Z.add_0_r by lia. change (2 ^ 0) with 1. f_equal. ring.
Qed.
