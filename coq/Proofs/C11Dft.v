(* C11 for the DFT-domain operations of C07 (run_c07 returns the selected output column only):
   - the output is a function of the SELECTED input columns (limbs < size), sizes and parameters: nothing else of the
     input buffers (other columns, limbs beyond the size, spare capacity) is read;
   - every limb j < rsize of the output is produced: the flat output has exactly rsize * n words. *)
From PV Require Import Base.MachineInt Model.Znx Model.Limbs Model.Flat Model.Ring Model.DftAbs Model.C07Run
  Proofs.C11Frame Proofs.C11Read Proofs.C07Dft Proofs.C07Ring Proofs.C07Shape.
From Coq Require Import Arith PeanoNat List Bool.
Open Scope Z_scope.

Definition c07_codes : list Z := [7001; 7002; 7003; 7004; 7005; 7006; 7007; 7008; 7009; 7010; 7011; 7012].
Definition c07_vmp_codes : list Z := [7020; 7021].

(* what each operation reads: selected columns (all their active limbs) / the scalar limb *)
Definition c07_sel (code : Z) (ps : list Z) (vs : list (list Z)) : list plimbs :=
  let n := np ps 1 in
  let rsz := np ps 3 in
  let acols := np ps 5 in let asz := np ps 6 in let acol := np ps 7 in
  let bcols := np ps 8 in let bsz := np ps 9 in let bcol := np ps 10 in
  let a := colof n acols asz acol (v vs 0) in
  let b := colof n bcols bsz bcol (v vs 1) in
  let r0 := colof n 1 rsz 0 (v vs 1) in
  let s := [limb_at n acols (v vs 0) acol 0] in
  match code with
  | 7001 | 7002 => [a]
  | 7003 | 7004 => [a; b]
  | 7005 | 7006 | 7007 | 7008 => [a; r0]
  | 7010 | 7011 => [s; b]
  | 7012 => [s; r0]
  | _ => []
  end.

Ltac c07_cases Hin tac :=
  cbn [In] in Hin;
  repeat (destruct Hin as [Hc | Hin]; [subst; tac |]);
  try contradiction.

Theorem c07_depends code ps vs1 vs2 :
  In code c07_codes -> c07_sel code ps vs1 = c07_sel code ps vs2 ->
  run_c07 code ps vs1 = run_c07 code ps vs2.
Proof.
  intros Hin H. unfold c07_codes in Hin.
  c07_cases Hin ltac:(
    cbv beta iota zeta delta [run_c07 c07_sel] in H |- *;
    try (injection H; intros); congruence).
Qed.

(* the a-operand: two buffers that agree on the selected column (limbs < asize) *)
Corollary c07_depends_a code ps a1 a2 rest :
  In code [7001; 7002; 7003; 7004; 7005; 7006; 7007; 7008; 7009] ->
  colof (np ps 1) (np ps 5) (np ps 6) (np ps 7) a1 = colof (np ps 1) (np ps 5) (np ps 6) (np ps 7) a2 ->
  run_c07 code ps (a1 :: rest) = run_c07 code ps (a2 :: rest).
Proof.
  intros Hin H. apply c07_depends.
  - unfold c07_codes. cbn [In] in *. intuition.
  - c07_cases Hin ltac:(cbv beta iota zeta delta [c07_sel v nth]; rewrite ?H; reflexivity).
Qed.

(* svp: the scalar is limb 0 of column acol of the prepared scalar *)
Corollary c07_depends_svp code ps a1 a2 rest :
  In code [7010; 7011; 7012] ->
  limb_at (np ps 1) (np ps 5) a1 (np ps 7) 0 = limb_at (np ps 1) (np ps 5) a2 (np ps 7) 0 ->
  run_c07 code ps (a1 :: rest) = run_c07 code ps (a2 :: rest).
Proof.
  intros Hin H. apply c07_depends.
  - unfold c07_codes. cbn [In] in *. intuition.
  - c07_cases Hin ltac:(cbv beta iota zeta delta [c07_sel v nth]; rewrite ?H; reflexivity).
Qed.

(* the second operand (b column, or the prior content of the in-place destination) *)
Corollary c07_depends_b code ps a b1 b2 rest :
  In code c07_codes ->
  colof (np ps 1) (np ps 8) (np ps 9) (np ps 10) b1 = colof (np ps 1) (np ps 8) (np ps 9) (np ps 10) b2 ->
  colof (np ps 1) 1 (np ps 3) 0 b1 = colof (np ps 1) 1 (np ps 3) 0 b2 ->
  run_c07 code ps (a :: b1 :: rest) = run_c07 code ps (a :: b2 :: rest).
Proof.
  intros Hin Hb Hr. apply c07_depends; [exact Hin|]. unfold c07_codes in Hin.
  c07_cases Hin ltac:(cbv beta iota zeta delta [c07_sel v nth]; rewrite ?Hb, ?Hr; reflexivity).
Qed.

(* ---------- vmp: depends on the limbs of a and of the matrix that the shape rule selects ---------- *)
Lemma fold_left_ext_seq (A : Type) (f g : A -> nat -> A) m (s : A) :
  (forall t q, (q < m)%nat -> f t q = g t q) -> fold_left f (seq 0 m) s = fold_left g (seq 0 m) s.
Proof.
  intros H. induction m as [|m IH]; [reflexivity|].
  rewrite seq_S, !fold_left_app. cbn [fold_left Nat.add]. rewrite IH by (intros; apply H; lia). apply H. lia.
Qed.

Lemma vmp_ext n rcols rsz acols asz rows msize lo aflat aflat' mflat mflat' c :
  (forall q, (q < Nat.min (acols * rows) (acols * asz))%nat -> aflat q = aflat' q) ->
  (forall q c', (q < Nat.min (acols * rows) (acols * asz))%nat -> mflat q c' = mflat' q c') ->
  vmp n rcols rsz acols asz rows msize lo aflat mflat c = vmp n rcols rsz acols asz rows msize lo aflat' mflat' c.
Proof.
  intros Ha Hm. unfold vmp. cbv zeta.
  destruct (Nat.leb _ _); [reflexivity|]. destruct (Nat.ltb _ _); [|reflexivity].
  apply fold_left_ext_seq. intros t q Hq. rewrite Ha, Hm by exact Hq. reflexivity.
Qed.

Theorem c07_vmp_depends code ps vs1 vs2 :
  In code c07_vmp_codes ->
  let n := np ps 1 in let rcols := np ps 2 in let acols := np ps 5 in let asz := np ps 6 in
  let rows := nex ps 0 in let msize := nex ps 1 in
  let row_max := Nat.min (acols * rows) (acols * asz) in
  (forall q, (q < row_max)%nat ->
     limb_at n acols (v vs1 0) (q mod acols) (q / acols) = limb_at n acols (v vs2 0) (q mod acols) (q / acols)) ->
  (forall q c, (q < row_max)%nat ->
     limb_at n rcols (skipn (q * (n * rcols * msize)) (v vs1 1)) (c mod rcols) (c / rcols) =
     limb_at n rcols (skipn (q * (n * rcols * msize)) (v vs2 1)) (c mod rcols) (c / rcols)) ->
  run_c07 code ps vs1 = run_c07 code ps vs2.
Proof.
  intros Hin n rcols acols asz rows msize row_max Ha Hm. unfold c07_vmp_codes in Hin.
  c07_cases Hin ltac:(
    cbv beta iota zeta delta [run_c07]; do 2 f_equal;
    apply (f_equal (@concat Z)); apply map_ext; intros co;
    apply (f_equal (@concat Z)); apply map_ext; intros j;
    apply vmp_ext; [exact Ha|exact Hm]).
Qed.

(* ---------- every output limb is produced: length of the output ---------- *)
Lemma flat_map_length (A : Type) n (g : A -> list Z) (l : list A) :
  (forall x, In x l -> length (g x) = n) -> length (concat (map g l)) = (length l * n)%nat.
Proof.
  induction l as [|x l IH]; intros H; cbn [map concat length]; [reflexivity|].
  rewrite app_length, IH, (H x) by (try (intros; apply H; right; assumption); left; reflexivity). lia.
Qed.

Lemma flat_mk_length n rsz f :
  (forall j, (j < rsz)%nat -> length (f j) = n) -> length (flat (mk rsz f)) = (rsz * n)%nat.
Proof.
  intros H. unfold flat, mk. rewrite (flat_map_length _ n) by (intros j Hj; apply in_seq in Hj; apply H; lia).
  rewrite seq_length. reflexivity.
Qed.

Lemma colof_length n cols size col d : length (colof n cols size col d) = size.
Proof. apply col_limbs_length. Qed.

Lemma colof_wf n cols size col d :
  (col < cols)%nat -> (n * cols * size <= length d)%nat -> wf n (colof n cols size col d).
Proof.
  intros Hc Hd j Hj. rewrite colof_length in Hj. unfold lim, colof.
  rewrite col_limbs_nth by exact Hj. apply limb_at_length. apply (limb_fits n cols size); assumption.
Qed.

Ltac ifs :=
  repeat match goal with
  | |- context [Nat.ltb ?a ?b] => destruct (Nat.ltb_spec a b)
  | |- context [Nat.leb ?a ?b] => destruct (Nat.leb_spec a b)
  end; cbn [andb].

Ltac lens Ha Hb :=
  rewrite ?padd_length, ?psub_length, ?pneg_length, ?pmul_length, ?pzero_length;
  rewrite ?Ha, ?Hb by lia; rewrite ?pzero_length; try lia; try reflexivity.

Section Lengths.
Variables (n : nat) (a b : plimbs).
Hypothesis Ha : wf n a.
Hypothesis Hb : wf n b.

Lemma dft_select_flat_length rsz step offset :
  length (flat (dft_select n rsz step offset a)) = (rsz * n)%nat.
Proof. unfold dft_select. cbv zeta. apply flat_mk_length. intros j Hj. ifs; lens Ha Hb. Qed.

Lemma dft_add_flat_length rsz : length (flat (dft_add n rsz a b)) = (rsz * n)%nat.
Proof. unfold dft_add. cbv zeta. apply flat_mk_length. intros j Hj. ifs; lens Ha Hb. Qed.

Lemma dft_sub_flat_length rsz : length (flat (dft_sub n rsz a b)) = (rsz * n)%nat.
Proof. unfold dft_sub. cbv zeta. apply flat_mk_length. intros j Hj. ifs; lens Ha Hb. Qed.

(* in-place forms: b plays the role of the prior destination column *)
Lemma dft_add_assign_flat_length : length (flat (dft_add_assign a b)) = (length b * n)%nat.
Proof. unfold dft_add_assign. apply flat_mk_length. intros j Hj. ifs; lens Ha Hb. Qed.

Lemma dft_sub_assign_flat_length : length (flat (dft_sub_assign a b)) = (length b * n)%nat.
Proof. unfold dft_sub_assign. apply flat_mk_length. intros j Hj. ifs; lens Ha Hb. Qed.

Lemma dft_sub_negate_assign_flat_length : length (flat (dft_sub_negate_assign a b)) = (length b * n)%nat.
Proof. unfold dft_sub_negate_assign. apply flat_mk_length. intros j Hj. ifs; lens Ha Hb. Qed.

Lemma dft_add_scaled_assign_flat_length scale :
  length (flat (dft_add_scaled_assign scale a b)) = (length b * n)%nat.
Proof.
  unfold dft_add_scaled_assign. cbv zeta.
  destruct (0 <? scale); [|destruct (scale <? 0)].
  - apply flat_mk_length. intros j Hj. ifs; lens Ha Hb.
  - apply flat_mk_length. intros j Hj. ifs; lens Ha Hb.
  - apply dft_add_assign_flat_length.
Qed.

Lemma svp_apply_flat_length rsz s : length s = n -> length (flat (svp_apply n rsz s b)) = (rsz * n)%nat.
Proof. intros Hs. unfold svp_apply. apply flat_mk_length. intros j Hj. ifs; lens Ha Hb. Qed.

Lemma svp_apply_assign_flat_length s : length s = n -> length (flat (svp_apply_assign s b)) = (length b * n)%nat.
Proof.
  intros Hs. unfold svp_apply_assign, flat. apply flat_map_length. intros x _. rewrite pmul_length. exact Hs.
Qed.
End Lengths.

Lemma zero_flat_length n rsz : length (flat (mk rsz (fun _ => pzero n))) = (rsz * n)%nat.
Proof. apply flat_mk_length. intros. apply pzero_length. Qed.

(* the buffers hold the columns they are declared to hold *)
Definition c07_fits (code : Z) (ps : list Z) (vs : list (list Z)) : Prop :=
  let n := np ps 1 in
  let rsz := np ps 3 in
  let acols := np ps 5 in let asz := np ps 6 in let acol := np ps 7 in
  let bcols := np ps 8 in let bsz := np ps 9 in let bcol := np ps 10 in
  let fa := (acol < acols /\ n * acols * asz <= length (v vs 0))%nat in
  let fb := (bcol < bcols /\ n * bcols * bsz <= length (v vs 1))%nat in
  let fr := (n * 1 * rsz <= length (v vs 1))%nat in
  let fs := (n * acol + n <= length (v vs 0))%nat in
  match code with
  | 7001 | 7002 => fa
  | 7003 | 7004 => fa /\ fb
  | 7005 | 7006 | 7007 | 7008 => fa /\ fr
  | 7009 => True
  | 7010 | 7011 => fs /\ fb
  | 7012 => fs /\ fr
  | _ => False
  end.

Lemma scalar_limb_length n acols d acol :
  (n * acol + n <= length d)%nat -> length (limb_at n acols d acol 0) = n.
Proof. intros H. apply limb_at_length. cbn [Nat.mul Nat.add]. exact H. Qed.

Theorem c07_output_length code ps vs outs :
  In code c07_codes -> c07_fits code ps vs ->
  run_c07 code ps vs = Some outs ->
  exists o, outs = [o; okflags] /\ length o = (np ps 3 * np ps 1)%nat.
Proof.
  intros Hin Hf H. unfold c07_codes in Hin.
  c07_cases Hin ltac:(
    cbv beta iota zeta delta [run_c07] in H; cbv beta iota zeta delta [c07_fits] in Hf;
    inversion H; subst outs; clear H; eexists; split; [reflexivity|]).
  all: try (apply dft_select_flat_length; apply colof_wf; apply Hf).
  all: try apply zero_flat_length.
  all: destruct Hf as [Hf1 Hf2].
  all: first [ apply dft_add_flat_length | apply dft_sub_flat_length | apply svp_apply_flat_length
             | rewrite dft_add_assign_flat_length with (n := np ps 1)
             | rewrite dft_sub_assign_flat_length with (n := np ps 1)
             | rewrite dft_sub_negate_assign_flat_length with (n := np ps 1)
             | rewrite dft_add_scaled_assign_flat_length with (n := np ps 1)
             | rewrite svp_apply_assign_flat_length with (n := np ps 1) ].
  all: first [ rewrite colof_length; reflexivity
             | apply scalar_limb_length; exact Hf1
             | apply colof_wf; apply Hf1
             | apply colof_wf; apply Hf2
             | apply colof_wf; [lia|exact Hf2] ].
Qed.

(* vmp: every column, every limb *)
Lemma vmp_limb_length n rcols rsz acols asz rows msize lo aflat mflat c :
  (forall q, (q < Nat.min (acols * rows) (acols * asz))%nat -> length (aflat q) = n) ->
  length (vmp n rcols rsz acols asz rows msize lo aflat mflat c) = n.
Proof.
  intros Ha. rewrite vmp_is_sum_of_row_products.
  destruct (Nat.ltb _ _); [|apply pzero_length].
  apply psum_length. intros q Hq. rewrite pmul_length. apply Ha. exact Hq.
Qed.

Theorem c07_vmp_output_length code ps vs outs :
  In code c07_vmp_codes ->
  (np ps 1 * np ps 5 * np ps 6 <= length (v vs 0))%nat ->
  run_c07 code ps vs = Some outs ->
  exists o, outs = [o; okflags] /\ length o = (np ps 2 * (np ps 3 * np ps 1))%nat.
Proof.
  intros Hin Hfa H. unfold c07_vmp_codes in Hin.
  c07_cases Hin ltac:(
    cbv beta iota zeta delta [run_c07] in H; inversion H; subst outs; clear H; eexists; split; [reflexivity|];
    rewrite (flat_map_length _ (np ps 3 * np ps 1)); [rewrite seq_length; reflexivity|];
    intros co _; rewrite (flat_map_length _ (np ps 1)); [rewrite seq_length; reflexivity|];
    intros j _; apply vmp_limb_length; intros q Hq;
    apply limb_at_length;
    assert (Hq' : (q < np ps 5 * np ps 6)%nat) by lia;
    assert (Hac : np ps 5 <> 0%nat) by (intros E; rewrite E in Hq'; lia);
    pose proof (Nat.div_mod q (np ps 5) Hac);
    replace (q / np ps 5 * np ps 5 + q mod np ps 5)%nat with q by lia; nia).
Qed.
