(* C11, independence for the flat-memory operations built on col_op (all C08 vector operations):
   - the selected column of the result is the per-coefficient function of (selected input column, prior selected column);
   - overwriting forms (8101 normalize, 8104 lsh, 8108 rsh, 8201 big_normalize, 8204 big_normalize_negate):
     the result column is the same for ANY two destination buffers;
   - accumulate / in-place forms: same for destination buffers that agree on the selected column. *)
From PV Require Import Base.MachineInt Model.Znx Model.Limbs Model.LimbsBig Model.Flat Model.C08Run
  Proofs.C11Frame Proofs.C11Read Proofs.C11Ops Proofs.C11Coeff.
From Coq Require Import Arith PeanoNat List Bool.
Open Scope nat_scope.

Definition colsel (s : shape) (d : list Z) : list (list Z) := col_limbs (s_n s) (s_cols s) (s_size s) d (s_col s).

(* ---------- col_op = write the lifted per-coefficient function into the selected column ---------- *)
Lemma col_op_inv f rs as_ res a res' :
  col_op f rs as_ res a = Some res' ->
  exists limbs, lift_coeff f (s_n rs) (s_size rs) (colsel as_ a) (colsel rs res) = Some limbs /\
    shape_ok rs res = true /\ shape_ok as_ a = true /\
    res' = write_col (s_n rs) (s_cols rs) res (s_col rs) limbs /\ length limbs = s_size rs.
Proof.
  unfold col_op, colsel.
  destruct (shape_ok rs res) eqn:Hrs; cbn [andb]; [|discriminate].
  destruct (shape_ok as_ a) eqn:Has; cbn [andb]; [|discriminate].
  destruct (Nat.eqb (s_n rs) (s_n as_)); [|discriminate].
  destruct (lift_coeff _ _ _ _ _) as [limbs|] eqn:Hl; [|discriminate].
  intros H; inversion H; subst res'. exists limbs. repeat split.
  apply (lift_coeff_length _ _ _ _ _ _ Hl).
Qed.

Theorem col_op_column f rs as_ res a res' :
  col_op f rs as_ res a = Some res' ->
  exists limbs, lift_coeff f (s_n rs) (s_size rs) (colsel as_ a) (colsel rs res) = Some limbs /\
    colsel rs res' = map (pad (s_n rs)) limbs.
Proof.
  intros H. destruct (col_op_inv f rs as_ res a res' H) as (limbs & Hl & Hrs & _ & -> & Hlen).
  exists limbs. split; [exact Hl|].
  destruct (shape_ok_facts rs res Hrs) as (Hc & Hs & Hd).
  unfold colsel. apply write_col_read_pad; [exact Hc|exact Hlen|].
  rewrite Hd. apply Nat.mul_le_mono_l. exact Hs.
Qed.

(* the limbs produced by lift_coeff have n words each: the read-back is exact when f keeps the number of limbs *)
Lemma sequence_length (A : Type) (l : list (option A)) r : sequence l = Some r -> length r = length l.
Proof.
  revert r; induction l as [|[x|] l IH]; intros r H; cbn [sequence] in H; try discriminate.
  - inversion H. reflexivity.
  - destruct (sequence l) as [t|]; [|discriminate]. inversion H. cbn [length]. rewrite (IH t eq_refl). reflexivity.
Qed.

Lemma lift_coeff_limb_length f n rsize al rl limbs :
  lift_coeff f n rsize al rl = Some limbs -> Forall (fun l => length l = n) limbs.
Proof.
  unfold lift_coeff. destruct (sequence _) as [cs|] eqn:Hs; [|discriminate].
  intros H; inversion H; subst limbs. apply sequence_length in Hs.
  rewrite map_length, combine_length in Hs. unfold transpose in Hs. rewrite !map_length, !seq_length, Nat.min_id in Hs.
  unfold untranspose. apply Forall_forall. intros l Hin. apply in_map_iff in Hin as (j & <- & _).
  rewrite map_length. exact Hs.
Qed.

Theorem col_op_column_exact f rs as_ res a res' :
  col_op f rs as_ res a = Some res' ->
  lift_coeff f (s_n rs) (s_size rs) (colsel as_ a) (colsel rs res) = Some (colsel rs res').
Proof.
  intros H. destruct (col_op_column f rs as_ res a res' H) as (limbs & Hl & ->).
  rewrite map_pad_id; [exact Hl|]. apply (lift_coeff_limb_length f _ _ _ _ _ Hl).
Qed.

(* ---------- agreement on the selected columns => same result column (every form) ---------- *)
Theorem col_op_agree f rs as_ res1 a1 res2 a2 res1' res2' :
  colsel as_ a1 = colsel as_ a2 -> colsel rs res1 = colsel rs res2 ->
  col_op f rs as_ res1 a1 = Some res1' -> col_op f rs as_ res2 a2 = Some res2' ->
  colsel rs res1' = colsel rs res2'.
Proof.
  intros Ha Hr H1 H2.
  destruct (col_op_column _ _ _ _ _ _ H1) as (l1 & E1 & ->).
  destruct (col_op_column _ _ _ _ _ _ H2) as (l2 & E2 & ->).
  rewrite Ha, Hr in E1. rewrite E1 in E2. inversion E2. reflexivity.
Qed.

(* ---------- overwriting forms ---------- *)
(* f looks at the prior limbs of a coefficient only through their number *)
Definition len_only (f : list Z -> list Z -> option (list Z)) : Prop :=
  forall x r r', length r = length r' -> f x r = f x r'.

Lemma combine_map_same (A B C : Type) (F : C -> A) (G : C -> B) (l : list C) :
  combine (map F l) (map G l) = map (fun i => (F i, G i)) l.
Proof. induction l as [|x l IH]; cbn [map combine]; [reflexivity|]. rewrite IH. reflexivity. Qed.

Lemma lift_coeff_len_only f n rsize al (rl rl' : list (list Z)) :
  len_only f -> length rl = length rl' -> lift_coeff f n rsize al rl = lift_coeff f n rsize al rl'.
Proof.
  intros Hf Hl. unfold lift_coeff, transpose.
  rewrite !combine_map_same, !map_map. cbn [fst snd].
  rewrite (map_ext_in _ (fun i => f (map (fun l => nthZ l i) al) (map (fun l => nthZ l i) rl'))); [reflexivity|].
  intros i _. apply Hf. rewrite !map_length. exact Hl.
Qed.

Theorem col_op_overwrite f rs as_ res1 a1 res2 a2 res1' res2' :
  len_only f -> colsel as_ a1 = colsel as_ a2 ->
  col_op f rs as_ res1 a1 = Some res1' -> col_op f rs as_ res2 a2 = Some res2' ->
  colsel rs res1' = colsel rs res2'.
Proof.
  intros Hf Ha H1 H2.
  destruct (col_op_column _ _ _ _ _ _ H1) as (l1 & E1 & ->).
  destruct (col_op_column _ _ _ _ _ _ H2) as (l2 & E2 & ->).
  rewrite Ha in E1.
  rewrite (lift_coeff_len_only f _ _ _ (colsel rs res1) (colsel rs res2) Hf) in E1
    by (unfold colsel; rewrite !col_limbs_length; reflexivity).
  rewrite E1 in E2. inversion E2. reflexivity.
Qed.

(* ---------- the C08 opcodes ---------- *)
Definition c08_overwrite_codes : list Z := [8101; 8104; 8108; 8201; 8204]%Z.
Definition c08_accum_codes : list Z := [8102; 8103; 8105; 8106; 8107; 8109; 8110; 8202; 8203]%Z.

Ltac eval_lit_eqb :=
  repeat match goal with
  | |- context [Z.eqb (Zpos ?a) (Zpos ?b)] =>
      let v := eval vm_compute in (Z.eqb (Zpos a) (Zpos b)) in change (Z.eqb (Zpos a) (Zpos b)) with v
  end; cbv iota.

Theorem c08_indep_agree code ps res1 res2 rest res1' res2' :
  In code c08_flat_codes ->
  colsel (rshape ps) res1 = colsel (rshape ps) res2 ->
  run_c08_vec code ps (res1 :: rest) = Some [res1'] ->
  run_c08_vec code ps (res2 :: rest) = Some [res2'] ->
  colsel (rshape ps) res1' = colsel (rshape ps) res2'.
Proof.
  intros Hin Hag H1 H2. unfold c08_flat_codes in Hin. cbn [In] in Hin.
  repeat (destruct Hin as [Hc | Hin];
          [subst code; cbv beta iota zeta delta [run_c08_vec v nth] in H1, H2;
           apply one_inv in H1; apply one_inv in H2;
           refine (col_op_agree _ _ _ _ _ _ _ _ _ _ Hag H1 H2); first [reflexivity | exact Hag] |]).
  contradiction.
Qed.

Theorem c08_indep_overwrite code ps res1 res2 rest res1' res2' :
  In code c08_overwrite_codes ->
  run_c08_vec code ps (res1 :: rest) = Some [res1'] ->
  run_c08_vec code ps (res2 :: rest) = Some [res2'] ->
  colsel (rshape ps) res1' = colsel (rshape ps) res2'.
Proof.
  intros Hin H1 H2. unfold c08_overwrite_codes in Hin. cbn [In] in Hin.
  repeat (destruct Hin as [Hc | Hin];
          [subst code; cbv beta iota zeta delta [run_c08_vec v nth] in H1, H2;
           apply one_inv in H1; apply one_inv in H2;
           refine (col_op_overwrite _ _ _ _ _ _ _ _ _ _ eq_refl H1 H2);
           intros x r r' Hl; cbv beta |]);
  [ | | | | | contradiction].
  - (* 8101 normalize *) apply normalize_indep. exact Hl.
  - (* 8104 lsh, overwrite *) f_equal. apply lsh_ov_indep. exact Hl.
  - (* 8108 rsh, overwrite *) f_equal. apply rsh_ov_indep. exact Hl.
  - (* 8201 big normalize *) eval_lit_eqb. rewrite (map_const_length _ _ 0%Z r r' Hl). reflexivity.
  - (* 8204 big normalize, negated *) eval_lit_eqb. rewrite (map_const_length _ _ 0%Z r r' Hl). reflexivity.
Qed.
