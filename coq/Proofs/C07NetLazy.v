(* C07 butterfly networks, lazy arithmetic: for each primitive (split_precompmul, modq_red, the butterfly lanes)
   - the exact integer value (W = id) is congruent to the ideal value mod q, for every integer input,
   - under an upper bound on the inputs no u64 operation wraps, the wrapped value equals the exact value, and the
     outputs obey the next upper bound;
   then the same for blocks, levels and whole chains of levels (forward: one bound for all entries; inverse: a bound
   for the head of every block and one for the other entries). *)
From PV Require Import Base.MachineInt Model.DftAbs Model.C07Ntt120 Model.C07NttNet Proofs.C07Ring
  Proofs.C07NetBase Proofs.C07NetStruct.
From Coq Require Import Morphisms Setoid.
Open Scope Z_scope.

Definition idz (v : Z) : Z := v.
Ltac unidz := repeat match goal with |- context [idz ?v] => change (idz v) with v end.
Definition rng (U v : Z) : Prop := 0 <= v <= U.

(* ---------------- static well-formedness of the metadata ---------------- *)
Definition rm_wf (q : Z) (rm : redmeta) : Prop :=
  0 <= rm_h rm /\ rm_mask rm = 2 ^ rm_h rm - 1 /\ 0 <= rm_cst rm /\ cong q (rm_cst rm) (2 ^ rm_h rm).
Definition sm_wf (q : Z) (sm : stepmeta) : Prop :=
  0 <= sm_hb sm /\ sm_mask sm = 2 ^ sm_hb sm - 1 /\ 0 <= sm_q2bs sm /\ cong q (sm_q2bs sm) 0.
(* a packed twiddle word: low 32 bits t, high bits t1, both below q *)
Definition word_ok (q po : Z) : Prop := 0 <= po /\ po mod 2 ^ 32 <= q - 1 /\ po / 2 ^ 32 <= q - 1.
(* its value: t = v and t1 = v 2^hb modulo q *)
Definition word_val (q hb po v : Z) : Prop := cong q (po mod 2 ^ 32) v /\ cong q (po / 2 ^ 32) (po mod 2 ^ 32 * 2 ^ hb).

Lemma word_ok_0 q : 1 <= q -> word_ok q 0.
Proof. intros H. unfold word_ok. rewrite Zmod_0_l, Zdiv_0_l. lia. Qed.

(* ---------------- exact values are congruent to the ideal values ---------------- *)
Section Cong.
Variable q : Z.
Local Notation "a == b" := (cong q a b) (at level 70, no associativity).

Lemma spm_cong x po hb mask v : 0 <= hb -> mask = 2 ^ hb - 1 -> word_val q hb po v ->
  spm idz x po hb mask == x * v.
Proof.
  intros Hhb -> [Ht Ht1]. unfold spm, idz. rewrite land_mask, land_ones32, !hi_div by lia.
  rewrite Ht1. rewrite (Z.div_mod x (2 ^ hb)) at 3 by (pose proof (pow2_pos hb Hhb); lia).
  rewrite <- Ht. ring_simplify. reflexivity.
Qed.
Lemma mred_cong x rm : rm_wf q rm -> mred idz x (rm_h rm) (rm_mask rm) (rm_cst rm) == x.
Proof.
  intros [Hh [Hm [_ Hc]]]. unfold mred, idz. rewrite Hm, land_mask, hi_div by lia. rewrite Hc.
  rewrite (Z.div_mod x (2 ^ rm_h rm)) at 3 by (pose proof (pow2_pos _ Hh); lia). ring_simplify. reflexivity.
Qed.
Lemma pre_cong x rm sm : rm_wf q rm -> pre idz rm sm x == x.
Proof. intros H. unfold pre. destruct (sm_red sm); [apply mred_cong; exact H|reflexivity]. Qed.

End Cong.

(* ---------------- bounds: no wrap, wrapped = exact, next bound ---------------- *)
Definition red_ub (rm : redmeta) (U : Z) : Z := 2 ^ rm_h rm - 1 + U / 2 ^ rm_h rm * rm_cst rm.
Definition red_chk (rm : redmeta) (U : Z) : bool := (U / 2 ^ rm_h rm * rm_cst rm <? 2 ^ 64) && (red_ub rm U <? 2 ^ 64).
Definition pre_ub (rm : redmeta) (sm : stepmeta) (U : Z) : Z := if sm_red sm then red_ub rm U else U.
Definition pre_chk (rm : redmeta) (sm : stepmeta) (U : Z) : bool := if sm_red sm then red_chk rm U else true.
Definition spm_ub (q hb U : Z) : Z := (2 ^ hb - 1 + U / 2 ^ hb) * (q - 1).

Lemma rng_w64 U v : rng U v -> U < 2 ^ 64 -> w64 v = v.
Proof. intros [? ?] ?. apply w64_small. lia. Qed.
Lemma isu_rng U v : rng U v -> U < 2 ^ 64 -> isu v = true.
Proof. intros [? ?] ?. apply isu_true. lia. Qed.

Lemma spm_safe q x po hb mask U : 0 <= hb -> mask = 2 ^ hb - 1 -> 1 <= q -> word_ok q po -> rng U x ->
  spm_ub q hb U < 2 ^ 64 ->
  spm_ok w64 x po hb mask = true /\ spm w64 x po hb mask = spm idz x po hb mask /\ rng (spm_ub q hb U) (spm idz x po hb mask).
Proof.
  intros Hhb -> Hq [Hpo [Ht Ht1]] Hx HU.
  unfold spm_ok, spm, idz. rewrite land_mask, land_ones32, !hi_div by lia.
  destruct (split_parts x hb U Hhb Hx) as [HA HB].
  assert (Hp32 : 0 < 2 ^ 32) by lia.
  assert (Ht0 : 0 <= po mod 2 ^ 32 <= q - 1) by (pose proof (Z.mod_pos_bound po (2 ^ 32) Hp32); lia).
  assert (Ht10 : 0 <= po / 2 ^ 32 <= q - 1) by (split; [apply Z.div_pos; lia|lia]).
  pose proof (mul_bounds _ _ _ _ HA Ht0) as H1. pose proof (mul_bounds _ _ _ _ HB Ht10) as H2.
  set (A := x mod 2 ^ hb * (po mod 2 ^ 32)) in *. set (B := x / 2 ^ hb * (po / 2 ^ 32)) in *.
  assert (HS : spm_ub q hb U = (2 ^ hb - 1) * (q - 1) + U / 2 ^ hb * (q - 1)) by (unfold spm_ub; ring).
  assert (HAr : 0 <= A < 2 ^ 64) by lia. assert (HBr : 0 <= B < 2 ^ 64) by lia.
  rewrite (w64_small A HAr), (w64_small B HBr).
  assert (HABr : 0 <= A + B < 2 ^ 64) by lia. rewrite (w64_small _ HABr).
  split; [|split; [reflexivity|unfold rng; lia]].
  rewrite !andb_true_iff, !isu_true. lia.
Qed.

Lemma mred_safe q rm x U : rm_wf q rm -> rng U x -> red_chk rm U = true ->
  mred_ok w64 x (rm_h rm) (rm_mask rm) (rm_cst rm) = true /\
  mred w64 x (rm_h rm) (rm_mask rm) (rm_cst rm) = mred idz x (rm_h rm) (rm_mask rm) (rm_cst rm) /\
  rng (red_ub rm U) (mred idz x (rm_h rm) (rm_mask rm) (rm_cst rm)).
Proof.
  intros [Hh [Hm [Hc _]]] Hx Hchk. unfold red_chk in Hchk. rewrite andb_true_iff, !Z.ltb_lt in Hchk.
  destruct Hchk as [H1 H2]. unfold red_ub in *.
  unfold mred_ok, mred, idz. rewrite Hm, land_mask, hi_div by lia.
  destruct (split_parts x (rm_h rm) U Hh Hx) as [HA HB].
  pose proof (mul_bounds _ _ _ _ HB (conj Hc (Z.le_refl _))) as HM.
  set (A := x mod 2 ^ rm_h rm) in *. set (B := x / 2 ^ rm_h rm * rm_cst rm) in *.
  assert (HBr : 0 <= B < 2 ^ 64) by lia. rewrite (w64_small B HBr).
  assert (HABr : 0 <= A + B < 2 ^ 64) by lia. rewrite (w64_small _ HABr).
  split; [|split; [reflexivity|unfold rng; lia]].
  rewrite !andb_true_iff, !isu_true. lia.
Qed.

Lemma pre_safe q rm sm x U : rm_wf q rm -> rng U x -> pre_chk rm sm U = true ->
  pre_ok w64 rm sm x = true /\ pre w64 rm sm x = pre idz rm sm x /\ rng (pre_ub rm sm U) (pre idz rm sm x).
Proof.
  intros Hrm Hx Hc. unfold pre_chk, pre_ok, pre, pre_ub in *. destruct (sm_red sm).
  - apply (mred_safe q); assumption.
  - repeat split; apply Hx.
Qed.

(* ---------------- forward lanes ---------------- *)
Definition fwd_chk (q : Z) (rm : redmeta) (sm : stepmeta) (c : nat) (U : Z) : bool :=
  let U1 := pre_ub rm sm U in let D := U1 + sm_q2bs sm in
  pre_chk rm sm U && (2 * U1 <? 2 ^ 64) && (D <? 2 ^ 64) && (U1 <=? sm_q2bs sm) &&
  (if Nat.eqb c 1 then true else spm_ub q (sm_hb sm) D <? 2 ^ 64).
Definition fwd_ub (q : Z) (rm : redmeta) (sm : stepmeta) (c : nat) (U : Z) : Z :=
  let U1 := pre_ub rm sm U in let D := U1 + sm_q2bs sm in
  Z.max (2 * U1) (if Nat.eqb c 1 then D else Z.max D (spm_ub q (sm_hb sm) D)).

Lemma fwd_lane_safe q rm sm tw c U i a b : rm_wf q rm -> sm_wf q sm -> 1 <= q -> fwd_chk q rm sm c U = true ->
  (c = 1%nat -> i = 0%nat) -> (forall i', word_ok q (nth i' tw 0)) -> rng U a -> rng U b ->
  fwd_lane_ok w64 rm sm tw i a b = true /\ fwd_lane w64 rm sm tw i a b = fwd_lane idz rm sm tw i a b /\
  rng (fwd_ub q rm sm c U) (fst (fwd_lane idz rm sm tw i a b)) /\ rng (fwd_ub q rm sm c U) (snd (fwd_lane idz rm sm tw i a b)).
Proof.
  intros Hrm [Hhb [Hmask [Hq2 _]]] Hq Hchk Hci Htw Ha Hb.
  unfold fwd_chk in Hchk. cbv zeta in Hchk. rewrite !andb_true_iff, !Z.ltb_lt, Z.leb_le in Hchk.
  destruct Hchk as [[[[Hpc H2] HD] Hle] Hs].
  destruct (pre_safe q rm sm a U Hrm Ha Hpc) as [Oa [Ea [Ra0 Ra1]]].
  destruct (pre_safe q rm sm b U Hrm Hb Hpc) as [Ob [Eb [Rb0 Rb1]]].
  unfold fwd_lane_ok, fwd_lane, fwd_ub. cbv zeta. rewrite Oa, Ob, Ea, Eb.
  set (a1 := pre idz rm sm a) in *. set (b1 := pre idz rm sm b) in *.
  set (U1 := pre_ub rm sm U) in *. set (Q := sm_q2bs sm) in *.
  assert (E1 : w64 (a1 + b1) = a1 + b1) by (apply w64_small; lia).
  assert (E2 : w64 (a1 + Q) = a1 + Q) by (apply w64_small; lia).
  rewrite E1, E2.
  assert (E3 : w64 (a1 + Q - b1) = a1 + Q - b1) by (apply w64_small; lia).
  rewrite E3. unidz.
  assert (I1 : isu (a1 + b1) = true) by (apply isu_true; lia).
  assert (I2 : isu (a1 + Q) = true) by (apply isu_true; lia).
  assert (I3 : isu (a1 + Q - b1) = true) by (apply isu_true; lia).
  rewrite I1, I2, I3. cbn [andb fst snd].
  destruct i as [|i'].
  - split; [reflexivity|]. split; [reflexivity|]. unfold rng. destruct (Nat.eqb c 1); lia.
  - destruct (Nat.eqb_spec c 1) as [Hc|Hc]; [specialize (Hci Hc); discriminate|].
    apply Z.ltb_lt in Hs.
    assert (Hd : rng (U1 + Q) (a1 + Q - b1)) by (unfold rng; lia).
    destruct (spm_safe q (a1 + Q - b1) (nth i' tw 0) (sm_hb sm) (sm_mask sm) (U1 + Q) Hhb Hmask Hq (Htw i') Hd Hs) as [Os [Es [Rs0 Rs1]]].
    rewrite Os, Es. split; [reflexivity|]. split; [reflexivity|]. unfold rng. lia.
Qed.

(* ---------------- blocks and levels ---------------- *)
Lemma forallb_map {A} (f : A -> bool) l : forallb f l = forallb (fun b : bool => b) (map f l).
Proof. induction l as [|a l IH]; [reflexivity|]. cbn [forallb map]. rewrite IH. reflexivity. Qed.


Lemma forallb_ext_in' {A} (f g : A -> bool) l : (forall a, In a l -> f a = g a) -> forallb f l = forallb g l.
Proof.
  induction l as [|a l IH]; intros H; [reflexivity|]. cbn [forallb].
  rewrite (H a) by (left; reflexivity). rewrite IH by (intros; apply H; right; assumption). reflexivity.
Qed.

Lemma bfly_ok_canon (ok : nat -> Z -> Z -> bool) x h : length x = (2 * h)%nat ->
  bfly_ok ok x = forallb (fun i => ok i (nth i x 0) (nth (h + i) x 0)) (seq 0 h).
Proof.
  intros Hx. unfold bfly_ok. replace (length x / 2)%nat with h by (rewrite Hx, Nat.mul_comm, Nat.div_mul; lia).
  assert (Hlo : length (firstn h x) = h) by (rewrite firstn_length; lia).
  assert (Hhi : length (skipn h x) = length (firstn h x)) by (rewrite skipn_length; lia).
  rewrite forallb_map.
  pose proof (map3_combine ok (firstn h x) (skipn h x) 0 Hhi) as E. rewrite Hlo in E. rewrite E.
  rewrite <- forallb_map. apply forallb_ext_in'. intros i Hi. apply in_seq in Hi. cbn [Nat.add].
  rewrite nth_firstn' by lia. rewrite nth_skipn'. reflexivity.
Qed.

Lemma bfly_sound (g gi : lanefn) (ok : nat -> Z -> Z -> bool) x h (Pin Pout : nat -> Z -> Z -> Prop) :
  length x = (2 * h)%nat ->
  (forall i, (i < h)%nat -> Pin i (nth i x 0) (nth (h + i) x 0)) ->
  (forall i a b, (i < h)%nat -> Pin i a b ->
     ok i a b = true /\ g i a b = gi i a b /\ Pout i (fst (gi i a b)) (snd (gi i a b))) ->
  bfly_ok ok x = true /\ bfly g x = bfly gi x /\ (forall i, (i < h)%nat -> Pout i (lane_lo gi x h i) (lane_hi gi x h i)).
Proof.
  intros Hx Hin Hl. split; [|split].
  - rewrite (bfly_ok_canon ok x h Hx). apply forallb_forall. intros i Hi. apply in_seq in Hi.
    apply (Hl i); [lia|apply Hin; lia].
  - rewrite (bfly_canon g x h Hx), (bfly_canon gi x h Hx).
    f_equal; apply map_ext_in; intros i Hi; apply in_seq in Hi; unfold lane_lo, lane_hi;
      destruct (Hl i (nth i x 0) (nth (h + i) x 0) ltac:(lia) (Hin i ltac:(lia))) as [_ [E _]]; rewrite E; reflexivity.
  - intros i Hi. unfold lane_lo, lane_hi. apply (Hl i); [exact Hi|apply Hin; exact Hi].
Qed.

Lemma level_sound (F Fi : list Z -> list Z) (okb : list Z -> bool) (Pre Post : list Z -> Prop) sz : 
  (forall b, length b = sz -> Pre b -> okb b = true /\ F b = Fi b /\ Post (Fi b)) ->
  forall cnt x, length x = (cnt * sz)%nat -> Forall Pre (blocks cnt sz x) ->
  level_ok okb cnt sz x = true /\ level F cnt sz x = level Fi cnt sz x /\ Forall Post (map Fi (blocks cnt sz x)).
Proof.
  intros HF cnt x Hx Hpre. unfold level_ok, level.
  pose proof (blocks_sizes cnt sz x Hx) as Hsz. revert Hsz Hpre.
  generalize (blocks cnt sz x) as l.
  induction l as [|b l IH]; intros Hsz Hpre; [repeat split; constructor|].
  apply Forall_cons_iff in Hsz. destruct Hsz as [Hb Hl']. apply Forall_cons_iff in Hpre. destruct Hpre as [Pb Pl].
  destruct (HF b Hb Pb) as [O [E P]]. destruct (IH Hl' Pl) as [O' [E' P']].
  cbn [forallb map concat]. rewrite O, O', E, E'. repeat split. constructor; assumption.
Qed.

Lemma Forall_blocks (P : Z -> Prop) sz : forall cnt x, Forall P x -> Forall (Forall P) (blocks cnt sz x).
Proof.
  induction cnt as [|c IH]; intros x H; cbn [blocks]; constructor.
  - apply Forall_firstn'. exact H.
  - apply IH. apply Forall_skipn'. exact H.
Qed.
Lemma Forall_concat' (P : Z -> Prop) (l : list (list Z)) : Forall (Forall P) l -> Forall P (concat l).
Proof. induction 1; cbn [concat]; [constructor|apply Forall_app; split; assumption]. Qed.
Lemma Forall_map_seq (P : Z -> Prop) (f : nat -> Z) n : (forall i, (i < n)%nat -> P (f i)) -> Forall P (map f (seq 0 n)).
Proof. intros H. apply Forall_forall. intros v Hv. apply in_map_iff in Hv. destruct Hv as [i [<- Hi]]. apply in_seq in Hi. apply H. lia. Qed.
Lemma below_of_rng bs U x : Forall (rng U) x -> U < 2 ^ bs -> below bs x = true.
Proof.
  intros H HU. unfold below. apply forallb_forall. intros v Hv. rewrite Forall_forall in H. destruct (H v Hv).
  rewrite andb_true_iff, Z.leb_le, Z.ltb_lt. lia.
Qed.
Lemma Forall_word_nth q tw : 1 <= q -> Forall (word_ok q) tw -> forall i, word_ok q (nth i tw 0).
Proof.
  intros Hq H i. destruct (Nat.ltb_spec i (length tw)) as [Hi|Hi].
  - apply Forall_nth_elim; assumption.
  - rewrite nth_overflow by exact Hi. apply word_ok_0. exact Hq.
Qed.

(* ---------------- forward chain of levels ---------------- *)
Definition smwf_b (q : Z) (sm : stepmeta) : bool :=
  (0 <=? sm_hb sm) && (sm_mask sm =? 2 ^ sm_hb sm - 1) && (0 <=? sm_q2bs sm) && (sm_q2bs sm mod q =? 0).
Lemma smwf_b_ok q sm : smwf_b q sm = true -> sm_wf q sm.
Proof.
  unfold smwf_b, sm_wf. rewrite !andb_true_iff, !Z.leb_le, !Z.eqb_eq. intros [[[H1 H2] H3] H4].
  split; [assumption|split; [assumption|split; [assumption|]]]. apply cong_unfold. rewrite H4, Zmod_0_l. reflexivity.
Qed.

Fixpoint fwd_chain (q : Z) (rm : redmeta) (c : nat) (metas : list stepmeta) (U : Z) : option Z :=
  match c, metas with
  | O, [] => Some U
  | S c', sm :: ms =>
      if smwf_b q sm && fwd_chk q rm sm c U && (fwd_ub q rm sm c U <? 2 ^ sm_bs sm)
      then fwd_chain q rm c' ms (fwd_ub q rm sm c U) else None
  | _, _ => None
  end.

Lemma fwd_block_sound q rm sm tw c U b : rm_wf q rm -> sm_wf q sm -> 1 <= q -> fwd_chk q rm sm (S c) U = true ->
  Forall (word_ok q) tw -> length b = pow2n (S c) -> Forall (rng U) b ->
  bfly_ok (fwd_lane_ok w64 rm sm tw) b = true /\ bfly (fwd_lane w64 rm sm tw) b = bfly (fwd_lane idz rm sm tw) b /\
  Forall (rng (fwd_ub q rm sm (S c) U)) (bfly (fwd_lane idz rm sm tw) b).
Proof.
  intros Hrm Hsm Hq Hchk Htw Hb HU. rewrite pow2n_S in Hb. set (h := pow2n c) in *.
  destruct (bfly_sound (fwd_lane w64 rm sm tw) (fwd_lane idz rm sm tw) (fwd_lane_ok w64 rm sm tw) b h
              (fun _ a b => rng U a /\ rng U b)
              (fun _ u v => rng (fwd_ub q rm sm (S c) U) u /\ rng (fwd_ub q rm sm (S c) U) v) Hb) as [O [E P]].
  - intros i Hi. split; apply Forall_nth_elim; try assumption; lia.
  - intros i a0 b0 Hi [Ha0 Hb0]. apply (fwd_lane_safe q rm sm tw (S c) U i a0 b0); try assumption.
    + intros Hc. assert (c = 0%nat) by lia. subst c. unfold h in Hi. change (pow2n 0) with 1%nat in Hi. lia.
    + apply Forall_word_nth; assumption.
  - split; [exact O|split; [exact E|]]. rewrite (bfly_canon _ b h Hb). apply Forall_app. split; apply Forall_map_seq; intros i Hi; apply (P i Hi).
Qed.

Theorem fwd_levels_sound q rm : rm_wf q rm -> 1 <= q ->
  forall c metas tws cnt x U Uf, fwd_chain q rm c metas U = Some Uf ->
  length tws = length metas -> Forall (Forall (word_ok q)) tws ->
  length x = (cnt * pow2n c)%nat -> Forall (rng U) x ->
  fwd_levels_ok w64 rm c cnt metas tws x = true /\
  fwd_levels w64 rm c cnt metas tws x = fwd_levels idz rm c cnt metas tws x /\
  Forall (rng Uf) (fwd_levels idz rm c cnt metas tws x) /\
  length (fwd_levels idz rm c cnt metas tws x) = length x.
Proof.
  intros Hrm Hq. induction c as [|c IH]; intros metas tws cnt x U Uf Hch Hlen Htws Hx HU.
  - destruct metas; [|discriminate]. cbn [fwd_chain] in Hch. injection Hch as <-.
    cbn [fwd_levels_ok fwd_levels]. repeat split. exact HU.
  - destruct metas as [|sm ms]; [discriminate|]. destruct tws as [|tw tws]; [discriminate|].
    cbn [fwd_chain] in Hch.
    destruct (smwf_b q sm && fwd_chk q rm sm (S c) U && (fwd_ub q rm sm (S c) U <? 2 ^ sm_bs sm)) eqn:Hc; [|discriminate].
    rewrite !andb_true_iff, Z.ltb_lt in Hc. destruct Hc as [[Hwf Hchk] Hbs]. apply smwf_b_ok in Hwf.
    apply Forall_cons_iff in Htws. destruct Htws as [Htw Htws].
    cbn [fwd_levels_ok fwd_levels].
    destruct (level_sound (bfly (fwd_lane w64 rm sm tw)) (bfly (fwd_lane idz rm sm tw)) (bfly_ok (fwd_lane_ok w64 rm sm tw))
               (Forall (rng U)) (Forall (rng (fwd_ub q rm sm (S c) U))) (pow2n (S c))) with (cnt := cnt) (x := x) as [O [E P]].
    + intros b Hb Pb. apply (fwd_block_sound q rm sm tw c U b); assumption.
    + exact Hx.
    + apply Forall_blocks. exact HU.
    + rewrite O, E. set (y := level (bfly (fwd_lane idz rm sm tw)) cnt (pow2n (S c)) x).
      assert (Hy : Forall (rng (fwd_ub q rm sm (S c) U)) y) by (apply Forall_concat'; exact P).
      assert (Hly : length y = (2 * cnt * pow2n c)%nat).
      { unfold y. rewrite level_length; [rewrite pow2n_S; lia|exact Hx|]. intros b Hb. rewrite pow2n_S in *. apply bfly_length. exact Hb. }
      rewrite (below_of_rng _ _ _ Hy Hbs). cbn [andb].
      replace (length x) with (length y) by (rewrite Hly, Hx, pow2n_S; lia).
      apply (IH ms tws (2 * cnt)%nat y _ Uf Hch); [cbn [length] in Hlen; lia|exact Htws|exact Hly|exact Hy].
Qed.

(* ---------------- the element-wise pass ---------------- *)
Definition ew_chk (q : Z) (rm : redmeta) (sm : stepmeta) (U : Z) : bool :=
  pre_chk rm sm U && (spm_ub q (sm_hb sm) (pre_ub rm sm U) <? 2 ^ 64).
Definition ew_ub (q : Z) (rm : redmeta) (sm : stepmeta) (U : Z) : Z := spm_ub q (sm_hb sm) (pre_ub rm sm U).

Lemma ewise_length W rm sm tw x : length tw = length x -> length (ewise W rm sm tw x) = length x.
Proof. intros H. unfold ewise. rewrite map_length, combine_length. lia. Qed.
Lemma nth_ewise W rm sm : forall tw x i, length tw = length x -> (i < length x)%nat ->
  nth i (ewise W rm sm tw x) 0 = spm W (pre W rm sm (nth i x 0)) (nth i tw 0) (sm_hb sm) (sm_mask sm).
Proof.
  unfold ewise. induction tw as [|t tw IH]; intros [|v x] i Hl Hi; cbn [length] in *; try lia.
  destruct i as [|i]; [reflexivity|]. cbn [combine map nth]. apply IH; lia.
Qed.

Lemma ewise_sound q rm sm U : rm_wf q rm -> sm_wf q sm -> 1 <= q -> ew_chk q rm sm U = true ->
  forall tw x, length tw = length x -> Forall (word_ok q) tw -> Forall (rng U) x ->
  ewise_ok w64 rm sm tw x = true /\ ewise w64 rm sm tw x = ewise idz rm sm tw x /\
  Forall (rng (ew_ub q rm sm U)) (ewise idz rm sm tw x).
Proof.
  intros Hrm [Hhb [Hmask _]] Hq Hchk. unfold ew_chk in Hchk. rewrite andb_true_iff, Z.ltb_lt in Hchk. destruct Hchk as [Hpc Hs].
  unfold ewise_ok, ewise. induction tw as [|t tw IH]; intros [|v x] Hl Htw Hx; cbn [length] in *; try lia.
  - repeat split. constructor.
  - apply Forall_cons_iff in Htw. destruct Htw as [Ht Htw]. apply Forall_cons_iff in Hx. destruct Hx as [Hv Hx].
    destruct (IH x ltac:(lia) Htw Hx) as [O [E P]].
    destruct (pre_safe q rm sm v U Hrm Hv Hpc) as [Ov [Ev Rv]].
    destruct (spm_safe q (pre idz rm sm v) t (sm_hb sm) (sm_mask sm) _ Hhb Hmask Hq Ht Rv Hs) as [Os [Es Rs]].
    cbn [combine map forallb fst snd]. rewrite Ov, Ev, Os, Es, O, E. repeat split. constructor; assumption.
Qed.

(* ---------------- inverse lanes: U0 bounds the head of every block (lane 0), U the other entries ---------------- *)
Definition inv_chk (q : Z) (rm : redmeta) (sm : stepmeta) (c : nat) (U0 U : Z) : bool :=
  let V0 := pre_ub rm sm U0 in let V := pre_ub rm sm U in let Q := sm_q2bs sm in
  let S := spm_ub q (sm_hb sm) V in
  pre_chk rm sm U0 && pre_chk rm sm U && (2 * V0 <? 2 ^ 64) && (V0 + Q <? 2 ^ 64) && (V0 <=? Q) &&
  (if Nat.eqb c 1 then true else (S <? 2 ^ 64) && (V + S <? 2 ^ 64) && (V + Q <? 2 ^ 64) && (S <=? Q)).
Definition inv_ub0 (rm : redmeta) (sm : stepmeta) (U0 : Z) : Z := 2 * pre_ub rm sm U0.
Definition inv_ub (q : Z) (rm : redmeta) (sm : stepmeta) (c : nat) (U0 U : Z) : Z :=
  let V0 := pre_ub rm sm U0 in let V := pre_ub rm sm U in let Q := sm_q2bs sm in
  let S := spm_ub q (sm_hb sm) V in
  Z.max (Z.max (2 * V0) (V0 + Q)) (if Nat.eqb c 1 then 0 else Z.max (V + S) (V + Q)).

Definition inv_pin (U0 U : Z) (i : nat) (a b : Z) : Prop :=
  match i with O => rng U0 a /\ rng U0 b | S _ => rng U a /\ rng U b end.
Definition inv_pout (U0' U' : Z) (i : nat) (u v : Z) : Prop :=
  (i = 0%nat -> rng U0' u) /\ rng U' u /\ rng U' v.

Lemma inv_lane_safe q rm sm tw c U0 U i a b : rm_wf q rm -> sm_wf q sm -> 1 <= q -> inv_chk q rm sm c U0 U = true ->
  (c = 1%nat -> i = 0%nat) -> (forall i', word_ok q (nth i' tw 0)) -> inv_pin U0 U i a b ->
  inv_lane_ok w64 rm sm tw i a b = true /\ inv_lane w64 rm sm tw i a b = inv_lane idz rm sm tw i a b /\
  inv_pout (inv_ub0 rm sm U0) (inv_ub q rm sm c U0 U) i (fst (inv_lane idz rm sm tw i a b)) (snd (inv_lane idz rm sm tw i a b)).
Proof.
  intros Hrm [Hhb [Hmask [Hq2 _]]] Hq Hchk Hci Htw Hin.
  unfold inv_chk in Hchk. cbv zeta in Hchk. rewrite !andb_true_iff, !Z.ltb_lt, Z.leb_le in Hchk.
  destruct Hchk as [[[[[Hpc0 Hpc] H2] HD] Hle] Hs].
  unfold inv_lane_ok, inv_lane, inv_pout, inv_ub0, inv_ub. cbv zeta.
  set (Q := sm_q2bs sm) in *.
  destruct i as [|i']; cbn [inv_pin] in Hin; destruct Hin as [Ha Hb].
  - destruct (pre_safe q rm sm a U0 Hrm Ha Hpc0) as [Oa [Ea [Ra0 Ra1]]].
    destruct (pre_safe q rm sm b U0 Hrm Hb Hpc0) as [Ob [Eb [Rb0 Rb1]]].
    rewrite Oa, Ob, Ea, Eb.
    set (a1 := pre idz rm sm a) in *. set (b1 := pre idz rm sm b) in *. set (V0 := pre_ub rm sm U0) in *.
    assert (E1 : w64 (a1 + b1) = a1 + b1) by (apply w64_small; lia).
    assert (E2 : w64 (a1 + Q) = a1 + Q) by (apply w64_small; lia).
    rewrite E1, E2.
    assert (E3 : w64 (a1 + Q - b1) = a1 + Q - b1) by (apply w64_small; lia).
    rewrite E3. unidz.
    assert (I1 : isu (a1 + b1) = true) by (apply isu_true; lia).
    assert (I2 : isu (a1 + Q) = true) by (apply isu_true; lia).
    assert (I3 : isu (a1 + Q - b1) = true) by (apply isu_true; lia).
    rewrite I1, I2, I3. cbn [andb fst snd]. split; [reflexivity|]. split; [reflexivity|]. unfold rng. lia.
  - destruct (Nat.eqb_spec c 1) as [Hc|Hc]; [specialize (Hci Hc); discriminate|].
    rewrite !andb_true_iff, !Z.ltb_lt, Z.leb_le in Hs. destruct Hs as [[[HS HVS] HVQ] HSQ].
    destruct (pre_safe q rm sm a U Hrm Ha Hpc) as [Oa [Ea [Ra0 Ra1]]].
    destruct (pre_safe q rm sm b U Hrm Hb Hpc) as [Ob [Eb Rb]].
    rewrite Oa, Ob, Ea, Eb.
    set (a1 := pre idz rm sm a) in *. set (b1 := pre idz rm sm b) in *. set (V := pre_ub rm sm U) in *.
    destruct (spm_safe q b1 (nth i' tw 0) (sm_hb sm) (sm_mask sm) V Hhb Hmask Hq (Htw i') Rb HS) as [Os [Es [Rs0 Rs1]]].
    rewrite Os, Es. set (bo := spm idz b1 (nth i' tw 0) (sm_hb sm) (sm_mask sm)) in *.
    set (S := spm_ub q (sm_hb sm) V) in *.
    assert (E1 : w64 (a1 + bo) = a1 + bo) by (apply w64_small; lia).
    assert (E2 : w64 (a1 + Q) = a1 + Q) by (apply w64_small; lia).
    rewrite E1, E2.
    assert (E3 : w64 (a1 + Q - bo) = a1 + Q - bo) by (apply w64_small; lia).
    rewrite E3. unidz.
    assert (I1 : isu (a1 + bo) = true) by (apply isu_true; lia).
    assert (I2 : isu (a1 + Q) = true) by (apply isu_true; lia).
    assert (I3 : isu (a1 + Q - bo) = true) by (apply isu_true; lia).
    rewrite I1, I2, I3. cbn [andb fst snd]. split; [reflexivity|]. split; [reflexivity|].
    split; [discriminate|]. unfold rng. lia.
Qed.

(* ---------------- inverse blocks and chain ---------------- *)
Definition binv (U0 U : Z) (b : list Z) : Prop := rng U0 (nth 0 b 0) /\ Forall (rng U) b.

Lemma inv_block_sound q rm sm tw c U0 U B : rm_wf q rm -> sm_wf q sm -> 1 <= q -> inv_chk q rm sm (S c) U0 U = true ->
  Forall (word_ok q) tw -> length B = pow2n (S c) ->
  binv U0 U (firstn (pow2n c) B) -> binv U0 U (skipn (pow2n c) B) ->
  bfly_ok (inv_lane_ok w64 rm sm tw) B = true /\ bfly (inv_lane w64 rm sm tw) B = bfly (inv_lane idz rm sm tw) B /\
  binv (inv_ub0 rm sm U0) (inv_ub q rm sm (S c) U0 U) (bfly (inv_lane idz rm sm tw) B).
Proof.
  intros Hrm Hsm Hq Hchk Htw HB [Hlo0 Hlo] [Hhi0 Hhi]. rewrite pow2n_S in HB. set (h := pow2n c) in *.
  assert (Hh : (0 < h)%nat) by apply pow2n_pos.
  destruct (bfly_sound (inv_lane w64 rm sm tw) (inv_lane idz rm sm tw) (inv_lane_ok w64 rm sm tw) B h
              (inv_pin U0 U) (inv_pout (inv_ub0 rm sm U0) (inv_ub q rm sm (S c) U0 U)) HB) as [O [E P]].
  - intros i Hi.
    assert (Ea : nth i B 0 = nth i (firstn h B) 0) by (rewrite nth_firstn' by exact Hi; reflexivity).
    assert (Eb : nth (h + i) B 0 = nth i (skipn h B) 0) by (rewrite nth_skipn'; reflexivity).
    rewrite Ea, Eb. destruct i as [|i]; cbn [inv_pin]; [split; assumption|].
    split; apply Forall_nth_elim; try assumption; [rewrite firstn_length|rewrite skipn_length]; lia.
  - intros i a0 b0 Hi Hin. apply (inv_lane_safe q rm sm tw (S c) U0 U i a0 b0); try assumption.
    + intros Hc. assert (c = 0%nat) by lia. subst c. unfold h in Hi. change (pow2n 0) with 1%nat in Hi. lia.
    + apply Forall_word_nth; assumption.
  - split; [exact O|split; [exact E|]]. split.
    + rewrite (nth_bfly_lo _ B h 0 HB Hh). apply (P 0%nat Hh). reflexivity.
    + rewrite (bfly_canon _ B h HB). apply Forall_app. split; apply Forall_map_seq; intros i Hi; apply (P i Hi).
Qed.

Fixpoint inv_chain (q : Z) (rm : redmeta) (lv c : nat) (metas : list stepmeta) (U0 U : Z) : option (Z * Z) :=
  match lv, metas with
  | O, [] => Some (U0, U)
  | S lv', sm :: ms =>
      if smwf_b q sm && inv_chk q rm sm c U0 U && (inv_ub q rm sm c U0 U <? 2 ^ sm_bs sm)
      then inv_chain q rm lv' (S c) ms (inv_ub0 rm sm U0) (inv_ub q rm sm c U0 U) else None
  | _, _ => None
  end.

Lemma Forall_flat_pairs {A} (P : A -> Prop) (f g : list Z -> A) (l : list (list Z)) :
  Forall P (flat_map (fun b => [f b; g b]) l) -> Forall (fun b => P (f b) /\ P (g b)) l.
Proof.
  induction l as [|b l IH]; intros H; [constructor|]. cbn [flat_map app] in H.
  apply Forall_cons_iff in H. destruct H as [H1 H]. apply Forall_cons_iff in H. destruct H as [H2 H].
  constructor; [split; assumption|apply IH; exact H].
Qed.

Theorem inv_levels_sound q rm : rm_wf q rm -> 1 <= q ->
  forall lv c metas tws x U0 U U0f Uf, inv_chain q rm lv (S c) metas U0 U = Some (U0f, Uf) ->
  length tws = length metas -> Forall (Forall (word_ok q)) tws ->
  length x = (pow2n lv * pow2n c)%nat -> Forall (binv U0 U) (blocks (pow2n lv) (pow2n c) x) ->
  inv_levels_ok w64 rm lv (S c) metas tws x = true /\
  inv_levels w64 rm lv (S c) metas tws x = inv_levels idz rm lv (S c) metas tws x /\
  Forall (rng Uf) (inv_levels idz rm lv (S c) metas tws x) /\
  length (inv_levels idz rm lv (S c) metas tws x) = length x.
Proof.
  intros Hrm Hq. induction lv as [|lv IH]; intros c metas tws x U0 U U0f Uf Hch Hlen Htws Hx Hinv.
  - destruct metas; [|discriminate]. cbn [inv_chain] in Hch. injection Hch as <- <-.
    cbn [inv_levels_ok inv_levels]. repeat split.
    change (pow2n 0) with 1%nat in *. rewrite blocks_one in Hinv by lia.
    apply Forall_cons_iff in Hinv. destruct Hinv as [[_ H] _]. exact H.
  - destruct metas as [|sm ms]; [discriminate|]. destruct tws as [|tw tws]; [discriminate|].
    cbn [inv_chain] in Hch.
    destruct (smwf_b q sm && inv_chk q rm sm (S c) U0 U && (inv_ub q rm sm (S c) U0 U <? 2 ^ sm_bs sm)) eqn:Hc; [|discriminate].
    rewrite !andb_true_iff, Z.ltb_lt in Hc. destruct Hc as [[Hwf Hchk] Hbs]. apply smwf_b_ok in Hwf.
    apply Forall_cons_iff in Htws. destruct Htws as [Htw Htws].
    cbn [inv_levels_ok inv_levels].
    assert (Hx' : length x = (pow2n lv * pow2n (S c))%nat) by (rewrite Hx, !pow2n_S; lia).
    assert (HF : forall b, length b = pow2n (S c) -> length (bfly (inv_lane idz rm sm tw) b) = pow2n (S c))
      by (intros b Hb; rewrite pow2n_S in *; apply bfly_length; exact Hb).
    destruct (level_sound (bfly (inv_lane w64 rm sm tw)) (bfly (inv_lane idz rm sm tw)) (bfly_ok (inv_lane_ok w64 rm sm tw))
               (fun B => binv U0 U (firstn (pow2n c) B) /\ binv U0 U (skipn (pow2n c) B))
               (binv (inv_ub0 rm sm U0) (inv_ub q rm sm (S c) U0 U)) (pow2n (S c))) with (cnt := pow2n lv) (x := x) as [O [E P]].
    + intros b Hb [P1 P2]. apply (inv_block_sound q rm sm tw c U0 U b); assumption.
    + exact Hx'.
    + apply Forall_flat_pairs. rewrite (pow2n_S c). rewrite <- blocks_pairs by (rewrite Hx, pow2n_S; lia).
      rewrite <- pow2n_S. exact Hinv.
    + rewrite O, E. set (y := level (bfly (inv_lane idz rm sm tw)) (pow2n lv) (pow2n (S c)) x).
      assert (Hyb : Forall (binv (inv_ub0 rm sm U0) (inv_ub q rm sm (S c) U0 U)) (blocks (pow2n lv) (pow2n (S c)) y)).
      { unfold y. rewrite level_blocks by assumption. exact P. }
      assert (Hy : Forall (rng (inv_ub q rm sm (S c) U0 U)) y).
      { apply Forall_concat'. rewrite Forall_map in P. rewrite Forall_map. eapply Forall_impl; [|exact P]. intros b [_ Hb]. exact Hb. }
      assert (Hly : length y = (pow2n lv * pow2n (S c))%nat) by (unfold y; rewrite level_length by assumption; reflexivity).
      rewrite (below_of_rng _ _ _ Hy Hbs). cbn [andb].
      replace (length x) with (length y) by (rewrite Hly, Hx'; reflexivity).
      apply (IH (S c) ms tws y _ _ U0f Uf Hch); [cbn [length] in Hlen; lia|exact Htws|exact Hly|exact Hyb].
Qed.

Lemma binv_singletons U : forall x, Forall (rng U) x -> Forall (binv U U) (blocks (length x) 1 x).
Proof.
  induction x as [|v x IH]; intros H; [constructor|]. apply Forall_cons_iff in H. destruct H as [Hv Hx].
  cbn [length blocks firstn skipn]. constructor; [|apply IH; exact Hx].
  split; [exact Hv|constructor; [exact Hv|constructor]].
Qed.

(* ---------------- whole networks ---------------- *)
Definition rmwf_b (q : Z) (rm : redmeta) : bool :=
  (0 <=? rm_h rm) && (rm_mask rm =? 2 ^ rm_h rm - 1) && (0 <=? rm_cst rm) && (rm_cst rm mod q =? 2 ^ rm_h rm mod q).
Lemma rmwf_b_ok q rm : rmwf_b q rm = true -> rm_wf q rm.
Proof.
  unfold rmwf_b, rm_wf. rewrite !andb_true_iff, !Z.leb_le, !Z.eqb_eq. intros [[[H1 H2] H3] H4].
  split; [assumption|split; [assumption|split; [assumption|]]]. apply cong_unfold. exact H4.
Qed.

(* the words of a table are well formed and there are as many twiddle lists as levels *)
Definition table_words_ok (q : Z) (T : table) (n : nat) : Prop :=
  length (tb_tw0 T) = n /\ Forall (word_ok q) (tb_tw0 T) /\
  length (tb_tws T) = length (tb_metas T) /\ Forall (Forall (word_ok q)) (tb_tws T).

Definition fwd_check_c (q : Z) (rm : redmeta) (m0 : stepmeta) (metas : list stepmeta) (m : nat) (U : Z) : option Z :=
  if rmwf_b q rm && smwf_b q m0 && ew_chk q rm m0 U && (ew_ub q rm m0 U <? 2 ^ sm_bs m0)
  then fwd_chain q rm m metas (ew_ub q rm m0 U) else None.
Definition fwd_check (q : Z) (T : table) (m : nat) (U : Z) : option Z :=
  fwd_check_c q (tb_red T) (tb_m0 T) (tb_metas T) m U.

Theorem ntt_with_sound q T m x U Uf : 1 <= q -> fwd_check q T (S m) U = Some Uf -> table_words_ok q T (pow2n (S m)) ->
  length x = pow2n (S m) -> Forall (rng U) x ->
  ntt_ok_with w64 T (S m) x = true /\ ntt_with w64 T (S m) x = ntt_with idz T (S m) x /\
  Forall (rng Uf) (ntt_with idz T (S m) x) /\ length (ntt_with idz T (S m) x) = pow2n (S m).
Proof.
  intros Hq Hck [Hl0 [Hw0 [Hls Hws]]] Hx HU. unfold fwd_check, fwd_check_c in Hck.
  destruct (rmwf_b q (tb_red T) && smwf_b q (tb_m0 T) && ew_chk q (tb_red T) (tb_m0 T) U &&
            (ew_ub q (tb_red T) (tb_m0 T) U <? 2 ^ sm_bs (tb_m0 T))) eqn:Hc; [|discriminate].
  rewrite !andb_true_iff, Z.ltb_lt in Hc. destruct Hc as [[[Hrm Hsm] Hew] Hbs].
  apply rmwf_b_ok in Hrm. apply smwf_b_ok in Hsm.
  destruct (ewise_sound q (tb_red T) (tb_m0 T) U Hrm Hsm Hq Hew (tb_tw0 T) x ltac:(lia) Hw0 HU) as [O [E P]].
  unfold ntt_ok_with, ntt_with. rewrite O, E.
  set (y := ewise idz (tb_red T) (tb_m0 T) (tb_tw0 T) x) in *.
  rewrite (below_of_rng _ _ _ P Hbs). cbn [andb].
  assert (Hy : length y = pow2n (S m)) by (unfold y; rewrite ewise_length by lia; exact Hx).
  destruct (fwd_levels_sound q (tb_red T) Hrm Hq (S m) (tb_metas T) (tb_tws T) 1 y _ Uf Hck Hls Hws ltac:(lia) P) as [O2 [E2 [P2 L2]]].
  rewrite L2. repeat split; assumption.
Qed.

Definition inv_check_c (q : Z) (rm : redmeta) (m0 : stepmeta) (metas : list stepmeta) (m : nat) (U : Z) : option Z :=
  match inv_chain q rm m 1 metas U U with
  | Some (_, U1) =>
      if rmwf_b q rm && smwf_b q m0 && ew_chk q rm m0 U1 && (ew_ub q rm m0 U1 <? 2 ^ sm_bs m0)
      then Some (ew_ub q rm m0 U1) else None
  | None => None
  end.
Definition inv_check (q : Z) (T : table) (m : nat) (U : Z) : option Z :=
  inv_check_c q (tb_red T) (tb_m0 T) (tb_metas T) m U.

Theorem intt_with_sound q T m x U Uf : 1 <= q -> inv_check q T (S m) U = Some Uf -> table_words_ok q T (pow2n (S m)) ->
  length x = pow2n (S m) -> Forall (rng U) x ->
  intt_ok_with w64 T (S m) x = true /\ intt_with w64 T (S m) x = intt_with idz T (S m) x /\
  Forall (rng Uf) (intt_with idz T (S m) x) /\ length (intt_with idz T (S m) x) = pow2n (S m).
Proof.
  intros Hq Hck [Hl0 [Hw0 [Hls Hws]]] Hx HU. unfold inv_check, inv_check_c in Hck.
  destruct (inv_chain q (tb_red T) (S m) 1 (tb_metas T) U U) as [[U0f U1]|] eqn:Hch; [|discriminate].
  destruct (rmwf_b q (tb_red T) && smwf_b q (tb_m0 T) && ew_chk q (tb_red T) (tb_m0 T) U1 &&
            (ew_ub q (tb_red T) (tb_m0 T) U1 <? 2 ^ sm_bs (tb_m0 T))) eqn:Hc; [|discriminate].
  injection Hck as <-.
  rewrite !andb_true_iff, Z.ltb_lt in Hc. destruct Hc as [[[Hrm Hsm] Hew] Hbs].
  apply rmwf_b_ok in Hrm. apply smwf_b_ok in Hsm.
  destruct (inv_levels_sound q (tb_red T) Hrm Hq (S m) 0 (tb_metas T) (tb_tws T) x U U U0f U1 Hch Hls Hws) as [O [E [P L]]].
  - change (pow2n 0) with 1%nat. lia.
  - change (pow2n 0) with 1%nat. rewrite <- Hx. apply binv_singletons. exact HU.
  - unfold intt_ok_with, intt_with. rewrite O, E.
    set (y := inv_levels idz (tb_red T) (S m) 1 (tb_metas T) (tb_tws T) x) in *.
    assert (Hy : length y = pow2n (S m)) by (rewrite L; exact Hx).
    destruct (ewise_sound q (tb_red T) (tb_m0 T) U1 Hrm Hsm Hq Hew (tb_tw0 T) y ltac:(lia) Hw0 P) as [O' [E' P']].
    rewrite O', E'. rewrite (below_of_rng _ _ _ P' Hbs). repeat split; [exact P'|].
    rewrite ewise_length by lia. exact Hy.
Qed.

(* the checks imply the static well-formedness of every level *)
Lemma fwd_chain_wf q rm : forall c metas U Uf, fwd_chain q rm c metas U = Some Uf -> Forall (sm_wf q) metas /\ length metas = c.
Proof.
  induction c as [|c IH]; intros [|sm ms] U Uf H; cbn [fwd_chain] in H; try discriminate; [split; [constructor|reflexivity]|].
  destruct (smwf_b q sm && fwd_chk q rm sm (S c) U && (fwd_ub q rm sm (S c) U <? 2 ^ sm_bs sm)) eqn:Hc; [|discriminate].
  rewrite !andb_true_iff in Hc. destruct Hc as [[Hwf _] _]. destruct (IH ms _ Uf H) as [H1 H2].
  split; [constructor; [apply smwf_b_ok; exact Hwf|exact H1]|cbn [length]; lia].
Qed.
Lemma inv_chain_wf q rm : forall lv c metas U0 U r, inv_chain q rm lv c metas U0 U = Some r -> Forall (sm_wf q) metas /\ length metas = lv.
Proof.
  induction lv as [|lv IH]; intros c [|sm ms] U0 U r H; cbn [inv_chain] in H; try discriminate; [split; [constructor|reflexivity]|].
  destruct (smwf_b q sm && inv_chk q rm sm c U0 U && (inv_ub q rm sm c U0 U <? 2 ^ sm_bs sm)) eqn:Hc; [|discriminate].
  rewrite !andb_true_iff in Hc. destruct Hc as [[Hwf _] _]. destruct (IH _ ms _ _ r H) as [H1 H2].
  split; [constructor; [apply smwf_b_ok; exact Hwf|exact H1]|cbn [length]; lia].
Qed.
Lemma fwd_check_c_wf q rm m0 metas m U Uf : fwd_check_c q rm m0 metas m U = Some Uf ->
  rm_wf q rm /\ sm_wf q m0 /\ Forall (sm_wf q) metas /\ length metas = m.
Proof.
  unfold fwd_check_c.
  destruct (rmwf_b q rm && smwf_b q m0 && ew_chk q rm m0 U && (ew_ub q rm m0 U <? 2 ^ sm_bs m0)) eqn:E; [|discriminate].
  rewrite !andb_true_iff in E. destruct E as [[[E1 E2] _] _]. intros Hc.
  split; [apply rmwf_b_ok; exact E1|]. split; [apply smwf_b_ok; exact E2|].
  apply (fwd_chain_wf _ _ _ _ _ _ Hc).
Qed.
Lemma inv_check_c_wf q rm m0 metas m U Uf : inv_check_c q rm m0 metas m U = Some Uf ->
  rm_wf q rm /\ sm_wf q m0 /\ Forall (sm_wf q) metas /\ length metas = m.
Proof.
  unfold inv_check_c. destruct (inv_chain q rm m 1 metas U U) as [[U0f U1]|] eqn:Hch; [|discriminate].
  destruct (rmwf_b q rm && smwf_b q m0 && ew_chk q rm m0 U1 && (ew_ub q rm m0 U1 <? 2 ^ sm_bs m0)) eqn:E; [|discriminate].
  rewrite !andb_true_iff in E. destruct E as [[[E1 E2] _] _]. intros _.
  split; [apply rmwf_b_ok; exact E1|]. split; [apply smwf_b_ok; exact E2|].
  apply (inv_chain_wf _ _ _ _ _ _ _ _ Hch).
Qed.
