(* C01, secret-key GLWE: encrypt-then-decrypt at the level of one coefficient.
   The products X_i = (s_i * a_i)_k are the SAME limb lists in encryption and decryption, so the mask cancels
   without any ring law: the statement below holds for arbitrary (bounded) X_i. *)
From PV Require Import Base.MachineInt Model.Znx Model.Limbs Model.Flat Model.C08Oracle Model.EncModel Proofs.EncValue.
Open Scope Z_scope.

(* What C01 takes from C08 (proved there for `normalize_inter 64`, statement C08_normalize_inter_value; the oracle of
   C08 checks the same inequality on every record for the cross-radix and the big normalisers):
   a normaliser at offset 0 returns `length r0` limbs whose value equals the value of the input on the torus up to one
   unit of the last output limb, exactly when nothing is truncated, and with balanced digits when the radix is kept. *)
Definition normalize_value_ok_dom (D : Z -> Prop) (nrm : Z -> Z -> list Z -> list Z -> option (list Z)) (H : Z) : Prop :=
  forall rb ab a r0 out, D rb -> D ab -> Forall (fun x => Z.abs x <= H) a ->
    nrm rb ab a r0 = Some out ->
    length out = length r0 /\ (rb = ab -> Forall (in_range rb) out) /\
    forall P, zn (length r0) * rb <= P -> zn (length a) * ab <= P ->
      tor_abs P (val_scaled P rb out - val_scaled P ab a) <= 2 ^ (P - zn (length r0) * rb) /\
      (zn (length a) * ab <= zn (length r0) * rb -> tor_abs P (val_scaled P rb out - val_scaled P ab a) = 0).

(* every radix in [1, R]; the theorems below are stated over an arbitrary radix domain D so that they can also be instantiated with
   the domain {b} (same radix everywhere), where C08 proves the statement (Proofs/EncC08.v) *)
Definition normalize_value_ok (nrm : Z -> Z -> list Z -> list Z -> option (list Z)) (H R : Z) : Prop :=
  normalize_value_ok_dom (fun x => 1 <= x <= R) nrm H.

Definition lvsum (P b : Z) (n : nat) (xs : list (list Z)) : Z := fold_right (fun X acc => lval P b n X + acc) 0 xs.

Lemma lval_lsum_at P b n xs : sumz (fun j => lsum_at xs j * wt P b j) n = lvsum P b n xs.
Proof. unfold lvsum, lval. apply sumz_lsum_at. Qed.

Lemma pow2_le_half (w : Z) : 2 <= w -> 2 ^ (w - 2) <= 2 ^ (w - 1) - 1.
Proof.
  intros H. replace (w - 1) with (1 + (w - 2)) by lia. rewrite Z.pow_add_r by lia.
  pose proof (pow2_pos (w - 2) ltac:(lia)). lia.
Qed.

Section SkCoeff.
Variables wb b pb : Z.
Variable D : Z -> Prop.
Variables size psize ell : nat.
Hypothesis normalize_value_ok_small : normalize_value_ok_dom D (fun rb ab => normalize 64 rb ab 0) (2 ^ 62).
Hypothesis normalize_value_ok_big : normalize_value_ok_dom D (bnorm wb) (2 ^ (wb - 2)).
Hypothesis Hwb : 2 <= wb.
Hypothesis Hb : D b.
Hypothesis Hpb : D pb.
Hypothesis Hb_pos : 1 <= b.
Hypothesis Hpb_pos : 1 <= pb.
Hypothesis Hell : (ell < size)%nat.

Variables Bp E M : Z.
Hypothesis HBp : 0 <= Bp.

(* the normalised products have the value of the products, exactly *)
Lemma terms_value (Xs ts : list (list Z)) :
  Forall (fun X => length X = size /\ bnd Bp X) Xs -> Bp <= 2 ^ (wb - 2) ->
  Forall2 (fun X t => bnorm wb b b X (zeros size) = Some t) Xs ts ->
  Forall (fun t => length t = size /\ bnd (2 ^ (b - 1)) t) ts /\ length ts = length Xs /\
  forall P, zn size * b <= P -> 1 <= P -> exists q, lvsum P b size ts = lvsum P b size Xs + q * 2 ^ P.
Proof.
  intros HX HB H2. induction H2 as [|X t Xs ts Hn H2 IH].
  - split; [constructor|]. split; [reflexivity|]. intros P _ _. exists 0. cbn. lia.
  - inversion HX as [|? ? [HXl HXb] HX']; subst.
    destruct (IH HX') as (F & L & V).
    assert (HF : Forall (fun x => Z.abs x <= 2 ^ (wb - 2)) X).
    { apply Forall_of_bnd. eapply bnd_weaken; [|exact HXb]. lia. }
    destruct (normalize_value_ok_big b b X (zeros (length X)) t Hb Hb HF Hn) as (Lt & Rt & Vt).
    rewrite zeros_length in Lt.
    split; [|split].
    + constructor; [|exact F]. split; [exact Lt|]. apply bnd_in_range; [lia|]. apply Rt. reflexivity.
    + cbn [length]. lia.
    + intros P HP HP1. destruct (V P HP HP1) as [q Hq].
      destruct (Vt P) as [_ Ex]; rewrite ?zeros_length; try lia.
      specialize (Ex ltac:(rewrite zeros_length; lia)).
      destruct (tor_abs_zero_cong P _ HP1 Ex) as [q1 Hq1].
      rewrite !val_scaled_lval, Lt in Hq1.
      exists (q + q1). unfold lvsum in *. cbn [fold_right]. lia.
Qed.

Theorem sk_roundtrip_coeff (Xs ts : list (list Z)) (e : Z) (m body d : list Z) :
  Forall (fun X => length X = size /\ bnd Bp X) Xs ->
  Forall2 (fun X t => bnorm wb b b X (zeros size) = Some t) Xs ts ->
  Z.abs e <= E -> bnd M m ->
  zn (length Xs) * 2 ^ (b - 1) + E + M <= 2 ^ 62 ->
  zn (length Xs) * Bp + 2 ^ (b - 1) <= 2 ^ (wb - 2) -> Bp <= 2 ^ (wb - 2) ->
  sk_body_coeff b size ell ts e (Some m) = Some body ->
  dec_coeff wb b pb size psize Xs body = Some d ->
  length body = size /\ Forall (in_range b) body /\ length d = psize /\
  forall P, zn size * b <= P -> zn psize * pb <= P -> 1 <= P ->
    (exists q, lval P b size body + lvsum P b size Xs = lval P b size m + e * wt P b ell + q * 2 ^ P) /\
    tor_abs P (val_scaled P pb d - val_scaled P b (firstn size m) - e * wt P b ell) <= 2 ^ (P - zn psize * pb).
Proof.
  intros HX H2 He Hm Hh64 Hhb HBp' Henc Hdec.
  pose proof (pow2_pos (b - 1) ltac:(lia)) as Hpb1.
  assert (HE : 0 <= E) by lia.
  assert (HM : 0 <= M) by (specialize (Hm O); lia).
  destruct (terms_value Xs ts HX HBp' H2) as (Ft & Lts & Vts).
  (* ---- encryption ---- *)
  unfold sk_body_coeff in Henc.
  set (c0 := fold_left (fun c t => l_sub_assign 64 t c) ts (zeros size)) in Henc.
  destruct (fold_sub_nowrap 64 ltac:(lia) size (2 ^ (b - 1)) ltac:(lia) ts (zeros size) 0
              (zeros_length size) (bnd_zeros size) Ft ltac:(rewrite Lts; lia)) as (L0 & N0 & B0).
  fold c0 in L0, N0, B0. rewrite Lts in B0.
  set (c1 := l_add_at 64 ell e c0) in Henc.
  destruct (l_add_at_nowrap 64 ltac:(lia) ell e c0 E _ He B0 ltac:(lia)) as (L1 & N1 & B1). fold c1 in L1, N1, B1.
  set (c2 := l_add_assign 64 m c1) in Henc.
  destruct (l_add_assign_nowrap 64 ltac:(lia) m c1 M _ Hm B1 ltac:(lia)) as (L2 & N2 & B2). fold c2 in L2, N2, B2.
  assert (HF2 : Forall (fun x => Z.abs x <= 2 ^ 62) c2).
  { apply Forall_of_bnd. eapply bnd_weaken; [|exact B2]. lia. }
  destruct (normalize_value_ok_small b b c2 (zeros size) body Hb Hb HF2 Henc) as (Lb & Rb & Vb).
  rewrite zeros_length in Lb. specialize (Rb eq_refl).
  assert (Bb : bnd (2 ^ (b - 1)) body) by (apply bnd_in_range; [lia|exact Rb]).
  (* ---- decryption ---- *)
  unfold dec_coeff in Hdec.
  set (acc := fold_left (fun c p => l_add_assign wb p c) Xs (zeros size)) in Hdec.
  pose proof (pow2_le_half wb Hwb) as Hhalf.
  destruct (fold_add_nowrap wb ltac:(lia) size Bp HBp Xs (zeros size) 0
              (zeros_length size) (bnd_zeros size) HX ltac:(lia)) as (La & Na & Ba).
  fold acc in La, Na, Ba.
  set (acc' := l_add_assign wb body acc) in Hdec.
  destruct (l_add_assign_nowrap wb ltac:(lia) body acc _ _ Bb Ba ltac:(lia)) as (La' & Na' & Ba'). fold acc' in La', Na', Ba'.
  assert (HFa : Forall (fun x => Z.abs x <= 2 ^ (wb - 2)) acc').
  { apply Forall_of_bnd. eapply bnd_weaken; [|exact Ba']. lia. }
  destruct (normalize_value_ok_big pb b acc' (zeros psize) d Hpb Hb HFa Hdec) as (Ld & _ & Vd).
  rewrite zeros_length in Ld.
  split; [exact Lb|]. split; [exact Rb|]. split; [exact Ld|].
  intros P HP HPp HP1.
  (* values *)
  assert (V0 : lval P b size c0 = - lvsum P b size ts).
  { unfold lval. rewrite (sumz_ext _ (fun j => 0 * wt P b j - lsum_at ts j * wt P b j)).
    - rewrite sumz_sub, lval_lsum_at. rewrite sumz_zero' by (intros; lia). lia.
    - intros j _. rewrite N0, nthZ_zeros. lia. }
  assert (V1 : lval P b size c1 = lval P b size c0 + e * wt P b ell).
  { unfold lval. rewrite <- (sumz_single e (wt P b) ell size Hell). rewrite <- sumz_add.
    apply sumz_ext. intros j Hj. rewrite N1 by lia. lia. }
  assert (V2 : lval P b size c2 = lval P b size c1 + lval P b size m).
  { unfold lval. rewrite <- sumz_add. apply sumz_ext. intros j Hj. rewrite N2 by lia. lia. }
  assert (Lc2 : length c2 = size) by lia.
  destruct (Vb P ltac:(rewrite zeros_length; lia) ltac:(rewrite Lc2; lia)) as [_ Exb].
  specialize (Exb ltac:(rewrite zeros_length, Lc2; lia)).
  destruct (tor_abs_zero_cong P _ HP1 Exb) as [qb Hqb].
  rewrite !val_scaled_lval, Lb, L2, L1, L0 in Hqb.
  destruct (Vts P HP HP1) as [qt Hqt].
  assert (Hphase : lval P b size body + lvsum P b size Xs = lval P b size m + e * wt P b ell + (qb - qt) * 2 ^ P) by lia.
  split; [exists (qb - qt); exact Hphase|].
  assert (Va : lval P b size acc' = lvsum P b size Xs + lval P b size body).
  { unfold lval at 1. rewrite (sumz_ext _ (fun j => lsum_at Xs j * wt P b j + nthZ body j * wt P b j)).
    - rewrite sumz_add, lval_lsum_at. reflexivity.
    - intros j Hj. rewrite Na' by lia. rewrite Na, nthZ_zeros. lia. }
  assert (Lacc : length acc' = size) by lia.
  destruct (Vd P ltac:(rewrite zeros_length; lia) ltac:(rewrite Lacc; lia)) as [Un _].
  rewrite zeros_length in Un.
  rewrite (val_scaled_lval P b acc'), La', La in Un.
  rewrite lval_firstn.
  replace (val_scaled P pb d - lval P b size m - e * wt P b ell)
    with ((val_scaled P pb d - lval P b size acc') + (qb - qt) * 2 ^ P) by lia.
  rewrite tor_abs_shift by lia. exact Un.
Qed.

End SkCoeff.
