(* C02: the named phase theorems, the in-place = out-of-place theorem, the sufficient no-wrap condition, and the
   witness that glwe_sub_negate_assign with a rank-0 operand does not compute a - res. *)
From PV Require Import Base.MachineInt Model.Znx Model.Limbs Model.Flat Model.Ring Model.DftAbs Model.C02Ops
                       Proofs.C02Poly Proofs.C02Exact Proofs.C02Canon Proofs.C02Phase Proofs.C02Value.
Open Scope Z_scope.

Section Named.
Variables (n : nat) (s : list (list Z)).
Hypothesis Hs : secret_ok n s.

Lemma canon_phase F res x y r : Flin n s F -> wf_glwe n x -> wf_glwe n y ->
  r = gmap2 F n res x y /\ (g_ncols x <= g_ncols res)%nat /\ (g_ncols y <= g_ncols res)%nat ->
  phase n s r = pt_map2 F n (g_size res) (phase n s x) (phase n s y).
Proof. intros HF Hx Hy (-> & Cx & Cy). apply phase_gmap2; assumption. Qed.

(* ---- add ---- *)
Theorem phase_add res a b r : wf_glwe n res -> wf_glwe n a -> wf_glwe n b ->
  (forall i j, vadd W64 (gl n a i j) (gl n b i j) = padd (gl n a i j) (gl n b i j)) ->
  glwe_add_into n res a b = Some r ->
  phase n s r = pt_map2 Fadd n (g_size res) (phase n s a) (phase n s b).
Proof.
  intros Hr Ha Hb Hw He. apply canon_phase; try assumption; [apply Flin_add; exact Hs|].
  eapply add_into_canon; eauto.
Qed.
Theorem phase_add_assign res a r : wf_glwe n res -> wf_glwe n a ->
  (forall i j, vadd W64 (gl n res i j) (gl n a i j) = padd (gl n res i j) (gl n a i j)) ->
  glwe_add_assign n res a = Some r ->
  phase n s r = pt_map2 Fadd n (g_size res) (phase n s res) (phase n s a).
Proof.
  intros Hr Ha Hw He. apply canon_phase; try assumption; [apply Flin_add; exact Hs|].
  eapply add_assign_canon; eauto.
Qed.

(* ---- sub ---- *)
Theorem phase_sub res a b r : wf_glwe n res -> wf_glwe n a -> wf_glwe n b ->
  (forall i j, vsub W64 (gl n a i j) (gl n b i j) = psub (gl n a i j) (gl n b i j)) ->
  glwe_sub n res a b = Some r ->
  phase n s r = pt_map2 Fsub n (g_size res) (phase n s a) (phase n s b).
Proof.
  intros Hr Ha Hb Hw He. apply canon_phase; try assumption; [apply Flin_sub; exact Hs|].
  eapply sub_canon; eauto.
Qed.
Theorem phase_sub_assign res a r : wf_glwe n res -> wf_glwe n a ->
  (forall i j, vsub W64 (gl n res i j) (gl n a i j) = psub (gl n res i j) (gl n a i j)) ->
  glwe_sub_assign n res a = Some r ->
  phase n s r = pt_map2 Fsub n (g_size res) (phase n s res) (phase n s a).
Proof.
  intros Hr Ha Hw He. apply canon_phase; try assumption; [apply Flin_sub; exact Hs|].
  eapply sub_assign_canon; eauto.
Qed.
Theorem phase_sub_negate_assign res a r : wf_glwe n res -> wf_glwe n a ->
  (forall i j, vsub W64 (gl n a i j) (gl n res i j) = psub (gl n a i j) (gl n res i j)) ->
  glwe_sub_negate_assign n res a = Some r ->
  phase n s r = pt_map2 Fsub n (g_size res) (phase n s a) (phase n s res).
Proof.
  intros Hr Ha Hw He. apply canon_phase; try assumption; [apply Flin_sub; exact Hs|].
  eapply sub_negate_assign_canon; eauto.
Qed.

(* ---- negate / copy ---- *)
Theorem phase_negate res a r : wf_glwe n res -> wf_glwe n a ->
  (forall i j, vneg W64 (gl n a i j) = pneg (gl n a i j)) ->
  glwe_negate n res a = Some r ->
  phase n s r = pt_map2 Fneg n (g_size res) (phase n s a) (phase n s a).
Proof.
  intros Hr Ha Hw He. apply canon_phase; try assumption; [apply Flin_neg; exact Hs|].
  eapply negate_canon; eauto.
Qed.
Theorem phase_negate_assign res r : wf_glwe n res ->
  (forall i j, vneg W64 (gl n res i j) = pneg (gl n res i j)) ->
  glwe_negate_assign n res = Some r ->
  phase n s r = pt_map2 Fneg n (g_size res) (phase n s res) (phase n s res).
Proof.
  intros Hr Hw He. apply canon_phase; try assumption; [apply Flin_neg; exact Hs|].
  eapply negate_assign_canon; eauto.
Qed.
Theorem phase_copy res a r : wf_glwe n res -> wf_glwe n a ->
  glwe_copy n res a = Some r ->
  phase n s r = pt_map2 Fid n (g_size res) (phase n s a) (phase n s a).
Proof.
  intros Hr Ha He. apply canon_phase; try assumption; [apply Flin_id|].
  eapply copy_canon; eauto.
Qed.

(* ---- rotate / mul_xp_minus_one, every k in Z ---- *)
Theorem phase_rotate k res a r : wf_glwe n res -> wf_glwe n a ->
  (forall i j, znx_rotate W64 k (gl n a i j) = xmono k (gl n a i j)) ->
  glwe_rotate n k res a = Some r ->
  phase n s r = pt_map2 (Frot k) n (g_size res) (phase n s a) (phase n s a).
Proof.
  intros Hr Ha Hw He. apply canon_phase; try assumption; [apply Flin_rot; exact Hs|].
  eapply rotate_canon; eauto.
Qed.
Theorem phase_rotate_assign scr k res r : wf_glwe n res ->
  (forall i j, znx_rotate W64 k (gl n res i j) = xmono k (gl n res i j)) ->
  glwe_rotate_assign n scr k res = Some r ->
  phase n s r = pt_map2 (Frot k) n (g_size res) (phase n s res) (phase n s res).
Proof.
  intros Hr Hw He. apply canon_phase; try assumption; [apply Flin_rot; exact Hs|].
  eapply rotate_assign_canon; eauto.
Qed.
(* readable corollary: equal limb counts -> phase(rot_k ct) = X^k * phase(ct), limb by limb *)
Lemma pt_map2_same_size F g : pt_map2 F n (g_size g) (phase n s g) (phase n s g) = map (fun l => F l l) (phase n s g).
Proof.
  unfold pt_map2. rewrite (map_as_build (fun l => F l l)). rewrite phase_length. apply build_ext. intros j Hj.
  rewrite cl_in by (rewrite phase_length; exact Hj). reflexivity.
Qed.
Corollary phase_rotate_same_size k res a r : wf_glwe n res -> wf_glwe n a -> g_size a = g_size res ->
  (forall i j, znx_rotate W64 k (gl n a i j) = xmono k (gl n a i j)) ->
  glwe_rotate n k res a = Some r ->
  phase n s r = map (xmono k) (phase n s a).
Proof.
  intros Hr Ha Hsz Hw He. rewrite (phase_rotate k res a r Hr Ha Hw He). rewrite <- Hsz.
  apply (pt_map2_same_size (Frot k)).
Qed.

Theorem phase_mul_xp_minus_one k res a r : wf_glwe n res -> wf_glwe n a ->
  (forall i j, vsub W64 (znx_rotate W64 k (gl n a i j)) (gl n a i j) = xmono_m1 k (gl n a i j)) ->
  glwe_mul_xp_minus_one n k res a = Some r ->
  phase n s r = pt_map2 (Fmx1 k) n (g_size res) (phase n s a) (phase n s a).
Proof.
  intros Hr Ha Hw He. apply canon_phase; try assumption; [apply Flin_mx1; exact Hs|].
  eapply mul_xp_canon; eauto.
Qed.
Theorem phase_mul_xp_minus_one_assign scr k res r : wf_glwe n res ->
  (forall i j, vsub W64 (znx_rotate W64 k (gl n res i j)) (gl n res i j) = xmono_m1 k (gl n res i j)) ->
  glwe_mul_xp_minus_one_assign n scr k res = Some r ->
  phase n s r = pt_map2 (Fmx1 k) n (g_size res) (phase n s res) (phase n s res).
Proof.
  intros Hr Hw He. apply canon_phase; try assumption; [apply Flin_mx1; exact Hs|].
  eapply mul_xp_assign_canon; eauto.
Qed.

End Named.

(* ---------------------------------------------------------------- in-place = out-of-place applied to itself *)
(* the out-of-place call that an in-place opcode stands for *)
Definition as_out_of_place (opc : Z) (n : nat) (k : Z) (res a : glwe) : option glwe :=
  match opc with
  | 2 => glwe_add_into n res res a
  | 4 => glwe_sub n res res a
  | 5 => glwe_sub n res a res
  | 7 => glwe_negate n res res
  | 10 => glwe_rotate n k res res
  | 12 => glwe_mul_xp_minus_one n k res res
  | _ => None
  end.

Theorem assign_eq n opc scr k res a b r1 r2 :
  wf_glwe n res -> wf_glwe n a -> wf_glwe n b ->
  step_exact n opc k res a b ->
  exec_op opc n scr k res a b = Some r1 ->
  as_out_of_place opc n k res a = Some r2 ->
  r1 = r2.
Proof.
  intros Hres Ha Hb Hstep H1 H2.
  assert (Hc : opc = 2 \/ opc = 4 \/ opc = 5 \/ opc = 7 \/ opc = 10 \/ opc = 12).
  { unfold as_out_of_place in H2. destruct opc as [|p|p]; try discriminate.
    repeat (match goal with q : positive |- _ => destruct q end; try (cbn in H2; discriminate)); lia. }
  destruct Hc as [-> | [-> | [-> | [-> | [-> | ->]]]]]; cbn [as_out_of_place exec_op] in *;
    unfold step_exact in Hstep; cbn [exact_F Fw pick3] in Hstep; rename Hstep into Hw.
  - destruct (add_assign_canon n res a r1 Hres Ha Hw H1) as (-> & _).
    destruct (add_into_canon n res res a r2 Hres Hres Ha Hw H2) as (-> & _). reflexivity.
  - destruct (sub_assign_canon n res a r1 Hres Ha Hw H1) as (-> & _).
    destruct (sub_canon n res res a r2 Hres Hres Ha Hw H2) as (-> & _). reflexivity.
  - destruct (sub_negate_assign_canon n res a r1 Hres Ha Hw H1) as (-> & _).
    destruct (sub_canon n res a res r2 Hres Ha Hres Hw H2) as (-> & _). reflexivity.
  - destruct (negate_assign_canon n res r1 Hres Hw H1) as (-> & _).
    destruct (negate_canon n res res r2 Hres Hres Hw H2) as (-> & _). reflexivity.
  - destruct (rotate_assign_canon n scr k res r1 Hres Hw H1) as (-> & _).
    destruct (rotate_canon n k res res r2 Hres Hres Hw H2) as (-> & _). reflexivity.
  - destruct (mul_xp_assign_canon n scr k res r1 Hres Hw H1) as (-> & _).
    destruct (mul_xp_canon n k res res r2 Hres Hres Hw H2) as (-> & _). reflexivity.
Qed.

(* ---------------------------------------------------------------- a sufficient condition for step_exact *)
(* every stored word has magnitude below 2^62 (library digits are below 2^(base2k-1), base2k <= 62) *)
Definition gsmall (g : glwe) : Prop := Forall (Forall small) (g_cols g).

Lemma gsmall_gl n g i j : gsmall g -> small (gl n g i j).
Proof.
  intros H. unfold gl. destruct (_ && _)%bool; [|apply small_pzero].
  unfold gcol. unfold gsmall in H.
  destruct (Nat.lt_ge_cases i (length (g_cols g))) as [Hi|Hi].
  - rewrite Forall_forall in H. specialize (H _ (nth_In _ [] Hi)).
    destruct (Nat.lt_ge_cases j (length (nth i (g_cols g) []))) as [Hj|Hj].
    + rewrite Forall_forall in H. apply H. apply nth_In. exact Hj.
    + rewrite (nth_overflow _ _ Hj). constructor.
  - rewrite (nth_overflow _ _ Hi). destruct j; constructor.
Qed.

Theorem step_exact_small n opc k res a b F ix iy :
  exact_F opc k = Some (F, ix, iy) ->
  wf_glwe n res -> wf_glwe n a -> wf_glwe n b ->
  gsmall res -> gsmall a -> gsmall b ->
  step_exact n opc k res a b.
Proof.
  intros HF Hres Ha Hb Sr Sa Sb. unfold step_exact. rewrite HF.
  unfold exact_F in HF. destruct opc as [|p|p]; try discriminate.
  repeat (match goal with q : positive |- _ => destruct q end; try (cbn in HF; discriminate)).
  all: injection HF as <- <- <-; cbn [Fw pick3]; intros i j.
  all: unfold Fadd, Fsub, Fneg, Fid, Frot, Fmx1.
  all: try reflexivity.
  all: first [ apply small_vadd | apply small_vsub | apply small_vneg | apply small_rotate | apply small_mul_xp ];
       try (apply gsmall_gl; assumption); rewrite !gl_length by assumption; reflexivity.
Qed.

(* ---------------------------------------------------------------- regression instance of the repaired glwe_sub_negate_assign *)
(* res of rank 1, a of rank 0 (a plaintext), n = 1, one limb:  res = (5, 7), a = (1), s = (1).
   Before repair efc2285 the mask 7 kept its sign (phase 3); now phase = (1 - 5) - 7 = -11 = a - phase(res). *)
Definition cx_res : glwe := {| g_b := 10; g_n := 1; g_size := 1; g_cols := [[[5]]; [[7]]] |}.
Definition cx_a : glwe := {| g_b := 10; g_n := 1; g_size := 1; g_cols := [[[1]]] |}.
Lemma sub_negate_assign_rank0_instance :
  exists r, glwe_sub_negate_assign 1 cx_res cx_a = Some r /\ phase 1 [[1]] r = [[-11]] /\
            phase 1 [[1]] r = pt_map2 Fsub 1 (g_size cx_res) (phase 1 [[1]] cx_a) (phase 1 [[1]] cx_res).
Proof. eexists. repeat split; vm_compute; reflexivity. Qed.

(* ---------------------------------------------------------------- GGSW: the operation acts entry by entry *)
Theorem ggsw_rotate_entrywise n k res a r : ggsw_rotate n k res a = Some r ->
  gs_rank r = gs_rank res /\ gs_dnum r = gs_dnum res /\
  forall row col, (row < gs_dnum res)%nat -> (col <= gs_rank res)%nat ->
    glwe_rotate n k (gs_at res row col) (gs_at a row col) = Some (gs_at r row col).
Proof.
  unfold ggsw_rotate. destruct (_ && _)%bool; [|discriminate]. unfold ggsw_map_opt.
  destruct (sequence _) as [rows|] eqn:E; [|discriminate]. intros [= <-]. cbn [gs_rank].
  destruct (sequence_some _ _ E) as [Hl Hn]. rewrite map_seq_length in Hl.
  split; [reflexivity|]. split; [exact Hl|]. intros row col Hrow Hcol.
  specialize (Hn row None [] ltac:(rewrite map_seq_length; exact Hrow)).
  rewrite nth_map_seq in Hn by exact Hrow.
  destruct (sequence_some _ _ Hn) as [Hl2 Hn2]. rewrite map_seq_length in Hl2.
  specialize (Hn2 col None (zero_glwe 0 0 0 0) ltac:(rewrite map_seq_length; lia)).
  rewrite nth_map_seq in Hn2 by lia. exact Hn2.
Qed.

Theorem ggsw_rotate_assign_entrywise n scr k res r : ggsw_rotate_assign n scr k res = Some r ->
  gs_rank r = gs_rank res /\ gs_dnum r = gs_dnum res /\
  forall row col, (row < gs_dnum res)%nat -> (col <= gs_rank res)%nat ->
    glwe_rotate_assign n scr k (gs_at res row col) = Some (gs_at r row col).
Proof.
  unfold ggsw_rotate_assign. destruct (_ <=? _); [|discriminate]. unfold ggsw_map_opt.
  destruct (sequence _) as [rows|] eqn:E; [|discriminate]. intros [= <-]. cbn [gs_rank].
  destruct (sequence_some _ _ E) as [Hl Hn]. rewrite map_seq_length in Hl.
  split; [reflexivity|]. split; [exact Hl|]. intros row col Hrow Hcol.
  specialize (Hn row None [] ltac:(rewrite map_seq_length; exact Hrow)).
  rewrite nth_map_seq in Hn by exact Hrow.
  destruct (sequence_some _ _ Hn) as [Hl2 Hn2]. rewrite map_seq_length in Hl2.
  specialize (Hn2 col None (zero_glwe 0 0 0 0) ltac:(rewrite map_seq_length; lia)).
  rewrite nth_map_seq in Hn2 by lia. exact Hn2.
Qed.

Theorem phase_ggsw_rotate n s k res a r : secret_ok n s -> ggsw_rotate n k res a = Some r ->
  forall row col, (row < gs_dnum res)%nat -> (col <= gs_rank res)%nat ->
  wf_glwe n (gs_at res row col) -> wf_glwe n (gs_at a row col) ->
  (forall i j, znx_rotate W64 k (gl n (gs_at a row col) i j) = xmono k (gl n (gs_at a row col) i j)) ->
  phase n s (gs_at r row col) =
  pt_map2 (Frot k) n (g_size (gs_at res row col)) (phase n s (gs_at a row col)) (phase n s (gs_at a row col)).
Proof.
  intros Hs He row col Hrow Hcol Wr Wa Hw.
  destruct (ggsw_rotate_entrywise n k res a r He) as (_ & _ & Hent).
  apply (phase_rotate n s Hs k _ _ _ Wr Wa Hw (Hent row col Hrow Hcol)).
Qed.

Theorem phase_ggsw_rotate_assign n s scr k res r : secret_ok n s -> ggsw_rotate_assign n scr k res = Some r ->
  forall row col, (row < gs_dnum res)%nat -> (col <= gs_rank res)%nat ->
  wf_glwe n (gs_at res row col) ->
  (forall i j, znx_rotate W64 k (gl n (gs_at res row col) i j) = xmono k (gl n (gs_at res row col) i j)) ->
  phase n s (gs_at r row col) =
  pt_map2 (Frot k) n (g_size (gs_at res row col)) (phase n s (gs_at res row col)) (phase n s (gs_at res row col)).
Proof.
  intros Hs He row col Hrow Hcol Wr Hw.
  destruct (ggsw_rotate_assign_entrywise n scr k res r He) as (_ & _ & Hent).
  apply (phase_rotate_assign n s Hs scr k _ _ Wr Hw (Hent row col Hrow Hcol)).
Qed.
