(* C17 - addressing logic of the layouts: what Inv gives the accessors, which constructors establish it. *)
From PV Require Import Base.MachineInt Model.C12Scratch Model.C17Mem.
Open Scope Z_scope.

Lemma Invb_spec (v : vhdr) : Invb v = true <-> Inv v.
Proof. unfold Invb, Inv. rewrite !andb_true_iff, !Z.leb_le. tauto. Qed.
Lemma wf_vb_spec (v : vhdr) : wf_vb v = true <-> wf_v v.
Proof. unfold wf_vb, wf_v. rewrite !andb_true_iff, !Z.leb_le, Z.ltb_lt. tauto. Qed.

(* q*w <= len -> q <= len / w *)
Lemma words_le_cap (q len w : Z) : 0 < w -> q * w <= len -> q <= len / w.
Proof. intros Hw H. apply Z.div_le_lower_bound; lia. Qed.

Lemma round64_ge (x : Z) : x <= round64 x.
Proof. unfold round64. lia. Qed.
Lemma round64_aligned (x : Z) : round64 x mod 64 = 0.
Proof. unfold round64. apply Z.mod_mul. lia. Qed.

(* ------------------------------------------------------------------------------------------------ *)
(* accessors *)

Lemma limb_index_le (cols size i j : Z) :
  0 <= i < cols -> 0 <= j < size -> j * cols + i + 1 <= size * cols.
Proof. intros Hi Hj. nia. Qed.

(* ZnxView::at / at_mut: the n scalars of limb j of column i lie inside the buffer *)
Lemma at_in_bounds (v : vhdr) (i j : Z) :
  wf_v v -> Inv v -> 0 <= i < v_cols v -> 0 <= j < v_size v ->
  0 <= at_off v i j /\ at_end v i j <= cap_words v.
Proof.
  intros (Hn & Hc & Hs & Hm & Hl & Hw) (H1 & H2 & H3) Hi Hj.
  unfold at_end, at_off, cap_words.
  pose proof (limb_index_le _ _ _ _ Hi Hj) as Hk.
  split; [nia|].
  apply words_le_cap; [exact Hw|].
  assert (v_n v * (j * v_cols v + i) + v_n v <= v_n v * (v_size v * v_cols v)) by nia.
  nia.
Qed.

(* the same in bytes, as the hook checks it *)
Lemma at_in_bounds_bytes (v : vhdr) (i j : Z) :
  wf_v v -> Inv v -> 0 <= i < v_cols v -> 0 <= j < v_size v ->
  at_end v i j * v_w v <= v_len v.
Proof.
  intros (Hn & Hc & Hs & Hm & Hl & Hw) (H1 & H2 & H3) Hi Hj.
  unfold at_end, at_off.
  pose proof (limb_index_le _ _ _ _ Hi Hj) as Hk.
  assert (v_n v * (j * v_cols v + i) + v_n v <= v_n v * (v_size v * v_cols v)) by nia.
  nia.
Qed.

(* limbs up to the CAPACITY are inside too: what makes set_size within max_size harmless *)
Lemma at_in_bounds_cap (v : vhdr) (i j : Z) :
  wf_v v -> Inv v -> 0 <= i < v_cols v -> 0 <= j < v_max v ->
  at_end v i j <= cap_words v.
Proof.
  intros (Hn & Hc & Hs & Hm & Hl & Hw) (H1 & H2 & H3) Hi Hj.
  unfold at_end, at_off, cap_words.
  pose proof (limb_index_le _ _ _ _ Hi Hj) as Hk.
  apply words_le_cap; [exact Hw|].
  assert (v_n v * (j * v_cols v + i) + v_n v <= v_n v * (v_max v * v_cols v)) by nia.
  nia.
Qed.

(* distinct (column, limb) pairs address disjoint word ranges *)
Lemma at_disjoint (v : vhdr) (i j i' j' : Z) :
  0 <= v_n v -> 0 <= i < v_cols v -> 0 <= i' < v_cols v -> 0 <= j -> 0 <= j' -> (i, j) <> (i', j') ->
  at_end v i j <= at_off v i' j' \/ at_end v i' j' <= at_off v i j.
Proof.
  intros Hn Hi Hi' Hj Hj' Hne. unfold at_end, at_off.
  assert (j * v_cols v + i <> j' * v_cols v + i') as Hd.
  { intros E. apply Hne. assert (j = j') by nia. subst. f_equal. lia. }
  destruct (Z.lt_ge_cases (j * v_cols v + i) (j' * v_cols v + i')); [left|right]; nia.
Qed.

Lemma raw_in_bounds (v : vhdr) : wf_v v -> Inv v -> raw_words v * v_w v <= v_len v /\ raw_words v <= cap_words v.
Proof.
  intros (Hn & Hc & Hs & Hm & Hl & Hw) (H1 & H2 & H3). unfold raw_words, cap_words.
  assert (v_n v * (1 * v_cols v * v_size v) * v_w v <= v_len v) by nia.
  split; [assumption | apply words_le_cap; assumption].
Qed.

(* the hook's checks are exactly these statements: under Inv they never fire *)
Lemma hook_silent (v : vhdr) (i j : Z) :
  wf_v v -> Inv v -> 0 <= i < v_cols v -> 0 <= j < v_size v -> hook_at_ok v i j = true /\ hook_raw_ok v = true.
Proof.
  intros Hwf HI Hi Hj. unfold hook_at_ok, hook_raw_ok. rewrite !Z.leb_le.
  split; [apply at_in_bounds; assumption | apply raw_in_bounds; assumption].
Qed.

(* conversely, when the hook's raw check passes, the first clause of Inv holds *)
Lemma hook_raw_complete (v : vhdr) : hook_raw_ok v = true -> v_n v * v_cols v * v_size v * v_w v <= v_len v.
Proof. unfold hook_raw_ok, raw_words. rewrite Z.leb_le. nia. Qed.

(* ------------------------------------------------------------------------------------------------ *)
(* resizing *)

Lemma set_size_preserves_inv (v v' : vhdr) (s : Z) :
  wf_v v -> Inv v -> 0 <= s -> v_set_size v s = Some v' ->
  wf_v v' /\ Inv v' /\ v_size v' = s /\ v_max v' = v_max v /\ v_len v' = v_len v.
Proof.
  intros (Hn & Hc & Hs & Hm & Hl & Hw) (H1 & H2 & H3) Hs0. unfold v_set_size.
  destruct (Z.leb_spec s (v_max v)) as [Hle|]; [|discriminate]. intros E; inversion E; subst; clear E.
  unfold wf_v, Inv; cbn.
  assert (0 <= v_n v * v_cols v * v_w v) by nia.
  assert (v_n v * v_cols v * s * v_w v <= v_n v * v_cols v * v_max v * v_w v) by nia.
  repeat split; lia.
Qed.

(* without the assert (mutation (c) of the self-test) the statement is false *)
Lemma set_size_unchecked_refuted :
  exists v s, wf_v v /\ Inv v /\ 0 <= s /\ ~ Inv (mkV (v_n v) (v_cols v) s (v_max v) (v_len v) (v_w v)).
Proof.
  exists (mkV 4 1 2 2 64 8), 3. unfold wf_v, Inv; cbn. repeat split; try lia.
Qed.

Lemma alloc_inv (n cols size w : Z) :
  0 <= n -> 0 <= cols -> 0 <= size -> 0 < w -> wf_v (v_alloc n cols size w) /\ Inv (v_alloc n cols size w).
Proof.
  intros Hn Hc Hs Hw. unfold v_alloc, wf_v, Inv, bytes_of; cbn.
  pose proof (round64_ge (n * cols * size * w)).
  assert (0 <= n * cols * size * w) by nia. repeat split; lia.
Qed.

Lemma realloc_inv (v : vhdr) (new_size : Z) :
  wf_v v -> Inv v -> 0 <= new_size -> wf_v (v_realloc v new_size) /\ Inv (v_realloc v new_size) /\ v_size (v_realloc v new_size) = new_size.
Proof.
  intros Hwf HI Hs. unfold v_realloc. destruct (Z.eqb_spec (v_size v) new_size) as [E|E].
  - auto.
  - destruct Hwf as (Hn & Hc & _ & _ & _ & Hw). destruct (alloc_inv (v_n v) (v_cols v) new_size (v_w v)) as (A & B); auto.
Qed.

Lemma from_bytes_inv (n cols size w len : Z) (v : vhdr) :
  0 <= n -> 0 <= cols -> 0 <= size -> 0 < w -> v_from_bytes n cols size w len = Some v -> wf_v v /\ Inv v.
Proof.
  intros Hn Hc Hs Hw. unfold v_from_bytes, bytes_of. destruct (Z.eqb_spec len (n * cols * size * w)); [|discriminate].
  intros E; inversion E; subst. unfold wf_v, Inv; cbn. assert (0 <= n * cols * size * w) by nia. repeat split; lia.
Qed.

(* from_data establishes Inv exactly when the caller's buffer is large enough: nothing checks it *)
Lemma from_data_inv_iff (len n cols size w : Z) :
  Inv (v_from_data len n cols size w) <-> n * cols * size * w <= len.
Proof. unfold Inv, v_from_data; cbn. lia. Qed.
Lemma from_data_refuted : exists len n cols size w, 0 <= len /\ 0 < w /\ ~ Inv (v_from_data len n cols size w).
Proof. exists 8, 4, 1, 1, 8. rewrite from_data_inv_iff. lia. Qed.

Lemma to_ref_inv (v : vhdr) : Inv v -> Inv (v_to_ref v) /\ v_to_ref v = v.
Proof. destruct v; cbn; auto. Qed.

Lemma into_big_inv (v : vhdr) (w_big : Z) :
  wf_v v -> Inv v -> 0 < w_big <= v_w v -> Inv (v_into_big v w_big).
Proof.
  intros (Hn & Hc & Hs & Hm & Hl & Hw) (H1 & H2 & H3) Hb. unfold v_into_big. rewrite from_data_inv_iff.
  assert (0 <= v_n v * v_cols v * v_size v) by nia. nia.
Qed.

Lemma scalar_as_vec_inv (v : vhdr) : v_size v = 1 -> v_max v = 1 -> Inv v -> Inv (v_scalar_as_vec v).
Proof. intros E1 E2 (H1 & H2 & H3). unfold Inv, v_scalar_as_vec; cbn. rewrite E1 in H1. lia. Qed.

Lemma as_scalar_inv (v : vhdr) : Inv (v_as_scalar v).
Proof. unfold Inv, v_as_scalar; cbn. lia. Qed.

(* ------------------------------------------------------------------------------------------------ *)
(* deserialisation *)

Definition wf_s (h : stream_hdr) : Prop := 0 <= sh_n h /\ 0 <= sh_cols h /\ 0 <= sh_size h /\ 0 <= sh_max h.

(* read_from (after repair 206cd69) leaves a well-formed receiver whatever the stream says *)
Lemma read_from_establishes_inv (v v' : vhdr) (h : stream_hdr) (avail : Z) :
  wf_v v -> v_w v = 8 -> wf_s h -> v_read_from v h avail = ROk v' ->
  wf_v v' /\ Inv v' /\ v_len v' = v_len v /\ v_size v' = sh_size h /\ v_max v' <= sh_max h.
Proof.
  intros (Hn & Hc & Hs & Hm & Hl & Hw) Hw8 (Sn & Sc & Ss & Sm). unfold v_read_from.
  destruct ((U64 <=? sh_n h * sh_cols h) || (U64 <=? sh_n h * sh_cols h * 8) || (U64 <=? sh_n h * sh_cols h * 8 * sh_size h)); [discriminate|].
  destruct (Z.eqb_spec (sh_n h * sh_cols h * 8 * sh_size h) (sh_len h)) as [E|]; [|discriminate]. cbn [negb].
  destruct (Z.ltb_spec (sh_max h) (sh_size h)); [discriminate|].
  destruct (Z.ltb_spec (v_len v) (sh_len h)); [discriminate|].
  destruct (Z.ltb_spec avail (sh_len h)); [discriminate|].
  intros R; inversion R; subst; clear R. unfold wf_v, Inv; cbn. rewrite Hw8.
  assert (0 <= sh_n h * sh_cols h) as Hnc by nia.
  destruct (Z.eqb_spec (sh_n h * sh_cols h * 8) 0) as [Z0|NZ].
  - assert (sh_n h * sh_cols h = 0) as Hz by lia. rewrite Z.min_id. rewrite Hz. repeat split; lia.
  - set (lb := sh_n h * sh_cols h * 8) in *. assert (0 < lb) by lia.
    set (cap := v_len v / lb).
    assert (lb * cap <= v_len v) by (unfold cap; apply Z.mul_div_le; lia).
    assert (sh_size h <= cap) by (unfold cap; apply Z.div_le_lower_bound; lia).
    assert (0 <= cap) by lia.
    assert (sh_n h * sh_cols h * Z.min (sh_max h) cap * 8 <= lb * cap) by (unfold lb; nia).
    repeat split; try lia; try (unfold lb in *; nia).
Qed.

(* the code before the repair (v_read_from_old): witnesses of the two defects, kept for the record *)
Lemma read_from_old_max_size_refuted :
  exists writer receiver v' grown,
    wf_v writer /\ Inv writer /\ wf_v receiver /\ Inv receiver /\
    v_read_from_old receiver (v_write_hdr writer) (sh_len (v_write_hdr writer)) = ROk v' /\ ~ Inv v' /\
    v_set_size v' (v_max v') = Some grown /\
    ~ (at_end grown 0 (v_size grown - 1) <= cap_words grown).
Proof.
  exists (mkV 4 1 1 3 128 8), (mkV 4 1 1 1 64 8), (mkV 4 1 1 3 64 8), (mkV 4 1 3 3 64 8).
  unfold wf_v, Inv; cbn. repeat split; try lia.
Qed.
Lemma read_from_old_wrap_refuted :
  exists receiver h v', wf_v receiver /\ Inv receiver /\ v_read_from_old receiver h 0 = ROk v' /\
    ~ (v_n v' * v_cols v' * v_size v' * v_w v' <= v_len v').
Proof.
  exists (mkV 4 1 1 1 64 8), (mkS (2 ^ 61) 1 1 1 0), (mkV (2 ^ 61) 1 1 1 64 8).
  unfold wf_v, Inv; cbn. repeat split; try lia.
Qed.
(* the same streams are handled by the repaired reader: clamped resp. rejected *)
Lemma read_from_repaired_examples :
  v_read_from (mkV 4 1 1 1 64 8) (v_write_hdr (mkV 4 1 1 3 128 8)) 32 = ROk (mkV 4 1 1 2 64 8) /\
  v_read_from (mkV 4 1 1 1 64 8) (mkS (2 ^ 61) 1 1 1 0) 0 = RErr.
Proof. split; vm_compute; reflexivity. Qed.

(* VecZnx / ScalarZnx::from_data after repair 2067fe8 *)
Lemma from_data_checked_inv (len n cols size w : Z) (v : vhdr) :
  0 <= n -> 0 <= cols -> 0 <= size -> 0 < w -> 0 <= len ->
  v_from_data_checked len n cols size w = Some v -> wf_v v /\ Inv v.
Proof.
  intros Hn Hc Hs Hw Hl. unfold v_from_data_checked.
  destruct (Z.ltb_spec (n * cols * size * w) U64); cbn [andb]; [|discriminate].
  destruct (Z.leb_spec (n * cols * size * w) len); [|discriminate].
  intros E; inversion E; subst. unfold wf_v, Inv; cbn. repeat split; lia.
Qed.

(* ------------------------------------------------------------------------------------------------ *)
(* scratch carving *)

Lemma pad_range (off : Z) : 0 <= pad_of off < 64.
Proof. unfold pad_of, ALIGN. lia. Qed.
Lemma pad_makes_aligned (off : Z) : (off + pad_of off) mod 64 = 0.
Proof. unfold pad_of, ALIGN. lia. Qed.

(* a successful take: the window has the requested length, starts 64-aligned, and (when non-empty) lies inside the
   parent; the remainder starts exactly where the window ends (disjoint) and (when non-empty) ends inside the parent *)
Lemma take_in_window (k off len : Z) (win : window) (rest : arena) :
  0 <= k -> take k (off, len) = Some (win, rest) ->
  snd win = k /\ fst win mod 64 = 0 /\
  (0 < k -> off <= fst win /\ fst win + snd win <= off + len) /\
  fst rest = fst win + snd win /\ 0 <= snd rest /\
  (0 < snd rest -> off <= fst rest /\ fst rest + snd rest <= off + len).
Proof.
  intros Hk. unfold take, avail; cbn [fst snd].
  pose proof (pad_range off) as Hp. pose proof (pad_makes_aligned off) as Ha.
  destruct (Z.leb_spec k (Z.max 0 (len - pad_of off))) as [Hle|]; [|discriminate].
  intros E; inversion E; subst; clear E; cbn [fst snd]. repeat split; try lia.
Qed.

(* a take that fails is a panic, never a short window *)
Lemma take_none_iff (k off len : Z) : take k (off, len) = None <-> avail (off, len) < k.
Proof. unfold take; cbn [fst snd]. destruct (Z.leb_spec k (avail (off, len))); split; intros; try discriminate; try reflexivity; lia. Qed.

(* the typed form take_slice::<T>(len): aligned for T whenever align_of::<T>() divides 64 *)
Lemma take_typed_aligned (len wT alignT off l : Z) (win : window) (rest : arena) :
  0 <= len -> 0 <= wT -> 0 < alignT -> (alignT | 64) ->
  take_typed len wT (off, l) = Some (win, rest) -> snd win = len * wT /\ fst win mod alignT = 0.
Proof.
  intros Hl Hw Ha Hd H. unfold take_typed in H. apply take_in_window in H; [|nia].
  destruct H as (H1 & H2 & _). split; [assumption|].
  destruct Hd as [q Hq]. apply Z.mod_divide; [lia|]. apply Z.mod_divide in H2; [|lia].
  destruct H2 as [r Hr]. exists (r * q). rewrite Hr, Hq. ring.
Qed.

(* the irregular corner: a zero-length take on a slice shorter than its padding succeeds and its (empty) window
   starts beyond the end of the parent (`ptr.add(aligned_offset)` past the allocation) *)
Lemma take_zero_outside_refuted :
  exists off len win rest, take 0 (off, len) = Some (win, rest) /\ off + len < fst win.
Proof. exists 1, 10, (64, 0), (64, 0). split; [vm_compute; reflexivity | cbn; lia]. Qed.

(* mutation (d) of the self-test: the remainder computed from the unpadded length overruns the parent *)
Definition take_bad (k : Z) (s : arena) : option (window * arena) :=
  let off := fst s in let pad := pad_of off in
  if k <=? avail s then Some ((off + pad, k), (off + pad + k, snd s - k)) else None.
Lemma take_bad_refuted :
  exists k off len win rest, take_bad k (off, len) = Some (win, rest) /\ 0 < snd rest /\ off + len < fst rest + snd rest.
Proof. exists 64, 8, 192, (64, 64), (128, 128). split; [vm_compute; reflexivity | cbn; lia]. Qed.

(* take_vec_znx & co: the carved object is well formed and its bytes are the window *)
Lemma v_take_inv (n cols size w off len : Z) (v : vhdr) (win : window) (rest : arena) :
  0 <= n -> 0 <= cols -> 0 <= size -> 0 < w ->
  v_take n cols size w (off, len) = Some (v, win, rest) ->
  wf_v v /\ Inv v /\ v_len v = snd win /\ snd win = bytes_of n cols size w /\ fst win mod 64 = 0 /\
  (0 < snd win -> off <= fst win /\ fst win + snd win <= off + len) /\ fst rest = fst win + snd win.
Proof.
  intros Hn Hc Hs Hw. unfold v_take.
  destruct (take (bytes_of n cols size w) (off, len)) as [[wi re]|] eqn:E; [|discriminate].
  intros R; inversion R; subst; clear R.
  assert (0 <= bytes_of n cols size w) as Hb by (unfold bytes_of; nia).
  apply take_in_window in E; [|exact Hb]. destruct E as (E1 & E2 & E3 & E4 & E5 & E6).
  unfold wf_v, Inv, v_from_data; cbn. rewrite E1. unfold bytes_of in *. repeat split; try lia; try (apply E3; lia).
Qed.

(* ------------------------------------------------------------------------------------------------ *)
(* matrix layouts *)

Lemma mat_at_in_bounds (m : mhdr) (row col : Z) :
  wf_m m -> InvM m -> 0 <= row < m_rows m -> 0 <= col < m_cin m ->
  0 <= m_at_start m row col /\ m_at_end m row col <= m_len m /\
  wf_v (m_at_view m) /\ Inv (m_at_view m) /\ v_len (m_at_view m) = m_at_end m row col - m_at_start m row col.
Proof.
  intros (Hn & Hr & Hci & Hco & Hs & Hl & Hw) HI Hrow Hcol.
  unfold InvM, m_bytes_of in HI. unfold m_at_end, m_at_start, m_at_view, m_nb, wf_v, Inv; cbn.
  set (nb := m_n m * m_cout m * m_size m * m_w m) in *.
  assert (0 <= nb) by (unfold nb; nia).
  assert (nb * m_cin m * row + col * nb + nb <= m_rows m * m_cin m * nb) as Hle.
  { assert (m_cin m * row + col + 1 <= m_rows m * m_cin m) by nia. nia. }
  assert (m_rows m * m_cin m * nb <= m_len m) as HI' by (unfold nb; lia).
  repeat split; try lia; try nia.
Qed.

(* distinct entries are disjoint byte ranges *)
Lemma mat_at_disjoint (m : mhdr) (row col row' col' : Z) :
  0 <= m_nb m -> 0 <= col < m_cin m -> 0 <= col' < m_cin m -> 0 <= row -> 0 <= row' -> (row, col) <> (row', col') ->
  m_at_end m row col <= m_at_start m row' col' \/ m_at_end m row' col' <= m_at_start m row col.
Proof.
  intros Hnb Hc Hc' Hr Hr' Hne. unfold m_at_end, m_at_start.
  assert (m_cin m * row + col <> m_cin m * row' + col') as Hd.
  { intros E. apply Hne. assert (row = row') by nia. subst. f_equal. lia. }
  destruct (Z.lt_ge_cases (m_cin m * row + col) (m_cin m * row' + col')); [left|right]; nia.
Qed.

Lemma mat_raw_in_bounds (m : mhdr) : wf_m m -> InvM m -> m_raw_words m * m_w m <= m_len m /\ m_raw_words m <= m_len m / m_w m.
Proof.
  intros (Hn & Hr & Hci & Hco & Hs & Hl & Hw) HI. unfold InvM, m_bytes_of in HI. unfold m_raw_words.
  assert (m_n m * (m_rows m * m_cin m * m_cout m * m_size m) * m_w m <= m_len m) by nia.
  split; [assumption | apply words_le_cap; assumption].
Qed.

Lemma mat_alloc_inv (n rows cin cout size w : Z) :
  0 <= n -> 0 <= rows -> 0 <= cin -> 0 <= cout -> 0 <= size -> 0 < w ->
  wf_m (m_alloc n rows cin cout size w) /\ InvM (m_alloc n rows cin cout size w).
Proof.
  intros. unfold m_alloc, wf_m, InvM; cbn. pose proof (round64_ge (m_bytes_of n rows cin cout size w)).
  assert (0 <= m_bytes_of n rows cin cout size w) by (unfold m_bytes_of; nia). repeat split; lia.
Qed.

Lemma mat_from_bytes_inv (n rows cin cout size w len : Z) (m : mhdr) :
  m_from_bytes n rows cin cout size w len = Some m -> InvM m.
Proof.
  unfold m_from_bytes. destruct (Z.eqb_spec len (m_bytes_of n rows cin cout size w)); [|discriminate].
  intros E; inversion E; subst. unfold InvM; cbn. lia.
Qed.

Lemma mat_take_inv (n rows cin cout size w off len : Z) (m : mhdr) (win : window) (rest : arena) :
  0 <= n -> 0 <= rows -> 0 <= cin -> 0 <= cout -> 0 <= size -> 0 < w ->
  m_take n rows cin cout size w (off, len) = Some (m, win, rest) ->
  InvM m /\ m_len m = snd win /\ fst win mod 64 = 0 /\ (0 < snd win -> off <= fst win /\ fst win + snd win <= off + len).
Proof.
  intros Hn Hr Hci Hco Hs Hw. unfold m_take.
  destruct (take (m_bytes_of n rows cin cout size w) (off, len)) as [[wi re]|] eqn:E; [|discriminate].
  intros R; inversion R; subst; clear R.
  assert (0 <= m_bytes_of n rows cin cout size w) as Hb by (unfold m_bytes_of; nia).
  apply take_in_window in E; [|exact Hb]. destruct E as (E1 & E2 & E3 & _).
  unfold InvM, m_from_data; cbn. rewrite E1. repeat split; try lia; apply E3; lia.
Qed.

(* the DEFAULT trait accessor ZnxView::at(i, j) on a matrix layout (cols() = cols_in, size()): inside the buffer only
   when there is at least one row and one output column *)
Lemma mat_trait_at_in_bounds (m : mhdr) (i j : Z) :
  wf_m m -> InvM m -> 1 <= m_rows m -> 1 <= m_cout m -> 0 <= i < m_cin m -> 0 <= j < m_size m ->
  m_trait_at_end m i j * m_w m <= m_len m.
Proof.
  intros (Hn & Hr & Hci & Hco & Hs & Hl & Hw) HI Hr1 Hc1 Hi Hj. unfold InvM, m_bytes_of in HI. unfold m_trait_at_end.
  pose proof (limb_index_le _ _ _ _ Hi Hj) as Hk.
  assert (m_n m * (j * m_cin m + i) + m_n m <= m_n m * (m_size m * m_cin m)) by nia.
  assert (0 <= m_n m * (m_size m * m_cin m)) as HX by nia.
  assert (1 <= m_rows m * m_cout m) as HR by nia.
  assert (m_n m * (m_size m * m_cin m) <= m_rows m * m_cin m * (m_n m * m_cout m * m_size m)).
  { replace (m_rows m * m_cin m * (m_n m * m_cout m * m_size m)) with (m_n m * (m_size m * m_cin m) * (m_rows m * m_cout m)) by ring.
    nia. }
  nia.
Qed.
Lemma mat_trait_at_refuted :
  exists m i j, wf_m m /\ InvM m /\ 0 <= i < m_cin m /\ 0 <= j < m_size m /\ ~ (m_trait_at_end m i j * m_w m <= m_len m).
Proof.
  exists (mkM 4 0 1 1 1 0 8), 0, 0. unfold wf_m, InvM, m_trait_at_end, m_bytes_of; cbn. repeat split; try lia.
Qed.

Lemma mat_read_from_inv (m m' : mhdr) (n size rows cin cout len avail : Z) :
  m_w m = 8 -> m_read_from m n size rows cin cout len avail = Some m' -> InvM m' /\ m_len m' = m_len m.
Proof.
  intros Hw8. unfold m_read_from.
  destruct ((U64 <=? rows * cin) || (U64 <=? rows * cin * n) || (U64 <=? rows * cin * n * cout) || (U64 <=? rows * cin * n * cout * size)
            || (U64 <=? rows * cin * n * cout * size * 8)); [discriminate|].
  destruct (Z.eqb_spec (rows * cin * n * cout * size * 8) len) as [E|]; [|discriminate]. cbn [negb].
  destruct (Z.ltb_spec (m_len m) len); [discriminate|].
  destruct (Z.ltb_spec avail len); [discriminate|].
  intros R; inversion R; subst. unfold InvM, m_bytes_of; cbn. rewrite Hw8.
  assert (rows * cin * (n * cout * size * 8) = rows * cin * n * cout * size * 8) by ring. split; [lia|reflexivity].
Qed.
