(* C15 — discharging the named hypothesis [cmux_selects] of C15_word_op_correct from the phase theorem of C04.

   Part 1 (torus arithmetic, generic): ciphertexts are given with their phase [phase c : list Z] (n coefficients, scaled
   by 2^P as in Gadget.phase_val); a bit b is encoded as b * Delta at coefficient 0, Delta = 2^(P-2) (encode at
   TorusPrecision 2).  [enc_c c q]  := every coefficient of the phase is strictly within Delta/2 of Delta * q  (it decodes
   to q); [quiet_c c] := the phase is within Delta/2 - BE of an encoding of a bit.  If cmux satisfies the phase equation
   that C04 proves — phase(out) = phase(selected input) + E + 2^P I with |E|_inf <= BE — then the hypothesis
   [cmux_selects] of C15_word_op_correct / C15_heval_refines_eval_stale holds for these predicates.
   The only premises that remain are about noise: the bound BE on the error polynomial of one cmux, and [quiet_c] of
   every intermediate ciphertext.

   Part 2: the phase equation, coefficient by coefficient, for the model Gadget.cmux of the real code, from
   C04_cmux_selects (before the final normalisation, which adds the rounding term of C03_normalize_cols_phase). *)
From PV Require Import Base.MachineInt Model.Znx Model.Limbs Model.Flat Model.Ring Model.Poly Model.DftAbs Model.Gadget
  Model.GadgetSpec Proofs.C07Dft Proofs.C07Ring Proofs.GadgetDecomp Proofs.GadgetPhase Proofs.C03Phase Proofs.C04Phase.
From PV Require Import Model.C15Uint.
Open Scope Z_scope.

(* ------------------------------------------------------------------------------------------------ *)
(** * Part 1: distance on the torus Z / 2^P *)

Section Torus.
  Variable P : Z.
  Hypothesis HP : 3 <= P.
  Definition tdist (x y : Z) : Z := Z.abs (wrap P (x - y)).
  Let H := 2 ^ (P - 1).

  Lemma H_pos : 0 < H. Proof. apply pow2_pos; lia. Qed.
  Lemma P_split : 2 ^ P = 2 * H. Proof. apply pow2_split; lia. Qed.

  Lemma wrap_abs_le x : Z.abs (wrap P x) <= Z.abs x.
  Proof.
    pose proof (wrap_range P x ltac:(lia)) as R. unfold in_range in R. fold H in R. pose proof H_pos.
    destruct (Z_lt_le_dec x (- H)); [lia|]. destruct (Z_lt_le_dec x H); [|lia].
    rewrite wrap_id by (try lia; unfold in_range; fold H; lia). lia.
  Qed.

  Lemma tdist_add_err x y e : tdist (x + e) y <= tdist x y + Z.abs e.
  Proof.
    unfold tdist. replace (x + e - y) with ((x - y) + e) by ring. rewrite <- wrap_wrap_add_l by lia.
    eapply Z.le_trans; [apply wrap_abs_le|]. lia.
  Qed.

  Lemma tdist_add_period x y k : tdist (x + 2 ^ P * k) y = tdist x y.
  Proof.
    unfold tdist. f_equal. apply wrap_eq_mod; [lia|]. replace (x + 2 ^ P * k - y) with (x - y + k * 2 ^ P) by ring.
    apply Z.mod_add. pose proof (pow2_pos P ltac:(lia)). lia.
  Qed.

  Lemma tdist_sym x y : tdist x y = tdist y x \/ (wrap P (x - y) = - H).
  Proof.
    unfold tdist. pose proof (wrap_range P (x - y) ltac:(lia)) as R. unfold in_range in R. fold H in R.
    destruct (Z.eq_dec (wrap P (x - y)) (- H)); [now right|left].
    destruct (wrap_exists P (x - y) ltac:(lia)) as [q Eq].
    assert (E : wrap P (y - x) = - wrap P (x - y)).
    { rewrite <- (wrap_id P (- wrap P (x - y))) by (try lia; unfold in_range; fold H; lia).
      apply wrap_eq_mod; [lia|]. rewrite Eq. replace (- (x - y - q * 2 ^ P)) with (y - x + q * 2 ^ P) by ring.
      symmetry. apply Z.mod_add. pose proof (pow2_pos P ltac:(lia)). lia. }
    rewrite E. lia.
  Qed.

  Lemma tdist_triangle x y z : tdist y z <= tdist x y + tdist x z.
  Proof.
    (* y - z = (x - z) - (x - y) *)
    unfold tdist. pose proof (wrap_range P (x - y) ltac:(lia)) as R. unfold in_range in R. fold H in R.
    destruct (wrap_exists P (x - y) ltac:(lia)) as [q Eq]. destruct (wrap_exists P (x - z) ltac:(lia)) as [q' Eq'].
    assert (E : wrap P (y - z) = wrap P (wrap P (x - z) - wrap P (x - y))).
    { apply wrap_eq_mod; [lia|]. rewrite Eq, Eq'. replace (x - z - q' * 2 ^ P - (x - y - q * 2 ^ P)) with (y - z + (q - q') * 2 ^ P) by ring.
      symmetry. apply Z.mod_add. pose proof (pow2_pos P ltac:(lia)). lia. }
    rewrite E. eapply Z.le_trans; [apply wrap_abs_le|]. lia.
  Qed.
End Torus.

(* ------------------------------------------------------------------------------------------------ *)
(** * Part 1: cmux_selects from the phase equation *)

Section Bridge.
  Variables glwe ggsw : Type.
  Variable phase : glwe -> list Z.
  Variable n : nat.
  Variables P BE : Z.
  Variable cmux : glwe -> glwe -> ggsw -> glwe.
  Variable enc_sel : ggsw -> bool -> Prop.
  Hypothesis HP : 3 <= P.
  Hypothesis HBE : 0 <= BE.
  Let Delta := 2 ^ (P - 2).
  Let Half := 2 ^ (P - 3).

  (* the shape of C04_cmux_selects: the selected input plus an error polynomial bounded by BE, modulo 2^P *)
  Hypothesis cmux_phase : forall t f s b, enc_sel s b ->
    exists E I : list Z, (forall k, Z.abs (nth k E 0) <= BE) /\
      forall k, (k < n)%nat ->
        nth k (phase (cmux t f s)) 0 = nth k (phase (if b then t else f)) 0 + nth k E 0 + 2 ^ P * nth k I 0.

  Definition enc_c (c : glwe) (q : poly) : Prop :=
    forall k, (k < n)%nat -> tdist P (nth k (phase c) 0) (Delta * q (Z.of_nat k)) < Half.
  Definition quiet_c (c : glwe) : Prop :=
    exists b : bool, forall k, (k < n)%nat ->
      tdist P (nth k (phase c) 0) (Delta * p_const (if b then 1 else 0) (Z.of_nat k)) < Half - BE.

  Lemma Delta_Half : Delta = 2 * Half /\ 0 < Half /\ 2 ^ (P - 1) = 4 * Half.
  Proof.
    unfold Delta, Half. pose proof (pow2_pos (P - 3) ltac:(lia)).
    replace (P - 2) with (1 + (P - 3)) by lia. replace (P - 1) with (2 + (P - 3)) by lia.
    rewrite !Z.pow_add_r by lia. change (2 ^ 1) with 2. change (2 ^ 2) with 4. lia.
  Qed.

  Lemma bits_apart (b b' : bool) : tdist P (Delta * (if b then 1 else 0)) (Delta * (if b' then 1 else 0)) < Delta -> b = b'.
  Proof.
    destruct Delta_Half as (E1 & E2 & E3). unfold tdist.
    destruct b, b'; auto; intros Hlt; exfalso.
    - replace (Delta * 1 - Delta * 0) with Delta in Hlt by ring.
      rewrite wrap_id in Hlt by (try lia; unfold in_range; lia). lia.
    - replace (Delta * 0 - Delta * 1) with (- Delta) in Hlt by ring.
      rewrite wrap_id in Hlt by (try lia; unfold in_range; lia). lia.
  Qed.

  (* the hypothesis [cmux_selects] of C15_word_op_correct, for enc_poly := enc_c and quiet := quiet_c *)
  Theorem cmux_selects_of_phase : (1 <= n)%nat -> forall t f s (bt bf b : bool),
    enc_c t (p_const (if bt then 1 else 0)) -> enc_c f (p_const (if bf then 1 else 0)) -> enc_sel s b ->
    quiet_c (cmux t f s) -> enc_c (cmux t f s) (p_const (if (if b then bt else bf) then 1 else 0)).
  Proof.
    intros Hn t f s bt bf b Ht Hf Hs [b' Hq].
    destruct (cmux_phase t f s b Hs) as (E & I & HE & Hph).
    set (sb := if b then bt else bf).
    assert (Hsel : enc_c (if b then t else f) (p_const (if sb then 1 else 0))) by (unfold sb; destruct b; assumption).
    destruct Delta_Half as (E1 & E2 & E3).
    (* every coefficient of the output is within Half + BE of the selected encoding *)
    assert (Hout : forall k, (k < n)%nat ->
              tdist P (nth k (phase (cmux t f s)) 0) (Delta * p_const (if sb then 1 else 0) (Z.of_nat k)) < Half + BE).
    { intros k Hk. rewrite (Hph k Hk). rewrite tdist_add_period by lia.
      eapply Z.le_lt_trans; [apply tdist_add_err; lia|]. pose proof (Hsel k Hk). pose proof (HE k). lia. }
    (* so the bit the output is quiet for is the selected one *)
    assert (Eb : b' = sb).
    { apply bits_apart. pose proof (Hq 0%nat ltac:(lia)) as Q0. pose proof (Hout 0%nat ltac:(lia)) as O0.
      unfold p_const in Q0, O0. cbn [Z.of_nat Z.eqb] in Q0, O0.
      eapply Z.le_lt_trans; [apply (tdist_triangle P HP (nth 0 (phase (cmux t f s)) 0))|]. lia. }
    subst b'. intros k Hk. pose proof (Hq k Hk). lia.
  Qed.
End Bridge.

(* ------------------------------------------------------------------------------------------------ *)
(** * Part 2: the phase equation of Gadget.cmux, coefficient by coefficient (C04_cmux_selects) *)

Theorem cmux_phase_pointwise :
  forall (be P b : Z) (n rank res_size t_size f_size dsize dnum msize : nat) (res0 t f : cols_t) (K : pmat) (Sk : nat -> list Z)
      (bit : Z) (e I : nat -> nat -> list Z),
    (1 <= n)%nat ->
    wf_cols n (S rank) t_size t -> wf_cols n (S rank) f_size f ->
    length res0 = S rank -> (forall co : nat, (co < S rank)%nat -> length (col res0 co) = msize) ->
    wf_pmat_in n (dnum * S rank) (msize * S rank) K ->
    (1 <= dsize)%nat -> (dsize - 2 <= msize)%nat ->
    (forall co : nat, length (Sk co) = n) ->
    (forall row ci : nat, length (e row ci) = n) -> (forall row ci : nat, length (I row ci) = n) ->
    0 <= b -> Z.of_nat msize * b <= P -> Z.of_nat dnum * Z.of_nat dsize * b <= P ->
    (* the selector GGSW encrypts the bit in every cell (C04_ggsw_cells) *)
    key_rows_ok P b n (S rank) (S rank) msize dsize dnum K Sk (fun ci : nat => pmul (pscale bit (pone n)) (Sk ci)) e I ->
    bit = 0 \/ bit = 1 ->
    (bit = 1 -> (f_size <= Nat.min res_size (dnum * dsize))%nat /\ (f_size <= msize)%nat) ->
    exists (big : cols_t) (E Iq : list Z),
      cmux be n b rank res_size t_size f_size dsize dnum msize res0 t f K =
        sequence (map (big_normalize (wbig be) n b b res_size) (map2 add_small big f)) /\
      E = gadget_err P b n (S rank) (S rank) msize dsize dnum (acol n (map2 (col_sub n res_size) t f)) K Sk e /\
      length E = n /\ length Iq = n /\
      forall k, (k < n)%nat ->
        nth k (phase_f P b n (S rank) msize (limbs_of (map2 add_small big f)) Sk) 0 =
        nth k (if bit =? 1 then phase_f P b n (S rank) (Nat.min res_size (dnum * dsize)) (acol n t) Sk
               else phase_f P b n (S rank) (Nat.min msize f_size) (acol n f) Sk) 0
        + nth k E 0 + 2 ^ P * nth k Iq 0.
Proof.
  intros be P b n rank res_size t_size f_size dsize dnum msize res0 t f K Sk bit e I
         Hn Ht Hf Hr0 Hr1 HK Hd Hdrop HS He HI Hb HP1 HP2 Hcells Hbit Hsz.
  destruct (C04_cmux_selects_lemma be P b n rank res_size t_size f_size dsize dnum msize res0 t f K Sk bit e I
              Hn Ht Hf Hr0 Hr1 HK Hd Hdrop HS He HI Hb HP1 HP2 Hcells Hbit Hsz) as (big & E1 & E2 & E3).
  set (E := gadget_err P b n (S rank) (S rank) msize dsize dnum (acol n (map2 (col_sub n res_size) t f)) K Sk e) in *.
  set (Iq := gadget_int b n (S rank) (S rank) msize dsize dnum (acol n (map2 (col_sub n res_size) t f)) K Sk I) in *.
  pose proof (acol_length n (S rank) res_size _ (cmux_d_wf n (S rank) res_size t_size f_size t f Ht Hf)) as LA.
  assert (LE : length E = n) by (apply gadget_err_length; exact LA).
  assert (LI : length Iq = n) by (apply gadget_int_length; exact LA).
  exists big, E, Iq. split; [exact E2|]. split; [reflexivity|]. split; [exact LE|]. split; [exact LI|].
  intros k Hk. rewrite E3.
  set (X := if bit =? 1 then _ else _).
  assert (LX : length X = n).
  { unfold X. destruct (bit =? 1); apply phase_f_length; intros.
    - apply (acol_length n (S rank) t_size t Ht).
    - apply (acol_length n (S rank) f_size f Hf). }
  rewrite nth_padd by (rewrite pscale_length, padd_length, LX, LE, LI; lia).
  rewrite nth_padd by (rewrite LE, LX; reflexivity). rewrite nth_pscale. ring.
Qed.

(* ------------------------------------------------------------------------------------------------ *)
(** * Part 3: the homomorphic evaluator without the abstract hypothesis *)

From PV Require Import Model.C13Bdd Model.C15Word Proofs.C15WordProof.

Theorem heval_correct_of_phase :
  forall (glwe ggsw : Type) (phase : glwe -> list Z) (n : nat) (P BE : Z) (cmux : glwe -> glwe -> ggsw -> glwe)
         (enc_sel : ggsw -> bool -> Prop) (ct_zero ct_one : glwe),
  3 <= P -> 0 <= BE -> (1 <= n)%nat ->
  (* the phase equation of cmux (C04_cmux_selects + final normalisation): selected input + error bounded by BE, mod 2^P *)
  (forall t f s b, enc_sel s b ->
     exists E I : list Z, (forall k, Z.abs (nth k E 0) <= BE) /\
       forall k, (k < n)%nat ->
         nth k (phase (cmux t f s)) 0 = nth k (phase (if b then t else f)) 0 + nth k E 0 + 2 ^ P * nth k I 0) ->
  enc_c glwe phase n P ct_zero (p_const 0) -> enc_c glwe phase n P ct_one (p_const 1) ->
  forall (c : circuit) (s : nat -> ggsw) (e : nat -> bool) (nb : nat),
  exec_safe nb c = true -> (forall v, (v < nb)%nat -> enc_sel (s v) (e v)) ->
  Forall (quiet_c glwe phase n P BE) (snd (heval glwe ggsw cmux ct_zero ct_one c s)) ->
  enc_c glwe phase n P (fst (heval glwe ggsw cmux ct_zero ct_one c s)) (p_const (if eval_stale c e then 1 else 0)).
Proof.
  intros glwe ggsw phase n P BE cmux enc_sel ct_zero ct_one HP HBE Hn Hph H0 H1 c s e nb Hsafe Hsel Hq.
  apply (heval_correct glwe ggsw cmux ct_zero ct_one
           (fun c (b : bool) => enc_c glwe phase n P c (p_const (if b then 1 else 0))) enc_sel (quiet_c glwe phase n P BE)
           H0 H1) with (nb := nb); auto.
  intros t f s0 bt bf b Ht Hf Hs Hqq.
  apply (cmux_selects_of_phase glwe ggsw phase n P BE cmux enc_sel HP HBE Hph Hn); auto.
Qed.
