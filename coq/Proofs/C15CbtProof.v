(* C15 — circuit bootstrapping: composition of blind rotation (C14), rotation / trace / packing (C02, C03) and the
   GGLWE -> GGSW expansion (C04) into "every cell of the output GGSW encrypts the message of the input LWE" — the
   message being the constant m (constant mode) or the monomial X^(m * 2^log_gap_out) (exponent mode) — for every
   parameter set on which the rows of the ideal pipeline decode to that message ([cbt_rows_ok], a computation on the
   lookup table the code builds); checked instances at the test parameter set. *)
From Coq Require Import ZArith List Bool Lia.
From PV Require Import Gen.C15_gen Model.C15Uint Model.C15Cbt Proofs.C15Layout.
Import ListNotations.
Open Scope Z_scope.

Lemma poly_eqb_spec n (p q : poly) : poly_eqb n p q = true -> forall j, 0 <= j < 2 ^ n -> p j = q j.
Proof.
  unfold poly_eqb. intros H j Hj. rewrite forallb_forall in H.
  apply Z.eqb_eq. apply H. apply in_zseq. rewrite Z2Nat.id by lia. lia.
Qed.

Section Cells.
  Variables lwe glwe ggsw : Type.
  Variable blind_rotate : lwe -> glwe.
  Variable g_rot : Z -> glwe -> glwe.
  Variable g_trace : Z -> glwe -> glwe.
  Variable g_post : glwe -> glwe.
  Variable g_expand : list glwe -> ggsw.
  Variables (logn base2k dnum rank bb : Z) (expo : bool) (ld lgo : Z).
  Hypothesis Hdnum : 0 <= dnum.
  Let n := 2 ^ logn.

  Variable lwe_msg : lwe -> Z -> Prop.               (* ideal message of the LWE ciphertext: phase = m / 2^(ld+1) *)
  Variable enc_poly : glwe -> poly -> Prop.          (* ideal plaintext, in units of 2^-(base2k*dnum) *)
  (* cell (row, col) of the GGSW is an encryption of mp * s_col * 2^-(base2k*(row+1)) (s_0 = 1) *)
  Variable cell_enc : ggsw -> Z -> Z -> poly -> Prop.
  Variable quiet : glwe -> Prop.
  Variable quiet_ggsw : ggsw -> Prop.

  (* C14 (blind_rotation_phase, lut_set_then_rotate_selects): the accumulator is the table rotated by the message *)
  Hypothesis blind_rotation : forall l m, lwe_msg l m -> 0 <= m < 2 ^ ld -> quiet (blind_rotate l) ->
    enc_poly (blind_rotate l) (br_acc logn base2k dnum bb expo ld m).
  (* C02 (phase_rotate) *)
  Hypothesis rotate_phase : forall k c q, enc_poly c q -> enc_poly (g_rot k c) (p_rot n k q).
  (* C03 (trace) *)
  Hypothesis trace_phase : forall skip c q, enc_poly c q -> quiet (g_trace skip c) -> enc_poly (g_trace skip c) (p_trace n skip q).
  (* C03 (trace, rotate, pack as composed by post_process) *)
  Hypothesis post_phase : forall c q q', enc_poly c q -> post_process logn dnum ld lgo q = Some q' -> quiet (g_post c) ->
    enc_poly (g_post c) q'.
  (* C04 (GGLWE -> GGSW): when row i of column 0 encrypts mp at gadget level i, every cell (i, col) encrypts mp * s_col *)
  Hypothesis expand_rows : forall rows mp,
    length rows = Z.to_nat dnum ->
    (forall i, 0 <= i < dnum -> exists c q, nth_error rows (Z.to_nat i) = Some c /\ enc_poly c q /\
                                            forall j, 0 <= j < n -> row_decoded base2k dnum bb i q j = mp j) ->
    quiet_ggsw (g_expand rows) ->
    forall row col, 0 <= row < dnum -> 0 <= col <= rank -> cell_enc (g_expand rows) row col mp.

  Notation cbt_row_ct := (cbt_row_ct glwe g_rot g_trace g_post logn dnum expo ld).
  Notation cbt_rows_ct := (cbt_rows_ct lwe glwe blind_rotate g_rot g_trace g_post logn dnum expo ld).
  Notation cbt_ct := (cbt_ct lwe glwe ggsw blind_rotate g_rot g_trace g_post g_expand logn dnum expo ld).

  (* noise side condition: the accumulator, every row and the expanded GGSW stay below their decoding thresholds *)
  Definition cbt_quiet (l : lwe) : Prop :=
    quiet (blind_rotate l) /\ Forall quiet (cbt_rows_ct l) /\ quiet_ggsw (cbt_ct l).

  Theorem circuit_bootstrap_cells : forall l m,
    lwe_msg l m -> 0 <= m < 2 ^ ld ->
    cbt_rows_ok logn base2k dnum bb expo ld lgo m = true ->
    cbt_quiet l ->
    forall row col, 0 <= row < dnum -> 0 <= col <= rank ->
      cell_enc (cbt_ct l) row col (cand logn expo lgo m).
  Proof.
    intros l m Hl Hm Hok (Q1 & Q2 & Q3) row col Hrow Hcol.
    unfold C15Cbt.cbt_ct in *. apply expand_rows; auto.
    - unfold C15Cbt.cbt_rows_ct. now rewrite map_length, zseq_length.
    - intros i Hi. unfold cbt_rows_ok in Hok. rewrite forallb_forall in Hok.
      specialize (Hok i ltac:(apply in_zseq; rewrite Z2Nat.id by lia; lia)).
      destruct (cb_row logn base2k dnum bb expo ld lgo m i) as [q|] eqn:Eq; [|discriminate].
      exists (cbt_row_ct (blind_rotate l) i), q. split; [|split; [|apply (poly_eqb_spec logn); exact Hok]].
      { unfold C15Cbt.cbt_rows_ct. rewrite nth_error_map.
        rewrite (nth_error_nth' _ 0) by (rewrite zseq_length; lia). rewrite nth_zseq by lia.
        cbn [option_map]. do 2 f_equal. lia. }
      assert (Qi : quiet (cbt_row_ct (blind_rotate l) i)).
      { rewrite Forall_forall in Q2. apply Q2. unfold C15Cbt.cbt_rows_ct. apply in_map. apply in_zseq.
        rewrite Z2Nat.id by lia. lia. }
      pose proof (blind_rotation l m Hl Hm Q1) as Hacc.
      pose proof (rotate_phase (- (i * cb_gap logn dnum ld)) _ _ Hacc) as Hrot.
      unfold cb_row in Eq. destruct (cb_asserts base2k dnum bb expo ld); [|discriminate].
      unfold C15Cbt.cbt_row_ct in *. cbv zeta in *. fold n in Eq.
      destruct expo.
      + eapply post_phase; eauto.
      + injection Eq as <-. apply trace_phase; auto.
  Qed.
End Cells.

(* ------------------------------------------------------------------------------------------------ *)
(** * The ideal rows at the test parameter set (N = 256, base2k = 13, dnum = 2) *)

(* constant mode: log_domain 1 and 2, every message *)
Lemma cbt_rows_ok_constant_test :
  forallb (fun ld => forallb (fun m => cbt_rows_ok 8 13 2 12 false ld 0 m) (zseq 0 (Z.to_nat (2 ^ ld)))) [1; 2] = true.
Proof. vm_compute. reflexivity. Qed.

(* exponent mode, both branches of post_process: packing (log_gap_out <> log_gap_in) and trace only
   (log_gap_out = log_gap_in = 7 for log_domain 1, 6 for log_domain 2) *)
Lemma cbt_rows_ok_exponent_test :
  log_gap_in 8 2 1 = 7 /\ log_gap_in 8 2 2 = 6 /\
  forallb (fun lgo => forallb (fun m => cbt_rows_ok 8 13 2 12 true 1 lgo m) [0; 1]) [0; 1; 2; 3; 4; 5; 6; 7] = true /\
  forallb (fun lgo => forallb (fun m => cbt_rows_ok 8 13 2 12 true 2 lgo m) [0; 1; 2; 3]) [0; 1; 2; 3; 4; 5; 6] = true.
Proof. vm_compute. auto. Qed.

(* the parameter sets whose lookup-table coefficients leave i64 are rejected by the assert (since /repo a84e8a5);
   before the repair every assert passed there and row 0 of the GGSW was wrong *)
Lemma cbt_lut_overflow_rejected :
  cb_asserts 21 4 14 false 1 = false /\ cb_row 8 21 4 14 false 1 0 1 0 = None /\
  cb_asserts 20 4 14 false 1 = false /\ cb_asserts 30 3 15 false 4 = false /\ cb_asserts 21 4 14 true 1 = false /\
  cb_asserts 13 2 12 false 1 = true /\ cb_asserts 13 2 12 true 1 = true /\ cb_asserts 20 3 15 false 1 = true.
Proof. vm_compute. repeat split; reflexivity. Qed.
