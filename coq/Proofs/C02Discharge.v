(* C02: `column_value_ok` discharged with C08's per-coefficient value theorems (same radix):
   rsh_assign_value, lsh_assign_value, lsh_value, lsh_sub_value, normalize_inter_value (offset 0), normalize_assign_value.
   Result: unconditional C02_phase_shift / C02_phase_normalize for res and a in the same radix 2^b, 1 <= b <= 62,
   every stored word below 2^62 in magnitude.  What stays behind the hypothesis: glwe_normalize between DIFFERENT radices
   (C08 has normalize_cross_total, no value theorem for the cross-radix routine yet). *)
From PV Require Import Base.MachineInt Model.Znx Model.Limbs Model.Flat Model.Ring Model.DftAbs Model.C08Oracle Model.C02Ops.
From PV Require Import Proofs.C08Chain Proofs.C08Value Proofs.C08Normalize Proofs.C08ShiftValue.
From PV Require Import Proofs.C02Poly Proofs.C02Exact Proofs.C02Canon Proofs.C02Phase Proofs.C02Value Proofs.C02Main.
Open Scope Z_scope.

(* ---------------------------------------------------------------- C08's notions = C02's notions *)
Lemma sumn_zsum n f : C08Chain.sumn n f = zsum f n.
Proof. induction n as [|n IH]; cbn [C08Chain.sumn zsum]; [reflexivity|]. rewrite IH. reflexivity. Qed.

Lemma val_scaled_val_of P b l : val_scaled P b l = val_of P b l.
Proof.
  rewrite val_scaled_sumn, sumn_zsum, val_of_sum. apply zsum_ext. intros i _. reflexivity.
Qed.

Lemma tor_split P x u : 1 <= P -> tor_abs P x <= u -> exists e m, x = e + m * 2 ^ P /\ Z.abs e <= u.
Proof.
  intros HP H. unfold tor_abs in H. destruct (wrap_exists P x HP) as [q Hq].
  exists (wrap P x), q. split; [lia | exact H].
Qed.

(* ---------------------------------------------------------------- guards, error unit *)
Definition sn_guard (opc : Z) (rsz asz : nat) (a r0 : list Z) : Prop :=
  hr62 a /\ hr62 r0 /\ length r0 = rsz /\ length a = asz /\ (sn_inplace opc = true -> a = r0).

(* nothing is truncated: every bit of the shifted operand fits in the result *)
Definition sn_exactb (opc b k : Z) (rsz asz : nat) : bool :=
  match opc with
  | 13 => k =? 0
  | 15 | 16 | 17 => Z.of_nat asz * b - k <=? Z.of_nat rsz * b
  | 18 => Z.of_nat asz * b <=? Z.of_nat rsz * b
  | _ => true
  end.
Definition sn_u (opc b k : Z) (rsz asz : nat) (P : Z) : Z :=
  if sn_exactb opc b k rsz asz then 0 else 2 ^ (P - Z.of_nat rsz * b).

Lemma sn_u_nonneg opc b k rsz asz P : 0 <= sn_u opc b k rsz asz P.
Proof. unfold sn_u. destruct (sn_exactb _ _ _ _ _); [lia|]. apply Z.pow_nonneg. lia. Qed.

Lemma bound_case (D U : Z) (ex : bool) : D <= U -> (ex = true -> D = 0) -> D <= (if ex then 0 else U).
Proof. intros H1 H2. destruct ex; [rewrite H2 by reflexivity; lia | exact H1]. Qed.

(* ---------------------------------------------------------------- the per-coefficient statement, opcode by opcode *)
Theorem sn_column_value opc b k (rsz asz : nat) P :
  13 <= opc <= 19 -> 1 <= b <= 62 -> 0 <= k -> 1 <= P ->
  2 * Z.of_nat rsz * b + Z.of_nat asz * b + k <= P ->
  column_value_stmt b b (sn_off opc k) (sn_keep opc) (sn_sgn opc) P (sn_u opc b k rsz asz P)
                    (sn_kernel opc b b k) (sn_guard opc rsz asz).
Proof.
  intros Ho Hb Hk HP HPm a r0 out Hf (Ha & Hr & Lr & La & Hip).
  assert (Hnn : 0 <= Z.of_nat asz * b) by nia. assert (Hnr : 0 <= Z.of_nat rsz * b) by nia.
  assert (Hcases : opc = 13 \/ opc = 14 \/ opc = 15 \/ opc = 16 \/ opc = 17 \/ opc = 18 \/ opc = 19) by lia.
  unfold sn_u.
  destruct Hcases as [-> | [-> | [-> | [-> | [-> | [-> | ->]]]]]];
    cbn [sn_kernel sn_off sn_keep sn_sgn sn_exactb sn_inplace Z.eqb Pos.eqb orb] in *; unfold W64 in Hf.
  - (* rsh_assign *) injection Hf as <-. specialize (Hip eq_refl). subst a.
    destruct (rsh_assign_value b Hb k r0 Hk Hr) as (Hl & _ & HV). split; [exact Hl|].
    destruct (HV P ltac:(unfold zn; rewrite Lr; lia)) as (HD & H0).
    destruct (tor_split P _ _ HP (bound_case _ _ (k =? 0) HD ltac:(intros E; apply H0; lia))) as (e & m & He & Hbnd).
    unfold zn in Hbnd. rewrite Lr in Hbnd.
    exists e, m. split; [|exact Hbnd]. rewrite !val_scaled_val_of in He. rewrite Z.add_opp_r. lia.
  - (* lsh_assign *) injection Hf as <-. specialize (Hip eq_refl). subst a.
    destruct (lsh_assign_value b Hb k r0 Hk Hr) as (Hl & _ & HV). split; [exact Hl|].
    pose proof (HV P ltac:(unfold zn; rewrite Lr; lia)) as HD.
    destruct (tor_split P _ 0 HP (Z.eq_le_incl _ _ HD)) as (e & m & He & Hbnd).
    exists e, m. split; [|exact Hbnd]. rewrite !val_scaled_val_of in He. lia.
  - (* lsh, overwrite *) injection Hf as <-.
    destruct (lsh_value b Hb true k a r0 Hk Ha ltac:(discriminate)) as (Hl & _ & HV). split; [exact Hl|].
    destruct (HV P ltac:(unfold zn; rewrite Lr, La; lia)) as (HD & H0). unfold zn in *. rewrite Lr, La in *.
    destruct (tor_split P _ _ HP (bound_case _ _ (Z.of_nat asz * b - k <=? Z.of_nat rsz * b) HD ltac:(intros E; apply H0; lia)))
      as (e & m & He & Hbnd).
    exists e, m. split; [|exact Hbnd]. rewrite !val_scaled_val_of in He. lia.
  - (* lsh, add *) injection Hf as <-.
    destruct (lsh_value b Hb false k a r0 Hk Ha ltac:(intros _; exact Hr)) as (Hl & _ & HV). split; [exact Hl|].
    destruct (HV P ltac:(unfold zn; rewrite Lr, La; lia)) as (HD & H0). unfold zn in *. rewrite Lr, La in *.
    destruct (tor_split P _ _ HP (bound_case _ _ (Z.of_nat asz * b - k <=? Z.of_nat rsz * b) HD ltac:(intros E; apply H0; lia)))
      as (e & m & He & Hbnd).
    exists e, m. split; [|exact Hbnd]. rewrite !val_scaled_val_of in He. lia.
  - (* lsh_sub *) injection Hf as <-.
    destruct (lsh_sub_value b Hb k a r0 Hk Ha Hr) as (Hl & HV). split; [exact Hl|].
    destruct (HV P ltac:(unfold zn; rewrite Lr, La; lia)) as (HD & H0). unfold zn in *. rewrite Lr, La in *.
    destruct (tor_split P _ _ HP (bound_case _ _ (Z.of_nat asz * b - k <=? Z.of_nat rsz * b) HD ltac:(intros E; apply H0; lia)))
      as (e & m & He & Hbnd).
    exists e, m. split; [|exact Hbnd]. rewrite !val_scaled_val_of in He. lia.
  - (* normalize, same radix, offset 0 *) unfold normalize in Hf. rewrite Z.eqb_refl in Hf. injection Hf as <-.
    destruct (normalize_inter_value b Hb 0 a r0 Ha) as (Hl & _ & _ & HV). split; [exact Hl|].
    destruct (HV P ltac:(unfold zn; rewrite Lr, La; lia)) as (HD & H0). unfold zn in *. rewrite Lr, La in *.
    destruct (tor_split P _ _ HP (bound_case _ _ (Z.of_nat asz * b <=? Z.of_nat rsz * b) HD ltac:(intros E; apply H0; lia)))
      as (e & m & He & Hbnd).
    exists e, m. split; [|exact Hbnd]. rewrite !val_scaled_val_of in He. lia.
  - (* normalize_assign *) injection Hf as <-. specialize (Hip eq_refl). subst a.
    destruct (normalize_assign_value b Hb r0 Hr) as (Hl & _ & HV). split; [exact Hl|].
    pose proof (HV P ltac:(unfold zn; rewrite Lr; lia)) as HD.
    destruct (tor_split P _ 0 HP (Z.eq_le_incl _ _ HD)) as (e & m & He & Hbnd).
    exists e, m. split; [|exact Hbnd]. rewrite !val_scaled_val_of in He. rewrite Z.add_0_r. lia.
Qed.

(* ---------------------------------------------------------------- the guard holds on small, well-formed ciphertexts *)
Lemma hr62_coeff_limbs g i t : gsmall g -> hr62 (coeff_limbs (gcol g i) t).
Proof.
  intros Hs. unfold hr62, coeff_limbs. rewrite Forall_forall. intros x Hx. apply in_map_iff in Hx.
  destruct Hx as (l & <- & Hl).
  assert (Sl : small l).
  { unfold gsmall in Hs. unfold gcol in Hl.
    destruct (Nat.lt_ge_cases i (length (g_cols g))) as [Hi|Hi].
    - rewrite Forall_forall in Hs. specialize (Hs _ (nth_In _ [] Hi)). rewrite Forall_forall in Hs. apply Hs. exact Hl.
    - rewrite (nth_overflow _ _ Hi) in Hl. destruct Hl. }
  pose proof (small_nth l t Sl). lia.
Qed.

Lemma sn_kernel_ab opc rb ab ab' k : opc <> 18 -> sn_kernel opc rb ab k = sn_kernel opc rb ab' k.
Proof.
  intros H. unfold sn_kernel. destruct opc as [|p|p]; try reflexivity.
  repeat (match goal with q : positive |- _ => destruct q end; try reflexivity). contradiction H. reflexivity.
Qed.

(* ---------------------------------------------------------------- unconditional shift / normalise theorem, same radix *)
Theorem phase_shift_normalize_same_radix n s opc scr k res a b r P :
  13 <= opc <= 19 -> 1 <= g_b res <= 62 -> 0 <= k ->
  (sn_inplace opc = false -> g_b a = g_b res) ->
  secret_ok n s -> wf_glwe n res -> wf_glwe n a -> gsmall res -> gsmall (sn_src opc res a) ->
  1 <= P -> 2 * Z.of_nat (g_size res) * g_b res + Z.of_nat (g_size (sn_src opc res a)) * g_b res + k <= P ->
  exec_op opc n scr k res a b = Some r ->
  wf_glwe n r /\
  forall t, exists E M,
    nthZ (valp P (g_b res) n (phase n s r)) t =
      sn_keep opc * nthZ (valp P (g_b res) n (phase n s res)) t +
      sn_sgn opc * nthZ (valp (P + sn_off opc k) (g_b res) n (phase n s (sn_src opc res a))) t +
      E + M * 2 ^ P /\
    Z.abs E <= err_bound (sn_u opc (g_b res) k (g_size res) (g_size (sn_src opc res a)) P) s (g_ncols (sn_src opc res a)).
Proof.
  intros Ho Hb Hk Hba Hs Hres Ha Sres Ssrc HP HPm He.
  assert (Wsrc : wf_glwe n (sn_src opc res a)) by (unfold sn_src; destruct (sn_inplace opc); assumption).
  assert (Bsrc : g_b (sn_src opc res a) = g_b res).
  { unfold sn_src. destruct (sn_inplace opc) eqn:Ei; [reflexivity | apply Hba; reflexivity]. }
  assert (Hker : sn_kernel opc (g_b res) (g_b a) k = sn_kernel opc (g_b res) (g_b res) k).
  { destruct (Z.eq_dec opc 18) as [->|Hne]; [|apply sn_kernel_ab; exact Hne].
    rewrite (Hba eq_refl). reflexivity. }
  destruct (exec_op_colloop n opc scr k res a b r Ho Hres Ha He) as (_ & Hc & _).
  pose proof (exec_op_phase_value_limbs n s opc scr k res a b r P
                (sn_u opc (g_b res) k (g_size res) (g_size (sn_src opc res a)) P)
                (sn_guard opc (g_size res) (g_size (sn_src opc res a))) Ho (sn_u_nonneg _ _ _ _ _ _)) as HT.
  rewrite Bsrc, Hker in HT.
  apply HT; try assumption.
  - apply sn_column_value; assumption.
  - intros i t Hi Ht. unfold sn_guard. repeat split.
    + apply hr62_coeff_limbs. exact Ssrc.
    + apply hr62_coeff_limbs. exact Sres.
    + unfold coeff_limbs. rewrite map_length. apply (gcol_length n res i Hres). lia.
    + unfold coeff_limbs. rewrite map_length. apply (gcol_length n _ i Wsrc). exact Hi.
    + intros Ei. unfold sn_src. rewrite Ei. reflexivity.
Qed.

(* the shift calls assert equal radices themselves *)
Lemma shift_same_radix n opc scr k res a b r : 15 <= opc <= 17 -> exec_op opc n scr k res a b = Some r -> g_b a = g_b res.
Proof.
  intros Ho He. assert (Hc : opc = 15 \/ opc = 16 \/ opc = 17) by lia.
  destruct Hc as [-> | [-> | ->]]; cbn [exec_op] in He;
    unfold glwe_lsh, glwe_lsh_add, glwe_lsh_sub, glwe_lsh_gen in He;
    destruct (_ && _)%bool eqn:E; try discriminate; split_andb E; apply Z.eqb_eq in E1; lia.
Qed.

Theorem phase_shift_unconditional n s opc scr k res a b r P :
  13 <= opc <= 17 -> 1 <= g_b res <= 62 -> 0 <= k ->
  secret_ok n s -> wf_glwe n res -> wf_glwe n a -> gsmall res -> gsmall (sn_src opc res a) ->
  1 <= P -> 2 * Z.of_nat (g_size res) * g_b res + Z.of_nat (g_size (sn_src opc res a)) * g_b res + k <= P ->
  exec_op opc n scr k res a b = Some r ->
  wf_glwe n r /\
  forall t, exists E M,
    nthZ (valp P (g_b res) n (phase n s r)) t =
      sn_keep opc * nthZ (valp P (g_b res) n (phase n s res)) t +
      sn_sgn opc * nthZ (valp (P + sn_off opc k) (g_b res) n (phase n s (sn_src opc res a))) t +
      E + M * 2 ^ P /\
    Z.abs E <= err_bound (sn_u opc (g_b res) k (g_size res) (g_size (sn_src opc res a)) P) s (g_ncols (sn_src opc res a)).
Proof.
  intros Ho Hb Hk Hs Hres Ha Sres Ssrc HP HPm He.
  apply (phase_shift_normalize_same_radix n s opc scr k res a b r P); try assumption; try lia.
  intros Hi. apply (shift_same_radix n opc scr k res a b r); [|exact He].
  assert (Hc : opc = 13 \/ opc = 14 \/ 15 <= opc <= 17) by lia.
  destruct Hc as [-> | [-> | Hc]]; [discriminate Hi | discriminate Hi | exact Hc].
Qed.
