(* (B) the key switch does not depend on the gadget shape: two shapes (dsize, dnum, msize, key) in one radix whose keys encrypt the
   same s_in -> s_out, and one input that fits both: the two results have the same plaintext image; they differ by E1 - E2 + 2^P(..),
   at torus distance <= env1 + env2; and (Model/C03Run.decode) every fitting shape decodes to the encrypted message. *)
From PV Require Import Base.MachineInt Model.Znx Model.Limbs Model.Flat Model.Ring Model.Poly Model.DftAbs Model.Gadget Model.GadgetSpec Model.GadgetDerived Model.C03Run
  Proofs.C07Dft Proofs.C07Ring Proofs.GadgetDecomp Proofs.GadgetPhase Proofs.GadgetBound Proofs.C03Phase.
Open Scope Z_scope.

(* one shape whose key has enough rows and limbs for the input: nothing of the input is lost *)
Section OneShape.
Variables (P b : Z) (n rin msize a_size dsize dnum : nat).
Variable ct : cols_t.
Variable res0 : cols_t.
Variable K : pmat.
Variable sk_out : list (list Z).
Variables (s_in : nat -> list Z) (e I : nat -> nat -> list Z).
Hypothesis Hct : wf_cols n (S rin) a_size ct.
Hypothesis HK : wf_pmat_in n (dnum * rin) (msize * S (length sk_out)) K.
Hypothesis Hn : (1 <= n)%nat.
Hypothesis Hd : (1 <= dsize)%nat.
Hypothesis Hdrop : (dsize - 2 <= msize)%nat.
Hypothesis Hfit1 : (a_size <= dnum * dsize)%nat.
Hypothesis Hfit2 : (a_size <= msize)%nat.
Hypothesis Hsk : forall s, In s sk_out -> length s = n.
Hypothesis Hsin : forall ci, length (s_in ci) = n.
Hypothesis He : forall row ci, length (e row ci) = n.
Hypothesis HI : forall row ci, length (I row ci) = n.
Hypothesis Hb : 0 <= b.
Hypothesis HP : Z.of_nat msize * b <= P.
Hypothesis HP2 : Z.of_nat dnum * Z.of_nat dsize * b <= P.
Hypothesis key_row : key_rows_ok P b n rin (S (length sk_out)) msize dsize dnum K (sk_ext n sk_out) s_in e I.

Theorem keyswitch_phase_fit :
  exists ks, keyswitch_internal n (S (length sk_out)) msize res0 ct a_size dsize dnum msize K = Some ks /\
    phase_val P b n sk_out ks
    = padd (padd (phase_in_full P b n rin a_size ct s_in)
                 (gadget_err P b n rin (S (length sk_out)) msize dsize dnum (acol n (tl ct)) K (sk_ext n sk_out) e))
           (pscale (2 ^ P) (gadget_int b n rin (S (length sk_out)) msize dsize dnum (acol n (tl ct)) K (sk_ext n sk_out) I)).
Proof.
  destruct (C03_keyswitch_internal_phase_val_lemma P b n rin msize a_size dsize dnum ct res0 K sk_out s_in e I
              Hct HK Hn Hd Hdrop Hsk Hsin He HI Hb HP HP2 key_row) as [ks [E1 E2]].
  exists ks. split; [exact E1|]. rewrite E2. unfold phase_in_full, pval_used.
  rewrite (Nat.min_r msize a_size) by exact Hfit2. rewrite (Nat.min_l a_size (dnum * dsize)) by exact Hfit1. reflexivity.
Qed.
End OneShape.

Section Distance.
(* centred distance on the torus of two values that differ by small terms and a multiple of 2^P *)
Lemma tor_norm_diff P (n : nat) (X E1 E2 J1 J2 : list Z) (B1 B2 : Z) :
  1 <= P -> length X = n -> length E1 = n -> length E2 = n -> length J1 = n -> length J2 = n ->
  pnorm E1 <= B1 -> pnorm E2 <= B2 -> B1 + B2 < 2 ^ (P - 1) ->
  psub (padd (padd X E1) (pscale (2 ^ P) J1)) (padd (padd X E2) (pscale (2 ^ P) J2)) = padd (psub E1 E2) (pscale (2 ^ P) (psub J1 J2)) /\
  tor_norm P (psub (padd (padd X E1) (pscale (2 ^ P) J1)) (padd (padd X E2) (pscale (2 ^ P) J2))) <= B1 + B2.
Proof.
  intros HP LX L1 L2 L3 L4 H1 H2 HB.
  assert (Eq : psub (padd (padd X E1) (pscale (2 ^ P) J1)) (padd (padd X E2) (pscale (2 ^ P) J2)) = padd (psub E1 E2) (pscale (2 ^ P) (psub J1 J2))).
  { apply list_eq_nth; [repeat (rewrite ?padd_length, ?psub_length, ?pscale_length); lia|].
    intros k _.
    repeat first [ rewrite nth_padd by (repeat (rewrite ?padd_length, ?psub_length, ?pscale_length); lia)
                 | rewrite nth_psub by (repeat (rewrite ?padd_length, ?psub_length, ?pscale_length); lia)
                 | rewrite nth_pscale ].
    ring. }
  split; [exact Eq|]. rewrite Eq. unfold tor_norm, center.
  pose proof (pnorm_nonneg E1). pose proof (pnorm_nonneg E2).
  apply pnorm_le_nth; [lia|]. rewrite map_length. intros k Hk.
  rewrite (nth_map' (wrap P) _ k 0 0) by exact Hk.
  rewrite nth_padd by (rewrite psub_length, pscale_length, psub_length; lia).
  rewrite nth_pscale, nth_psub by lia.
  set (d := nth k E1 0 - nth k E2 0).
  assert (Hd : Z.abs d <= B1 + B2).
  { pose proof (pnorm_nth E1 k). pose proof (pnorm_nth E2 k). unfold d. lia. }
  replace (wrap P (d + 2 ^ P * nth k (psub J1 J2) 0)) with (wrap P d).
  - rewrite wrap_id; [exact Hd|lia|]. unfold in_range. lia.
  - apply wrap_eq_mod; [lia|]. rewrite Z.mul_comm, Z_mod_plus_full. reflexivity.
Qed.
End Distance.


(* (B) two gadget shapes in one radix b, keys for the SAME s_in -> sk_out, one input ct that fits both shapes *)
Section TwoShapes.
Variables (P b : Z) (n rin a_size : nat).
Variable ct : cols_t.
Variable sk_out : list (list Z).
Variable s_in : nat -> list Z.
Variables (msize1 dsize1 dnum1 msize2 dsize2 dnum2 : nat).
Variables (res01 res02 : cols_t) (K1 K2 : pmat) (e1 I1 e2 I2 : nat -> nat -> list Z).
Variables (env1 env2 : Z).
Hypothesis Hct : wf_cols n (S rin) a_size ct.
Hypothesis Hn : (1 <= n)%nat.
Hypothesis Hsk : forall s, In s sk_out -> length s = n.
Hypothesis Hsin : forall ci, length (s_in ci) = n.
Hypothesis Hb : 0 <= b.
Hypothesis HP1 : 1 <= P.
(* shape 1 *)
Hypothesis HK1 : wf_pmat_in n (dnum1 * rin) (msize1 * S (length sk_out)) K1.
Hypothesis Hd1 : (1 <= dsize1)%nat.
Hypothesis Hdrop1 : (dsize1 - 2 <= msize1)%nat.
Hypothesis Hfit11 : (a_size <= dnum1 * dsize1)%nat.
Hypothesis Hfit12 : (a_size <= msize1)%nat.
Hypothesis He1 : forall row ci, length (e1 row ci) = n.
Hypothesis HI1 : forall row ci, length (I1 row ci) = n.
Hypothesis HPa1 : Z.of_nat msize1 * b <= P.
Hypothesis HPb1 : Z.of_nat dnum1 * Z.of_nat dsize1 * b <= P.
Hypothesis key_row1 : key_rows_ok P b n rin (S (length sk_out)) msize1 dsize1 dnum1 K1 (sk_ext n sk_out) s_in e1 I1.
(* shape 2 *)
Hypothesis HK2 : wf_pmat_in n (dnum2 * rin) (msize2 * S (length sk_out)) K2.
Hypothesis Hd2 : (1 <= dsize2)%nat.
Hypothesis Hdrop2 : (dsize2 - 2 <= msize2)%nat.
Hypothesis Hfit21 : (a_size <= dnum2 * dsize2)%nat.
Hypothesis Hfit22 : (a_size <= msize2)%nat.
Hypothesis He2 : forall row ci, length (e2 row ci) = n.
Hypothesis HI2 : forall row ci, length (I2 row ci) = n.
Hypothesis HPa2 : Z.of_nat msize2 * b <= P.
Hypothesis HPb2 : Z.of_nat dnum2 * Z.of_nat dsize2 * b <= P.
Hypothesis key_row2 : key_rows_ok P b n rin (S (length sk_out)) msize2 dsize2 dnum2 K2 (sk_ext n sk_out) s_in e2 I2.

Let E1 := gadget_err P b n rin (S (length sk_out)) msize1 dsize1 dnum1 (acol n (tl ct)) K1 (sk_ext n sk_out) e1.
Let E2 := gadget_err P b n rin (S (length sk_out)) msize2 dsize2 dnum2 (acol n (tl ct)) K2 (sk_ext n sk_out) e2.
Let J1 := gadget_int b n rin (S (length sk_out)) msize1 dsize1 dnum1 (acol n (tl ct)) K1 (sk_ext n sk_out) I1.
Let J2 := gadget_int b n rin (S (length sk_out)) msize2 dsize2 dnum2 (acol n (tl ct)) K2 (sk_ext n sk_out) I2.
(* the envelopes: C03_keyswitch_bound(_env) gives them for the gadget noise (= E_i when dsize_i <= 2) *)
Hypothesis Henv1 : pnorm E1 <= env1.
Hypothesis Henv2 : pnorm E2 <= env2.
Hypothesis Hsmall : env1 + env2 < 2 ^ (P - 1).

Theorem keyswitch_shape_independent :
  exists ks1 ks2,
    keyswitch_internal n (S (length sk_out)) msize1 res01 ct a_size dsize1 dnum1 msize1 K1 = Some ks1 /\
    keyswitch_internal n (S (length sk_out)) msize2 res02 ct a_size dsize2 dnum2 msize2 K2 = Some ks2 /\
    phase_val P b n sk_out ks1 = padd (padd (phase_in_full P b n rin a_size ct s_in) E1) (pscale (2 ^ P) J1) /\
    phase_val P b n sk_out ks2 = padd (padd (phase_in_full P b n rin a_size ct s_in) E2) (pscale (2 ^ P) J2) /\
    psub (phase_val P b n sk_out ks1) (phase_val P b n sk_out ks2) = padd (psub E1 E2) (pscale (2 ^ P) (psub J1 J2)) /\
    tor_norm P (psub (phase_val P b n sk_out ks1) (phase_val P b n sk_out ks2)) <= env1 + env2.
Proof.
  destruct (keyswitch_phase_fit P b n rin msize1 a_size dsize1 dnum1 ct res01 K1 sk_out s_in e1 I1
              Hct HK1 Hn Hd1 Hdrop1 Hfit11 Hfit12 Hsk Hsin He1 HI1 Hb HPa1 HPb1 key_row1) as [ks1 [A1 A2]].
  destruct (keyswitch_phase_fit P b n rin msize2 a_size dsize2 dnum2 ct res02 K2 sk_out s_in e2 I2
              Hct HK2 Hn Hd2 Hdrop2 Hfit21 Hfit22 Hsk Hsin He2 HI2 Hb HPa2 HPb2 key_row2) as [ks2 [B1 B2]].
  exists ks1, ks2. split; [exact A1|]. split; [exact B1|].
  fold E1 J1 in A2. fold E2 J2 in B2. split; [exact A2|]. split; [exact B2|].
  rewrite A2, B2.
  pose proof (acol_length n rin a_size (tl ct) (wf_tl n rin a_size ct Hct)) as LA.
  pose proof (acol_length n (S rin) a_size ct Hct) as LB.
  apply (tor_norm_diff P n); try assumption.
  - unfold phase_in_full. apply padd_len; [apply pval_length; intros; apply LB|].
    apply psumf_length. intros ci _. rewrite pmul_length. apply pval_length; intros; apply LA.
  - apply gadget_err_length; assumption.
  - apply gadget_err_length; assumption.
  - apply gadget_int_length; assumption.
  - apply gadget_int_length; assumption.
Qed.
End TwoShapes.

(* decoding (Model/C03Run.decode: the kpt top bits): a value M 2^(P-kpt) + err + 2^P I with |err| < half a message step decodes to M *)
Section Decode.
Lemma decode_coeff_correct P kpt m e i : 1 <= kpt -> kpt < P -> Z.abs e < 2 ^ (P - kpt - 1) ->
  wrap kpt ((wrap P (m * 2 ^ (P - kpt) + e + 2 ^ P * i) + 2 ^ (P - kpt - 1)) / 2 ^ (P - kpt)) = wrap kpt m.
Proof.
  intros Hk HP He.
  destruct (wrap_exists P (m * 2 ^ (P - kpt) + e + 2 ^ P * i) ltac:(lia)) as [q Eq]. rewrite Eq.
  set (u := 2 ^ (P - kpt)). assert (Hu : 0 < u) by (apply pow2_pos; lia).
  assert (Eh : u = 2 * 2 ^ (P - kpt - 1)) by (unfold u; apply pow2_split; lia).
  assert (EP : 2 ^ P = 2 ^ kpt * u) by (unfold u; rewrite <- Z.pow_add_r by lia; f_equal; lia).
  assert (Ediv : (m * u + e + 2 ^ P * i - q * 2 ^ P + 2 ^ (P - kpt - 1)) / u = m + (i - q) * 2 ^ kpt).
  { symmetry. apply (Z.div_unique _ _ _ (e + 2 ^ (P - kpt - 1))); [lia|]. rewrite EP. ring. }
  rewrite Ediv. apply wrap_eq_mod; [lia|]. apply Z_mod_plus_full.
Qed.

Theorem decode_correct P kpt (n : nat) (msg err I : list Z) : 1 <= kpt -> kpt < P ->
  length msg = n -> length err = n -> length I = n -> pnorm err < 2 ^ (P - kpt - 1) ->
  decode P kpt (padd (padd (pscale (2 ^ (P - kpt)) msg) err) (pscale (2 ^ P) I)) = map (wrap kpt) msg.
Proof.
  intros Hk HP L1 L2 L3 He. unfold decode.
  apply list_eq_nth; [rewrite !map_length; repeat (rewrite ?padd_length, ?pscale_length); lia|].
  rewrite map_length. intros k Hk'.
  rewrite (nth_map' _ _ k 0 0) by exact Hk'.
  repeat (rewrite ?padd_length, ?pscale_length in Hk').
  rewrite (nth_map' (wrap kpt) msg k 0 0) by lia.
  repeat first [ rewrite nth_padd by (repeat (rewrite ?padd_length, ?pscale_length); lia) | rewrite nth_pscale ].
  rewrite (Z.mul_comm (2 ^ (P - kpt))). apply decode_coeff_correct; try assumption.
  pose proof (pnorm_nth err k). lia.
Qed.
End Decode.

Section DecodeShift.
(* (M 2^(P-kpt) + e_in) + E + 2^P J decodes to M when |e_in| + |E| stays below half a message step *)
Lemma decode_noisy P kpt (n : nat) (msg e_in E J : list Z) (B : Z) : 1 <= kpt -> kpt < P ->
  length msg = n -> length e_in = n -> length E = n -> length J = n -> pnorm E <= B -> pnorm e_in + B < 2 ^ (P - kpt - 1) ->
  decode P kpt (padd (padd (padd (pscale (2 ^ (P - kpt)) msg) e_in) E) (pscale (2 ^ P) J)) = map (wrap kpt) msg.
Proof.
  intros Hk HP L1 L2 L3 L4 HB Hs. rewrite (padd_assoc (pscale (2 ^ (P - kpt)) msg) e_in E).
  apply (decode_correct P kpt n); try assumption; [apply padd_len; assumption|].
  pose proof (pnorm_padd e_in E). lia.
Qed.
End DecodeShift.

(* decoding corollary: whatever the gadget shape (that fits the input), the key-switched ciphertext decodes to the encrypted message *)
Section FitDecodes.
Variables (P b kpt : Z) (n rin msize a_size dsize dnum : nat).
Variable ct : cols_t.
Variable res0 : cols_t.
Variable K : pmat.
Variable sk_out : list (list Z).
Variables (s_in : nat -> list Z) (e I : nat -> nat -> list Z).
Variables (msg e_in : list Z) (env : Z).
Hypothesis Hct : wf_cols n (S rin) a_size ct.
Hypothesis HK : wf_pmat_in n (dnum * rin) (msize * S (length sk_out)) K.
Hypothesis Hn : (1 <= n)%nat.
Hypothesis Hd : (1 <= dsize)%nat.
Hypothesis Hdrop : (dsize - 2 <= msize)%nat.
Hypothesis Hfit1 : (a_size <= dnum * dsize)%nat.
Hypothesis Hfit2 : (a_size <= msize)%nat.
Hypothesis Hsk : forall s, In s sk_out -> length s = n.
Hypothesis Hsin : forall ci, length (s_in ci) = n.
Hypothesis He : forall row ci, length (e row ci) = n.
Hypothesis HI : forall row ci, length (I row ci) = n.
Hypothesis Hb : 0 <= b.
Hypothesis HP : Z.of_nat msize * b <= P.
Hypothesis HP2 : Z.of_nat dnum * Z.of_nat dsize * b <= P.
Hypothesis key_row : key_rows_ok P b n rin (S (length sk_out)) msize dsize dnum K (sk_ext n sk_out) s_in e I.
Hypothesis Hk : 1 <= kpt < P.
Hypothesis Lmsg : length msg = n.
Hypothesis Lein : length e_in = n.
Hypothesis Hmsg : phase_in_full P b n rin a_size ct s_in = padd (pscale (2 ^ (P - kpt)) msg) e_in.
Hypothesis Henv : pnorm (gadget_err P b n rin (S (length sk_out)) msize dsize dnum (acol n (tl ct)) K (sk_ext n sk_out) e) <= env.
Hypothesis Hsmall : pnorm e_in + env < 2 ^ (P - kpt - 1).

Theorem keyswitch_fit_decodes :
  exists ks, keyswitch_internal n (S (length sk_out)) msize res0 ct a_size dsize dnum msize K = Some ks /\
    decode P kpt (phase_val P b n sk_out ks) = map (wrap kpt) msg.
Proof.
  destruct (keyswitch_phase_fit P b n rin msize a_size dsize dnum ct res0 K sk_out s_in e I
              Hct HK Hn Hd Hdrop Hfit1 Hfit2 Hsk Hsin He HI Hb HP HP2 key_row) as [ks [A1 A2]].
  exists ks. split; [exact A1|]. rewrite A2, Hmsg.
  pose proof (acol_length n rin a_size (tl ct) (wf_tl n rin a_size ct Hct)) as LA.
  apply (decode_noisy P kpt n msg e_in _ _ env); try assumption; try lia.
  - apply gadget_err_length; assumption.
  - apply gadget_int_length; assumption.
Qed.
End FitDecodes.

