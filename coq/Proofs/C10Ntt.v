(* C10 / NTT120: the AVX2 lane code of ntt120/arithmetic_avx.rs (cond_sub, barrett_reduce with mu = floor(2^61/Q),
   reduce_b_to_canonical, the c_from_b_avx2 loop body and the b_from_znx64_avx2 loop body) equals the scalar
   reference (Model/C07Ntt120.v: c_from_b_k, b_from_znx64_k), for EVERY u64 / i64 input. *)
From PV Require Import Base.MachineInt Model.Znx Model.C10AvxLanes Proofs.C10Avx Model.C07Ntt120.
Open Scope Z_scope.

(* ---------- lanes holding small non-negative values ---------- *)
Lemma to_u_of_u (u : Z) : 0 <= u < 2 ^ 64 -> to_u (of_u u) = u.
Proof.
  intros H. unfold to_u, of_u, wrapu. rewrite wrap_congr by lia. apply Z.mod_small; lia.
Qed.

Lemma to_u_nn (a : Z) : 0 <= a < 2 ^ 63 -> to_u a = a.
Proof. intros H; apply to_u_small; lia. Qed.

Lemma of_u_nn (a : Z) : 0 <= a < 2 ^ 63 -> of_u a = a.
Proof. intros H; apply of_u_small; lia. Qed.

Lemma mm_srli_nn (a k : Z) : 0 <= a < 2 ^ 63 -> 0 <= k < 64 -> mm_srli a k = a / 2 ^ k.
Proof.
  intros Ha Hk. unfold mm_srli. destruct (Z.ltb_spec k 64); [|lia].
  rewrite to_u_nn by lia. rewrite Z.shiftr_div_pow2 by lia.
  pose proof (pow2_pos k ltac:(lia)) as Hp.
  assert (0 <= a / 2 ^ k <= a).
  { split; [apply Z.div_pos; lia|]. apply Z.div_le_upper_bound; nia. }
  apply of_u_nn; lia.
Qed.

Lemma mm_add_nn (a b : Z) : 0 <= a -> 0 <= b -> a + b < 2 ^ 63 -> mm_add a b = a + b.
Proof. intros. unfold mm_add. apply wrap_id; [lia|]. apply in_range_64; lia. Qed.

Lemma mm_sub_nn (a b : Z) : 0 <= b <= a -> a < 2 ^ 63 -> mm_sub a b = a - b.
Proof. intros. unfold mm_sub. apply wrap_id; [lia|]. apply in_range_64; lia. Qed.

Lemma mod32_small (a : Z) : 0 <= a < 2 ^ 32 -> a mod 2 ^ 32 = a.
Proof. intros; apply Z.mod_small; lia. Qed.

Lemma mm_mul_epu32_nn (a b : Z) : 0 <= a < 2 ^ 32 -> 0 <= b < 2 ^ 32 -> a * b < 2 ^ 63 ->
  mm_mul_epu32 a b = a * b.
Proof.
  intros Ha Hb Hab. unfold mm_mul_epu32. rewrite !to_u_nn by lia.
  rewrite !mod32_small by lia. apply of_u_nn; nia.
Qed.

(* the product may reach 2^64 - 1: the shift is done on the bit pattern *)
Lemma mm_srli_mul (a b k : Z) : 0 <= a < 2 ^ 32 -> 0 <= b < 2 ^ 32 -> 1 <= k < 64 ->
  mm_srli (mm_mul_epu32 a b) k = (a * b) / 2 ^ k.
Proof.
  intros Ha Hb Hk. unfold mm_srli, mm_mul_epu32. destruct (Z.ltb_spec k 64); [|lia].
  rewrite (to_u_nn a), (to_u_nn b) by lia. rewrite !mod32_small by lia.
  assert (Hab : 0 <= a * b < 2 ^ 64) by nia.
  rewrite to_u_of_u by lia. rewrite Z.shiftr_div_pow2 by lia.
  pose proof (pow2_pos k ltac:(lia)) as Hp.
  assert (H2 : 2 ^ 64 = 2 ^ (64 - k) * 2 ^ k) by (apply pow2_64_split; lia).
  assert (H3 : 2 ^ (64 - k) <= 2 ^ 63) by (apply pow2_le; lia).
  assert (0 <= a * b / 2 ^ k < 2 ^ (64 - k)).
  { split; [apply Z.div_pos; lia|]. apply Z.div_lt_upper_bound; lia. }
  apply of_u_nn; lia.
Qed.

Lemma cond_sub_nn (x q : Z) : 0 <= x < 2 ^ 63 -> 0 <= q < 2 ^ 63 ->
  cond_sub_avx x q = if x <? q then x else x - q.
Proof.
  intros Hx Hq. unfold cond_sub_avx, mm_cmpgt, mm_andnot.
  destruct (Z.ltb_spec x q) as [Hlt|Hge].
  - rewrite (to_u_neg (-1)) by lia.
    replace (2 ^ 64 - 1 - (-1 + 2 ^ 64)) with 0 by lia. rewrite Z.land_0_l.
    rewrite (of_u_nn 0) by lia. rewrite mm_sub_nn by lia. lia.
  - rewrite (to_u_nn 0) by lia. rewrite Z.sub_0_r.
    rewrite Z.land_comm, land_mask_mod by lia.
    pose proof (to_u_range q). rewrite Z.mod_small by lia.
    rewrite to_u_nn, of_u_nn by lia. apply mm_sub_nn; lia.
Qed.

(* ---------- Barrett reduction ---------- *)
Lemma barrett_reduce_eq (q tmp : Z) : 2 ^ 29 < q < 2 ^ 30 -> 0 <= tmp < 2 ^ 61 ->
  barrett_reduce_avx tmp q (2 ^ 61 / q) = tmp mod q.
Proof.
  intros Hq Ht. unfold barrett_reduce_avx. cbv beta iota zeta delta [mm_set1].
  set (mu := 2 ^ 61 / q).
  assert (Hmu : mu * q <= 2 ^ 61 < mu * q + q).
  { unfold mu. pose proof (Z.div_mod (2 ^ 61) q ltac:(lia)) as Hd.
    pose proof (Z.mod_pos_bound (2 ^ 61) q ltac:(lia)). lia. }
  assert (Hmu32 : 0 <= mu < 2 ^ 32) by nia.
  rewrite (mm_srli_nn tmp 32) by lia.
  rewrite (mm_and_mask 32 tmp) by lia.
  set (hi := tmp / 2 ^ 32). set (lo := tmp mod 2 ^ 32).
  assert (Hsplit : tmp = 2 ^ 32 * hi + lo) by (unfold hi, lo; apply Z.div_mod; lia).
  assert (Hlo : 0 <= lo < 2 ^ 32) by (unfold lo; apply Z.mod_pos_bound; lia).
  assert (Hhi : 0 <= hi < 2 ^ 29).
  { unfold hi. split; [apply Z.div_pos; lia|]. apply Z.div_lt_upper_bound; lia. }
  rewrite !mm_srli_mul by lia.
  set (qh := hi * mu / 2 ^ 29). set (ql := lo * mu / 2 ^ 61).
  assert (Hqh : 2 ^ 29 * qh <= hi * mu < 2 ^ 29 * qh + 2 ^ 29).
  { unfold qh. pose proof (Z.div_mod (hi * mu) (2 ^ 29) ltac:(lia)).
    pose proof (Z.mod_pos_bound (hi * mu) (2 ^ 29) ltac:(lia)). lia. }
  assert (Hql : 2 ^ 61 * ql <= lo * mu < 2 ^ 61 * ql + 2 ^ 61).
  { unfold ql. pose proof (Z.div_mod (lo * mu) (2 ^ 61) ltac:(lia)).
    pose proof (Z.mod_pos_bound (lo * mu) (2 ^ 61) ltac:(lia)). lia. }
  assert (Hqh0 : 0 <= qh) by (unfold qh; apply Z.div_pos; nia).
  assert (Hql0 : 0 <= ql) by (unfold ql; apply Z.div_pos; nia).
  (* q_approx never exceeds the true quotient ... *)
  assert (HA1 : qh * q <= hi * 2 ^ 32).
  { assert (2 ^ 29 * (qh * q) <= 2 ^ 29 * (hi * 2 ^ 32)); [|lia].
    assert (2 ^ 29 * qh * q <= hi * mu * q) by (apply Z.mul_le_mono_nonneg_r; lia).
    assert (hi * (mu * q) <= hi * 2 ^ 61) by (apply Z.mul_le_mono_nonneg_l; lia).
    lia. }
  assert (HA2 : ql * q <= lo).
  { assert (2 ^ 61 * (ql * q) <= 2 ^ 61 * lo); [|lia].
    assert (2 ^ 61 * ql * q <= lo * mu * q) by (apply Z.mul_le_mono_nonneg_r; lia).
    assert (lo * (mu * q) <= lo * 2 ^ 61) by (apply Z.mul_le_mono_nonneg_l; lia).
    lia. }
  set (qa := qh + ql).
  assert (HA : qa * q <= tmp) by (unfold qa; lia).
  (* ... and misses it by less than 3 *)
  assert (HB : tmp - qa * q < 3 * q).
  { assert (HB1 : 2 ^ 61 * qa + 2 * 2 ^ 61 > tmp * mu).
    { unfold qa. rewrite Hsplit. lia. }
    assert (HB2 : 2 ^ 61 * (tmp - qa * q) < 2 ^ 61 * (3 * q)); [|lia].
    assert (HB3 : q * (tmp * mu) < q * (2 ^ 61 * qa + 2 * 2 ^ 61)) by (apply Z.mul_lt_mono_pos_l; lia).
    assert (HB4 : tmp * (2 ^ 61 - mu * q) < 2 ^ 61 * q) by (apply Z.mul_lt_mono_nonneg; lia).
    lia. }
  assert (Hqa0 : 0 <= qa) by (unfold qa; lia).
  assert (Hqa : 0 <= qa < 2 ^ 32).
  { split; [exact Hqa0|]. destruct (Z_lt_le_dec qa (2 ^ 32)) as [Hl|Hl]; [exact Hl|exfalso].
    assert (2 ^ 32 * q <= qa * q) by (apply Z.mul_le_mono_nonneg_r; lia). lia. }
  assert (Hqaq : 0 <= qa * q) by (apply Z.mul_nonneg_nonneg; lia).
  rewrite (mm_add_nn qh ql) by (fold qa; lia). fold qa.
  rewrite (mm_mul_epu32_nn qa q) by lia.
  rewrite mm_sub_nn by lia.
  set (r := tmp - qa * q) in *.
  assert (Hr0 : 0 <= r) by (unfold r; lia).
  rewrite (cond_sub_nn r q) by lia.
  destruct (Z.ltb_spec r q) as [H1|H1].
  - rewrite cond_sub_nn by lia. destruct (Z.ltb_spec r q); [|lia].
    apply Z.mod_unique with (q := qa); unfold r; lia.
  - rewrite cond_sub_nn by lia. destruct (Z.ltb_spec (r - q) q) as [H2|H2].
    + apply Z.mod_unique with (q := qa + 1); unfold r; lia.
    + apply Z.mod_unique with (q := qa + 2); unfold r; lia.
Qed.

(* the side condition that makes tmp < 2^61 for EVERY u64 input (not only x < Q << 33):
   x_hi_r <= max(q - 1, 2^32 - 1 - q), times POW32, plus x_lo *)
Definition pow32_small (q : Z) : Prop := (2 ^ 32 - q) * (2 ^ 32 mod q) + 2 ^ 32 <= 2 ^ 61.

Lemma reduce_b_to_canonical_eq (q x : Z) : 2 ^ 29 < q < 2 ^ 30 -> pow32_small q -> 0 <= x < 2 ^ 64 ->
  reduce_b_to_canonical_avx (load_u64 x) q (2 ^ 61 / q) (2 ^ 32 mod q) = x mod q.
Proof.
  intros Hq Hp Hx. unfold pow32_small in Hp. unfold reduce_b_to_canonical_avx, load_u64.
  cbv beta iota zeta delta [mm_set1].
  set (p := 2 ^ 32 mod q) in *.
  assert (Hp0 : 0 <= p < q) by (unfold p; apply Z.mod_pos_bound; lia).
  (* x_hi, x_lo from the bit pattern *)
  assert (Hhi : mm_srli (of_u x) 32 = x / 2 ^ 32).
  { unfold mm_srli. destruct (Z.ltb_spec 32 64); [|lia]. rewrite to_u_of_u by lia.
    rewrite Z.shiftr_div_pow2 by lia.
    assert (0 <= x / 2 ^ 32 < 2 ^ 32).
    { split; [apply Z.div_pos; lia|]. apply Z.div_lt_upper_bound; lia. }
    apply of_u_nn; lia. }
  assert (Hlo : mm_and (of_u x) (2 ^ 32 - 1) = x mod 2 ^ 32).
  { rewrite mm_and_mask by lia. unfold of_u.
    rewrite <- (mod_mod_pow2 (wrap 64 x) 64 32) by lia. rewrite wrap_congr by lia.
    apply mod_mod_pow2; lia. }
  rewrite Hhi, Hlo.
  set (hi := x / 2 ^ 32). set (lo := x mod 2 ^ 32).
  assert (Hsplit : x = 2 ^ 32 * hi + lo) by (unfold hi, lo; apply Z.div_mod; lia).
  assert (Hlo' : 0 <= lo < 2 ^ 32) by (unfold lo; apply Z.mod_pos_bound; lia).
  assert (Hhi' : 0 <= hi < 2 ^ 32).
  { unfold hi. split; [apply Z.div_pos; lia|]. apply Z.div_lt_upper_bound; lia. }
  rewrite cond_sub_nn by lia.
  set (hr := if hi <? q then hi else hi - q).
  assert (Hhr : 0 <= hr <= 2 ^ 32 - q /\ (hr = hi \/ hr = hi - q)).
  { unfold hr. destruct (Z.ltb_spec hi q); lia. }
  assert (Hprod : 0 <= hr * p /\ hr * p + lo < 2 ^ 61) by nia.
  rewrite mm_mul_epu32_nn by nia.
  rewrite mm_add_nn by lia.
  rewrite barrett_reduce_eq by lia.
  (* congruence: hr*p + lo = x (mod q) *)
  pose proof (Z.div_mod (2 ^ 32) q ltac:(lia)) as Hd. fold p in Hd.
  set (c := 2 ^ 32 / q) in *.
  assert (Hx' : x = (q * c + p) * hi + lo) by (rewrite <- Hd; exact Hsplit).
  destruct Hhr as [_ [-> | ->]].
  - assert (E : hi * p + lo = x + (- hi * c) * q) by (rewrite Hx' at 1; ring).
    rewrite E. apply Z.mod_add; lia.
  - assert (E : (hi - q) * p + lo = x + (- hi * c - p) * q) by (rewrite Hx' at 1; ring).
    rewrite E. apply Z.mod_add; lia.
Qed.

Theorem c_from_b_avx_eq_ref (q x : Z) : 2 ^ 29 < q < 2 ^ 30 -> pow32_small q -> 0 <= x < 2 ^ 64 ->
  c_from_b_k_avx q x = c_from_b_k q x.
Proof.
  intros Hq Hp Hx. unfold c_from_b_k_avx, c_from_b_k.
  set (p := 2 ^ 32 mod q).
  assert (Hp0 : 0 <= p < q) by (unfold p; apply Z.mod_pos_bound; lia).
  assert (Hmu : 0 <= 2 ^ 61 / q < 2 ^ 32).
  { split; [apply Z.div_pos; lia|]. apply Z.div_lt_upper_bound; lia. }
  unfold load_u64 at 1 2 3.
  rewrite (of_u_nn q), (of_u_nn (2 ^ 61 / q)), (of_u_nn p) by lia.
  unfold c_from_b_lane_avx. cbv beta iota zeta. unfold p.
  rewrite !reduce_b_to_canonical_eq by assumption. fold p.
  set (r := x mod q).
  assert (Hr : 0 <= r < q) by (unfold r; apply Z.mod_pos_bound; lia).
  rewrite mm_mul_epu32_nn by nia.
  rewrite barrett_reduce_eq by nia.
  assert (Hrs : (r * p) mod q = u64 (r * 2 ^ 32) mod q).
  { unfold u64, wrapu. rewrite (Z.mod_small (r * 2 ^ 32)) by nia.
    unfold p. rewrite Z.mul_mod_idemp_r by lia. reflexivity. }
  rewrite Hrs. set (s := u64 (r * 2 ^ 32) mod q).
  assert (Hs : 0 <= s < q) by (unfold s; apply Z.mod_pos_bound; lia).
  (* pack *)
  clearbody s r p. clear Hp Hmu Hx.
  assert (Hs32 : 0 <= s * 2 ^ 32 < 2 ^ 62) by lia.
  assert (Hsl : mm_slli s 32 = s * 2 ^ 32).
  { unfold mm_slli. destruct (Z.ltb_spec 32 64); [|lia]. rewrite to_u_nn by lia.
    rewrite Z.shiftl_mul_pow2 by lia. apply of_u_nn; lia. }
  rewrite Hsl. unfold mm_or. rewrite (to_u_nn r), (to_u_nn (s * 2 ^ 32)) by lia.
  rewrite lor_disjoint_add by (apply land_low_high; lia).
  unfold store_2xu32. rewrite of_u_nn by lia. rewrite to_u_nn by lia.
  unfold u32, wrapu. rewrite (Z.mod_small r (2 ^ 32)), (Z.mod_small s (2 ^ 32)) by lia.
  f_equal; [|f_equal].
  - rewrite Z.mod_add by lia. apply Z.mod_small; lia.
  - rewrite Z.div_add by lia. rewrite Z.div_small by lia. lia.
Qed.

Lemma primes30_side (q : Z) : In q primes30_Q -> 2 ^ 29 < q < 2 ^ 30 /\ pow32_small q.
Proof.
  unfold primes30_Q, pow32_small. cbn [In]. intros [<-|[<-|[<-|[<-|[]]]]]; vm_compute; repeat split; discriminate.
Qed.

Theorem c_from_b_avx_eq_ref_primes30 (q x : Z) : In q primes30_Q -> 0 <= x < 2 ^ 64 ->
  c_from_b_k_avx q x = c_from_b_k q x.
Proof. intros Hin Hx. destruct (primes30_side q Hin). apply c_from_b_avx_eq_ref; assumption. Qed.

(* ---------- b_from_znx64 ---------- *)
Theorem b_from_znx64_avx_eq_ref (q x : Z) : 1 <= q < 2 ^ 62 -> in_range 64 x ->
  b_from_znx64_k_avx q x = b_from_znx64_k q x.
Proof.
  intros Hq Hx. apply in_range_64_elim in Hx.
  unfold b_from_znx64_k_avx, b_from_znx64_k, b_from_znx64_lane_avx, store_u64, load_u64.
  cbv beta iota zeta delta [mm_set1]. fold (oq q).
  assert (Hoq : 0 < oq q <= q).
  { unfold oq. pose proof (Z.mod_pos_bound (2 ^ 63) q ltac:(lia)). lia. }
  rewrite (of_u_nn (oq q)) by lia.
  rewrite (mm_and_mask 63 x) by lia.
  rewrite mm_and_neg_mask by (apply in_range_64; lia).
  unfold mm_add, to_u, u64, wrapu. rewrite wrap_congr by lia.
  rewrite (mod_mod_pow2 x 64 63) by lia.
  f_equal. f_equal.
  destruct (Z.ltb_spec x 0) as [Hn|Hn].
  - pose proof (to_u_neg x ltac:(lia)) as Hu. unfold to_u, wrapu in Hu. rewrite Hu.
    destruct (Z.ltb_spec (2 ^ 63 - 1) (x + 2 ^ 64)); [reflexivity|lia].
  - rewrite Z.mod_small by lia. destruct (Z.ltb_spec (2 ^ 63 - 1) x); [lia|reflexivity].
Qed.
