(* C18 — levels 2 and 3: key sequences (GGLWEToGGSWKey, BlindRotationKey and compressed forms),
   CircuitBootstrappingKey, BDDKey.  Everything is proved for an arbitrary wrapper reader that satisfies the
   level-1 statements, then instantiated with the repaired reader (and, for the round trip, with the reader as it is). *)
From PV Require Import Base.MachineInt Model.C18Serial Proofs.C18Bytes Proofs.C18Flat Proofs.C18Wrap.
Open Scope Z_scope.

Definition Iw (w : wobj) : Prop := inv_wobj w /\ valid_wobj w.
Definition Ik (k : kseq) : Prop := Forall Iw (k_keys k).
Definition Ic (c : cbk) : Prop := Ik (c_brk c) /\ Forall (fun q => Iw (snd q)) (c_atk c) /\ Ik (c_tsk c).
Definition Ib (b : bdd) : Prop :=
  Ic (b_cbt b) /\ match b_ksg b with Some g => Iw g | None => True end /\ Iw (b_ksl b).

Lemma Forall2_length {A B} (R : A -> B -> Prop) (l : list A) (m : list B) : Forall2 R l m -> length l = length m.
Proof. induction 1; cbn [length]; congruence. Qed.

Lemma good_is_ok (o : outcome) : good o -> is_ok o = true -> o = Ok.
Proof. intros [-> | ->]; [reflexivity|discriminate]. Qed.
Lemma good_not_ok (o : outcome) : good o -> is_ok o = false -> o = Err.
Proof. intros [-> | ->]; [discriminate|reflexivity]. Qed.

(* ------------------------------------------------------------------------------------------------ *)
Section Total.
(* a wrapper reader that is total, keeps the invariant, and leaves the metadata alone when it fails *)
Variable rw : wobj -> bytes -> outcome * wobj * bytes.
Hypothesis rw_total : forall w s, good (fst (fst (rw w s))).
Hypothesis rw_inv : forall w s, Iw w -> Iw (snd (fst (rw w s))).
Hypothesis rw_err : forall w s w' t, rw w s = (Err, w', t) -> same_meta_wobj w' w.

(* each key after the call: metadata untouched, or the complete result of a successful read of that key *)
Definition key_atomic (a b : wobj) : Prop := same_meta_wobj b a \/ exists s t, rw a s = (Ok, b, t).

Lemma same_meta_wobj_refl (w : wobj) : same_meta_wobj w w.
Proof. unfold same_meta_wobj, same_meta_flat. auto. Qed.

Lemma read_keys_props (ks : list wobj) (s : bytes) :
  let res := read_keys rw ks s in
  good (fst (fst res)) /\ (Forall Iw ks -> Forall Iw (snd (fst res))) /\ Forall2 key_atomic ks (snd (fst res)).
Proof.
  cbn zeta. revert s. induction ks as [|k t IH]; intros s.
  - cbn [read_keys fst snd]. split; [left; reflexivity|]. split; [auto|constructor].
  - cbn [read_keys]. pose proof (rw_total k s) as Ht. pose proof (rw_inv k s) as Hi. pose proof (rw_err k s) as He.
    destruct (rw k s) as [[oc k'] s'] eqn:E. cbn [fst snd] in *.
    destruct (is_ok oc) eqn:Eo.
    + apply good_is_ok in Eo; [|exact Ht]. subst oc.
      specialize (IH s'). destruct (read_keys rw t s') as [[oc2 t'] s'']. cbn [fst snd seq_oc] in *.
      destruct IH as (G & Hinv & Hat). split; [exact G|]. split.
      * intros HF. inversion HF; subst. constructor; auto.
      * constructor; [right; exists s, s'; exact E|exact Hat].
    + apply good_not_ok in Eo; [|exact Ht]. subst oc. cbn [fst snd]. split; [right; reflexivity|]. split.
      * intros HF. inversion HF; subst. constructor; auto.
      * constructor; [left; eapply He; reflexivity|].
        clear. induction t; constructor; [left; apply same_meta_wobj_refl|assumption].
Qed.

Lemma upd_atk_props (g : Z) (atk : list (Z * wobj)) (s : bytes) (oc : outcome) (atk' : list (Z * wobj)) (t : bytes) :
  upd_atk rw g atk s = Some (oc, atk', t) ->
  good oc /\ (Forall (fun q => Iw (snd q)) atk -> Forall (fun q => Iw (snd q)) atk') /\ map fst atk' = map fst atk.
Proof.
  revert oc atk' t. induction atk as [|[g' w] tl IH]; intros oc atk' t; cbn [upd_atk]; [discriminate|].
  destruct (g =? g') eqn:Eg.
  - pose proof (rw_total w s) as Ht. pose proof (rw_inv w s) as Hi.
    destruct (rw w s) as [[o w'] s']. intros H; inversion H; subst. cbn [fst snd] in *.
    split; [exact Ht|]. split; [|reflexivity].
    intros HF. inversion HF; subst. constructor; auto.
  - destruct (upd_atk rw g tl s) as [[[o t'] s']|] eqn:E; [|discriminate].
    intros H; inversion H; subst. destruct (IH _ _ _ eq_refl) as (G & Hinv & Hm).
    split; [exact G|]. split.
    + intros HF. inversion HF; subst. constructor; auto.
    + cbn [map fst]. rewrite Hm. reflexivity.
Qed.

Lemma read_atk_props (cnt : nat) (atk : list (Z * wobj)) (s : bytes) :
  let res := read_atk rw cnt atk s in
  good (fst (fst res)) /\ (Forall (fun q => Iw (snd q)) atk -> Forall (fun q => Iw (snd q)) (snd (fst res))) /\
  map fst (snd (fst res)) = map fst atk.
Proof.
  cbn zeta. revert atk s. induction cnt as [|c IH]; intros atk s; cbn [read_atk].
  - cbn [fst snd]. split; [left; reflexivity|auto].
  - destruct (rd 8 s) as [[g s1]|]; [|cbn [fst snd]; split; [right; reflexivity|auto]].
    destruct (upd_atk rw (wrap 64 g) atk s1) as [[[oc atk'] s2]|] eqn:E; [|cbn [fst snd]; split; [right; reflexivity|auto]].
    destruct (upd_atk_props _ _ _ _ _ _ E) as (G & Hinv & Hm).
    destruct (is_ok oc) eqn:Eo.
    + apply good_is_ok in Eo; [|exact G]. subst oc.
      specialize (IH atk' s2). destruct (read_atk rw c atk' s2) as [[oc2 atk''] s3]. cbn [fst snd seq_oc] in *.
      destruct IH as (G2 & Hinv2 & Hm2). split; [exact G2|]. split; [auto|]. rewrite Hm2. exact Hm.
    + apply good_not_ok in Eo; [|exact G]. subst oc. cbn [fst snd]. split; [right; reflexivity|auto].
Qed.
End Total.

(* ------------------------------------------------------------------------------------------------ *)
Section TotalReaders.
(* readers with the (dbg, partial) arguments *)
Variable rw : wobj_reader.
Hypothesis rw_total : forall d p w s, good (fst (fst (rw d p w s))).
Hypothesis rw_inv : forall d p w s, Iw w -> Iw (snd (fst (rw d p w s))).
Hypothesis rw_err : forall d p w s w' t, rw d p w s = (Err, w', t) -> same_meta_wobj w' w.

(* repaired key-sequence reader *)
Lemma read_kseq_fixed_props (d p : bool) (k : kseq) (s : bytes) :
  let res := read_kseq_fixed_with rw d p k s in
  good (fst (fst res)) /\ (Ik k -> Ik (snd (fst res))) /\
  length (k_keys (snd (fst res))) = length (k_keys k) /\
  (fst (fst res) = Err -> k_pre (snd (fst res)) = k_pre k /\
                          Forall2 (key_atomic (rw d p)) (k_keys k) (k_keys (snd (fst res)))).
Proof.
  cbn zeta. unfold read_kseq_fixed_with.
  assert (Hsame : Forall2 (key_atomic (rw d p)) (k_keys k) (k_keys k)).
  { induction (k_keys k); constructor; [left; apply same_meta_wobj_refl|assumption]. }
  destruct (parse_fields (k_pre k) s) as [[pre' s1]|]; [|cbn [fst snd]; split; [right; reflexivity|auto]].
  destruct (rd 8 s1) as [[len s2]|]; [|cbn [fst snd]; split; [right; reflexivity|auto]].
  destruct (len =? Z.of_nat (length (k_keys k))); cbn [negb]; [|cbn [fst snd]; split; [right; reflexivity|auto]].
  pose proof (read_keys_props (rw d p) (rw_total d p) (rw_inv d p) (rw_err d p) (k_keys k) s2) as HP. cbn zeta in HP.
  destruct (read_keys (rw d p) (k_keys k) s2) as [[oc ks'] s3]. cbn [fst snd] in HP.
  destruct HP as (G & Hinv & Hat).
  assert (Hlen : length ks' = length (k_keys k)) by (symmetry; exact (Forall2_length _ _ _ Hat)).
  destruct G as [-> | ->]; cbn [fst snd k_keys k_pre]; unfold Ik; cbn [k_keys].
  - split; [left; reflexivity|]. split; [exact Hinv|]. split; [exact Hlen|discriminate].
  - split; [right; reflexivity|]. split; [exact Hinv|]. split; [exact Hlen|auto].
Qed.

Variable rk : kseq_reader.
Hypothesis rk_total : forall d p k s, good (fst (fst (rk d p k s))).
Hypothesis rk_inv : forall d p k s, Ik k -> Ik (snd (fst (rk d p k s))).

Lemma read_cbk_props (d p : bool) (c : cbk) (s : bytes) :
  let res := read_cbk_with rk rw d p c s in
  good (fst (fst res)) /\ (Ic c -> Ic (snd (fst res))).
Proof.
  cbn zeta. unfold read_cbk_with.
  pose proof (rk_total d p (c_brk c) s) as G1. pose proof (rk_inv d p (c_brk c) s) as I1.
  destruct (rk d p (c_brk c) s) as [[o1 brk'] s1]. cbn [fst snd] in *.
  destruct (is_ok o1) eqn:E1; cbn [negb].
  2:{ apply good_not_ok in E1; [|exact G1]. subst o1. cbn [fst snd]. split; [right; reflexivity|].
      intros (A & B & C). unfold Ic; cbn [c_brk c_atk c_tsk]. auto. }
  apply good_is_ok in E1; [|exact G1]. subst o1.
  destruct (rd 8 s1) as [[n s2]|].
  2:{ cbn [fst snd]. split; [right; reflexivity|]. intros (A & B & C). unfold Ic; cbn [c_brk c_atk c_tsk]. auto. }
  destruct (n =? Z.of_nat (length (c_atk c))); cbn [negb].
  2:{ cbn [fst snd]. split; [right; reflexivity|]. intros (A & B & C). unfold Ic; cbn [c_brk c_atk c_tsk]. auto. }
  pose proof (read_atk_props (rw d p) (rw_total d p) (rw_inv d p) (length (c_atk c)) (c_atk c) s2) as HA. cbn zeta in HA.
  destruct (read_atk (rw d p) (length (c_atk c)) (c_atk c) s2) as [[o2 atk'] s3]. cbn [fst snd] in HA.
  destruct HA as (G2 & I2 & _).
  destruct (is_ok o2) eqn:E2; cbn [negb].
  2:{ apply good_not_ok in E2; [|exact G2]. subst o2. cbn [fst snd]. split; [right; reflexivity|].
      intros (A & B & C). unfold Ic; cbn [c_brk c_atk c_tsk]. auto. }
  apply good_is_ok in E2; [|exact G2]. subst o2.
  pose proof (rk_total d p (c_tsk c) s3) as G3. pose proof (rk_inv d p (c_tsk c) s3) as I3.
  destruct (rk d p (c_tsk c) s3) as [[o3 tsk'] s4]. cbn [fst snd seq_oc] in *.
  split; [exact G3|]. intros (A & B & C). unfold Ic; cbn [c_brk c_atk c_tsk]. auto.
Qed.
End TotalReaders.

Section TotalBdd.
Variable rw : wobj_reader.
Hypothesis rw_total : forall d p w s, good (fst (fst (rw d p w s))).
Hypothesis rw_inv : forall d p w s, Iw w -> Iw (snd (fst (rw d p w s))).
Variable rc : cbk_reader.
Hypothesis rc_total : forall d p c s, good (fst (fst (rc d p c s))).
Hypothesis rc_inv : forall d p c s, Ic c -> Ic (snd (fst (rc d p c s))).

Lemma read_bdd_props (d p : bool) (b : bdd) (s : bytes) :
  let res := read_bdd_with rc rw d p b s in
  good (fst (fst res)) /\ (Ib b -> Ib (snd (fst res))).
Proof.
  cbn zeta. unfold read_bdd_with.
  pose proof (rc_total d p (b_cbt b) s) as G1. pose proof (rc_inv d p (b_cbt b) s) as I1.
  destruct (rc d p (b_cbt b) s) as [[o1 cbt'] s1]. cbn [fst snd] in *.
  destruct (is_ok o1) eqn:E1; cbn [negb].
  2:{ apply good_not_ok in E1; [|exact G1]. subst o1. cbn [fst snd]. split; [right; reflexivity|].
      intros (A & B & C). unfold Ib; cbn [b_cbt b_ksg b_ksl]. auto. }
  apply good_is_ok in E1; [|exact G1]. subst o1.
  assert (Hstay : Ib b -> Ib {| b_cbt := cbt'; b_ksg := b_ksg b; b_ksl := b_ksl b |}).
  { intros (A & B & C). unfold Ib; cbn [b_cbt b_ksg b_ksl]. auto. }
  destruct (rd 1 s1) as [[tag s2]|]; [|cbn [fst snd]; split; [right; reflexivity|exact Hstay]].
  (* the continuation after the optional ks_glwe *)
  assert (Hcont : forall (o2 : outcome) (g : option wobj) (s3 : bytes),
            good o2 -> (Ib b -> match g with Some x => Iw x | None => True end) ->
            let res := (let b2 := {| b_cbt := cbt'; b_ksg := g; b_ksl := b_ksl b |} in
                        if negb (is_ok o2) then (o2, b2, [])
                        else let '(o3, l', s4) := rw d p (b_ksl b) s3 in
                             (seq_oc (seq_oc Ok o2) o3, {| b_cbt := cbt'; b_ksg := g; b_ksl := l' |}, s4)) in
            good (fst (fst res)) /\ (Ib b -> Ib (snd (fst res)))).
  { intros o2 g s3 G2 Hg. cbn zeta. destruct (is_ok o2) eqn:E2; cbn [negb].
    - apply good_is_ok in E2; [|exact G2]. subst o2.
      pose proof (rw_total d p (b_ksl b) s3) as G3. pose proof (rw_inv d p (b_ksl b) s3) as I3.
      destruct (rw d p (b_ksl b) s3) as [[o3 l'] s4]. cbn [fst snd seq_oc] in *.
      split; [exact G3|]. intros HI. pose proof (Hg HI). destruct HI as (A & B & C).
      unfold Ib; cbn [b_cbt b_ksg b_ksl]. auto.
    - apply good_not_ok in E2; [|exact G2]. subst o2. cbn [fst snd]. split; [right; reflexivity|].
      intros HI. pose proof (Hg HI). destruct HI as (A & B & C). unfold Ib; cbn [b_cbt b_ksg b_ksl]. auto. }
  destruct (tag =? 0).
  - destruct (b_ksg b) as [g|] eqn:Eg.
    + cbn [fst snd]. split; [right; reflexivity|]. exact Hstay.
    + apply (Hcont Ok None s2); [left; reflexivity|auto].
  - destruct (tag =? 1).
    + destruct (b_ksg b) as [g|] eqn:Eg.
      * pose proof (rw_total d p g s2) as G2. pose proof (rw_inv d p g s2) as I2.
        destruct (rw d p g s2) as [[o2 g'] s3]. cbn [fst snd] in *.
        apply (Hcont o2 (Some g') s3); [exact G2|]. intros (_ & B & _). rewrite Eg in B. auto.
      * cbn [fst snd]. split; [right; reflexivity|]. exact Hstay.
    + cbn [fst snd]. split; [right; reflexivity|exact Hstay].
Qed.
End TotalBdd.

(* ------------------------------------------------------------------------------------------------ *)
(* instances: the repaired readers *)
Lemma fixed_wobj_total (d p : bool) (w : wobj) (s : bytes) : good (fst (fst (fixed_wobj d p w s))).
Proof. apply read_wobj_fixed_total. Qed.

Lemma fixed_wobj_inv (d p : bool) (w : wobj) (s : bytes) : Iw w -> Iw (snd (fst (fixed_wobj d p w s))).
Proof.
  intros [Hi Hv]. destruct (fixed_wobj d p w s) as [[o w'] t] eqn:E. cbn [fst snd].
  exact (read_wobj_fixed_preserves_inv _ _ _ _ _ _ _ E Hi Hv).
Qed.

Lemma fixed_wobj_err (d p : bool) (w : wobj) (s : bytes) (w' : wobj) (t : bytes) :
  fixed_wobj d p w s = (Err, w', t) -> same_meta_wobj w' w.
Proof. apply read_wobj_fixed_err_leaves_metadata. Qed.

Lemma fixed_kseq_props (d p : bool) (k : kseq) (s : bytes) :
  let res := fixed_kseq d p k s in
  good (fst (fst res)) /\ (Ik k -> Ik (snd (fst res))) /\
  length (k_keys (snd (fst res))) = length (k_keys k) /\
  (fst (fst res) = Err -> k_pre (snd (fst res)) = k_pre k /\
                          Forall2 (key_atomic (fixed_wobj d p)) (k_keys k) (k_keys (snd (fst res)))).
Proof. exact (read_kseq_fixed_props fixed_wobj fixed_wobj_total fixed_wobj_inv fixed_wobj_err d p k s). Qed.

Lemma fixed_kseq_total (d p : bool) (k : kseq) (s : bytes) : good (fst (fst (fixed_kseq d p k s))).
Proof. exact (proj1 (fixed_kseq_props d p k s)). Qed.
Lemma fixed_kseq_inv (d p : bool) (k : kseq) (s : bytes) : Ik k -> Ik (snd (fst (fixed_kseq d p k s))).
Proof. exact (proj1 (proj2 (fixed_kseq_props d p k s))). Qed.

Lemma fixed_cbk_props (d p : bool) (c : cbk) (s : bytes) :
  good (fst (fst (fixed_cbk d p c s))) /\ (Ic c -> Ic (snd (fst (fixed_cbk d p c s)))).
Proof. exact (read_cbk_props fixed_wobj fixed_wobj_total fixed_wobj_inv fixed_kseq fixed_kseq_total fixed_kseq_inv d p c s). Qed.

Lemma fixed_bdd_props (d p : bool) (b : bdd) (s : bytes) :
  good (fst (fst (fixed_bdd d p b s))) /\ (Ib b -> Ib (snd (fst (fixed_bdd d p b s)))).
Proof.
  exact (read_bdd_props fixed_wobj fixed_wobj_total fixed_wobj_inv fixed_cbk
           (fun d p c s => proj1 (fixed_cbk_props d p c s)) (fun d p c s => proj2 (fixed_cbk_props d p c s)) d p b s).
Qed.

(* ------------------------------------------------------------------------------------------------ *)
(* round trips of the composites, for any wrapper reader that round-trips *)
Section RoundTrip.
Variable rw : wobj -> bytes -> outcome * wobj * bytes.
Variable fits : wobj -> wobj -> Prop.
Variable res : wobj -> wobj -> wobj.
Hypothesis rw_rt : forall r x tl, fits r x -> rw r (write_wobj x ++ tl) = (Ok, res r x, tl).

Fixpoint map2 (rs xs : list wobj) : list wobj :=
  match rs, xs with r :: rs', x :: xs' => res r x :: map2 rs' xs' | _, _ => [] end.

Lemma read_keys_roundtrip (rs xs : list wobj) (tl : bytes) :
  Forall2 fits rs xs -> read_keys rw rs (write_keys xs ++ tl) = (Ok, map2 rs xs, tl).
Proof.
  induction 1 as [|r x rs xs Hf _ IH]; [reflexivity|].
  cbn [read_keys map2]. unfold write_keys in *. cbn [map concat]. rewrite <- app_assoc.
  rewrite rw_rt by exact Hf. cbn [is_ok]. rewrite IH. reflexivity.
Qed.

(* automorphism keys: association list, the stream names each key *)
Definition afits (q p : Z * wobj) : Prop := fst q = fst p /\ fits (snd q) (snd p).
Fixpoint amap2 (rs xs : list (Z * wobj)) : list (Z * wobj) :=
  match rs, xs with (g, r) :: rs', (_, x) :: xs' => (g, res r x) :: amap2 rs' xs' | _, _ => [] end.

Lemma upd_atk_mid (pre : list (Z * wobj)) (g : Z) (w : wobj) (post : list (Z * wobj)) (s : bytes) :
  ~ In g (map fst pre) ->
  upd_atk rw g (pre ++ (g, w) :: post) s = let '(oc, w', s') := rw w s in Some (oc, pre ++ (g, w') :: post, s').
Proof.
  induction pre as [|[g' w0] pre IH]; intros Hn.
  - cbn [app upd_atk]. rewrite Z.eqb_refl. reflexivity.
  - cbn [app upd_atk]. cbn [map fst In] in Hn.
    replace (g =? g') with false by (symmetry; apply Z.eqb_neq; intros ->; apply Hn; left; reflexivity).
    rewrite IH by (intros H; apply Hn; right; exact H).
    destruct (rw w s) as [[oc w'] s']. reflexivity.
Qed.

Lemma wrap_wrapu64 (g : Z) : in_range 64 g -> wrap 64 (wrapu 64 g) = g.
Proof.
  intros Hr. unfold wrapu. rewrite <- (wrap_id 64 g) at 2 by (try lia; exact Hr).
  apply wrap_eq_mod; [lia|]. rewrite Z.mod_mod by lia. reflexivity.
Qed.

Lemma read_atk_roundtrip (rs xs pre : list (Z * wobj)) (tl : bytes) :
  Forall2 afits rs xs -> Forall (fun q => in_range 64 (fst q)) xs ->
  NoDup (map fst pre ++ map fst xs) ->
  read_atk rw (length xs) (pre ++ rs) (write_atk xs ++ tl) = (Ok, pre ++ amap2 rs xs, tl).
Proof.
  intros HF. revert pre. induction HF as [|[g r] [gx x] rs xs [Hg Hf] _ IH]; intros pre Hr Hnd.
  - cbn [length read_atk amap2 write_atk app]. reflexivity.
  - cbn [fst snd] in Hg, Hf. subst gx. inversion Hr as [|? ? Hg64 Hr']; subst. cbn [fst] in Hg64.
    cbn [length read_atk write_atk amap2]. rewrite <- !app_assoc.
    rewrite rd_le.
    2:{ rewrite pow256_8. unfold wrapu. apply Z.mod_pos_bound. reflexivity. }
    rewrite wrap_wrapu64 by exact Hg64.
    rewrite upd_atk_mid.
    2:{ cbn [map fst] in Hnd. intros Hin. apply NoDup_remove_2 in Hnd. apply Hnd. apply in_or_app. left; exact Hin. }
    rewrite rw_rt by exact Hf. cbn [is_ok].
    replace (pre ++ (g, res r x) :: rs) with ((pre ++ [(g, res r x)]) ++ rs) by (rewrite <- app_assoc; reflexivity).
    rewrite IH.
    + cbn [seq_oc]. rewrite <- app_assoc. reflexivity.
    + exact Hr'.
    + rewrite map_app. cbn [map fst]. rewrite <- app_assoc. exact Hnd.
Qed.
End RoundTrip.

(* key sequences *)
Definition kseq_fits (fits : wobj -> wobj -> Prop) (r x : kseq) : Prop :=
  Forall2 field_fits (k_pre r) (k_pre x) /\ wf_fields (k_pre x) /\ Forall2 fits (k_keys r) (k_keys x) /\
  Z.of_nat (length (k_keys x)) < 2 ^ 64.

Lemma write_kseq_app (k : kseq) (tl : bytes) :
  write_kseq k ++ tl = write_fields (k_pre k) ++ (le_bytes 8 (Z.of_nat (length (k_keys k))) ++ (write_keys (k_keys k) ++ tl)).
Proof. unfold write_kseq. rewrite <- !app_assoc. reflexivity. Qed.

Lemma read_kseq_roundtrip (rw : wobj_reader) (fits : wobj -> wobj -> Prop) (res : wobj -> wobj -> wobj) (d p : bool) :
  (forall r x tl, fits r x -> rw d p r (write_wobj x ++ tl) = (Ok, res r x, tl)) ->
  forall (r x : kseq) (tl : bytes), kseq_fits fits r x -> small_fields (k_pre x) ->
  read_kseq_with rw d p r (write_kseq x ++ tl) = (Ok, {| k_pre := k_pre x; k_keys := map2 res (k_keys r) (k_keys x) |}, tl).
Proof.
  intros Hrt r x tl (Hpre & Hwf & Hk & Hn) Hsm. unfold read_kseq_with. rewrite write_kseq_app.
  rewrite read_fields_roundtrip by assumption. cbn [is_ok negb].
  rewrite rd_le by (rewrite pow256_8; lia).
  rewrite (Forall2_length _ _ _ Hk), Z.eqb_refl. cbn [negb].
  rewrite (read_keys_roundtrip (rw d p) fits res Hrt) by exact Hk. reflexivity.
Qed.

Lemma read_kseq_fixed_roundtrip (rw : wobj_reader) (fits : wobj -> wobj -> Prop) (res : wobj -> wobj -> wobj) (d p : bool) :
  (forall r x tl, fits r x -> rw d p r (write_wobj x ++ tl) = (Ok, res r x, tl)) ->
  forall (r x : kseq) (tl : bytes), kseq_fits fits r x ->
  read_kseq_fixed_with rw d p r (write_kseq x ++ tl) = (Ok, {| k_pre := k_pre x; k_keys := map2 res (k_keys r) (k_keys x) |}, tl).
Proof.
  intros Hrt r x tl (Hpre & Hwf & Hk & Hn). unfold read_kseq_fixed_with. rewrite write_kseq_app.
  rewrite parse_fields_roundtrip by assumption.
  rewrite rd_le by (rewrite pow256_8; lia).
  rewrite (Forall2_length _ _ _ Hk), Z.eqb_refl. cbn [negb].
  rewrite (read_keys_roundtrip (rw d p) fits res Hrt) by exact Hk. reflexivity.
Qed.

(* CircuitBootstrappingKey and BDDKey *)
Section RoundTripCbk.
Variable rw : wobj_reader.
Variable rk : kseq_reader.
Variable fits : wobj -> wobj -> Prop.
Variable res : wobj -> wobj -> wobj.
Variable fitsk : kseq -> kseq -> Prop.
Variable resk : kseq -> kseq -> kseq.
Variables d p : bool.
Hypothesis rw_rt : forall r x tl, fits r x -> rw d p r (write_wobj x ++ tl) = (Ok, res r x, tl).
Hypothesis rk_rt : forall r x tl, fitsk r x -> rk d p r (write_kseq x ++ tl) = (Ok, resk r x, tl).

Definition cbk_fits (r x : cbk) : Prop :=
  fitsk (c_brk r) (c_brk x) /\ Forall2 (afits fits) (c_atk r) (c_atk x) /\
  Forall (fun q => in_range 64 (fst q)) (c_atk x) /\ NoDup (map fst (c_atk x)) /\
  Z.of_nat (length (c_atk x)) < 2 ^ 64 /\ fitsk (c_tsk r) (c_tsk x).

Definition cbk_res (r x : cbk) : cbk :=
  {| c_brk := resk (c_brk r) (c_brk x); c_atk := amap2 res (c_atk r) (c_atk x); c_tsk := resk (c_tsk r) (c_tsk x) |}.

Lemma read_cbk_roundtrip (r x : cbk) (tl : bytes) :
  cbk_fits r x -> read_cbk_with rk rw d p r (write_cbk x ++ tl) = (Ok, cbk_res r x, tl).
Proof.
  intros (Hb & Ha & Hr & Hnd & Hn & Ht). unfold read_cbk_with, write_cbk. rewrite <- !app_assoc.
  rewrite rk_rt by exact Hb. cbn [is_ok negb].
  rewrite rd_le by (rewrite pow256_8; lia).
  rewrite (Forall2_length _ _ _ Ha), Z.eqb_refl. cbn [negb].
  pose proof (read_atk_roundtrip (rw d p) fits res rw_rt (c_atk r) (c_atk x) [] (write_kseq (c_tsk x) ++ tl) Ha Hr) as HA.
  cbn [app map] in HA. rewrite HA by exact Hnd. cbn [is_ok negb].
  rewrite rk_rt by exact Ht. reflexivity.
Qed.

Variable rc : cbk_reader.
Variable fitsc : cbk -> cbk -> Prop.
Variable resc : cbk -> cbk -> cbk.
Hypothesis rc_rt : forall r x tl, fitsc r x -> rc d p r (write_cbk x ++ tl) = (Ok, resc r x, tl).

Definition bdd_fits (r x : bdd) : Prop :=
  fitsc (b_cbt r) (b_cbt x) /\
  match b_ksg r, b_ksg x with Some a, Some b => fits a b | None, None => True | _, _ => False end /\
  fits (b_ksl r) (b_ksl x).

Definition bdd_res (r x : bdd) : bdd :=
  {| b_cbt := resc (b_cbt r) (b_cbt x);
     b_ksg := match b_ksg r, b_ksg x with Some a, Some b => Some (res a b) | _, _ => None end;
     b_ksl := res (b_ksl r) (b_ksl x) |}.

Lemma read_bdd_roundtrip (r x : bdd) (tl : bytes) :
  bdd_fits r x -> read_bdd_with rc rw d p r (write_bdd x ++ tl) = (Ok, bdd_res r x, tl).
Proof.
  intros (Hc & Hg & Hl). unfold read_bdd_with, write_bdd, bdd_res. rewrite <- !app_assoc.
  rewrite rc_rt by exact Hc. cbn [is_ok negb].
  destruct (b_ksg r) as [a|] eqn:Ea; destruct (b_ksg x) as [b|] eqn:Eb; try contradiction.
  - change ([1] ++ write_wobj b) with (le_bytes 1 1 ++ write_wobj b). rewrite <- !app_assoc.
    rewrite rd_le by (rewrite pow256_1; lia).
    change (1 =? 0) with false. change (1 =? 1) with true. cbn iota.
    rewrite rw_rt by exact Hg. cbn [is_ok negb]. rewrite rw_rt by exact Hl. reflexivity.
  - change [0] with (le_bytes 1 0). rewrite rd_le by (rewrite pow256_1; lia).
    change (0 =? 0) with true. cbn iota. cbn [is_ok negb]. rewrite rw_rt by exact Hl. reflexivity.
Qed.
End RoundTripCbk.

(* ------------------------------------------------------------------------------------------------ *)
(* what no per-object repair gives: a composite whose k-th key fails has already replaced keys 0..k-1 *)
Definition w_key (b : Z) : wobj :=
  {| w_fields := [{| f_role := 1; f_val := VU32 b |}];
     w_body := {| fk := KVec; fh := [1; 1; 1; 1]; fd := repeat 0 8%nat |} |}.
Definition w_two_keys : kseq := {| k_pre := []; k_keys := [w_key 8; w_key 8] |}.
(* two keys announced, the first one complete (base2k = 9), the stream ends inside the second *)
Definition w_second_truncated : bytes := le_bytes 8 2 ++ write_wobj (w_key 9) ++ le_bytes 4 9.

Lemma fixed_kseq_err_changes_first_key :
  exists k', fixed_kseq false false w_two_keys w_second_truncated = (Err, k', []) /\
             k_keys k' = [w_key 9; w_key 8] /\ k_keys k' <> k_keys w_two_keys.
Proof. eexists. split; [vm_compute; reflexivity|]. split; [reflexivity|]. cbn. discriminate. Qed.

(* writers of the composites are functions of the byte strings of their parts *)
Lemma write_kseq_logical (x y : kseq) :
  k_pre x = k_pre y -> map write_wobj (k_keys x) = map write_wobj (k_keys y) -> write_kseq x = write_kseq y.
Proof.
  intros H1 H2. unfold write_kseq, write_keys. rewrite H1, H2.
  assert (Hl : length (k_keys x) = length (k_keys y)).
  { rewrite <- (map_length write_wobj (k_keys x)), H2, map_length. reflexivity. }
  rewrite Hl. reflexivity.
Qed.

(* ------------------------------------------------------------------------------------------------ *)
(* instances of the round trips: the readers as they are (`reader_*`) and the repaired ones (`fixed_*`) *)
Definition fits_now (r x : wobj) : Prop := wf_wobj x /\ small_fields (w_fields x) /\ wobj_fits r x.
Definition res_now (r x : wobj) : wobj := {| w_fields := w_fields x; w_body := loaded (fh (w_body x)) (w_body r) (w_body x) |}.
Definition fitsk_now (r x : kseq) : Prop := kseq_fits fits_now r x /\ small_fields (k_pre x).
Definition resk_now (r x : kseq) : kseq := {| k_pre := k_pre x; k_keys := map2 res_now (k_keys r) (k_keys x) |}.

Lemma current_wobj_rt (dbg partial : bool) (r x : wobj) (tl : bytes) :
  fits_now r x -> current_wobj dbg partial r (write_wobj x ++ tl) = (Ok, res_now r x, tl).
Proof. intros (H1 & H2 & H3). exact (read_wobj_roundtrip dbg partial r x tl H1 H2 H3). Qed.

Lemma current_kseq_roundtrip (dbg partial : bool) (r x : kseq) (tl : bytes) :
  kseq_fits fits_now r x -> small_fields (k_pre x) ->
  current_kseq dbg partial r (write_kseq x ++ tl) = (Ok, resk_now r x, tl).
Proof. exact (read_kseq_roundtrip current_wobj fits_now res_now dbg partial (current_wobj_rt dbg partial) r x tl). Qed.

Lemma current_kseq_rt (dbg partial : bool) (r x : kseq) (tl : bytes) :
  fitsk_now r x -> current_kseq dbg partial r (write_kseq x ++ tl) = (Ok, resk_now r x, tl).
Proof. intros [H1 H2]. exact (current_kseq_roundtrip dbg partial r x tl H1 H2). Qed.

Lemma current_cbk_roundtrip (dbg partial : bool) (r x : cbk) (tl : bytes) :
  cbk_fits fits_now fitsk_now r x ->
  current_cbk dbg partial r (write_cbk x ++ tl) = (Ok, cbk_res res_now resk_now r x, tl).
Proof.
  exact (read_cbk_roundtrip current_wobj current_kseq fits_now res_now fitsk_now resk_now dbg partial
           (current_wobj_rt dbg partial) (current_kseq_rt dbg partial) r x tl).
Qed.

Lemma current_bdd_roundtrip (dbg partial : bool) (r x : bdd) (tl : bytes) :
  bdd_fits fits_now (cbk_fits fits_now fitsk_now) r x ->
  current_bdd dbg partial r (write_bdd x ++ tl) = (Ok, bdd_res res_now (cbk_res res_now resk_now) r x, tl).
Proof.
  exact (read_bdd_roundtrip current_wobj fits_now res_now dbg partial (current_wobj_rt dbg partial)
           current_cbk (cbk_fits fits_now fitsk_now) (cbk_res res_now resk_now) (current_cbk_roundtrip dbg partial) r x tl).
Qed.

Definition fits_fix (r x : wobj) : Prop :=
  wf_wobj x /\ valid_wobj x /\ wobj_fits r x /\ (fk (w_body x) = KVec -> hd_ (fh (w_body x)) 2 <= hd_ (fh (w_body x)) 3).
Definition res_fix (r x : wobj) : wobj :=
  {| w_fields := w_fields x;
     w_body := loaded (clamp_hdr (fk (w_body x)) (fh (w_body x)) (blen (fd (w_body r)))) (w_body r) (w_body x) |}.
Definition resk_fix (r x : kseq) : kseq := {| k_pre := k_pre x; k_keys := map2 res_fix (k_keys r) (k_keys x) |}.

Lemma fixed_wobj_rt (dbg partial : bool) (r x : wobj) (tl : bytes) :
  fits_fix r x -> fixed_wobj dbg partial r (write_wobj x ++ tl) = (Ok, res_fix r x, tl).
Proof. intros (H1 & H2 & H3 & H4). exact (read_wobj_fixed_roundtrip dbg partial r x tl H1 H2 H3 H4). Qed.

Lemma fixed_kseq_roundtrip (dbg partial : bool) (r x : kseq) (tl : bytes) :
  kseq_fits fits_fix r x -> fixed_kseq dbg partial r (write_kseq x ++ tl) = (Ok, resk_fix r x, tl).
Proof. exact (read_kseq_fixed_roundtrip fixed_wobj fits_fix res_fix dbg partial (fixed_wobj_rt dbg partial) r x tl). Qed.

Lemma fixed_cbk_roundtrip (dbg partial : bool) (r x : cbk) (tl : bytes) :
  cbk_fits fits_fix (kseq_fits fits_fix) r x ->
  fixed_cbk dbg partial r (write_cbk x ++ tl) = (Ok, cbk_res res_fix resk_fix r x, tl).
Proof.
  exact (read_cbk_roundtrip fixed_wobj fixed_kseq fits_fix res_fix (kseq_fits fits_fix) resk_fix dbg partial
           (fixed_wobj_rt dbg partial) (fixed_kseq_roundtrip dbg partial) r x tl).
Qed.

Lemma fixed_bdd_roundtrip (dbg partial : bool) (r x : bdd) (tl : bytes) :
  bdd_fits fits_fix (cbk_fits fits_fix (kseq_fits fits_fix)) r x ->
  fixed_bdd dbg partial r (write_bdd x ++ tl) = (Ok, bdd_res res_fix (cbk_res res_fix resk_fix) r x, tl).
Proof.
  exact (read_bdd_roundtrip fixed_wobj fits_fix res_fix dbg partial (fixed_wobj_rt dbg partial)
           fixed_cbk (cbk_fits fits_fix (kseq_fits fits_fix)) (cbk_res res_fix resk_fix) (fixed_cbk_roundtrip dbg partial) r x tl).
Qed.

Lemma fixed_cbk_total (d p : bool) (c : cbk) (s : bytes) : good (fst (fst (fixed_cbk d p c s))).
Proof. exact (proj1 (fixed_cbk_props d p c s)). Qed.
Lemma fixed_cbk_inv (d p : bool) (c : cbk) (s : bytes) : Ic c -> Ic (snd (fst (fixed_cbk d p c s))).
Proof. exact (proj2 (fixed_cbk_props d p c s)). Qed.
Lemma fixed_bdd_total (d p : bool) (b : bdd) (s : bytes) : good (fst (fst (fixed_bdd d p b s))).
Proof. exact (proj1 (fixed_bdd_props d p b s)). Qed.
Lemma fixed_bdd_inv (d p : bool) (b : bdd) (s : bytes) : Ib b -> Ib (snd (fst (fixed_bdd d p b s))).
Proof. exact (proj2 (fixed_bdd_props d p b s)). Qed.

(* ------------------------------------------------------------------------------------------------ *)
(* proposed repair of the composites: validate on copies, replay on success (Model/C18Serial.v `staged`) *)
Section Staged.
Variable A : Type.
Variable rd : A -> bytes -> outcome * A * bytes.
Hypothesis rd_total : forall a s, good (fst (fst (rd a s))).

Lemma staged_total (a : A) (s : bytes) : good (fst (fst (staged rd a s))).
Proof.
  unfold staged. pose proof (rd_total a s) as G. destruct (rd a s) as [[o a'] t]. cbn [fst] in G.
  destruct G as [-> | ->]; cbn [fst]; [left|right]; reflexivity.
Qed.

(* a failure leaves the WHOLE receiver as it was: metadata and bytes *)
Lemma staged_err_unchanged (a : A) (s : bytes) (a' : A) (t : bytes) : staged rd a s = (Err, a', t) -> a' = a.
Proof.
  unfold staged. pose proof (rd_total a s) as G. destruct (rd a s) as [[o a''] t']. cbn [fst] in G.
  destruct G as [-> | ->]; intros H; inversion H; reflexivity.
Qed.

Lemma staged_inv (I : A -> Prop) :
  (forall a s, I a -> I (snd (fst (rd a s)))) -> forall a s, I a -> I (snd (fst (staged rd a s))).
Proof.
  intros Hi a s Ia. unfold staged. specialize (Hi a s Ia). destruct (rd a s) as [[o a'] t]. cbn [fst snd] in Hi.
  destruct o; cbn [fst snd]; assumption.
Qed.

Lemma staged_ok (a : A) (s : bytes) (r : A) (t : bytes) : rd a s = (Ok, r, t) -> staged rd a s = (Ok, r, t).
Proof. intros H. unfold staged. rewrite H. reflexivity. Qed.
End Staged.

Lemma staged_kseq_total (d p : bool) (k : kseq) (s : bytes) : good (fst (fst (staged_kseq d p k s))).
Proof. exact (staged_total kseq (fixed_kseq d p) (fixed_kseq_total d p) k s). Qed.
Lemma staged_cbk_total (d p : bool) (c : cbk) (s : bytes) : good (fst (fst (staged_cbk d p c s))).
Proof. exact (staged_total cbk (fixed_cbk d p) (fixed_cbk_total d p) c s). Qed.
Lemma staged_bdd_total (d p : bool) (b : bdd) (s : bytes) : good (fst (fst (staged_bdd d p b s))).
Proof. exact (staged_total bdd (fixed_bdd d p) (fixed_bdd_total d p) b s). Qed.

Lemma staged_kseq_err (d p : bool) (k : kseq) (s : bytes) (k' : kseq) (t : bytes) : staged_kseq d p k s = (Err, k', t) -> k' = k.
Proof. exact (staged_err_unchanged kseq (fixed_kseq d p) (fixed_kseq_total d p) k s k' t). Qed.
Lemma staged_cbk_err (d p : bool) (c : cbk) (s : bytes) (c' : cbk) (t : bytes) : staged_cbk d p c s = (Err, c', t) -> c' = c.
Proof. exact (staged_err_unchanged cbk (fixed_cbk d p) (fixed_cbk_total d p) c s c' t). Qed.
Lemma staged_bdd_err (d p : bool) (b : bdd) (s : bytes) (b' : bdd) (t : bytes) : staged_bdd d p b s = (Err, b', t) -> b' = b.
Proof. exact (staged_err_unchanged bdd (fixed_bdd d p) (fixed_bdd_total d p) b s b' t). Qed.

Lemma staged_kseq_inv (d p : bool) (k : kseq) (s : bytes) : Ik k -> Ik (snd (fst (staged_kseq d p k s))).
Proof. exact (staged_inv kseq (fixed_kseq d p) Ik (fixed_kseq_inv d p) k s). Qed.
Lemma staged_cbk_inv (d p : bool) (c : cbk) (s : bytes) : Ic c -> Ic (snd (fst (staged_cbk d p c s))).
Proof. exact (staged_inv cbk (fixed_cbk d p) Ic (fixed_cbk_inv d p) c s). Qed.
Lemma staged_bdd_inv (d p : bool) (b : bdd) (s : bytes) : Ib b -> Ib (snd (fst (staged_bdd d p b s))).
Proof. exact (staged_inv bdd (fixed_bdd d p) Ib (fixed_bdd_inv d p) b s). Qed.

Lemma staged_kseq_roundtrip (dbg partial : bool) (r x : kseq) (tl : bytes) :
  kseq_fits fits_fix r x -> staged_kseq dbg partial r (write_kseq x ++ tl) = (Ok, resk_fix r x, tl).
Proof. intros H. apply staged_ok. apply fixed_kseq_roundtrip. exact H. Qed.
Lemma staged_cbk_roundtrip (dbg partial : bool) (r x : cbk) (tl : bytes) :
  cbk_fits fits_fix (kseq_fits fits_fix) r x ->
  staged_cbk dbg partial r (write_cbk x ++ tl) = (Ok, cbk_res res_fix resk_fix r x, tl).
Proof. intros H. apply staged_ok. apply fixed_cbk_roundtrip. exact H. Qed.
Lemma staged_bdd_roundtrip (dbg partial : bool) (r x : bdd) (tl : bytes) :
  bdd_fits fits_fix (cbk_fits fits_fix (kseq_fits fits_fix)) r x ->
  staged_bdd dbg partial r (write_bdd x ++ tl) = (Ok, bdd_res res_fix (cbk_res res_fix resk_fix) r x, tl).
Proof. intros H. apply staged_ok. apply fixed_bdd_roundtrip. exact H. Qed.

Lemma staged_total_all : forall (dbg partial : bool),
  (forall (r : kseq) (s : bytes), good (fst (fst (staged_kseq dbg partial r s)))) /\
  (forall (r : cbk) (s : bytes), good (fst (fst (staged_cbk dbg partial r s)))) /\
  (forall (r : bdd) (s : bytes), good (fst (fst (staged_bdd dbg partial r s)))).
Proof. exact (fun d p => conj (staged_kseq_total d p) (conj (staged_cbk_total d p) (staged_bdd_total d p))). Qed.

Lemma staged_err_all : forall (dbg partial : bool),
  (forall (r : kseq) (s : bytes) (r' : kseq) (t : bytes), staged_kseq dbg partial r s = (Err, r', t) -> r' = r) /\
  (forall (r : cbk) (s : bytes) (r' : cbk) (t : bytes), staged_cbk dbg partial r s = (Err, r', t) -> r' = r) /\
  (forall (r : bdd) (s : bytes) (r' : bdd) (t : bytes), staged_bdd dbg partial r s = (Err, r', t) -> r' = r).
Proof. exact (fun d p => conj (staged_kseq_err d p) (conj (staged_cbk_err d p) (staged_bdd_err d p))). Qed.

Lemma staged_inv_all : forall (dbg partial : bool),
  (forall (r : kseq) (s : bytes), Ik r -> Ik (snd (fst (staged_kseq dbg partial r s)))) /\
  (forall (r : cbk) (s : bytes), Ic r -> Ic (snd (fst (staged_cbk dbg partial r s)))) /\
  (forall (r : bdd) (s : bytes), Ib r -> Ib (snd (fst (staged_bdd dbg partial r s)))).
Proof. exact (fun d p => conj (staged_kseq_inv d p) (conj (staged_cbk_inv d p) (staged_bdd_inv d p))). Qed.

Lemma staged_roundtrip_all : forall (dbg partial : bool),
  (forall (r x : kseq) (tl : bytes), kseq_fits fits_fix r x ->
     staged_kseq dbg partial r (write_kseq x ++ tl) = (Ok, resk_fix r x, tl)) /\
  (forall (r x : cbk) (tl : bytes), cbk_fits fits_fix (kseq_fits fits_fix) r x ->
     staged_cbk dbg partial r (write_cbk x ++ tl) = (Ok, cbk_res res_fix resk_fix r x, tl)) /\
  (forall (r x : bdd) (tl : bytes), bdd_fits fits_fix (cbk_fits fits_fix (kseq_fits fits_fix)) r x ->
     staged_bdd dbg partial r (write_bdd x ++ tl) = (Ok, bdd_res res_fix (cbk_res res_fix resk_fix) r x, tl)).
Proof. exact (fun d p => conj (staged_kseq_roundtrip d p) (conj (staged_cbk_roundtrip d p) (staged_bdd_roundtrip d p))). Qed.

(* which model is in force (the switch of Model/C18Serial.v) *)
Lemma model_in_force :
  reader_flat = fixed_flat /\ reader_wobj = fixed_wobj /\ reader_kseq = fixed_kseq /\
  reader_cbk = fixed_cbk /\ reader_bdd = fixed_bdd /\ dist_writer = dist_write_fixed.
Proof. repeat split; reflexivity. Qed.
