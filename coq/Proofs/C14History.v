(* C14: configuration histories of a LookupTable: the direction is the one requested last, the table the one set last. *)
From PV Require Import Base.MachineInt Model.Znx Model.Limbs Model.Ring Model.C14Lut.
Open Scope Z_scope.

Section History.
Variables (n ext : nat) (b klut : Z).

Lemma run_events_dir (evs : list levent) : forall st st',
  run_events n ext b klut evs st = Some st' -> st_left st' = last_dir evs (st_left st).
Proof.
  induction evs as [|ev t IH]; intros st st' H; cbn [run_events] in H.
  - injection H as <-. reflexivity.
  - destruct (apply_event n ext b klut st ev) as [st1|] eqn:E; [|discriminate].
    rewrite (IH _ _ H). unfold last_dir. cbn [fold_left]. f_equal.
    destruct ev as [l|k f]; cbn [apply_event] in E.
    + injection E as <-. reflexivity.
    + destruct (lookup_table_set n ext b klut k f) as [[d dr]|]; [|discriminate]. injection E as <-. reflexivity.
Qed.

(* what the state holds, given the table set last (o) and the initial contents (d0, dr0) *)
Definition holds (d0 : lut) (dr0 : Z) (st : lstate) (o : option (Z * list Z)) : Prop :=
  match o with
  | Some kf => lookup_table_set n ext b klut (fst kf) (snd kf) = Some (st_data st, st_drift st)
  | None => st_data st = d0 /\ st_drift st = dr0
  end.

Lemma run_events_table (d0 : lut) (dr0 : Z) (evs : list levent) : forall st st' o,
  holds d0 dr0 st o -> run_events n ext b klut evs st = Some st' -> holds d0 dr0 st' (last_set evs o).
Proof.
  induction evs as [|ev t IH]; intros st st' o Ho H; cbn [run_events] in H.
  - injection H as <-. exact Ho.
  - destruct (apply_event n ext b klut st ev) as [st1|] eqn:E; [|discriminate].
    unfold last_set. cbn [fold_left]. apply (IH st1 st' _); [|exact H].
    destruct ev as [l|k f]; cbn [apply_event] in E.
    + injection E as <-. destruct o; exact Ho.
    + destruct (lookup_table_set n ext b klut k f) as [[d dr]|] eqn:Es; [|discriminate]. injection E as <-.
      cbn [holds fst snd st_data st_drift]. exact Es.
Qed.

(* from a fresh table *)
Theorem history_direction_and_table (evs : list levent) (st : lstate) :
  run_events n ext b klut evs (lut_alloc n ext b klut) = Some st ->
  st_left st = last_dir evs true /\
  match last_set evs None with
  | Some kf => lookup_table_set n ext b klut (fst kf) (snd kf) = Some (st_data st, st_drift st)
  | None => st_data st = st_data (lut_alloc n ext b klut) /\ st_drift st = 0
  end.
Proof.
  intros H. split; [exact (run_events_dir evs _ _ H)|].
  exact (run_events_table (st_data (lut_alloc n ext b klut)) 0 evs _ _ None (conj eq_refl eq_refl) H).
Qed.

(* `set` calls never matter for the direction: erasing them from the history leaves it unchanged *)
Lemma last_dir_ignores_set (evs : list levent) (l0 : bool) :
  last_dir evs l0 = last_dir (filter (fun ev => match ev with EDir _ => true | ESet _ _ => false end) evs) l0.
Proof.
  revert l0. induction evs as [|ev t IH]; intros l0; [reflexivity|].
  destruct ev as [l|k f]; unfold last_dir in *; cbn [filter fold_left]; apply IH.
Qed.
(* ... and it is the argument of the last set_rotation_direction call *)
Lemma last_dir_app_dir (evs : list levent) (l l0 : bool) : last_dir (evs ++ [EDir l]) l0 = l.
Proof. unfold last_dir. rewrite fold_left_app. reflexivity. Qed.
Lemma last_dir_app_set (evs : list levent) (k : Z) (f : list Z) (l0 : bool) : last_dir (evs ++ [ESet k f]) l0 = last_dir evs l0.
Proof. unfold last_dir. rewrite fold_left_app. reflexivity. Qed.

End History.
