(* C18 — level 1: Distribution codec, scalar fields of the poulpy-core wrappers, wrapper readers
   (as they are: fields committed before the inner read; repaired: temporaries, committed after). *)
From PV Require Import Base.MachineInt Model.C18Serial Proofs.C18Bytes Proofs.C18Flat.
Open Scope Z_scope.

(* ---------- Distribution ---------- *)
(* values the one-word format can represent: usize payloads below 2^56, f64 bit patterns whose 8 low mantissa
   bits are zero, no payload for ZERO / NONE *)
Definition dist_canonical (t p : Z) : Prop :=
  (dist_is_prob t = true /\ u64 p /\ p mod 256 = 0) \/
  (dist_is_fixed t = true /\ 0 <= p < 2 ^ 56) \/
  ((t = 5 \/ t = 6) /\ p = 0).

Lemma land_shiftl_small (t q : Z) : 0 <= q < 2 ^ 56 -> Z.land (Z.shiftl t 56) q = 0.
Proof.
  intros Hq.
  assert (Eq : q = Z.land q (Z.ones 56)) by (rewrite Z.land_ones by lia; rewrite Z.mod_small by lia; reflexivity).
  rewrite Eq, (Z.land_comm q), Z.land_assoc, Z.land_ones by lia.
  rewrite Z.shiftl_mul_pow2 by lia. rewrite Z_mod_mult. apply Z.land_0_l.
Qed.

Lemma lor_shiftl_small (t q : Z) : 0 <= q < 2 ^ 56 -> Z.lor (Z.shiftl t 56) q = t * 2 ^ 56 + q.
Proof.
  intros Hq. pose proof (land_shiftl_small t q Hq) as Hl.
  rewrite <- Z.lxor_lor by exact Hl. rewrite <- Z.add_nocarry_lxor by exact Hl.
  rewrite Z.shiftl_mul_pow2 by lia. reflexivity.
Qed.

Lemma split_word (t q : Z) : 0 <= q < 2 ^ 56 ->
  Z.shiftr (t * 2 ^ 56 + q) 56 = t /\ Z.land (t * 2 ^ 56 + q) (Z.ones 56) = q.
Proof.
  intros Hq. split.
  - rewrite Z.shiftr_div_pow2 by lia. rewrite Z.div_add_l by lia. rewrite Z.div_small by lia. lia.
  - rewrite Z.land_ones by lia. rewrite Z.add_comm, Z_mod_plus_full. apply Z.mod_small; lia.
Qed.

Lemma dist_tags_prob (t : Z) : dist_is_prob t = true -> t = 1 \/ t = 3.
Proof. unfold dist_is_prob. intros H. apply orb_true_iff in H. destruct H as [H|H]; apply Z.eqb_eq in H; auto. Qed.
Lemma dist_tags_fixed (t : Z) : dist_is_fixed t = true -> t = 0 \/ t = 2 \/ t = 4.
Proof.
  unfold dist_is_fixed. intros H. apply orb_true_iff in H. destruct H as [H|H].
  - apply orb_true_iff in H. destruct H as [H|H]; apply Z.eqb_eq in H; auto.
  - apply Z.eqb_eq in H; auto.
Qed.

Lemma dist_word_spec (t p : Z) : dist_canonical t p ->
  u64 (dist_word t p) /\ dist_decode (dist_word t p) = Some (t, p).
Proof.
  intros [(Ht & Hu & Hm)|[(Ht & Hp)|(Ht & ->)]].
  - (* probability: (tag << 56) | (bits >> 8) *)
    assert (Hq : 0 <= Z.shiftr p 8 < 2 ^ 56).
    { rewrite Z.shiftr_div_pow2 by lia. unfold u64 in Hu. change (2 ^ 8) with 256.
      split; [apply Z.div_pos; lia|apply Z.div_lt_upper_bound; lia]. }
    assert (Hback : Z.shiftl (Z.shiftr p 8) 8 = p).
    { rewrite Z.shiftl_mul_pow2, Z.shiftr_div_pow2 by lia. change (2 ^ 8) with 256.
      pose proof (Z.div_mod p 256 ltac:(lia)). lia. }
    unfold dist_word, dist_decode. rewrite Ht.
    rewrite lor_shiftl_small by exact Hq.
    destruct (split_word t (Z.shiftr p 8) Hq) as [S1 S2]. rewrite S1, S2, Ht, Hback.
    split; [|reflexivity]. destruct (dist_tags_prob t Ht) as [->| ->]; unfold u64; lia.
  - (* fixed weight: (tag << 56) | v *)
    unfold dist_word, dist_decode.
    assert (Hnp : dist_is_prob t = false) by (destruct (dist_tags_fixed t Ht) as [->|[->| ->]]; reflexivity).
    rewrite Hnp, Ht. rewrite lor_shiftl_small by exact Hp.
    destruct (split_word t p Hp) as [S1 S2]. rewrite S1, S2, Hnp, Ht.
    split; [|reflexivity]. destruct (dist_tags_fixed t Ht) as [->|[->| ->]]; unfold u64; lia.
  - destruct Ht as [-> | ->]; (split; [unfold u64; split; [vm_compute; discriminate|vm_compute; reflexivity]|vm_compute; reflexivity]).
Qed.

(* the repaired writer: whatever it accepts for a fixed-weight variant reads back exactly *)
Lemma dist_write_fixed_roundtrip (t p w : Z) :
  dist_is_fixed t = true -> 0 <= p -> dist_write_fixed t p = Some w -> u64 w /\ dist_decode w = Some (t, p).
Proof.
  intros Ht Hp. unfold dist_write_fixed. rewrite Ht. cbn [andb].
  destruct (2 ^ 56 <=? p) eqn:E; [discriminate|]. apply Z.leb_gt in E.
  intros H; inversion H; subst. apply dist_word_spec. right; left. split; [exact Ht|lia].
Qed.

(* what the format loses (documented in dist.rs): both are round-trip failures *)
Lemma dist_roundtrip_refuted_low8bits :
  dist_decode (dist_word 1 4602678819172646913) = Some (1, 4602678819172646912).   (* 0.5 + 1 ulp  ->  0.5 *)
Proof. vm_compute. reflexivity. Qed.

Lemma dist_roundtrip_refuted_big_payload :
  dist_decode (dist_word 0 (2 ^ 56)) = Some (1, 0) /\                  (* TernaryFixed(2^56) reads back as TernaryProb(0.0) *)
  dist_decode (dist_word 0 (7 * 2 ^ 56)) = None.                       (* TernaryFixed(7 * 2^56): "Invalid tag" *)
Proof. split; vm_compute; reflexivity. Qed.

(* ---------- fields ---------- *)
Definition wf_fval (f : fval) : Prop :=
  match f with
  | VU32 v => u32 v
  | VU64 v => u64 v
  | VSeed b => length b = 32%nat
  | VSeeds l => Forall (fun b => length b = 32%nat) l /\ Z.of_nat (length l) < 2 ^ 32
  | VDist t p => dist_canonical t p
  end.

(* the seed vector is small enough for `vec![[0u8; 32]; n]` to be granted (needed by the reader as it is) *)
Definition small_seeds (f : fval) : Prop :=
  match f with VSeeds l => 32 * Z.of_nat (length l) <= alloc_limit | _ => True end.

(* a receiver field that can take the value: same variant; a seed array has 32 bytes *)
Definition same_kind (a b : fval) : Prop :=
  match a, b with
  | VU32 _, VU32 _ | VU64 _, VU64 _ | VSeeds _, VSeeds _ | VDist _ _, VDist _ _ => True
  | VSeed x, VSeed _ => length x = 32%nat
  | _, _ => False
  end.

Definition field_fits (f0 f : field) : Prop := f_role f0 = f_role f /\ same_kind (f_val f0) (f_val f).

Lemma skipn_zero_seed : skipn 32 zero_seed = []. Proof. reflexivity. Qed.

Lemma read_seeds_app (partial : bool) (l : list bytes) (tl : bytes) :
  Forall (fun b => length b = 32%nat) l ->
  read_seeds partial (length l) (concat l ++ tl) = (true, l, tl).
Proof.
  induction 1 as [|b l Hb _ IH]; [reflexivity|].
  cbn [length read_seeds concat]. rewrite <- app_assoc. rewrite <- Hb at 1. rewrite rx_app.
  rewrite Hb, skipn_zero_seed, app_nil_r, IH. reflexivity.
Qed.

Lemma parse_seeds_app (l : list bytes) (tl : bytes) :
  Forall (fun b => length b = 32%nat) l ->
  parse_seeds (length l) (concat l ++ tl) = Some (l, tl).
Proof.
  induction 1 as [|b l Hb _ IH]; [reflexivity|].
  cbn [length parse_seeds concat]. rewrite <- app_assoc. rewrite (take_app_n 32) by exact Hb.
  rewrite IH. reflexivity.
Qed.

Lemma concat_seeds_length (l : list bytes) :
  Forall (fun b => length b = 32%nat) l -> length (concat l) = (32 * length l)%nat.
Proof.
  induction 1 as [|b l Hb _ IH]; [reflexivity|]. cbn [concat length]. rewrite app_length, Hb, IH. lia.
Qed.

Lemma read_fval_roundtrip (partial : bool) (f0 f : fval) (tl : bytes) :
  wf_fval f -> small_seeds f -> same_kind f0 f ->
  read_fval partial f0 (write_fval f ++ tl) = (Ok, f, tl).
Proof.
  intros Hwf Hsm Hk. destruct f as [v|v|b|l|t p]; destruct f0 as [v0|v0|b0|l0|t0 p0]; cbn [same_kind] in Hk; try contradiction;
    cbn [wf_fval small_seeds] in *; cbn [read_fval write_fval].
  - rewrite rd_le by (rewrite pow256_4; exact Hwf). reflexivity.
  - rewrite rd_le by (rewrite pow256_8; exact Hwf). reflexivity.
  - rewrite <- Hwf at 1. rewrite rx_app. rewrite Hwf.
    replace (skipn 32 b0) with (@nil Z) by (symmetry; apply skipn_all2; lia). rewrite app_nil_r. reflexivity.
  - destruct Hwf as [HF Hn]. rewrite <- app_assoc. rewrite rd_le by (rewrite pow256_4; lia).
    replace (alloc_limit <? 32 * Z.of_nat (length l)) with false by (symmetry; apply Z.ltb_ge; exact Hsm).
    rewrite Nat2Z.id, read_seeds_app by exact HF. reflexivity.
  - destruct (dist_word_spec t p Hwf) as [Hu Hd]. rewrite rd_le by (rewrite pow256_8; exact Hu). rewrite Hd. reflexivity.
Qed.

Lemma parse_fval_roundtrip (f0 f : fval) (tl : bytes) :
  wf_fval f -> same_kind f0 f -> parse_fval f0 (write_fval f ++ tl) = Some (f, tl).
Proof.
  intros Hwf Hk. destruct f as [v|v|b|l|t p]; destruct f0 as [v0|v0|b0|l0|t0 p0]; cbn [same_kind] in Hk; try contradiction;
    cbn [wf_fval] in *; cbn [parse_fval write_fval].
  - rewrite rd_le by (rewrite pow256_4; exact Hwf). reflexivity.
  - rewrite rd_le by (rewrite pow256_8; exact Hwf). reflexivity.
  - rewrite (take_app_n 32) by exact Hwf. reflexivity.
  - destruct Hwf as [HF Hn]. rewrite <- app_assoc. rewrite rd_le by (rewrite pow256_4; lia).
    replace (32 * Z.of_nat (length l) <=? blen (concat l ++ tl)) with true.
    2:{ symmetry. apply Z.leb_le. unfold blen. rewrite app_length, concat_seeds_length by exact HF. lia. }
    rewrite Nat2Z.id, parse_seeds_app by exact HF. reflexivity.
  - destruct (dist_word_spec t p Hwf) as [Hu Hd]. rewrite rd_le by (rewrite pow256_8; exact Hu). rewrite Hd. reflexivity.
Qed.

Definition wf_fields (fs : list field) : Prop := Forall (fun f => wf_fval (f_val f)) fs.
Definition small_fields (fs : list field) : Prop := Forall (fun f => small_seeds (f_val f)) fs.

Lemma field_eta (f : field) : {| f_role := f_role f; f_val := f_val f |} = f.
Proof. destruct f; reflexivity. Qed.

Lemma read_fields_roundtrip (partial : bool) (fs0 fs : list field) (tl : bytes) :
  wf_fields fs -> small_fields fs -> Forall2 field_fits fs0 fs ->
  read_fields partial fs0 (write_fields fs ++ tl) = (Ok, fs, tl).
Proof.
  intros Hwf Hsm HF2. revert Hwf Hsm. induction HF2 as [|f0 f fs0 fs [Hr Hk] _ IH]; intros Hwf Hsm.
  - reflexivity.
  - inversion Hwf as [|? ? Hw Hwf']; subst. inversion Hsm as [|? ? Hs Hsm']; subst.
    cbn [read_fields]. unfold write_fields in *. cbn [map concat]. rewrite <- app_assoc.
    rewrite read_fval_roundtrip by assumption. rewrite IH by assumption. rewrite Hr, field_eta. reflexivity.
Qed.

Lemma parse_fields_roundtrip (fs0 fs : list field) (tl : bytes) :
  wf_fields fs -> Forall2 field_fits fs0 fs ->
  parse_fields fs0 (write_fields fs ++ tl) = Some (fs, tl).
Proof.
  intros Hwf HF2. revert Hwf. induction HF2 as [|f0 f fs0 fs [Hr Hk] _ IH]; intros Hwf.
  - reflexivity.
  - inversion Hwf as [|? ? Hw Hwf']; subst.
    cbn [parse_fields]. unfold write_fields in *. cbn [map concat]. rewrite <- app_assoc.
    rewrite parse_fval_roundtrip by assumption. rewrite IH by assumption. rewrite Hr, field_eta. reflexivity.
Qed.

(* reading fields never changes their number, roles or variants *)
Definition kind_of (f : fval) : Z := match f with VU32 _ => 1 | VU64 _ => 2 | VSeed _ => 3 | VSeeds _ => 4 | VDist _ _ => 5 end.
Definition shape_of (fs : list field) : list (Z * Z) := map (fun f => (f_role f, kind_of (f_val f))) fs.

Lemma read_fval_kind (partial : bool) (f : fval) (s : bytes) :
  kind_of (snd (fst (read_fval partial f s))) = kind_of f.
Proof.
  destruct f; cbn [read_fval].
  - destruct (rd 4 s) as [[? ?]|]; reflexivity.
  - destruct (rd 8 s) as [[? ?]|]; reflexivity.
  - destruct (rx partial 32 b s) as [[? ?] ?]; reflexivity.
  - destruct (rd 4 s) as [[cnt s']|]; [|reflexivity].
    destruct (alloc_limit <? 32 * cnt); [reflexivity|].
    destruct (read_seeds partial (Z.to_nat cnt) s') as [[? ?] ?]; reflexivity.
  - destruct (rd 8 s) as [[w s']|]; [|reflexivity]. destruct (dist_decode w) as [[? ?]|]; reflexivity.
Qed.

Lemma read_fields_shape (partial : bool) (fs : list field) (s : bytes) :
  shape_of (snd (fst (read_fields partial fs s))) = shape_of fs.
Proof.
  revert s; induction fs as [|f t IH]; intros s; [reflexivity|].
  cbn [read_fields]. pose proof (read_fval_kind partial (f_val f) s) as Hk.
  destruct (read_fval partial (f_val f) s) as [[oc v'] s'] eqn:E. cbn [fst snd] in Hk.
  destruct oc; try (cbn [fst snd shape_of map f_role f_val]; rewrite Hk; reflexivity).
  specialize (IH s'). destruct (read_fields partial t s') as [[oc2 t'] s'']. cbn [fst snd] in *.
  cbn [shape_of map f_role f_val]. rewrite Hk. f_equal. exact IH.
Qed.

Lemma read_fields_outcome (partial : bool) (fs : list field) (s : bytes) :
  let o := fst (fst (read_fields partial fs s)) in o = Ok \/ o = Err \/ o = AbortAlloc.
Proof.
  revert s; induction fs as [|f t IH]; intros s; cbn zeta; [left; reflexivity|].
  cbn [read_fields].
  assert (Hv : let o := fst (fst (read_fval partial (f_val f) s)) in o = Ok \/ o = Err \/ o = AbortAlloc).
  { cbn zeta. destruct (f_val f); cbn [read_fval].
    - destruct (rd 4 s) as [[? ?]|]; auto.
    - destruct (rd 8 s) as [[? ?]|]; auto.
    - destruct (rx partial 32 b s) as [[[] ?] ?]; cbn [fst okb]; auto.
    - destruct (rd 4 s) as [[cnt s']|]; cbn [fst]; auto. destruct (alloc_limit <? 32 * cnt); cbn [fst]; auto.
      destruct (read_seeds partial (Z.to_nat cnt) s') as [[[] ?] ?]; cbn [fst okb]; auto.
    - destruct (rd 8 s) as [[w s']|]; cbn [fst]; auto. destruct (dist_decode w) as [[? ?]|]; cbn [fst]; auto. }
  cbn zeta in Hv. destruct (read_fval partial (f_val f) s) as [[oc v'] s']. cbn [fst] in Hv.
  destruct oc; cbn [fst]; auto; try (destruct Hv as [Hv|[Hv|Hv]]; discriminate Hv).
  specialize (IH s'). cbn zeta in IH. destruct (read_fields partial t s') as [[oc2 t'] s'']. exact IH.
Qed.

(* ---------- wrappers ---------- *)
Definition wf_wobj (w : wobj) : Prop := wf_fields (w_fields w) /\ wf_flat (w_body w).
Definition inv_wobj (w : wobj) : Prop := inv_flat (w_body w).
Definition valid_wobj (w : wobj) : Prop := fields_valid (w_fields w) = true.

Definition wobj_fits (r x : wobj) : Prop :=
  Forall2 field_fits (w_fields r) (w_fields x) /\ fk (w_body r) = fk (w_body x) /\
  payload_len (w_body x) <= blen (fd (w_body r)).

(* metadata of a wrapper: its scalar fields and the header of the inner object *)
Definition same_meta_flat (a b : flat) : Prop := fk a = fk b /\ fh a = fh b /\ length (fd a) = length (fd b).
Definition same_meta_wobj (a b : wobj) : Prop := w_fields a = w_fields b /\ same_meta_flat (w_body a) (w_body b).

Lemma write_wobj_app (w : wobj) (tl : bytes) : write_wobj w ++ tl = write_fields (w_fields w) ++ (write_flat (w_body w) ++ tl).
Proof. unfold write_wobj. rewrite <- app_assoc. reflexivity. Qed.

(* round trip, the reader as it is *)
Lemma read_wobj_roundtrip (dbg partial : bool) (r x : wobj) (tl : bytes) :
  wf_wobj x -> small_fields (w_fields x) -> wobj_fits r x ->
  read_wobj_with read_flat dbg partial r (write_wobj x ++ tl) =
    (Ok, {| w_fields := w_fields x; w_body := loaded (fh (w_body x)) (w_body r) (w_body x) |}, tl).
Proof.
  intros [Hwf Hwb] Hsm (HF2 & Hk & Hcap). unfold read_wobj_with. rewrite write_wobj_app.
  rewrite read_fields_roundtrip by assumption.
  rewrite read_flat_roundtrip by assumption. reflexivity.
Qed.

(* round trip, the repaired reader *)
Lemma read_wobj_fixed_roundtrip (dbg partial : bool) (r x : wobj) (tl : bytes) :
  wf_wobj x -> valid_wobj x -> wobj_fits r x ->
  (fk (w_body x) = KVec -> hd_ (fh (w_body x)) 2 <= hd_ (fh (w_body x)) 3) ->
  read_wobj_fixed_with read_flat_fixed dbg partial r (write_wobj x ++ tl) =
    (Ok, {| w_fields := w_fields x;
            w_body := loaded (clamp_hdr (fk (w_body x)) (fh (w_body x)) (blen (fd (w_body r)))) (w_body r) (w_body x) |}, tl).
Proof.
  intros [Hwf Hwb] Hv (HF2 & Hk & Hcap) Hsz. unfold read_wobj_fixed_with. rewrite write_wobj_app.
  rewrite parse_fields_roundtrip by assumption. unfold valid_wobj in Hv. rewrite Hv. cbn [negb].
  rewrite read_flat_fixed_roundtrip by assumption. reflexivity.
Qed.

(* the writer is a function of the fields, the header and the active bytes *)
Lemma write_wobj_logical (x y : wobj) :
  w_fields x = w_fields y -> fk (w_body x) = fk (w_body y) -> fh (w_body x) = fh (w_body y) ->
  active (w_body x) = active (w_body y) -> write_wobj x = write_wobj y.
Proof. intros H1 H2 H3 H4. unfold write_wobj. rewrite H1. f_equal. apply write_flat_logical; assumption. Qed.

(* --- the repaired wrapper reader: total, invariant, metadata --- *)
Lemma read_wobj_fixed_cases (dbg partial : bool) (r : wobj) (s : bytes) (o : outcome) (r' : wobj) (t : bytes) :
  read_wobj_fixed_with read_flat_fixed dbg partial r s = (o, r', t) ->
  (o = Err /\ w_fields r' = w_fields r /\ same_meta_flat (w_body r') (w_body r) /\
     (inv_flat (w_body r) -> inv_flat (w_body r'))) \/
  (o = Ok /\ fields_valid (w_fields r') = true /\ shape_of (w_fields r') = shape_of (w_fields r) /\
     fk (w_body r') = fk (w_body r) /\ length (fd (w_body r')) = length (fd (w_body r)) /\
     (inv_flat (w_body r) -> inv_flat (w_body r'))).
Proof.
  unfold read_wobj_fixed_with.
  destruct (parse_fields (w_fields r) s) as [[fs' s']|] eqn:E1.
  2:{ intros H; inversion H; subst. left. split; [reflexivity|]. split; [reflexivity|]. split; [unfold same_meta_flat; auto|auto]. }
  destruct (fields_valid fs') eqn:E2; cbn [negb].
  2:{ intros H; inversion H; subst. left. split; [reflexivity|]. split; [reflexivity|]. split; [unfold same_meta_flat; auto|auto]. }
  destruct (read_flat_fixed dbg partial (w_body r) s') as [[oc b'] s''] eqn:E3.
  pose proof (read_flat_fixed_preserves_inv _ _ _ _ _ _ _ E3) as Hinv.
  pose proof E3 as E3'. apply read_flat_fixed_cases in E3'.
  destruct E3' as [(-> & Hk & Hh & Hl)|(h & s1 & len & s2 & a & -> & _ & E5 & _ & _ & Hle & _ & _ & Hla & Hb)].
  - intros H; inversion H; subst. left. cbn [w_fields w_body]. split; [reflexivity|]. split; [reflexivity|]. split; [unfold same_meta_flat; auto|auto].
  - intros H; inversion H; subst. right. cbn [w_fields w_body fk fd].
    split; [reflexivity|]. split; [exact E2|]. split; [|split; [reflexivity|split; [|exact Hinv]]].
    + (* parse_fields keeps roles and variants *)
      clear -E1. revert s fs' s' E1. induction (w_fields r) as [|f t IH]; intros s fs' s' E1; cbn [parse_fields] in E1.
      * inversion E1; reflexivity.
      * destruct (parse_fval (f_val f) s) as [[v' s1]|] eqn:Ev; [|discriminate].
        destruct (parse_fields t s1) as [[t' s2]|] eqn:Et; [|discriminate].
        inversion E1; subst. cbn [shape_of map f_role f_val]. f_equal; [|eapply IH; exact Et].
        f_equal. destruct (f_val f); cbn [parse_fval] in Ev.
        -- destruct (rd 4 s) as [[? ?]|]; inversion Ev; reflexivity.
        -- destruct (rd 8 s) as [[? ?]|]; inversion Ev; reflexivity.
        -- destruct (take 32 s) as [[? ?]|]; inversion Ev; reflexivity.
        -- destruct (rd 4 s) as [[cnt sx]|]; [|discriminate]. destruct (32 * cnt <=? blen sx); [|discriminate].
           destruct (parse_seeds (Z.to_nat cnt) sx) as [[? ?]|]; inversion Ev; reflexivity.
        -- destruct (rd 8 s) as [[w sx]|]; [|discriminate]. destruct (dist_decode w) as [[? ?]|]; inversion Ev; reflexivity.
    + rewrite app_length, skipn_length. apply rd_u64 in E5. unfold u64, blen in *. lia.
Qed.

Lemma read_wobj_fixed_total (dbg partial : bool) (r : wobj) (s : bytes) :
  good (fst (fst (read_wobj_fixed_with read_flat_fixed dbg partial r s))).
Proof.
  destruct (read_wobj_fixed_with read_flat_fixed dbg partial r s) as [[o r'] t] eqn:E. cbn [fst].
  apply read_wobj_fixed_cases in E. destruct E as [(-> & _)|(-> & _)]; [right|left]; reflexivity.
Qed.

Lemma read_wobj_fixed_preserves_inv (dbg partial : bool) (r : wobj) (s : bytes) (o : outcome) (r' : wobj) (t : bytes) :
  read_wobj_fixed_with read_flat_fixed dbg partial r s = (o, r', t) ->
  inv_wobj r -> valid_wobj r -> inv_wobj r' /\ valid_wobj r'.
Proof.
  intros E Hi Hv. apply read_wobj_fixed_cases in E. unfold inv_wobj, valid_wobj in *.
  destruct E as [(_ & Hf & _ & Hinv)|(_ & Hval & _ & _ & _ & Hinv)].
  - rewrite Hf. auto.
  - auto.
Qed.

Lemma read_wobj_fixed_err_leaves_metadata (dbg partial : bool) (r : wobj) (s : bytes) (r' : wobj) (t : bytes) :
  read_wobj_fixed_with read_flat_fixed dbg partial r s = (Err, r', t) -> same_meta_wobj r' r.
Proof.
  intros E. apply read_wobj_fixed_cases in E.
  destruct E as [(_ & Hf & Hm & _)|(H & _)]; [split; assumption|discriminate H].
Qed.

(* --- the wrapper reader as it is: what still holds, and the refutations --- *)
Lemma read_wobj_body (dbg partial : bool) (r : wobj) (s : bytes) :
  let res := read_wobj_with read_flat dbg partial r s in
  shape_of (w_fields (snd (fst res))) = shape_of (w_fields r) /\
  fk (w_body (snd (fst res))) = fk (w_body r) /\
  length (fd (w_body (snd (fst res)))) = length (fd (w_body r)).
Proof.
  cbn zeta. unfold read_wobj_with.
  pose proof (read_fields_shape partial (w_fields r) s) as Hs.
  destruct (read_fields partial (w_fields r) s) as [[o1 fs'] s'] eqn:E1. cbn [fst snd] in Hs.
  destruct o1; try (cbn [fst snd w_fields w_body]; auto).
  pose proof (read_flat_length dbg partial (w_body r) s') as [Hl Hk].
  destruct (read_flat dbg partial (w_body r) s') as [[oc b'] s'']. cbn [fst snd w_fields w_body] in *. auto.
Qed.

(* the active part of the inner object stays inside its buffer after Ok and after Err *)
Lemma read_wobj_preserves_active (dbg partial : bool) (r : wobj) (s : bytes) (o : outcome) (r' : wobj) (t : bytes) :
  read_wobj_with read_flat dbg partial r s = (o, r', t) -> good o -> inv_active (w_body r) -> inv_active (w_body r').
Proof.
  unfold read_wobj_with. intros E Hg Hi.
  destruct (read_fields partial (w_fields r) s) as [[o1 fs'] s'] eqn:E1.
  destruct o1; try (inversion E; subst; exact Hi).
  destruct (read_flat dbg partial (w_body r) s') as [[oc b'] s''] eqn:E2.
  inversion E; subst. cbn [w_body]. eapply read_flat_preserves_active; eauto.
Qed.

(* GLWE-like receiver: base2k = 8, a 1 x 1 x 1 VecZnx *)
Definition w_glwe : wobj :=
  {| w_fields := [{| f_role := 1; f_val := VU32 8 |}];
     w_body := {| fk := KVec; fh := [1; 1; 1; 1]; fd := repeat 0 8%nat |} |}.
(* the stream ends after base2k = 9 *)
Lemma read_wobj_err_leaves_metadata_refuted :
  exists r', read_wobj_with read_flat false false w_glwe (le_bytes 4 9) = (Err, r', []) /\
             w_fields r' = [{| f_role := 1; f_val := VU32 9 |}] /\ w_fields r' <> w_fields w_glwe.
Proof. eexists. split; [vm_compute; reflexivity|]. split; [reflexivity|]. cbn. discriminate. Qed.

(* base2k = 0 is accepted *)
Lemma read_wobj_accepts_zero_base2k :
  exists r', read_wobj_with read_flat false false w_glwe
               (le_bytes 4 0 ++ le_bytes 8 1 ++ le_bytes 8 1 ++ le_bytes 8 1 ++ le_bytes 8 1 ++ le_bytes 8 8 ++ repeat 5 8%nat)
             = (Ok, r', []) /\ fields_valid (w_fields r') = false.
Proof. eexists. split; vm_compute; reflexivity. Qed.

(* GGLWECompressed-like receiver: k base2k dsize rank, seed vector, 1 x 1 x 1 x 1 x 1 MatZnx; the stream holds
   the four words and a seed count of 4097: `vec![[0u8; 32]; 4097]` exceeds the allocation limit *)
Definition w_gglwe_c : wobj :=
  {| w_fields := [{| f_role := 2; f_val := VU32 16 |}; {| f_role := 1; f_val := VU32 8 |}; {| f_role := 4; f_val := VU32 1 |};
                  {| f_role := 3; f_val := VU32 1 |}; {| f_role := 9; f_val := VSeeds [zero_seed] |}];
     w_body := {| fk := KMat; fh := [1; 1; 1; 1; 1]; fd := repeat 0 8%nat |} |}.
Lemma read_wobj_total_refuted_alloc :
  fst (fst (read_wobj_with read_flat false false w_gglwe_c
              (le_bytes 4 16 ++ le_bytes 4 8 ++ le_bytes 4 1 ++ le_bytes 4 1 ++ le_bytes 4 4097))) = AbortAlloc.
Proof. vm_compute. reflexivity. Qed.
