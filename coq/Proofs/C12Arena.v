(* C12 - facts about the arena machine and the interpreter of take trees (independent of any operation). *)
From PV Require Import Base.MachineInt Model.C12Scratch.
Open Scope Z_scope.

(* ------------------------------------------------------------------------------------------------ *)
(* one take *)

Lemma pad_range (off : Z) : 0 <= pad_of off < 64.
Proof. unfold pad_of, ALIGN. lia. Qed.

Lemma pad_aligned (off : Z) : off mod 64 = 0 -> pad_of off = 0.
Proof. unfold pad_of, ALIGN. lia. Qed.

Lemma pad_makes_aligned (off : Z) : (off + pad_of off) mod 64 = 0.
Proof. unfold pad_of, ALIGN. lia. Qed.

Lemma take_some (k off len : Z) (w : window) (r : arena) :
  take k (off, len) = Some (w, r) ->
  k <= avail (off, len) /\ w = (off + pad_of off, k) /\ r = (off + pad_of off + k, avail (off, len) - k).
Proof.
  unfold take; cbn [fst snd]. destruct (Z.leb_spec k (avail (off, len))) as [Hle|Hgt]; intros H; inversion H; auto.
Qed.

(* every window returned lies inside the parent slice, is 64-byte aligned, and is disjoint from the remainder,
   which itself stays inside the parent *)
Lemma take_in_window (k off len : Z) (w : window) (r : arena) :
  0 <= k -> take k (off, len) = Some (w, r) ->
  snd w = k /\ fst w mod 64 = 0 /\ fst r = fst w + snd w /\ 0 <= snd r /\
  (0 < k -> off <= fst w /\ fst w + snd w <= off + len) /\
  (0 < snd r -> off <= fst r /\ fst r + snd r <= off + len).
Proof.
  intros Hk H. apply take_some in H. destruct H as (Hle & -> & ->). cbn [fst snd].
  pose proof (pad_range off) as Hp. pose proof (pad_makes_aligned off) as Ha.
  unfold avail in *; cbn [fst snd] in *. repeat split; try lia.
Qed.

(* the one irregular case of the real allocator: a zero-length take on a slice shorter than its padding
   succeeds and returns an (empty) window that starts beyond the end of the slice *)
Lemma take_zero_outside_refuted :
  exists off len w r, take 0 (off, len) = Some (w, r) /\ off + len < fst w.
Proof. exists 1, 10, (64, 0), (64, 0). split; [vm_compute; reflexivity | cbn; lia]. Qed.

Lemma avail_mono (off len len' : Z) : len <= len' -> avail (off, len) <= avail (off, len').
Proof. unfold avail; cbn [fst snd]; lia. Qed.

(* ------------------------------------------------------------------------------------------------ *)
(* monotonicity in the length: what fits in len fits in any len' >= len, with the same windows *)

Lemma iter_scoped_mono (f g : arena -> option (list window * arena)) (n : nat) (s s' : arena) (ws : list window) :
  (forall w r, f s = Some (w, r) -> exists r', g s' = Some (w, r')) ->
  iter_scoped f n s = Some ws -> iter_scoped g n s' = Some ws.
Proof.
  intros Hfg. revert ws. induction n as [|n IH]; intros ws; cbn [iter_scoped]; auto.
  destruct (f s) as [[w r]|] eqn:Ef; [|discriminate].
  destruct (Hfg w r eq_refl) as (r' & ->).
  destruct (iter_scoped f n s) as [ws0|] eqn:Ei; [|discriminate].
  rewrite (IH ws0 eq_refl). auto.
Qed.

Lemma run_mono (t : tree) : forall off len len' ws off2 len2,
  run_tree t (off, len) = Some (ws, (off2, len2)) -> len <= len' ->
  exists len2', len2 <= len2' /\ run_tree t (off, len') = Some (ws, (off2, len2')).
Proof.
  induction t as [|k|k|a IHa b IHb|a IHa|n a IHa|a IHa b IHb]; intros off len len' ws off2 len2 H Hle; cbn [run_tree] in *.
  - injection H as <- <- <-. exists len'; auto.
  - destruct (take k (off, len)) as [[w r]|] eqn:Et; [|discriminate].
    apply take_some in Et. destruct Et as (Hk & Hw & Hr). subst w r. injection H as <- <- <-.
    pose proof (avail_mono off len len' Hle) as Hav.
    exists (avail (off, len') - k). split; [lia|].
    unfold take; cbn [fst snd]. destruct (Z.leb_spec k (avail (off, len'))); [reflexivity|lia].
  - destruct (Z.leb_spec k (avail (off, len))) as [Hk|]; [|discriminate]. injection H as <- <- <-.
    pose proof (avail_mono off len len' Hle). exists len'. split; [lia|].
    destruct (Z.leb_spec k (avail (off, len'))); [reflexivity|lia].
  - destruct (run_tree a (off, len)) as [[wa [o1 l1]]|] eqn:Ea; [|discriminate].
    destruct (run_tree b (o1, l1)) as [[wb [o2 l2]]|] eqn:Eb; [|discriminate].
    injection H as <- <- <-.
    destruct (IHa _ _ len' _ _ _ Ea Hle) as (l1' & Hl1 & ->).
    destruct (IHb _ _ l1' _ _ _ Eb Hl1) as (l2' & Hl2 & ->).
    exists l2'; auto.
  - destruct (run_tree a (off, len)) as [[wa [o1 l1]]|] eqn:Ea; [|discriminate].
    injection H as <- <- <-.
    destruct (IHa _ _ len' _ _ _ Ea Hle) as (l1' & _ & ->). exists len'; split; [lia|reflexivity].
  - destruct (iter_scoped (run_tree a) n (off, len)) as [ws0|] eqn:Ei; [|discriminate].
    injection H as <- <- <-.
    assert (Hstep : forall w r, run_tree a (off, len) = Some (w, r) -> exists r', run_tree a (off, len') = Some (w, r')).
    { intros w [o1 l1] Hr. destruct (IHa _ _ len' _ _ _ Hr Hle) as (l1' & _ & ->). eauto. }
    rewrite (iter_scoped_mono (run_tree a) (run_tree a) n (off, len) (off, len') ws0 Hstep Ei).
    exists len'; split; [lia|reflexivity].
  - destruct (run_tree a (off, len)) as [[wa [o1 l1]]|] eqn:Ea; [|discriminate].
    destruct (run_tree b (off, len)) as [[wb [o2 l2]]|] eqn:Eb; [|discriminate].
    injection H as <- <- <-.
    destruct (IHa _ _ len' _ _ _ Ea Hle) as (l1' & _ & ->).
    destruct (IHb _ _ len' _ _ _ Eb Hle) as (l2' & _ & ->).
    exists len'; split; [lia|reflexivity].
Qed.

(* if a run succeeds with len it succeeds with any len' >= len (same windows, same peak): the maximum of the
   declared sizes of a set of operations serves every one of them *)
Lemma max_serves_all (t : tree) (off len len' : Z) :
  len <= len' -> run_takes t (off, len) <> None -> run_takes t (off, len') = run_takes t (off, len).
Proof.
  intros Hle. unfold run_takes.
  destruct (run_tree t (off, len)) as [[ws [o2 l2]]|] eqn:E; [|congruence]. intros _.
  destruct (run_mono t _ _ len' _ _ _ E Hle) as (l2' & _ & ->). reflexivity.
Qed.

(* ------------------------------------------------------------------------------------------------ *)
(* fail_kind = 0 exactly when the run succeeds *)

Lemma iter_scoped_none (f : arena -> option (list window * arena)) (n : nat) (s : arena) :
  f s = None -> iter_scoped f (S n) s = None.
Proof. intros H; cbn [iter_scoped]; rewrite H; reflexivity. Qed.

Lemma iter_scoped_some (f : arena -> option (list window * arena)) (n : nat) (s : arena) w r :
  f s = Some (w, r) -> exists ws, iter_scoped f n s = Some ws.
Proof.
  intros H. induction n as [|n [ws IH]]; cbn [iter_scoped]; [eauto|]. rewrite H, IH. eauto.
Qed.

Lemma fail_kind_spec (t : tree) : forall s, fail_kind t s = 0 <-> run_tree t s <> None.
Proof.
  induction t as [|k|k|a IHa b IHb|a IHa|n a IHa|a IHa b IHb]; intros s; cbn [fail_kind run_tree].
  - split; congruence.
  - destruct (take k s) as [[w r]|]; split; congruence.
  - destruct (k <=? avail s); split; congruence.
  - destruct (run_tree a s) as [[wa s1]|] eqn:Ea.
    + rewrite IHb. destruct (run_tree b s1) as [[wb s2]|]; split; congruence.
    + rewrite IHa, Ea. split; congruence.
  - rewrite IHa. destruct (run_tree a s) as [[wa s1]|]; split; congruence.
  - destruct n as [|n]; [cbn; split; congruence|].
    rewrite IHa. destruct (run_tree a s) as [[wa s1]|] eqn:Ea.
    + destruct (iter_scoped_some (run_tree a) (S n) s wa s1 Ea) as (ws & ->). split; congruence.
    + rewrite (iter_scoped_none _ n s Ea). split; congruence.
  - destruct (Z.eqb_spec (fail_kind a s) 0) as [E0|E0].
    + rewrite IHb. apply IHa in E0. destruct (run_tree a s) as [[wa s1]|]; [|congruence].
      destruct (run_tree b s) as [[wb s2]|]; split; congruence.
    + split; [congruence|]. intros H. exfalso. apply E0, IHa. destruct (run_tree a s); congruence.
Qed.

Lemma fail_kind_run_takes (t : tree) (s : arena) : fail_kind t s = 0 <-> run_takes t s <> None.
Proof.
  rewrite fail_kind_spec. unfold run_takes. destruct (run_tree t s) as [[ws r]|]; split; congruence.
Qed.

(* ------------------------------------------------------------------------------------------------ *)
(* closed form for trees whose takes are all multiples of 64, on a 64-aligned arena *)

Lemma aligned_persist (t : tree) : aligned_tree t -> 0 <= persist t /\ persist t mod 64 = 0 /\ persist t <= demand t.
Proof.
  induction t as [|k|k|a IHa b IHb|a IHa|n a IHa|a IHa b IHb]; cbn [aligned_tree persist demand]; unfold ALIGN; intros H.
  - lia.
  - lia.
  - lia.
  - destruct H as [Ha Hb]. specialize (IHa Ha). specialize (IHb Hb). lia.
  - specialize (IHa H). lia.
  - specialize (IHa H). destruct n; lia.
  - destruct H as [Ha Hb]. specialize (IHa Ha). specialize (IHb Hb). lia.
Qed.

Lemma some_arena_eq (ws : list window) (o l o' l' : Z) :
  o = o' -> l = l' -> Some (ws, (o, l)) = Some (ws, (o', l')).
Proof. intros -> ->; reflexivity. Qed.

Lemma take_aligned (k off len : Z) : off mod 64 = 0 -> 0 <= len ->
  take k (off, len) = if k <=? len then Some ((off, k), (off + k, len - k)) else None.
Proof.
  intros Ho Hl. unfold take, avail; cbn [fst snd]. rewrite (pad_aligned off Ho).
  replace (Z.max 0 (len - 0)) with len by lia. replace (off + 0) with off by lia. reflexivity.
Qed.

Lemma run_aligned (t : tree) : forall off len, aligned_tree t -> off mod 64 = 0 -> 0 <= len ->
  (demand t <= len -> exists ws, run_tree t (off, len) = Some (ws, (off + persist t, len - persist t))) /\
  (len < demand t -> run_tree t (off, len) = None).
Proof.
  induction t as [|k|k|a IHa b IHb|a IHa|n a IHa|a IHa b IHb]; intros off len Hal Ho Hl;
    cbn [aligned_tree persist demand run_tree] in *; unfold ALIGN in *.
  - split; [intros _; exists []; apply some_arena_eq; lia | lia].
  - rewrite take_aligned by assumption. destruct (Z.leb_spec k len); split; intros; try lia; eauto.
  - unfold avail; cbn [fst snd]. rewrite (pad_aligned off Ho).
    destruct (Z.leb_spec k (Z.max 0 (len - 0))); split; intros; try lia; [|reflexivity].
    exists []. apply some_arena_eq; lia.
  - destruct Hal as [Ha Hb].
    pose proof (aligned_persist a Ha) as (Hpa0 & Hpam & Hpad).
    destruct (IHa off len Ha Ho Hl) as [IHa1 IHa2].
    split.
    + intros Hd. destruct (IHa1 ltac:(lia)) as (wa & ->).
      destruct (IHb (off + persist a) (len - persist a) Hb ltac:(lia) ltac:(lia)) as [IHb1 _].
      destruct (IHb1 ltac:(lia)) as (wb & ->). exists (wa ++ wb). apply some_arena_eq; lia.
    + intros Hd. destruct (Z_lt_le_dec len (demand a)) as [Hlt|Hge].
      * rewrite (IHa2 Hlt). reflexivity.
      * destruct (IHa1 Hge) as (wa & ->).
        destruct (IHb (off + persist a) (len - persist a) Hb ltac:(lia) ltac:(lia)) as [_ IHb2].
        rewrite (IHb2 ltac:(lia)). reflexivity.
  - destruct (IHa off len Hal Ho Hl) as [IHa1 IHa2]. split; intros Hd.
    + destruct (IHa1 Hd) as (wa & ->). exists wa. apply some_arena_eq; lia.
    + rewrite (IHa2 Hd). reflexivity.
  - destruct (IHa off len Hal Ho Hl) as [IHa1 IHa2]. destruct n as [|n].
    + split; [intros _; exists []; cbn; apply some_arena_eq; lia | lia].
    + split; intros Hd.
      * destruct (IHa1 Hd) as (wa & Ea).
        destruct (iter_scoped_some (run_tree a) (S n) (off, len) _ _ Ea) as (ws & ->).
        exists ws. apply some_arena_eq; lia.
      * rewrite (iter_scoped_none _ n (off, len) (IHa2 Hd)). reflexivity.
  - destruct Hal as [Ha Hb].
    destruct (IHa off len Ha Ho Hl) as [IHa1 IHa2]. destruct (IHb off len Hb Ho Hl) as [IHb1 IHb2].
    split; intros Hd.
    + destruct (IHa1 ltac:(lia)) as (wa & ->). destruct (IHb1 ltac:(lia)) as (wb & ->).
      exists (wa ++ wb). apply some_arena_eq; lia.
    + destruct (Z_lt_le_dec len (demand a)) as [Hlt|Hge].
      * rewrite (IHa2 Hlt). reflexivity.
      * destruct (IHa1 Hge) as (wa & ->). rewrite (IHb2 ltac:(lia)). reflexivity.
Qed.

(* the two directions used by the per-operation theorems *)
Lemma aligned_suffices (t : tree) (b : Z) :
  aligned_tree t -> demand t <= b -> run_takes t (0, b) <> None.
Proof.
  intros Hal Hd. pose proof (aligned_persist t Hal) as (H0 & _ & Hp).
  destruct (run_aligned t 0 b Hal eq_refl ltac:(lia)) as [H1 _].
  destruct (H1 Hd) as (ws & E). unfold run_takes. rewrite E. congruence.
Qed.

Lemma aligned_too_small (t : tree) (b : Z) :
  aligned_tree t -> 0 <= b < demand t -> run_takes t (0, b) = None.
Proof.
  intros Hal Hb. destruct (run_aligned t 0 b Hal eq_refl ltac:(lia)) as [_ H2].
  unfold run_takes. rewrite (H2 ltac:(lia)). reflexivity.
Qed.

(* ------------------------------------------------------------------------------------------------ *)
(* derived trees *)

Lemma demand_rep (n : nat) (a : tree) : 0 <= persist a <= demand a ->
  demand (rep n a) = match n with O => 0 | S m => Z.of_nat m * persist a + demand a end /\
  persist (rep n a) = Z.of_nat n * persist a.
Proof.
  intros Hpa. induction n as [|n [IHd IHp]]; [cbn; lia|].
  cbn [rep demand persist]. rewrite IHd, IHp. destruct n; split; nia.
Qed.

Lemma aligned_rep (n : nat) (a : tree) : aligned_tree a -> aligned_tree (rep n a).
Proof. intros Ha. induction n; cbn; auto. Qed.

(* Scratch::split_mut(n, len) on a window of exactly n * len bytes: fine when len is a multiple of the alignment ... *)
Lemma split_mut_suffices (n len : Z) : 0 <= n -> 0 <= len -> len mod 64 = 0 ->
  run_takes (split_mut n len) (0, n * len) <> None.
Proof.
  intros Hn Hl Hm. unfold split_mut.
  assert (Ht : aligned_tree (Take len)) by (cbn; unfold ALIGN; lia).
  pose proof (aligned_rep (Z.to_nat n) (Take len) Ht) as Hr.
  destruct (demand_rep (Z.to_nat n) (Take len) ltac:(cbn; lia)) as [Hd Hp]. cbn [persist demand] in Hd, Hp.
  apply aligned_suffices.
  - cbn [aligned_tree]. split; [nia | exact Hr].
  - cbn [demand persist]. rewrite Hd. destruct (Z.to_nat n) eqn:E; [nia|].
    assert (Z.of_nat (S n0) = n) by (rewrite <- E; apply Z2Nat.id; lia). nia.
Qed.

(* ... but its own precondition `available() >= n * len` is not sufficient otherwise: every sub-region is re-aligned *)
Lemma split_mut_unaligned_refuted :
  exists n len, 0 <= n /\ 0 <= len /\ n * len <= avail (0, n * len) /\ run_takes (split_mut n len) (0, n * len) = None.
Proof. exists 2, 320144. repeat split; try lia; vm_compute; try reflexivity; discriminate. Qed.
