(* C14: the CGGI accumulator loops rotate the table by X^(b + sum a_i s_i). *)
From PV Require Import Base.MachineInt Model.Znx Model.Limbs Model.Ring Model.C14Lut Model.C14Blind.
From PV Require Import Proofs.C09Lists Proofs.C09Ring Proofs.C14Poly.
Open Scope Z_scope.

(* ------------------------------------------------------------------ more polynomial algebra *)
Lemma len_padd a b : length (padd a b) = Nat.min (length a) (length b).
Proof. apply map2_length. Qed.
Lemma len_psub a b : length (psub a b) = Nat.min (length a) (length b).
Proof. apply map2_length. Qed.
Lemma len_zeros n : length (zeros n) = n.
Proof. apply repeat_length. Qed.

Ltac plen := repeat (rewrite ?len_padd, ?len_psub, ?zrot_length, ?pscale_length, ?xp_minus_one_length, ?len_zeros in * ); try lia.

Lemma zext_pscale c a k : zext (pscale c a) k = c * zext a k.
Proof.
  destruct (Nat.eq_dec (length a) 0) as [H0|H0].
  { destruct a; [|discriminate]. change (pscale c []) with (@nil Z). rewrite !zext_nil. lia. }
  set (n := Z.of_nat (length a)).
  destruct (exp_decomp n k ltac:(lia)) as [q [i [Hk Hi]]].
  rewrite (zext_at_nat (pscale c a) k q i) by (rewrite pscale_length; fold n; auto; lia).
  rewrite (zext_at_nat a k q i) by (fold n; auto; lia).
  rewrite pscale_nth by lia. destruct (Z.even q); lia.
Qed.
Lemma zext_xp_minus_one p a k : zext (xp_minus_one p a) k = zext a (k - p) - zext a k.
Proof. unfold xp_minus_one. rewrite zext_psub by apply zrot_length. rewrite zext_zrot. reflexivity. Qed.
Lemma zext_zeros n k : zext (zeros n) k = 0.
Proof.
  unfold zext. cbv zeta.
  assert (H : forall i, nthZ (zeros n) i = 0).
  { intros i. unfold zeros, nthZ. revert i. induction n; intros [|i]; cbn [repeat nth]; auto. }
  rewrite H. destruct (Z.even _); reflexivity.
Qed.

(* equalities of polynomials of the same length are decided on the extensions, which are linear *)
(* identify extension arguments that are equal as integers, so that lia sees the same atoms *)
Ltac zext_norm := repeat match goal with
  | |- context [zext ?a ?k1] =>
      match goal with |- context [zext a ?k2] => assert_fails (constr_eq k1 k2); replace k2 with k1 by lia end
  end.
Ltac pext := apply zext_inj; [plen | intros ?k; repeat (rewrite ?zext_padd, ?zext_psub, ?zext_xp_minus_one, ?zext_zrot, ?zext_pscale, ?zext_zeros by plen); zext_norm].

(* ================================================================== standard CGGI, with noise ===== *)
Section Standard.
Variable ct : Type.                       (* GLWE ciphertexts *)
Variable phase : ct -> poly.              (* exact phase (decryption before rounding) *)
Variable N : nat.
Variable B : Z.                           (* sup-norm bound on the noise added by one external product *)
Variable extprod : ct -> nat -> ct.       (* acc [x] BRK_i *)
Variable mulxp : Z -> ct -> ct.           (* glwe_mul_xp_minus_one_assign *)
Variable ctadd : ct -> ct -> ct.          (* glwe_add_assign *)
Variable s : nat -> Z.                    (* the LWE secret *)
Hypothesis HB : 0 <= B.
Hypothesis phase_length : forall c, length (phase c) = N.
Hypothesis s_binary : forall i, s i = 0 \/ s i = 1.
(* C04: the external product by a GGSW encryption of s_i multiplies the phase by s_i, up to a bounded error *)
Hypothesis external_product_phase : forall acc i,
  exists e, length e = N /\ bounded B e /\ phase (extprod acc i) = padd (pscale (s i) (phase acc)) e.
(* C02: the noise-free operations commute with the phase *)
Hypothesis phase_mul_xp_minus_one : forall a c, phase (mulxp a c) = xp_minus_one a (phase c).
Hypothesis phase_add : forall c d, phase (ctadd c d) = padd (phase c) (phase d).

(* execute_standard: for (a_i, brk_i) in zip(a, brk): acc += (X^{a_i} - 1) * (acc [x] brk_i) *)
Fixpoint std_loop (i : nat) (av : list Z) (acc : ct) : ct :=
  match av with
  | [] => acc
  | a :: t => std_loop (S i) t (ctadd acc (mulxp a (extprod acc i)))
  end.
Fixpoint expo (i : nat) (av : list Z) : Z :=
  match av with [] => 0 | a :: t => a * s i + expo (S i) t end.

Theorem standard_phase (av : list Z) : forall (i : nat) (acc : ct),
  exists E, length E = N /\ bounded (2 * B * Z.of_nat (length av)) E /\
            phase (std_loop i av acc) = padd (zrot (expo i av) (phase acc)) E.
Proof.
  induction av as [|a t IH]; intros i acc.
  - exists (zeros N). split; [apply len_zeros|]. split; [apply bounded_zeros; cbn [length Z.of_nat]; lia|].
    cbn [std_loop expo]. pose proof (phase_length acc). pext. lia.
  - cbn [std_loop expo].
    set (acc1 := ctadd acc (mulxp a (extprod acc i))).
    destruct (IH (S i) acc1) as [E1 [HL1 [HB1 HP1]]].
    destruct (external_product_phase acc i) as [e [He [Hbe Hpe]]].
    pose proof (phase_length acc) as Hla.
    exists (padd (zrot (expo (S i) t) (xp_minus_one a e)) E1).
    split; [plen|]. split.
    + replace (2 * B * Z.of_nat (length (a :: t))) with (2 * B + 2 * B * Z.of_nat (length t)) by (cbn [length]; lia).
      apply padd_bounded; [plen | apply zrot_bounded, xp_minus_one_bounded; exact Hbe | exact HB1].
    + rewrite HP1. unfold acc1. rewrite phase_add, phase_mul_xp_minus_one, Hpe.
      destruct (s_binary i) as [Hs|Hs]; rewrite Hs; pext; lia.
Qed.

End Standard.

(* ================================================================== noise-free phase models ===== *)
(* the executable standard loop of Model/C14Blind.v *)
Fixpoint dotp (l : list (Z * Z)) : Z := match l with [] => 0 | q :: t => fst q * snd q + dotp t end.
Definition binaryl (l : list (Z * Z)) : Prop := Forall (fun q => snd q = 0 \/ snd q = 1) l.

Lemma cggi_step_rot s a acc : s = 0 \/ s = 1 -> cggi_step s a acc = zrot (a * s) acc.
Proof.
  intros [->| ->]; unfold cggi_step.
  - cbn [Z.eqb]. rewrite Z.mul_0_r, zrot_0. reflexivity.
  - cbn [Z.eqb]. rewrite pscale_1, Z.mul_1_r. pext. lia.
Qed.

Theorem cggi_standard_rot (b : Z) (av sv : list Z) (lut0 : poly) :
  binaryl (combine av sv) ->
  cggi_standard b av sv lut0 = zrot (b + dotp (combine av sv)) lut0.
Proof.
  unfold cggi_standard. generalize (combine av sv) as l. intros l.
  replace (b + dotp l) with (dotp l + b) by ring. rewrite <- zrot_compose.
  generalize (zrot b lut0) as acc. induction l as [|q t IH]; intros acc Hb.
  - cbn [fold_left dotp]. rewrite zrot_0. reflexivity.
  - inversion Hb as [|? ? Hq Ht]; subst. cbn [fold_left dotp].
    rewrite IH by exact Ht. rewrite cggi_step_rot by exact Hq.
    rewrite zrot_compose. f_equal. lia.
Qed.

(* ---- block-binary ---- *)
Inductive at_most_one : list (Z * Z) -> Prop :=
| amo_nil : at_most_one []
| amo_zero a t : at_most_one t -> at_most_one ((a, 0) :: t)
| amo_one a t : Forall (fun q => snd q = 0) t -> at_most_one ((a, 1) :: t).

Lemma fold_padd_nth (l : list poly) (acc : poly) (n : nat) (i : nat) :
  length acc = n -> Forall (fun x => length x = n) l -> (i < n)%nat ->
  nthZ (fold_left padd l acc) i = nthZ acc i + fold_right (fun x r => nthZ x i + r) 0 l /\
  length (fold_left padd l acc) = n.
Proof.
  revert acc. induction l as [|x t IH]; intros acc Ha Hl Hi; cbn [fold_left fold_right].
  - split; [lia | exact Ha].
  - inversion Hl as [|? ? Hx Ht]; subst.
    destruct (IH (padd acc x) ltac:(plen) Ht Hi) as [H1 H2]. split; [|exact H2].
    rewrite H1. rewrite padd_nth by lia. lia.
Qed.

Lemma all_zero_block_sum (n : nat) (two_n : Z) (acc : poly) (t : list (Z * Z)) (i : nat) :
  Forall (fun q => snd q = 0) t ->
  fold_right (fun x r => nthZ x i + r) 0
    (map (fun q : Z * Z => if snd q =? 0 then zeros n else xp_minus_one ((fst q + two_n) mod two_n) (pscale (snd q) acc)) t) = 0.
Proof.
  induction t as [|q t IH]; intros H; cbn [map fold_right]; [reflexivity|].
  inversion H as [|? ? Hq Ht]; subst. rewrite Hq. cbn [Z.eqb]. rewrite IH by exact Ht.
  assert (Hz : nthZ (zeros n) i = 0).
  { unfold zeros, nthZ. clear. revert i. induction n; intros [|i]; cbn [repeat nth]; auto. }
  lia.
Qed.

Lemma block_map_lengths (n : nat) (two_n : Z) (acc : poly) (blk : list (Z * Z)) :
  length acc = n ->
  Forall (fun x => length x = n)
    (map (fun q : Z * Z => if snd q =? 0 then zeros n else xp_minus_one ((fst q + two_n) mod two_n) (pscale (snd q) acc)) blk).
Proof.
  intros Ha. apply Forall_forall. intros y Hy. apply in_map_iff in Hy. destruct Hy as [q [<- _]].
  destruct (_ =? _); plen.
Qed.

Lemma cggi_block_step_rot (n : nat) (blk : list (Z * Z)) (acc : poly) :
  (0 < n)%nat -> length acc = n -> at_most_one blk ->
  cggi_block_step n blk acc = zrot (dotp blk) acc.
Proof.
  intros Hn Ha Hamo. unfold cggi_block_step. cbv zeta.
  set (two_n := 2 * Z.of_nat n).
  apply nthZ_ext.
  { unfold psum. destruct (fold_padd_nth _ (zeros n) n 0 (len_zeros n) (block_map_lengths n two_n acc blk Ha) Hn) as [_ HL].
    rewrite len_padd, HL, zrot_length. lia. }
  intros i Hi.
  assert (Hin : (i < n)%nat).
  { unfold psum in Hi. destruct (fold_padd_nth _ (zeros n) n 0 (len_zeros n) (block_map_lengths n two_n acc blk Ha) Hn) as [_ HL].
    rewrite len_padd, HL in Hi. lia. }
  unfold psum.
  destruct (fold_padd_nth _ (zeros n) n i (len_zeros n) (block_map_lengths n two_n acc blk Ha) Hin) as [HS HL].
  rewrite padd_nth by lia. rewrite HS.
  assert (Hz : nthZ (zeros n) i = 0).
  { unfold zeros, nthZ. clear. revert i. induction n; intros [|i]; cbn [repeat nth]; auto. }
  rewrite Hz. clear HS HL Hi.
  induction Hamo as [|a t Ht IH|a t Ht].
  - cbn [map fold_right dotp]. rewrite zrot_0. lia.
  - cbn [map fold_right dotp fst snd Z.eqb]. rewrite Hz.
    replace (a * 0 + dotp t) with (dotp t) by lia. lia.
  - cbn [map fold_right dotp fst snd Z.eqb].
    rewrite all_zero_block_sum by exact Ht.
    assert (Hd : dotp t = 0).
    { clear -Ht. induction t as [|q t IH]; cbn [dotp]; [reflexivity|]. inversion Ht; subst. rewrite IH by auto. lia. }
    rewrite Hd, pscale_1.
    unfold xp_minus_one. rewrite psub_nth by plen.
    rewrite (zrot_congr ((a + two_n) mod two_n) (a * 1 + 0) acc).
    + lia.
    + rewrite Ha. fold two_n. rewrite Z.mod_mod by (unfold two_n; lia).
      replace (a + two_n) with (a * 1 + 0 + 1 * two_n) by ring. apply Z.mod_add. unfold two_n; lia.
Qed.

Lemma dotp_app l1 l2 : dotp (l1 ++ l2) = dotp l1 + dotp l2.
Proof. induction l1 as [|q t IH]; cbn [app dotp]; [lia|]. rewrite IH. lia. Qed.

Theorem cggi_block_rot (n block : nat) (b : Z) (av sv : list Z) (lut0 : poly) :
  (0 < n)%nat -> length lut0 = n ->
  Forall at_most_one (chunks block (combine av sv)) ->
  cggi_block n block b av sv lut0 = zrot (b + dotp (concat (chunks block (combine av sv)))) lut0.
Proof.
  intros Hn Hl. unfold cggi_block. generalize (chunks block (combine av sv)) as cs. intros cs Hall.
  assert (Hgen : forall acc, length acc = n ->
            fold_left (fun acc blk => cggi_block_step n blk acc) cs acc = zrot (dotp (concat cs)) acc).
  { induction cs as [|blk t IH]; intros acc Ha.
    - cbn [fold_left concat dotp]. rewrite zrot_0. reflexivity.
    - inversion Hall as [|? ? Hb Ht]; subst. cbn [fold_left concat].
      rewrite cggi_block_step_rot by auto. rewrite IH by (auto; plen).
      rewrite zrot_compose, dotp_app. f_equal. lia. }
  rewrite Hgen by plen. rewrite zrot_compose. f_equal. lia.
Qed.

(* when the block size divides the number of coefficients, the chunks cover every coefficient *)
Lemma chunks_exact_concat {A} (fuel bs : nat) (l : list A) (k : nat) :
  (0 < bs)%nat -> length l = (k * bs)%nat -> (k <= fuel)%nat -> concat (chunks_exact fuel bs l) = l.
Proof.
  intros Hbs. revert l k. induction fuel as [|f IH]; intros l k Hl Hk.
  - assert (k = 0%nat) by lia. subst. destruct l; [reflexivity|discriminate].
  - cbn [chunks_exact]. destruct k as [|k].
    + destruct l; [|discriminate]. cbn [length]. destruct (Nat.leb_spec bs 0); [lia|reflexivity].
    + destruct (Nat.leb_spec bs (length l)); [|nia].
      cbn [concat]. rewrite (IH (skipn bs l) k) by (rewrite ?skipn_length; nia).
      apply firstn_skipn.
Qed.
Lemma chunks_concat {A} (bs : nat) (l : list A) (k : nat) :
  (0 < bs)%nat -> length l = (k * bs)%nat -> concat (chunks bs l) = l.
Proof. intros Hbs Hl. unfold chunks. apply (chunks_exact_concat _ bs l k); auto. nia. Qed.

(* ================================================================== extended variant ===== *)
(* what one selected coefficient should do to the ext components: the big-ring product Y^a * acc, Y^ext = X *)
Definition ext_rot (n : nat) (a : Z) (acc : list poly) : list poly :=
  let e := Z.of_nat (length acc) in
  let t := 2 * Z.of_nat n * e in
  let a_pos := (a + t) mod t in
  let a_hi := a_pos / e in let a_lo := a_pos mod e in
  map (fun i : nat =>
         if Z.of_nat i <? a_lo then zrot (a_hi + 1) (pnth acc (Z.to_nat (e - a_lo) + i))
         else zrot a_hi (pnth acc (i - Z.to_nat a_lo)))
      (seq 0 (length acc)).

(* the coefficients on which the code's guards are harmless *)
Definition ext_guard (n e a : Z) : Prop :=
  let t := 2 * n * e in
  let a_pos := (a + t) mod t in
  let a_hi := a_pos / e in let a_lo := a_pos mod e in
  a_lo = 0 \/ (a_hi <> 0 /\ (a_hi + 1) mod (2 * n) <> 0).

Lemma map2_padd_seq (n : nat) (acc : list poly) (g : nat -> poly) :
  Forall (fun p => length p = n) acc -> (forall i, (i < length acc)%nat -> length (g i) = n) ->
  map2 padd acc (map g (seq 0 (length acc))) = map (fun i => padd (pnth acc i) (g i)) (seq 0 (length acc)).
Proof.
  intros Hacc Hg.
  assert (HL : length (map2 padd acc (map g (seq 0 (length acc)))) = length acc).
  { unfold map2. rewrite map_length, combine_length, map_length, seq_length. lia. }
  apply (nth_ext _ _ [] []).
  - transitivity (length acc); [exact HL | rewrite map_length, seq_length; reflexivity].
  - intros i Hi0. pose proof (eq_ind _ (fun z => (i < z)%nat) Hi0 _ HL) as Hi. cbv beta in Hi.
    rewrite nth_map_seq by auto. unfold map2.
    set (h := fun p : poly * poly => padd (fst p) (snd p)).
    rewrite (nth_indep _ [] (h ([], []))) by (rewrite map_length, combine_length, map_length, seq_length; lia).
    rewrite (map_nth h). rewrite combine_nth by (rewrite map_length, seq_length; reflexivity).
    rewrite nth_map_seq by auto. reflexivity.
Qed.

(* one selected coefficient (s = 1) outside the guard-sensitive set: the code adds exactly (Y^a - 1) * acc *)
Theorem ext_step_is_rotation (n : nat) (a : Z) (acc : list poly) :
  (0 < n)%nat -> (0 < length acc)%nat -> Forall (fun p => length p = n) acc ->
  ext_guard (Z.of_nat n) (Z.of_nat (length acc)) a ->
  map2 padd acc (ext_contrib n a 1 acc) = ext_rot n a acc.
Proof.
  intros Hn He Hacc Hg. unfold ext_contrib, ext_rot. cbv zeta.
  set (e := Z.of_nat (length acc)) in *. set (t := 2 * Z.of_nat n * e).
  unfold ext_guard in Hg. cbv zeta in Hg. fold t in Hg.
  set (a_pos := (a + t) mod t) in *. set (a_hi := a_pos / e) in *. set (a_lo := a_pos mod e) in *.
  assert (Hlo : 0 <= a_lo < e) by (apply Z.mod_pos_bound; unfold e; lia).
  assert (Hv : map (pscale 1) acc = acc).
  { rewrite <- (map_id acc) at 2. apply map_ext. intros; apply pscale_1. }
  rewrite Hv.
  assert (Hlen : forall j, (j < length acc)%nat -> length (pnth acc j) = n).
  { intros j Hj. rewrite Forall_forall in Hacc. apply Hacc. unfold pnth. apply nth_In. auto. }
  rewrite (map2_padd_seq n) ; [| exact Hacc |].
  - apply map_seq_ext. intros i Hi.
    pose proof (Hlen i Hi) as Hli.
    destruct (Z.eqb_spec a_lo 0) as [Hz|Hnz].
    + (* no permutation of the components *)
      destruct (Z.ltb_spec (Z.of_nat i) a_lo); [lia|].
      replace (i - Z.to_nat a_lo)%nat with i by lia.
      destruct (Z.eqb_spec a_hi 0) as [Hh|Hh].
      * rewrite Hh, zrot_0. pext. lia.
      * pext. lia.
    + destruct Hg as [Hg|[Hg1 Hg2]]; [lia|].
      destruct (Z.ltb_spec (Z.of_nat i) a_lo).
      * destruct (Z.eqb_spec ((a_hi + 1) mod (2 * Z.of_nat n)) 0); [lia|].
        pose proof (Hlen (Z.to_nat (e - a_lo) + i)%nat ltac:(unfold e in *; lia)). pext. lia.
      * destruct (Z.eqb_spec a_hi 0); [lia|].
        pose proof (Hlen (i - Z.to_nat a_lo)%nat ltac:(lia)). pext. lia.
  - intros i Hi. pose proof (Hlen i Hi).
    destruct (Z.eqb a_lo 0); [destruct (Z.eqb a_hi 0); plen|].
    destruct (Z.ltb_spec (Z.of_nat i) a_lo).
    + pose proof (Hlen (Z.to_nat (e - a_lo) + i)%nat ltac:(unfold e in *; lia)). destruct (Z.eqb _ 0); plen.
    + pose proof (Hlen (i - Z.to_nat a_lo)%nat ltac:(lia)). destruct (Z.eqb a_hi 0); plen.
Qed.

(* the repaired contribution has no exception *)
Theorem ext_step_spec_is_rotation (n : nat) (a : Z) (acc : list poly) :
  (0 < n)%nat -> (0 < length acc)%nat -> Forall (fun p => length p = n) acc ->
  map2 padd acc (ext_contrib_spec n a 1 acc) = ext_rot n a acc.
Proof.
  intros Hn He Hacc. unfold ext_contrib_spec, ext_rot. cbv zeta.
  set (e := Z.of_nat (length acc)) in *. set (t := 2 * Z.of_nat n * e).
  set (a_pos := (a + t) mod t) in *. set (a_hi := a_pos / e) in *. set (a_lo := a_pos mod e) in *.
  assert (Hlo : 0 <= a_lo < e) by (apply Z.mod_pos_bound; unfold e; lia).
  assert (Hv : map (pscale 1) acc = acc).
  { rewrite <- (map_id acc) at 2. apply map_ext. intros; apply pscale_1. }
  rewrite Hv.
  assert (Hlen : forall j, (j < length acc)%nat -> length (pnth acc j) = n).
  { intros j Hj. rewrite Forall_forall in Hacc. apply Hacc. unfold pnth. apply nth_In. auto. }
  rewrite (map2_padd_seq n) ; [| exact Hacc |].
  - apply map_seq_ext. intros i Hi. pose proof (Hlen i Hi) as Hli.
    destruct (Z.ltb_spec (Z.of_nat i) a_lo).
    + pose proof (Hlen (Z.to_nat (e - a_lo) + i)%nat ltac:(unfold e in *; lia)). pext. lia.
    + pose proof (Hlen (i - Z.to_nat a_lo)%nat ltac:(lia)). pext. lia.
  - intros i Hi. pose proof (Hlen i Hi).
    destruct (Z.ltb_spec (Z.of_nat i) a_lo).
    + pose proof (Hlen (Z.to_nat (e - a_lo) + i)%nat ltac:(unfold e in *; lia)). plen.
    + pose proof (Hlen (i - Z.to_nat a_lo)%nat ltac:(lia)). plen.
Qed.

(* the statement one wants for the code as it is ... *)
Definition ext_step_is_rotation_full : Prop :=
  forall (n : nat) (a : Z) (acc : list poly),
    (0 < n)%nat -> (0 < length acc)%nat -> Forall (fun p => length p = n) acc ->
    map2 padd acc (ext_contrib n a 1 acc) = ext_rot n a acc.

(* ... is false: N = 2, ext = 2, a = 1 (ai_hi = 0, ai_lo = 1): the second component is not updated *)
Theorem ext_step_is_rotation_refuted :
  exists (n : nat) (a : Z) (acc : list poly),
    (0 < n)%nat /\ (0 < length acc)%nat /\ Forall (fun p => length p = n) acc /\
    map2 padd acc (ext_contrib n a 1 acc) <> ext_rot n a acc.
Proof.
  exists 2%nat, 1, [[1; 2]; [3; 4]]. repeat split; try (cbn; lia).
  - repeat constructor.
  - vm_compute. discriminate.
Qed.

(* end to end on the executable model: table (5,7 | 6,8 interleaved = 5,6,7,8), one block of one coefficient a = -1
   (ai_hi = 2N-1, ai_lo = 1), s = 1, b = 0: component 0 should be that of Y^-1 * (5,6,7,8) = (6,7,8,-5), i.e. (6, 8);
   the code's loop leaves (5, 7) *)
Theorem cggi_extended_refuted :
  exists (n block : nat) (b : Z) (av sv : list Z) (lutp : list poly),
    nth 0 (cggi_extended n block b av sv lutp) [] <> nth 0 (ext_rot n (b + dotp (combine av sv)) lutp) [].
Proof.
  exists 2%nat, 1%nat, 0, [-1], [1], [[5; 7]; [6; 8]]. vm_compute. discriminate.
Qed.
