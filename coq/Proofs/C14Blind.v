(* C14: the CGGI accumulator loops rotate the table by X^(b + sum a_i s_i). *)
From PV Require Import Base.MachineInt Model.Znx Model.Limbs Model.Ring Model.C14Lut Model.C14Blind.
From PV Require Import Model.Poly Model.C14Spec.
From PV Require Import Proofs.C09Lists Proofs.C09Ring Proofs.C14Rotate Proofs.C14Poly Proofs.C14Approx.
Open Scope Z_scope.

(* ================================================================== noise-free phase models ===== *)
(* the executable standard loop of Model/C14Blind.v *)
Fixpoint dotp (l : list (Z * Z)) : Z := match l with [] => 0 | q :: t => fst q * snd q + dotp t end.
Definition binaryl (l : list (Z * Z)) : Prop := Forall (fun q => snd q = 0 \/ snd q = 1) l.

Lemma cggi_step_rot s a acc : s = 0 \/ s = 1 -> cggi_step s a acc = zrot (a * s) acc.
Proof.
  intros [->| ->]; unfold cggi_step.
  - cbn [Z.eqb]. rewrite Z.mul_0_r, zrot_0. reflexivity.
  - cbn [Z.eqb]. rewrite pscale_1, Z.mul_1_r. pext. lia.
Qed.

Theorem cggi_standard_rot (b : Z) (av sv : list Z) (lut0 : poly) :
  binaryl (combine av sv) ->
  cggi_standard b av sv lut0 = zrot (b + dotp (combine av sv)) lut0.
Proof.
  unfold cggi_standard. generalize (combine av sv) as l. intros l.
  replace (b + dotp l) with (dotp l + b) by ring. rewrite <- zrot_compose.
  generalize (zrot b lut0) as acc. induction l as [|q t IH]; intros acc Hb.
  - cbn [fold_left dotp]. rewrite zrot_0. reflexivity.
  - inversion Hb as [|? ? Hq Ht]; subst. cbn [fold_left dotp].
    rewrite IH by exact Ht. rewrite cggi_step_rot by exact Hq.
    rewrite zrot_compose. f_equal. lia.
Qed.

(* ---- block-binary ---- *)
Inductive at_most_one : list (Z * Z) -> Prop :=
| amo_nil : at_most_one []
| amo_zero a t : at_most_one t -> at_most_one ((a, 0) :: t)
| amo_one a t : Forall (fun q => snd q = 0) t -> at_most_one ((a, 1) :: t).

Lemma fold_padd_nth (l : list poly) (acc : poly) (n : nat) (i : nat) :
  length acc = n -> Forall (fun x => length x = n) l -> (i < n)%nat ->
  nthZ (fold_left padd l acc) i = nthZ acc i + fold_right (fun x r => nthZ x i + r) 0 l /\
  length (fold_left padd l acc) = n.
Proof.
  revert acc. induction l as [|x t IH]; intros acc Ha Hl Hi; cbn [fold_left fold_right].
  - split; [lia | exact Ha].
  - inversion Hl as [|? ? Hx Ht]; subst.
    destruct (IH (padd acc x) ltac:(plen) Ht Hi) as [H1 H2]. split; [|exact H2].
    rewrite H1. rewrite padd_nth by lia. lia.
Qed.

Lemma all_zero_block_sum (n : nat) (two_n : Z) (acc : poly) (t : list (Z * Z)) (i : nat) :
  Forall (fun q => snd q = 0) t ->
  fold_right (fun x r => nthZ x i + r) 0
    (map (fun q : Z * Z => if snd q =? 0 then zeros n else xp_minus_one ((fst q + two_n) mod two_n) (pscale (snd q) acc)) t) = 0.
Proof.
  induction t as [|q t IH]; intros H; cbn [map fold_right]; [reflexivity|].
  inversion H as [|? ? Hq Ht]; subst. rewrite Hq. cbn [Z.eqb]. rewrite IH by exact Ht.
  assert (Hz : nthZ (zeros n) i = 0).
  { unfold zeros, nthZ. clear. revert i. induction n; intros [|i]; cbn [repeat nth]; auto. }
  lia.
Qed.

Lemma block_map_lengths (n : nat) (two_n : Z) (acc : poly) (blk : list (Z * Z)) :
  length acc = n ->
  Forall (fun x => length x = n)
    (map (fun q : Z * Z => if snd q =? 0 then zeros n else xp_minus_one ((fst q + two_n) mod two_n) (pscale (snd q) acc)) blk).
Proof.
  intros Ha. apply Forall_forall. intros y Hy. apply in_map_iff in Hy. destruct Hy as [q [<- _]].
  destruct (_ =? _); plen.
Qed.

Lemma cggi_block_step_rot (n : nat) (blk : list (Z * Z)) (acc : poly) :
  (0 < n)%nat -> length acc = n -> at_most_one blk ->
  cggi_block_step n blk acc = zrot (dotp blk) acc.
Proof.
  intros Hn Ha Hamo. unfold cggi_block_step. cbv zeta.
  set (two_n := 2 * Z.of_nat n).
  apply nthZ_ext.
  { unfold psum. destruct (fold_padd_nth _ (zeros n) n 0 (len_zeros n) (block_map_lengths n two_n acc blk Ha) Hn) as [_ HL].
    rewrite len_padd, HL, zrot_length. lia. }
  intros i Hi.
  assert (Hin : (i < n)%nat).
  { unfold psum in Hi. destruct (fold_padd_nth _ (zeros n) n 0 (len_zeros n) (block_map_lengths n two_n acc blk Ha) Hn) as [_ HL].
    rewrite len_padd, HL in Hi. lia. }
  unfold psum.
  destruct (fold_padd_nth _ (zeros n) n i (len_zeros n) (block_map_lengths n two_n acc blk Ha) Hin) as [HS HL].
  rewrite padd_nth by lia. rewrite HS.
  assert (Hz : nthZ (zeros n) i = 0).
  { unfold zeros, nthZ. clear. revert i. induction n; intros [|i]; cbn [repeat nth]; auto. }
  rewrite Hz. clear HS HL Hi.
  induction Hamo as [|a t Ht IH|a t Ht].
  - cbn [map fold_right dotp]. rewrite zrot_0. lia.
  - cbn [map fold_right dotp fst snd Z.eqb]. rewrite Hz.
    replace (a * 0 + dotp t) with (dotp t) by lia. lia.
  - cbn [map fold_right dotp fst snd Z.eqb].
    rewrite all_zero_block_sum by exact Ht.
    assert (Hd : dotp t = 0).
    { clear -Ht. induction t as [|q t IH]; cbn [dotp]; [reflexivity|]. inversion Ht; subst. rewrite IH by auto. lia. }
    rewrite Hd, pscale_1.
    unfold xp_minus_one. rewrite psub_nth by plen.
    rewrite (zrot_congr ((a + two_n) mod two_n) (a * 1 + 0) acc).
    + lia.
    + rewrite Ha. fold two_n. rewrite Z.mod_mod by (unfold two_n; lia).
      replace (a + two_n) with (a * 1 + 0 + 1 * two_n) by ring. apply Z.mod_add. unfold two_n; lia.
Qed.

Lemma dotp_app l1 l2 : dotp (l1 ++ l2) = dotp l1 + dotp l2.
Proof. induction l1 as [|q t IH]; cbn [app dotp]; [lia|]. rewrite IH. lia. Qed.

Theorem cggi_block_rot (n block : nat) (b : Z) (av sv : list Z) (lut0 : poly) :
  (0 < n)%nat -> length lut0 = n ->
  Forall at_most_one (chunks block (combine av sv)) ->
  cggi_block n block b av sv lut0 = zrot (b + dotp (concat (chunks block (combine av sv)))) lut0.
Proof.
  intros Hn Hl. unfold cggi_block. generalize (chunks block (combine av sv)) as cs. intros cs Hall.
  assert (Hgen : forall acc, length acc = n ->
            fold_left (fun acc blk => cggi_block_step n blk acc) cs acc = zrot (dotp (concat cs)) acc).
  { induction cs as [|blk t IH]; intros acc Ha.
    - cbn [fold_left concat dotp]. rewrite zrot_0. reflexivity.
    - inversion Hall as [|? ? Hb Ht]; subst. cbn [fold_left concat].
      rewrite cggi_block_step_rot by auto. rewrite IH by (auto; plen).
      rewrite zrot_compose, dotp_app. f_equal. lia. }
  rewrite Hgen by plen. rewrite zrot_compose. f_equal. lia.
Qed.

(* when the block size divides the number of coefficients, the chunks cover every coefficient *)
Lemma chunks_exact_concat {A} (fuel bs : nat) (l : list A) (k : nat) :
  (0 < bs)%nat -> length l = (k * bs)%nat -> (k <= fuel)%nat -> concat (chunks_exact fuel bs l) = l.
Proof.
  intros Hbs. revert l k. induction fuel as [|f IH]; intros l k Hl Hk.
  - assert (k = 0%nat) by lia. subst. destruct l; [reflexivity|discriminate].
  - cbn [chunks_exact]. destruct k as [|k].
    + destruct l; [|discriminate]. cbn [length]. destruct (Nat.leb_spec bs 0); [lia|reflexivity].
    + destruct (Nat.leb_spec bs (length l)); [|nia].
      cbn [concat]. rewrite (IH (skipn bs l) k) by (rewrite ?skipn_length; nia).
      apply firstn_skipn.
Qed.
Lemma chunks_concat {A} (bs : nat) (l : list A) (k : nat) :
  (0 < bs)%nat -> length l = (k * bs)%nat -> concat (chunks bs l) = l.
Proof. intros Hbs Hl. unfold chunks. apply (chunks_exact_concat _ bs l k); auto. nia. Qed.

(* ================================================================== extended variant ===== *)
(* what one selected coefficient should do to the ext components: the big-ring product Y^a * acc, Y^ext = X *)
Definition ext_rot (n : nat) (a : Z) (acc : list poly) : list poly :=
  let e := Z.of_nat (length acc) in
  let t := 2 * Z.of_nat n * e in
  let a_pos := (a + t) mod t in
  let a_hi := a_pos / e in let a_lo := a_pos mod e in
  map (fun i : nat =>
         if Z.of_nat i <? a_lo then zrot (a_hi + 1) (pnth acc (Z.to_nat (e - a_lo) + i))
         else zrot a_hi (pnth acc (i - Z.to_nat a_lo)))
      (seq 0 (length acc)).

Definition shaped (n : nat) (acc : list poly) : Prop := Forall (fun p : poly => length p = n) acc.

Lemma shaped_nth n acc j : shaped n acc -> (j < length acc)%nat -> length (pnth acc j) = n.
Proof. intros H Hj. unfold shaped in H. rewrite Forall_forall in H. apply H. unfold pnth. apply nth_In. auto. Qed.

Lemma ext_rot_length n a acc : length (ext_rot n a acc) = length acc.
Proof. unfold ext_rot. cbv zeta. apply map_seq_length. Qed.

Lemma ext_rot_shaped n a acc : (0 < length acc)%nat -> shaped n acc -> shaped n (ext_rot n a acc).
Proof.
  intros He Hs. unfold ext_rot. cbv zeta.
  set (e := Z.of_nat (length acc)). set (t := 2 * Z.of_nat n * e). set (a_pos := (a + t) mod t).
  assert (Hlo : 0 <= a_pos mod e < e) by (apply Z.mod_pos_bound; unfold e; lia).
  apply Forall_forall. intros p Hp. apply in_map_iff in Hp. destruct Hp as [i [<- Hi]]. apply in_seq in Hi.
  destruct (Z.ltb_spec (Z.of_nat i) (a_pos mod e)); rewrite zrot_length; apply shaped_nth; auto; unfold e in *; lia.
Qed.

Lemma map2_padd_seq (acc : list poly) (g : nat -> poly) :
  map2 padd acc (map g (seq 0 (length acc))) = map (fun i => padd (pnth acc i) (g i)) (seq 0 (length acc)).
Proof.
  assert (HL : length (map2 padd acc (map g (seq 0 (length acc)))) = length acc).
  { unfold map2. rewrite map_length, combine_length, map_length, seq_length. lia. }
  apply (nth_ext _ _ [] []).
  - transitivity (length acc); [exact HL | rewrite map_length, seq_length; reflexivity].
  - intros i Hi0. pose proof (eq_ind _ (fun z => (i < z)%nat) Hi0 _ HL) as Hi. cbv beta in Hi.
    rewrite nth_map_seq by auto. unfold map2.
    set (h := fun p : poly * poly => padd (fst p) (snd p)).
    rewrite (nth_indep _ [] (h ([], []))) by (rewrite map_length, combine_length, map_length, seq_length; lia).
    rewrite (map_nth h). rewrite combine_nth by (rewrite map_length, seq_length; reflexivity).
    rewrite nth_map_seq by auto. reflexivity.
Qed.

(* one selected coefficient (s = 1): the code adds exactly (Y^a - 1) * acc, for EVERY a *)
Theorem ext_step_is_rotation (n : nat) (a : Z) (acc : list poly) :
  (0 < n)%nat -> (0 < length acc)%nat -> shaped n acc ->
  map2 padd acc (ext_contrib n a 1 acc) = ext_rot n a acc.
Proof.
  intros Hn He Hacc. unfold ext_contrib, ext_rot. cbv zeta.
  set (e := Z.of_nat (length acc)) in *.
  replace (2 * Z.of_nat n * e) with (2 * Z.of_nat n * e) by reflexivity.
  set (t := 2 * Z.of_nat n * e).
  set (a_pos := (a + t) mod t) in *. set (a_hi := a_pos / e) in *. set (a_lo := a_pos mod e) in *.
  assert (Hlo : 0 <= a_lo < e) by (apply Z.mod_pos_bound; unfold e; lia).
  assert (Hv : map (pscale 1) acc = acc).
  { rewrite <- (map_id acc) at 2. apply map_ext. intros; apply pscale_1. }
  rewrite Hv. rewrite map2_padd_seq.
  apply map_seq_ext. intros i Hi.
  pose proof (shaped_nth n acc i Hacc Hi) as Hli.
  destruct (Z.eqb_spec a_lo 0) as [Hz|Hnz].
  - destruct (Z.ltb_spec (Z.of_nat i) a_lo); [lia|].
    replace (i - Z.to_nat a_lo)%nat with i by lia.
    destruct (Z.eqb_spec a_hi 0) as [Hh|Hh].
    + rewrite Hh, zrot_0. pext. lia.
    + pext. lia.
  - destruct (Z.ltb_spec (Z.of_nat i) a_lo).
    + pose proof (shaped_nth n acc (Z.to_nat (e - a_lo) + i)%nat Hacc ltac:(unfold e in *; lia)) as Hlj.
      rewrite (zrot_congr ((a_hi + 1) mod (2 * Z.of_nat n)) (a_hi + 1)) by (rewrite Hlj; apply Z.mod_mod; lia).
      pext. lia.
    + pose proof (shaped_nth n acc (i - Z.to_nat a_lo)%nat Hacc ltac:(lia)). pext. lia.
Qed.

(* ---- the ext components are the big-ring polynomial, and ext_rot is multiplication by Y^a there ---- *)
Definition zbig (n : nat) (acc : list poly) : poly := interleave (n * length acc) acc.

Lemma zext_interleave (n : nat) (parts : list (list Z)) (q : Z) (r : nat) :
  (0 < n)%nat -> (r < length parts)%nat -> Forall (fun p : list Z => length p = n) parts ->
  zext (interleave (n * length parts) parts) (q * Z.of_nat (length parts) + Z.of_nat r) = zext (nth r parts []) q.
Proof.
  intros Hn Hr Hall. set (e := length parts) in *.
  assert (Hlen : length (nth r parts []) = n).
  { rewrite Forall_forall in Hall. apply Hall. apply nth_In. exact Hr. }
  destruct (exp_decomp (Z.of_nat n) q ltac:(lia)) as [q1 [c [Hq Hc]]].
  rewrite (zext_at_nat (nth r parts []) q q1 c) by (rewrite Hlen; lia).
  rewrite (zext_at_nat (interleave (n * e) parts) _ q1 (c * e + r)).
  - rewrite interleave_nth by nia. fold e.
    destruct (nat_divmod_lin c e r Hr) as [Hm Hd]. rewrite Hm, Hd. reflexivity.
  - rewrite interleave_length. rewrite Hq. rewrite !Nat2Z.inj_add, !Nat2Z.inj_mul. ring.
  - rewrite interleave_length. nia.
Qed.

Lemma sub_mod_pos (u a t : Z) : 0 < t -> (u - a) mod t = (u - (a + t) mod t) mod t.
Proof.
  intros Ht. rewrite (Zminus_mod u ((a + t) mod t)), Z.mod_mod by lia.
  replace (a + t) with (a + 1 * t) by ring. rewrite Z.mod_add by lia. rewrite <- Zminus_mod. reflexivity.
Qed.

Theorem zbig_ext_rot (n : nat) (a : Z) (acc : list poly) :
  (0 < n)%nat -> (0 < length acc)%nat -> shaped n acc ->
  zbig n (ext_rot n a acc) = zrot a (zbig n acc).
Proof.
  intros Hn He Hacc. unfold zbig. rewrite ext_rot_length.
  assert (Hbl : length (interleave (n * length acc) acc) = (n * length acc)%nat) by apply interleave_length.
  apply nthZ_ext; [rewrite zrot_length, !interleave_length; reflexivity|].
  intros u Hu. rewrite interleave_length in Hu.
  rewrite zrot_nth by (rewrite Hbl; auto).
  rewrite interleave_nth by auto. rewrite ext_rot_length.
  unfold ext_rot. cbv zeta.
  set (e := length acc) in *. set (E := Z.of_nat e).
  set (t := 2 * Z.of_nat n * E).
  assert (HT : 0 < t) by (unfold t, E; nia).
  set (a_pos := (a + t) mod t).
  assert (Hcong : (Z.of_nat u - a) mod (2 * Z.of_nat (length (interleave (n * e) acc)))
                = (Z.of_nat u - a_pos) mod (2 * Z.of_nat (length (interleave (n * e) acc)))).
  { rewrite Hbl. replace (2 * Z.of_nat (n * e)) with t by (unfold t, E; rewrite Nat2Z.inj_mul; ring).
    unfold a_pos. apply sub_mod_pos. exact HT. }
  clearbody a_pos. clear HT. clearbody t.
  set (a_hi := a_pos / E). set (a_lo := a_pos mod E).
  assert (Hlo : 0 <= a_lo < E) by (apply Z.mod_pos_bound; unfold E; lia).
  assert (Hsp : a_pos = a_hi * E + a_lo) by (unfold a_hi, a_lo; pose proof (Z.div_mod a_pos E ltac:(unfold E; lia)); lia).
  clearbody a_hi a_lo.
  set (i := (u mod e)%nat). set (tt := (u / e)%nat).
  assert (Hi : (i < e)%nat) by (apply Nat.mod_upper_bound; lia).
  assert (Ht : (tt < n)%nat) by (apply Nat.div_lt_upper_bound; lia).
  assert (Hutz : Z.of_nat u = Z.of_nat tt * E + Z.of_nat i).
  { pose proof (Nat.div_mod u e ltac:(lia)). unfold tt, i, E. lia. }
  clearbody i tt.
  rewrite (zext_congr _ _ (Z.of_nat u - a_pos)) by (first [exact Hcong | rewrite Hbl; nia]).
  rewrite nth_map_seq by auto.
  destruct (Z.ltb_spec (Z.of_nat i) a_lo).
  - set (j := (Z.to_nat (E - a_lo) + i)%nat).
    assert (Hj : (j < e)%nat) by (unfold j, E in *; lia).
    assert (Hjz : Z.of_nat j = E - a_lo + Z.of_nat i) by (unfold j; lia).
    clearbody j.
    rewrite zrot_nth by (rewrite (shaped_nth n acc j Hacc Hj); exact Ht).
    replace (Z.of_nat u - a_pos) with ((Z.of_nat tt - (a_hi + 1)) * Z.of_nat (length acc) + Z.of_nat j)
      by (fold e E; lia).
    unfold e in *. rewrite zext_interleave by auto. reflexivity.
  - set (j := (i - Z.to_nat a_lo)%nat).
    assert (Hj : (j < e)%nat) by (unfold j; lia).
    assert (Hjz : Z.of_nat j = Z.of_nat i - a_lo) by (unfold j; lia).
    clearbody j.
    rewrite zrot_nth by (rewrite (shaped_nth n acc j Hacc Hj); exact Ht).
    replace (Z.of_nat u - a_pos) with ((Z.of_nat tt - a_hi) * Z.of_nat (length acc) + Z.of_nat j)
      by (fold e E; lia).
    unfold e in *. rewrite zext_interleave by auto. reflexivity.
Qed.

(* ---- one block: at most one selected coefficient ---- *)
Lemma ext_block_zero (n : nat) (t : list (Z * Z)) (acc cur : list poly) :
  Forall (fun q => snd q = 0) t ->
  fold_left (fun (cur : list poly) (q : Z * Z) =>
               if snd q =? 0 then cur else map2 padd cur (ext_contrib n (fst q) (snd q) acc)) t cur = cur.
Proof.
  revert cur. induction t as [|q t IH]; intros cur H; cbn [fold_left]; [reflexivity|].
  inversion H as [|? ? Hq Ht]; subst. rewrite Hq. cbn [Z.eqb]. apply IH. exact Ht.
Qed.

Lemma ext_block_step_rot (n : nat) (blk : list (Z * Z)) (acc : list poly) :
  (0 < n)%nat -> (0 < length acc)%nat -> shaped n acc -> at_most_one blk ->
  length (ext_block_step n blk acc) = length acc /\ shaped n (ext_block_step n blk acc) /\
  zbig n (ext_block_step n blk acc) = zrot (dotp blk) (zbig n acc).
Proof.
  intros Hn He Hacc Hamo. unfold ext_block_step.
  induction Hamo as [|a t Ht IH|a t Ht].
  - cbn [fold_left dotp]. rewrite zrot_0. auto.
  - cbn [fold_left fst snd Z.eqb dotp]. replace (a * 0 + dotp t) with (dotp t) by lia. exact IH.
  - cbn [fold_left fst snd Z.eqb dotp]. rewrite ext_block_zero by exact Ht.
    assert (Hd : dotp t = 0).
    { clear -Ht. induction t as [|q t IH]; cbn [dotp]; [reflexivity|]. inversion Ht; subst. rewrite IH by auto. lia. }
    rewrite Hd. replace (a * 1 + 0) with a by lia.
    rewrite ext_step_is_rotation by auto.
    split; [apply ext_rot_length|]. split; [apply ext_rot_shaped; auto|]. apply zbig_ext_rot; auto.
Qed.

Lemma ext_init_is_rot n b lutp : ext_init n b lutp = ext_rot n b lutp.
Proof. reflexivity. Qed.

(* ---- the whole loop: the accumulator is Y^(b + sum a_i s_i) * table in the big ring ---- *)
Theorem cggi_extended_rot (n block : nat) (b : Z) (av sv : list Z) (lutp : list poly) :
  (0 < n)%nat -> (0 < length lutp)%nat -> shaped n lutp ->
  Forall at_most_one (chunks block (combine av sv)) ->
  length (cggi_extended n block b av sv lutp) = length lutp /\
  zbig n (cggi_extended n block b av sv lutp) = zrot (b + dotp (concat (chunks block (combine av sv)))) (zbig n lutp).
Proof.
  intros Hn He Hs. unfold cggi_extended. generalize (chunks block (combine av sv)) as cs. intros cs Hall.
  assert (Hgen : forall acc, (0 < length acc)%nat -> shaped n acc ->
            length (fold_left (fun acc blk => ext_block_step n blk acc) cs acc) = length acc /\
            zbig n (fold_left (fun acc blk => ext_block_step n blk acc) cs acc) = zrot (dotp (concat cs)) (zbig n acc)).
  { induction cs as [|blk t IH]; intros acc Ha Hsa.
    - cbn [fold_left concat dotp]. rewrite zrot_0. auto.
    - inversion Hall as [|? ? Hb Ht]; subst. cbn [fold_left concat].
      destruct (ext_block_step_rot n blk acc Hn Ha Hsa Hb) as [H1 [H2 H3]].
      destruct (IH Ht (ext_block_step n blk acc) ltac:(rewrite H1; auto) H2) as [H4 H5].
      split; [rewrite H4; exact H1|]. rewrite H5, H3, zrot_compose, dotp_app. f_equal. lia. }
  rewrite ext_init_is_rot.
  destruct (Hgen (ext_rot n b lutp) ltac:(rewrite ext_rot_length; auto) (ext_rot_shaped n b lutp He Hs)) as [H1 H2].
  split; [rewrite H1; apply ext_rot_length|].
  rewrite H2, zbig_ext_rot by auto. rewrite zrot_compose. f_equal. lia.
Qed.

(* the result of execute_block_binary_extended is component 0: its coefficient u is big-ring coefficient u * ext *)
Theorem cggi_extended_result (n block : nat) (b : Z) (av sv : list Z) (lutp : list poly) (u : nat) :
  (0 < n)%nat -> (0 < length lutp)%nat -> shaped n lutp ->
  Forall at_most_one (chunks block (combine av sv)) -> (u < n)%nat ->
  nthZ (nth 0 (cggi_extended n block b av sv lutp) []) u
  = nthZ (zrot (b + dotp (concat (chunks block (combine av sv)))) (zbig n lutp)) (u * length lutp).
Proof.
  intros Hn He Hs Hall Hu.
  destruct (cggi_extended_rot n block b av sv lutp Hn He Hs Hall) as [HL HZ].
  rewrite <- HZ. unfold zbig. unfold poly in *. rewrite HL.
  rewrite interleave_nth by nia. rewrite HL.
  rewrite Nat.mod_mul, Nat.div_mul by lia. reflexivity.
Qed.
