(* C17 - every history of the harness that goes through checked constructors / resizers / the (repaired) reader leaves a
   well-formed object; the only exception is from_data of the layouts that still do not validate their buffer. *)
From PV Require Import Base.MachineInt Model.C12Scratch Model.C17Mem Model.C17Run Proofs.C17Bounds.
Open Scope Z_scope.

Lemma plain_inv (n cols size w : Z) :
  0 <= n -> 0 <= cols -> 0 <= size -> 0 < w ->
  wf_v (mkV n cols size size (n * (cols * size) * w) w) /\ Inv (mkV n cols size size (n * (cols * size) * w) w).
Proof.
  intros Hn Hc Hs Hw. unfold wf_v, Inv; cbn.
  assert (0 <= n * (cols * size) * w) by nia. repeat split; try lia; nia.
Qed.

Lemma grow_inv (rc : vhdr) (h : stream_hdr) (avail : Z) (g : bool) (v : vhdr) :
  wf_v rc -> v_w rc = 8 -> wf_s h -> grow (v_read_from rc h avail) rc g = HOk v -> wf_v v /\ Inv v.
Proof.
  intros Hwf Hw8 Hs. destruct (v_read_from rc h avail) as [|v'] eqn:E; cbn [grow]; [discriminate|].
  destruct (read_from_establishes_inv rc v' h avail Hwf Hw8 Hs E) as (A & B & _).
  destruct g.
  - destruct (v_set_size v' (v_max v')) as [g'|] eqn:Eg; [|discriminate]. intros R; inversion R; subst.
    destruct A as (An & Ac & As & Am & Al & Aw).
    destruct (set_size_preserves_inv v' v (v_max v') (conj An (conj Ac (conj As (conj Am (conj Al Aw))))) B Am Eg) as (C & D & _). auto.
  - intros R; inversion R; subst. auto.
Qed.

Lemma write_hdr_wf (v : vhdr) : wf_v v -> wf_s (v_write_hdr v).
Proof. intros (Hn & Hc & Hs & Hm & _). unfold wf_s, v_write_hdr; cbn. auto. Qed.

Lemma set_field_wf (h : stream_hdr) (k x : Z) : wf_s h -> 0 <= x -> wf_s (set_field h k x).
Proof.
  intros (Hn & Hc & Hs & Hm) Hx. unfold set_field, wf_s.
  destruct (k =? 0); [cbn; auto|]. destruct (k =? 1); [cbn; auto|]. destruct (k =? 2); [cbn; auto|].
  destruct (k =? 3); cbn; auto.
Qed.

Lemma refactor_nonneg (n cols size how : Z) :
  0 <= n -> 0 <= cols -> 0 <= size ->
  let '(n2, c2, s2) := refactor n cols size how in 0 <= n2 /\ 0 <= c2 /\ 0 <= s2.
Proof.
  intros Hn Hc Hs. unfold refactor.
  destruct ((how =? 0) && (2 <=? n)); [repeat split; lia|].
  destruct ((how =? 1) && (cols mod 2 =? 0)); [repeat split; lia|].
  destruct (how =? 2); [repeat split; lia|]. destruct (how =? 3); [repeat split; nia|].
  destruct (how =? 4); repeat split; nia.
Qed.

(* ---- read_from, both outcomes: Err leaves the receiver exactly as it was, Ok leaves it well formed ---- *)
Lemma read_preserves (v : vhdr) (h : stream_hdr) (avail : Z) :
  wf_v v -> Inv v -> v_w v = 8 -> wf_s h ->
  wf_v (apply_read v (v_read_from v h avail)) /\ Inv (apply_read v (v_read_from v h avail)) /\
  v_len (apply_read v (v_read_from v h avail)) = v_len v /\
  (v_read_from v h avail = RErr -> apply_read v (v_read_from v h avail) = v).
Proof.
  intros Hwf HI Hw8 Hs. destruct (v_read_from v h avail) as [|v'] eqn:E; cbn [apply_read].
  - split; [exact Hwf|]. split; [exact HI|]. split; reflexivity.
  - destruct (read_from_establishes_inv v v' h avail Hwf Hw8 Hs E) as (A & B & C & _).
    split; [exact A|]. split; [exact B|]. split; [exact C|discriminate].
Qed.

Lemma m_read_preserves (m : mhdr) (n size rows cin cout len avail : Z) :
  InvM m -> m_w m = 8 ->
  InvM (m_apply_read m (m_read_from m n size rows cin cout len avail)) /\
  m_len (m_apply_read m (m_read_from m n size rows cin cout len avail)) = m_len m /\
  (m_read_from m n size rows cin cout len avail = None -> m_apply_read m (m_read_from m n size rows cin cout len avail) = m).
Proof.
  intros HI Hw8. destruct (m_read_from m n size rows cin cout len avail) as [m'|] eqn:E; cbn [m_apply_read].
  - destruct (mat_read_from_inv m m' n size rows cin cout len avail Hw8 E) as (A & B).
    split; [exact A|]. split; [exact B|discriminate].
  - split; [exact HI|]. split; reflexivity.
Qed.

(* the seeded faulty reader (seeded/C17d): MatZnx::read_from assigns the five shape fields after the header consistency
   check but BEFORE the buffer-length check; result = the receiver after the call, whatever it returned *)
Definition m_read_from_commit_early (m : mhdr) (n size rows cin cout len : Z) : mhdr :=
  let expected := rows * cin * n * cout * size * 8 in
  if (U64 <=? expected) || negb (expected =? len) then m else mkM n rows cin cout size (m_len m) (m_w m).
Lemma read_commit_early_refuted :
  exists m n size rows cin cout len,
    wf_m m /\ InvM m /\ m_w m = 8 /\ m_read_from m n size rows cin cout len len = None /\
    ~ InvM (m_read_from_commit_early m n size rows cin cout len).
Proof.
  exists (m_alloc 16 2 1 2 2 8), 16, 3, 2, 1, 2, (2 * 1 * 16 * 2 * 3 * 8).
  split; [unfold wf_m, m_alloc, round64, m_bytes_of; cbn; lia|].
  split; [unfold InvM, m_alloc, round64, m_bytes_of; cbn; lia|].
  split; [reflexivity|]. split; [vm_compute; reflexivity|].
  unfold InvM, m_read_from_commit_early, m_alloc, round64, m_bytes_of; cbn. lia.
Qed.

Lemma bump3_nonneg (n cols size how : Z) : 0 <= n -> 0 <= cols -> 0 <= size ->
  let '(n2, c2, s2) := bump3 n cols size how in 0 <= n2 /\ 0 <= c2 /\ 0 <= s2.
Proof. intros. unfold bump3. destruct (how =? 0); [repeat split; lia|]. destruct (how =? 1); repeat split; lia. Qed.

Lemma read_larger_inv (rc : vhdr) (how : Z) :
  wf_v rc -> Inv rc -> v_w rc = 8 -> wf_v (read_larger rc how) /\ Inv (read_larger rc how) /\ v_len (read_larger rc how) = v_len rc.
Proof.
  intros Hwf HI Hw8. unfold read_larger.
  pose proof Hwf as (Hn & Hc & Hs & _).
  pose proof (bump3_nonneg (v_n rc) (v_cols rc) (v_size rc) how Hn Hc Hs) as Hb.
  destruct (bump3 (v_n rc) (v_cols rc) (v_size rc) how) as [[n2 c2] s2]. destruct Hb as (B1 & B2 & B3).
  destruct (read_preserves rc (mkS n2 c2 s2 s2 (n2 * c2 * s2 * 8)) (n2 * c2 * s2 * 8) Hwf HI Hw8) as (A & B & C & _).
  { unfold wf_s; cbn. auto. }
  auto.
Qed.

Lemma m_read_larger_inv (m : mhdr) (how : Z) :
  InvM m -> m_w m = 8 -> InvM (m_read_larger m how) /\ m_len (m_read_larger m how) = m_len m.
Proof.
  intros HI Hw8. unfold m_read_larger.
  destruct (bump5 (m_n m) (m_size m) (m_rows m) (m_cin m) (m_cout m) how) as [[[[n2 s2] r2] ci2] co2].
  destruct (m_read_preserves m n2 s2 r2 ci2 co2 (r2 * ci2 * n2 * co2 * s2 * 8) (r2 * ci2 * n2 * co2 * s2 * 8) HI Hw8) as (A & B & _). auto.
Qed.

(* all histories: fresh view, shrink, reallocate, write/read with any capacities, corrupted header, grown to max_size,
   carved, shifted, header refactored, other ring degree, the rejected read of a larger object (13), and from_data of a
   layout that validates (chk) *)
Lemma histories_inv (vec chk ser : bool) (n cols size w hist hp1 hp2 : Z) (v : vhdr) :
  0 <= n -> 0 <= cols -> 0 <= size -> 0 < w -> 0 <= hp1 -> 0 <= hp2 ->
  (hist = 9 -> chk = true) ->
  hist_hdr vec chk ser n cols size w (cols * size) hist hp1 hp2 = HOk v -> wf_v v /\ Inv v.
Proof.
  intros Hn Hc Hs Hw H1 H2 H9. unfold hist_hdr.
  destruct (Z.eqb_spec hist 0); [intros E; inversion E; subst; apply plain_inv; assumption|].
  destruct (Z.eqb_spec hist 1).
  { intros E; inversion E; subst. unfold wf_v, Inv; cbn.
    assert (0 <= n * cols) by nia.
    assert (n * cols * size * w <= n * cols * (size + hp1) * w) by nia.
    assert (0 <= n * cols * (size + hp1) * w) by nia. repeat split; lia. }
  destruct ((hist =? 7) || (hist =? 8)); [intros E; inversion E; subst; apply plain_inv; assumption|].
  destruct (Z.eqb_spec hist 9).
  { rewrite (H9 e). destruct (v_from_data_checked (Z.max 0 (n * (cols * size) * w - 8 * hp1)) n cols size w) as [v0|] eqn:E0; [|discriminate].
    intros E; inversion E; subst.
    apply (from_data_checked_inv (Z.max 0 (n * (cols * size) * w - 8 * hp1)) n cols size w v); try assumption. lia. }
  destruct (Z.eqb_spec hist 11).
  { intros E; inversion E; subst. destruct (hp1 =? 0); apply plain_inv; try assumption; lia. }
  destruct (Z.eqb_spec hist 13).
  { destruct ser; [|discriminate]. intros E; inversion E; subst.
    destruct (alloc_inv n cols size 8 Hn Hc Hs ltac:(lia)) as (A & B).
    destruct (read_larger_inv (v_alloc n cols size 8) hp1 A B eq_refl) as (C & D & _). auto. }
  destruct vec; cbn [negb]; [|discriminate].
  destruct (Z.eqb_spec hist 2).
  { intros E; inversion E; subst.
    destruct (alloc_inv n cols hp2 8 Hn Hc H2 ltac:(lia)) as (A & B).
    destruct (realloc_inv (v_alloc n cols hp2 8) size A B Hs) as (C & D & _). auto. }
  destruct ((hist =? 3) || (hist =? 4)).
  { destruct (v_set_size (v_alloc n cols (size + hp1) 8) size) as [wr|] eqn:Ew; [|discriminate].
    destruct (alloc_inv n cols (size + hp1) 8 Hn Hc ltac:(lia) ltac:(lia)) as (A & B).
    destruct (set_size_preserves_inv _ _ _ A B Hs Ew) as (C & _).
    destruct (alloc_inv n cols (size + hp2) 8 Hn Hc ltac:(lia) ltac:(lia)) as (A2 & _).
    apply grow_inv; [exact A2 | reflexivity | apply write_hdr_wf; exact C]. }
  destruct ((hist =? 5) || (hist =? 6)).
  { destruct (alloc_inv n cols size 8 Hn Hc Hs ltac:(lia)) as (A & _).
    apply grow_inv; [exact A | reflexivity |].
    apply set_field_wf; [apply write_hdr_wf; exact A|]. apply Z.mod_pos_bound. unfold U64. lia. }
  destruct (Z.eqb_spec hist 10); [|discriminate].
  pose proof (refactor_nonneg n cols size hp1 Hn Hc Hs) as Hr.
  destruct (refactor n cols size hp1) as [[rn rc] rs].
  destruct (alloc_inv n cols size 8 Hn Hc Hs ltac:(lia)) as (A & _).
  apply grow_inv; [exact A | reflexivity |]. unfold wf_s; cbn. tauto.
Qed.

(* what remains open: from_data of VecZnxBig / VecZnxDft / SvpPPol / MatZnx / VmpPMat / CnvPVec on a short buffer *)
Lemma history_from_data_unchecked_refuted :
  exists n cols size w hp1 v, 0 < w /\ hist_hdr false false false n cols size w (cols * size) 9 hp1 0 = HOk v /\ ~ Inv v.
Proof.
  exists 4, 1, 1, 16, 1, (mkV 4 1 1 1 56 16). split; [lia|]. split; [vm_compute; reflexivity|].
  unfold Inv; cbn. lia.
Qed.
