(* C17 - the histories of the harness that use only checked constructors / resizers leave a well-formed object. *)
From PV Require Import Base.MachineInt Model.C12Scratch Model.C17Mem Model.C17Run Proofs.C17Bounds.
Open Scope Z_scope.

Lemma plain_inv (n cols size w : Z) :
  0 <= n -> 0 <= cols -> 0 <= size -> 0 < w ->
  wf_v (mkV n cols size size (n * (cols * size) * w) w) /\ Inv (mkV n cols size size (n * (cols * size) * w) w).
Proof.
  intros Hn Hc Hs Hw. unfold wf_v, Inv; cbn.
  assert (0 <= n * (cols * size) * w) by nia. repeat split; try lia; nia.
Qed.

Lemma safe_histories_inv (vec : bool) (n cols size w hist hp1 hp2 : Z) (v : vhdr) :
  0 <= n -> 0 <= cols -> 0 <= size -> 0 < w -> 0 <= hp1 -> 0 <= hp2 ->
  hist = 0 \/ hist = 1 \/ hist = 2 \/ hist = 7 \/ hist = 8 ->
  hist_hdr vec n cols size w (cols * size) hist hp1 hp2 = HOk v -> wf_v v /\ Inv v.
Proof.
  intros Hn Hc Hs Hw H1 H2 Hh. unfold hist_hdr.
  destruct Hh as [-> | [-> | [-> | [-> | ->]]]]; cbn [Z.eqb orb].
  - intros E; inversion E; subst. apply plain_inv; assumption.
  - intros E; inversion E; subst. unfold wf_v, Inv; cbn.
    assert (0 <= n * cols) by nia.
    assert (n * cols * size * w <= n * cols * (size + hp1) * w) by nia.
    assert (0 <= n * cols * (size + hp1) * w) by nia. repeat split; lia.
  - destruct vec; cbn [negb]; [|discriminate]. intros E; inversion E; subst.
    destruct (alloc_inv n cols hp2 8 Hn Hc H2 ltac:(lia)) as (A & B).
    destruct (realloc_inv (v_alloc n cols hp2 8) size A B Hs) as (C & D & _). auto.
  - intros E; inversion E; subst. apply plain_inv; assumption.
  - intros E; inversion E; subst. apply plain_inv; assumption.
Qed.

(* deserialisation histories: well formed exactly when the writer's capacity fits the receiver's buffer *)
Lemma deser_history_inv_iff (n cols size hp1 hp2 : Z) (v : vhdr) :
  0 <= n -> 0 <= cols -> 0 <= size -> 0 <= hp1 -> 0 <= hp2 -> n * cols * (size + hp1) * 8 < U64 ->
  hist_hdr true n cols size 8 (cols * size) 3 hp1 hp2 = HOk v ->
  (Inv v <-> n * cols * (size + hp1) * 8 <= round64 (n * cols * (size + hp2) * 8)).
Proof.
  intros Hn Hc Hs H1 H2 Hb. unfold hist_hdr. cbn [Z.eqb orb negb].
  unfold v_set_size, v_alloc; cbn [v_max v_n v_cols v_len v_w v_size].
  destruct (Z.leb_spec size (size + hp1)); [|lia].
  unfold v_write_hdr, v_read_from, grow; cbn [sh_n sh_cols sh_size sh_max sh_len v_n v_cols v_size v_max v_len v_w].
  assert (0 <= n * cols) by nia.
  assert (0 <= n * cols * size * 8 <= n * cols * (size + hp1) * 8) as Hr by nia.
  rewrite Z.mod_small by lia. rewrite Z.eqb_refl. cbn [negb].
  pose proof (round64_ge (bytes_of n cols (size + hp2) 8)) as Hg. unfold bytes_of in *.
  assert (n * cols * size * 8 <= n * cols * (size + hp2) * 8) by nia.
  destruct (Z.ltb_spec (round64 (n * cols * (size + hp2) * 8)) (n * cols * size * 8)); [lia|].
  rewrite Z.ltb_irrefl. intros E; inversion E; subst; clear E. unfold Inv; cbn. split; intros; [tauto | repeat split; lia].
Qed.
