(* C05 — E_trunc: the limbs of the product that cnv_apply_dft does not return, as a theorem (uses product_position). *)
From PV Require Import Base.MachineInt Model.Znx Model.Limbs Model.LimbsBig Model.Flat Model.Ring Model.DftAbs
  Model.C05Cnv Model.C05Spec Model.C05Core.
From PV Require Import Proofs.C07Dft Proofs.C07Ring Proofs.C05Cnv Proofs.C05Core.
From PV Require Proofs.GadgetDecomp.
Open Scope Z_scope.

(* the terms of the exact product (sum_u a_u 2^-(u+1)ab)(sum_v b_v 2^-(v+1)ab) 2^(P+cnv), selected by a condition on (u, v) *)
Definition wterm (P cnv ab : Z) (a b : plimbs) (u v : nat) : list Z :=
  pscale (2 ^ (P + cnv - (zn u + zn v + 2) * ab)) (pmul (lim a u) (lim b v)).
Definition psel (n : nat) (a b : plimbs) (c : nat -> nat -> bool) (t : nat -> nat -> list Z) : list Z :=
  psumf n (fun u => psumf n (fun v => if c u v then t u v else pzero n) (length b)) (length a).
Definition prod_full n P cnv ab a b := psel n a b (fun _ _ => true) (wterm P cnv ab a b).
Definition prod_low n P cnv ab hi a b := psel n a b (fun u v => Nat.ltb (u + v) hi) (wterm P cnv ab a b).
Definition prod_win n P cnv ab hi dsz a b := psel n a b (fun u v => Nat.leb hi (u + v) && Nat.ltb (u + v) (hi + dsz)) (wterm P cnv ab a b).
Definition prod_high n P cnv ab hi dsz a b := psel n a b (fun u v => Nat.leb (hi + dsz) (u + v)) (wterm P cnv ab a b).
(* weight of the dropped pairs *)
Definition dropped_w (P cnv ab : Z) (asz bsz lim0 : nat) : Z :=
  zsum (fun u => zsum (fun v => if Nat.leb lim0 (u + v) then 2 ^ (P + cnv - (zn u + zn v + 2) * ab) else 0) bsz) asz.

Section Trunc.
Variables (n : nat) (P cnv ab : Z) (a b : plimbs).
Hypothesis wa : wfl n a.
Hypothesis wb : wfl n b.

Lemma wterm_length u v : (u < length a)%nat -> length (wterm P cnv ab a b u v) = n.
Proof. intros Hu. unfold wterm. rewrite pscale_length', pmul_length. apply wa; exact Hu. Qed.

Lemma psel_length c : length (psel n a b c (wterm P cnv ab a b)) = n.
Proof.
  unfold psel. apply psumf_length. intros u Hu. apply psumf_length. intros v _.
  destruct (c u v); [apply wterm_length; exact Hu|apply pzero_length].
Qed.

Lemma psel_nth c k : nth k (psel n a b c (wterm P cnv ab a b)) 0 =
  zsum (fun u => zsum (fun v => if c u v then nth k (wterm P cnv ab a b u v) 0 else 0) (length b)) (length a).
Proof.
  unfold psel.
  rewrite psumf_coeff by (intros u Hu; apply psumf_length; intros v _; destruct (c u v); [apply wterm_length; exact Hu|apply pzero_length]).
  apply zsum_ext; intros u Hu.
  rewrite psumf_coeff by (intros v _; destruct (c u v); [apply wterm_length; exact Hu|apply pzero_length]).
  apply zsum_ext; intros v _. destruct (c u v); [reflexivity|apply nth_pzero].
Qed.

(* full product = integer part (pairs with u+v < hi) + the window the convolution returns + the dropped pairs *)
Theorem prod_split hi dsz :
  prod_full n P cnv ab a b = padd (padd (prod_low n P cnv ab hi a b) (prod_win n P cnv ab hi dsz a b)) (prod_high n P cnv ab hi dsz a b).
Proof.
  apply list_eq_nth; [unfold prod_full, prod_low, prod_win, prod_high; rewrite !padd_length, !psel_length; lia|].
  unfold prod_full at 1. rewrite psel_length. intros k Hk.
  unfold prod_full, prod_low, prod_win, prod_high.
  rewrite !nth_padd by (rewrite ?padd_length, !psel_length; lia). rewrite !psel_nth.
  rewrite <- !zsum_add. apply zsum_ext; intros u _. rewrite <- !zsum_add. apply zsum_ext; intros v _.
  destruct (Nat.ltb_spec (u + v) hi); destruct (Nat.leb_spec hi (u + v)); destruct (Nat.ltb_spec (u + v) (hi + dsz));
    destruct (Nat.leb_spec (hi + dsz) (u + v)); cbn [andb]; lia.
Qed.

(* the pairs below the window are multiples of 2^P as soon as lo >= 0 (they vanish on the torus); for cnv < ab there are none *)
Theorem prod_low_integer hi lo : zn hi * ab + lo = cnv - ab -> 0 <= lo -> 0 <= ab -> 0 <= P ->
  prod_low n P cnv ab hi a b =
  pscale (2 ^ P) (psel n a b (fun u v => Nat.ltb (u + v) hi)
                     (fun u v => pscale (2 ^ (cnv - (zn u + zn v + 2) * ab)) (pmul (lim a u) (lim b v)))).
Proof.
  intros Hs Hlo Hab HP. unfold prod_low, psel.
  change (psumf n) with (GadgetSpec.psumf n).
  rewrite GadgetDecomp.pscale_psumf. apply GadgetDecomp.psumf_ext; intros u _.
  rewrite GadgetDecomp.pscale_psumf. apply GadgetDecomp.psumf_ext; intros v _.
  destruct (Nat.ltb_spec (u + v) hi) as [H|H].
  - unfold wterm. change pscale with Gadget.pscale. rewrite GadgetDecomp.pscale_pscale. f_equal.
    rewrite <- Z.pow_add_r by (unfold zn in *; nia). f_equal. lia.
  - symmetry. apply GadgetDecomp.pscale_pzero.
Qed.

(* the dropped pairs: |.| <= n Da Db * (sum of their weights) *)
Theorem prod_high_bound hi dsz Da Db k : 0 <= Da -> 0 <= Db ->
  (forall u i, Z.abs (nth i (lim a u) 0) <= Da) -> (forall v i, Z.abs (nth i (lim b v) 0) <= Db) ->
  P + cnv - (zn (length a) + zn (length b)) * ab >= 0 -> 0 <= ab ->
  Z.abs (nth k (prod_high n P cnv ab hi dsz a b) 0) <= zn n * Da * Db * dropped_w P cnv ab (length a) (length b) (hi + dsz).
Proof.
  intros HDa HDb Ha Hb Hexp Hab. unfold prod_high. rewrite psel_nth. unfold dropped_w.
  rewrite <- zsum_mul_l. apply zsum_abs_le. intros u Hu. rewrite <- zsum_mul_l. apply zsum_abs_le. intros v Hv.
  destruct (Nat.leb (hi + dsz) (u + v)). 2:{ rewrite Z.mul_0_r. apply Z.le_refl. }
  unfold wterm. rewrite nth_pscale, Z.abs_mul.
  assert (Hw : 0 <= 2 ^ (P + cnv - (zn u + zn v + 2) * ab)) by (apply Z.pow_nonneg; lia).
  rewrite (Z.abs_eq _ Hw).
  assert (Hm : Z.abs (nth k (pmul (lim a u) (lim b v)) 0) <= zn n * Da * Db).
  { pose proof (pmul_norm_bound (lim a u) (lim b v) k Da) as B1.
    rewrite wb, wa in B1 by assumption. specialize (B1 eq_refl HDa (Ha u)).
    assert (N1 : norm1 (lim b v) <= zn n * Db).
    { rewrite norm1_zsum, wb by exact Hv. clear -Hb HDb.
      induction n as [|m IH]; [cbn; lia|]. rewrite zsum_S. unfold zn in *. specialize (Hb v m). unfold nthZ in *.
      rewrite Nat2Z.inj_succ, Z.mul_succ_l. lia. }
    nia. }
  nia.
Qed.
End Trunc.

(* the full sum is the product of the two operand values, scaled *)
Theorem prod_full_is_product n P cnv ab Qa Qb (a b : plimbs) : wfl n a -> wfl n b -> 0 <= ab ->
  zn (length a) * ab <= Qa -> zn (length b) * ab <= Qb -> Qa + Qb <= P + cnv ->
  prod_full n P cnv ab a b = pscale (2 ^ (P + cnv - Qa - Qb)) (pmul (pval n Qa ab a) (pval n Qb ab b)).
Proof.
  intros wa wb Hab HQa HQb HP. unfold prod_full, psel, pval.
  change (psumf n) with (GadgetSpec.psumf n). change pscale with Gadget.pscale.
  assert (La : forall u, (u < length a)%nat -> length (Gadget.pscale (2 ^ (Qa - (zn u + 1) * ab)) (lim a u)) = n)
    by (intros u Hu; rewrite GadgetDecomp.pscale_length; apply wa; exact Hu).
  assert (Lb : forall v, (v < length b)%nat -> length (Gadget.pscale (2 ^ (Qb - (zn v + 1) * ab)) (lim b v)) = n)
    by (intros v Hv; rewrite GadgetDecomp.pscale_length; apply wb; exact Hv).
  rewrite GadgetDecomp.pmul_psumf_r by (try exact La; apply GadgetDecomp.psumf_length; exact Lb).
  rewrite GadgetDecomp.pscale_psumf. apply GadgetDecomp.psumf_ext; intros u Hu.
  rewrite GadgetDecomp.pmul_psumf_l by (try exact Lb; apply La; exact Hu).
  rewrite GadgetDecomp.pscale_psumf. apply GadgetDecomp.psumf_ext; intros v Hv.
  unfold wterm. change pscale with Gadget.pscale.
  rewrite GadgetDecomp.pscale_pmul_l, GadgetDecomp.pscale_pmul_r, !GadgetDecomp.pscale_pscale. f_equal.
  assert (zn u + 1 <= zn (length a)) by (unfold zn; lia). assert (zn v + 1 <= zn (length b)) by (unfold zn; lia).
  rewrite <- !Z.pow_add_r by nia. f_equal. lia.
Qed.

(* E_trunc: what cnv_apply_dft returns (read at scale P + lo) is the exact product of the operand values at scale 2^(P+cnv),
   minus a multiple of 2^P, minus the dropped pairs, whose size is bounded by their total weight *)
Theorem convolution_truncation fft n dsz hi P ab lo cnv Qa Qb (a b : plimbs) Da Db :
  wfl n a -> wfl n b -> (1 <= length a)%nat -> (1 <= length b)%nat ->
  zn hi * ab + lo = cnv - ab -> 0 <= lo -> 0 <= ab -> 0 <= P ->
  zn (length a) * ab <= Qa -> zn (length b) * ab <= Qb -> Qa + Qb <= P + cnv ->
  0 <= Da -> 0 <= Db ->
  (forall u i, Z.abs (nth i (lim a u) 0) <= Da) -> (forall v i, Z.abs (nth i (lim b v) 0) <= Db) ->
  exists L E, length L = n /\ length E = n /\
    pscale (2 ^ (P + cnv - Qa - Qb)) (pmul (pval n Qa ab a) (pval n Qb ab b))
    = padd (padd (pscale (2 ^ P) L) (pval n (P + lo) ab (cnv_apply fft n dsz hi a b))) E /\
    forall k, Z.abs (nth k E 0) <= zn n * Da * Db * dropped_w P cnv ab (length a) (length b) (hi + dsz).
Proof.
  intros wa wb Ha Hb Hs Hlo Hab HP HQa HQb HPQ HDa HDb Ba Bb.
  exists (psel n a b (fun u v => Nat.ltb (u + v) hi) (fun u v => pscale (2 ^ (cnv - (zn u + zn v + 2) * ab)) (pmul (lim a u) (lim b v)))),
         (prod_high n P cnv ab hi dsz a b).
  split.
  { unfold psel. apply psumf_length. intros u Hu. apply psumf_length. intros v _.
    destruct (Nat.ltb (u + v) hi); [rewrite pscale_length', pmul_length; apply wa; exact Hu|apply pzero_length]. }
  split; [apply psel_length; assumption|]. split.
  - rewrite <- (prod_full_is_product n P cnv ab Qa Qb a b wa wb Hab HQa HQb HPQ).
    rewrite (prod_split n P cnv ab a b wa hi dsz).
    rewrite (prod_low_integer n P cnv ab a b hi lo Hs Hlo Hab HP).
    rewrite (product_position fft n dsz hi P ab lo cnv a b wa wb Ha Hb Hs). reflexivity.
  - intros k. apply prod_high_bound; try assumption. unfold zn in *. nia.
Qed.
