(* C08, level 2: the phases of the vector routines (w = 64) are runs of the ideal carry chain.
   One generic lemma (`dloop_spec`) describes every descending in-place loop by index. *)
From PV Require Import Base.MachineInt Model.Znx Model.Limbs Proofs.ZnxDigit Proofs.C08Steps Proofs.C08Chain.
Open Scope Z_scope.

Lemma fold_left_ext_in {S T : Type} (f g : S -> T -> S) (l : list T) (s0 : S) :
  (forall s j, In j l -> f s j = g s j) -> fold_left f l s0 = fold_left g l s0.
Proof.
  revert s0; induction l as [|h t IH]; intros s0 Hfg; [reflexivity|].
  cbn [fold_left]. rewrite Hfg by (left; reflexivity). apply IH. intros; apply Hfg; right; auto.
Qed.

Lemma fold_left_seq_ext {S : Type} (f g : S -> nat -> S) (n : nat) (s0 : S) :
  (forall s j, (j < n)%nat -> f s j = g s j) -> fold_left f (seq 0 n) s0 = fold_left g (seq 0 n) s0.
Proof. intros Hfg. apply fold_left_ext_in. intros s j Hj. apply in_seq in Hj. apply Hfg. lia. Qed.

Section Loops.
Variable b : Z.
Hypothesis Hb : 1 <= b <= 62.

Let Hb1 : 1 <= b. Proof. lia. Qed.
Let Hb64 : 1 <= b <= 64 - 2. Proof. lia. Qed.

Definition H62 : Z := 2 ^ 62.

Lemma H62_pos : 0 < 2 ^ 62.
Proof. reflexivity. Qed.

(* bound of an input sequence that keeps every carry within 2^62 *)
Definition vbound (u : nat -> Z) : Prop := forall t, Z.abs (u t) <= 2 ^ 62 * 2 ^ (b - 1).

Lemma car_hr (u : nat -> Z) (c : Z) (j : nat) : vbound u -> Z.abs c <= 2 ^ 62 -> Z.abs (car b u c j) <= 2 ^ 62.
Proof. intros Hu Hc. apply (car_bound b Hb1 (2 ^ 62)); auto. pose proof H62_pos; lia. Qed.

Lemma vbound_limbs (lsh : Z) (a : list Z) (k : nat -> nat) : 0 <= lsh < b -> hrl a ->
  vbound (fun t => nthZ a (k t) * 2 ^ lsh).
Proof. intros Hl Ha t. apply shifted_bound; auto. pose proof H62_pos; lia. Qed.

Lemma vbound_zseq : vbound zseq.
Proof.
  intros t. unfold zseq. pose proof (pow2_pos (b - 1) ltac:(lia)). pose proof H62_pos. cbn [Z.abs]. nia.
Qed.

(* the kernels at w = 64 *)
Lemma mc64 (lsh a c : Z) : 0 <= lsh < b -> Z.abs a <= 2 ^ 62 -> Z.abs c <= 2 ^ 62 ->
  middle_core 64 b lsh a c = (wrap b (a * 2 ^ lsh + c), bdiv b (a * 2 ^ lsh + c)).
Proof. intros Hl Ha Hc. apply middle_core_ideal; auto. Qed.

Lemma fc64 (lsh a c : Z) : 0 <= lsh < b -> Z.abs a <= 2 ^ 62 -> Z.abs c <= 2 ^ 62 ->
  final_core 64 b lsh a c = wrap b (a * 2 ^ lsh + c).
Proof. intros Hl Ha Hc. apply final_core_ideal; auto. Qed.

(* ---------- the generic descending loop ---------- *)

(* iteration j reads r[top - sh - j - 1] and the carry, writes r[top - j - 1] *)
Definition dloop (F : nat -> Z -> Z -> Z * Z) (top sh cnt : nat) (st : list Z * Z) : list Z * Z :=
  fold_left (fun (s : list Z * Z) j =>
    let '(r, c) := s in
    let '(x, c') := F j (nthZ r (top - sh - j - 1)) c in (upd r (top - j - 1) x, c')) (seq 0 cnt) st.

Lemma dloop_spec (F : nat -> Z -> Z -> Z * Z) (g : nat -> Z -> Z) (u : nat -> Z) (fin : bool)
    (top sh cnt : nat) (r : list Z) (c : Z) :
  (cnt <= top)%nat -> vbound u -> Z.abs c <= 2 ^ 62 ->
  (forall j, (j < cnt)%nat -> Z.abs (car b u c j) <= 2 ^ 62 ->
     fst (F j (nthZ r (top - sh - j - 1)) (car b u c j)) = g j (wrap b (u j + car b u c j)) /\
     ((S j < cnt)%nat \/ fin = false ->
      snd (F j (nthZ r (top - sh - j - 1)) (car b u c j)) = bdiv b (u j + car b u c j))) ->
  let res := dloop F top sh cnt (r, c) in
  (fin = false -> snd res = car b u c cnt) /\ length (fst res) = length r /\
  forall i, nthZ (fst res) i =
    if (Nat.leb (top - cnt) i && Nat.ltb i top && Nat.ltb i (length r))%bool
    then g (top - 1 - i)%nat (dig b u c (top - 1 - i)) else nthZ r i.
Proof.
  intros Hcnt Hu Hc HF. cbv zeta. unfold dloop.
  match goal with |- context [fold_left ?f _ _] => set (body := f) end.
  pose proof (fold_left_seq_ind body (fun j (s : list Z * Z) =>
    ((j < cnt)%nat \/ fin = false -> snd s = car b u c j) /\ length (fst s) = length r /\
    forall i, nthZ (fst s) i =
      if (Nat.leb (top - j) i && Nat.ltb i top && Nat.ltb i (length r))%bool
      then g (top - 1 - i)%nat (dig b u c (top - 1 - i)) else nthZ r i) cnt (r, c)) as HI.
  destruct HI as (I1 & I2 & I3);
    [| | split; [intros Hf; apply I1; right; exact Hf | split; [exact I2|exact I3]]].
  - cbn [fst snd]. split; [reflexivity|]. split; [reflexivity|].
    intros i. natb; try reflexivity; lia.
  - intros j [r' c'] Hj (Ic & Il & In). unfold body. cbn [fst snd] in *.
    specialize (Ic ltac:(left; exact Hj)). subst c'.
    assert (Hcj : Z.abs (car b u c j) <= 2 ^ 62) by (apply car_hr; auto).
    assert (Er : nthZ r' (top - sh - j - 1) = nthZ r (top - sh - j - 1)).
    { rewrite In. natb; try reflexivity; lia. }
    rewrite Er. destruct (HF j Hj Hcj) as [F1 F2].
    destruct (F j (nthZ r (top - sh - j - 1)) (car b u c j)) as [x c''].
    cbn [fst snd] in *. subst x. split; [|split].
    + intros Hn. rewrite car_S. apply F2. destruct Hn as [Hn|Hn]; [left; lia|right; exact Hn].
    + rewrite upd_length. exact Il.
    + intros i. rewrite nth_upd, Il, In.
      destruct (Nat.eqb_spec i (top - j - 1)) as [Ei|Ei].
      * subst i. natb; try lia; try reflexivity.
        replace (top - 1 - (top - j - 1))%nat with j by lia. reflexivity.
      * cbn [andb]. natb; try lia; reflexivity.
Qed.

(* ---------- carry phase ---------- *)

Lemma carry_phase_car (lsh : Z) (a : list Z) (asz cnt : nat) : 0 <= lsh < b -> hrl a ->
  carry_phase 64 b lsh a asz cnt = car b (fun t => nthZ a (asz - t - 1) * 2 ^ lsh) 0 cnt.
Proof.
  intros Hl Ha. unfold carry_phase.
  set (u := fun t : nat => nthZ a (asz - t - 1) * 2 ^ lsh).
  assert (Hu : vbound u) by (apply vbound_limbs; auto).
  apply (fold_left_seq_ind _ (fun j c => c = car b u 0 j) cnt 0); [reflexivity|].
  intros j c Hj ->. cbv zeta. rewrite car_S.
  destruct (Nat.eqb_spec j 0) as [E|E].
  - subst j. cbn [car]. rewrite (first_step_carry_only_ideal 64 b lsh Hb64 Hl) by apply Ha.
    unfold u. rewrite Z.add_0_r. reflexivity.
  - unfold middle_step_carry_only. rewrite mc64; [reflexivity|exact Hl|apply Ha|].
    apply car_hr; [exact Hu|]. pose proof H62_pos; cbn [Z.abs]; lia.
Qed.

(* ---------- middle phases ---------- *)

Lemma mid_phase_spec (ov : bool) (lsh : Z) (a : list Z) (rs as_ cnt : nat) (r : list Z) (c : Z) :
  0 <= lsh < b -> hrl a -> (ov = false -> hrl r) -> Z.abs c <= 2 ^ 62 -> (cnt <= rs)%nat ->
  let u := fun t : nat => nthZ a (as_ - t - 1) * 2 ^ lsh in
  let res := mid_phase 64 ov b lsh a rs as_ cnt (r, c) in
  snd res = car b u c cnt /\ length (fst res) = length r /\
  forall i, nthZ (fst res) i =
    if (Nat.leb (rs - cnt) i && Nat.ltb i rs && Nat.ltb i (length r))%bool
    then (if ov then 0 else nthZ r i) + dig b u c (rs - 1 - i) else nthZ r i.
Proof.
  intros Hl Ha Hr Hc Hcnt u.
  assert (Hu : vbound u) by (apply vbound_limbs; auto).
  pose proof (dloop_spec
    (fun j y c' => middle_step 64 ov b lsh y (nthZ a (as_ - j - 1)) c')
    (fun j d => (if ov then 0 else nthZ r (rs - j - 1)) + d) u false rs 0 cnt r c Hcnt Hu Hc) as HD.
  cbv zeta in HD. unfold dloop in HD. unfold mid_phase.
  replace (fun (s : list Z * Z) (j : nat) => let '(r0, c0) := s in
      let '(x, c') := middle_step 64 ov b lsh (nthZ r0 (rs - 0 - j - 1)) (nthZ a (as_ - j - 1)) c0 in
      (upd r0 (rs - j - 1) x, c'))
    with (fun (s : list Z * Z) (j : nat) => let '(r0, c0) := s in
      let '(x, c') := middle_step 64 ov b lsh (nthZ r0 (rs - j - 1)) (nthZ a (as_ - j - 1)) c0 in
      (upd r0 (rs - j - 1) x, c')) in HD
    by (rewrite Nat.sub_0_r; reflexivity).
  destruct HD as (D1 & D2 & D3).
  - intros j Hj Hc'. set (c' := car b u c j) in *. rewrite Nat.sub_0_r.
    rewrite (middle_step_ideal 64 b lsh Hb64 Hl); [|apply Ha|exact Hc'|intros E; apply Hr; exact E].
    cbn [fst snd]. split; [reflexivity|intros _; reflexivity].
  - split; [apply D1; reflexivity|]. split; [exact D2|].
    intros i. rewrite D3. natb; try reflexivity.
    replace (rs - (rs - 1 - i) - 1)%nat with i by lia. reflexivity.
Qed.

Lemma mid_phase_sub_spec (lsh : Z) (a : list Z) (rs as_ cnt : nat) (r : list Z) (c : Z) :
  0 <= lsh < b -> hrl a -> hrl r -> Z.abs c <= 2 ^ 62 -> (cnt <= rs)%nat ->
  let u := fun t : nat => nthZ a (as_ - t - 1) * 2 ^ lsh in
  let res := mid_phase_sub 64 b lsh a rs as_ cnt (r, c) in
  snd res = car b u c cnt /\ length (fst res) = length r /\
  forall i, nthZ (fst res) i =
    if (Nat.leb (rs - cnt) i && Nat.ltb i rs && Nat.ltb i (length r))%bool
    then nthZ r i - dig b u c (rs - 1 - i) else nthZ r i.
Proof.
  intros Hl Ha Hr Hc Hcnt u.
  assert (Hu : vbound u) by (apply vbound_limbs; auto).
  pose proof (dloop_spec
    (fun j y c' => middle_step_sub 64 b lsh y (nthZ a (as_ - j - 1)) c')
    (fun j d => nthZ r (rs - j - 1) - d) u false rs 0 cnt r c Hcnt Hu Hc) as HD.
  cbv zeta in HD. unfold dloop in HD. unfold mid_phase_sub.
  replace (fun (s : list Z * Z) (j : nat) => let '(r0, c0) := s in
      let '(x, c') := middle_step_sub 64 b lsh (nthZ r0 (rs - 0 - j - 1)) (nthZ a (as_ - j - 1)) c0 in
      (upd r0 (rs - j - 1) x, c'))
    with (fun (s : list Z * Z) (j : nat) => let '(r0, c0) := s in
      let '(x, c') := middle_step_sub 64 b lsh (nthZ r0 (rs - j - 1)) (nthZ a (as_ - j - 1)) c0 in
      (upd r0 (rs - j - 1) x, c')) in HD
    by (rewrite Nat.sub_0_r; reflexivity).
  destruct HD as (D1 & D2 & D3).
  - intros j Hj Hc'. set (c' := car b u c j) in *. rewrite Nat.sub_0_r.
    rewrite (middle_step_sub_ideal 64 b lsh Hb64 Hl); [|apply Ha|exact Hc'|apply Hr].
    cbn [fst snd]. split; [reflexivity|intros _; reflexivity].
  - split; [apply D1; reflexivity|]. split; [exact D2|].
    intros i. rewrite D3. natb; try reflexivity.
    replace (rs - (rs - 1 - i) - 1)%nat with i by lia. reflexivity.
Qed.

(* ---------- top phase ---------- *)

Lemma top_phase_spec (zf : bool) (lsh : Z) (re : nat) (r : list Z) (c : Z) :
  0 <= lsh < b -> (zf = false -> forall i, (i < re)%nat -> Z.abs (nthZ r i) <= 2 ^ 62) -> Z.abs c <= 2 ^ 62 ->
  let u := fun t : nat => if Nat.ltb t re then (if zf then 0 else nthZ r (re - t - 1)) * 2 ^ lsh else 0 in
  let res := fst (top_phase 64 zf b lsh re (r, c)) in
  length res = length r /\
  forall i, nthZ res i =
    if (Nat.ltb i re && Nat.ltb i (length r))%bool then dig b u c (re - 1 - i) else nthZ r i.
Proof.
  intros Hl Hr Hc u.
  assert (Hx : forall t : nat, (t < re)%nat -> Z.abs (if zf then 0 else nthZ r (re - t - 1)) <= 2 ^ 62).
  { intros t Ht. destruct zf; [pose proof H62_pos; cbn [Z.abs]; lia|apply Hr; [reflexivity|lia]]. }
  assert (Hu : vbound u).
  { intros t. unfold u. destruct (Nat.ltb_spec t re).
    - apply shifted_bound; auto. pose proof H62_pos; lia.
    - pose proof (pow2_pos (b - 1) ltac:(lia)). pose proof H62_pos. cbn [Z.abs]. nia. }
  pose proof (dloop_spec
    (fun j y c' => let x0 := if zf then 0 else y in
       if Nat.eqb j (re - 1) then (final_step_assign 64 b lsh x0 c', c')
       else middle_step_assign 64 b lsh x0 c')
    (fun j d => d) u true re 0 re r c (le_n re) Hu Hc) as HD.
  cbv zeta in HD. unfold dloop in HD. unfold top_phase.
  rewrite (fold_left_seq_ext _
    (fun (s : list Z * Z) (j : nat) => let '(r0, c0) := s in
      let '(x, c') :=
        (if Nat.eqb j (re - 1)
         then (final_step_assign 64 b lsh (if zf then 0 else nthZ r0 (re - 0 - j - 1)) c0, c0)
         else middle_step_assign 64 b lsh (if zf then 0 else nthZ r0 (re - 0 - j - 1)) c0) in
      (upd r0 (re - j - 1) x, c'))).
  2:{ intros [r0 c0] j Hj. rewrite Nat.sub_0_r. destruct (Nat.eqb j (re - 1)); reflexivity. }
  destruct HD as (_ & D2 & D3).
  - intros j Hj Hc'. set (c' := car b u c j) in *. rewrite Nat.sub_0_r. specialize (Hx j Hj).
    unfold final_step_assign, middle_step_assign.
    assert (Eu : u j = (if zf then 0 else nthZ r (re - j - 1)) * 2 ^ lsh).
    { unfold u. destruct (Nat.ltb_spec j re); [reflexivity|lia]. }
    rewrite Eu.
    destruct (Nat.eqb_spec j (re - 1)) as [E|E]; cbn [fst snd].
    + rewrite fc64 by auto. split; [reflexivity|]. intros [Hn|Hn]; [lia|discriminate].
    + rewrite mc64 by auto. cbn [fst snd]. split; [reflexivity|intros _; reflexivity].
  - split; [exact D2|]. intros i. rewrite D3. natb; try reflexivity; lia.
Qed.

(* ---------- gap phase ---------- *)

Lemma gap_phase_car (gap : nat) (c : Z) : Z.abs c <= 2 ^ 62 -> gap_phase 64 b gap c = car b zseq c gap.
Proof.
  intros Hc. rewrite <- (car_zseq_sat b Hb1 c gap Hc). unfold gap_phase.
  apply (fold_left_seq_ind _ (fun j c' => c' = car b zseq c j) (Nat.min gap 64) c); [reflexivity|].
  intros j c' Hj ->. unfold middle_step_carry_only.
  rewrite mc64; [|lia|pose proof H62_pos; cbn [Z.abs]; lia|apply car_hr; [apply vbound_zseq|exact Hc]].
  cbn [snd]. rewrite car_S. unfold zseq at 1. f_equal.
Qed.

(* ---------- zeroing ---------- *)

Lemma zero_range_spec (r : list Z) (lo hi : nat) :
  length (zero_range r lo hi) = length r /\
  forall i, nthZ (zero_range r lo hi) i = if (Nat.leb lo i && Nat.ltb i hi)%bool then 0 else nthZ r i.
Proof.
  unfold zero_range.
  pose proof (fold_left_seq_ind_from (fun r0 j => upd r0 j 0) (fun j (r' : list Z) => length r' = length r /\
    forall i, nthZ r' i = if (Nat.leb lo i && Nat.ltb i (lo + j))%bool then 0 else nthZ r i)
    lo (hi - lo) r) as HI.
  destruct HI as [I1 I2].
  - split; [reflexivity|]. intros i. natb; try reflexivity; lia.
  - intros j r' Hj [Il In]. split; [rewrite upd_length; exact Il|].
    intros i. rewrite nth_upd, Il, In. natb; try reflexivity; try lia.
    rewrite nthZ_overflow by lia. reflexivity.
  - split; [exact I1|]. intros i. rewrite I2. natb; try reflexivity; lia.
Qed.

End Loops.
