(* C11 for the ring operations of C09 (opcodes 9001..9022): every operation rewrites the destination as
     putcol rs res (c09_col code ps (getcol rs res) other_inputs)
   hence (frame) nothing outside the selected column changes, (read-back) the selected column of the result IS the
   column function, (independence) for overwriting forms the column function only looks at the NUMBER of limbs of the
   prior column. *)
From PV Require Import Base.MachineInt Model.Znx Model.Limbs Model.Flat Model.Ring Model.C09Run
  Proofs.C11Frame Proofs.C11Read Proofs.C09Size.
From Coq Require Import Arith PeanoNat List Bool.
Open Scope Z_scope.

(* ---------- the column function of each opcode: prior column r0, other input buffers rest ---------- *)
Definition c09_col (code : Z) (ps : list Z) (r0 : limbs) (rest : list (list Z)) : option limbs :=
  let w := 64 in
  let rs := shp ps 0 in let sa := shp ps 1 in let sb := shp ps 2 in
  let a := nth 0 rest [] in let b := nth 1 rest [] in
  let al := getcol sa a in let bl := getcol sb b in
  let n := s_n rs in
  let oka := shape_ok sa a in let okb := shape_ok sb b in
  match code with
  | 9001 => if oka && okb then Some (vec_add w n al bl r0) else None
  | 9002 => if oka then Some (vec_add_assign w al r0) else None
  | 9003 => if oka && okb then Some (vec_sub w n al bl r0) else None
  | 9004 => if oka then Some (vec_sub_assign w al r0) else None
  | 9005 => if oka then Some (vec_sub_negate_assign w al r0) else None
  | 9006 => if oka then Some (vec_unary n (vneg w) al r0) else None
  | 9007 => Some (vec_unary_assign (vneg w) r0)
  | 9008 => if oka && okb then Some (vec_add_scalar w n false (lnth al 0) bl (Z.to_nat (ex ps 0)) r0) else None
  | 9009 => if oka then vec_add_scalar_assign w false (lnth al 0) (Z.to_nat (ex ps 0)) r0 else None
  | 9010 => if oka && okb then Some (vec_add_scalar w n true (lnth al 0) bl (Z.to_nat (ex ps 0)) r0) else None
  | 9011 => if oka then vec_add_scalar_assign w true (lnth al 0) (Z.to_nat (ex ps 0)) r0 else None
  | 9012 => if oka then Some (vec_unary n (fun l => l) al r0) else None
  | 9013 => Some (map (fun _ => zlimb n) r0)
  | 9014 => if oka then Some (vec_rotate w n (ex ps 0) al r0) else None
  | 9015 => Some (vec_rotate_assign w (ex ps 0) r0)
  | 9016 => if oka then Some (vec_mul_xp_minus_one w n (ex ps 0) al r0) else None
  | 9017 => Some (vec_mul_xp_minus_one_assign w (ex ps 0) r0)
  | 9018 => if oka then Some (vec_automorphism w n (ex ps 0) al r0) else None
  | 9019 => Some (vec_automorphism_assign w (ex ps 0) (repeat (ex ps 1) n) r0)
  | 9020 => if oka then Some (vec_switch_ring n al r0) else None
  | 9022 => Some (vec_merge_rings n (map (getcol sa) rest) r0)
  | _ => None
  end.

(* every opcode of run_c09 with a single destination *)
Definition c09_single_codes : list Z :=
  [9001; 9002; 9003; 9004; 9005; 9006; 9007; 9008; 9009; 9010; 9011; 9012; 9013; 9014; 9015; 9016; 9017;
   9018; 9019; 9020; 9022].
(* overwriting forms: add_into, sub, negate, add_scalar_into, sub_scalar, copy, zero, rotate, mul_xp_minus_one,
   switch_ring, merge_rings; automorphism (9018) separately, under C09's hypotheses *)
Definition c09_overwrite_codes : list Z := [9001; 9003; 9006; 9008; 9010; 9012; 9013; 9014; 9016; 9020; 9022].
(* accumulate / in-place forms *)
Definition c09_inplace_codes : list Z := [9002; 9004; 9005; 9007; 9009; 9011; 9015; 9017; 9019].

Ltac c09_cases Hin tac :=
  cbn [In] in Hin;
  repeat (destruct Hin as [Hc | Hin]; [subst; tac |]);
  try contradiction.

Ltac split_ifs H :=
  repeat match type of H with
  | (if ?c then _ else _) = Some _ => let E := fresh "E" in destruct c eqn:E; [|discriminate H]
  | match ?x with Some _ => _ | None => _ end = Some _ => let E := fresh "E" in destruct x eqn:E; [|discriminate H]
  end.

(* run_c09 = write the column function into the selected column *)
Theorem run_c09_col code ps res rest :
  In code c09_single_codes ->
  run_c09 code ps (res :: rest) =
  match c09_col code ps (getcol (shp ps 0) res) rest with
  | Some l => if shape_ok (shp ps 0) res then Some [putcol (shp ps 0) res l] else None
  | None => None
  end.
Proof.
  intros Hin. unfold c09_single_codes in Hin.
  c09_cases Hin ltac:(
    cbv beta iota zeta delta [run_c09 c09_col v tl nth];
    try destruct (shape_ok (shp ps 1) _); try destruct (shape_ok (shp ps 2) _); cbn [andb]; reflexivity).
Qed.

(* ---------- lengths ---------- *)
Lemma c11_build_length rsz (f : nat -> list Z) : length (build rsz f) = rsz.
Proof. unfold build. rewrite map_length, seq_length. reflexivity. Qed.

Lemma automorphism_assign_length w g (r0 : limbs) : forall t (acc : limbs),
  length (snd (fold_left (fun (s : list Z * limbs) l =>
     let t := znx_automorphism_onto w g (fst s) l in (t, snd s ++ [t])) r0 (t, acc))) = (length acc + length r0)%nat.
Proof.
  induction r0 as [|l r0 IH]; intros t acc; cbn [fold_left length snd fst].
  - lia.
  - rewrite IH. cbn [snd]. rewrite app_length. cbn [length]. lia.
Qed.

Lemma vec_automorphism_assign_length w g t0 r0 : length (vec_automorphism_assign w g t0 r0) = length r0.
Proof. unfold vec_automorphism_assign. rewrite automorphism_assign_length. reflexivity. Qed.

Ltac len_tac :=
  unfold vec_rotate_assign, vec_mul_xp_minus_one, vec_mul_xp_minus_one_assign, vec_rotate;
  unfold vec_add, vec_sub, vec_add_assign, vec_sub_assign, vec_sub_negate_assign, vec_unary, vec_unary_assign,
         vec_add_scalar, vec_automorphism, vec_switch_ring, vec_merge_rings;
  rewrite ?vec_automorphism_assign_length, ?c11_build_length, ?map_length; reflexivity.

Theorem c09_col_length code ps r0 rest l :
  In code c09_single_codes -> c09_col code ps r0 rest = Some l -> length l = length r0.
Proof.
  intros Hin H. unfold c09_single_codes in Hin.
  c09_cases Hin ltac:(
    cbv beta iota zeta delta [c09_col vec_add_scalar_assign] in H; split_ifs H;
    inversion H; subst l; len_tac).
Qed.

Lemma getcol_length s d : length (getcol s d) = s_size s.
Proof. apply col_limbs_length. Qed.

(* decomposition used by all the theorems below *)
Lemma run_c09_inv code ps res rest res' :
  In code c09_single_codes -> run_c09 code ps (res :: rest) = Some [res'] ->
  exists l, c09_col code ps (getcol (shp ps 0) res) rest = Some l /\ shape_ok (shp ps 0) res = true /\
            res' = putcol (shp ps 0) res l /\ length l = s_size (shp ps 0).
Proof.
  intros Hin H. rewrite (run_c09_col code ps res rest Hin) in H.
  destruct (c09_col code ps (getcol (shp ps 0) res) rest) as [l|] eqn:El; [|discriminate].
  destruct (shape_ok (shp ps 0) res) eqn:Es; [|discriminate].
  inversion H; subst res'. exists l. repeat split.
  rewrite (c09_col_length code ps _ rest l Hin El). apply getcol_length.
Qed.

Lemma shape_fits s d : shape_ok s d = true ->
  (s_col s < s_cols s)%nat /\ (s_n s * s_cols s * s_size s <= length d)%nat.
Proof.
  intros H. destruct (shape_ok_facts s d H) as (Hc & Hs & Hl). split; [exact Hc|].
  rewrite Hl. apply Nat.mul_le_mono_l. exact Hs.
Qed.

(* ---------- 1. FRAME ---------- *)
Lemma putcol_frame s d l :
  (0 < s_n s)%nat -> shape_ok s d = true -> (length l <= s_size s)%nat ->
  length (putcol s d l) = length d /\
  forall idx dflt, in_col (s_n s) (s_cols s) (s_size s) (s_col s) idx = false ->
    nth idx (putcol s d l) dflt = nth idx d dflt.
Proof.
  intros Hn Hs Hl. destruct (shape_fits s d Hs) as [Hc Hd].
  unfold putcol. apply write_col_frame; assumption.
Qed.

Theorem c09_frame_cons code ps res rest res' :
  In code c09_single_codes -> (0 < s_n (shp ps 0))%nat ->
  run_c09 code ps (res :: rest) = Some [res'] ->
  length res' = length res /\
  forall idx d,
    in_col (s_n (shp ps 0)) (s_cols (shp ps 0)) (s_size (shp ps 0)) (s_col (shp ps 0)) idx = false ->
    nth idx res' d = nth idx res d.
Proof.
  intros Hin Hn H. destruct (run_c09_inv code ps res rest res' Hin H) as (l & _ & Hs & -> & Hl).
  apply putcol_frame; [exact Hn|exact Hs|lia].
Qed.

(* with an empty list of buffers the destination is the empty buffer and shape_ok fails unless it has 0 words *)
Theorem c09_frame code ps vs res' :
  In code c09_single_codes -> (0 < s_n (shp ps 0))%nat ->
  run_c09 code ps vs = Some [res'] ->
  length res' = length (C09Run.v vs 0) /\
  forall idx d,
    in_col (s_n (shp ps 0)) (s_cols (shp ps 0)) (s_size (shp ps 0)) (s_col (shp ps 0)) idx = false ->
    nth idx res' d = nth idx (C09Run.v vs 0) d.
Proof.
  intros Hin Hn H. destruct vs as [|res rest].
  - (* vs = []: same computation as vs = [[]] *)
    assert (E : run_c09 code ps [] = run_c09 code ps [[]]).
    { unfold c09_single_codes in Hin.
      c09_cases Hin ltac:(cbv beta iota zeta delta [run_c09 C09Run.v tl nth map]; reflexivity). }
    rewrite E in H. apply (c09_frame_cons code ps [] [] res' Hin Hn H).
  - apply (c09_frame_cons code ps res rest res' Hin Hn H).
Qed.

(* split_ring (9021): vs = a :: parts ; every part is rewritten by putcol, no shape check on the parts in the model,
   so the frame statement is per part, for parts that have the declared shape *)
Theorem c09_split_frame ps a parts outs :
  (0 < s_n (shp ps 0))%nat ->
  run_c09 9021 ps (a :: parts) = Some outs ->
  length outs = length parts /\
  forall i, (i < length parts)%nat -> shape_ok (shp ps 0) (nth i parts []) = true ->
    length (nth i outs []) = length (nth i parts []) /\
    forall idx d,
      in_col (s_n (shp ps 0)) (s_cols (shp ps 0)) (s_size (shp ps 0)) (s_col (shp ps 0)) idx = false ->
      nth idx (nth i outs []) d = nth idx (nth i parts []) d.
Proof.
  intros Hn H. cbv beta iota zeta delta [run_c09 C09Run.v tl] in H. cbn [nth] in H.
  destruct (shape_ok (shp ps 1) a); [|discriminate]. inversion H; subst outs; clear H.
  split; [rewrite map_length, combine_length, seq_length; lia|].
  intros i Hi Hs.
  set (F := fun q : nat * list Z => putcol (shp ps 0) (snd q)
              (vec_split_part 64 (s_n (shp ps 0)) (fst q) (getcol (shp ps 1) a) (getcol (shp ps 0) (snd q)))).
  rewrite (nth_indep (map F _) [] (F (0%nat, []))) by (rewrite map_length, combine_length, seq_length; lia).
  rewrite map_nth. rewrite combine_nth by (rewrite seq_length; reflexivity).
  unfold F. cbn [fst snd].
  apply putcol_frame; [exact Hn|exact Hs|].
  unfold vec_split_part. rewrite c11_build_length, getcol_length. lia.
Qed.

(* ---------- 2. READ-BACK: the selected column of the result is the column function ---------- *)
Theorem c09_column code ps res rest res' :
  In code c09_single_codes ->
  run_c09 code ps (res :: rest) = Some [res'] ->
  exists l, c09_col code ps (getcol (shp ps 0) res) rest = Some l /\ length l = s_size (shp ps 0) /\
            getcol (shp ps 0) res' = map (pad (s_n (shp ps 0))) l.
Proof.
  intros Hin H. destruct (run_c09_inv code ps res rest res' Hin H) as (l & El & Hs & -> & Hl).
  exists l. split; [exact El|]. split; [exact Hl|].
  destruct (shape_fits _ _ Hs) as [Hc Hd].
  unfold getcol, putcol. apply write_col_read_pad; assumption.
Qed.

(* ---------- 3. INDEPENDENCE ---------- *)
(* accumulate / in-place forms and, a fortiori, all forms: destinations that agree on the selected column *)
Theorem c09_indep_agree code ps res1 res2 rest res1' res2' :
  In code c09_single_codes ->
  getcol (shp ps 0) res1 = getcol (shp ps 0) res2 ->
  run_c09 code ps (res1 :: rest) = Some [res1'] ->
  run_c09 code ps (res2 :: rest) = Some [res2'] ->
  getcol (shp ps 0) res1' = getcol (shp ps 0) res2'.
Proof.
  intros Hin Hag H1 H2.
  destruct (c09_column code ps res1 rest res1' Hin H1) as (l1 & E1 & _ & ->).
  destruct (c09_column code ps res2 rest res2' Hin H2) as (l2 & E2 & _ & ->).
  rewrite Hag in E1. rewrite E1 in E2. inversion E2. reflexivity.
Qed.

(* overwriting forms: the column function only sees length r0 *)
Theorem c09_col_overwrite code ps r0 r1 rest :
  In code c09_overwrite_codes -> length r0 = length r1 ->
  c09_col code ps r0 rest = c09_col code ps r1 rest.
Proof.
  intros Hin Hl. unfold c09_overwrite_codes in Hin.
  c09_cases Hin ltac:(
    cbv beta iota zeta delta [c09_col];
    try destruct (shape_ok (shp ps 1) _); try destruct (shape_ok (shp ps 2) _); cbn [andb]; try reflexivity;
    f_equal;
    unfold vec_add, vec_sub, vec_unary, vec_add_scalar, vec_rotate, vec_mul_xp_minus_one, vec_switch_ring,
           vec_merge_rings, vec_rotate, vec_unary;
    rewrite ?Hl; try reflexivity).
  (* 9013 zero: map over r0 *)
  clear -Hl. revert r1 Hl. induction r0 as [|x r0 IH]; intros [|y r1] Hl; cbn [length map] in *; try lia; [reflexivity|].
  f_equal. apply IH. lia.
Qed.

Theorem c09_indep_overwrite code ps res1 res2 rest res1' res2' :
  In code c09_overwrite_codes ->
  run_c09 code ps (res1 :: rest) = Some [res1'] ->
  run_c09 code ps (res2 :: rest) = Some [res2'] ->
  getcol (shp ps 0) res1' = getcol (shp ps 0) res2'.
Proof.
  intros Hin H1 H2.
  assert (Hin' : In code c09_single_codes).
  { unfold c09_overwrite_codes in Hin. unfold c09_single_codes. cbn [In] in *. intuition. }
  destruct (c09_column code ps res1 rest res1' Hin' H1) as (l1 & E1 & _ & ->).
  destruct (c09_column code ps res2 rest res2' Hin' H2) as (l2 & E2 & _ & ->).
  rewrite (c09_col_overwrite code ps _ (getcol (shp ps 0) res2) rest Hin) in E1
    by (rewrite !getcol_length; reflexivity).
  rewrite E1 in E2. inversion E2. reflexivity.
Qed.

(* automorphism (9018): odd Galois element, n a power of two, source ring degree = destination ring degree *)
Lemma getcol_limbs_len s d : shape_ok s d = true -> limbs_len (s_n s) (getcol s d).
Proof.
  intros Hs j Hj. rewrite getcol_length in Hj.
  destruct (shape_fits s d Hs) as [Hc Hd].
  unfold lnth, getcol. rewrite col_limbs_nth by exact Hj.
  apply limb_at_length. apply (limb_fits _ _ (s_size s)); assumption.
Qed.

Theorem c09_indep_automorphism ps m res1 res2 rest res1' res2' :
  0 <= m -> Z.of_nat (s_n (shp ps 0)) = 2 ^ m -> Z.odd (ex ps 0) = true ->
  s_n (shp ps 1) = s_n (shp ps 0) ->
  run_c09 9018 ps (res1 :: rest) = Some [res1'] ->
  run_c09 9018 ps (res2 :: rest) = Some [res2'] ->
  getcol (shp ps 0) res1' = getcol (shp ps 0) res2'.
Proof.
  intros Hm Hn Hodd Hna H1 H2.
  assert (Hin : In 9018 c09_single_codes) by (unfold c09_single_codes; cbn [In]; intuition).
  destruct (run_c09_inv 9018 ps res1 rest res1' Hin H1) as (l1 & E1 & Hs1 & _ & _).
  destruct (run_c09_inv 9018 ps res2 rest res2' Hin H2) as (l2 & E2 & Hs2 & _ & _).
  destruct (c09_column 9018 ps res1 rest res1' Hin H1) as (l1' & E1' & _ & ->).
  destruct (c09_column 9018 ps res2 rest res2' Hin H2) as (l2' & E2' & _ & ->).
  rewrite E1 in E1'. rewrite E2 in E2'. inversion E1'; inversion E2'; subst l1' l2'. clear E1' E2'.
  cbv beta iota zeta delta [c09_col] in E1, E2.
  destruct (shape_ok (shp ps 1) (nth 0 rest [])) eqn:Ha; [|discriminate].
  inversion E1; inversion E2; subst l1 l2. f_equal.
  apply (vec_automorphism_indep 64 (s_n (shp ps 0)) m); try assumption; try lia.
  - rewrite <- Hna. apply getcol_limbs_len. exact Ha.
  - apply getcol_limbs_len. exact Hs1.
  - apply getcol_limbs_len. exact Hs2.
  - rewrite !getcol_length. reflexivity.
Qed.
