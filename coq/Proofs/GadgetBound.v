(* Sup-norm facts (Gadget.pnorm) and the deterministic bound of the gadget noise  sum_{row,ci} digit (x) e  — the
   `gadget` term of Gadget.gadget_env. *)
From PV Require Import Base.MachineInt Model.Znx Model.Limbs Model.Flat Model.Ring Model.Poly Model.DftAbs Model.Gadget Model.GadgetSpec Proofs.C07Dft Proofs.C07Ring Proofs.GadgetDecomp.
Open Scope Z_scope.

Section Norm.
Lemma pnorm_fold_ge l m : m <= fold_left (fun m x => Z.max m (Z.abs x)) l m.
Proof.
  revert m; induction l as [|x l IH]; intros m; cbn [fold_left]; [lia|].
  pose proof (IH (Z.max m (Z.abs x))). lia.
Qed.

Lemma pnorm_fold_in l m x : In x l -> Z.abs x <= fold_left (fun m x => Z.max m (Z.abs x)) l m.
Proof.
  revert m; induction l as [|y l IH]; intros m H; [destruct H|].
  cbn [fold_left]. destruct H as [->|H]; [|apply IH; exact H].
  pose proof (pnorm_fold_ge l (Z.max m (Z.abs x))). lia.
Qed.

Lemma pnorm_fold_le l m M : m <= M -> (forall x, In x l -> Z.abs x <= M) ->
  fold_left (fun m x => Z.max m (Z.abs x)) l m <= M.
Proof.
  revert m; induction l as [|y l IH]; intros m Hm H; cbn [fold_left]; [exact Hm|].
  apply IH; [|intros; apply H; right; assumption].
  pose proof (H y (or_introl eq_refl)). lia.
Qed.

Lemma pnorm_nonneg a : 0 <= pnorm a.
Proof. apply pnorm_fold_ge. Qed.
Lemma pnorm_in a x : In x a -> Z.abs x <= pnorm a.
Proof. apply pnorm_fold_in. Qed.
Lemma pnorm_le a M : 0 <= M -> (forall x, In x a -> Z.abs x <= M) -> pnorm a <= M.
Proof. apply pnorm_fold_le. Qed.

Lemma pnorm_nth a k : Z.abs (nth k a 0) <= pnorm a.
Proof.
  destruct (Nat.lt_ge_cases k (length a)) as [H|H].
  - apply pnorm_in, nth_In, H.
  - rewrite nth_overflow by exact H. cbn [Z.abs]. apply pnorm_nonneg.
Qed.

Lemma pnorm_le_nth a M : 0 <= M -> (forall k, (k < length a)%nat -> Z.abs (nth k a 0) <= M) -> pnorm a <= M.
Proof.
  intros HM H. apply pnorm_le; [exact HM|]. intros x Hx.
  destruct (In_nth a x 0 Hx) as [k [Hk <-]]. apply H; exact Hk.
Qed.

Lemma pnorm_pzero n : pnorm (pzero n) = 0.
Proof.
  apply Z.le_antisymm; [|apply pnorm_nonneg].
  apply pnorm_le_nth; [lia|]. intros k _. rewrite nth_pzero. cbn; lia.
Qed.

(* triangle inequality, for all lengths (padd truncates to the shorter list) *)
Theorem pnorm_padd a b : pnorm (padd a b) <= pnorm a + pnorm b.
Proof.
  pose proof (pnorm_nonneg a). pose proof (pnorm_nonneg b).
  apply pnorm_le; [lia|]. intros z Hz. unfold padd, map2 in Hz.
  apply in_map_iff in Hz. destruct Hz as [[x y] [<- Hin]]. cbn [fst snd].
  pose proof (pnorm_in a x (in_combine_l _ _ _ _ Hin)).
  pose proof (pnorm_in b y (in_combine_r _ _ _ _ Hin)). lia.
Qed.

Theorem pnorm_pscale c a : pnorm (pscale c a) = Z.abs c * pnorm a.
Proof.
  unfold pnorm, pscale.
  assert (G : forall l m, 0 <= m -> fold_left (fun m x => Z.max m (Z.abs x)) (map (Z.mul c) l) (Z.abs c * m)
                          = Z.abs c * fold_left (fun m x => Z.max m (Z.abs x)) l m).
  { induction l as [|x l IH]; intros m Hm; cbn [map fold_left]; [reflexivity|].
    rewrite <- IH by lia. f_equal. rewrite Z.abs_mul. rewrite Z.mul_max_distr_nonneg_l by lia. reflexivity. }
  rewrite <- G by lia. rewrite Z.mul_0_r. reflexivity.
Qed.

Lemma zsum_abs_le f M m : (forall i, (i < m)%nat -> Z.abs (f i) <= M) -> Z.abs (zsum f m) <= Z.of_nat m * M.
Proof.
  induction m as [|m IH]; intros H; [cbn; lia|].
  rewrite zsum_S. pose proof (IH ltac:(auto with arith)). pose proof (H m ltac:(lia)). lia.
Qed.

Lemma zsum_le f g m : (forall i, (i < m)%nat -> f i <= g i) -> zsum f m <= zsum g m.
Proof.
  induction m as [|m IH]; intros H; [cbn; lia|].
  rewrite !zsum_S. pose proof (IH ltac:(auto with arith)). pose proof (H m ltac:(lia)). lia.
Qed.

Lemma zsum_const c m : zsum (fun _ => c) m = Z.of_nat m * c.
Proof. induction m as [|m IH]; [cbn; lia|]. rewrite zsum_S, IH. lia. Qed.

Lemma ext'_abs b k : Z.abs (ext' b k) <= pnorm b.
Proof.
  unfold ext'. cbv zeta. unfold nthZ.
  pose proof (pnorm_nth b (Z.to_nat (k mod Z.of_nat (length b)))).
  destruct (Z.even _); lia.
Qed.

(* sup norm of an exact negacyclic product *)
Theorem pnorm_pmul a b : length b = length a ->
  pnorm (pmul a b) <= Z.of_nat (length a) * pnorm a * pnorm b.
Proof.
  intros Hl. pose proof (pnorm_nonneg a). pose proof (pnorm_nonneg b).
  apply pnorm_le_nth; [nia|]. rewrite pmul_length. intros k Hk.
  rewrite pmul_spec by assumption.
  rewrite <- Z.mul_assoc. apply zsum_abs_le. intros i _.
  rewrite Z.abs_mul. pose proof (pnorm_nth a i). pose proof (ext'_abs b (Z.of_nat k - Z.of_nat i)).
  unfold nthZ. apply Z.mul_le_mono_nonneg; lia.
Qed.

Theorem pnorm_psumf n f m : pnorm (psumf n f m) <= zsum (fun i => pnorm (f i)) m.
Proof.
  induction m as [|m IH]; [rewrite psumf_0, pnorm_pzero; cbn; lia|].
  rewrite psumf_S, zsum_S. pose proof (pnorm_padd (psumf n f m) (f m)). lia.
Qed.

Corollary pnorm_psumf_le n f m M : (forall i, (i < m)%nat -> pnorm (f i) <= M) -> pnorm (psumf n f m) <= Z.of_nat m * M.
Proof.
  intros H. pose proof (pnorm_psumf n f m). pose proof (zsum_le _ (fun _ => M) m H). rewrite zsum_const in *. lia.
Qed.

Lemma pnorm_psub a b : pnorm (psub a b) <= pnorm a + pnorm b.
Proof.
  pose proof (pnorm_nonneg a). pose proof (pnorm_nonneg b).
  apply pnorm_le; [lia|]. intros z Hz. unfold psub, map2 in Hz.
  apply in_map_iff in Hz. destruct Hz as [[x y] [<- Hin]]. cbn [fst snd].
  pose proof (pnorm_in a x (in_combine_l _ _ _ _ Hin)).
  pose proof (pnorm_in b y (in_combine_r _ _ _ _ Hin)). lia.
Qed.
End Norm.

Section Bound.
Lemma dgroup_zsum (b : Z) (dsize : nat) :
  fold_left (fun acc t => acc + 2 ^ (Z.of_nat t * b)) (seq 0 dsize) 0 = zsum (fun t => 2 ^ (Z.of_nat t * b)) dsize.
Proof. reflexivity. Qed.

(* a digit group: sum_t 2^((dsize-1-t) b) A_t with |A_t| <= D has norm <= D * sum_t 2^(t b) *)
Theorem pnorm_digit (b : Z) (n dsize : nat) (A : nat -> nat -> list Z) (D : Z) ci row :
  (forall l, pnorm (A ci l) <= D) ->
  pnorm (digit b n dsize A ci row) <= D * zsum (fun t => 2 ^ (Z.of_nat t * b)) dsize.
Proof.
  intros HD. unfold digit.
  eapply Z.le_trans; [apply pnorm_psumf|].
  rewrite (zsum_rev (fun t => 2 ^ (Z.of_nat t * b))). rewrite <- zsum_mul_l.
  apply zsum_le. intros t Ht. rewrite pnorm_pscale.
  pose proof (Z.pow_nonneg 2 (Z.of_nat (dsize - 1 - t) * b) ltac:(lia)) as Hp.
  rewrite Z.abs_eq by exact Hp. rewrite Z.mul_comm. apply Z.mul_le_mono_nonneg_r; [exact Hp|apply HD].
Qed.

(* the `gadget` term of Gadget.gadget_env *)
Theorem C03_keyswitch_bound (b : Z) (n cin dsize rows : nat) (A e : nat -> nat -> list Z) (D B : Z) :
  0 <= B ->
  (forall ci l, length (A ci l) = n) -> (forall row ci, length (e row ci) = n) ->
  (forall ci l, pnorm (A ci l) <= D) -> (forall row ci, pnorm (e row ci) <= B) ->
  pnorm (psumf n (fun row => psumf n (fun ci => pmul (digit b n dsize A ci row) (e row ci)) cin) rows)
  <= Z.of_nat rows * Z.of_nat cin * Z.of_nat n * (D * zsum (fun t => 2 ^ (Z.of_nat t * b)) dsize) * B.
Proof.
  intros HB HA He HD HE.
  set (Dg := D * zsum (fun t => 2 ^ (Z.of_nat t * b)) dsize).
  assert (Hdig : forall ci row, pnorm (digit b n dsize A ci row) <= Dg) by (intros; apply pnorm_digit; auto).
  assert (Ldig : forall ci row, length (digit b n dsize A ci row) = n).
  { intros. unfold digit. apply psumf_length. intros. rewrite pscale_length. apply HA. }
  assert (Hcell : forall row ci, pnorm (pmul (digit b n dsize A ci row) (e row ci)) <= Z.of_nat n * Dg * B).
  { intros row ci. eapply Z.le_trans; [apply pnorm_pmul; rewrite Ldig; apply He|]. rewrite Ldig.
    pose proof (pnorm_nonneg (digit b n dsize A ci row)). pose proof (pnorm_nonneg (e row ci)).
    pose proof (Hdig ci row). pose proof (HE row ci).
    rewrite <- !Z.mul_assoc. apply Z.mul_le_mono_nonneg_l; [lia|]. apply Z.mul_le_mono_nonneg; lia. }
  eapply Z.le_trans; [apply pnorm_psumf_le|].
  - intros row _. apply pnorm_psumf_le. intros ci _. apply Hcell.
  - lia.
Qed.
End Bound.


Section Env.
Lemma ceil_div_mul_ge (a d row : nat) : (1 <= d)%nat -> (ceil_div a d <= row)%nat -> (a <= row * d)%nat.
Proof.
  intros Hd H. unfold ceil_div in H.
  pose proof (Nat.div_mod (a + d - 1) d ltac:(lia)) as E.
  pose proof (Nat.mod_upper_bound (a + d - 1) d ltac:(lia)) as Hr.
  nia.
Qed.

Lemma digit_zero (b : Z) (n dsize a_size : nat) (A : nat -> nat -> list Z) ci row :
  (1 <= dsize)%nat -> (forall l, (a_size <= l)%nat -> A ci l = pzero n) ->
  (ceil_div a_size dsize <= row)%nat -> digit b n dsize A ci row = pzero n.
Proof.
  intros Hd Hz Hrow. unfold digit. apply psumf_zero. intros t _.
  pose proof (ceil_div_mul_ge a_size dsize row Hd Hrow).
  rewrite Hz by lia. apply pscale_pzero.
Qed.

(* rows beyond ceil(a_size/dsize) have a zero digit group: the noise sum has min(ceil(a_size/dsize), dnum) active rows *)
Lemma gadget_noise_active_rows (b : Z) (n cin dsize dnum a_size : nat) (A e : nat -> nat -> list Z) :
  (1 <= dsize)%nat -> (forall ci l, length (A ci l) = n) -> (forall row ci, length (e row ci) = n) ->
  (forall ci l, (a_size <= l)%nat -> A ci l = pzero n) ->
  gadget_noise b n cin dsize dnum A e
  = psumf n (fun row => psumf n (fun ci => pmul (digit b n dsize A ci row) (e row ci)) cin) (Nat.min (ceil_div a_size dsize) dnum).
Proof.
  intros Hd HA He Hz. unfold gadget_noise.
  assert (Ldig : forall ci row, length (digit b n dsize A ci row) = n).
  { intros. unfold digit. apply psumf_length. intros. rewrite pscale_length. apply HA. }
  apply psumf_cut; [lia| |].
  - intros row _. apply psumf_length. intros ci _. rewrite pmul_length. apply Ldig.
  - intros row H1 H2. apply psumf_zero. intros ci _.
    rewrite (digit_zero b n dsize a_size A ci row Hd (Hz ci)) by lia.
    rewrite <- (He row ci). apply pmul_pzero_l.
Qed.

Lemma gadget_env_ge_gadget_term (P N b D : Z) (dsize dnum a_size msize : nat) (cin rank_out S Ssrc Bkey rb : Z) (res_size : nat) (body : bool) :
  0 <= N -> 0 <= D -> 0 <= cin -> 0 <= rank_out -> 0 <= S -> 0 <= Ssrc ->
  Z.of_nat (Nat.min (ceil_div a_size dsize) dnum) * cin * N * (D * zsum (fun t => 2 ^ (Z.of_nat t * b)) dsize) * Bkey
  <= gadget_env P N b D dsize dnum a_size msize cin rank_out S Ssrc Bkey rb res_size body.
Proof.
  intros HN HD Hc Hr HS HSs. unfold gadget_env. cbv zeta. rewrite dgroup_zsum.
  set (rows := Z.of_nat (Nat.min (ceil_div a_size dsize) dnum)).
  assert (0 <= rows) by (unfold rows; lia).
  assert (Hp : forall x, 0 <= 2 ^ x) by (intros; apply Z.pow_nonneg; lia).
  assert (0 <= 1 + rank_out * N * S) by nia.
  assert (T1 : 0 <= (if Nat.ltb (dnum * dsize) a_size
              then cin * N * Ssrc * 2 * D * 2 ^ (P - (Z.of_nat (dnum * dsize) + 1) * b) else 0)).
  { destruct (Nat.ltb _ _); [|lia]. repeat apply Z.mul_nonneg_nonneg; auto; lia. }
  assert (T2 : 0 <= (if Nat.leb 3 dsize
              then Z.of_nat (dsize * dsize) * rows * cin * N * (1 + rank_out * N * S) * D * 2 ^ (b - 1) * 2 ^ (P - (Z.of_nat msize - Z.of_nat dsize + 1) * b) else 0)).
  { destruct (Nat.leb _ _); [|lia]. repeat apply Z.mul_nonneg_nonneg; auto; lia. }
  assert (T3 : 0 <= (if body && Nat.ltb msize a_size then 2 * D * 2 ^ (P - (Z.of_nat msize + 1) * b) else 0)).
  { destruct (_ && _); [|lia]. repeat apply Z.mul_nonneg_nonneg; auto; lia. }
  assert (T4 : 0 <= (1 + rank_out * N * S) * 2 ^ (P - Z.of_nat res_size * rb)).
  { apply Z.mul_nonneg_nonneg; auto. }
  lia.
Qed.

(* the gadget noise of the phase theorems is below the envelope *)
Theorem C03_keyswitch_bound_env (P b D : Z) (n cin dsize dnum a_size msize : nat) (A e : nat -> nat -> list Z)
        (rank_out S Ssrc Bkey rb : Z) (res_size : nat) (body : bool) :
  (1 <= dsize)%nat -> 0 <= D -> 0 <= Bkey -> 0 <= rank_out -> 0 <= S -> 0 <= Ssrc ->
  (forall ci l, length (A ci l) = n) -> (forall row ci, length (e row ci) = n) ->
  (forall ci l, (a_size <= l)%nat -> A ci l = pzero n) ->
  (forall ci l, pnorm (A ci l) <= D) -> (forall row ci, pnorm (e row ci) <= Bkey) ->
  pnorm (gadget_noise b n cin dsize dnum A e)
  <= gadget_env P (Z.of_nat n) b D dsize dnum a_size msize (Z.of_nat cin) rank_out S Ssrc Bkey rb res_size body.
Proof.
  intros Hd HD HB Hr HS HSs HA He Hz HnA Hne.
  rewrite (gadget_noise_active_rows b n cin dsize dnum a_size A e) by assumption.
  eapply Z.le_trans; [apply (C03_keyswitch_bound b n cin dsize _ A e D Bkey); assumption|].
  apply gadget_env_ge_gadget_term; lia.
Qed.
End Env.

