(* C08, level 4: torus-value theorems for normalize_assign and the shift family. *)
From PV Require Import Base.MachineInt Model.Znx Model.Limbs Model.C08Oracle
  Proofs.ZnxDigit Proofs.C08Steps Proofs.C08Chain Proofs.C08Loops Proofs.C08Value Proofs.C08Normalize
  Proofs.C08Shift Proofs.C08Rsh.
Open Scope Z_scope.

Definition hr62 (l : list Z) : Prop := Forall (fun x => Z.abs x <= 2 ^ 62) l.

(* out_i = keep * r0_i + s * window_i  ==>  the torus statement *)
Lemma affine_window_value (b P lo lsh keep s : Z) (a r0 out : list Z) :
  1 <= b -> 0 <= lsh < b -> s = 1 \/ s = -1 -> length out = length r0 ->
  (forall i, (i < length out)%nat ->
     nthZ out i = keep * nthZ r0 i + s * dgz b (vin a lsh) (zn (length a) - lo - 1 - zn i)) ->
  zn (length out) * b + zn (length a) * b + Z.abs (lo * b + lsh) <= P ->
  let D := tor_abs P (val_scaled P b out - keep * val_scaled P b r0
                      - s * val_scaled (P + (lo * b + lsh)) b a) in
  D <= 2 ^ (P - zn (length out) * b) /\
  (zn (length a) * b - (lo * b + lsh) <= zn (length out) * b -> D = 0).
Proof.
  intros Hb Hl Hs Hlen Hn HP.
  apply variant_value; auto.
  exists 0. rewrite (val_scaled_affine P b s (zn (length a) - lo) (vin a lsh) out r0 keep Hlen Hn). ring.
Qed.

Lemma window_balanced (b : Z) (v : nat -> Z) (T : Z) (out : list Z) : 1 <= b ->
  (forall i, (i < length out)%nat -> nthZ out i = dgz b v (T - 1 - zn i)) -> Forall (in_range b) out.
Proof. intros Hb Hn. apply Forall_of_nth. intros i Hi. rewrite Hn by auto. apply dgz_range; auto. Qed.

Section ShiftValue.
Variable b : Z.
Hypothesis Hb : 1 <= b <= 62.

Let Hb1 : 1 <= b. Proof. lia. Qed.

(* ---------- normalize_assign: same torus value, balanced digits ---------- *)

Theorem normalize_assign_value (r0 : list Z) : hr62 r0 ->
  let out := normalize_assign 64 b r0 in
  length out = length r0 /\ Forall (in_range b) out /\
  forall P, 2 * zn (length r0) * b <= P -> tor_abs P (val_scaled P b out - val_scaled P b r0) = 0.
Proof.
  intros Hr. apply hrl_of_Forall in Hr. cbv zeta.
  destruct (normalize_assign_nth b Hb r0 Hr) as [L N].
  split; [exact L|]. split.
  - apply (window_balanced b (vin r0 0) (zn (length r0) - 0)); [lia|].
    intros i Hi. apply N. lia.
  - intros P HP.
    destruct (affine_window_value b P 0 0 0 1 r0 r0 (normalize_assign 64 b r0) Hb1 ltac:(lia)
                ltac:(left; reflexivity) L
                ltac:(intros i Hi; rewrite N by lia; ring)
                ltac:(rewrite L; cbn [Z.abs]; lia)) as [_ H2].
    cbv zeta in H2. rewrite L in H2. specialize (H2 ltac:(lia)).
    replace (P + (0 * b + 0)) with P in H2 by lia.
    rewrite <- H2. f_equal. ring.
Qed.

(* ---------- left shifts ---------- *)

Lemma off_pos (k : Z) : 0 <= k -> k / b * b + k mod b = k /\ 0 <= k mod b < b.
Proof.
  intros Hk. pose proof (Z.div_mod k b ltac:(lia)). pose proof (Z.mod_pos_bound k b ltac:(lia)). lia.
Qed.

Theorem lsh_assign_value (k : Z) (r0 : list Z) : 0 <= k -> hr62 r0 ->
  let out := lsh_assign 64 b k r0 in
  length out = length r0 /\ Forall (in_range b) out /\
  forall P, 2 * zn (length r0) * b + k <= P ->
    tor_abs P (val_scaled P b out - val_scaled (P + k) b r0) = 0.
Proof.
  intros Hk Hr. apply hrl_of_Forall in Hr. cbv zeta.
  destruct (lsh_assign_nth b Hb k r0 Hk Hr) as [L N].
  destruct (off_pos k Hk) as [Eo Hl].
  split; [exact L|]. split.
  - apply (window_balanced b (vin r0 (k mod b)) (zn (length r0) - k / b)); [lia|].
    intros i Hi. apply N. lia.
  - intros P HP.
    destruct (affine_window_value b P (k / b) (k mod b) 0 1 r0 r0 (lsh_assign 64 b k r0) Hb1 Hl
                ltac:(left; reflexivity) L
                ltac:(intros i Hi; rewrite N by lia; ring)
                ltac:(rewrite L, Eo; lia)) as [_ H2].
    cbv zeta in H2. rewrite L, Eo in H2. specialize (H2 ltac:(lia)).
    rewrite <- H2. f_equal. ring.
Qed.

Theorem lsh_value (ov : bool) (k : Z) (a r0 : list Z) : 0 <= k -> hr62 a -> (ov = false -> hr62 r0) ->
  let out := lsh 64 ov b k a r0 in
  length out = length r0 /\ (ov = true -> Forall (in_range b) out) /\
  forall P, zn (length r0) * b + zn (length a) * b + k <= P ->
    let D := tor_abs P (val_scaled P b out - (if ov then 0 else val_scaled P b r0)
                        - val_scaled (P + k) b a) in
    D <= 2 ^ (P - zn (length r0) * b) /\ (zn (length a) * b - k <= zn (length r0) * b -> D = 0).
Proof.
  intros Hk Ha Hr. apply hrl_of_Forall in Ha.
  assert (Hr' : ov = false -> hrl r0) by (intros E; apply hrl_of_Forall; apply Hr; exact E).
  cbv zeta.
  destruct (lsh_nth b Hb ov k a r0 Hk Ha Hr') as [L N].
  destruct (off_pos k Hk) as [Eo Hl].
  split; [exact L|]. split.
  - intros ->. apply (window_balanced b (vin a (k mod b)) (zn (length a) - k / b)); [lia|].
    intros i Hi. rewrite N by lia. ring.
  - intros P HP.
    pose proof (affine_window_value b P (k / b) (k mod b) (if ov then 0 else 1) 1 a r0 (lsh 64 ov b k a r0)
                  Hb1 Hl ltac:(left; reflexivity) L
                  ltac:(intros i Hi; rewrite N by lia; destruct ov; ring)
                  ltac:(rewrite L, Eo; lia)) as HV.
    cbv zeta in HV. rewrite L, Eo in HV.
    replace (val_scaled P b (lsh 64 ov b k a r0) - (if ov then 0 else val_scaled P b r0) - val_scaled (P + k) b a)
      with (val_scaled P b (lsh 64 ov b k a r0) - (if ov then 0 else 1) * val_scaled P b r0
            - 1 * val_scaled (P + k) b a) by (destruct ov; ring).
    exact HV.
Qed.

Theorem lsh_sub_value (k : Z) (a r0 : list Z) : 0 <= k -> hr62 a -> hr62 r0 ->
  let out := lsh_sub 64 b k a r0 in
  length out = length r0 /\
  forall P, zn (length r0) * b + zn (length a) * b + k <= P ->
    let D := tor_abs P (val_scaled P b out - val_scaled P b r0 + val_scaled (P + k) b a) in
    D <= 2 ^ (P - zn (length r0) * b) /\ (zn (length a) * b - k <= zn (length r0) * b -> D = 0).
Proof.
  intros Hk Ha Hr. apply hrl_of_Forall in Ha. apply hrl_of_Forall in Hr. cbv zeta.
  destruct (lsh_sub_nth b Hb k a r0 Hk Ha Hr) as [L N].
  destruct (off_pos k Hk) as [Eo Hl].
  split; [exact L|].
  intros P HP.
  pose proof (affine_window_value b P (k / b) (k mod b) 1 (-1) a r0 (lsh_sub 64 b k a r0)
                Hb1 Hl ltac:(right; reflexivity) L
                ltac:(intros i Hi; rewrite N by lia; ring)
                ltac:(rewrite L, Eo; lia)) as HV.
  cbv zeta in HV. rewrite L, Eo in HV.
  replace (val_scaled P b (lsh_sub 64 b k a r0) - val_scaled P b r0 + val_scaled (P + k) b a)
    with (val_scaled P b (lsh_sub 64 b k a r0) - 1 * val_scaled P b r0 - -1 * val_scaled (P + k) b a) by ring.
  exact HV.
Qed.

(* ---------- right shifts whose whole output is the window ---------- *)

Lemma off_neg (k : Z) : 0 <= k ->
  - zn (fst (rsh_params b k)) * b + snd (rsh_params b k) = - k /\ 0 <= snd (rsh_params b k) < b.
Proof. intros Hk. destruct (rsh_params_spec b k Hb1 Hk). lia. Qed.

Theorem rsh_assign_value (k : Z) (r0 : list Z) : 0 <= k -> hr62 r0 ->
  let out := rsh_assign 64 b k r0 in
  length out = length r0 /\ Forall (in_range b) out /\
  forall P, 2 * zn (length r0) * b + k <= P ->
    let D := tor_abs P (val_scaled P b out - val_scaled (P - k) b r0) in
    D <= 2 ^ (P - zn (length r0) * b) /\ (k = 0 -> D = 0).
Proof.
  intros Hk Hr. apply hrl_of_Forall in Hr. cbv zeta.
  destruct (rsh_assign_nth b Hb k r0 Hk Hr) as [L N]. cbv zeta in N.
  destruct (off_neg k Hk) as [Eo Hl].
  set (steps := fst (rsh_params b k)) in *. set (lsh := snd (rsh_params b k)) in *.
  split; [exact L|]. split.
  - apply (window_balanced b (vin r0 lsh) (zn (length r0) - - zn steps)); [lia|].
    intros i Hi. apply N. lia.
  - intros P HP.
    pose proof (affine_window_value b P (- zn steps) lsh 0 1 r0 r0 (rsh_assign 64 b k r0) Hb1 Hl
                  ltac:(left; reflexivity) L
                  ltac:(intros i Hi; rewrite N by lia; ring)
                  ltac:(rewrite L, Eo; lia)) as HV.
    cbv zeta in HV. rewrite L, Eo in HV.
    replace (val_scaled P b (rsh_assign 64 b k r0) - val_scaled (P - k) b r0)
      with (val_scaled P b (rsh_assign 64 b k r0) - 0 * val_scaled P b r0 - 1 * val_scaled (P + - k) b r0)
      by (replace (P + - k) with (P - k) by lia; ring).
    destruct HV as [H1 H2]. split; [exact H1|]. intros ->. apply H2. lia.
Qed.

Theorem rsh_ov_value (k : Z) (a r0 : list Z) : 0 <= k -> hr62 a ->
  let out := rsh 64 true b k a r0 in
  length out = length r0 /\ Forall (in_range b) out /\
  forall P, zn (length r0) * b + zn (length a) * b + k <= P ->
    let D := tor_abs P (val_scaled P b out - val_scaled (P - k) b a) in
    D <= 2 ^ (P - zn (length r0) * b) /\ (zn (length a) * b + k <= zn (length r0) * b -> D = 0).
Proof.
  intros Hk Ha. apply hrl_of_Forall in Ha. cbv zeta.
  destruct (rsh_ov_nth b Hb k a r0 Hk Ha) as [L N]. cbv zeta in N.
  destruct (off_neg k Hk) as [Eo Hl].
  set (steps := fst (rsh_params b k)) in *. set (lsh := snd (rsh_params b k)) in *.
  split; [exact L|]. split.
  - apply (window_balanced b (vin a lsh) (zn (length a) - - zn steps)); [lia|].
    intros i Hi. apply N. lia.
  - intros P HP.
    pose proof (affine_window_value b P (- zn steps) lsh 0 1 a r0 (rsh 64 true b k a r0) Hb1 Hl
                  ltac:(left; reflexivity) L
                  ltac:(intros i Hi; rewrite N by lia; ring)
                  ltac:(rewrite L, Eo; lia)) as HV.
    cbv zeta in HV. rewrite L, Eo in HV.
    replace (val_scaled P b (rsh 64 true b k a r0) - val_scaled (P - k) b a)
      with (val_scaled P b (rsh 64 true b k a r0) - 0 * val_scaled P b r0 - 1 * val_scaled (P + - k) b a)
      by (replace (P + - k) with (P - k) by lia; ring).
    destruct HV as [H1 H2]. split; [exact H1|]. intros Hx. apply H2. lia.
Qed.

End ShiftValue.
