(* C08, level 3, width-generic: closed forms (by index) of the right shifts at any word width w with w - 2 <= 63 b
   (so that the 64-step cap of the gap propagation saturates).  Port of Proofs/C08Rsh.v (which fixes w = 64). *)
From PV Require Import Base.MachineInt Model.Znx Model.Limbs Model.LimbsBig Model.C08Oracle
  Proofs.ZnxDigit Proofs.C08Steps Proofs.C08Chain Proofs.C08Loops Proofs.C08Value Proofs.C08Normalize Proofs.C08Shift
  Proofs.C08Rsh Proofs.C08WChain Proofs.C08WLoops Proofs.C08WNormalize Proofs.C08WCrossInner Proofs.C08WShift.
Open Scope Z_scope.

Section Rsh.
Variable w : Z.
Variable b : Z.
Hypothesis Hb : 1 <= b <= w - 2.
(* the cap 64 of the gap propagation saturates every carry within the headroom *)
Hypothesis Hcap : w - 2 <= 63 * b.

Let Hb1 : 1 <= b. Proof. lia. Qed.
Let HWp : 0 < 2 ^ (w - 2). Proof. apply pow2_pos; lia. Qed.
Let Hcap64 (gap : nat) : w - 2 <= (zn 64 - 1) * b \/ (gap <= 64)%nat. Proof. left. exact Hcap. Qed.

(* the top-phase input sequence `utop` and the carry `ctop` entering the top phase are those of Proofs/C08Rsh.v *)
Local Notation utop := C08Rsh.utop.
Local Notation ctop := (C08Rsh.ctop b).
Local Notation top_zero_window := (C08Rsh.top_zero_window b).

(* shared front part of rsh<ov> and rsh_sub: carry phase + middle phase *)
Lemma rsh_frontW (lsh : Z) (steps : nat) (a r1 : list Z)
    (mp : list Z * Z) (sg : Z) :
  0 <= lsh < b -> hrlw w a ->
  let rsz := length r1 in let asz := length a in
  let res_end := Nat.min rsz steps in
  let res_start := Nat.min rsz (asz + steps) in
  let a_start := Nat.min asz (rsz - steps) in
  let a_out := (asz - a_start)%nat in
  let mid := (res_start - res_end)%nat in
  let c0 := carry_phase w b lsh a asz a_out in
  (Z.abs c0 <= 2 ^ (w - 2) ->
   let u := fun t : nat => nthZ a (a_start - t - 1) * 2 ^ lsh in
   snd mp = car b u c0 mid /\ length (fst mp) = length r1 /\
   forall i, nthZ (fst mp) i =
     if (Nat.leb (res_start - mid) i && Nat.ltb i res_start && Nat.ltb i (length r1))%bool
     then sg * dig b u c0 (res_start - 1 - i) + nthZ r1 i else nthZ r1 i) ->
  snd mp = car b (vin a lsh) 0 asz /\ length (fst mp) = length r1 /\
  forall i, (i < rsz)%nat -> nthZ (fst mp) i =
    if Nat.ltb i res_end then nthZ r1 i
    else sg * dgz b (vin a lsh) (zn asz + zn steps - 1 - zn i) + nthZ r1 i.
Proof.
  intros Hl Ha rsz asz res_end res_start a_start a_out mid c0 HM.
  assert (Ec0 : c0 = car b (vin a lsh) 0 a_out).
  { unfold c0. rewrite (carry_phase_carW w b Hb lsh a asz a_out Hl Ha).
    apply (car_lowW b lsh a a_out). unfold a_out, asz. lia. }
  assert (Hc0 : Z.abs c0 <= 2 ^ (w - 2)) by (rewrite Ec0; apply (car_vin_hrW w b Hb); auto).
  destruct (HM Hc0) as (M1 & M2 & M3). clear HM Hc0.
  assert (Hshape : mid = a_start /\ (a_out + mid = asz)%nat /\ (res_start - mid = res_end)%nat)
    by (unfold mid, a_out, a_start, res_start, res_end; clear; lia).
  destruct Hshape as (S1 & S2 & S3).
  assert (Hu : forall t, (t < mid)%nat -> nthZ a (a_start - t - 1) * 2 ^ lsh = vin a lsh (a_out + t)%nat).
  { intros t Ht. symmetry. apply vin_at; fold asz; clear - Ht S1 S2; unfold a_out in *; lia. }
  split; [|split; [exact M2|]].
  - rewrite M1, Ec0. rewrite (car_piece b _ a lsh a_out mid Hu). rewrite S2. reflexivity.
  - intros i Hi. rewrite M3, S3. fold rsz.
    destruct (Nat.ltb_spec i rsz) as [_|]; [|lia]. rewrite Bool.andb_true_r.
    destruct (Nat.ltb_spec i res_end) as [Hi1|Hi1].
    + destruct (Nat.leb_spec res_end i); [lia|]. reflexivity.
    + destruct (Nat.leb_spec res_end i) as [_|]; [|lia]. cbn [andb].
      destruct (Nat.ltb_spec i res_start) as [Hi2|Hi2].
      * rewrite Ec0, (dig_piece b _ a lsh a_out mid (res_start - 1 - i) Hu) by lia.
        rewrite dgz_nonneg by (unfold zn; lia). f_equal. f_equal. f_equal.
        clear - Hi Hi1 Hi2 S1 S2 S3. unfold zn, a_out, a_start, res_start, res_end in *. lia.
      * rewrite dgz_neg; [lia|]. clear - Hi Hi2. unfold zn, res_start in *. lia.
Qed.

(* vec_znx_rsh<OVERWRITE>, stated with the decomposition (steps, lsh) of the shift *)
Theorem rsh_nthW (ov : bool) (k : Z) (a r0 : list Z) : 0 <= k -> hrlw w a -> (ov = false -> hrlw w r0) ->
  let steps := fst (rsh_params b k) in let lsh := snd (rsh_params b k) in
  let re := Nat.min (length r0) steps in
  let out := rsh w ov b k a r0 in
  length out = length r0 /\
  forall i, (i < length r0)%nat ->
    nthZ out i =
      if Nat.ltb i re
      then dig b (utop ov (if ov then lsh else 0) r0 re) (ctop lsh a (steps - re)) (re - 1 - i)
      else (if ov then 0 else nthZ r0 i) + dgz b (vin a lsh) (zn (length a) + zn steps - 1 - zn i).
Proof.
  intros Hk Ha Hr. cbv zeta. unfold rsh.
  destruct (rsh_params_spec b k Hb1 Hk) as [Hl _].
  destruct (rsh_params b k) as [steps lsh]. cbn [fst snd] in *.
  set (rsz := length r0). set (asz := length a).
  set (res_end := Nat.min rsz steps).
  set (res_start := Nat.min rsz (asz + steps)).
  set (a_start := Nat.min asz (rsz - steps)).
  set (a_out := (asz - a_start)%nat).
  set (mid := (res_start - res_end)%nat).
  set (r1 := if ov then zeros rsz else r0).
  assert (L1 : length r1 = rsz) by (unfold r1; destruct ov; [apply zeros_length|reflexivity]).
  assert (Hr1 : hrlw w r1) by (unfold r1; destruct ov; [apply hrlw_zeros|apply Hr; reflexivity]).
  assert (N1 : forall i, nthZ r1 i = if ov then 0 else nthZ r0 i)
    by (intros i; unfold r1; destruct ov; [apply nth_zeros|reflexivity]).
  set (c0 := carry_phase w b lsh a asz a_out).
  pose proof (rsh_frontW lsh steps a r1 (mid_phase w ov b lsh a res_start a_start mid (r1, c0)) 1 Hl Ha) as HF.
  cbv zeta in HF. rewrite L1 in HF. fold asz res_end res_start a_start a_out mid c0 in HF.
  destruct HF as (F1 & F2 & F3).
  { intros Hc0.
    destruct (mid_phase_specW w b Hb ov lsh a res_start a_start mid r1 c0 Hl Ha ltac:(intros; exact Hr1) Hc0
                ltac:(unfold mid; lia)) as (M1 & M2 & M3).
    split; [exact M1|]. split; [rewrite M2; exact L1|]. intros i. rewrite M3, L1, N1.
    match goal with |- context [if ?c then _ else _] => destruct c end; [|reflexivity].
    destruct ov; lia. }
  destruct (mid_phase w ov b lsh a res_start a_start mid (r1, c0)) as [r2 c2].
  cbn [fst snd] in F1, F2, F3.
  set (gap := (steps - res_end)%nat).
  assert (Hc2 : Z.abs c2 <= 2 ^ (w - 2)) by (rewrite F1; apply (car_vin_hrW w b Hb); auto).
  assert (Ec3 : gap_phase w b gap c2 = ctop lsh a gap).
  { rewrite gap_phase_c_64, (gap_phase_carW w b Hb 64 gap c2 Hc2 (Hcap64 gap)). rewrite F1. unfold C08Rsh.ctop. apply car_above. }
  rewrite Ec3.
  assert (Hc3 : Z.abs (ctop lsh a gap) <= 2 ^ (w - 2)) by (apply (car_vin_hrW w b Hb); auto).
  assert (Hl' : 0 <= (if ov then lsh else 0) < b) by (destruct ov; lia).
  assert (Htop : forall i, (i < res_end)%nat -> nthZ r2 i = if ov then 0 else nthZ r0 i).
  { intros i Hi. rewrite F3 by (unfold res_end in Hi; lia).
    destruct (Nat.ltb_spec i res_end); [apply N1|lia]. }
  destruct (top_phase_specW w b Hb false (if ov then lsh else 0) res_end r2 (ctop lsh a gap) Hl'
              ltac:(intros _ i Hi; rewrite Htop by exact Hi; destruct ov;
                    [pose proof HWp; cbn [Z.abs]; lia|apply Hr; reflexivity]) Hc3) as [T1 T2].
  cbv beta in T2.
  split; [rewrite T1; exact F2|].
  intros i Hi. rewrite T2, F2. fold rsz in Hi.
  destruct (Nat.ltb_spec i rsz) as [_|]; [|lia]. rewrite Bool.andb_true_r.
  destruct (Nat.ltb_spec i res_end) as [Hi1|Hi1].
  - apply dig_ext. intros t Ht. unfold C08Rsh.utop.
    destruct (Nat.ltb_spec t res_end) as [Htr|]; [|reflexivity].
    rewrite Htop by (clear - Htr; lia). destruct ov; reflexivity.
  - rewrite F3 by exact Hi. destruct (Nat.ltb_spec i res_end); [lia|]. rewrite N1. lia.
Qed.

(* overwrite: the whole output is the window *)
Theorem rsh_ov_nthW (k : Z) (a r0 : list Z) : 0 <= k -> hrlw w a ->
  let steps := fst (rsh_params b k) in let lsh := snd (rsh_params b k) in
  let out := rsh w true b k a r0 in
  length out = length r0 /\
  forall i, (i < length r0)%nat ->
    nthZ out i = dgz b (vin a lsh) (zn (length a) - (- zn steps) - 1 - zn i).
Proof.
  intros Hk Ha. cbv zeta.
  destruct (rsh_nthW true k a r0 Hk Ha ltac:(discriminate)) as [L N]. cbv zeta in N.
  split; [exact L|]. intros i Hi. rewrite N by exact Hi.
  set (steps := fst (rsh_params b k)). set (lsh := snd (rsh_params b k)).
  destruct (Nat.ltb_spec i (Nat.min (length r0) steps)) as [Hi1|Hi1].
  - rewrite top_zero_window by exact Hi1. f_equal. unfold zn. lia.
  - rewrite Z.add_0_l. f_equal. lia.
Qed.

(* vec_znx_rsh_sub *)
Theorem rsh_sub_nthW (k : Z) (a r0 : list Z) : 0 <= k -> hrlw w a -> hrlw w r0 ->
  let steps := fst (rsh_params b k) in let lsh := snd (rsh_params b k) in
  let re := Nat.min (length r0) steps in
  let out := rsh_sub w b k a r0 in
  length out = length r0 /\
  forall i, (i < length r0)%nat ->
    nthZ out i =
      if Nat.ltb i re
      then dig b (utop false 0 r0 re) (car b zseq (- car b (vin a lsh) 0 (length a)) (steps - re)) (re - 1 - i)
      else nthZ r0 i - dgz b (vin a lsh) (zn (length a) + zn steps - 1 - zn i).
Proof.
  intros Hk Ha Hr. cbv zeta. unfold rsh_sub.
  destruct (rsh_params_spec b k Hb1 Hk) as [Hl _].
  destruct (rsh_params b k) as [steps lsh]. cbn [fst snd] in *.
  set (rsz := length r0). set (asz := length a).
  set (res_end := Nat.min rsz steps).
  set (res_start := Nat.min rsz (asz + steps)).
  set (a_start := Nat.min asz (rsz - steps)).
  set (a_out := (asz - a_start)%nat).
  set (mid := (res_start - res_end)%nat).
  set (c0 := carry_phase w b lsh a asz a_out).
  pose proof (rsh_frontW lsh steps a r0 (mid_phase_sub w b lsh a res_start a_start mid (r0, c0)) (-1) Hl Ha) as HF.
  cbv zeta in HF. fold rsz asz res_end res_start a_start a_out mid c0 in HF.
  destruct HF as (F1 & F2 & F3).
  { intros Hc0.
    destruct (mid_phase_sub_specW w b Hb lsh a res_start a_start mid r0 c0 Hl Ha Hr Hc0
                ltac:(unfold mid; lia)) as (M1 & M2 & M3).
    split; [exact M1|]. split; [exact M2|]. intros i. rewrite M3. fold rsz.
    match goal with |- context [if ?c then _ else _] => destruct c end; [|reflexivity]. lia. }
  destruct (mid_phase_sub w b lsh a res_start a_start mid (r0, c0)) as [r2 c2].
  cbn [fst snd] in F1, F2, F3.
  set (gap := (steps - res_end)%nat).
  assert (Hc2 : Z.abs c2 <= 2 ^ (w - 2)) by (rewrite F1; apply (car_vin_hrW w b Hb); auto).
  assert (Eneg : wneg w c2 = - c2).
  { unfold wneg. apply wrap_id; [lia|]. unfold in_range. rewrite (pow_wd1 w ltac:(lia)). lia. }
  assert (Hn2 : Z.abs (- c2) <= 2 ^ (w - 2)) by lia.
  rewrite Eneg, gap_phase_c_64, (gap_phase_carW w b Hb 64 gap (- c2) Hn2 (Hcap64 gap)), F1.
  set (c3 := car b zseq (- car b (vin a lsh) 0 asz) gap).
  assert (Hc3 : Z.abs c3 <= 2 ^ (w - 2)).
  { apply (car_hrW w b Hb); [apply vboundW_zseq; auto|]. rewrite <- F1. exact Hn2. }
  assert (Htop : forall i, (i < res_end)%nat -> nthZ r2 i = nthZ r0 i).
  { intros i Hi. rewrite F3 by (unfold res_end in Hi; lia).
    destruct (Nat.ltb_spec i res_end); [reflexivity|lia]. }
  destruct (top_phase_specW w b Hb false 0 res_end r2 c3 ltac:(lia)
              ltac:(intros _ i Hi; rewrite Htop by exact Hi; apply Hr) Hc3) as [T1 T2].
  cbv beta in T2.
  split; [rewrite T1; exact F2|].
  intros i Hi. rewrite T2, F2. fold rsz in Hi |- *.
  destruct (Nat.ltb_spec i rsz) as [_|]; [|lia]. rewrite Bool.andb_true_r.
  destruct (Nat.ltb_spec i res_end) as [Hi1|Hi1].
  - apply dig_ext. intros t Ht. unfold C08Rsh.utop.
    destruct (Nat.ltb_spec t res_end) as [Htr|]; [|reflexivity].
    rewrite Htop by (clear - Htr; lia). reflexivity.
  - rewrite F3 by exact Hi. destruct (Nat.ltb_spec i res_end); [lia|]. lia.
Qed.

(* vec_znx_rsh_assign *)
Theorem rsh_assign_nthW (k : Z) (r0 : list Z) : 0 <= k -> hrlw w r0 ->
  let steps := fst (rsh_params b k) in let lsh := snd (rsh_params b k) in
  let out := rsh_assign w b k r0 in
  length out = length r0 /\
  forall i, (i < length r0)%nat ->
    nthZ out i = dgz b (vin r0 lsh) (zn (length r0) - (- zn steps) - 1 - zn i).
Proof.
  intros Hk Hr. cbv zeta. unfold rsh_assign.
  destruct (rsh_params_spec b k Hb1 Hk) as [Hl _].
  destruct (rsh_params b k) as [steps lsh]. cbn [fst snd] in *.
  set (sz := length r0). set (res_end := Nat.min steps sz).
  rewrite (carry_phase_carW w b Hb lsh r0 sz res_end Hl Hr).
  pose proof (car_lowW b lsh r0 res_end ltac:(unfold res_end, sz; lia)) as CL. fold sz in CL.
  rewrite CL. clear CL.
  set (c0 := car b (vin r0 lsh) 0 res_end).
  assert (Hc0 : Z.abs c0 <= 2 ^ (w - 2)) by (apply (car_vin_hrW w b Hb); auto).
  set (u := fun t : nat => nthZ r0 (sz - res_end - t - 1) * 2 ^ lsh).
  assert (Hu : vboundW w b u) by (apply vboundW_limbs; auto).
  pose proof (dloopW_spec w b Hb (fun j y c' => middle_step_assign w b lsh y c') (fun j d => d) u false
                sz res_end (sz - res_end) r0 c0 ltac:(lia) Hu Hc0) as HD.
  cbv zeta in HD. unfold dloopW in HD.
  destruct HD as (D1 & D2 & D3).
  { intros j Hj Hc'. unfold middle_step_assign. rewrite (mcW w b Hb) by (auto; apply Hr).
    cbn [fst snd]. split; [reflexivity|intros _; reflexivity]. }
  specialize (D1 eq_refl).
  destruct (fold_left _ (seq 0 (sz - res_end)) (r0, c0)) as [r1 c1].
  cbn [fst snd] in D1, D2, D3.
  assert (Hupiece : forall t, (t < sz - res_end)%nat -> u t = vin r0 lsh (res_end + t)%nat).
  { intros t Ht. unfold u. symmetry. apply vin_at; fold sz; lia. }
  assert (Ec1 : c1 = car b (vin r0 lsh) 0 sz).
  { rewrite D1. unfold c0. rewrite (car_piece b u r0 lsh res_end (sz - res_end) Hupiece).
    f_equal. unfold res_end. lia. }
  destruct (zero_range_spec r1 0 res_end) as [Z1 Z2].
  set (zr := zero_range r1 0 res_end) in *.
  set (gap := (steps - res_end)%nat).
  assert (Hc1 : Z.abs c1 <= 2 ^ (w - 2)) by (rewrite Ec1; apply (car_vin_hrW w b Hb); auto).
  assert (Ec3 : gap_phase w b gap c1 = ctop lsh r0 gap).
  { rewrite gap_phase_c_64, (gap_phase_carW w b Hb 64 gap c1 Hc1 (Hcap64 gap)). rewrite Ec1. unfold C08Rsh.ctop. apply car_above. }
  rewrite Ec3.
  assert (Hc3 : Z.abs (ctop lsh r0 gap) <= 2 ^ (w - 2)) by (apply (car_vin_hrW w b Hb); auto).
  assert (Hzr : forall i, (i < res_end)%nat -> nthZ zr i = 0).
  { intros i Hi. rewrite Z2. destruct (Nat.leb_spec 0 i); [|lia].
    destruct (Nat.ltb_spec i res_end); [reflexivity|lia]. }
  destruct (top_phase_specW w b Hb false lsh res_end zr (ctop lsh r0 gap) Hl
              ltac:(intros _ i Hi; rewrite Hzr by exact Hi; pose proof HWp; cbn [Z.abs]; lia) Hc3)
    as [T1 T2].
  cbv beta in T2.
  split; [rewrite T1, Z1; exact D2|].
  intros i Hi. rewrite T2, Z1, D2. fold sz in Hi |- *.
  destruct (Nat.ltb_spec i sz) as [_|]; [|lia]. rewrite Bool.andb_true_r.
  destruct (Nat.ltb_spec i res_end) as [Hi1|Hi1].
  - rewrite (dig_ext b _ (utop true lsh r0 res_end)).
    + rewrite top_zero_window by exact Hi1. fold sz. f_equal. unfold zn, gap, res_end in *. lia.
    + intros t Ht. unfold C08Rsh.utop. destruct (Nat.ltb_spec t res_end); [|reflexivity].
      rewrite Hzr by lia. reflexivity.
  - rewrite Z2. destruct (Nat.ltb_spec i res_end); [lia|]. rewrite Bool.andb_false_r.
    rewrite D3. fold sz.
    destruct (Nat.leb_spec (sz - (sz - res_end)) i) as [_|]; [|lia].
    destruct (Nat.ltb_spec i sz) as [_|]; [|lia]. cbn [andb].
    unfold c0. rewrite (dig_piece b u r0 lsh res_end (sz - res_end) (sz - 1 - i) Hupiece) by lia.
    rewrite dgz_nonneg by (unfold zn; lia). f_equal. unfold zn, res_end in *. lia.
Qed.

End Rsh.
