(* C18 — byte-level lemmas: structural `take`, little-endian words, header products. *)
From PV Require Import Base.MachineInt Model.C18Serial.
Open Scope Z_scope.

Definition u64 (v : Z) : Prop := 0 <= v < 2 ^ 64.
Definition u32 (v : Z) : Prop := 0 <= v < 2 ^ 32.

(* ---------- take ---------- *)
Lemma take_spec (k : nat) (s : bytes) :
  take k s = if (k <=? length s)%nat then Some (firstn k s, skipn k s) else None.
Proof.
  revert s; induction k as [|k IH]; intros s; cbn [take].
  - reflexivity.
  - destruct s as [|b t]; cbn [length firstn skipn]; [reflexivity|].
    rewrite IH. change (S k <=? S (length t))%nat with (k <=? length t)%nat.
    destruct (k <=? length t)%nat; reflexivity.
Qed.

Lemma take_some (k : nat) (s a r : bytes) : take k s = Some (a, r) -> s = a ++ r /\ length a = k.
Proof.
  rewrite take_spec. destruct (k <=? length s)%nat eqn:E; [|discriminate].
  intros H; inversion H; subst. apply Nat.leb_le in E. split.
  - symmetry; apply firstn_skipn.
  - apply firstn_length_le; exact E.
Qed.

Lemma take_none (k : nat) (s : bytes) : take k s = None -> (length s < k)%nat.
Proof.
  rewrite take_spec. destruct (k <=? length s)%nat eqn:E; [discriminate|].
  intros _. apply Nat.leb_gt in E. exact E.
Qed.

Lemma take_app (a t : bytes) : take (length a) (a ++ t) = Some (a, t).
Proof.
  rewrite take_spec, app_length.
  replace (length a <=? length a + length t)%nat with true by (symmetry; apply Nat.leb_le; lia).
  rewrite firstn_app, Nat.sub_diag, firstn_all, skipn_app, Nat.sub_diag, skipn_all. cbn [firstn skipn].
  rewrite app_nil_r. reflexivity.
Qed.

Lemma take_app_n (k : nat) (a t : bytes) : length a = k -> take k (a ++ t) = Some (a, t).
Proof. intros <-; apply take_app. Qed.

(* ---------- little endian ---------- *)
Lemma le_bytes_length (k : nat) (v : Z) : length (le_bytes k v) = k.
Proof. revert v; induction k; intros; cbn [le_bytes length]; auto. Qed.

Lemma pow256_S (k : nat) : 256 ^ Z.of_nat (S k) = 256 * 256 ^ Z.of_nat k.
Proof. rewrite Nat2Z.inj_succ, Z.pow_succ_r by lia. reflexivity. Qed.

Lemma le_val_le_bytes (k : nat) (v : Z) : 0 <= v < 256 ^ Z.of_nat k -> le_val (le_bytes k v) = v.
Proof.
  revert v; induction k as [|k IH]; intros v Hv.
  - cbn in Hv. cbn. lia.
  - rewrite pow256_S in Hv. cbn [le_bytes le_val].
    rewrite Z.mod_mod by lia.
    rewrite IH.
    + pose proof (Z.div_mod v 256 ltac:(lia)). lia.
    + split; [apply Z.div_pos; lia|]. apply Z.div_lt_upper_bound; lia.
Qed.

Lemma le_val_range (bs : bytes) : 0 <= le_val bs < 256 ^ Z.of_nat (length bs).
Proof.
  induction bs as [|b t IH].
  - cbn. lia.
  - cbn [le_val length]. rewrite pow256_S.
    pose proof (Z.mod_pos_bound b 256 ltac:(lia)). lia.
Qed.

Lemma pow256_4 : 256 ^ Z.of_nat 4 = 2 ^ 32. Proof. reflexivity. Qed.
Lemma pow256_8 : 256 ^ Z.of_nat 8 = 2 ^ 64. Proof. reflexivity. Qed.
Lemma pow256_1 : 256 ^ Z.of_nat 1 = 256. Proof. reflexivity. Qed.

Lemma rd_le (k : nat) (v : Z) (t : bytes) : 0 <= v < 256 ^ Z.of_nat k -> rd k (le_bytes k v ++ t) = Some (v, t).
Proof.
  intros Hv. unfold rd. rewrite (take_app_n k) by apply le_bytes_length.
  rewrite le_val_le_bytes by exact Hv. reflexivity.
Qed.

Lemma rd_some (k : nat) (s r : bytes) (v : Z) :
  rd k s = Some (v, r) -> 0 <= v < 256 ^ Z.of_nat k /\ (length s = k + length r)%nat /\ r = skipn k s.
Proof.
  unfold rd. destruct (take k s) as [[a r']|] eqn:E; [|discriminate].
  intros H; inversion H; subst. apply take_some in E. destruct E as [Hs Hl].
  split; [|split].
  - rewrite <- Hl. apply le_val_range.
  - rewrite Hs, app_length. lia.
  - rewrite Hs, skipn_app, Hl, Nat.sub_diag. rewrite <- Hl, skipn_all. reflexivity.
Qed.

Lemma rd_u64 (s r : bytes) (v : Z) : rd 8 s = Some (v, r) -> u64 v.
Proof. intros H; apply rd_some in H. destruct H as [H _]. rewrite pow256_8 in H. exact H. Qed.

Lemma rd_u32 (s r : bytes) (v : Z) : rd 4 s = Some (v, r) -> u32 v.
Proof. intros H; apply rd_some in H. destruct H as [H _]. rewrite pow256_4 in H. exact H. Qed.

(* ---------- header words ---------- *)
Lemma rd_fields_app (h : list Z) (t : bytes) :
  Forall u64 h -> rd_fields (length h) (hdr_bytes h ++ t) = Some (h, t).
Proof.
  induction h as [|x h IH]; intros HF.
  - reflexivity.
  - inversion HF; subst. cbn [length rd_fields hdr_bytes map concat].
    rewrite <- app_assoc. rewrite rd_le by (rewrite pow256_8; assumption).
    change (concat (map (le_bytes 8) h)) with (hdr_bytes h). rewrite IH by assumption. reflexivity.
Qed.

Lemma rd_fields_some (k : nat) (s r : bytes) (h : list Z) :
  rd_fields k s = Some (h, r) -> length h = k /\ Forall u64 h /\ (length r <= length s)%nat.
Proof.
  revert s h r; induction k as [|k IH]; intros s h r; cbn [rd_fields].
  - intros H; inversion H; subst. split; [reflexivity|split; [constructor|lia]].
  - destruct (rd 8 s) as [[v s']|] eqn:E; [|discriminate].
    destruct (rd_fields k s') as [[l s'']|] eqn:E2; [|discriminate].
    intros H; inversion H; subst. destruct (IH _ _ _ E2) as [Hl [HF Hlen]].
    pose proof (rd_u64 _ _ _ E). apply rd_some in E. destruct E as [_ [Hs _]].
    split; [cbn; lia|split; [constructor; assumption|lia]].
Qed.

Lemma hdr_bytes_length (h : list Z) : length (hdr_bytes h) = (8 * length h)%nat.
Proof.
  induction h as [|x h IH]; [reflexivity|].
  unfold hdr_bytes in *. cbn [map concat length]. rewrite app_length, le_bytes_length, IH. lia.
Qed.

(* ---------- products ---------- *)
Lemma pow64_pos : 0 < 2 ^ 64. Proof. reflexivity. Qed.

Lemma fold_mul_true (t : list Z) (a : Z) : snd (fold_left mul_step t (a, true)) = true.
Proof.
  revert a; induction t as [|f t IH]; intros a; [reflexivity|].
  cbn [fold_left]. unfold mul_step at 2. cbn [fst snd orb]. apply IH.
Qed.

(* the accumulator is always below 2^64 after the first step; we carry that fact *)
Lemma fold_mul_exact (t : list Z) (a : Z) :
  0 <= a < 2 ^ 64 -> Forall (fun f => 0 <= f) t ->
  snd (fold_left mul_step t (a, false)) = false ->
  fst (fold_left mul_step t (a, false)) = a * lprod t /\ 0 <= a * lprod t < 2 ^ 64.
Proof.
  revert a; induction t as [|f t IH]; intros a Ha HF Hs.
  - cbn [fold_left fst lprod fold_right]. lia.
  - inversion HF as [|? ? Hf HF']; subst.
    cbn [fold_left] in *. unfold mul_step at 2 in Hs. unfold mul_step at 2. cbn [fst snd orb] in *.
    destruct (2 ^ 64 <=? a * f) eqn:E.
    + rewrite fold_mul_true in Hs. discriminate.
    + apply Z.leb_gt in E.
      assert (Hp : 0 <= a * f < 2 ^ 64) by nia.
      unfold wrapu in *. rewrite Z.mod_small in * by exact Hp.
      destruct (IH (a * f) Hp HF' Hs) as [H1 H2].
      cbn [lprod fold_right]. change (fold_right Z.mul 1 t) with (lprod t).
      rewrite H1. split; [ring|]. replace (a * (f * lprod t)) with (a * f * lprod t) by ring. exact H2.
Qed.

Lemma lprod_nonneg (t : list Z) : Forall (fun f => 0 <= f) t -> 0 <= lprod t.
Proof.
  induction 1 as [|f t Hf _ IH]; cbn [lprod fold_right]; [lia|].
  change (fold_right Z.mul 1 t) with (lprod t). nia.
Qed.

Lemma chain_exact (fs : list Z) :
  Forall u64 fs -> fs <> [] -> snd (chain fs) = false ->
  fst (chain fs) = lprod fs /\ 0 <= lprod fs < 2 ^ 64.
Proof.
  intros HF Hne Hs. destruct fs as [|a t]; [congruence|].
  inversion HF as [|? ? Ha HF']; subst. unfold chain in *.
  assert (HF'' : Forall (fun f => 0 <= f) t).
  { eapply Forall_impl; [|exact HF']. unfold u64; intros; lia. }
  destruct (fold_mul_exact t a Ha HF'' Hs) as [H1 H2].
  cbn [lprod fold_right]. change (fold_right Z.mul 1 t) with (lprod t). split; assumption.
Qed.

(* conversely: a product that stays below 2^64 at every step does not raise the flag *)
Lemma fold_mul_noovf (t : list Z) (a : Z) :
  0 <= a < 2 ^ 64 -> Forall (fun f => 1 <= f) t -> a * lprod t < 2 ^ 64 ->
  snd (fold_left mul_step t (a, false)) = false.
Proof.
  revert a; induction t as [|f t IH]; intros a Ha HF Hp.
  - reflexivity.
  - inversion HF as [|? ? Hf HF']; subst.
    cbn [lprod fold_right] in Hp. change (fold_right Z.mul 1 t) with (lprod t) in Hp.
    assert (Hl : 1 <= lprod t).
    { clear -HF'. induction HF' as [|g t Hg _ IH]; cbn [lprod fold_right]; [lia|].
      change (fold_right Z.mul 1 t) with (lprod t). nia. }
    cbn [fold_left]. unfold mul_step at 2. cbn [fst snd orb].
    assert (Haf : 0 <= a * f < 2 ^ 64) by nia.
    replace (2 ^ 64 <=? a * f) with false by (symmetry; apply Z.leb_gt; lia).
    unfold wrapu. rewrite Z.mod_small by exact Haf.
    apply IH; [exact Haf|exact HF'|]. replace (a * f * lprod t) with (a * (f * lprod t)) by ring. exact Hp.
Qed.

Lemma chain_noovf_pos (fs : list Z) :
  Forall (fun f => 1 <= f) fs -> lprod fs < 2 ^ 64 -> snd (chain fs) = false.
Proof.
  intros HF Hp. destruct fs as [|a t]; [reflexivity|].
  inversion HF as [|? ? Ha HF']; subst. unfold chain.
  cbn [lprod fold_right] in Hp. change (fold_right Z.mul 1 t) with (lprod t) in Hp.
  assert (Hl : 1 <= lprod t).
  { clear -HF'. induction HF' as [|g t Hg _ IH]; cbn [lprod fold_right]; [lia|].
    change (fold_right Z.mul 1 t) with (lprod t). nia. }
  apply fold_mul_noovf; [nia|exact HF'|exact Hp].
Qed.

(* rx keeps the length of the receiving buffer *)
Lemma rx_length (partial : bool) (k : nat) (old s : bytes) :
  (k <= length old)%nat -> length (snd (fst (rx partial k old s))) = length old.
Proof.
  intros Hk. unfold rx. destruct (take k s) as [[a r]|] eqn:E; cbn [fst snd].
  - apply take_some in E. destruct E as [_ Hl]. rewrite app_length, skipn_length. lia.
  - apply take_none in E. destruct partial; [|reflexivity].
    rewrite app_length, skipn_length. lia.
Qed.

Lemma rx_ok (partial : bool) (k : nat) (old s d r : bytes) :
  rx partial k old s = (true, d, r) -> exists a, s = a ++ r /\ length a = k /\ d = a ++ skipn k old.
Proof.
  unfold rx. destruct (take k s) as [[a r']|] eqn:E; [|intros H; inversion H].
  intros H; inversion H; subst. apply take_some in E. destruct E as [Hs Hl]. exists a; auto.
Qed.

Lemma rx_app (partial : bool) (old a t : bytes) :
  rx partial (length a) old (a ++ t) = (true, a ++ skipn (length a) old, t).
Proof. unfold rx. rewrite take_app. reflexivity. Qed.
