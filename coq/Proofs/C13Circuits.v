(* C13 — the generated tables pass the reflective checker (vm_compute), hence, by check_sound,
   eval_strict_refines and the spec_<op>_correct lemmas, each compiled circuit computes its word operation
   for all 2^64 input pairs.  Also: the well-formedness facts of the property as Props. *)
From Coq Require Import ZArith List Bool Arith Lia.
From PV Require Import Model.C13Bdd Proofs.C13Eval Proofs.C13Check Proofs.C13Spec Gen.C13Circuits_gen.
Import ListNotations.

(* ------------------------------------------------------------------------------------------------ *)
(** * the circuits of the property *)
Definition circuit_add (i : nat) : circuit := circuit_at add_tab i.
Definition circuit_sub (i : nat) : circuit := circuit_at sub_tab i.
Definition circuit_sll (i : nat) : circuit := circuit_at sll_tab i.
Definition circuit_srl (i : nat) : circuit := circuit_at srl_tab i.
Definition circuit_sra (i : nat) : circuit := circuit_at sra_tab i.
Definition circuit_slt (i : nat) : circuit := circuit_at slt_tab i.
Definition circuit_sltu (i : nat) : circuit := circuit_at sltu_tab i.
Definition circuit_and (i : nat) : circuit := circuit_at and_tab i.
Definition circuit_or (i : nat) : circuit := circuit_at or_tab i.
Definition circuit_xor (i : nat) : circuit := circuit_at xor_tab i.
Definition circuit_identity (i : nat) : circuit := circuit_at identity_tab i.

(* ------------------------------------------------------------------------------------------------ *)
(** * reflection: the checker accepts every generated table *)
Lemma add_checked : check_family A_add add_hint add_tab = true. Proof. vm_compute. reflexivity. Qed.
Lemma sub_checked : check_family A_sub sub_hint sub_tab = true. Proof. vm_compute. reflexivity. Qed.
Lemma sll_checked : check_family A_sll sll_hint sll_tab = true. Proof. vm_compute. reflexivity. Qed.
Lemma srl_checked : check_family A_srl srl_hint srl_tab = true. Proof. vm_compute. reflexivity. Qed.
Lemma sra_checked : check_family A_sra sra_hint sra_tab = true. Proof. vm_compute. reflexivity. Qed.
Lemma slt_checked : check_family A_slt slt_hint slt_tab = true. Proof. vm_compute. reflexivity. Qed.
Lemma sltu_checked : check_family A_sltu sltu_hint sltu_tab = true. Proof. vm_compute. reflexivity. Qed.
Lemma and_checked : check_family A_and and_hint and_tab = true. Proof. vm_compute. reflexivity. Qed.
Lemma or_checked : check_family A_or or_hint or_tab = true. Proof. vm_compute. reflexivity. Qed.
Lemma xor_checked : check_family A_xor xor_hint xor_tab = true. Proof. vm_compute. reflexivity. Qed.
Lemma identity_checked : check_family A_identity identity_hint identity_tab = true. Proof. vm_compute. reflexivity. Qed.

(* ------------------------------------------------------------------------------------------------ *)
(** * circuit = word operation, for all inputs *)
Open Scope Z_scope.

Definition word32 (x : Z) : Prop := 0 <= x < 2 ^ 32.

Lemma family_correct (A : nat -> automaton) hints tab (op : Z -> Z -> Z) :
  (forall i, automaton_ok (A i)) ->
  check_family A hints tab = true ->
  (forall a b i, word32 a -> word32 b -> (i < 32)%nat -> run (A i) (env_of a b) = Z.testbit (op a b) (Z.of_nat i)) ->
  forall a b, 0 <= a < 2 ^ 32 -> 0 <= b < 2 ^ 32 -> forall i, (i < 32)%nat ->
  eval_stale (circuit_at tab i) (env_of a b) = Z.testbit (op a b) (Z.of_nat i).
Proof.
  intros Aok Hc Hspec a b Ha Hb i Hi.
  apply eval_strict_refines.
  rewrite (check_family_sound A hints tab Aok Hc i Hi). f_equal. apply Hspec; assumption.
Qed.

(* the strict evaluator never fails on a checked family: no node ever reads an undefined / out-of-range slot *)
Lemma family_strict_total (A : nat -> automaton) hints tab :
  (forall i, automaton_ok (A i)) -> check_family A hints tab = true ->
  forall i, (i < 32)%nat -> forall e, exists v, eval_strict (circuit_at tab i) e = Some v.
Proof. intros Aok Hc i Hi e. eexists. apply (check_family_sound A hints tab Aok Hc i Hi). Qed.

Lemma circuit_add_correct : forall a b, 0 <= a < 2 ^ 32 -> 0 <= b < 2 ^ 32 -> forall i, (i < 32)%nat ->
  eval_stale (circuit_add i) (env_of a b) = Z.testbit (op_add a b) (Z.of_nat i).
Proof. apply (family_correct A_add add_hint); [intro; apply A_carry_ok | exact add_checked |]. intros; apply spec_add_correct; assumption. Qed.

Lemma circuit_sub_correct : forall a b, 0 <= a < 2 ^ 32 -> 0 <= b < 2 ^ 32 -> forall i, (i < 32)%nat ->
  eval_stale (circuit_sub i) (env_of a b) = Z.testbit (op_sub a b) (Z.of_nat i).
Proof. apply (family_correct A_sub sub_hint); [intro; apply A_carry_ok | exact sub_checked |]. intros; apply spec_sub_correct; assumption. Qed.

Lemma circuit_sll_correct : forall a b, 0 <= a < 2 ^ 32 -> 0 <= b < 2 ^ 32 -> forall i, (i < 32)%nat ->
  eval_stale (circuit_sll i) (env_of a b) = Z.testbit (op_sll a b) (Z.of_nat i).
Proof. apply (family_correct A_sll sll_hint); [intro; apply A_shift_ok | exact sll_checked |]. unfold word32; intros; apply spec_sll_correct; lia. Qed.

Lemma circuit_srl_correct : forall a b, 0 <= a < 2 ^ 32 -> 0 <= b < 2 ^ 32 -> forall i, (i < 32)%nat ->
  eval_stale (circuit_srl i) (env_of a b) = Z.testbit (op_srl a b) (Z.of_nat i).
Proof. apply (family_correct A_srl srl_hint); [intro; apply A_shift_ok | exact srl_checked |]. unfold word32; intros; apply spec_srl_correct; lia. Qed.

Lemma circuit_sra_correct : forall a b, 0 <= a < 2 ^ 32 -> 0 <= b < 2 ^ 32 -> forall i, (i < 32)%nat ->
  eval_stale (circuit_sra i) (env_of a b) = Z.testbit (op_sra a b) (Z.of_nat i).
Proof. apply (family_correct A_sra sra_hint); [intro; apply A_shift_ok | exact sra_checked |]. unfold word32; intros; apply spec_sra_correct; lia. Qed.

Lemma circuit_slt_correct : forall a b, 0 <= a < 2 ^ 32 -> 0 <= b < 2 ^ 32 -> forall i, (i < 32)%nat ->
  eval_stale (circuit_slt i) (env_of a b) = Z.testbit (op_slt a b) (Z.of_nat i).
Proof. apply (family_correct A_slt slt_hint); [intro; apply A_cmp_ok | exact slt_checked |]. unfold word32; intros; apply spec_slt_correct; assumption. Qed.

Lemma circuit_sltu_correct : forall a b, 0 <= a < 2 ^ 32 -> 0 <= b < 2 ^ 32 -> forall i, (i < 32)%nat ->
  eval_stale (circuit_sltu i) (env_of a b) = Z.testbit (op_sltu a b) (Z.of_nat i).
Proof. apply (family_correct A_sltu sltu_hint); [intro; apply A_cmp_ok | exact sltu_checked |]. unfold word32; intros; apply spec_sltu_correct; assumption. Qed.

Lemma circuit_and_correct : forall a b, 0 <= a < 2 ^ 32 -> 0 <= b < 2 ^ 32 -> forall i, (i < 32)%nat ->
  eval_stale (circuit_and i) (env_of a b) = Z.testbit (op_and a b) (Z.of_nat i).
Proof. apply (family_correct A_and and_hint); [intro; apply A_bit_ok | exact and_checked |]. intros; apply spec_and_correct; assumption. Qed.

Lemma circuit_or_correct : forall a b, 0 <= a < 2 ^ 32 -> 0 <= b < 2 ^ 32 -> forall i, (i < 32)%nat ->
  eval_stale (circuit_or i) (env_of a b) = Z.testbit (op_or a b) (Z.of_nat i).
Proof. apply (family_correct A_or or_hint); [intro; apply A_bit_ok | exact or_checked |]. intros; apply spec_or_correct; assumption. Qed.

Lemma circuit_xor_correct : forall a b, 0 <= a < 2 ^ 32 -> 0 <= b < 2 ^ 32 -> forall i, (i < 32)%nat ->
  eval_stale (circuit_xor i) (env_of a b) = Z.testbit (op_xor a b) (Z.of_nat i).
Proof. apply (family_correct A_xor xor_hint); [intro; apply A_bit_ok | exact xor_checked |]. intros; apply spec_xor_correct; assumption. Qed.

Lemma circuit_identity_correct : forall a b, 0 <= a < 2 ^ 32 -> 0 <= b < 2 ^ 32 -> forall i, (i < 32)%nat ->
  eval_stale (circuit_identity i) (env_of a b) = Z.testbit (op_identity a b) (Z.of_nat i).
Proof. apply (family_correct A_identity identity_hint); [intro; apply A_identity_ok | exact identity_checked |]. intros; apply spec_identity_correct; assumption. Qed.

Close Scope Z_scope.

(* ------------------------------------------------------------------------------------------------ *)
(** * well-formedness of the tables, as Props *)

(* one table: positive declared width; length a positive multiple of it; every level has exactly that many
   nodes (the declared width covers every level); every input-bit index below the family's INPUT_BITS and
   every slot index below the width; the last chunk is [Cmux; Nonode; ...]; and no node of any level reads a
   slot the previous level left undefined (the strict evaluator, which treats that as an error, never fails) *)
Definition WellFormed (nin : nat) (c : circuit) : Prop :=
  c_nin c = nin /\
  0 < c_width c /\
  length (c_nodes c) mod c_width c = 0 /\ 0 < length (c_nodes c) /\
  (forall v hi lo, In (Cmux v hi lo) (c_nodes c) -> v < nin /\ hi < c_width c /\ lo < c_width c) /\
  (exists lv, levels_of c = Some lv /\ (forall L, In L lv -> length L = c_width c) /\
              exists v hi lo tl, last lv [] = Cmux v hi lo :: tl /\ Forall (fun nd => nd = Nonode) tl) /\
  (forall e, exists r, eval_strict c e = Some r).

(* a family: as many tables as declared output bits (at most 32: the remaining bits are the evaluator's zero),
   INPUT_BITS within what the input helper exposes (so get_bit never panics), every table well-formed *)
Definition FamilyWellFormed (nin nout helper_bits : nat) (tab : list circuit) : Prop :=
  length tab = nout /\ nout <= 32 /\ nin <= helper_bits /\
  forall i c, nth_error tab i = Some c -> WellFormed nin c /\ exec_safe helper_bits c = true.

Lemma last_shape_spec L : last_shape L = true ->
  exists v hi lo tl, L = Cmux v hi lo :: tl /\ Forall (fun nd => nd = Nonode) tl.
Proof.
  destruct L as [|[v hi lo| |] tl]; cbn [last_shape]; try discriminate.
  intros H. exists v, hi, lo, tl. split; [reflexivity|].
  apply Forall_forall. intros nd Hnd. rewrite forallb_forall in H. specialize (H nd Hnd).
  destruct nd; try discriminate. reflexivity.
Qed.

Lemma table_wf_spec c : table_wf c = true ->
  0 < c_width c /\
  length (c_nodes c) mod c_width c = 0 /\ 0 < length (c_nodes c) /\
  (forall v hi lo, In (Cmux v hi lo) (c_nodes c) -> v < c_nin c /\ hi < c_width c /\ lo < c_width c) /\
  (exists lv, levels_of c = Some lv /\ (forall L, In L lv -> length L = c_width c) /\
              exists v hi lo tl, last lv [] = Cmux v hi lo :: tl /\ Forall (fun nd => nd = Nonode) tl).
Proof.
  unfold table_wf. intros H.
  apply andb_true_iff in H as [H Hlv].
  apply andb_true_iff in H as [H Hrange].
  apply andb_true_iff in H as [H Hpos].
  apply andb_true_iff in H as [Hw Hmod].
  apply Nat.ltb_lt in Hw. apply Nat.eqb_eq in Hmod. apply Nat.ltb_lt in Hpos.
  split; [exact Hw|]. split; [exact Hmod|]. split; [exact Hpos|]. split.
  - intros v hi lo Hin. rewrite forallb_forall in Hrange. specialize (Hrange _ Hin).
    cbn [node_in_range] in Hrange.
    apply andb_true_iff in Hrange as [Hr Hlo]. apply andb_true_iff in Hr as [Hv Hhi].
    apply Nat.ltb_lt in Hv. apply Nat.ltb_lt in Hhi. apply Nat.ltb_lt in Hlo. auto.
  - destruct (levels_of c) as [lv|]; [|discriminate]. exists lv. split; [reflexivity|].
    apply andb_true_iff in Hlv as [Hlen Hlast]. split.
    + intros L HL. rewrite forallb_forall in Hlen. apply Nat.eqb_eq. apply Hlen; exact HL.
    + apply last_shape_spec; exact Hlast.
Qed.

Lemma family_wf_spec (A : nat -> automaton) hints nin nout hb tab :
  (forall i, automaton_ok (A i)) -> check_family A hints tab = true ->
  family_wf nin nout hb tab = true -> FamilyWellFormed nin nout hb tab.
Proof.
  intros Aok Hc H. unfold family_wf in H.
  apply andb_true_iff in H as [H Hall].
  apply andb_true_iff in H as [H Hnin].
  apply andb_true_iff in H as [Hlen Hnout].
  apply Nat.eqb_eq in Hlen. apply Nat.leb_le in Hnout. apply Nat.leb_le in Hnin.
  unfold FamilyWellFormed. split; [exact Hlen|]. split; [exact Hnout|]. split; [exact Hnin|].
  intros i c Hic.
  assert (Hin : In c tab) by (eapply nth_error_In; exact Hic).
  rewrite forallb_forall in Hall. specialize (Hall c Hin).
  apply andb_true_iff in Hall as [Hall Hsafe].
  apply andb_true_iff in Hall as [Hall Hwf].
  apply andb_true_iff in Hall as [Hcn Htab].
  apply Nat.eqb_eq in Hcn. split; [|exact Hsafe].
  destruct (table_wf_spec c Htab) as (W1 & W2 & W3 & W4 & W5).
  unfold WellFormed. rewrite Hcn in W4.
  split; [exact Hcn|]. split; [exact W1|]. split; [exact W2|]. split; [exact W3|].
  split; [exact W4|]. split; [exact W5|].
  intros e.
  assert (Hi : i < 32).
  { assert (i < length tab) by (apply nth_error_Some; congruence). lia. }
  assert (Hc_i : circuit_at tab i = c) by (unfold circuit_at; apply nth_error_nth; exact Hic).
  rewrite <- Hc_i. apply (family_strict_total A hints tab Aok Hc i Hi).
Qed.

Lemma add_wf : family_wf add_nin add_nout 64 add_tab = true. Proof. vm_compute. reflexivity. Qed.
Lemma sub_wf : family_wf sub_nin sub_nout 64 sub_tab = true. Proof. vm_compute. reflexivity. Qed.
Lemma sll_wf : family_wf sll_nin sll_nout 64 sll_tab = true. Proof. vm_compute. reflexivity. Qed.
Lemma srl_wf : family_wf srl_nin srl_nout 64 srl_tab = true. Proof. vm_compute. reflexivity. Qed.
Lemma sra_wf : family_wf sra_nin sra_nout 64 sra_tab = true. Proof. vm_compute. reflexivity. Qed.
Lemma slt_wf : family_wf slt_nin slt_nout 64 slt_tab = true. Proof. vm_compute. reflexivity. Qed.
Lemma sltu_wf : family_wf sltu_nin sltu_nout 64 sltu_tab = true. Proof. vm_compute. reflexivity. Qed.
Lemma and_wf : family_wf and_nin and_nout 64 and_tab = true. Proof. vm_compute. reflexivity. Qed.
Lemma or_wf : family_wf or_nin or_nout 64 or_tab = true. Proof. vm_compute. reflexivity. Qed.
Lemma xor_wf : family_wf xor_nin xor_nout 64 xor_tab = true. Proof. vm_compute. reflexivity. Qed.
(* identity is a one-word circuit: its input helper is the FheUintPrepared itself, 32 bits *)
Lemma identity_wf : family_wf identity_nin identity_nout 32 identity_tab = true. Proof. vm_compute. reflexivity. Qed.

Lemma wellformed_add : FamilyWellFormed add_nin add_nout 64 add_tab.
Proof. exact (family_wf_spec A_add add_hint _ _ _ _ (fun i => A_carry_ok false i) add_checked add_wf). Qed.
Lemma wellformed_sub : FamilyWellFormed sub_nin sub_nout 64 sub_tab.
Proof. exact (family_wf_spec A_sub sub_hint _ _ _ _ (fun i => A_carry_ok true i) sub_checked sub_wf). Qed.
Lemma wellformed_sll : FamilyWellFormed sll_nin sll_nout 64 sll_tab.
Proof. exact (family_wf_spec A_sll sll_hint _ _ _ _ (fun i => A_shift_ok Ksll i) sll_checked sll_wf). Qed.
Lemma wellformed_srl : FamilyWellFormed srl_nin srl_nout 64 srl_tab.
Proof. exact (family_wf_spec A_srl srl_hint _ _ _ _ (fun i => A_shift_ok Ksrl i) srl_checked srl_wf). Qed.
Lemma wellformed_sra : FamilyWellFormed sra_nin sra_nout 64 sra_tab.
Proof. exact (family_wf_spec A_sra sra_hint _ _ _ _ (fun i => A_shift_ok Ksra i) sra_checked sra_wf). Qed.
Lemma wellformed_slt : FamilyWellFormed slt_nin slt_nout 64 slt_tab.
Proof. exact (family_wf_spec A_slt slt_hint _ _ _ _ (fun i => A_cmp_ok true i) slt_checked slt_wf). Qed.
Lemma wellformed_sltu : FamilyWellFormed sltu_nin sltu_nout 64 sltu_tab.
Proof. exact (family_wf_spec A_sltu sltu_hint _ _ _ _ (fun i => A_cmp_ok false i) sltu_checked sltu_wf). Qed.
Lemma wellformed_and : FamilyWellFormed and_nin and_nout 64 and_tab.
Proof. exact (family_wf_spec A_and and_hint _ _ _ _ (fun i => A_bit_ok andb i) and_checked and_wf). Qed.
Lemma wellformed_or : FamilyWellFormed or_nin or_nout 64 or_tab.
Proof. exact (family_wf_spec A_or or_hint _ _ _ _ (fun i => A_bit_ok orb i) or_checked or_wf). Qed.
Lemma wellformed_xor : FamilyWellFormed xor_nin xor_nout 64 xor_tab.
Proof. exact (family_wf_spec A_xor xor_hint _ _ _ _ (fun i => A_bit_ok xorb i) xor_checked xor_wf). Qed.
Lemma wellformed_identity : FamilyWellFormed identity_nin identity_nout 32 identity_tab.
Proof. exact (family_wf_spec A_identity identity_hint _ _ _ _ A_identity_ok identity_checked identity_wf). Qed.
