(* C14: lookup_table_rotate is multiplication by Y^k in the big ring Z[Y]/(Y^(n*ext)+1) under interleaving. *)
From PV Require Import Base.MachineInt Model.Znx Model.Limbs Model.Ring Model.Poly Model.C14Lut Model.C14Spec.
From PV Require Import Proofs.C09Lists Proofs.C09Ring.
Open Scope Z_scope.

(* ------------------------------------------------------------------ interleave *)
Lemma interleave_length n parts : length (interleave n parts) = n.
Proof. unfold interleave. apply map_seq_length. Qed.

Lemma interleave_nth n parts u :
  (u < n)%nat -> nthZ (interleave n parts) u = nthZ (nth (u mod length parts) parts []) (u / length parts).
Proof. intros Hu. unfold interleave. rewrite nthZ_map_seq by auto. reflexivity. Qed.

Lemma nat_divmod_lin (c e r : nat) : (r < e)%nat -> ((c * e + r) mod e = r /\ (c * e + r) / e = c)%nat.
Proof.
  intros Hr. split.
  - rewrite Nat.add_comm, Nat.mod_add by lia. apply Nat.mod_small; auto.
  - rewrite Nat.div_add_l by lia. rewrite Nat.div_small by auto. lia.
Qed.

(* the negacyclic extension of an interleaving, at exponent q*e + r, is the extension of part r at exponent q *)
Lemma ext_interleave w (n : nat) (parts : list (list Z)) (q : Z) (r : nat) :
  (0 < n)%nat -> (r < length parts)%nat -> Forall (fun p => length p = n) parts ->
  ext w (interleave (n * length parts) parts) (q * Z.of_nat (length parts) + Z.of_nat r)
  = ext w (nth r parts []) q.
Proof.
  intros Hn Hr Hall.
  set (e := length parts) in *.
  assert (Hlen : length (nth r parts []) = n).
  { rewrite Forall_forall in Hall. apply Hall. apply nth_In. exact Hr. }
  destruct (exp_decomp (Z.of_nat n) q ltac:(lia)) as [q1 [c [Hq Hc]]].
  rewrite (ext_at_nat w (nth r parts []) q q1 c) by (rewrite Hlen; lia).
  rewrite (ext_at_nat w (interleave (n * e) parts) _ q1 (c * e + r)).
  - rewrite interleave_nth by nia. fold e.
    destruct (nat_divmod_lin c e r Hr) as [Hm Hd]. rewrite Hm, Hd. reflexivity.
  - rewrite interleave_length. rewrite Hq. rewrite !Nat2Z.inj_add, !Nat2Z.inj_mul. ring.
  - rewrite interleave_length. nia.
Qed.

(* ------------------------------------------------------------------ interleave is a bijection *)
Lemma deinterleave_interleave (n : nat) (parts : list (list Z)) :
  (0 < length parts)%nat -> Forall (fun p => length p = n) parts ->
  deinterleave (length parts) (interleave (n * length parts) parts) = parts.
Proof.
  intros He Hall. unfold deinterleave. rewrite interleave_length.
  set (e := length parts) in *.
  replace ((n * e) / e)%nat with n by (rewrite Nat.div_mul; lia).
  apply (nth_ext _ _ [] []).
  - rewrite map_seq_length. reflexivity.
  - intros i Hi. rewrite map_seq_length in Hi.
    rewrite nth_map_seq by auto.
    assert (Hlen : length (nth i parts []) = n).
    { rewrite Forall_forall in Hall. apply Hall. apply nth_In. exact Hi. }
    apply nthZ_ext.
    + rewrite map_seq_length. auto.
    + intros t Ht. rewrite map_seq_length in Ht.
      rewrite nthZ_map_seq by auto.
      rewrite interleave_nth by nia. fold e.
      destruct (nat_divmod_lin t e i Hi) as [Hm Hd]. rewrite Hm, Hd. reflexivity.
Qed.

Lemma interleave_deinterleave (n e : nat) (a : list Z) :
  (0 < e)%nat -> length a = (n * e)%nat ->
  interleave (n * e) (deinterleave e a) = a.
Proof.
  intros He Hl. apply nthZ_ext.
  - rewrite interleave_length; auto.
  - intros u Hu. rewrite interleave_length in Hu.
    rewrite interleave_nth by auto.
    unfold deinterleave at 1. rewrite map_seq_length.
    unfold deinterleave. rewrite Hl. replace ((n * e) / e)%nat with n by (rewrite Nat.div_mul; lia).
    pose proof (Nat.mod_upper_bound u e ltac:(lia)) as Hm.
    pose proof (Nat.div_mod u e ltac:(lia)) as Hdm.
    rewrite nth_map_seq by auto.
    assert (Hd : (u / e < n)%nat) by (apply Nat.div_lt_upper_bound; lia).
    rewrite map_seq_length.
    rewrite nthZ_map_seq by auto.
    f_equal. lia.
Qed.

Lemma deinterleave_shape (n e : nat) (a : list Z) :
  (0 < e)%nat -> length a = (n * e)%nat ->
  length (deinterleave e a) = e /\ Forall (fun p => length p = n) (deinterleave e a).
Proof.
  intros He Hl. unfold deinterleave. split; [apply map_seq_length|].
  apply Forall_forall. intros p Hp. apply in_map_iff in Hp. destruct Hp as [i [<- _]].
  rewrite map_seq_length, Hl. rewrite Nat.div_mul by lia. reflexivity.
Qed.

(* ------------------------------------------------------------------ arithmetic of k_pos *)
Lemma pow2_divides (a b : Z) : 0 <= a <= b -> exists c, 2 ^ b = c * 2 ^ a /\ 0 < c.
Proof.
  intros H. exists (2 ^ (b - a)). split; [|apply pow2_pos; lia].
  rewrite <- Z.pow_add_r by lia. f_equal. lia.
Qed.

(* if T divides 2^64, reduction mod 2^64 (either flavour) does not change the class mod T *)
Lemma mod_of_wrap (T c x : Z) : 0 < T -> 2 ^ 64 = c * T -> (wrap 64 x) mod T = x mod T.
Proof.
  intros HT Hc. destruct (wrap_exists 64 x ltac:(lia)) as [q Hq]. rewrite Hq, Hc.
  replace (x - q * (c * T)) with (x + (- q * c) * T) by ring. apply Z.mod_add. lia.
Qed.
Lemma mod_of_wrapu (T c x : Z) : 0 < T -> 2 ^ 64 = c * T -> (wrapu 64 x) mod T = x mod T.
Proof.
  intros HT Hc. unfold wrapu.
  pose proof (Z.div_mod x (2 ^ 64) ltac:(lia)) as Hd.
  replace (x mod 2 ^ 64) with (x - (x / 2 ^ 64) * 2 ^ 64) by lia. rewrite Hc.
  replace (x - x / (c * T) * (c * T)) with (x + (- (x / (c * T)) * c) * T) by ring. apply Z.mod_add. lia.
Qed.
Lemma mod_of_rem (T x : Z) : 0 < T -> (Z.rem x T) mod T = x mod T.
Proof.
  intros HT. pose proof (Z.quot_rem' x T) as H.
  replace (Z.rem x T) with (x + (- Z.quot x T) * T) by lia. apply Z.mod_add. lia.
Qed.

Lemma kpos_congr (n : nat) (e k c : Z) :
  let T := 2 * Z.of_nat n * e in
  0 < T -> 2 ^ 64 = c * T ->
  (lut_kpos n e k) mod T = k mod T.
Proof.
  intros T HT Hc. unfold lut_kpos. fold T.
  rewrite (mod_of_wrapu T c) by auto. rewrite mod_of_rem by auto.
  unfold wadd. rewrite (mod_of_wrap T c) by auto.
  replace (k + T) with (k + 1 * T) by ring. apply Z.mod_add. lia.
Qed.

Lemma kpos_nonneg (n : nat) (e k : Z) : 0 <= lut_kpos n e k.
Proof. unfold lut_kpos, wrapu. apply Z.mod_pos_bound. apply pow2_pos. lia. Qed.

(* no wrap-around at all when -T <= k and k + T fits: the code's own normalisation *)
Lemma kpos_small (n : nat) (e k : Z) :
  let T := 2 * Z.of_nat n * e in
  0 < T -> - T <= k -> k + T < 2 ^ 63 ->
  lut_kpos n e k = k mod T.
Proof.
  intros T HT Hlo Hhi. unfold lut_kpos. fold T.
  unfold wadd. rewrite wrap_id by (unfold in_range; replace (64 - 1) with 63 by lia; lia).
  rewrite Z.rem_mod_nonneg by lia.
  pose proof (Z.mod_pos_bound (k + T) T HT).
  pose proof (Z.mod_le (k + T) T ltac:(lia) HT).
  unfold wrapu. rewrite Z.mod_small by (pose proof (pow2_pos 63 ltac:(lia)); replace (2 ^ 64) with (2 * 2 ^ 63) by reflexivity; lia).
  replace (k + T) with (k + 1 * T) by ring. apply Z.mod_add. lia.
Qed.

(* ------------------------------------------------------------------ the rotation theorem *)
Lemma nth_skipn_g {A} (l : list A) s i d : nth i (skipn s l) d = nth (s + i) l d.
Proof.
  revert s; induction l as [|h t IH]; intros [|s]; cbn [skipn Nat.add nth]; try reflexivity.
  - destruct i; reflexivity.
  - apply IH.
Qed.
Lemma nth_firstn_g {A} (l : list A) s i d : (i < s)%nat -> nth i (firstn s l) d = nth i l d.
Proof.
  revert s i; induction l as [|h t IH]; intros [|s] [|i] Hi; cbn [firstn nth]; try reflexivity; try lia.
  apply IH; lia.
Qed.
Lemma lnth_vec_rotate_assign w p (pl : limbs) l :
  lnth (vec_rotate_assign w p pl) l = if Nat.ltb l (length pl) then znx_rotate w p (lnth pl l) else [].
Proof.
  unfold vec_rotate_assign, vec_unary_assign, lnth.
  destruct (Nat.ltb_spec l (length pl)).
  - rewrite (nth_indep _ [] (znx_rotate w p [])) by (rewrite map_length; auto).
    apply map_nth.
  - apply nth_overflow. rewrite map_length. auto.
Qed.

Lemma lut_wf_nth n size data i :
  lut_wf n size data -> (i < length data)%nat ->
  length (nth i data []) = size /\ forall l, (l < size)%nat -> length (lnth (nth i data []) l) = n.
Proof.
  intros Hwf Hi. unfold lut_wf in Hwf. rewrite Forall_forall in Hwf.
  destruct (Hwf (nth i data []) (nth_In _ _ Hi)) as [H1 H2]. split; auto.
  intros l Hl. rewrite Forall_forall in H2. apply H2. unfold lnth. apply nth_In. lia.
Qed.

Section Rotate.
Variables (n size : nat) (data : lut) (k : Z).
Let e := length data.
Let E := Z.of_nat e.
Let T := 2 * Z.of_nat n * E.
Hypothesis Hn : (0 < n)%nat.
Hypothesis He : (0 < e)%nat.
Hypothesis Hwf : lut_wf n size data.

Let kpos := lut_kpos n E k.
Let khi := kpos / E.
Let klo := kpos mod E.

Lemma klo_bound : 0 <= klo < E.
Proof. apply Z.mod_pos_bound. unfold E. lia. Qed.
Lemma kpos_split : kpos = khi * E + klo.
Proof. unfold khi, klo. pose proof (Z.div_mod kpos E ltac:(unfold E; lia)). lia. Qed.

Let r1 : lut := map (fun q : nat * limbs =>
                   let i := Z.of_nat (fst q) in
                   let p := if i <? E - klo then wrap 64 khi else wadd 64 (wrap 64 khi) 1 in
                   vec_rotate_assign 64 p (snd q))
                (combine (seq 0 (length data)) data).

Lemma r1_length : length r1 = e.
Proof. unfold r1. rewrite map_length, combine_length, seq_length. fold e. lia. Qed.

Lemma r1_nth j : (j < e)%nat ->
  nth j r1 [] = vec_rotate_assign 64 (if Z.of_nat j <? E - klo then wrap 64 khi else wadd 64 (wrap 64 khi) 1) (nth j data []).
Proof.
  intros Hj. unfold r1.
  set (g := fun q : nat * limbs => _).
  rewrite (nth_indep _ [] (g (0%nat, []))) by (rewrite map_length, combine_length, seq_length; fold e; lia).
  rewrite map_nth. rewrite combine_nth by (rewrite seq_length; reflexivity).
  rewrite seq_nth by (fold e; lia). reflexivity.
Qed.

Lemma rotate_unfold :
  lookup_table_rotate n k data = skipn (Z.to_nat (E - klo)) r1 ++ firstn (Z.to_nat (E - klo)) r1.
Proof. reflexivity. Qed.

Lemma rot_length : length (lookup_table_rotate n k data) = e.
Proof.
  rewrite rotate_unfold, app_length, skipn_length, firstn_length, r1_length.
  pose proof klo_bound. unfold E in *. lia.
Qed.

(* which rotated polynomial ends up at position i *)
Lemma rot_nth i : (i < e)%nat ->
  nth i (lookup_table_rotate n k data) [] =
  if Z.of_nat i <? klo then nth (Z.to_nat (E - klo) + i) r1 [] else nth (i - Z.to_nat klo) r1 [].
Proof.
  intros Hi. rewrite rotate_unfold. pose proof klo_bound as Hk. unfold E in Hk.
  destruct (Z.ltb_spec (Z.of_nat i) klo).
  - rewrite app_nth1 by (rewrite skipn_length, r1_length; unfold E; lia).
    rewrite nth_skipn_g. reflexivity.
  - rewrite app_nth2 by (rewrite skipn_length, r1_length; unfold E; lia).
    rewrite skipn_length, r1_length.
    rewrite nth_firstn_g by (unfold E in *; lia).
    f_equal. unfold E in *. lia.
Qed.

Lemma rot_wf : lut_wf n size (lookup_table_rotate n k data).
Proof.
  unfold lut_wf. apply Forall_forall. intros pl Hin.
  destruct (In_nth _ _ [] Hin) as [i [Hi0 Hpl]].
  assert (Hi : (i < e)%nat) by (exact (eq_ind _ (fun z => (i < z)%nat) Hi0 _ rot_length)).
  rewrite rot_nth in Hpl by auto. pose proof klo_bound as Hk. unfold E in Hk.
  assert (Hgen : forall j, (j < e)%nat ->
            length (nth j r1 []) = size /\ Forall (fun limb : list Z => length limb = n) (nth j r1 [])).
  { intros j Hj. rewrite r1_nth by auto.
    destruct (lut_wf_nth n size data j Hwf Hj) as [H1 H2].
    unfold vec_rotate_assign, vec_unary_assign. split; [rewrite map_length; auto|].
    apply Forall_forall. intros limb Hl. apply in_map_iff in Hl. destruct Hl as [l0 [<- Hl0]].
    rewrite rotate_length. destruct (In_nth _ _ [] Hl0) as [l [Hl Hx]]. rewrite <- Hx. apply H2. lia. }
  destruct (Z.ltb_spec (Z.of_nat i) klo); subst pl; apply Hgen; lia.
Qed.

(* exponents congruent mod 2n give the same extension *)
Lemma ext_congr w (a : list Z) (x y : Z) :
  (0 < length a)%nat -> x mod (2 * Z.of_nat (length a)) = y mod (2 * Z.of_nat (length a)) -> ext w a x = ext w a y.
Proof.
  intros Ha H. set (m := 2 * Z.of_nat (length a)) in *.
  pose proof (Z.div_mod x m ltac:(lia)). pose proof (Z.div_mod y m ltac:(lia)).
  replace x with (y + (x / m - y / m) * m) by lia. unfold m. apply ext_period. auto.
Qed.

(* 2N*ext divides 2^64 (N and ext powers of two, 2N*ext <= 2^64): what makes the `as usize` wrap harmless *)
Variable c : Z.
Hypothesis Hc : 2 ^ 64 = c * T.

Lemma two_n_divides : exists c2, 2 ^ 64 = c2 * (2 * Z.of_nat n).
Proof. exists (c * E). rewrite Hc. unfold T. ring. Qed.

Lemma rot_coeff (l u : nat) : (l < size)%nat -> (u < n * e)%nat ->
  nthZ (lut_big n (lookup_table_rotate n k data) l) u = ext 64 (lut_big n data l) (Z.of_nat u - k).
Proof.
  intros Hl Hu.
  pose proof klo_bound as Hk. pose proof kpos_split as Hsp.
  assert (HE : 0 < E) by (unfold E; lia).
  set (i := (u mod e)%nat). set (t := (u / e)%nat).
  assert (Hi : (i < e)%nat) by (apply Nat.mod_upper_bound; lia).
  assert (Ht : (t < n)%nat) by (apply Nat.div_lt_upper_bound; lia).
  assert (Hut : u = (t * e + i)%nat) by (pose proof (Nat.div_mod u e ltac:(lia)); unfold t, i; lia).
  unfold lut_big at 1. rewrite rot_length. rewrite interleave_nth by (fold e; lia).
  rewrite map_length, rot_length. fold i t.
  rewrite (nth_indep _ [] (lnth [] l)) by (rewrite map_length, rot_length; auto).
  rewrite (map_nth (fun p : limbs => lnth p l)).
  rewrite rot_nth by auto.
  destruct two_n_divides as [c2 Hc2].
  (* RHS: reduce k to kpos, then split the exponent *)
  assert (Hbig_len : length (lut_big n data l) = (n * e)%nat) by (unfold lut_big; rewrite interleave_length; reflexivity).
  assert (Hparts : Forall (fun p : list Z => length p = n) (map (fun p : limbs => lnth p l) data)).
  { apply Forall_forall. intros p Hp. apply in_map_iff in Hp. destruct Hp as [pl [<- Hin]].
    destruct (In_nth _ _ [] Hin) as [j [Hj Hx]]. rewrite <- Hx.
    apply (lut_wf_nth n size data j Hwf Hj); auto. }
  assert (HT2 : 2 * Z.of_nat (n * e) = T) by (unfold T, E; rewrite Nat2Z.inj_mul; ring).
  assert (HTpos : 0 < T) by (unfold T; nia).
  assert (Hkk : kpos mod T = k mod T) by (apply (kpos_congr n E k c); [exact HTpos | exact Hc]).
  assert (Hkc : (Z.of_nat u - k) mod (2 * Z.of_nat (n * e)) = (Z.of_nat u - kpos) mod (2 * Z.of_nat (n * e))).
  { rewrite HT2. rewrite (Zminus_mod _ k), <- Hkk, <- Zminus_mod. reflexivity. }
  rewrite (ext_congr 64 (lut_big n data l) _ (Z.of_nat u - kpos)) by (rewrite Hbig_len; auto; nia).
  unfold lut_big.
  assert (Hmaplen : length (map (fun p : limbs => lnth p l) data) = e) by (rewrite map_length; reflexivity).
  assert (Hutz : Z.of_nat u = Z.of_nat t * E + Z.of_nat i) by (rewrite Hut at 1; unfold E; lia).
  assert (Hexti : forall q (r : nat), (r < e)%nat ->
            ext 64 (interleave (n * length data) (map (fun p : limbs => lnth p l) data)) (q * E + Z.of_nat r)
            = ext 64 (lnth (nth r data []) l) q).
  { intros q r Hr.
    pose proof (ext_interleave 64 n (map (fun p : limbs => lnth p l) data) q r Hn ltac:(rewrite Hmaplen; exact Hr) Hparts) as HX.
    rewrite Hmaplen in HX.
    rewrite (nth_indep _ [] (lnth [] l)) in HX by (rewrite Hmaplen; exact Hr).
    rewrite (map_nth (fun p : limbs => lnth p l)) in HX. exact HX. }
  destruct (Z.ltb_spec (Z.of_nat i) klo) as [Hlt|Hge].
  - (* component i comes from component e - klo + i, rotated by khi + 1 *)
    set (j := (Z.to_nat (E - klo) + i)%nat).
    assert (Hj : (j < e)%nat) by (unfold j, E in *; lia).
    rewrite r1_nth by auto.
    destruct (Z.ltb_spec (Z.of_nat j) (E - klo)); [unfold j, E in *; lia|].
    rewrite lnth_vec_rotate_assign.
    destruct (lut_wf_nth n size data j Hwf Hj) as [Hs1 Hs2].
    rewrite Hs1. destruct (Nat.ltb_spec l size); [|lia].
    rewrite rotate_nth by (rewrite Hs2; auto).
    replace (Z.of_nat u - kpos) with ((Z.of_nat t - khi - 1) * E + Z.of_nat j)
      by (assert (Hjz : Z.of_nat j = E - klo + Z.of_nat i) by (unfold j; lia); lia).
    rewrite Hexti by exact Hj.
    apply ext_congr; [rewrite Hs2; auto|]. rewrite Hs2 by auto.
    rewrite Zminus_mod. unfold wadd. rewrite (mod_of_wrap _ c2) by (auto; lia).
    rewrite Zplus_mod. rewrite (mod_of_wrap _ c2) by (auto; lia).
    rewrite <- Zplus_mod, <- Zminus_mod. f_equal. lia.
  - set (j := (i - Z.to_nat klo)%nat).
    assert (Hj : (j < e)%nat) by (unfold j; lia).
    rewrite r1_nth by auto.
    destruct (Z.ltb_spec (Z.of_nat j) (E - klo)); [|unfold j, E in *; lia].
    rewrite lnth_vec_rotate_assign.
    destruct (lut_wf_nth n size data j Hwf Hj) as [Hs1 Hs2].
    rewrite Hs1. destruct (Nat.ltb_spec l size); [|lia].
    rewrite rotate_nth by (rewrite Hs2; auto).
    replace (Z.of_nat u - kpos) with ((Z.of_nat t - khi) * E + Z.of_nat j)
      by (assert (Hjz : Z.of_nat j = Z.of_nat i - klo) by (unfold j; lia); lia).
    rewrite Hexti by exact Hj.
    apply ext_congr; [rewrite Hs2; auto|]. rewrite Hs2 by auto.
    rewrite Zminus_mod. rewrite (mod_of_wrap _ c2) by (auto; lia).
    rewrite <- Zminus_mod. reflexivity.
Qed.

Theorem rotate_is_big_ring_rotation_gen (l : nat) : (l < size)%nat ->
  lut_big n (lookup_table_rotate n k data) l = monomial_mul 64 k (lut_big n data l).
Proof.
  intros Hl. apply nthZ_ext.
  - rewrite monomial_mul_length. unfold lut_big. rewrite !interleave_length, rot_length. reflexivity.
  - intros u Hu. unfold lut_big in Hu at 1. rewrite interleave_length, rot_length in Hu.
    rewrite rot_coeff by auto.
    rewrite monomial_mul_nth by (unfold lut_big; rewrite interleave_length; auto). reflexivity.
Qed.

End Rotate.

(* ------------------------------------------------------------------ N = 2^m, ext = 2^x *)
Lemma pow2_T_gen (m x : nat) : (m + x + 1 <= 64)%nat ->
  exists c, 2 ^ 64 = c * (2 * Z.of_nat (2 ^ m) * Z.of_nat (2 ^ x)).
Proof.
  intros H. exists (2 ^ (64 - (Z.of_nat m + Z.of_nat x + 1))).
  rewrite !Nat2Z.inj_pow. cbn [Z.of_nat Pos.of_succ_nat Pos.succ].
  replace (2 * 2 ^ Z.of_nat m * 2 ^ Z.of_nat x) with (2 ^ (Z.of_nat m + Z.of_nat x + 1))
    by (rewrite !Z.pow_add_r by lia; ring).
  rewrite <- Z.pow_add_r by lia. f_equal. lia.
Qed.

Theorem lut_rotate_is_big_ring_rotation (m x size : nat) (data : lut) (k : Z) :
  (m + x + 1 <= 62)%nat -> length data = (2 ^ x)%nat -> lut_wf (2 ^ m) size data ->
  length (lookup_table_rotate (2 ^ m) k data) = length data /\
  lut_wf (2 ^ m) size (lookup_table_rotate (2 ^ m) k data) /\
  forall l, (l < size)%nat ->
    lut_big (2 ^ m) (lookup_table_rotate (2 ^ m) k data) l = monomial_mul 64 k (lut_big (2 ^ m) data l).
Proof.
  intros Hmx Hlen Hwf.
  assert (Hn : (0 < 2 ^ m)%nat) by (pose proof (Nat.pow_nonzero 2 m ltac:(lia)); lia).
  assert (He : (0 < length data)%nat) by (rewrite Hlen; pose proof (Nat.pow_nonzero 2 x ltac:(lia)); lia).
  destruct (pow2_T_gen m x ltac:(lia)) as [c Hc]. rewrite <- Hlen in Hc.
  split; [apply rot_length; auto|]. split; [apply rot_wf; auto|].
  intros l Hl. apply (rotate_is_big_ring_rotation_gen (2 ^ m) size data k Hn He Hwf c Hc l Hl).
Qed.

(* the index normalisation `((k + 2N ext) % (2N ext)) as usize`: exact for -2N ext <= k (no wrap-around involved) ... *)
Theorem lut_kpos_exact (m x : nat) (k : Z) :
  (m + x + 1 <= 62)%nat ->
  let T := 2 * Z.of_nat (2 ^ m) * Z.of_nat (2 ^ x) in
  - T <= k < 2 ^ 62 -> lut_kpos (2 ^ m) (Z.of_nat (2 ^ x)) k = k mod T.
Proof.
  intros Hmx T Hk.
  assert (HT : 0 < T <= 2 ^ 62).
  { unfold T. rewrite !Nat2Z.inj_pow. cbn [Z.of_nat Pos.of_succ_nat Pos.succ].
    replace (2 * 2 ^ Z.of_nat m * 2 ^ Z.of_nat x) with (2 ^ (Z.of_nat m + Z.of_nat x + 1))
      by (rewrite !Z.pow_add_r by lia; ring).
    split; [apply pow2_pos; lia | apply Z.pow_le_mono_r; lia]. }
  apply kpos_small; fold T; try lia.
Qed.
(* ... and for every other k (k < -2N ext, or k + 2N ext overflowing i64) the value differs from k mod 2N ext by a multiple of
   2^64 only, which 2N ext divides: the rotation is still the right one (used in the theorem above) *)
Theorem lut_kpos_congruent (m x : nat) (k : Z) :
  (m + x + 1 <= 62)%nat ->
  let T := 2 * Z.of_nat (2 ^ m) * Z.of_nat (2 ^ x) in
  (lut_kpos (2 ^ m) (Z.of_nat (2 ^ x)) k) mod T = k mod T.
Proof.
  intros Hmx T. destruct (pow2_T_gen m x ltac:(lia)) as [c Hc].
  apply (kpos_congr (2 ^ m) (Z.of_nat (2 ^ x)) k c); [|exact Hc].
  pose proof (Nat.pow_nonzero 2 m ltac:(lia)). pose proof (Nat.pow_nonzero 2 x ltac:(lia)). nia.
Qed.
(* the wrap-around really happens: k = -2N ext - 1 at N = ext = 1 gives 2^64 - 1, not (k mod 2) = 1 *)
Theorem lut_kpos_wraps : lut_kpos 1 1 (-3) = 2 ^ 64 - 1 /\ (-3) mod 2 = 1.
Proof. split; reflexivity. Qed.

Theorem interleave_bijection :
  (forall (n : nat) (parts : list (list Z)),
     (0 < length parts)%nat -> Forall (fun p : list Z => length p = n) parts ->
     deinterleave (length parts) (interleave (n * length parts) parts) = parts) /\
  (forall (n e : nat) (a : list Z),
     (0 < e)%nat -> length a = (n * e)%nat ->
     interleave (n * e) (deinterleave e a) = a /\
     length (deinterleave e a) = e /\ Forall (fun p : list Z => length p = n) (deinterleave e a)).
Proof.
  split; [exact deinterleave_interleave|].
  intros n e a He Hl. split; [exact (interleave_deinterleave n e a He Hl) | exact (deinterleave_shape n e a He Hl)].
Qed.
