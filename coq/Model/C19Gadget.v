(* C19 model of the compressed gadget objects (GGLWE-shaped: GGLWE, switching / automorphism / tensor keys, the entries
   of a GGLWE->GGSW key; GGSW) at the level of cells and seeds.

   gglwe_compressed_encrypt_sk (encryption/compressed/gglwe.rs):
       source_xa = Source::new(seed); for col in 0..rank_in { for row in 0..dnum {
           (seed_c, src) = source_xa.branch();  seeds[row*rank_in + col] = seed_c;
           glwe_encrypt_sk_internal(.., res.at_mut(row, col), compressed = true, pt = row_pt(row, m_col), src, source_xe) } }
   ggsw_compressed_encrypt_sk: for row { for col in 0..rank+1 { seeds[row*(rank+1) + col] = ..; pt on column col } }
   decompress_gglwe / decompress_ggsw: cell (row, col) <- decompress_glwe(at(row, col)) with seed[slot(row, col)].
   `branch` draws 32 bytes = 4 consecutive u64 words of the parent stream; `stream_of` (ChaCha8 keyed by a seed) is a
   section variable; the error source is shared and sequential: the i-th encrypted cell consumes the i-th block. *)
From PV Require Import Base.MachineInt Model.Znx Model.Limbs Model.Flat Model.DftAbs Model.EncModel.
Open Scope Z_scope.

Definition drawn_seed (parent : nat -> Z) (i : nat) : list Z := map (fun t => parent (4 * i + t)%nat) (seq 0 4).

(* a compressed object: the list of writes (slot, (seed, body)) in the order the code performs them; a later write to the
   same slot would overwrite an earlier one *)
Definition cstore := list (nat * (list Z * option ccol)).
Definition find_slot (slot : nat) (l : cstore) : option (list Z * option ccol) :=
  fold_left (fun acc q => if Nat.eqb (fst q) slot then Some (snd q) else acc) l None.

(* loop nest `for a in 0..A { for b in 0..B { f a b } }` *)
Definition grid {T} (A B : nat) (f : nat -> nat -> T) : list T := flat_map (fun a => map (f a) (seq 0 B)) (seq 0 A).

Section Gadget.
Variable stream_of : list Z -> nat -> Z.
Variable wb : Z.

Definition compressed_cell (b : Z) (n size rout dsize : nat) (nk : Z) (sk : list poly) (parent : nat -> Z) (errs : nat -> poly)
           (slot row ptcol : nat) (m : poly) (i : nat) : nat * (list Z * option ccol) :=
  let seed := drawn_seed parent i in
  (slot, (seed, enc_sk_compressed wb b n size rout nk (Some (row_pt b n size dsize row m, ptcol)) sk (stream_of seed) (errs i))).

Definition gglwe_compressed_encrypt (b : Z) (n size rin rout dnum dsize : nat) (nk : Z) (ms : list poly) (sk : list poly)
           (parent : nat -> Z) (errs : nat -> poly) : cstore :=
  map (fun iq => let i := fst iq in let row := fst (snd iq) in let col := snd (snd iq) in
                 compressed_cell b n size rout dsize nk sk parent errs (gglwe_seed_slot rin row col) row O (nth col ms []) i)
      (combine (seq 0 (rin * dnum)) (grid rin dnum (fun col row => (row, col)))).

Definition ggsw_compressed_encrypt (b : Z) (n size rank dnum dsize : nat) (nk : Z) (m : poly) (sk : list poly)
           (parent : nat -> Z) (errs : nat -> poly) : cstore :=
  map (fun iq => let i := fst iq in let row := fst (snd iq) in let col := snd (snd iq) in
                 compressed_cell b n size rank dsize nk sk parent errs (ggsw_seed_slot rank row col) row col m i)
      (combine (seq 0 (dnum * S rank)) (grid dnum (S rank) (fun row col => (row, col)))).

(* decompress_glwe on the cell stored at `slot` *)
Definition decompress_cell (b : Z) (n size rout : nat) (obj : cstore) (slot : nat) : option (list ccol) :=
  match find_slot slot obj with
  | Some (seed, Some body) => Some (decompress_glwe b n size rout body (stream_of seed))
  | _ => None
  end.

End Gadget.
