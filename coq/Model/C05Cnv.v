(* C05 part 1 — the HAL bivariate convolution layer over EXACT integer polynomials.
   A prepared operand (CnvPVecL / CnvPVecR) denotes the list of the integer polynomials of its limbs
   (abstraction function, as DftAbs.v does for VecZnxDft); products are the exact negacyclic products `pmul` of
   DftAbs.v.  What is transcribed is the shape logic of
     poulpy-cpu-ref/src/reference/fft64/convolution.rs   (convolution_prepare*, convolution_apply_dft,
                                                           convolution_pairwise_apply_dft, convolution_by_const_apply,
                                                           reim4_convolution_1coeff_ref, i64_convolution_by_const_1coeff_ref)
     poulpy-cpu-ref/src/reference/ntt120/convolution.rs  (ntt120_cnv_prepare_*, ntt120_cnv_apply_dft, ..._pairwise_..., ..._by_const_apply)
   No proofs in this file. *)
From PV Require Import Base.MachineInt Model.Znx Model.Limbs Model.Flat Model.Ring Model.DftAbs.
Open Scope Z_scope.

(* ---------------- preparation ---------------- *)
(* reim_from_znx_masked / ntt_from_znx64_masked: `a[i] & mask` on i64 (two's complement = Z.land on Z) *)
Definition mask_limb (mask : Z) (l : list Z) : list Z := map (fun x => Z.land x mask) l.

(* cnv_prepare_left / cnv_prepare_right / each half of cnv_prepare_self, one column:
   the prepared vector has `psz` limbs; with min_size = min(psz, a.size): limbs j < min_size - 1 are those of `a`,
   limb min_size - 1 (the last ACTIVE one, not necessarily the last limb of `a`) is ANDed with `mask`,
   limbs j >= min_size are zero. *)
Definition cnv_prepare (n psz : nat) (mask : Z) (a : plimbs) : plimbs :=
  let min_size := Nat.min psz (length a) in
  mk psz (fun j => if Nat.ltb (S j) min_size then lim a j
                   else if Nat.ltb j min_size then mask_limb mask (lim a j)
                   else pzero n).

(* ---------------- one output coefficient (in Y) of the bivariate product ---------------- *)
(* reim4_convolution_1coeff_ref(k = K): zero if K >= a_size + b_size, else
   sum_{j = K.saturating_sub(a_size-1)}^{min(K+1, b_size)-1} a[K-j] * b[j], accumulated from zero in increasing j.
   The NTT120 kernel computes the same window (a_start = K+1-j_max, ell = j_max-j_min products). *)
Definition cnv_coeff (n : nat) (a b : plimbs) (K : nat) : list Z :=
  let asz := length a in let bsz := length b in
  if Nat.leb (asz + bsz) K then pzero n else
  let j_min := (K - (asz - 1))%nat in
  let j_max := Nat.min (K + 1) bsz in
  fold_left (fun acc j => padd acc (pmul (lim a (K - j)) (lim b j))) (seq j_min (j_max - j_min)) (pzero n).

(* number of computed output limbs:  FFT64: min(res_size, bound) ; NTT120: min(res_size, bound + 1 - offset)
   with bound = a_size + b_size - 1 and offset = min(cnv_offset, bound) *)
Definition cnv_bound (asz bsz : nat) : nat := (asz + bsz - 1)%nat.
Definition cnv_off (asz bsz cnv_offset : nat) : nat := Nat.min cnv_offset (cnv_bound asz bsz).
Definition cnv_min_size (fft : bool) (rsz asz bsz cnv_offset : nat) : nat :=
  if fft then Nat.min rsz (cnv_bound asz bsz)
  else Nat.min rsz (cnv_bound asz bsz + 1 - cnv_off asz bsz cnv_offset).

(* cnv_apply_dft on a destination with ONE column (what poulpy-core uses): output limbs 0..rsz *)
Definition cnv_apply (fft : bool) (n rsz cnv_offset : nat) (a b : plimbs) : plimbs :=
  let asz := length a in let bsz := length b in
  let o := cnv_off asz bsz cnv_offset in
  let ms := cnv_min_size fft rsz asz bsz cnv_offset in
  mk rsz (fun k => if Nat.ltb k ms then cnv_coeff n a b (k + o) else pzero n).

(* cnv_pairwise_apply_dft(i, j): i == j -> cnv_apply on column i ; else the two columns are added limb-wise first *)
Definition plimbs_add (a b : plimbs) : plimbs := map2 padd a b.
Definition cnv_pairwise (fft : bool) (n rsz cnv_offset : nat) (ai aj bi bj : plimbs) (same : bool) : plimbs :=
  if same then cnv_apply fft n rsz cnv_offset ai bi
  else cnv_apply fft n rsz cnv_offset (plimbs_add ai aj) (plimbs_add bi bj).

(* cnv_by_const_apply: `a` is used as it is (no preparation, no mask), b_j is the constant polynomial b_j;
   FFT64 accumulates with wrapping i64 arithmetic, NTT120 in i128 *)
Definition pconst (n : nat) (c : Z) : list Z := match n with O => [] | S m => c :: zeros m end.
Definition cnv_by_const (fft : bool) (n rsz cnv_offset : nat) (a : plimbs) (b : list Z) : plimbs :=
  let r := cnv_apply fft n rsz cnv_offset a (map (pconst n) b) in
  map (map (wrap (if fft then 64 else 128))) r.

(* ---------------- spec: explicit sum over index pairs ---------------- *)
Definition psumf (n : nat) (f : nat -> list Z) (m : nat) : list Z :=
  fold_left (fun acc q => padd acc (f q)) (seq 0 m) (pzero n).
(* coefficient of Y^K of (sum_i a_i Y^i) * (sum_j b_j Y^j) *)
Definition bivariate_coeff (n : nat) (a b : plimbs) (K : nat) : list Z :=
  psumf n (fun i => psumf n (fun j => if Nat.eqb (i + j) K then pmul (lim a i) (lim b j) else pzero n) (length b)) (length a).
(* the same sum, skipping the index pairs that cannot contribute (used by the executable oracle) *)
Definition bivariate_coeff_fast (n : nat) (a b : plimbs) (K : nat) : list Z :=
  psumf n (fun i => if Nat.leb i K && Nat.ltb (K - i) (length b) then pmul (lim a i) (lim b (K - i)) else pzero n) (length a).
Definition cnv_spec (n rsz cnv_offset : nat) (a b : plimbs) : plimbs :=
  mk rsz (fun k => bivariate_coeff_fast n a b (k + cnv_offset)).

(* ---------------- placement in the destination buffer (every column, flat order) ---------------- *)
Definition slot (n : nat) (data : list Z) (q : nat) : list Z := firstn n (skipn (n * q) data).
(* Both families address `res.at_mut(res_col, k)` for the computed limbs k < min_size and zero `res.at(res_col, j)` for
   j in min_size..res_size (FFT64 since the repair 2ac1856; before it the FFT64 kernels stored limb k at flat slot k of the
   whole buffer, ignoring res_col and res.cols()). *)
Definition cnv_store (n rcols rsz rcol ms : nat) (f : nat -> list Z) (r0 : list Z) : list Z :=
  concat (map (fun q =>
     let j := (q / rcols)%nat in let c := (q mod rcols)%nat in
     if Nat.eqb c rcol && Nat.leb ms j then pzero n
     else if Nat.eqb c rcol then f j else slot n r0 q) (seq 0 (rcols * rsz))).
(* what the API documents: column rcol receives the rsz output limbs, nothing else changes *)
Definition cnv_store_spec (n rcols rsz rcol : nat) (f : nat -> list Z) (r0 : list Z) : list Z :=
  concat (map (fun q => if Nat.eqb (q mod rcols) rcol then f (q / rcols)%nat else slot n r0 q) (seq 0 (rcols * rsz))).
