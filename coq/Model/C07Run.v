(* Executable entry point of the C07 model: DFT-domain operations observed in the coefficient domain.
   header: be n | rcols rsize rcol | acols asize acol | bcols bsize bcol | extra...
   output: [selected column, limb-major ; flags 1 1 1] *)
From PV Require Import Base.MachineInt Model.Znx Model.Limbs Model.Flat Model.Ring Model.DftAbs Model.C07Ntt120 Model.C07NttNet.
Open Scope Z_scope.

Definition p (ps : list Z) (i : nat) : Z := nth i ps 0.
Definition v (vs : list (list Z)) (i : nat) : list Z := nth i vs [].
Definition np (ps : list Z) (i : nat) : nat := Z.to_nat (p ps i).
Definition ex (ps : list Z) (i : nat) : Z := p ps (11 + i).
Definition nex (ps : list Z) (i : nat) : nat := Z.to_nat (ex ps i).

Definition colof (n cols size col : nat) (d : list Z) : plimbs := col_limbs n cols size d col.
Definition flat (l : plimbs) : list Z := concat l.
Definition okflags : list Z := [1; 1; 1].

Definition run_c07 (code : Z) (ps : list Z) (vs : list (list Z)) : option (list (list Z)) :=
  let n := np ps 1 in
  let rcols := np ps 2 in let rsz := np ps 3 in let rcol := np ps 4 in
  let acols := np ps 5 in let asz := np ps 6 in let acol := np ps 7 in
  let bcols := np ps 8 in let bsz := np ps 9 in let bcol := np ps 10 in
  let a := colof n acols asz acol (v vs 0) in
  let out l := Some [flat l; okflags] in
  match code with
  | 7001 | 7002 => out (dft_select n rsz (nex ps 0) (nex ps 1) a)
  | 7003 => out (dft_add n rsz a (colof n bcols bsz bcol (v vs 1)))
  | 7004 => out (dft_sub n rsz a (colof n bcols bsz bcol (v vs 1)))
  | 7005 => out (dft_add_assign a (colof n 1 rsz 0 (v vs 1)))
  | 7006 => out (dft_sub_assign a (colof n 1 rsz 0 (v vs 1)))
  | 7007 => out (dft_sub_negate_assign a (colof n 1 rsz 0 (v vs 1)))
  | 7008 => out (dft_add_scaled_assign (ex ps 0) a (colof n 1 rsz 0 (v vs 1)))
  | 7009 => out (mk rsz (fun _ => pzero n))
  | 7010 | 7011 => out (svp_apply n rsz (limb_at n acols (v vs 0) acol 0) (colof n bcols bsz bcol (v vs 1)))
  | 7012 => out (svp_apply_assign (limb_at n acols (v vs 0) acol 0) (colof n 1 rsz 0 (v vs 1)))
  | 7020 | 7021 =>
      let rows := nex ps 0 in let msize := nex ps 1 in let lo := nex ps 2 in
      (* a flat DFT layout: limb j, column ci at index j*acols+ci *)
      let aflat := fun q => limb_at n acols (v vs 0) (q mod acols) (q / acols) in
      (* MatZnx: row r, input column ci is a VecZnx with rcols columns and msize limbs, stored consecutively *)
      let blk := (n * rcols * msize)%nat in
      let mflat := fun q c => limb_at n rcols (skipn (q * blk) (v vs 1)) (c mod rcols) (c / rcols) in
      let f := vmp n rcols rsz acols asz rows msize lo aflat mflat in
      (* output: every column, column-major then limb *)
      Some [concat (map (fun co => concat (map (fun j => f (j * rcols + co)%nat) (seq 0 rsz))) (seq 0 rcols)); okflags]
  | _ => if 7200 <=? code then run_c07_net code ps vs else run_c07_ntt code ps vs
  end.

(* oracle.  C07's statement is "the coefficient-domain result equals the exact integer product / selection,
   limb for limb": DftAbs.v IS that exact-arithmetic specification, so the oracle compares the implementation's
   output with it (and requires the two-fill flags of C11). *)
Fixpoint eqzl (a b : list Z) : bool :=
  match a, b with
  | [], [] => true
  | x :: a', y :: b' => (x =? y) && eqzl a' b'
  | _, _ => false
  end.
Fixpoint eqzll (a b : list (list Z)) : bool :=
  match a, b with
  | [], [] => true
  | x :: a', y :: b' => eqzl x y && eqzll a' b'
  | _, _ => false
  end.

Definition oracle_c07 (code : Z) (ps : list Z) (vs outs : list (list Z)) : Z :=
  if 7200 <=? code then oracle_c07_net code ps vs outs else
  if 7100 <=? code then oracle_c07_ntt code ps vs outs else
  match run_c07 code ps vs with
  | Some expect => if eqzll expect outs then 1 else 0
  | None => 2
  end.
