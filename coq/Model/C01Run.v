(* Executable entry point of the C01 model (encrypt-then-decrypt).

   header (all codes):
     0 be | 1 n | 2 b (ciphertext base2k) | 3 size (ciphertext limbs) | 4 rank | 5 nk (NoiseInfos.k)
     6 psize (limbs of the plaintext given to encrypt) | 7 pb (base2k DECLARED by that plaintext)
     8 dsize (limbs of the plaintext given to decrypt) | 9 db (its base2k)
     10 eb = ceil(bound * scale) | 11 limb and 12 log2(scale) returned by NoiseInfos::target_limb_and_scale
     13 nk of the public key | 14 eb of the public key | 15.. informational (sigma, bound, secret distribution, seeds)
   vectors are limb-major flat words (limb j of a column = words [j*n, (j+1)*n)).

   1001 GLWE sk : vs = [pt; s (rank*n); ua (rank*size*n raw u64 of the mask source); e (n rounded samples)]
                  out = [ct (columns 0..rank, each size*n); decrypted plaintext (dsize*n); [limb; log2 scale]]
   1002 LWE sk  : vs = [pt (psize); s (n); ua (size*(n+1)); e (1)]
                  out = [ct (size*(n+1), limb-major, word 0 of each limb = body); decrypted (dsize); [limb; log2 scale]]
   1003 GLWE pk : vs = [pt; s; ua (mask stream of the public key); e_pk (n); u (n); es ((rank+1)*n)]
                  out = [pk (columns); ct (columns); decrypted; [limb; log2 scale]]
   1004 GLWE compressed sk: vs as 1001; out = [compressed body (size*n); decompressed ct; decrypted; [limb; log2 scale]]
   1006 GLWE pk, scratch independence: out = [[outputs equal under two garbage fills of the scratch]]
   1005 GLWE zero sk (glwe_encrypt_zero_sk: no plaintext): vs as 1001 with an empty plaintext; out as 1001
   Every scratch arena of the harness is pre-filled with garbage (two different fills must give the same outputs) and dirtied by a
   warm-up encryption: the model has no scratch input, so any dependence on it is a disagreement. *)
From PV Require Import Base.MachineInt Model.Znx Model.Limbs Model.Flat Model.DftAbs Model.EncModel.
Open Scope Z_scope.

Definition p (ps : list Z) (i : nat) : Z := nth i ps 0.
Definition v (vs : list (list Z)) (i : nat) : list Z := nth i vs [].
Definition np (ps : list Z) (i : nat) : nat := Z.to_nat (p ps i).

Definition wbig (be : Z) : Z := if be <=? 2 then 64 else 128.

(* flat limb-major words <-> coefficient-major column *)
Fixpoint chunks (n cnt : nat) (l : list Z) : list (list Z) :=
  match cnt with
  | O => []
  | S c => firstn n l :: chunks n c (skipn n l)
  end.
Definition to_ccol (n size : nat) (flat : list Z) : ccol := transpose n (chunks n size flat).
Definition of_ccol (n size : nat) (c : ccol) : list Z := concat (untranspose size c).
Definition to_cols (n size cols : nat) (flat : list Z) : list ccol :=
  map (to_ccol n size) (chunks (n * size) cols flat).
Definition of_cols (n size : nat) (cs : list ccol) : list Z := concat (map (of_ccol n size) cs).
Definition stream (l : list Z) : nat -> Z := fun i => nthZ l i.

Definition noise_out (nk b : Z) : list Z := [Z.of_nat (target_limb nk b); scale_log2 nk b].

Definition run_glwe_sk (compressed zero : bool) (ps : list Z) (vs : list (list Z)) : option (list (list Z)) :=
  let wb := wbig (p ps 0) in
  let n := np ps 1 in let b := p ps 2 in let size := np ps 3 in let rank := np ps 4 in let nk := p ps 5 in
  let psize := np ps 6 in let dsize := np ps 8 in let db := p ps 9 in
  let pt := to_ccol n psize (v vs 0) in
  let sk := chunks n rank (v vs 1) in
  let us := stream (v vs 2) in
  let e := v vs 3 in
  (* glwe_encrypt_sk / glwe_compressed_encrypt_sk: assert_eq!(pt.base2k(), res.base2k()) *)
  if negb zero && negb (p ps 7 =? b) then None else
  let ptopt := if zero then None else Some (pt, O) in
  if compressed then
    match enc_sk_compressed wb b n size rank nk ptopt sk us e with
    | None => None
    | Some body =>
        let ct := decompress_glwe b n size rank body us in
        match dec_glwe wb b db n size dsize sk ct with
        | None => None
        | Some d => Some [of_ccol n size body; of_cols n size ct; of_ccol n dsize d; noise_out nk b]
        end
    end
  else
    match enc_sk wb b n size rank nk ptopt sk us e with
    | None => None
    | Some ct =>
        match dec_glwe wb b db n size dsize sk ct with
        | None => None
        | Some d => Some [of_cols n size ct; of_ccol n dsize d; noise_out nk b]
        end
    end.

Definition run_lwe_sk (ps : list Z) (vs : list (list Z)) : option (list (list Z)) :=
  let n := np ps 1 in let b := p ps 2 in let size := np ps 3 in let nk := p ps 5 in
  let dsize := np ps 8 in let db := p ps 9 in
  let pt := v vs 0 in let s := v vs 1 in let us := stream (v vs 2) in let e := nthZ (v vs 3) 0 in
  let a := lwe_mask b n size us in
  (* lwe_encrypt_sk: assert_eq!(pt.base2k(), res.base2k()) *)
  if negb (p ps 7 =? b) then None else
  match lwe_enc_body b size nk pt s a e with
  | None => None
  | Some body =>
      match lwe_dec b db size dsize s a body with
      | None => None
      | Some d =>
          Some [concat (map (fun j => nthZ body j :: nth j a []) (seq 0 size)); d; noise_out nk b]
      end
  end.

Definition run_glwe_pk (ps : list Z) (vs : list (list Z)) : option (list (list Z)) :=
  let wb := wbig (p ps 0) in
  let n := np ps 1 in let b := p ps 2 in let size := np ps 3 in let rank := np ps 4 in let nk := p ps 5 in
  let psize := np ps 6 in let dsize := np ps 8 in let db := p ps 9 in let nkp := p ps 13 in
  let pt := to_ccol n psize (v vs 0) in
  let sk := chunks n rank (v vs 1) in
  let us := stream (v vs 2) in
  let epk := v vs 3 in let u := v vs 4 in let es := chunks n (S rank) (v vs 5) in
  if negb (p ps 7 =? b) then None (* glwe_encrypt_pk_internal: assert_eq!(pt.base2k(), pk.base2k()) *) else
  match enc_sk wb b n size rank nkp None sk us epk with
  | None => None
  | Some pk =>
      match enc_pk wb b n size size nk (Some pt) u pk es with
      | None => None
      | Some ct =>
          match dec_glwe wb b db n size dsize sk ct with
          | None => None
          | Some d => Some [of_cols n size pk; of_cols n size ct; of_ccol n dsize d; noise_out nk b]
          end
      end
  end.

Definition run_c01 (code : Z) (ps : list Z) (vs : list (list Z)) : option (list (list Z)) :=
  match code with
  | 1001 => run_glwe_sk false false ps vs
  | 1005 => run_glwe_sk false true ps vs
  | 1002 => run_lwe_sk ps vs
  | 1003 => run_glwe_pk ps vs
  | 1004 => run_glwe_sk true false ps vs
  | 1006 =>
      (* glwe_encrypt_pk on a zeroed scratch arena and under two garbage fills: all outputs coincide (since fb6b3bd the ephemeral
         secret of a Distribution::ZERO key is zeroed instead of being left as the scratch holds it) *)
      if p ps 7 =? p ps 2 then Some [[1]] else None
  | _ => None
  end.
