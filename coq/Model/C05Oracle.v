(* Direct oracle of C05: the property statement evaluated on IMPLEMENTATION outputs with spec-level notions
   (exact negacyclic products, value of a limb vector on the torus as a scaled integer, explicit envelopes).
   1 = holds, 0 = fails, 2 = not applicable.

   Position rule (derived from poulpy-core/src/operations/glwe.rs):
     an operand column with limbs L_0 .. L_{sz-1} of radix 2^ab denotes  val(L) = sum_u L_u 2^{-(u+1) ab}  on the torus;
     the convolution with offset hi puts  sum_{u+v = k+hi} A_u * B_v  in limb k of radix 2^ab, i.e. val(big) = val(A) val(B) 2^{(hi+1) ab}
     (pairs with u+v < hi are integers, they vanish on the torus); the normalisation with res_offset = lo multiplies by 2^lo;
     since hi*ab + lo = cnv_offset - ab in both branches of the split (C05_cnv_offset_split_correct):
         phase(res) = phase(a) * phase(b) * 2^{cnv_offset}            (mod 1)
     where the operands are taken with their top limb masked to the effective precision (msb_mask_bottom_limb), so
     cnv_offset is a number of BITS: with cnv_offset = 0 the product of two values in [-1/2,1/2) is returned unscaled.
   Envelope (coefficient-wise, worst case; P is the common scale, R = res_size * res_base2k):
     E_norm  = 2^{P-R} * sum_{columns} c_col * |sk_col|_1      one unit of the result's last limb per big-normalisation
                                                                (c = 1 for a directly normalised column, 3 for a tensor cross column
                                                                 = pairwise - diag_i - diag_j, each normalised separately)
     E_trunc = sum_{(u,v) : u+v >= hi + dsz} 2^{P + cnv - (u+v+2) ab} * M * S      limbs of the product beyond the dsz limbs of the
                                                                DFT temporary (normalize_input_limb_bound_with_offset / res.size())
               M = n * 2^{2ab-2} for polynomial * polynomial, 2^{2ab-2} for polynomial * constant (balanced digits),
               S = sum over the (ordered) secret products involved of their 1-norm.
   Relinearisation (level 2): phase_s(relin) - phase_{(1,s,s(x)s)}(tensor) is bounded by the gadget bound
     pairs * dnum * n * 2^{dsize*kb} * B * 2^{-k_tsk}   (B = 20 >= 6 sigma, sigma = 3.2; digit chunks of dsize limbs, key error at 2^{-k_tsk})
     + dropped digits  pairs * n^2 * 2^{-dnum*dsize*kb}  (if the key has fewer digits than the tensor has limbs)
     + 4 (1 + rank n + pairs n^2) units of the coarsest precision involved (conversions, final normalisation).
   No proofs in this file. *)
From PV Require Import Base.MachineInt Model.Znx Model.Limbs Model.LimbsBig Model.Flat Model.Ring Model.DftAbs
  Model.C05Cnv Model.C05Spec Model.C05Core Model.C05Run.
From PV Require Model.Gadget Model.C05Relin.
Open Scope Z_scope.

Definition ob (b : bool) : Z := if b then 1 else 0.
Definition list_eqb (a b : list Z) : bool := Nat.eqb (length a) (length b) && forallb (fun q => fst q =? snd q) (combine a b).

(* ---------------- spec-level polynomial helpers: C05Spec.v ---------------- *)
Definition tor_dist (P : Z) (x y : list Z) : Z := norminf (map (wrap P) (psub x y)).
Definition sum1 (l : list (list Z)) : Z := fold_left (fun acc q => acc + norm1 q) l 0.

(* sum over the dropped index pairs of 2^(P + cnv - (u+v+2) ab) *)
Definition dropped_weight (P cnv ab : Z) (asz bsz lim0 : nat) : Z :=
  fold_left (fun acc u => fold_left (fun acc v =>
     if Nat.leb lim0 (u + v) then acc + 2 ^ (P + cnv - (zn u + zn v + 2) * ab) else acc) (seq 0 bsz) acc) (seq 0 asz) 0.

(* synthetic ternary secret for the keyless records (the phase identity holds for every secret) *)
Definition synth_sk (n rank : nat) (seed : Z) : list (list Z) :=
  map (fun i => map (fun c => (zn c * 5 + zn i * 3 + seed) mod 3 - 1) (seq 0 n)) (seq 1 rank).

(* ---------------- part 1 ---------------- *)
Definition oracle_hal (code : Z) (ps : list Z) (vs outs : list (list Z)) : Z :=
  let n := np ps 1 in
  let rcols := np ps 2 in let rsz := np ps 3 in let rcol := np ps 4 in
  let off := np ps 13 in
  let '(A, B) := hal_operands code ps vs in
  let want := cnv_store_spec n rcols rsz rcol (fun k => bivariate_coeff_fast n A B (k + off)) (v vs 2) in
  ob (list_eqb want (v outs 0) && list_eqb (v outs 1) [1]).

(* ---------------- part 2 ---------------- *)
(* tensor: phase_{(1,s,s(x)s)}(res) [- phase(res0)] = phase_s(a) phase_s(b) 2^cnv within E_norm + E_trunc *)
Definition tensor_phase_ok (n : nat) (mode cnv : Z) (rank : nat) (ab rb a_k b_k : Z)
           (a b res0 res1 : list limbs) (sk : list (list Z)) : bool :=
  let cols := S rank in
  let asz := length (colsel a 0) in let bsz := length (colsel b 0) in let rsz := length (colsel res1 0) in
  let Qa := zn asz * ab in let Qb := zn bsz * ab in let R := zn rsz * rb in
  let P := R + Qa + Qb + cnv in
  let A := prep_cols n asz (msb_mask ab a_k) a in
  let B := prep_cols n bsz (msb_mask ab b_k) b in
  let k1 := key1 n sk in let k2 := key2 n sk in
  let want := pscale (2 ^ (P - Qa - Qb + cnv)) (pmul (phase n Qa ab A k1) (phase n Qb ab B k1)) in
  let have1 := pscale (2 ^ (P - R)) (phase n R rb res1 k2) in
  let have := if mode =? 1 then psub have1 (pscale (2 ^ (P - R)) (phase n R rb res0 k2)) else have1 in
  let '(hi, lo) := offset_split ab cnv in
  let hi := Z.to_nat hi in
  let dsz := tensor_dsz asz bsz hi rsz rb ab lo in
  let e_norm := 2 ^ (P - R) * fold_left (fun acc q => acc + (if Nat.eqb (fst (fst q)) (snd (fst q)) then 1 else 3) * norm1 (snd q))
                                        (combine (tpairs cols) k2) 0 in
  let s_all := fold_left (fun acc si => fold_left (fun acc sj => acc + norm1 (pmul si sj)) k1 acc) k1 0 in
  let e_trunc := dropped_weight P cnv ab asz bsz (hi + dsz) * (zn n * 2 ^ (2 * ab - 2)) * s_all in
  tor_dist P have want <=? e_norm + e_trunc.

(* mul_plain / mul_const: phase_s(res) = phase_s(a) * val(b) * 2^cnv *)
Definition mul_phase_ok (n : nat) (is_const assign : bool) (cnv : Z) (ab rb a_k b_k : Z)
           (a : list limbs) (b : plimbs) (res1 : list limbs) (sk : list (list Z)) : bool :=
  let asz := length (colsel a 0) in let bsz := length b in let rsz := length (colsel res1 0) in
  let Qa := zn asz * ab in let Qb := zn bsz * ab in let R := zn rsz * rb in
  let P := R + Qa + Qb + cnv in
  let A := if is_const then a else prep_cols n asz (msb_mask ab a_k) a in
  let B := if is_const then b else cnv_prepare n bsz (msb_mask ab b_k) b in
  let k1 := key1 n sk in
  let want := pscale (2 ^ (P - Qa - Qb + cnv)) (pmul (phase n Qa ab A k1) (pval n Qb ab B)) in
  let have := pscale (2 ^ (P - R)) (phase n R rb res1 k1) in
  let '(hi, lo) := offset_split ab cnv in
  let hi := Z.to_nat hi in
  let dsz := if is_const && assign then rsz else (asz + bsz - hi)%nat in
  let e_norm := 2 ^ (P - R) * sum1 k1 in
  let m := if is_const then 2 ^ (2 * ab - 2) else zn n * 2 ^ (2 * ab - 2) in
  let e_trunc := dropped_weight P cnv ab asz bsz (hi + dsz) * m * sum1 k1 in
  tor_dist P have want <=? e_norm + e_trunc.

Definition oracle_core (code : Z) (ps : list Z) (vs outs : list (list Z)) : Z :=
  let n := np ps 1 in
  let rank := np ps 2 in let cols := S rank in let tcols := (cols * (cols + 1) / 2)%nat in
  let ab := p ps 3 in let rb := p ps 4 in
  let a_k := p ps 5 in let b_k := p ps 6 in let res_k := p ps 7 in let cnv := p ps 8 in
  let sz k b := Z.to_nat ((k + b - 1) / b) in
  let asz := sz a_k ab in let bsz := sz b_k ab in let rsz := sz res_k rb in
  let sk := synth_sk n rank cnv in
  let flags := list_eqb (v outs 1) [1] in
  let a := cols_of n cols asz (v vs 0) in
  if (code =? 5101) || (code =? 5102) then
    ob (flags && tensor_phase_ok n (code - 5101) cnv rank ab rb a_k b_k a (cols_of n cols bsz (v vs 1))
                   (cols_of n tcols rsz (v vs 2)) (cols_of n tcols rsz (v outs 0)) sk)
  else if code =? 5103 then
    ob (flags && tensor_phase_ok n 2 cnv rank ab rb a_k a_k a a (cols_of n tcols rsz (v vs 2)) (cols_of n tcols rsz (v outs 0)) sk)
  else if code =? 5104 then
    ob (flags && mul_phase_ok n false false cnv ab rb a_k b_k a (colof n 1 bsz 0 (v vs 1)) (cols_of n cols rsz (v outs 0)) sk)
  else if code =? 5105 then
    ob (flags && mul_phase_ok n false true cnv ab ab a_k b_k a (colof n 1 bsz 0 (v vs 1)) (cols_of n cols asz (v outs 0)) sk)
  else if code =? 5106 then
    ob (flags && mul_phase_ok n true false cnv ab rb a_k b_k a (map (pconst n) (v vs 1)) (cols_of n cols rsz (v outs 0)) sk)
  else if code =? 5107 then
    ob (flags && mul_phase_ok n true true cnv ab ab a_k b_k a (map (pconst n) (v vs 1)) (cols_of n cols asz (v outs 0)) sk)
  else 2.


(* ---------------- part 2, level 2 (real keys) ----------------
   header: be n rank ab rb a_k b_k res_k cnv mode | kb dsize dnum k_tsk relb rel_k | seed
   5201 outs = [sk, a.data, b.data, tensor.data, pt_tensor, relin.data, pt_relin, flags [tensor scratch-independent, relin scratch-independent]]
   5202/5203 outs = [sk, a.data, res.data, pt_res, flags]
   The verdict is the conjunction of
     L1  the keyless part (tensor / product ciphertext) is reproduced bit for bit by the model from the ciphertext limbs,
     L2a phase_{(1,s,s(x)s)}(tensor) = phase_s(a) phase_s(b) 2^cnv within E_norm + E_trunc,
     L2b the implementation's own decryption differs from the oracle's exact phase by at most one unit of the plaintext's last limb,
     L2c phase_s(relin) = phase(tensor) within the relinearisation envelope (see the header of this file),
     L2d flags. *)
Definition bits (b : bool) (k : Z) : Z := if b then 0 else k.

Definition relin_env (n rank : nat) (PP R RR kb dsize dnum k_tsk : Z) : Z :=
  let pairs := zn (rank * (rank + 1) / 2) in
  let nn := zn n in
  let gadget := pairs * dnum * nn * 2 ^ (dsize * kb) * 20 * 2 ^ (PP - k_tsk) in
  let drop := if dnum * dsize * kb <? R then pairs * nn * nn * 2 ^ (PP - dnum * dsize * kb) else 0 in
  let tsk_size := (k_tsk + kb - 1) / kb in
  let minprec := Z.min (Z.min RR R) (tsk_size * kb) in
  gadget + drop + 4 * (1 + zn rank * nn + pairs * nn * nn) * 2 ^ (PP - minprec).

(* which of the checks fail, as a bit set: 1 = L1, 2 = L2a, 4 = L2b, 8 = L2c, 16 = decrypt of relin, 32 = tensor flag, 64 = relin flag, 128 = L1 of the relinearisation *)
Definition l2_tensor_fail (ps : list Z) (vs outs : list (list Z)) : Z :=
  let n := np ps 1 in let fft := is_fft ps in
  let rank := np ps 2 in let cols := S rank in let tcols := (cols * (cols + 1) / 2)%nat in
  let ab := p ps 3 in let rb := p ps 4 in
  let a_k := p ps 5 in let cnv := p ps 8 in let mode := p ps 9 in
  let b_k := if mode =? 2 then a_k else p ps 6 in let res_k := p ps 7 in
  let kb := p ps 10 in let dsize := p ps 11 in let dnum := p ps 12 in let k_tsk := p ps 13 in
  let relb := p ps 14 in let rel_k := p ps 15 in
  let sz k b := Z.to_nat ((k + b - 1) / b) in
  let asz := sz a_k ab in let bsz := sz b_k ab in let rsz := sz res_k rb in let relsz := sz rel_k relb in
  let sk := map (fun i => firstn n (skipn (n * i) (v outs 0))) (seq 0 rank) in
  let a := cols_of n cols asz (v outs 1) in
  let b := if mode =? 2 then a else cols_of n cols bsz (v outs 2) in
  let t0 := cols_of n tcols rsz (v vs 2) in
  let t1 := cols_of n tcols rsz (v outs 3) in
  let l1 := match glwe_tensor fft n mode cnv rank ab rb a_k b_k a b t0 with
            | Some g => list_eqb (flat_of tcols rsz g) (v outs 3) | None => false end in
  let l2a := tensor_phase_ok n mode cnv rank ab rb a_k b_k a b t0 t1 sk in
  let k1 := key1 n sk in let k2 := key2 n sk in
  let R := zn rsz * rb in let RR := zn relsz * relb in
  let pht := phase n R rb t1 k2 in
  let l2b := tor_dist R (pval n R rb (colof n 1 rsz 0 (v outs 4))) pht <=? 1 in
  let rl := cols_of n cols relsz (v outs 5) in
  let PP := R + RR + k_tsk in
  let phr := phase n RR relb rl k1 in
  let l2c := tor_dist PP (pscale (2 ^ (PP - RR)) phr) (pscale (2 ^ (PP - R)) pht) <=? relin_env n rank PP R RR kb dsize dnum k_tsk in
  let l2e := tor_dist RR (pval n RR relb (colof n 1 relsz 0 (v outs 6))) phr <=? 1 in
  (* L1 for the relinearisation: the model (Gadget.gadget_product + C05Relin) on the dumped key reproduces relin.data bit for bit *)
  let msize := sz k_tsk kb in
  let l1r := match C05Relin.glwe_relinearize (p ps 0) n rb kb relb rank rsz relsz (Z.to_nat dsize) (Z.to_nat dnum) msize
                     (Gadget.cols_of_flat n tcols rsz (v outs 3)) (Gadget.pmat_of_flat n (msize * cols) (v outs 8)) with
             | Some r => list_eqb (Gadget.flat_of_cols relsz r) (v outs 5) | None => false end in
  bits l1 1 + bits l2a 2 + bits l2b 4 + bits l2c 8 + bits l2e 16
  + bits (nth 0 (v outs 7) 0 =? 1) 32 + bits (nth 1 (v outs 7) 0 =? 1) 64 + bits l1r 128.

Definition l2_mul_fail (code : Z) (ps : list Z) (vs outs : list (list Z)) : Z :=
  let n := np ps 1 in let fft := is_fft ps in
  let rank := np ps 2 in let cols := S rank in
  let ab := p ps 3 in let rb := p ps 4 in
  let a_k := p ps 5 in let b_k := p ps 6 in let res_k := p ps 7 in let cnv := p ps 8 in
  let assign := p ps 9 =? 1 in
  let isc := code =? 5203 in
  let ob_ := if assign then ab else rb in let ok_ := if assign then a_k else res_k in
  let sz k b := Z.to_nat ((k + b - 1) / b) in
  let asz := sz a_k ab in let bsz := sz b_k ab in let rsz := sz ok_ ob_ in
  let sk := map (fun i => firstn n (skipn (n * i) (v outs 0))) (seq 0 rank) in
  let a := cols_of n cols asz (v outs 1) in
  let r0 := if assign then a else cols_of n cols rsz (v vs 2) in
  let r1 := cols_of n cols rsz (v outs 2) in
  let bpl := colof n 1 bsz 0 (v vs 1) in
  let l1 := match (if isc then glwe_mul_const fft n assign cnv ab ob_ a (v vs 1) r0
                   else glwe_mul_plain fft n cnv ab ob_ a_k b_k a bpl r0) with
            | Some g => list_eqb (flat_of cols rsz g) (v outs 2) | None => false end in
  let l2a := mul_phase_ok n isc assign cnv ab ob_ a_k b_k a (if isc then map (pconst n) (v vs 1) else bpl) r1 sk in
  let k1 := key1 n sk in
  let R := zn rsz * ob_ in
  let l2b := tor_dist R (pval n R ob_ (colof n 1 rsz 0 (v outs 3))) (phase n R ob_ r1 k1) <=? 1 in
  bits l1 1 + bits l2a 2 + bits l2b 4 + bits (nth 0 (v outs 4) 0 =? 1) 32.

Definition l2_fail (code : Z) (ps : list Z) (vs outs : list (list Z)) : Z :=
  if code =? 5201 then l2_tensor_fail ps vs outs else l2_mul_fail code ps vs outs.

Definition oracle_c05 (code : Z) (ps : list Z) (vs outs : list (list Z)) : Z :=
  if code <? 5100 then oracle_hal code ps vs outs
  else if code =? 5108 then ob (list_eqb (v outs 1) [1])   (* relinearisation on arbitrary limb data: bit-exactness is the check; phase: level 2 *)
  else if code <? 5200 then oracle_core code ps vs outs
  else if code <? 5300 then ob (l2_fail code ps vs outs =? 0)
  else if code <? 5340 then
    (* virtual opcodes 53xy used by the classifier: is sub-check y of the level-2 oracle of 520x satisfied? *)
    let x := (code - 5300) / 10 in let y := (code - 5300) mod 10 in
    ob (negb (Z.testbit (l2_fail (5200 + x) ps vs outs) y))
  else 2.
