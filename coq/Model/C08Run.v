(* Executable entry point of the C08 model for the correspondence check:
   opcode, scalar parameters, input vectors -> output vectors (None = the model rejects the call). *)
From PV Require Import Base.MachineInt Model.Znx Model.Limbs Model.LimbsBig Model.Flat Model.C08Encode.
Open Scope Z_scope.

Definition p (ps : list Z) (i : nat) : Z := nth i ps 0.
Definition v (vs : list (list Z)) (i : nat) : list Z := nth i vs [].
Definition unz {A B} (l : list (A * B)) : list A * list B := split l.
Definition two (l : list (Z * Z)) : list (list Z) := let '(a, b) := split l in [a; b].
Definition b2 (z : Z) : bool := negb (z =? 0).

(* header of the flat-memory records: be n | rcols rsize rmax rcol | acols asize amax acol | extra... *)
Definition nat_p (ps : list Z) (i : nat) : nat := Z.to_nat (p ps i).
Definition rshape (ps : list Z) : shape :=
  {| s_n := nat_p ps 1; s_cols := nat_p ps 2; s_size := nat_p ps 3; s_max := nat_p ps 4; s_col := nat_p ps 5 |}.
Definition ashape (ps : list Z) : shape :=
  {| s_n := nat_p ps 1; s_cols := nat_p ps 6; s_size := nat_p ps 7; s_max := nat_p ps 8; s_col := nat_p ps 9 |}.
Definition one (o : option (list Z)) : option (list (list Z)) :=
  match o with Some r => Some [r] | None => None end.

Definition run_c08_vec (code : Z) (ps : list Z) (vs : list (list Z)) : option (list (list Z)) :=
  let w := 64 in
  let rs := rshape ps in let as_ := ashape ps in
  let res := v vs 0 in let a := v vs 1 in
  let e := fun i => p ps (10 + i) in
  match code with
  | 8101 => one (col_op (fun a r => normalize w (e 0%nat) (e 1%nat) (e 2%nat) a r) rs as_ res a)
  | 8102 => one (col_op (fun _ r => Some (normalize_assign w (e 0%nat) r)) rs rs res res)
  | 8103 => one (col_op (fun _ r => Some (lsh_assign w (e 0%nat) (e 1%nat) r)) rs rs res res)
  | 8104 => one (col_op (fun a r => Some (lsh w true (e 0%nat) (e 1%nat) a r)) rs as_ res a)
  | 8105 => one (col_op (fun a r => Some (lsh w false (e 0%nat) (e 1%nat) a r)) rs as_ res a)
  | 8106 => one (col_op (fun a r => Some (lsh_sub w (e 0%nat) (e 1%nat) a r)) rs as_ res a)
  | 8107 => one (col_op (fun _ r => Some (rsh_assign w (e 0%nat) (e 1%nat) r)) rs rs res res)
  | 8108 => one (col_op (fun a r => Some (rsh w true (e 0%nat) (e 1%nat) a r)) rs as_ res a)
  | 8109 => one (col_op (fun a r => Some (rsh w false (e 0%nat) (e 1%nat) a r)) rs as_ res a)
  | 8110 => one (col_op (fun a r => Some (rsh_sub w (e 0%nat) (e 1%nat) a r)) rs as_ res a)
  | 8201 | 8202 | 8203 | 8204 =>
      (* vec_znx_big_normalize and its fused forms: FFT64 family accumulates in i64 (w = 64), NTT120 in i128 (w = 128);
         the result limbs are i64 *)
      let wb := if p ps 0 <=? 2 then 64 else 128 in
      let nrm := fun a r => match (if wb =? 64 then normalize wb else normalize_big wb) (e 0%nat) (e 1%nat) (e 2%nat) a (map (fun _ => 0) r) with
                            | Some o => Some (map (wrap 64) o) | None => None end in
      let f := fun a r =>
        match nrm a r with
        | None => None
        | Some o => Some (if code =? 8201 then o
                          else if code =? 8202 then map2 (wadd 64) r o
                          else if code =? 8203 then map2 (wsub 64) r o
                          else map (wneg 64) o)
        end in
      one (col_op f rs as_ res a)
  | _ => run_c08_enc code ps vs
  end.

Definition run_c08 (code : Z) (ps : list Z) (vs : list (list Z)) : option (list (list Z)) :=
  let w := 64 in
  match code with
  | 8001 => Some [map (get_digit (p ps 0) (p ps 1)) (v vs 0)]
  | 8002 => Some [map (fun x => get_carry (p ps 0) (p ps 1) x (get_digit (p ps 0) (p ps 1) x)) (v vs 0)]
  | 8010 => Some [map (first_step_carry_only w (p ps 1) (p ps 2)) (v vs 0)]
  | 8011 => Some (two (map (first_step_assign w (p ps 1) (p ps 2)) (v vs 0)))
  | 8012 => Some (two (map2 (first_step w (b2 (p ps 1)) (p ps 2) (p ps 3)) (v vs 0) (v vs 1)))
  | 8013 => Some [map2 (middle_step_carry_only w (p ps 1) (p ps 2)) (v vs 0) (v vs 1)]
  | 8014 => Some (two (map2 (middle_step_assign w (p ps 1) (p ps 2)) (v vs 0) (v vs 1)))
  | 8015 => Some (two (map3 (middle_step w (b2 (p ps 1)) (p ps 2) (p ps 3)) (v vs 0) (v vs 1) (v vs 2)))
  | 8016 => Some (two (map3 (middle_step_sub w (p ps 1) (p ps 2)) (v vs 0) (v vs 1) (v vs 2)))
  | 8017 => Some [map2 (final_step_assign w (p ps 1) (p ps 2)) (v vs 0) (v vs 1)]
  | 8018 => Some [map3 (final_step w (b2 (p ps 1)) (p ps 2) (p ps 3)) (v vs 0) (v vs 1) (v vs 2)]
  | 8019 => Some [map3 (final_step_sub w (p ps 1) (p ps 2)) (v vs 0) (v vs 1) (v vs 2)]
  | 8020 => Some (two (map2 (extract_digit_addmul w (p ps 1) (p ps 2)) (v vs 0) (v vs 1)))
  | 8021 => Some (two (map2 (normalize_digit w (p ps 1)) (v vs 0) (v vs 1)))
  | 8022 | 8023 => Some [map (mul_power_of_two w (p ps 1)) (v vs 0)]
  | 8024 => Some [map2 (mul_add_power_of_two w (p ps 1)) (v vs 0) (v vs 1)]
  | _ => run_c08_vec code ps vs
  end.
