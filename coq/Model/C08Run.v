(* Executable entry point of the C08 model for the correspondence check:
   opcode, scalar parameters, input vectors -> output vectors (None = the model rejects the call). *)
From PV Require Import Base.MachineInt Model.Znx.
Open Scope Z_scope.

Definition p (ps : list Z) (i : nat) : Z := nth i ps 0.
Definition v (vs : list (list Z)) (i : nat) : list Z := nth i vs [].
Definition unz {A B} (l : list (A * B)) : list A * list B := split l.
Definition two (l : list (Z * Z)) : list (list Z) := let '(a, b) := split l in [a; b].
Definition b2 (z : Z) : bool := negb (z =? 0).

Definition run_c08 (code : Z) (ps : list Z) (vs : list (list Z)) : option (list (list Z)) :=
  let w := 64 in
  match code with
  | 8001 => Some [map (get_digit (p ps 0) (p ps 1)) (v vs 0)]
  | 8002 => Some [map (fun x => get_carry (p ps 0) (p ps 1) x (get_digit (p ps 0) (p ps 1) x)) (v vs 0)]
  | 8010 => Some [map (first_step_carry_only w (p ps 1) (p ps 2)) (v vs 0)]
  | 8011 => Some (two (map (first_step_assign w (p ps 1) (p ps 2)) (v vs 0)))
  | 8012 => Some (two (map2 (first_step w (b2 (p ps 1)) (p ps 2) (p ps 3)) (v vs 0) (v vs 1)))
  | 8013 => Some [map2 (middle_step_carry_only w (p ps 1) (p ps 2)) (v vs 0) (v vs 1)]
  | 8014 => Some (two (map2 (middle_step_assign w (p ps 1) (p ps 2)) (v vs 0) (v vs 1)))
  | 8015 => Some (two (map3 (middle_step w (b2 (p ps 1)) (p ps 2) (p ps 3)) (v vs 0) (v vs 1) (v vs 2)))
  | 8016 => Some (two (map3 (middle_step_sub w (p ps 1) (p ps 2)) (v vs 0) (v vs 1) (v vs 2)))
  | 8017 => Some [map2 (final_step_assign w (p ps 1) (p ps 2)) (v vs 0) (v vs 1)]
  | 8018 => Some [map3 (final_step w (b2 (p ps 1)) (p ps 2) (p ps 3)) (v vs 0) (v vs 1) (v vs 2)]
  | 8019 => Some [map3 (final_step_sub w (p ps 1) (p ps 2)) (v vs 0) (v vs 1) (v vs 2)]
  | 8020 => Some (two (map2 (extract_digit_addmul w (p ps 1) (p ps 2)) (v vs 0) (v vs 1)))
  | 8021 => Some (two (map2 (normalize_digit w (p ps 1)) (v vs 0) (v vs 1)))
  | 8022 | 8023 => Some [map (mul_power_of_two w (p ps 1)) (v vs 0)]
  | 8024 => Some [map2 (mul_add_power_of_two w (p ps 1)) (v vs 0) (v vs 1)]
  | _ => None
  end.
