(* C11 — outputs are fully determined by inputs: no stale data, no stray writes.
   A C11 record is a PAIR of runs of one flat-memory operation (opcodes 110000 + op) from two different
   prior contents of the destination buffer (res, res_alt), or a C07 record carrying its own two-fill flags. *)
From PV Require Import Base.MachineInt Model.Znx Model.Limbs Model.Flat Model.Ring Model.C08Run Model.C09Run Model.C07Run Model.C05Run.
Open Scope Z_scope.

Definition vv (vs : list (list Z)) (i : nat) : list Z := nth i vs [].

(* replace the destination buffer (first vector) by the alternative one (last vector), drop the alternative *)
Definition with_alt (vs : list (list Z)) : list (list Z) :=
  match vs with
  | _ :: rest => last vs [] :: removelast rest
  | [] => []
  end.
Definition without_alt (vs : list (list Z)) : list (list Z) := removelast vs.

Definition base_run (code : Z) (ps : list Z) (vs : list (list Z)) : option (list (list Z)) :=
  if (8000 <=? code) && (code <? 9000) then run_c08 code ps vs
  else if (9000 <=? code) && (code <? 10000) then run_c09 code ps vs
  else None.

Definition run_c11 (code : Z) (ps : list Z) (vs : list (list Z)) : option (list (list Z)) :=
  if 110000 <=? code then
    let c := code - 110000 in
    match base_run c ps (without_alt vs), base_run c ps (with_alt vs) with
    | Some (o1 :: _), Some (o2 :: _) => Some [o1; o2]
    | _, _ => None
    end
  else if (5000 <=? code) && (code <? 6000) then run_c05 code ps vs
  else run_c07 code ps vs.

(* spec level: which flat words belong to limbs [0,size) of column col *)
Definition in_col (n cols size col : nat) (idx : nat) : bool :=
  let limb := (idx / n)%nat in               (* limb*cols + column *)
  Nat.eqb (limb mod cols) col && Nat.ltb (limb / cols) size.

Fixpoint frame_eq (n cols size col : nat) (idx : nat) (a b : list Z) : bool :=
  match a, b with
  | [], [] => true
  | x :: a', y :: b' => (in_col n cols size col idx || (x =? y)) && frame_eq n cols size col (S idx) a' b'
  | _, _ => false
  end.
Fixpoint col_eq (n cols size col : nat) (idx : nat) (a b : list Z) : bool :=
  match a, b with
  | [], [] => true
  | x :: a', y :: b' => (negb (in_col n cols size col idx) || (x =? y)) && col_eq n cols size col (S idx) a' b'
  | _, _ => false
  end.

(* header position of the destination shape: C08 vector ops: n rcols rsize rmax rcol at 1..5; C09: same *)
Definition oracle_c11 (code : Z) (ps : list Z) (vs outs : list (list Z)) : Z :=
  if 110000 <=? code then
    let c := code - 110000 in
    if (c =? 9021) then 2 else     (* split_ring has several destinations: covered by C09's whole-buffer oracle *)
    let n := Z.to_nat (nth 1 ps 0) in let cols := Z.to_nat (nth 2 ps 0) in
    let size := Z.to_nat (nth 3 ps 0) in let col := Z.to_nat (nth 5 ps 0) in
    let r0 := vv vs 0 in let r0' := last vs [] in
    let o1 := vv outs 0 in let o2 := vv outs 1 in
    if frame_eq n cols size col 0 r0 o1 && frame_eq n cols size col 0 r0' o2 && col_eq n cols size col 0 o1 o2
    then 1 else 0
  else if (5001 <=? code) && (code <=? 5004) then
    (* C05's HAL convolution records: header be n | rcols rsize rcol | ...; vs[2] = prior content of the whole
       destination, outs[0] = the whole destination afterwards, outs[1] = [same under two scratch fills] *)
    let n := Z.to_nat (nth 1 ps 0) in let cols := Z.to_nat (nth 2 ps 0) in
    let size := Z.to_nat (nth 3 ps 0) in let col := Z.to_nat (nth 4 ps 0) in
    if frame_eq n cols size col 0 (vv vs 2) (vv outs 0) && (nth 0 (vv outs 1) 0 =? 1) then 1 else 0
  else oracle_c07 code ps vs outs.
