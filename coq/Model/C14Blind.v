(* C14, blind path: the CGGI accumulator loops of
   poulpy-bin-fhe/src/blind_rotation/algorithms/cggi/algorithm.rs at the level of PHASES over exact products.

   A phase is an exact integer polynomial (list Z of length N, no wrap-around): the value that decrypting the
   accumulator gives before noise.  The external product  acc [x] BRK_i  is abstracted by its phase equation
   phase(acc [x] BRK_i) = s_i * phase(acc) (+ noise, which the executable model drops and the theorems carry as E);
   everything else -- which X^a multiplies which component, which terms are skipped, how LWE coefficients are
   grouped in blocks, the initial rotation by b -- is transcribed from the code as it is. *)
From PV Require Import Base.MachineInt Model.Znx Model.Limbs Model.Ring Model.C14Lut.
Open Scope Z_scope.

Definition poly := list Z.

(* exact polynomial arithmetic in Z[X]/(X^n+1) *)
Definition padd (a b : poly) : poly := map2 Z.add a b.
Definition psub (a b : poly) : poly := map2 Z.sub a b.
Definition pneg (a : poly) : poly := map Z.opp a.
Definition pscale (c : Z) (a : poly) : poly := map (Z.mul c) a.
(* X^p * a, any p in Z: same split / negate / copy shape as znx_rotate, without the machine wrap *)
Definition zrot (p : Z) (a : poly) : poly :=
  let n := Z.of_nat (length a) in
  let mp_2n := p mod (2 * n) in
  let mp_1n := mp_2n mod n in
  let a1 := firstn (Z.to_nat (n - mp_1n)) a in
  let a2 := skipn (Z.to_nat (n - mp_1n)) a in
  if mp_2n <? n then pneg a2 ++ a1 else a2 ++ pneg a1.
(* (X^p - 1) * a *)
Definition xp_minus_one (p : Z) (a : poly) : poly := psub (zrot p a) a.

Definition pnth (l : list poly) (i : nat) : poly := nth i l [].
Definition psum (n : nat) (l : list poly) : poly := fold_left padd l (zeros n).

(* ---- execute_standard: for (a_i, brk_i): acc <- acc + (X^{a_i} - 1) * (acc [x] brk_i) ---- *)
(* s = 0: the product has phase 0 (+ noise) and (X^a - 1) * 0 = 0: nothing is added *)
Definition cggi_step (s a : Z) (acc : poly) : poly :=
  if s =? 0 then acc else padd acc (xp_minus_one a (pscale s acc)).
Definition cggi_standard (b : Z) (av sv : list Z) (lut0 : poly) : poly :=
  fold_left (fun acc (q : Z * Z) => cggi_step (snd q) (fst q) acc) (combine av sv) (zrot b lut0).

(* chunks_exact(block): the incomplete last chunk is dropped *)
Fixpoint chunks_exact {A} (fuel : nat) (bs : nat) (l : list A) : list (list A) :=
  match fuel with
  | O => []
  | S f => if Nat.leb bs (length l) then firstn bs l :: chunks_exact f bs (skipn bs l) else []
  end.
Definition chunks {A} (bs : nat) (l : list A) : list (list A) := chunks_exact (length l) bs l.

(* ---- execute_block_binary: per block, every product is taken from the accumulator at the start of the block:
        acc <- acc + sum_{i in block} (X^{ai_pos} - 1) * (acc [x] brk_i),  ai_pos = (a_i + 2N) & (2N - 1) ---- *)
Definition cggi_block_step (n : nat) (blk : list (Z * Z)) (acc : poly) : poly :=
  let two_n := 2 * Z.of_nat n in
  padd acc (psum n (map (fun q : Z * Z =>
                          if snd q =? 0 then zeros n else xp_minus_one ((fst q + two_n) mod two_n) (pscale (snd q) acc)) blk)).
Definition cggi_block (n block : nat) (b : Z) (av sv : list Z) (lut0 : poly) : poly :=
  fold_left (fun acc blk => cggi_block_step n blk acc) (chunks block (combine av sv)) (zrot b lut0).

(* ---- execute_block_binary_extended ----
   acc is `ext` polynomials.  t = 2N*ext.
   initial:  b_pos = (b + t) & (t-1), b_hi = b_pos / ext, b_lo = b_pos & (ext-1)
             acc[i] = X^{b_hi+1} lut[ext - b_lo + i]  (i < b_lo) ; acc[i] = X^{b_hi} lut[i - b_lo]  (i >= b_lo)
   per LWE coefficient in a block (v[j] = acc_at_block_start[j] [x] brk), as repaired by /repo acfeda9:
     ai_lo == 0 : if ai_hi != 0 : add[j] += X^{ai_hi} v[j] - v[j]
     ai_lo != 0 : add[i] += X^{(ai_hi+1) & (2N-1)} v[ext-ai_lo+i] - v[i]   (i <  ai_lo)
                  add[i] += X^{ai_hi}              v[i-ai_lo]     - v[i]   (i >= ai_lo) *)
Definition ext_init (n : nat) (b : Z) (lutp : list poly) : list poly :=
  let e := Z.of_nat (length lutp) in
  let t := 2 * Z.of_nat n * e in
  let b_pos := (b + t) mod t in
  let b_hi := b_pos / e in let b_lo := b_pos mod e in
  map (fun i : nat =>
         if Z.of_nat i <? b_lo then zrot (b_hi + 1) (pnth lutp (Z.to_nat (e - b_lo) + i))
         else zrot b_hi (pnth lutp (i - Z.to_nat b_lo)))
      (seq 0 (length lutp)).

Definition ext_contrib (n : nat) (a s : Z) (acc : list poly) : list poly :=
  let e := Z.of_nat (length acc) in
  let two_n := 2 * Z.of_nat n in
  let t := two_n * e in
  let ai_pos := (a + t) mod t in
  let ai_hi := ai_pos / e in let ai_lo := ai_pos mod e in
  let v := map (pscale s) acc in
  map (fun i : nat =>
         let vi := pnth v i in
         if ai_lo =? 0 then
           (if ai_hi =? 0 then zeros n else psub (zrot ai_hi vi) vi)
         else if Z.of_nat i <? ai_lo then
           psub (zrot ((ai_hi + 1) mod two_n) (pnth v (Z.to_nat (e - ai_lo) + i))) vi
         else
           psub (zrot ai_hi (pnth v (i - Z.to_nat ai_lo))) vi)
      (seq 0 (length acc)).

Definition ext_block_step (n : nat) (blk : list (Z * Z)) (acc : list poly) : list poly :=
  fold_left (fun (cur : list poly) (q : Z * Z) =>
               if snd q =? 0 then cur else map2 padd cur (ext_contrib n (fst q) (snd q) acc)) blk acc.

Definition cggi_extended (n block : nat) (b : Z) (av sv : list Z) (lutp : list poly) : list poly :=
  fold_left (fun acc blk => ext_block_step n blk acc) (chunks block (combine av sv)) (ext_init n b lutp).

