(* C15 — model of the packed encrypted integers of poulpy-bin-fhe (bdd_arithmetic/mod.rs, ciphertexts/fhe_uint.rs,
   fhe_uint_prepared.rs, blind_rotation.rs, blind_selection.rs, blind_retrieval.rs) at the level of *ideal plaintexts*:
   a GLWE ciphertext is represented by the polynomial it decrypts to when every error term is below the decoding
   threshold, a GGSW by the bit it encrypts.  No proofs in this file (they are in Proofs/C15*.v).

   A plaintext polynomial of Z[X]/(X^n+1) is a function from the coefficient index to the coefficient; only the
   indices [0, n) are meaningful.  The word types and their layout constants come from Gen/C15_gen.v, which
   tools/gen_c15.py rewrites from bdd_arithmetic/mod.rs on every run. *)
From Coq Require Import ZArith List Bool Lia.
From PV Require Import Gen.C15_gen.
Import ListNotations.
Open Scope Z_scope.

(* ------------------------------------------------------------------------------------------------ *)
(** * Word types and the bit layout *)

(* UnsignedInteger::bit_index as written in the trait: ((i & 7) << LOG_BYTES) | (i >> 3) *)
Definition bit_index (lb i : Z) : Z := Z.lor (Z.shiftl (Z.land i 7) lb) (Z.shiftr i 3).
(* the same position in arithmetic form (used by the specification side only) *)
Definition bit_index_arith (lb i : Z) : Z := (i mod 8) * 2 ^ lb + i / 8.
(* which logical bit sits at layout position c *)
Definition bit_index_inv (lb c : Z) : Z := 8 * (c mod 2 ^ lb) + c / 2 ^ lb.

Record wty := mkW { w_bits : Z; w_logbits : Z; w_lb : Z; w_mask : Z; w_bidx : Z -> Z }.
Definition wty_of (t : Z * Z * Z * Z * (Z -> Z)) : wty :=
  let '(b, lg, lb, m, f) := t in mkW b lg lb m f.
Definition wtypes : list wty := map wty_of word_types.
Definition ty_of_bits (bits : Z) : option wty := find (fun t => w_bits t =? bits) wtypes.
(* the word type as the documentation describes it: BITS = 8 * 2^lb, LOG_BITS = lb + 3, the trait's formula *)
Definition std_wty (lb : Z) : wty := mkW (8 * 2 ^ lb) (lb + 3) lb (2 ^ lb - 1) (bit_index lb).

Definition bitz (w i : Z) : Z := Z.b2z (Z.testbit w i).
Fixpoint zseq (start : Z) (len : nat) : list Z :=
  match len with O => [] | S k => start :: zseq (start + 1) k end.
(* FromBits::from_bits on the first [n] bits: sum of f i * 2^i *)
Fixpoint word_of_bits (n : nat) (f : Z -> bool) : Z :=
  match n with
  | O => 0
  | S k => word_of_bits k f + Z.b2z (f (Z.of_nat k)) * 2 ^ Z.of_nat k
  end.

(* ------------------------------------------------------------------------------------------------ *)
(** * Ideal plaintext polynomials *)

Definition poly := Z -> Z.
Definition p_zero : poly := fun _ => 0.
Definition p_const (c : Z) : poly := fun j => if j =? 0 then c else 0.
Definition p_add (p q : poly) : poly := fun j => p j + q j.
Definition p_sub (p q : poly) : poly := fun j => p j - q j.
(* glwe_rotate(k): multiplication by X^k in Z[X]/(X^n+1), any integer k *)
Definition p_rot (n k : Z) (p : poly) : poly :=
  fun j => let t := j - k in if Z.even (t / n) then p (t mod n) else - p (t mod n).
(* glwe_trace(skip): the coefficients at multiples of n / 2^skip survive (with their value: every step halves
   before adding the automorphic image), the others vanish *)
Definition p_keep (m : Z) (p : poly) : poly := fun j => if j mod m =? 0 then p j else 0.
Definition p_trace (n skip : Z) (p : poly) : poly := p_keep (n / 2 ^ skip) p.
Definition p_list (n : Z) (p : poly) : list Z := map p (zseq 0 (Z.to_nat n)).

Section Uint.
  Variable T : wty.
  Variable logn : Z.                     (* module.log_n() *)
  Let n : Z := 2 ^ logn.
  Definition log_gap : Z := logn - w_logbits T.
  (* T::bit_index(i) << log_gap *)
  Definition cidx (i : Z) : Z := Z.shiftl (w_bidx T i) log_gap.
  Definition nbits : nat := Z.to_nat (w_bits T).

  (* FheUint::encrypt_sk: data_bits[T::bit_index(i) << log_gap] = data.bit(i), i ascending (a later i overwrites) *)
  Definition p_enc (w : Z) : poly :=
    fold_left (fun (f : poly) i => fun j => if j =? cidx i then bitz w i else f j) (zseq 0 nbits) p_zero.
  (* FheUint::decrypt: bits[i] = data_bits[T::bit_index(i) << log_gap] as u8; from_bits sets bit i when it is non-zero *)
  Definition p_dec (p : poly) : Z := word_of_bits nbits (fun i => negb (p (cidx i) mod 256 =? 0)).

  Definition trace_start : Z := w_logbits T - w_lb T.

  (* FheUint::get_bit_glwe / get_byte *)
  Definition get_bit_glwe (bit : Z) (self : poly) : poly := p_trace n 0 (p_rot n (- cidx bit) self).
  Definition get_byte (byte : Z) (self : poly) : poly := p_trace n trace_start (p_rot n (- cidx (Z.shiftl byte 3)) self).
  (* FheUint::get_bit_lwe: rotation by -idx then sample extraction of the constant coefficient *)
  Definition get_bit_lwe (bit : Z) (self : poly) : Z := p_rot n (- cidx bit) self 0.

  (* FheUint::zero_byte *)
  Definition zero_byte (byte : Z) (self : poly) : poly :=
    let rot := cidx (Z.shiftl byte 3) in
    let x := p_rot n (- rot) self in
    p_rot n rot (p_sub x (p_trace n trace_start x)).

  (* FheUint::splice_u8; None = the asserts *)
  Definition splice_u8 (dst src : Z) (a b : poly) : option poly :=
    if (dst <? Z.shiftr (w_bits T) 3) && (src <? Z.shiftr (w_bits T) 3) then
      let rot := cidx (Z.shiftl dst 3) in
      let self := zero_byte dst a in
      let tmp := p_rot n (- cidx (Z.shiftl src 3)) b in
      let tmp := p_trace n trace_start tmp in
      let tmp := p_rot n rot tmp in
      Some (p_add self tmp)
    else None.

  (* FheUint::splice_u16 *)
  Definition splice_u16 (dst src : Z) (a b : poly) : option poly :=
    if (dst <? Z.shiftr (w_bits T) 4) && (src <? Z.shiftr (w_bits T) 4) then
      match splice_u8 (Z.shiftl dst 1) (Z.shiftl src 1) a b with
      | Some tmp => splice_u8 (Z.shiftl dst 1 + 1) (Z.shiftl src 1 + 1) tmp b
      | None => None
      end
    else None.

  (* FheUint::sext *)
  Definition sext_fill (byte : Z) (self : poly) : poly :=
    let rot := cidx (Z.shiftl byte 3 + 7) in
    let s0 := p_trace n 0 (p_rot n (- rot) self) in
    fold_left (fun (s : poly) i => p_add s (p_rot n (Z.shiftl (Z.shiftl (Z.shiftl 1 (w_lb T)) log_gap) i) s))
              [0; 1; 2] s0.
  Definition sext (byte : Z) (self : poly) : option poly :=
    if byte <? Z.shiftl 1 (w_lb T) then
      let sx := sext_fill byte self in
      fold_left (fun (acc : option poly) i =>
                   match acc with Some s => splice_u8 i 0 s sx | None => None end)
                (zseq (byte + 1) (Z.to_nat (Z.shiftl 1 (w_lb T) - (byte + 1)))) (Some self)
    else None.

  (* FheUint::pack: cts[T::bit_index(i) << log_gap] = bits[i] for i < min(len, BITS) (HashMap::insert: the later i wins),
     glwe_pack with log_gap_out = log_gap: position k receives the constant coefficient of cts[k], positions that are
     not multiples of 2^log_gap or carry no ciphertext receive zero.  None = the unwrap of an empty map. *)
  Definition pack (bits : list poly) : option poly :=
    match bits with
    | [] => None
    | _ :: _ =>
      let cts := firstn nbits bits in
      Some (fun j =>
        if j mod 2 ^ log_gap =? 0 then
          fold_left (fun acc ic => if j =? cidx (fst ic) then snd ic 0 else acc)
                    (combine (zseq 0 (length cts)) cts) 0
        else 0)
    end.
End Uint.

(* ------------------------------------------------------------------------------------------------ *)
(** * Prepared integers: one selector bit per position.  None = a bit whose GGSW is not an encryption of 0 / 1 *)

(* circuit bootstrapping of the LWE extracted at bit i (execute_to_constant, log_domain = 1): message m in {0, 1} *)
Definition cb_bit (m : Z) : option bool :=
  if m =? 0 then Some false else if m =? 1 then Some true else None.

Fixpoint all_some {X} (l : list (option X)) : option (list X) :=
  match l with
  | [] => Some []
  | Some x :: tl => option_map (cons x) (all_some tl)
  | None :: _ => None
  end.

(* fhe_uint_prepare_custom_multi_thread(threads, res, bits, bit_start, bit_count): the selected range is bootstrapped,
   the other positions are zeroed.  None = the panics: bit_end > BITS (assert), threads = 0 (div_ceil by zero),
   bit_count = 0 (chunks_mut(0)). *)
Definition prepare_custom (T : wty) (logn : Z) (threads start count : Z) (self : poly) : option (list bool * list bool) :=
  if (start + count <=? w_bits T) && (0 <? threads) && (0 <? count) && (0 <=? start) then
    match all_some (map (fun i => if (start <=? i) && (i <? start + count) then cb_bit (get_bit_lwe T logn i self) else Some false)
                        (zseq 0 (nbits T))) with
    | Some bs => Some (bs, map (fun i => negb ((start <=? i) && (i <? start + count))) (zseq 0 (nbits T)))
    | None => None
    end
  else None.

(* FheUint::from_fhe_uint_prepared: out_bits[i] = cmux(one, zero, bit i), then pack *)
Definition from_prepared (T : wty) (logn : Z) (bs : list bool) : option poly :=
  pack T logn (map (fun b : bool => p_const (if b then 1 else 0)) bs).
Definition dec_prepared (T : wty) (logn : Z) (bs : list bool) : option Z :=
  option_map (p_dec T logn) (from_prepared T logn bs).
Definition bits_of (n : nat) (w : Z) : list bool := map (Z.testbit w) (zseq 0 n).

(* ------------------------------------------------------------------------------------------------ *)
(** * Blind rotation / selection / retrieval / swap on ideal values.
      [kb i] is the bit encrypted by the selector's GGSW number i; reading a GGSW index >= BITS panics. *)

Definition sel_bits := list bool.
Definition kbit (k : sel_bits) (i : Z) : option bool := if 0 <=? i then nth_error k (Z.to_nat i) else None.

(* GLWEBlindRotation::glwe_blind_rotation_assign *)
Fixpoint blind_rot_loop (n : Z) (k : sel_bits) (sign : bool) (rsh lsh : Z) (i : Z) (cnt : nat) (a : poly) : option poly :=
  match cnt with
  | O => Some a
  | S c =>
    let amt := Z.shiftl 1 (i + lsh) in
    let b := p_rot n (if sign then amt else - amt) a in
    match kbit k (i + rsh) with
    | Some bit => blind_rot_loop n k sign rsh lsh (i + 1) c (if bit then b else a)
    | None => None
    end
  end.
Definition glwe_blind_rotation (n : Z) (k : sel_bits) (sign : bool) (rsh mask lsh : Z) (a : poly) : option poly :=
  blind_rot_loop n k sign rsh lsh 0 (Z.to_nat mask) a.

(* the HashMap<usize, &mut GLWE> of glwe_blind_selection as a function; values are the encrypted words *)
Definition fmap := Z -> option Z.
Definition fm_empty : fmap := fun _ => None.
Definition fm_set (m : fmap) (k : Z) (v : option Z) : fmap := fun x => if x =? k then v else m x.
Definition den (o : option Z) : Z := match o with Some v => v | None => 0 end.

(* one (j, j + t) pair of the inner loop; cmux_assign(lo, hi, bit) = (lo - hi) * bit + hi *)
Definition sel_step (t : Z) (bit : bool) (m : fmap) (j : Z) : fmap :=
  let hi := m j in
  let lo := m (j + t) in
  let m1 := fm_set (fm_set m j None) (j + t) None in
  match lo, hi with
  | Some l, Some h => fm_set m1 j (Some (if bit then l else h))
  | Some l, None => fm_set m1 j (Some (if bit then l else 0))
  | None, Some h => fm_set m1 j (Some (if bit then 0 else h))
  | None, None => m1
  end.
Fixpoint sel_levels (k : sel_bits) (rsh mask : Z) (i : Z) (cnt : nat) (m : fmap) : option fmap :=
  match cnt with
  | O => Some m
  | S c =>
    let t := Z.shiftl 1 (mask - i - 1) in
    match kbit k (rsh + mask - i - 1) with
    | Some bit => sel_levels k rsh mask (i + 1) c (fold_left (sel_step t bit) (zseq 0 (Z.to_nat t)) m)
    | None => None
    end
  end.
(* GLWEBlindSelection::glwe_blind_selection; None = assert!(bit_rsh + bit_mask <= T::BITS) *)
Definition glwe_blind_selection (bits : Z) (k : sel_bits) (rsh mask : Z) (m : fmap) : option Z :=
  if rsh + mask <=? bits then
    match sel_levels k rsh mask 0 (Z.to_nat mask) m with
    | Some m' => Some (den (m' 0))
    | None => None
    end
  else None.

(* Cswap: res_big = (b - a) * bit; res_a = res_big + a; res_b = b - res_big (on the encrypted words: every coefficient) *)
Definition cswap (bit : bool) (ab : Z * Z) : Z * Z :=
  let d := (snd ab - fst ab) * Z.b2z bit in (d + fst ab, snd ab - d).

Definition lget (l : list Z) (i : Z) : Z := nth (Z.to_nat i) l 0.
Fixpoint lset (l : list Z) (i : nat) (v : Z) : list Z :=
  match l, i with
  | [], _ => []
  | _ :: tl, O => v :: tl
  | x :: tl, S k => x :: lset tl k v
  end.
Definition swap_at (bit : bool) (t : Z) (l : list Z) (j : Z) : list Z :=
  if j + t <? Z.of_nat (length l) then
    let '(x, y) := cswap bit (lget l j, lget l (j + t)) in
    lset (lset l (Z.to_nat j) x) (Z.to_nat (j + t)) y
  else l.
(* GLWEBlindRetrieval::glwe_blind_retrieval_statefull (levels i = 0 .. mask-1) and _rev (mask-1 .. 0) *)
Definition retr_level (k : sel_bits) (rsh mask : Z) (acc : option (list Z)) (i : Z) : option (list Z) :=
  match acc with
  | None => None
  | Some l =>
    let t := Z.shiftl 1 (mask - i - 1) in
    match kbit k (rsh + mask - i - 1) with
    | Some bit => Some (fold_left (swap_at bit t) (zseq 0 (Z.to_nat t)) l)
    | None => None
    end
  end.
Definition blind_retrieval (k : sel_bits) (rsh mask : Z) (l : list Z) : option (list Z) :=
  fold_left (retr_level k rsh mask) (zseq 0 (Z.to_nat mask)) (Some l).
Definition blind_retrieval_rev (k : sel_bits) (rsh mask : Z) (l : list Z) : option (list Z) :=
  fold_left (retr_level k rsh mask) (rev (zseq 0 (Z.to_nat mask))) (Some l).

(* GLWEBlindRetriever: accumulators (data, num) per level; cmux_assign_neg(res, a, s) = (a - res) * s + res *)
Definition accs := list (Z * Z).
Fixpoint add_core (k : sel_bits) (offset : Z) (i : Z) (a : Z) (acc : accs) : option accs :=
  match acc with
  | [] => None                                   (* split_at_mut(1) on an empty slice *)
  | (d, num) :: next =>
    if num =? 0 then Some ((a, 1) :: next)
    else
      match kbit k (i + offset) with
      | None => None
      | Some bit =>
        let d' := if bit then a else d in
        match next with
        | [] => Some [(d', 0)]
        | _ :: _ => match add_core k offset (i + 1) d' next with
                    | Some next' => Some ((d', 0) :: next')
                    | None => None
                    end
        end
      end
  end.
(* GLWEBlindRetriever::alloc(size): ceil(log2 size) accumulators, at least one (since /repo 38e6b0c):
   ((u32::BITS - (size.max(1) as u32 - 1).leading_zeros()) as usize).max(1) *)
Definition retr_nacc (size : Z) : Z := Z.max 1 (32 - clz32 (Z.max 1 size - 1)).
Definition flush_step (k : sel_bits) (offset : Z) (st : option accs) (i : nat) : option accs :=
  match st with
  | None => None
  | Some acc =>
    match nth_error acc i with
    | None => Some acc
    | Some (d, num) =>
      if num =? 0 then Some acc
      else match add_core k offset (Z.of_nat i + 1) d (skipn (S i) acc) with
           | Some next' => Some (firstn i acc ++ (d, 0) :: next')
           | None => None
           end
    end
  end.
(* flush: for i in 0..len-1 { if acc[i].num != 0 { add_core(acc[i].data, acc[i+1..], i+1); acc[i].num = 0 } } *)
Definition flush_loop (k : sel_bits) (offset : Z) (acc : accs) : option accs :=
  fold_left (flush_step k offset) (seq 0 (length acc - 1)) (Some acc).
Definition retrieve (size : Z) (k : sel_bits) (offset : Z) (data : list Z) : option Z :=
  if (0 <=? size) && (size <=? 2 ^ 31) then
    let acc0 : accs := repeat (0, 0) (Z.to_nat (retr_nacc size)) in
    let step (st : option (accs * Z)) (a : Z) : option (accs * Z) :=
      match st with
      | None => None
      | Some (acc, cnt) =>
        if cnt <? 2 ^ Z.of_nat (length acc) then
          match add_core k offset 0 a acc with Some acc' => Some (acc', cnt + 1) | None => None end
        else None
      end in
    match fold_left step data (Some (acc0, 0)) with
    | None => None
    | Some (acc, cnt) =>
      if cnt =? 0 then Some 0
      else match acc with
           | [] => None
           | _ :: _ => match flush_loop k offset acc with
                       | Some acc' => Some (fst (last acc' (0, 0)))
                       | None => None
                       end
           end
    end
  else None.

(* ------------------------------------------------------------------------------------------------ *)
(** * GLWEBlindRetriever as a state machine: one object used for a HISTORY of rounds.
      State = the accumulators (data, num) and the counter, as in the code; [reset] clears every num and the counter and
      leaves the data words where they are. *)
Record rstate := mkR { r_acc : accs; r_cnt : Z }.
(* GLWEBlindRetriever::alloc *)
Definition r_alloc (size : Z) : rstate := mkR (repeat (0, 0) (Z.to_nat (retr_nacc size))) 0.
(* fn reset *)
Definition r_reset (st : rstate) : rstate := mkR (map (fun dn : Z * Z => (fst dn, 0)) (r_acc st)) 0.
(* pub fn add; None = the capacity assert or a panic of add_core *)
Definition r_add (k : sel_bits) (offset : Z) (st : rstate) (a : Z) : option rstate :=
  if r_cnt st <? 2 ^ Z.of_nat (length (r_acc st)) then
    match add_core k offset 0 a (r_acc st) with
    | Some acc' => Some (mkR acc' (r_cnt st + 1))
    | None => None
    end
  else None.
Definition r_adds (k : sel_bits) (offset : Z) (data : list Z) (st : rstate) : option rstate :=
  fold_left (fun (s : option rstate) a => match s with Some x => r_add k offset x a | None => None end) data (Some st).
(* pub fn flush: (result, state after) *)
Definition r_flush (k : sel_bits) (offset : Z) (st : rstate) : option (Z * rstate) :=
  if r_cnt st =? 0 then Some (0, r_reset st)
  else match r_acc st with
       | [] => None
       | _ :: _ => match flush_loop k offset (r_acc st) with
                   | Some acc' => Some (fst (last acc' (0, 0)), r_reset (mkR acc' (r_cnt st)))
                   | None => None
                   end
       end.
(* pub fn retrieve: reset, add every input, flush *)
Definition r_retrieve (k : sel_bits) (offset : Z) (data : list Z) (st : rstate) : option (Z * rstate) :=
  match r_adds k offset data (r_reset st) with
  | Some st' => r_flush k offset st'
  | None => None
  end.
(* a round of a history: kind 0 = retrieve, 1 = add every input then flush, 2 = add every input and abandon the round *)
Definition r_round (kind : Z) (k : sel_bits) (offset : Z) (data : list Z) (st : rstate) : option (Z * rstate) :=
  if kind =? 0 then r_retrieve k offset data st
  else match r_adds k offset data st with
       | Some st' => if kind =? 1 then r_flush k offset st' else Some (-2, st')
       | None => None
       end.
Fixpoint r_history (rounds : list (Z * sel_bits * Z * list Z)) (st : rstate) : option (list Z * rstate) :=
  match rounds with
  | [] => Some ([], st)
  | (kind, k, offset, data) :: tl =>
    match r_round kind k offset data st with
    | Some (res, st') => match r_history tl st' with
                         | Some (rs, stf) => Some (res :: rs, stf)
                         | None => None
                         end
    | None => None
    end
  end.
