(* Direct oracle for C06, on the implementation's outputs.

   Controlled seed changes (6001, 6002; flags f_0..f_8 = deterministic, then (mask_eq, body_eq) for another plaintext /
   secret / error seed / mask seed):
       f_0 = 1 (same inputs twice: identical bytes); mask_eq = 1 under another plaintext, secret, error seed;
       under another error seed the body changes whenever the replayed errors differ on the torus (modulo 2^((limb+1) b)); under another mask seed the mask
       changes whenever the digits of the two streams differ.
   Standard gadget objects (6004, 6005): the same mask flags, and for EVERY cell `error_is_full`:
       (flag 5: the masks of all cells of all entries of the object are pairwise distinct -- fresh randomness for every cell)
       body_k + sum_i (s_i * a_i)_k  ==  plaintext image + e_k * 2^-(limb+1)b   exactly on the torus,
       plaintext image = m_k * 2^-(L+1)b on column 0, (s_{j-1} * m)_k * 2^-(L+1)b when the plaintext sits on column j >= 1
       (L = (dsize-1) + row*dsize), e = the replayed sampler output: coefficient exactly 1, limb = ceil(nk/b)-1, |e_k| <= eb.
   Statistics (6020, support): numbers = [layout; m; S2; maxabs; sigma*1000; log2 scale; eb; mm; B1; Q1; B2; Q2; bad]
       (bad = ciphertexts whose exact phase error is not an integer multiple of the target limb's unit, or digits out of range: must be 0)
       m >= 2^14 phase-error samples with sum of squares S2 (in units of the target limb), mm mask digits sorted into B1 buckets
       by their top bits (Q1 = sum of squared counts) and B2 buckets by their low bits.
       two-sided band for the variance V = (sigma*scale)^2, x = 29 > 41 ln 2 (each tail < 2^-41 by the Laurent-Massart bounds
       for a chi-square with m degrees of freedom), r = ceil(sqrt(29 m)):
           S2 >= V (1 - 2^-16) (m - 2 r)                       [a too small sigma fails]
           S2 <= (V (1 + 2^-16) + 1/6) (m + 2 r + 58)          [rounding adds at most 1/12 + o(1) to the variance]
       uniformity: X2 = B*Q/mm - mm <= (B-1) + 2 ceil(sqrt(28 (B-1))) + 56   (x = 28 > 40 ln 2), for both bucketings. *)
From PV Require Import Base.MachineInt Model.Znx Model.Limbs Model.Flat Model.DftAbs Model.C08Oracle Model.EncModel
  Model.C01Run Model.C01Oracle Model.C19Run Model.C06Run.
Open Scope Z_scope.

Definition fl (f : list Z) (i : nat) : Z := nthZ f i.

Definition flip_oracle (b nk : Z) (vs outs : list (list Z)) : Z :=
  let f := v outs 0 in
  let e := v vs 6 in let e' := v vs 7 in
  if negb (Nat.eqb (length f) 9) then 0 else
  ob ((fl f 0 =? 1) && (fl f 1 =? 1) && (fl f 3 =? 1) && (fl f 5 =? 1)
      && (errs_same_on_torus b nk e e' || (fl f 6 =? 0))
      && (eqlz (digits b (v vs 4)) (digits b (v vs 5)) || (fl f 7 =? 0))).

Definition ceil_sqrt (x : Z) : Z := let r := Z.sqrt x in if r * r =? x then r else r + 1.

(* error_is_full on one cell *)
Definition cell_phase_ok (b : Z) (n size dsize : nat) (nk eb : Z) (row ptcol : nat) (m : poly) (sk : list poly)
           (cell : list ccol) (e : list Z) : bool :=
  let body := hd [] cell in
  let prods := map (fun q => svp (fst q) n size (snd q)) (combine sk (tl cell)) in
  let P := zn size * b + 8 in
  let L := zn ((dsize - 1) + row * dsize) in
  let shm := P - (L + 1) * b in
  let she := P - (spec_limb nk b + 1) * b in
  let image := match ptcol with O => m | S j => pmul (nth j sk []) m end in
  (0 <=? shm) && (0 <=? she) &&
  andb_all (map (fun k =>
     let ph := val_scaled P b (coef body k) + zsum (map (fun pr => val_scaled P b (coef pr k)) prods) in
     (Z.abs (nthZ e k) <=? eb) &&
     (tor_abs P (ph - nthZ image k * 2 ^ shm - nthZ e k * 2 ^ she) =? 0)) (seq 0 n)).

Definition gadget_oracle (ggsw : bool) (ps : list Z) (vs outs : list (list Z)) : Z :=
  let n := np ps 1 in let b := p ps 2 in let size := np ps 3 in let rin := np ps 4 in let rout := np ps 5 in
  let dnum := np ps 6 in let dsize := np ps 7 in let nk := p ps 8 in let eb := p ps 32 in
  let cols := if ggsw then S rout else rin in
  let ms := if ggsw then [v vs 0] else chunks n rin (v vs 0) in
  let sk := chunks n rout (v vs 1) in
  let cw := (S rout * size * n)%nat in
  let clen := (rout * size * n)%nat in
  let ncells := (dnum * cols)%nat in
  let entry := if ggsw then (if p ps 9 =? 1 then np ps 15 else O) else (if p ps 9 =? 4 then np ps 15 else O) in
  let base := (entry * ncells)%nat in
  let f := v outs 1 in
  let slots := flat_map (fun row => map (fun col => (row, col)) (seq 0 cols)) (seq 0 dnum) in
  if negb (Nat.eqb (length (v outs 0)) (dnum * cols * cw) && Nat.eqb (length f) 6) then 0 else
  ob ((fl f 0 =? 1) && (fl f 1 =? 1) && (fl f 2 =? 1) && (fl f 5 =? 1)
      && (errs_same_on_torus b nk (slice (base * n) (ncells * n) (v vs 3)) (slice (base * n) (ncells * n) (v vs 5)) || (fl f 3 =? 0))
      && (eqlz (digits b (slice (base * clen) (ncells * clen) (v vs 2))) (digits b (slice (base * clen) (ncells * clen) (v vs 4))) || (fl f 4 =? 0))
      && andb_all (map (fun q =>
           let slot := fst q in let row := fst (snd q) in let col := snd (snd q) in
           let d := (base + (if ggsw then ggsw_draw_index rout row col else gglwe_draw_index dnum row col))%nat in
           cell_phase_ok b n size dsize nk eb row (if ggsw then col else O) (if ggsw then v vs 0 else nth col ms []) sk
             (to_cols n size (S rout) (slice (slot * cw) cw (v outs 0))) (slice (d * n) n (v vs 3)))
         (combine (seq 0 (length slots)) slots))).

Definition stats_oracle (s : list Z) : Z :=
  let m := fl s 1 in let S2 := fl s 2 in let maxabs := fl s 3 in let sg := fl s 4 in let slog := fl s 5 in let eb := fl s 6 in
  let mm := fl s 7 in let B1 := fl s 8 in let Q1 := fl s 9 in let B2 := fl s 10 in let Q2 := fl s 11 in
  if negb (Nat.eqb (length s) 13) then 0 else
  if (slog <? 0) || (sg <? 1000) then 2 else
  let r := ceil_sqrt (29 * m) in
  let V1e6 := sg * sg * 4 ^ slog in                       (* 10^6 * V *)
  let lower := (S2 * 1000000 * 65536 >=? V1e6 * 65535 * (m - 2 * r)) in
  let upper := (S2 * 1000000 * 6 * 65536 <=? (6 * V1e6 * 65537 + 1000000 * 65536) * (m + 2 * r + 58)) in
  let chi := fun B Q => (B * Q - mm * mm <=? mm * ((B - 1) + 2 * ceil_sqrt (28 * (B - 1)) + 56)) in
  ob ((fl s 12 =? 0) && (16384 <=? m) && (16384 <=? mm) && lower && upper && (maxabs <=? eb) && (2 <=? B1) && (2 <=? B2) && chi B1 Q1 && chi B2 Q2).

Definition oracle_c06 (code : Z) (ps : list Z) (vs outs : list (list Z)) : Z :=
  match code with
  | 6001 | 6002 => flip_oracle (p ps 2) (p ps 5) vs outs
  | 6004 => gadget_oracle false ps vs outs
  | 6005 => gadget_oracle true ps vs outs
  | 6006 => (* independent streams: no two cells / entries of a compressed composite object share a seed or a mask *)
      let f := v outs 1 in ob (Nat.eqb (length f) 2 && (fl f 0 =? 1) && (fl f 1 =? 1))
  | 6007 | 6008 =>
      (* the mask of a fresh scheme-layer ciphertext is the digit image of the MASK seed's stream, in stream order (column, limb,
         coefficient); it does not move with the plaintext or the error seed; the body moves with the error seed *)
      let b := p ps 2 in let nk := p ps 4 in let f := v outs 1 in
      ob (Nat.eqb (length f) 5 && eqlz (v outs 0) (digits b (v vs 0))
          && (fl f 0 =? 1) && (fl f 1 =? 1) && (fl f 2 =? 1)
          && (errs_same_on_torus b nk (v vs 1) (v vs 3) || (fl f 3 =? 0))
          && (eqlz (digits b (v vs 0)) (digits b (v vs 2)) || (fl f 4 =? 0)))
  | 6009 =>
      (* composite key generation: every cell's mask is the digit image of ITS part of the one mask-seed stream (segments, entries
         and cells follow one another, no part used twice); nothing of the mask moves with the secrets or the error seed *)
      let n := np ps 1 in let b := p ps 2 in let size := np ps 3 in let nk := p ps 4 in let f := v outs 1 in
      let ms := kg_masks b n size (kg_segments ps) O (v vs 0) in
      ob (Nat.eqb (length f) 6 && eqlz (v outs 0) (concat ms)
          && (fl f 0 =? 1) && (fl f 1 =? 1) && (fl f 2 =? 1)
          && (errs_same_on_torus b nk (v vs 1) (v vs 3) || (fl f 3 =? 0))
          && (eqlz (digits b (v vs 0)) (digits b (v vs 2)) || (fl f 4 =? 0))
          && (fl f 5 =? 1))
  | 6020 => stats_oracle (v outs 0)
  | _ => 2
  end.
