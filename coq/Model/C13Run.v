(* Executable entry points of the C13 model for the correspondence check.
   codes (op = 1 add, 2 sub, 3 sll, 4 srl, 5 sra, 6 slt, 7 sltu, 8 and, 9 or, 10 xor, 11 identity):
     13000+op  vs = [as; bs]      -> [words]   output words of the generated tables under eval_stale
     13100+op  ps = [n; seed]     -> [[0;0;0;0;0]]   bulk comparison done by the harness: the theorems predict no mismatch
     13200+op                     -> [[nin; nout]; table_0; ...]  the generated tables themselves, node by node
     13300+op                     -> [[1]]     one real homomorphic evaluation by the harness agreed with the word operation *)
From Coq Require Import ZArith List Bool Arith.
From PV Require Import Model.C13Bdd Gen.C13Circuits_gen.
Import ListNotations.
Open Scope Z_scope.

Record family := mkF { f_tab : list circuit; f_hint : list (list nat); f_nin : nat; f_nout : nat;
                       f_bits : nat; (* input bits exposed by the helper: 64 (two words) or 32 (one word) *)
                       f_op : Z -> Z -> Z; f_aut : nat -> automaton }.

Definition family_of (op : Z) : option family :=
  match op with
  | 1 => Some (mkF add_tab add_hint add_nin add_nout 64 op_add A_add)
  | 2 => Some (mkF sub_tab sub_hint sub_nin sub_nout 64 op_sub A_sub)
  | 3 => Some (mkF sll_tab sll_hint sll_nin sll_nout 64 op_sll A_sll)
  | 4 => Some (mkF srl_tab srl_hint srl_nin srl_nout 64 op_srl A_srl)
  | 5 => Some (mkF sra_tab sra_hint sra_nin sra_nout 64 op_sra A_sra)
  | 6 => Some (mkF slt_tab slt_hint slt_nin slt_nout 64 op_slt A_slt)
  | 7 => Some (mkF sltu_tab sltu_hint sltu_nin sltu_nout 64 op_sltu A_sltu)
  | 8 => Some (mkF and_tab and_hint and_nin and_nout 64 op_and A_and)
  | 9 => Some (mkF or_tab or_hint or_nin or_nout 64 op_or A_or)
  | 10 => Some (mkF xor_tab xor_hint xor_nin xor_nout 64 op_xor A_xor)
  | 11 => Some (mkF identity_tab identity_hint identity_nin identity_nout 32 op_identity A_identity)
  | _ => None
  end.

(* a table prepared once per record: width, levels, "no panic" flag.  [bit_of] below is [eval_stale] with the
   chunking shared between inputs ([eval_stale c e = eval_levels_stale (c_width c) lv e] by definition). *)
Definition prepared := (nat * option (list (list node)) * bool)%type.
Definition prepare (bits : nat) (c : circuit) : prepared := (c_width c, levels_of c, exec_safe bits c).
Definition bit_of (p : prepared) (e : env) : option bool :=
  let '(w, lv, safe) := p in
  if safe then
    match w with
    | O => Some false
    | S _ => match lv with Some l => Some (eval_levels_stale w l e) | None => None end
    end
  else None.                               (* the Rust evaluator panics on this table *)

(* bits >= OUTPUT_BITS are zeroed by the evaluator; a missing table inside OUTPUT_BITS is an index panic *)
Fixpoint word_bits (ps : list prepared) (nout i : nat) (n : nat) (e : env) : option (list bool) :=
  match n with
  | O => Some []
  | S n' =>
    let b := if (i <? nout)%nat then match nth_error ps i with Some p => bit_of p e | None => None end else Some false in
    match b, word_bits ps nout (S i) n' e with
    | Some x, Some r => Some (x :: r)
    | _, _ => None
    end
  end.
Definition z_of_bits (l : list bool) : Z := fold_right (fun b acc => Z.b2z b + 2 * acc) 0 l.
Definition word_of (ps : list prepared) (nout : nat) (a b : Z) : option Z :=
  option_map z_of_bits (word_bits ps nout 0 32 (env_of a b)).

Fixpoint all_some {X} (l : list (option X)) : option (list X) :=
  match l with
  | [] => Some []
  | Some x :: tl => option_map (cons x) (all_some tl)
  | None :: _ => None
  end.

(* node encoding shared with the harness *)
Definition enc_node (nd : node) : Z :=
  match nd with
  | Nonode => 0
  | Copy => 1
  | Cmux v hi lo => 2 + Z.of_nat v + 65536 * Z.of_nat hi + 4294967296 * Z.of_nat lo
  end.
Definition dec_node (z : Z) : node :=
  if z =? 0 then Nonode else if z =? 1 then Copy
  else let t := z - 2 in
       Cmux (Z.to_nat (t mod 65536)) (Z.to_nat ((t / 65536) mod 65536)) (Z.to_nat (t / 4294967296)).
Definition enc_circuit (c : circuit) : list Z := Z.of_nat (c_width c) :: map enc_node (c_nodes c).
Definition dec_circuit (nin : nat) (l : list Z) : circuit :=
  match l with
  | [] => empty_circuit
  | w :: nodes => mkC nin (Z.to_nat w) (map dec_node nodes)
  end.

Definition nthv (vs : list (list Z)) (i : nat) : list Z := nth i vs [].

Definition run_c13 (code : Z) (ps : list Z) (vs : list (list Z)) : option (list (list Z)) :=
  let kind := code / 100 in
  match family_of (code mod 100) with
  | None => None
  | Some f =>
    if kind =? 130 then
      let prep := map (prepare (f_bits f)) (f_tab f) in
      match all_some (map (fun ab => word_of prep (f_nout f) (fst ab) (snd ab)) (combine (nthv vs 0) (nthv vs 1))) with
      | Some ws => Some [ws]
      | None => None
      end
    else if kind =? 131 then Some [[0; 0; 0; 0; 0]]
    else if kind =? 132 then Some ([Z.of_nat (f_nin f); Z.of_nat (f_nout f)] :: map enc_circuit (f_tab f))
    else if kind =? 133 then Some [[1]]      (* the homomorphic evaluation agrees with the word operation *)
    else None
  end.

(* Direct oracle: the property statement on the implementation's outputs.
     13000+op: every output word equals the plain word operation;
     13100+op: the harness found no mismatch among its n pairs;
     13200+op: the tables dumped from the compiled crate, decoded: 0 when the (exact, decidable) well-formedness part
               of the property fails; 1 when they also pass the proved checker (so, by check_sound, the compiled
               tables are correct for all inputs); 2 when only the (sound but incomplete) checker rejects them. *)
Definition forall2b {X Y} (f : X -> Y -> bool) (l1 : list X) (l2 : list Y) : bool :=
  Nat.eqb (length l1) (length l2) && forallb (fun q => f (fst q) (snd q)) (combine l1 l2).
Definition ob (b : bool) : Z := if b then 1 else 0.

Definition oracle_c13 (code : Z) (ps : list Z) (vs outs : list (list Z)) : Z :=
  let kind := code / 100 in
  match family_of (code mod 100) with
  | None => 2
  | Some f =>
    if kind =? 130 then
      ob (forall2b (fun ab w => w =? f_op f (fst ab) (snd ab)) (combine (nthv vs 0) (nthv vs 1)) (nthv outs 0))
    else if kind =? 131 then ob (nth 0 (nthv outs 0) 1 =? 0)
    else if kind =? 133 then ob (nth 0 (nthv outs 0) 0 =? 1)
    else if kind =? 132 then
      match outs with
      | [nin; nout] :: tabs =>
        let tab := map (dec_circuit (Z.to_nat nin)) tabs in
        if negb (family_wf (Z.to_nat nin) (Z.to_nat nout) (f_bits f) tab) then 0
        else if check_family (f_aut f) (f_hint f) tab then 1
        else 2      (* the checker is sound, not complete: a rejected table is not by itself a failing input *)
      | _ => 0
      end
    else 2
  end.
