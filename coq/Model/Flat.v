(* L2: flat memory.  A VecZnx-like buffer is a flat list of words; limb j of column i starts at
   n*(j*cols+i) (poulpy-hal/src/layouts/vec_znx.rs `at`).  Operations rewrite the limbs [0,size) of ONE
   column and leave every other word as it was. *)
From PV Require Import Base.MachineInt Model.Znx Model.Limbs.
Open Scope Z_scope.

Definition limb_at (n cols : nat) (data : list Z) (col j : nat) : list Z :=
  firstn n (skipn (n * (j * cols + col)) data).

Definition col_limbs (n cols size : nat) (data : list Z) (col : nat) : list (list Z) :=
  map (limb_at n cols data col) (seq 0 size).

(* overwrite n words at word offset off (no-op past the end, like a bounds-checked write would panic:
   the callers' shapes are validated by the dispatcher before) *)
Definition write_at (data : list Z) (off : nat) (l : list Z) : list Z :=
  firstn off data ++ l ++ skipn (off + length l) data.

Definition write_limb (n cols : nat) (data : list Z) (col j : nat) (l : list Z) : list Z :=
  write_at data (n * (j * cols + col)) (firstn n (l ++ zeros n)).

Definition write_col (n cols : nat) (data : list Z) (col : nat) (limbs : list (list Z)) : list Z :=
  fst (fold_left (fun (s : list Z * nat) l => (write_limb n cols (fst s) col (snd s) l, S (snd s))) limbs (data, O)).

(* coefficient view: coefficient i -> its limbs *)
Definition transpose (n : nat) (limbs : list (list Z)) : list (list Z) :=
  map (fun i => map (fun l => nthZ l i) limbs) (seq 0 n).
Definition untranspose (size : nat) (coeffs : list (list Z)) : list (list Z) :=
  map (fun j => map (fun c => nthZ c j) coeffs) (seq 0 size).

Fixpoint sequence {A} (l : list (option A)) : option (list A) :=
  match l with
  | [] => Some []
  | None :: _ => None
  | Some x :: t => match sequence t with Some t' => Some (x :: t') | None => None end
  end.

(* apply a per-coefficient function (input limbs, prior result limbs) -> new result limbs to a column *)
Definition lift_coeff (f : list Z -> list Z -> option (list Z)) (n rsize : nat)
           (a_limbs r_limbs : list (list Z)) : option (list (list Z)) :=
  match sequence (map (fun p => f (fst p) (snd p)) (combine (transpose n a_limbs) (transpose n r_limbs))) with
  | Some cs => Some (untranspose rsize cs)
  | None => None
  end.

(* shape header shared by the flat-memory ops *)
Record shape := { s_n : nat; s_cols : nat; s_size : nat; s_max : nat; s_col : nat }.
Definition shape_ok (s : shape) (data : list Z) : bool :=
  Nat.ltb (s_col s) (s_cols s) && Nat.leb (s_size s) (s_max s) &&
  Nat.eqb (length data) (s_n s * s_cols s * s_max s).

(* res := per-coefficient f over column (a, acol) into column (res, rcol) *)
Definition col_op (f : list Z -> list Z -> option (list Z)) (rs as_ : shape) (res a : list Z) : option (list Z) :=
  if shape_ok rs res && shape_ok as_ a && Nat.eqb (s_n rs) (s_n as_) then
    match lift_coeff f (s_n rs) (s_size rs)
            (col_limbs (s_n as_) (s_cols as_) (s_size as_) a (s_col as_))
            (col_limbs (s_n rs) (s_cols rs) (s_size rs) res (s_col rs)) with
    | Some limbs => Some (write_col (s_n rs) (s_cols rs) res (s_col rs) limbs)
    | None => None
    end
  else None.
