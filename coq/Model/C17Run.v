(* C17 - executable model of the harness records (harness/src/bin/c17.rs) and the property oracle.

   record: ps = [be, opc, n, hist, subj, hp1, hp2 | r: cols size col | a: cols size col | b: cols size col | e0..e3 | seed]
   out[0] = [status, canaries_ok, hook_violations, digest_eq]     out[1] = header of the subject after its history
   status 0 ran, 1 panicked (defined rejection), 2 read_from returned Err, 3 the safe-API history left an ill-formed
   object (Inv false; the operation is not run in the main stream).

   The model predicts the header from the layout model of Model/C17Mem.v (what alloc / set_size / reallocate_limbs /
   write_to / read_from / take_* / from_data commit) and the status from Inv and the column selectors.
   No proofs in this file. *)
From PV Require Import Base.MachineInt Model.C12Scratch Model.C17Mem.
Open Scope Z_scope.

Definition K_NONE : Z := 255.
Definition K_Z : Z := 0. Definition K_B : Z := 1. Definition K_D : Z := 2. Definition K_S : Z := 3.
Definition K_P : Z := 4. Definition K_M : Z := 5. Definition K_V : Z := 6.
Definition K_L : Z := 7. Definition K_R : Z := 8. Definition K_C : Z := 9.   (* CnvPVecL, CnvPVecR, the &[i64] constant *)

(* kinds of (res, a, b) per opcode; same table as op_info in c17.rs *)
Definition op_kinds (opc : Z) : option (Z * Z * Z) :=
  let z := K_Z in let b := K_B in let d := K_D in let s := K_S in let p := K_P in let m := K_M in let v := K_V in let x := K_NONE in
  if (opc =? 1) || (opc =? 3) then Some (z, z, z)
  else if (opc =? 2) || (opc =? 4) || (opc =? 5) || (opc =? 6) || (opc =? 8) || (opc =? 10) || (opc =? 12) || (opc =? 14) then Some (z, z, x)
  else if (opc =? 7) || (opc =? 9) || (opc =? 11) || (opc =? 13) || (opc =? 15) || (opc =? 21) || (opc =? 23) || (opc =? 27) then Some (z, x, x)
  else if opc =? 16 then Some (z, s, z)
  else if (opc =? 20) || (opc =? 22) || (opc =? 24) || (opc =? 25) || (opc =? 26) || (opc =? 28) || (opc =? 29) then Some (z, z, x)
  else if (opc =? 40) || (opc =? 41) then Some (b, b, b)
  else if (opc =? 42) || (opc =? 44) || (opc =? 48) then Some (b, b, x)
  else if opc =? 43 then Some (z, b, x)
  else if opc =? 45 then Some (b, x, x)
  else if opc =? 46 then Some (b, z, x)
  else if opc =? 47 then Some (b, b, z)
  else if opc =? 50 then Some (d, z, x)
  else if (opc =? 51) || (opc =? 52) then Some (b, d, x)
  else if (opc =? 53) || (opc =? 54) then Some (d, d, d)
  else if (opc =? 55) || (opc =? 57) then Some (d, d, x)
  else if (opc =? 56) || (opc =? 58) then Some (d, x, x)
  else if opc =? 60 then Some (p, s, x)
  else if opc =? 61 then Some (d, p, z)
  else if opc =? 62 then Some (d, p, d)
  else if opc =? 63 then Some (d, p, x)
  else if opc =? 70 then Some (v, m, x)
  else if opc =? 71 then Some (d, d, v)
  else if opc =? 72 then Some (d, z, v)
  else if opc =? 80 then Some (K_L, z, x)
  else if opc =? 81 then Some (K_R, z, x)
  else if (opc =? 82) || (opc =? 83) then Some (d, K_L, K_R)
  else if opc =? 84 then Some (b, z, K_C)
  else if opc =? 85 then Some (K_L, K_R, z)
  else if (90 <=? opc) && (opc <=? 93) then Some (z, z, x)   (* core level: GLWE / plaintext operands carved by take_glwe* *)
  else None.

Definition kind_of (ks : Z * Z * Z) (o : Z) : Z :=
  let '(r, a, b) := ks in if o =? 0 then r else if o =? 1 then a else b.

(* size_of::<Scalar>() per layout kind and backend (1,2 = FFT64: f64 / i64; 3,4 = NTT120: Q120bScalar / i128) *)
Definition w_of (kind be : Z) : Z :=
  let ntt := 3 <=? be in
  if kind =? K_B then (if ntt then 16 else 8)
  else if (kind =? K_D) || (kind =? K_P) || (kind =? K_V) || (kind =? K_L) || (kind =? K_R) then (if ntt then 32 else 8)
  else 8.

Definition p (ps : list Z) (i : nat) : Z := nth i ps 0.

(* same number of words, other factorisation (history 10) *)
Definition refactor (n cols size how : Z) : Z * Z * Z :=
  if (how =? 0) && (2 <=? n) then (n / 2, cols * 2, size)
  else if (how =? 1) && (cols mod 2 =? 0) then (n * 2, cols / 2, size)
  else if how =? 2 then (n, size, cols)
  else if how =? 3 then (n, cols * size, 1)
  else if how =? 4 then (n * cols, 1, size)
  else (n, cols, size).

Definition set_field (h : stream_hdr) (k v : Z) : stream_hdr :=
  if k =? 0 then mkS v (sh_cols h) (sh_size h) (sh_max h) (sh_len h)
  else if k =? 1 then mkS (sh_n h) v (sh_size h) (sh_max h) (sh_len h)
  else if k =? 2 then mkS (sh_n h) (sh_cols h) v (sh_max h) (sh_len h)
  else if k =? 3 then mkS (sh_n h) (sh_cols h) (sh_size h) v (sh_len h)
  else mkS (sh_n h) (sh_cols h) (sh_size h) (sh_max h) v.

Inductive hist_res : Type :=
| HRejected (v : vhdr)      (* read_from returned Err: the receiver is unchanged *)
| HOk (v : vhdr)
| HBad.                     (* not a history of this kind of object *)

Definition grow (r : read_res) (receiver : vhdr) (do_grow : bool) : hist_res :=
  match r with
  | RErr => HRejected receiver
  | ROk v' => if do_grow then match v_set_size v' (v_max v') with Some g => HOk g | None => HBad end else HOk v'
  end.

(* the header of the subject after its history; (n, cols, size) is the nominal shape, w its word size,
   words = cols*size (vectors) or rows*cols_in*cols_out*size (matrices) *)
(* history 13: a self-consistent stream describing a LARGER object (one dimension bumped) is read into the receiver;
   the reader must return Err and leave the receiver as it was (or, when the 64-byte rounding of the receiver's buffer
   happens to hold the larger object, accept it); the receiver is then USED *)
Definition bump3 (n cols size how : Z) : Z * Z * Z :=
  if how =? 0 then (2 * n, cols, size) else if how =? 1 then (n, cols + 1, size) else (n, cols, size + 1).
Definition apply_read (v : vhdr) (r : read_res) : vhdr := match r with RErr => v | ROk v' => v' end.
Definition read_larger (rc : vhdr) (how : Z) : vhdr :=
  let '(n2, c2, s2) := bump3 (v_n rc) (v_cols rc) (v_size rc) how in
  apply_read rc (v_read_from rc (mkS n2 c2 s2 s2 (n2 * c2 * s2 * 8)) (n2 * c2 * s2 * 8)).

Definition bump5 (n size rows cin cout how : Z) : Z * Z * Z * Z * Z :=
  if how =? 0 then (2 * n, size, rows, cin, cout) else if how =? 1 then (n, size + 1, rows, cin, cout)
  else if how =? 2 then (n, size, rows + 1, cin, cout) else if how =? 3 then (n, size, rows, cin + 1, cout)
  else (n, size, rows, cin, cout + 1).
Definition m_apply_read (m : mhdr) (r : option mhdr) : mhdr := match r with Some m' => m' | None => m end.
Definition m_read_larger (m : mhdr) (how : Z) : mhdr :=
  let '(n2, s2, r2, ci2, co2) := bump5 (m_n m) (m_size m) (m_rows m) (m_cin m) (m_cout m) how in
  let len := r2 * ci2 * n2 * co2 * s2 * 8 in
  m_apply_read m (m_read_from m n2 s2 r2 ci2 co2 len len).

Definition hist_hdr (vec chk ser : bool) (n cols size w words hist hp1 hp2 : Z) : hist_res :=
  let plain := mkV n cols size size (n * words * w) w in
  if hist =? 0 then HOk plain
  else if hist =? 1 then HOk (mkV n cols size (size + hp1) (n * cols * (size + hp1) * w) w)
  else if (hist =? 7) || (hist =? 8) then HOk plain
  else if hist =? 9 then
    (* from_data on a buffer 8*hp1 bytes short: every layout's from_data asserts the length (chk) since 2067fe8 / 122d562;
       chk = false models a struct literal through the public fields, which no history of the harness uses *)
    let len := Z.max 0 (n * words * w - 8 * hp1) in
    if chk then match v_from_data_checked len n cols size w with Some v => HOk v | None => HBad end
    else HOk (v_from_data len n cols size w)
  else if hist =? 11 then let n' := if hp1 =? 0 then Z.max (n / 2) 1 else n * 2 in HOk (mkV n' cols size size (n' * words * w) w)
  else if hist =? 13 then (if ser then HOk (read_larger (v_alloc n cols size 8) hp1) else HBad)
  else if negb vec then HBad
  else if hist =? 2 then HOk (v_realloc (v_alloc n cols hp2 8) size)
  else if (hist =? 3) || (hist =? 4) then
    match v_set_size (v_alloc n cols (size + hp1) 8) size with
    | Some wr => let rc := v_alloc n cols (size + hp2) 8 in
                 grow (v_read_from rc (v_write_hdr wr) (sh_len (v_write_hdr wr))) rc (hist =? 4)
    | None => HBad
    end
  else if (hist =? 5) || (hist =? 6) then
    let wr := v_alloc n cols size 8 in
    let h := set_field (v_write_hdr wr) hp1 (hp2 mod U64) in
    grow (v_read_from wr h (sh_len (v_write_hdr wr))) wr (hist =? 6)
  else if hist =? 10 then
    let '(n2, c2, s2) := refactor n cols size hp1 in
    let wr := v_alloc n cols size 8 in
    grow (v_read_from wr (mkS n2 c2 s2 s2 (sh_len (v_write_hdr wr))) (sh_len (v_write_hdr wr))) wr false
  else HBad.

Definition hdr_list (v : vhdr) : list Z := [v_n v; v_cols v; v_size v; v_max v; v_len v; v_w v].
(* matrix subjects report [n, cols_in, size, size, |data|, w, rows, cols_out] *)
Definition mat_list (m : mhdr) : list Z := [m_n m; m_cin m; m_size m; m_size m; m_len m; m_w m; m_rows m; m_cout m].
Definition wf_mb (m : mhdr) : bool :=
  (0 <=? m_n m) && (0 <=? m_rows m) && (0 <=? m_cin m) && (0 <=? m_cout m) && (0 <=? m_size m) && (0 <=? m_len m) && (0 <? m_w m).
Definition InvMb (m : mhdr) : bool := m_bytes_of (m_n m) (m_rows m) (m_cin m) (m_cout m) (m_size m) (m_w m) <=? m_len m.
(* history of a matrix subject: fresh / carved / shifted view (exact region), another ring degree, or (MatZnx only)
   the rejected read of a larger matrix into an owned receiver *)
Definition mat_hist (is_matznx : bool) (n rows cin cout size w hist hp1 : Z) : option mhdr :=
  let exact (n' : Z) := mkM n' rows cin cout size (n' * (rows * cin * cout * size) * w) w in
  if (hist =? 0) || (hist =? 7) || (hist =? 8) then Some (exact n)
  else if hist =? 11 then Some (exact (if hp1 =? 0 then Z.max (n / 2) 1 else n * 2))
  else if (hist =? 13) && is_matznx then Some (m_read_larger (m_alloc n rows cin cout size 8) hp1)
  else None.

(* nominal shape of operand o *)
Definition nominal (ps : list Z) (ks : Z * Z * Z) (o : Z) : Z * Z * Z * Z :=     (* cols, size, words, kind *)
  let kind := kind_of ks o in
  let oi := Z.to_nat o in
  let cols := p ps (7 + 3 * oi) in
  let size := if (kind =? K_S) || (kind =? K_P) then 1 else p ps (8 + 3 * oi) in
  if (kind =? K_M) || (kind =? K_V) then
    let rows := p ps 16 in let cin := p ps 10 in let cout := p ps 7 in
    let size := if p ps 1 =? 70 then p ps 11 else size in
    (cin, size, rows * cin * cout * size, kind)
  else (cols, size, cols * size, kind).

Definition run_c17 (code : Z) (ps : list Z) (vs : list (list Z)) : option (list (list Z)) :=
  let be := p ps 0 in let opc := p ps 1 in let n := p ps 2 in
  let hist := p ps 3 in let subj := p ps 4 in let hp1 := p ps 5 in let hp2 := p ps 6 in
  if (100 <=? opc) && (opc <=? 112) then
    (* scheme layers (CKKS add / mul / rescale; FheUint prepare / add / blind rotation): owned destination
       (alloc: 64-byte rounded buffer), scratch window carved in the arena; nothing may go wrong *)
    Some [[0; 1; 0; 1]; hdr_list (v_alloc n (p ps 7) (p ps 8) 8)]
  else
  match op_kinds opc with
  | None => None
  | Some ks =>
    if (90 <=? opc) && (opc <=? 93) then
      (* core level: GLWE operands carved by take_glwe (exact window), key owned (GGLWE: rows = dnum, cols_in = rank,
         cols_out = rank + 1; GGSW: cols_in = rank + 1); history 7 = carved, 13 = rejected read of a larger object first *)
      let rank := p ps 18 in let dsize := Z.max (p ps 19) 1 in
      if subj <? 2 then
        let cols := p ps (7 + 3 * Z.to_nat subj) in let size := p ps (8 + 3 * Z.to_nat subj) in
        let plain := mkV n cols size size (n * cols * size * 8) 8 in
        if hist =? 7 then Some [[0; 1; 0; 1]; hdr_list plain]
        else if hist =? 13 then
          let v := read_larger plain 2 in
          Some [[if wf_vb v && Invb v then 0 else 3; 1; 0; 1]; hdr_list v]
        else None
      else
        let dnum := Z.max ((p ps 11 + dsize - 1) / dsize) 1 in
        let cin := if opc =? 92 then rank else rank + 1 in
        let m := m_read_larger (m_alloc n dnum cin (rank + 1) (p ps 14) 8) hp1 in
        if hist =? 13 then Some [[if wf_mb m && InvMb m then 0 else 3; 1; 0; 1]; mat_list m] else None
    else
    let '(cols, size, words, kind) := nominal ps ks subj in
    let w := w_of kind be in
    let mat := (kind =? K_M) || (kind =? K_V) in
    if mat then
      let rows := p ps 16 in let cin := p ps 10 in let cout := p ps 7 in
      match mat_hist (kind =? K_M) n rows cin cout size w hist hp1 with
      | None => None
      | Some m => Some [[if wf_mb m && InvMb m then 0 else 3; 1; 0; 1]; mat_list m]
      end
    else
    match hist_hdr (kind =? K_Z) ((kind =? K_Z) || (kind =? K_S) || (kind =? K_B) || (kind =? K_D) || (kind =? K_P) || (kind =? K_L) || (kind =? K_R))
                   ((kind =? K_Z) || (kind =? K_S)) n cols size w words hist hp1 hp2 with
    | HBad => None
    | HRejected v => Some [[2; 1; 0; 1]; hdr_list v]
    | HOk v =>
      if negb (wf_vb v && Invb v) then Some [[3; 1; 0; 1]; hdr_list v]
      else
        (* column selectors: at() / at_mut() assert i < cols (the subject with its post-history header) *)
        let col_ok (o : Z) : bool :=
          let k := kind_of ks o in
          if (k =? K_NONE) || (k =? K_M) || (k =? K_V) then true
          else let c := p ps (9 + 3 * Z.to_nat o) in
               let cs := if o =? subj then v_cols v else p ps (7 + 3 * Z.to_nat o) in
               c <? cs in
        (* vmp family: no column selectors *)
        let sel := (opc <? 70) in
        let ok := negb sel || (col_ok 0 && col_ok 1 && col_ok 2) in
        Some [[if ok then 0 else 1; 1; 0; 1]; hdr_list v]
    end
  end.

(* ---------------- the property, evaluated on the implementation's outputs ----------------
   1 = holds, 0 = fails:
   - the object the safe-API history produced satisfies Inv (observed header);
   - nothing outside the operands and the scratch window was written (canaries), the accessor hook saw no
     out-of-bounds or misaligned view, and a completed call gave the same output for both garbage fills. *)
Definition oracle_c17 (code : Z) (ps : list Z) (vs outs : list (list Z)) : Z :=
  let o := nth 0 outs [] in let h := nth 1 outs [] in
  let status := nth 0 o 9 in let can := nth 1 o 0 in let viol := nth 2 o 1 in let deq := nth 3 o 0 in
  let v := mkV (nth 0 h 0) (nth 1 h 0) (nth 2 h 0) (nth 3 h 0) (nth 4 h 0) (nth 5 h 0) in
  let opc := p ps 1 in let subj := p ps 4 in
  let mat := match op_kinds opc with
             | Some ks => let k := kind_of ks subj in (k =? K_M) || (k =? K_V)
             | None => false end in
  let m := mkM (nth 0 h 0) (nth 6 h 0) (nth 1 h 0) (nth 7 h 0) (nth 2 h 0) (nth 4 h 0) (nth 5 h 0) in
  let is8 := Nat.eqb (length h) 8 in
  let inv_ok := if is8 then wf_mb m && InvMb m else (mat || (wf_vb v && Invb v)) in
  if status =? 2 then (if (can =? 1) && (viol =? 0) then 1 else 0)
  else if negb inv_ok then 0
  else if status =? 3 then 0
  else if (status =? 0) then (if (can =? 1) && (viol =? 0) && (deq =? 1) then 1 else 0)
  else if (status =? 1) then (if (can =? 1) && (viol =? 0) then 1 else 0)
  else 0.
