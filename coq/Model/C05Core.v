(* C05 part 2 — poulpy-core/src/operations/glwe.rs: glwe_tensor_apply, glwe_tensor_apply_add_assign,
   glwe_tensor_square_apply, glwe_mul_plain(_assign), glwe_mul_const(_assign) as column loops over the HAL convolution
   of C05Cnv.v, the big-normalisation of Limbs.v / LimbsBig.v (per coefficient, through Flat.lift_coeff) and the
   limb-wise vec_znx_{copy,negate,add_assign,sub_assign} of Ring.v.  No proofs in this file.

   A ciphertext is the list of its columns, a column the list of its limbs (most significant first), a limb a list of
   n words.  The tensor of rank r has (r+1)(r+2)/2 columns, column  tcol (r+1) i j  (i <= j) holding the coefficient of
   s_i s_j with s_0 = 1. *)
From PV Require Import Base.MachineInt Model.Znx Model.Limbs Model.LimbsBig Model.Flat Model.Ring Model.DftAbs Model.C05Cnv Model.C05Spec.
Open Scope Z_scope.

(* ---------------- scalar helpers ---------------- *)
(* msb_mask_bottom_limb(base2k, k): all ones if k % base2k == 0, else (!0i64) << (base2k - k % base2k) *)
Definition msb_mask (b k : Z) : Z :=
  let r := k mod b in if r =? 0 then -1 else shl 64 (-1) (b - r).

(* the (cnv_offset_hi, cnv_offset_lo) split:
     if cnv_offset < base2k { (0, -((base2k - cnv_offset % base2k) as i64)) }
     else { ((cnv_offset / base2k).saturating_sub(1), (cnv_offset % base2k) as i64) } *)
Definition offset_split (b cnv : Z) : Z * Z :=
  if cnv <? b then (0, - (b - cnv mod b)) else (Z.max (cnv / b - 1) 0, cnv mod b).

(* normalize_input_limb_bound_with_offset(full_size, res_size, res_base2k, in_base2k, res_offset) *)
Definition limb_bound_of_res (rsz : nat) (rb ab lo : Z) : nat :=
  let ob0 := Z.rem lo ab in
  let ob := if (lo <? 0) && negb (ob0 =? 0) then ob0 + ab else ob0 in
  Z.to_nat ((zn rsz * rb + ob + ab - 1) / ab).
Definition limb_bound_off (full rsz : nat) (rb ab lo : Z) : nat := Nat.min full (limb_bound_of_res rsz rb ab lo).
(* `a.size() + b.size() - cnv_offset_hi` in usize: when hi exceeds the sum the subtraction wraps in release builds
   (debug builds panic) and the minimum is then the result-driven bound *)
Definition tensor_dsz (asz bsz hi rsz : nat) (rb ab lo : Z) : nat :=
  if Nat.ltb (asz + bsz) hi then limb_bound_of_res rsz rb ab lo else limb_bound_off (asz + bsz - hi) rsz rb ab lo.

(* vec_znx_big_normalize(res, res_base2k, res_offset, col, big, a_base2k, 0): FFT64 accumulates in i64 and calls the
   i64 normaliser, NTT120 in i128 with its own cross-radix routine; result limbs are i64.  A `None` of the per-coefficient
   routine (fuel exhausted: never happens) is mapped to the empty column. *)
Definition big_nrm (fft : bool) (n rsz : nat) (rb ab lo : Z) (D : plimbs) : limbs :=
  match lift_coeff (fun a r => match (if fft then normalize 64 rb ab lo a r else normalize_big 128 rb ab lo a r) with
                               | Some o => Some (map (wrap 64) o) | None => None end)
                   n rsz D (mk rsz (fun _ => pzero n)) with
  | Some l => l
  | None => []
  end.

Definition colsel (g : list limbs) (i : nat) : limbs := nth i g [].
Definition tcol (cols i j : nat) : nat := (i * cols - i * (i + 1) / 2 + j)%nat.
(* the index pairs (i, j), i <= j < cols, in the order of the tensor's columns: C05Spec.tpairs *)

Section Core.
Variable fft : bool.
Variable n : nat.
(* per-column normalisation of a big accumulator into res.size() limbs of radix res_base2k (shifted by cnv_offset_lo) *)
Variable nrm : plimbs -> limbs.

Definition W : Z := 64.
Definition vcopy (a r0 : limbs) : limbs := vec_unary n (fun l => l) a r0.        (* vec_znx_copy *)
Definition vnegate (a r0 : limbs) : limbs := vec_unary n (vneg W) a r0.          (* vec_znx_negate *)

(* prepared operands: one plimbs per column *)
Definition prep_cols (psz : nat) (mask : Z) (g : list limbs) : list plimbs := map (cnv_prepare n psz mask) g.

(* normalised diagonal term i and pairwise term (i, j), dsz = limbs of the DFT temporary *)
Definition diag (dsz hi : nat) (A B : list plimbs) (i : nat) : limbs :=
  nrm (cnv_apply fft n dsz hi (colsel A i) (colsel B i)).
Definition pairw (dsz hi : nat) (A B : list plimbs) (i j : nat) : limbs :=
  nrm (cnv_pairwise fft n dsz hi (colsel A i) (colsel A j) (colsel B i) (colsel B j) (Nat.eqb i j)).

(* Each tensor column is touched by a fixed sequence of operations that involves no other tensor column, so the
   column loops are transcribed cell by cell, in the order in which the code reaches the column:
   glwe_tensor_apply, column (i, i):  copy(diag i)
                     column (i, j), i < j:  first loop, iteration i: negate(diag i) [overwrites];
                                            iteration j: sub_assign(diag j); second loop: add_assign(pairwise i j) *)
Definition cell_apply (dsz hi : nat) (A B : list plimbs) (i j : nat) (r0 : limbs) : limbs :=
  if Nat.eqb i j then vcopy (diag dsz hi A B i) r0
  else vec_add_assign W (pairw dsz hi A B i j) (vec_sub_assign W (diag dsz hi A B j) (vnegate (diag dsz hi A B i) r0)).
(* glwe_tensor_apply_add_assign: column (i, i): add_assign(diag i);
   column (i, j): sub_assign(diag i), sub_assign(diag j), add_assign(pairwise i j) *)
Definition cell_add_assign (dsz hi : nat) (A B : list plimbs) (i j : nat) (r0 : limbs) : limbs :=
  if Nat.eqb i j then vec_add_assign W (diag dsz hi A B i) r0
  else vec_add_assign W (pairw dsz hi A B i j) (vec_sub_assign W (diag dsz hi A B j) (vec_sub_assign W (diag dsz hi A B i) r0)).
(* glwe_tensor_square_apply: column (i, i): copy(diag_terms i); column (i, j): the pairwise term is normalised straight into
   the column (every limb overwritten), then sub_assign(diag_terms i), sub_assign(diag_terms j) *)
Definition cell_square (dsz hi : nat) (A B : list plimbs) (i j : nat) (r0 : limbs) : limbs :=
  if Nat.eqb i j then vcopy (diag dsz hi A B i) r0
  else vec_sub_assign W (diag dsz hi A B j) (vec_sub_assign W (diag dsz hi A B i) (vcopy (pairw dsz hi A B i j) r0)).

Definition tensor_gen (cell : nat -> nat -> limbs -> limbs) (cols : nat) (res0 : list limbs) : list limbs :=
  map (fun q => cell (fst (fst q)) (snd (fst q)) (snd q)) (combine (tpairs cols) res0).

End Core.

(* ---------------- the public entry points ---------------- *)
Record glwe_shape := { sh_rank : nat; sh_b : Z; sh_k : Z }.
Definition sh_size (s : glwe_shape) : nat := Z.to_nat ((sh_k s + sh_b s - 1) / sh_b s).

Definition norm_for (fft : bool) (n rsz : nat) (rb ab lo : Z) : plimbs -> limbs := big_nrm fft n rsz rb ab lo.

(* mode: 0 = glwe_tensor_apply, 1 = glwe_tensor_apply_add_assign, 2 = glwe_tensor_square_apply (b = a).
   None = the call panics: effective precision not matching the size; FFT64 with an empty DFT temporary
   (`for k in (0..dst_size - 1)` underflows in reim4_convolution; NTT120 returns zeros). Release semantics. *)
Definition glwe_tensor (fft : bool) (n : nat) (mode : Z) (cnv : Z) (rank : nat) (ab rb : Z) (a_k b_k : Z)
           (a b res0 : list limbs) : option (list limbs) :=
  let cols := S rank in
  let asz := length (colsel a 0) in let bsz := length (colsel b 0) in let rsz := length (colsel res0 0) in
  if negb ((Z.to_nat ((a_k + ab - 1) / ab) =? asz)%nat && (Z.to_nat ((b_k + ab - 1) / ab) =? bsz)%nat) then None else
  let '(hi, lo) := offset_split ab cnv in
  let hi := Z.to_nat hi in
  let dsz := tensor_dsz asz bsz hi rsz rb ab lo in
  if fft && Nat.eqb dsz 0 then None else
  let A := prep_cols n asz (msb_mask ab a_k) a in
  let B := prep_cols n bsz (msb_mask ab b_k) b in
  let nrm := norm_for fft n rsz rb ab lo in
  let cell := if mode =? 0 then cell_apply fft n nrm dsz hi A B
              else if mode =? 1 then cell_add_assign fft n nrm dsz hi A B
              else cell_square fft n nrm dsz hi A B in
  Some (tensor_gen cell cols res0).

(* glwe_mul_plain / glwe_mul_plain_assign (assign: a = res, read before any column is overwritten) *)
Definition glwe_mul_plain (fft : bool) (n : nat) (cnv : Z) (ab rb : Z) (a_k b_k : Z)
           (a : list limbs) (b : limbs) (res0 : list limbs) : option (list limbs) :=
  let asz := length (colsel a 0) in let bsz := length b in let rsz := length (colsel res0 0) in
  if negb ((Z.to_nat ((a_k + ab - 1) / ab) =? asz)%nat && (Z.to_nat ((b_k + ab - 1) / ab) =? bsz)%nat) then None else
  let '(hi, lo) := offset_split ab cnv in
  let hi := Z.to_nat hi in
  if Nat.ltb (asz + bsz) hi then None else          (* the wrapped size cannot be taken from scratch *)
  let dsz := (asz + bsz - hi)%nat in
  if fft && Nat.eqb dsz 0 then None else
  let A := prep_cols n asz (msb_mask ab a_k) a in
  let B := cnv_prepare n bsz (msb_mask ab b_k) b in
  Some (map (fun q => big_nrm fft n rsz rb ab lo (cnv_apply fft n dsz hi (fst q) B)) (combine A res0)).

(* glwe_mul_const: the big temporary has a.size + b.len - hi limbs ; glwe_mul_const_assign: res.size() limbs *)
Definition glwe_mul_const (fft : bool) (n : nat) (assign : bool) (cnv : Z) (ab rb : Z)
           (a : list limbs) (b : list Z) (res0 : list limbs) : option (list limbs) :=
  let asz := length (colsel a 0) in let bsz := length b in let rsz := length (colsel res0 0) in
  let '(hi, lo) := offset_split ab cnv in
  let hi := Z.to_nat hi in
  if negb assign && Nat.ltb (asz + bsz) hi then None else
  let dsz := if assign then rsz else (asz + bsz - hi)%nat in
  if fft && Nat.eqb dsz 0 then None else
  Some (map (fun q => big_nrm fft n rsz rb ab lo (cnv_by_const fft n dsz hi (fst q) b)) (combine a res0)).
