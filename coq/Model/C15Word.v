(* C15 — the BDD evaluator of eval.rs (eval_level / execute_bdd_circuit) running on *ciphertexts*: the same two-buffer
   slot discipline as C13's [eval_stale], with an abstract homomorphic [cmux] instead of a Boolean selection, and the
   word-operation pipeline built on it: prepare (per-bit LWE extraction + circuit bootstrapping), FheUintHelper's input
   numbering, one circuit per output bit, repacking.  The ciphertext types and the operations on them are Section
   variables; what they are assumed to satisfy is stated where the theorems are (Proofs/C15WordProof.v).
   Every evaluation also returns the list of all ciphertexts it produced, so that the noise side condition
   "every intermediate ciphertext stays below the decoding threshold" can be stated.  No proofs in this file. *)
From Coq Require Import ZArith List Bool Arith.
From PV Require Import Model.C13Bdd Model.C15Uint.
Import ListNotations.

Section HEval.
  Variables glwe ggsw : Type.
  Variable cmux : glwe -> glwe -> ggsw -> glwe.        (* Cmux::cmux(res; t, f, s) = (t - f) * s + f *)
  Variables ct_zero ct_one : glwe.                       (* level[0] zeroed; level[1] = encode_coeff_i64(1) at scale 2^-2 *)

  Definition hnode (s : nat -> ggsw) (prev next : list glwe) (j : nat) (nd : node) : glwe :=
    match nd with
    | Cmux v hi lo => cmux (nth hi prev ct_zero) (nth lo prev ct_zero) (s v)
    | Copy => nth j prev ct_zero
    | Nonode => nth j next ct_zero
    end.
  Fixpoint hlevel (s : nat -> ggsw) (prev next : list glwe) (j : nat) (L : list node) : list glwe :=
    match L with
    | [] => []
    | nd :: tl => hnode s prev next j nd :: hlevel s prev next (S j) tl
    end.
  Definition hstate := (list glwe * list glwe)%type.
  Definition hstep (s : nat -> ggsw) (st : hstate) (L : list node) : hstate :=
    (hlevel s (fst st) (snd st) 0 L, fst st).
  Definition hinit (w : nat) : hstate :=
    let l := map (fun i => if Nat.eqb 1 i then ct_one else ct_zero) (seq 0 (2 * w)) in (firstn w l, skipn w l).
  Definition hroot (s : nat -> ggsw) (prev : list glwe) (L : list node) : glwe :=
    match L with
    | Cmux v hi lo :: _ => cmux (nth hi prev ct_zero) (nth lo prev ct_zero) (s v)
    | _ => ct_zero
    end.
  (* the level loop; second component: every slot of every level it wrote *)
  Fixpoint hrun (s : nat -> ggsw) (st : hstate) (lv : list (list node)) : hstate * list glwe :=
    match lv with
    | [] => (st, [])
    | L :: tl => let st' := hstep s st L in
                 let r := hrun s st' tl in (fst r, fst st' ++ snd r)
    end.
  Definition heval_levels (w : nat) (lv : list (list node)) (s : nat -> ggsw) : glwe * list glwe :=
    match lv with
    | [] => (ct_zero, [])
    | _ :: _ => let r := hrun s (hinit w) (removelast lv) in
                let out := hroot s (fst (fst r)) (last lv []) in (out, snd r ++ [out])
    end.
  (* one output bit: (result, all ciphertexts produced) *)
  Definition heval (c : circuit) (s : nat -> ggsw) : glwe * list glwe :=
    match c_width c with
    | O => (ct_zero, [])                               (* state_size == 0: out_i.data_mut().zero() *)
    | S _ => match levels_of c with
             | None => (ct_zero, [])
             | Some lv => heval_levels (c_width c) lv s
             end
    end.

  (* the word-operation pipeline *)
  Variable lwe : Type.
  Variable get_lwe : glwe -> Z -> lwe.                   (* FheUint::get_bit_lwe: key-switch, rotate, sample-extract *)
  Variable cbt : lwe -> ggsw.                            (* execute_to_constant(log_domain = 1) + ggsw_prepare *)
  Variable gpack : list glwe -> glwe.                    (* FheUint::pack of the output ciphertexts *)

  (* FheUintPrepared::prepare: selector i is the circuit bootstrapping of the LWE extracted at bit i *)
  Definition prepare_ct (c : glwe) : nat -> ggsw := fun i => cbt (get_lwe c (Z.of_nat i)).
  (* FheUintHelper::get_bit: a on input bits [0, 32), b on [32, 64) *)
  Definition helper2 (ka kb : nat -> ggsw) : nat -> ggsw := fun v => if (v <? 32)%nat then ka v else kb (v - 32)%nat.
  (* execute_bdd_circuit_2w_to_1w / 1w_to_1w: out[i] = circuit[i](inputs), i < 32, then pack *)
  Definition hword (circ : nat -> circuit) (s : nat -> ggsw) : glwe * list glwe :=
    let outs := map (fun i => heval (circ i) s) (seq 0 32) in
    (gpack (map fst outs), concat (map snd outs)).
  Definition hop2 (circ : nat -> circuit) (ca cb : glwe) : glwe * list glwe :=
    hword circ (helper2 (prepare_ct ca) (prepare_ct cb)).
  Definition hop1 (circ : nat -> circuit) (ca : glwe) : glwe * list glwe := hword circ (prepare_ct ca).
End HEval.
